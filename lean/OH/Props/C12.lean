/-
C12 — Python bindings return what the Rust core returns.

  "For every expression, time zone, country, coordinates and datetime (naive or aware), the Python
   OpeningHours methods (state, is_open/is_closed/is_unknown, next_change, intervals, normalize,
   str) return what the Rust core returns for the equivalent context, with 10000-01-01 reported as
   None and returned datetimes carrying the zone of the context or else of the input; validate(s)
   is true iff the constructor accepts s.  Invalid expressions, country codes and coordinates raise
   ParserError, UnknownCountryError and InvalidCoordinatesError respectively, and no call surfaces
   a Rust panic."

Model: `OH.Model.Py` — the binding's own logic over an abstract `Core` (parser, country table,
coordinate look-ups, chrono-tz, the naive-level evaluator are parameters: they are the subject of
C01–C11).  Helper lemmas: `OH.Proofs.Py`.  The theorems hold for EVERY `Core`; in particular for the
evaluator/tz models of `OH.Model` and for the values the real core returns (which is how the
correspondence driver `OH.Driver.Py` uses the model).

What "the equivalent context" is (`py_ctx_equiv`, rows `ctx_row_1 … ctx_row_13`):
  holidays  `country` given → that country's;  else coords given and `auto_country` not False →
            those of the country found at the coordinates;  else none
  locale    `timezone` given → that zone, with the coordinates attached iff coords are given and
            `auto_timezone` is not False;  else coords given and `auto_timezone` not False → the
            zone found at the coordinates, with the coordinates;  else no location (naive)
and what is evaluated / returned for the 2×2 combinations locale × input (`py_wall_*`,
`py_state_eq_core_*`, `py_next_change_eq_core_*`, `py_intervals_eq_core_*`):
  naive locale, naive input   core `NoLocation` at the input                      → naive
  naive locale, aware input   core `NoLocation` at the input's own wall-clock time → input's zone
  aware locale, aware input   core `TzLocation` at the input                       → context zone
  aware locale, naive input   the input is a wall-clock time of the context zone   → context zone
"The core" includes its generic layer `impl<L: Localize> OpeningHours<L>` (`OH.Model.Py.iterRange`,
`firstOfRange`, `nextChange`, `state`), modelled as of /repo dfe1ade: `iter_range` drops the local
spans the locale's clock skips (`naive(datetime(start)) ≥ end`), merges the same-kind neighbours they
separated, then maps the bounds with `datetime`.  The binding does not repeat any of this, it runs
the generic code with its own `PyLocation`; so for a context WITH a zone the results are those of the
LOCALIZED stream — `py_intervals_eq_core_zone_range/_from`, `py_next_change_eq_core_zone`, stated with
the zone conversions only (`OH.Spec.Py.zoneRanges`) and for EVERY input, including a naive reading
inside a gap of the context zone, which is the wall-clock time of no instant (the `_an` theorems say
nothing about it).  `state` is still evaluated on the wall clock alone (`py_state_eq_core`).

Status: every clause is proved in full for the model.  "No call surfaces a Rust panic" is proved
relative to the core (`py_no_panic_*`: the binding has no panic site of its own); when the core's
parser panics (it did on `10:00-12:00/30`, defect D1, repaired since) the constructor and `validate`
surface it as `PanicException` (`ctor_panic_iff`, `validate_panic_iff`).  PyO3's conversions are outside the model (runs only).
-/
import OH.Proofs.Py
namespace OH.Props.C12
open OH.Model OH.Model.Py OH.Spec.Py OH.Proofs.Py

variable (C : Core)

/-! ## Coordinates -/

/-- coordinates are accepted iff `lat ∈ [-90, 90]` and `lon ∈ [-180, 180]` (NaN and ±∞ are not
`Within` anything) -/
theorem coords_valid_iff (lat lon : Fl) :
    (∃ c, coordsNew lat lon = some c) ↔ (Within lat 90 ∧ Within lon 180) := by
  constructor
  · rintro ⟨c, h⟩
    exact ((coordsNew_eq_some_iff lat lon c).mp h).2
  · intro h
    exact ⟨⟨lat, lon⟩, (coordsNew_eq_some_iff lat lon _).mpr ⟨rfl, h⟩⟩

theorem coords_nan_invalid (x : Fl) : coordsNew .nan x = none ∧ coordsNew x .nan = none := by
  constructor
  · rfl
  · cases x <;> simp [coordsNew, Fl.isNan, Fl.lt, Fl.ofInt]

/-! ## The constructor: which context, which error, in which order -/

/-- **py_ctx_equiv.**  Whenever the coordinates are absent or valid (`coords`), the expression
parses (`e`) and the country is absent or known, the constructor succeeds and builds exactly the
context the property describes — for every combination of `timezone`, `country`, `coords`,
`auto_country`, `auto_timezone` (each flag `None`, `True` or `False`). -/
theorem py_ctx_equiv (a : Args C.Zone) (coords : Option Coords) (e : C.Expr)
    (hcoords : checkCoords a.coords = .ok coords) (hparse : C.parse a.oh = .ok e)
    (hcountry : CountryOK C a.country) :
    ∃ ctx, ctor C a = .ok ctx ∧ ctx.expr = e
      ∧ ctx.holidays = specHolidays a.country coords a.autoCountry
      ∧ ctx.locale = specLocale a.timezone coords a.autoTimezone := by
  unfold ctor
  simp only [hcoords, hparse, pickHolidays_spec C a.country coords a.autoCountry hcountry, pickLocale_spec]
  exact ⟨_, rfl, rfl, rfl, rfl⟩

/-- conversely a built context is the described one -/
theorem py_ctx_equiv_conv (a : Args C.Zone) (ctx : PyCtx C) (h : ctor C a = .ok ctx) :
    ∃ coords, checkCoords a.coords = .ok coords ∧ C.parse a.oh = .ok ctx.expr ∧ CountryOK C a.country
      ∧ ctx.holidays = specHolidays a.country coords a.autoCountry
      ∧ ctx.locale = specLocale a.timezone coords a.autoTimezone := by
  unfold ctor at h
  cases hc : checkCoords a.coords with
  | error e => rw [hc] at h; cases h
  | ok coords =>
    rw [hc] at h
    cases hp : C.parse a.oh with
    | panic s => rw [hp] at h; cases h
    | err => rw [hp] at h; cases h
    | ok e =>
      rw [hp] at h
      have hco : CountryOK C a.country := by
        intro iso hiso
        simp only [hiso, pickHolidays] at h
        cases hh : C.countryHolidays iso with
        | none => rw [hh] at h; cases h
        | some x => exact ⟨x, rfl⟩
      simp only [pickHolidays_spec C a.country coords a.autoCountry hco, pickLocale_spec] at h
      cases h
      exact ⟨coords, rfl, rfl, hco, rfl, rfl⟩

/-- **py_ctx_equiv, as a table.**  For each of the 2 × 3 × 3 × 3 × 3 argument combinations —
`timezone` ∈ {absent, given}, `country` ∈ {absent, known, unknown}, `coords` ∈ {absent, valid,
invalid}, `auto_country`, `auto_timezone` ∈ {None, True, False} — and each parser outcome, the
constructor's outcome (which error, or which kind of context) is the entry of `OH.Spec.Py.table`:
invalid coordinates before a parser error before an unknown country. -/
theorem py_ctx_table (a : Args C.Zone) :
    outcomeOf C (ctor C a)
      = table a.timezone.isSome (givenCountry C a.country) (givenCoords a.coords) a.autoCountry a.autoTimezone
          (parseKind C a.oh) := by
  obtain ⟨oh, tz, country, coords, ac, at_⟩ := a
  simp only [ctor, givenCoords, givenCountry, parseKind, checkCoords]
  cases coords with
  | some p =>
    obtain ⟨lat, lon⟩ := p
    cases hc : coordsNew lat lon with
    | none => simp [table, outcomeOf, hc]
    | some v =>
      cases hp : C.parse oh with
      | panic s => simp [table, outcomeOf, hc]
      | err => simp [table, outcomeOf, hc]
      | ok e =>
        cases country with
        | some iso =>
          cases hh : C.countryHolidays iso with
          | none => simp [table, outcomeOf, pickHolidays, hh, hc]
          | some x =>
            cases tz <;> cases at_ with
            | none => simp [table, outcomeOf, pickHolidays, hh, hc, pickLocale, HolidaySource.kind, LocaleKind.kind]
            | some b => cases b <;> simp [table, outcomeOf, pickHolidays, hh, hc, pickLocale, HolidaySource.kind, LocaleKind.kind]
        | none =>
          cases tz <;> cases at_ with
          | none =>
            cases ac with
            | none => simp [table, outcomeOf, pickHolidays, hc, pickLocale, HolidaySource.kind, LocaleKind.kind]
            | some c => cases c <;> simp [table, outcomeOf, pickHolidays, hc, pickLocale, HolidaySource.kind, LocaleKind.kind]
          | some b =>
            cases ac with
            | none => cases b <;> simp [table, outcomeOf, pickHolidays, hc, pickLocale, HolidaySource.kind, LocaleKind.kind]
            | some c => cases b <;> cases c <;> simp [table, outcomeOf, pickHolidays, hc, pickLocale, HolidaySource.kind, LocaleKind.kind]
  | none =>
    cases hp : C.parse oh with
    | panic s => simp [table, outcomeOf]
    | err => simp [table, outcomeOf]
    | ok e =>
      cases country with
      | some iso =>
        cases hh : C.countryHolidays iso with
        | none => simp [table, outcomeOf, pickHolidays, hh]
        | some x =>
          cases tz <;> simp [table, outcomeOf, pickHolidays, hh, pickLocale, HolidaySource.kind, LocaleKind.kind]
      | none =>
        cases tz <;> simp [table, outcomeOf, pickHolidays, pickLocale, HolidaySource.kind, LocaleKind.kind]

/-! ### the thirteen rows (six locales, four holiday sources, three errors) -/

section rows
variable {C}
variable {a : Args C.Zone} {ctx : PyCtx C} (h : ctor C a = .ok ctx)
include h

private theorem row_aux : ∃ coords, checkCoords a.coords = .ok coords
      ∧ ctx.holidays = specHolidays a.country coords a.autoCountry
      ∧ ctx.locale = specLocale a.timezone coords a.autoTimezone := by
  obtain ⟨coords, h1, _, _, h2, h3⟩ := py_ctx_equiv_conv C a ctx h
  exact ⟨coords, h1, h2, h3⟩

/-- 1. a time zone and no coordinates: that zone, whatever `auto_timezone` -/
theorem ctx_row_1 (tz : C.Zone) (htz : a.timezone = some tz) (hco : a.coords = none) :
    ctx.locale = .awareTz tz := by
  obtain ⟨coords, h1, _, h3⟩ := row_aux h
  rw [hco, checkCoords_none] at h1
  cases h1
  rw [h3, htz]
  rfl

/-- 2. a time zone and coordinates, `auto_timezone` not `False`: the zone with the coordinates -/
theorem ctx_row_2 (tz : C.Zone) (lat lon : Fl) (htz : a.timezone = some tz) (hco : a.coords = some (lat, lon))
    (hat : a.autoTimezone ≠ some false) : ctx.locale = .awareTzCoords tz ⟨lat, lon⟩ := by
  obtain ⟨coords, h1, _, h3⟩ := row_aux h
  rw [hco] at h1
  obtain ⟨h', _⟩ | ⟨lat', lon', v, h', hv, rfl⟩ := (checkCoords_ok_iff _ _).mp h1
  · cases h'
  · cases h'
    have := ((coordsNew_eq_some_iff _ _ _).mp hv).1
    subst this
    rw [h3, htz]
    simp only [specLocale, hat, if_false]

/-- 3. a time zone and coordinates, `auto_timezone=False`: the zone alone — the coordinates are NOT
used for sun events (sunrise 07:00, sunset 19:00 …) -/
theorem ctx_row_3 (tz : C.Zone) (htz : a.timezone = some tz) (hat : a.autoTimezone = some false) :
    ctx.locale = .awareTz tz := by
  obtain ⟨coords, _, _, h3⟩ := row_aux h
  rw [h3, htz, hat]
  cases coords <;> rfl

/-- 4. no time zone, coordinates, `auto_timezone` not `False`: the zone found at the coordinates -/
theorem ctx_row_4 (lat lon : Fl) (htz : a.timezone = none) (hco : a.coords = some (lat, lon))
    (hat : a.autoTimezone ≠ some false) : ctx.locale = .awareFromCoords ⟨lat, lon⟩ := by
  obtain ⟨coords, h1, _, h3⟩ := row_aux h
  rw [hco] at h1
  obtain ⟨h', _⟩ | ⟨lat', lon', v, h', hv, rfl⟩ := (checkCoords_ok_iff _ _).mp h1
  · cases h'
  · cases h'
    have := ((coordsNew_eq_some_iff _ _ _).mp hv).1
    subst this
    rw [h3, htz]
    simp only [specLocale, hat, if_false]

/-- 5. no time zone, `auto_timezone=False`: naive, coordinates or not -/
theorem ctx_row_5 (htz : a.timezone = none) (hat : a.autoTimezone = some false) : ctx.locale = .naive := by
  obtain ⟨coords, _, _, h3⟩ := row_aux h
  rw [h3, htz, hat]
  cases coords <;> rfl

/-- 6. neither time zone nor coordinates: naive -/
theorem ctx_row_6 (htz : a.timezone = none) (hco : a.coords = none) : ctx.locale = .naive := by
  obtain ⟨coords, h1, _, h3⟩ := row_aux h
  rw [hco, checkCoords_none] at h1
  cases h1
  rw [h3, htz]
  rfl

/-- 7. a country code: its holidays, whatever the coordinates and `auto_country` -/
theorem ctx_row_7 (iso : String) (hc : a.country = some iso) : ctx.holidays = .country iso := by
  obtain ⟨coords, _, h2, _⟩ := row_aux h
  rw [h2, hc]
  rfl

/-- 8. no country, coordinates, `auto_country` not `False`: the country found at the coordinates -/
theorem ctx_row_8 (lat lon : Fl) (hc : a.country = none) (hco : a.coords = some (lat, lon))
    (hac : a.autoCountry ≠ some false) : ctx.holidays = .fromCoords ⟨lat, lon⟩ := by
  obtain ⟨coords, h1, h2, _⟩ := row_aux h
  rw [hco] at h1
  obtain ⟨h', _⟩ | ⟨lat', lon', v, h', hv, rfl⟩ := (checkCoords_ok_iff _ _).mp h1
  · cases h'
  · cases h'
    have := ((coordsNew_eq_some_iff _ _ _).mp hv).1
    subst this
    rw [h2, hc]
    simp only [specHolidays, hac, if_false]

/-- 9. no country, `auto_country=False`: no holidays -/
theorem ctx_row_9 (hc : a.country = none) (hac : a.autoCountry = some false) : ctx.holidays = .none := by
  obtain ⟨coords, _, h2, _⟩ := row_aux h
  rw [h2, hc, hac]
  cases coords <;> rfl

/-- 10. neither country nor coordinates: no holidays -/
theorem ctx_row_10 (hc : a.country = none) (hco : a.coords = none) : ctx.holidays = .none := by
  obtain ⟨coords, h1, h2, _⟩ := row_aux h
  rw [hco, checkCoords_none] at h1
  cases h1
  rw [h2, hc]
  rfl

end rows

/-- 11. invalid coordinates raise `InvalidCoordinatesError` FIRST: whatever the expression (even
unparseable, even one the parser panics on) and the country (even unknown) -/
theorem ctx_row_11 (a : Args C.Zone) (lat lon : Fl) (hco : a.coords = some (lat, lon))
    (hbad : ¬ (Within lat 90 ∧ Within lon 180)) : ctor C a = .error .invalidCoordinates := by
  unfold ctor
  rw [hco, checkCoords_some_invalid ((coordsNew_eq_none_iff lat lon).mpr hbad)]

/-- 12. with coordinates absent or valid, an unparseable expression raises `ParserError`, whatever
the country (even unknown) -/
theorem ctx_row_12 (a : Args C.Zone) (coords : Option Coords) (hco : checkCoords a.coords = .ok coords)
    (hp : C.parse a.oh = .err) : ctor C a = .error .parserError := by
  unfold ctor
  simp only [hco, hp]

/-- 13. with coordinates absent or valid and a parseable expression, an unknown country code raises
`UnknownCountryError` -/
theorem ctx_row_13 (a : Args C.Zone) (coords : Option Coords) (e : C.Expr) (iso : String)
    (hco : checkCoords a.coords = .ok coords) (hp : C.parse a.oh = .ok e)
    (hc : a.country = some iso) (hunk : C.countryHolidays iso = none) :
    ctor C a = .error .unknownCountry := by
  unfold ctor
  simp only [hco, hp, hc, pickHolidays, hunk]

/-! ### the object behind a built context, in the core's own terms -/

/-- no location: `PyLocation::Naive` (evaluates like `NoLocation`) -/
theorem built_locale_naive (c : PyCtx C) (h : c.locale = .naive) : c.build.locale = .naive := by
  simp only [PyCtx.build, LocaleKind.pyLocation, LocaleKind.tzLoc?, h]
/-- `TzLocation::new(tz)` -/
theorem built_locale_tz (c : PyCtx C) (tz : C.Zone) (h : c.locale = .awareTz tz) :
    c.build.locale = .aware ⟨tz, none⟩ := by
  simp only [PyCtx.build, LocaleKind.pyLocation, LocaleKind.tzLoc?, h]
/-- `TzLocation::new(tz).with_coords(coords)` -/
theorem built_locale_tz_coords (c : PyCtx C) (tz : C.Zone) (x : Coords) (h : c.locale = .awareTzCoords tz x) :
    c.build.locale = .aware ⟨tz, some x⟩ := by
  simp only [PyCtx.build, LocaleKind.pyLocation, LocaleKind.tzLoc?, h]
/-- `TzLocation::from_coords(coords)`: the zone found at the coordinates, with the coordinates -/
theorem built_locale_from_coords (c : PyCtx C) (x : Coords) (h : c.locale = .awareFromCoords x) :
    c.build.locale = .aware ⟨C.coordsZone x, some x⟩ := by
  simp only [PyCtx.build, LocaleKind.pyLocation, LocaleKind.tzLoc?, h]
/-- `Context::default()` / `.with_holidays(country.holidays())` /
`.with_holidays(Context::from_coords(coords).holidays)` -/
theorem built_holidays (c : PyCtx C) :
    c.build.hol = (match c.holidays with
                   | .none => C.holDefault
                   | .country iso => (C.countryHolidays iso).getD C.holDefault
                   | .fromCoords x => C.coordsHolidays x) := by
  cases h : c.holidays <;> simp only [PyCtx.build, HolidaySource.hol, h]

/-! ### py_errors: which exception for which failure, exactly -/

theorem invalidCoordinates_iff (a : Args C.Zone) :
    ctor C a = .error .invalidCoordinates ↔
      ∃ lat lon, a.coords = some (lat, lon) ∧ ¬ (Within lat 90 ∧ Within lon 180) := by
  rw [ctor_error_iff]
  constructor
  · rintro (h | ⟨coords, _, (⟨_, h⟩ | ⟨s, _, h⟩ | ⟨ex, _, h⟩)⟩)
    · obtain ⟨_, lat, lon, h1, h2⟩ := (checkCoords_error_iff _ _).mp h
      exact ⟨lat, lon, h1, (coordsNew_eq_none_iff lat lon).mp h2⟩
    · cases h
    · cases h
    · have := ((pickHolidays_error_iff C _ _ _ _).mp h).1
      cases this
  · rintro ⟨lat, lon, h1, h2⟩
    exact .inl ((checkCoords_error_iff _ _).mpr ⟨rfl, lat, lon, h1, (coordsNew_eq_none_iff lat lon).mpr h2⟩)

theorem parserError_iff (a : Args C.Zone) :
    ctor C a = .error .parserError ↔ ((∃ coords, checkCoords a.coords = .ok coords) ∧ C.parse a.oh = .err) := by
  rw [ctor_error_iff]
  constructor
  · rintro (h | ⟨coords, hc, (⟨h, _⟩ | ⟨s, _, h⟩ | ⟨ex, _, h⟩)⟩)
    · have := ((checkCoords_error_iff _ _).mp h).1
      cases this
    · exact ⟨⟨coords, hc⟩, h⟩
    · cases h
    · have := ((pickHolidays_error_iff C _ _ _ _).mp h).1
      cases this
  · rintro ⟨⟨coords, h1⟩, h2⟩
    exact .inr ⟨coords, h1, .inl ⟨h2, rfl⟩⟩

theorem unknownCountry_iff (a : Args C.Zone) :
    ctor C a = .error .unknownCountry ↔
      ((∃ coords, checkCoords a.coords = .ok coords) ∧ (∃ e, C.parse a.oh = .ok e)
        ∧ ∃ iso, a.country = some iso ∧ C.countryHolidays iso = none) := by
  rw [ctor_error_iff]
  constructor
  · rintro (h | ⟨coords, hc, (⟨_, h⟩ | ⟨s, _, h⟩ | ⟨ex, hp, h⟩)⟩)
    · have := ((checkCoords_error_iff _ _).mp h).1
      cases this
    · cases h
    · cases h
    · exact ⟨⟨coords, hc⟩, ⟨ex, hp⟩, ((pickHolidays_error_iff C _ _ _ _).mp h).2⟩
  · rintro ⟨⟨coords, h1⟩, ⟨e, h2⟩, h3⟩
    exact .inr ⟨coords, h1, .inr (.inr ⟨e, h2, (pickHolidays_error_iff C _ _ _ _).mpr ⟨rfl, h3⟩⟩)⟩

/-- the constructor surfaces a panic exactly when the core's parser panics (on coordinates that
passed): the binding adds no panic site of its own.  (Defect D1, `10:00-12:00/30`, was such a panic.) -/
theorem ctor_panic_iff (a : Args C.Zone) (s : String) :
    ctor C a = .error (.panic s) ↔ ((∃ coords, checkCoords a.coords = .ok coords) ∧ C.parse a.oh = .panic s) := by
  rw [ctor_error_iff]
  constructor
  · rintro (h | ⟨coords, hc, (⟨_, h⟩ | ⟨s', hp, h⟩ | ⟨ex, _, h⟩)⟩)
    · have := ((checkCoords_error_iff _ _).mp h).1
      cases this
    · cases h
    · cases h; exact ⟨⟨coords, hc⟩, hp⟩
    · have := ((pickHolidays_error_iff C _ _ _ _).mp h).1
      cases this
  · rintro ⟨⟨coords, h1⟩, h2⟩
    exact .inr ⟨coords, h1, .inr (.inl ⟨s, h2, rfl⟩)⟩

/-- **py_errors.**  A constructor call either succeeds or raises exactly one of the three
exceptions (or the parser's panic), decided in this order: coordinates, expression, country. -/
theorem py_errors (a : Args C.Zone) :
    (∃ ctx, ctor C a = .ok ctx)
    ∨ ctor C a = .error .invalidCoordinates
    ∨ ctor C a = .error .parserError
    ∨ ctor C a = .error .unknownCountry
    ∨ ∃ s, ctor C a = .error (.panic s) := by
  cases h : ctor C a with
  | ok ctx => exact .inl ⟨ctx, rfl⟩
  | error e =>
    cases e with
    | invalidCoordinates => exact .inr (.inl rfl)
    | parserError => exact .inr (.inr (.inl rfl))
    | unknownCountry => exact .inr (.inr (.inr (.inl rfl)))
    | panic s => exact .inr (.inr (.inr (.inr ⟨s, rfl⟩)))

/-! ## validate -/

/-- **validate_iff_ctor_parses.**  `validate(s)` is `True` iff the constructor accepts `s` (with no
other argument) … -/
theorem validate_iff_ctor_parses (s : String) :
    validate C s = .ok true ↔ ∃ ctx, ctor C ⟨s, none, none, none, some true, some true⟩ = .ok ctx := by
  unfold validate ctor
  simp only [checkCoords_none]
  cases C.parse s with
  | ok e => simp [pickHolidays]
  | err => simp
  | panic p => simp

/-- … `False` iff it raises `ParserError`, and it panics iff the constructor does -/
theorem validate_false_iff (s : String) :
    validate C s = .ok false ↔ ctor C ⟨s, none, none, none, some true, some true⟩ = .error .parserError := by
  unfold validate ctor
  simp only [checkCoords_none]
  cases C.parse s with
  | ok e => simp [pickHolidays]
  | err => simp
  | panic p => simp

theorem validate_panic_iff (s p : String) :
    validate C s = .error (.panic p) ↔ ctor C ⟨s, none, none, none, some true, some true⟩ = .error (.panic p) := by
  unfold validate ctor
  simp only [checkCoords_none]
  cases C.parse s with
  | ok e => simp [pickHolidays]
  | err => simp
  | panic p => simp

/-- for ANY other arguments: an accepted call implies `validate` is true, and `validate` false means
the call raises `ParserError` unless the coordinates were rejected first -/
theorem ctor_ok_validate (a : Args C.Zone) (ctx : PyCtx C) (h : ctor C a = .ok ctx) :
    validate C a.oh = .ok true := by
  obtain ⟨_, _, hp, _⟩ := py_ctx_equiv_conv C a ctx h
  unfold validate
  rw [hp]

theorem validate_false_ctor (a : Args C.Zone) (h : validate C a.oh = .ok false) :
    ctor C a = .error .parserError ∨ ctor C a = .error .invalidCoordinates := by
  have hp : C.parse a.oh = .err := by
    unfold validate at h
    cases hp : C.parse a.oh with
    | ok e => rw [hp] at h; cases h
    | err => rfl
    | panic p => rw [hp] at h; cases h
  cases hc : checkCoords a.coords with
  | error e =>
    obtain ⟨rfl, lat, lon, h1, h2⟩ := (checkCoords_error_iff _ _).mp hc
    exact .inr (ctx_row_11 C a lat lon h1 ((coordsNew_eq_none_iff lat lon).mp h2))
  | ok coords => exact .inl (ctx_row_12 C a coords hc hp)

/-! ## Which wall-clock time is evaluated (`PyLocation::naive`) -/

theorem py_wall_naive_naive (n : Int) : wall C .naive (.naive n) = n := rfl
/-- an aware input on a naive context: its OWN wall-clock time (`naive_local`) -/
theorem py_wall_naive_aware (a : Aware C.Zone) : wall C .naive (.aware a) = C.tzNaive a.zone a.utc := rfl
/-- a naive input on an aware context: taken as wall-clock time of the context zone -/
theorem py_wall_aware_naive (loc : TzLoc C.Zone) (n : Int) : wall C (.aware loc) (.naive n) = n := rfl
/-- an aware input on an aware context: converted to the context zone -/
theorem py_wall_aware_aware (loc : TzLoc C.Zone) (a : Aware C.Zone) :
    wall C (.aware loc) (.aware a) = C.tzNaive loc.tz a.utc := rfl

/-! ## state, is_open, is_closed, is_unknown -/

/-- **py_state_eq_core** (general form): the state is the core's state of the equivalent core
context, read on its wall clock, at the wall-clock time of the table above -/
theorem py_state_eq_core (o : PyOH C) (t : DateTimeMaybeAware C.Zone) :
    o.state t = Py.state C (coreWall C o.locale) o.expr o.hol (wall C o.locale t) := by
  unfold PyOH.state
  exact state_eq_of_naive C _ _ _ _ _ _ (pyLocalize_ev C o.locale) (by rw [coreWall_naive, pyLocalize_naive])

/-- naive context, naive input: `OpeningHours<NoLocation>::state` at the input -/
theorem py_state_eq_core_nn (o : PyOH C) (hl : o.locale = .naive) (n : Int) :
    o.state (.naive n) = Py.state C (noLocation C) o.expr o.hol n := by
  rw [py_state_eq_core, hl]; rfl

/-- naive context, aware input: `OpeningHours<NoLocation>::state` at the input's wall-clock time -/
theorem py_state_eq_core_na (o : PyOH C) (hl : o.locale = .naive) (a : Aware C.Zone) :
    o.state (.aware a) = Py.state C (noLocation C) o.expr o.hol (C.tzNaive a.zone a.utc) := by
  rw [py_state_eq_core, hl]; rfl

/-- aware context, aware input: `OpeningHours<TzLocation>::state` at the input -/
theorem py_state_eq_core_aa (o : PyOH C) (loc : TzLoc C.Zone) (hl : o.locale = .aware loc) (a : Aware C.Zone) :
    o.state (.aware a) = Py.state C (tzLocation C loc) o.expr o.hol a := by
  unfold PyOH.state
  rw [hl]
  exact state_eq_of_naive C _ _ _ _ _ _ rfl rfl

/-- aware context, naive input that is the wall-clock time of the instant `u` in the context zone:
`OpeningHours<TzLocation>::state` at that instant (in whatever zone it is expressed) -/
theorem py_state_eq_core_an (o : PyOH C) (loc : TzLoc C.Zone) (hl : o.locale = .aware loc) (n u : Int)
    (z : C.Zone) (hu : C.tzNaive loc.tz u = n) :
    o.state (.naive n) = Py.state C (tzLocation C loc) o.expr o.hol ⟨u, z⟩ := by
  unfold PyOH.state
  rw [hl]
  exact state_eq_of_naive C _ _ _ _ _ _ rfl hu.symm

theorem py_is_open (o : PyOH C) (t : DateTimeMaybeAware C.Zone) (k : Kind) (h : o.state t = .ok k) :
    o.isOpen t = .ok (k == .open) ∧ o.isClosed t = .ok (k == .closed) ∧ o.isUnknown t = .ok (k == .unknown) := by
  simp only [PyOH.isOpen, PyOH.isClosed, PyOH.isUnknown, h, and_self]

/-- exactly one of the three predicates holds -/
theorem py_is_exclusive (o : PyOH C) (t : DateTimeMaybeAware C.Zone) (k : Kind) (h : o.state t = .ok k) :
    ∃ a b c, o.isOpen t = .ok a ∧ o.isClosed t = .ok b ∧ o.isUnknown t = .ok c
      ∧ (a.toNat + b.toNat + c.toNat = 1) := by
  obtain ⟨h1, h2, h3⟩ := py_is_open C o t k h
  refine ⟨_, _, _, h1, h2, h3, ?_⟩
  cases k <;> decide

/-! ## next_change -/

/-- **py_next_change_eq_core**, naive context, naive input: the core's `NoLocation` result, naive.
(`next_change` of the core already answers `None` from `DATE_END` on.) -/
theorem py_next_change_eq_core_nn (o : PyOH C) (hl : o.locale = .naive) (n : Int) :
    o.nextChange (.naive n)
      = (match Py.nextChange C (noLocation C) o.expr o.hol n with
         | .error p => .error p
         | .ok r => .ok (r.map .naive)) := by
  unfold PyOH.nextChange
  rw [hl, nextChange_sim (sim_pyNaive C) o.expr o.hol (.naive n) n rfl]
  cases Py.nextChange C (noLocation C) o.expr o.hol n with
  | error p => rfl
  | ok r => cases r <;> rfl

/-- naive context, aware input: the core's `NoLocation` result at the input's own wall-clock time,
carrying the zone of the input -/
theorem py_next_change_eq_core_na (o : PyOH C) (hl : o.locale = .naive) (a : Aware C.Zone) :
    o.nextChange (.aware a)
      = (match Py.nextChange C (noLocation C) o.expr o.hol (C.tzNaive a.zone a.utc) with
         | .error p => .error p
         | .ok r => attachOpt C (some a.zone) r) := by
  unfold PyOH.nextChange
  rw [hl, nextChange_sim (sim_pyNaive C) o.expr o.hol (.aware a) (C.tzNaive a.zone a.utc) rfl]
  cases Py.nextChange C (noLocation C) o.expr o.hol (C.tzNaive a.zone a.utc) with
  | error p => rfl
  | ok r =>
    cases r with
    | none => rfl
    | some m =>
      simp only [Option.map, DateTimeMaybeAware.orWithTimezoneOf, DateTimeMaybeAware.orWithTimezone,
        attachOpt, attach]
      cases C.tzDatetime a.zone m <;> rfl

/-- aware context, any input `t` whose wall-clock time in the context zone is that of the aware
value `a`: the core's `TzLocation` result at `a`, in the zone of the context.  For an aware input
take `a` = the input (`py_next_change_eq_core_aa`); a naive input is the wall-clock time of
`a` (`py_next_change_eq_core_an`). -/
theorem py_next_change_eq_core_aware (o : PyOH C) (loc : TzLoc C.Zone) (hl : o.locale = .aware loc)
    (t : DateTimeMaybeAware C.Zone) (a : Aware C.Zone) (hw : wall C (.aware loc) t = C.tzNaive loc.tz a.utc) :
    o.nextChange t
      = (match Py.nextChange C (tzLocation C loc) o.expr o.hol a with
         | .error p => .error p
         | .ok r => .ok (r.map .aware)) := by
  unfold PyOH.nextChange
  rw [hl, nextChange_sim (sim_pyAware C loc) o.expr o.hol t a ((pyLocalize_naive C _ t).trans hw)]
  cases Py.nextChange C (tzLocation C loc) o.expr o.hol a with
  | error p => rfl
  | ok r =>
    cases r with
    | none => rfl
    | some a' =>
      -- the result is already aware: `or_with_timezone_of` leaves it alone
      cases t <;> rfl

theorem py_next_change_eq_core_aa (o : PyOH C) (loc : TzLoc C.Zone) (hl : o.locale = .aware loc) (a : Aware C.Zone) :
    o.nextChange (.aware a)
      = (match Py.nextChange C (tzLocation C loc) o.expr o.hol a with
         | .error p => .error p
         | .ok r => .ok (r.map .aware)) :=
  py_next_change_eq_core_aware C o loc hl (.aware a) a rfl

theorem py_next_change_eq_core_an (o : PyOH C) (loc : TzLoc C.Zone) (hl : o.locale = .aware loc) (n u : Int)
    (z : C.Zone) (hu : C.tzNaive loc.tz u = n) :
    o.nextChange (.naive n)
      = (match Py.nextChange C (tzLocation C loc) o.expr o.hol ⟨u, z⟩ with
         | .error p => .error p
         | .ok r => .ok (r.map .aware)) :=
  py_next_change_eq_core_aware C o loc hl (.naive n) ⟨u, z⟩ hu.symm

/-- **zone carried** by `next_change`: of the context, else of the input, else naive -/
theorem py_next_change_zone (o : PyOH C) (t r : DateTimeMaybeAware C.Zone)
    (h : o.nextChange t = .ok (some r)) : r.timezone = resultZone C o.locale t.timezone := by
  cases hl : o.locale with
  | naive =>
    cases t with
    | naive n =>
      rw [py_next_change_eq_core_nn C o hl] at h
      cases hc : Py.nextChange C (noLocation C) o.expr o.hol n with
      | error p => rw [hc] at h; cases h
      | ok r' =>
        rw [hc] at h
        cases r' with
        | none => cases h
        | some m => cases h; rfl
    | aware a =>
      rw [py_next_change_eq_core_na C o hl] at h
      cases hc : Py.nextChange C (noLocation C) o.expr o.hol (C.tzNaive a.zone a.utc) with
      | error p => rw [hc] at h; cases h
      | ok r' =>
        rw [hc] at h
        cases r' with
        | none => cases h
        | some m =>
          simp only [attachOpt, attach] at h
          cases hd : C.tzDatetime a.zone m with
          | error p => rw [hd] at h; cases h
          | ok u => rw [hd] at h; cases h; rfl
  | aware loc =>
    unfold PyOH.nextChange at h
    rw [hl] at h
    cases hn : Py.nextChange C (pyLocalize C (.aware loc)) o.expr o.hol t with
    | error p => rw [hn] at h; cases h
    | ok x =>
      rw [hn] at h
      cases x with
      | none => cases h
      | some x =>
        -- the core's result is `loc.datetime(…)`: aware, in the zone of the context, and
        -- `or_with_timezone_of` leaves an aware value alone
        obtain ⟨u, rfl⟩ := nextChange_pyAware_some C loc o.expr o.hol t x hn
        cases t <;> (cases h; rfl)

/-- **`DATE_END` ↦ `None`**: the core's generic `next_change` never returns an instant that reads
10000-01-01 or later on the context's wall clock (the binding relies on this check of the core: it
does not apply `map_date_limit` to `next_change`) … -/
theorem core_next_change_before_date_end {DT : Type} (L : Localize C DT) (e : C.Expr) (h : C.Hol) (t r : DT)
    (hr : Py.nextChange C L e h t = .ok (some r)) : L.naive r < instEnd :=
  nextChange_before_date_end C L e h t r hr

/-- … hence for Python: with a naive context a returned naive `next_change` is before 10000-01-01,
and with an aware context the returned value reads before 10000-01-01 in the context zone -/
theorem py_next_change_before_date_end_nn (o : PyOH C) (hl : o.locale = .naive) (n : Int)
    (r : DateTimeMaybeAware C.Zone) (h : o.nextChange (.naive n) = .ok (some r)) :
    ∃ m, r = .naive m ∧ m < instEnd := by
  rw [py_next_change_eq_core_nn C o hl] at h
  cases hc : Py.nextChange C (noLocation C) o.expr o.hol n with
  | error p => rw [hc] at h; cases h
  | ok r' =>
    rw [hc] at h
    cases r' with
    | none => cases h
    | some m =>
      cases h
      exact ⟨m, rfl, core_next_change_before_date_end C (noLocation C) o.expr o.hol n m hc⟩

theorem py_next_change_before_date_end_aware (o : PyOH C) (loc : TzLoc C.Zone) (hl : o.locale = .aware loc)
    (t r : DateTimeMaybeAware C.Zone) (h : o.nextChange t = .ok (some r)) :
    ∃ u, r = .aware ⟨u, loc.tz⟩ ∧ C.tzNaive loc.tz u < instEnd := by
  unfold PyOH.nextChange at h
  rw [hl] at h
  cases hn : Py.nextChange C (pyLocalize C (.aware loc)) o.expr o.hol t with
  | error p => rw [hn] at h; cases h
  | ok x =>
    rw [hn] at h
    cases x with
    | none => cases h
    | some x =>
      obtain ⟨u, rfl⟩ := nextChange_pyAware_some C loc o.expr o.hol t x hn
      have hlt : C.tzNaive loc.tz u < instEnd :=
        nextChange_before_date_end C (pyLocalize C (.aware loc)) o.expr o.hol t _ hn
      cases t <;> (cases h; exact ⟨u, rfl, hlt⟩)

/-! ## intervals -/

/-- **py_intervals_eq_core**, naive context: the core's `NoLocation` ranges over the inputs'
wall-clock times; each bound carries the zone of `start`, else of `end`, else none; an end that
reads 10000-01-01 is `None`.  Without `end` the window is open-ended (`iter_from`). -/
theorem py_intervals_eq_core_naive (o : PyOH C) (hl : o.locale = .naive) (start : DateTimeMaybeAware C.Zone)
    (stop : Option (DateTimeMaybeAware C.Zone)) :
    o.intervals start stop
      = (match coreRangesNaive C o.expr o.hol start stop with
         | .error p => .error p
         | .ok l => itemsOfNaive C (PyOH.preferTimezone start stop) l) := by
  unfold PyOH.intervals coreRangesNaive
  rw [hl]
  cases stop with
  | some s =>
    dsimp only
    rw [iterRange_sim (sim_pyNaive C) o.expr o.hol start s _ _ rfl rfl]
    cases iterRange C (noLocation C) o.expr o.hol (DateTimeMaybeAware.asNaiveLocal C start)
        (DateTimeMaybeAware.asNaiveLocal C s) with
    | error p => rfl
    | ok l => exact mapItems_naive C _ l
  | none =>
    dsimp only
    rw [iterFrom_sim (sim_pyNaive C) o.expr o.hol start _ rfl]
    cases iterFrom C (noLocation C) o.expr o.hol (DateTimeMaybeAware.asNaiveLocal C start) with
    | error p => rfl
    | ok l => exact mapItems_naive C _ l

/-- aware context, window given by aware values `a`, `b` with the same context-zone wall-clock
times as the inputs (the inputs themselves when they are aware): the core's `TzLocation` ranges, in
the zone of the context whatever the inputs' zones -/
theorem py_intervals_eq_core_aware_range (o : PyOH C) (loc : TzLoc C.Zone) (hl : o.locale = .aware loc)
    (start stop : DateTimeMaybeAware C.Zone) (a b : Aware C.Zone)
    (ha : wall C (.aware loc) start = C.tzNaive loc.tz a.utc)
    (hb : wall C (.aware loc) stop = C.tzNaive loc.tz b.utc) :
    o.intervals start (some stop)
      = (match iterRange C (tzLocation C loc) o.expr o.hol a b with
         | .error p => .error p
         | .ok l => .ok (l.map (itemOfAware C))) := by
  unfold PyOH.intervals
  rw [hl]
  dsimp only
  rw [iterRange_sim (sim_pyAware C loc) o.expr o.hol start stop a b
    ((pyLocalize_naive C _ start).trans ha) ((pyLocalize_naive C _ stop).trans hb)]
  cases iterRange C (tzLocation C loc) o.expr o.hol a b with
  | error p => rfl
  | ok l => exact mapItems_aware C _ l

/-- … and without `end`: `iter_from` -/
theorem py_intervals_eq_core_aware_from (o : PyOH C) (loc : TzLoc C.Zone) (hl : o.locale = .aware loc)
    (start : DateTimeMaybeAware C.Zone) (a : Aware C.Zone)
    (ha : wall C (.aware loc) start = C.tzNaive loc.tz a.utc) :
    o.intervals start none
      = (match iterFrom C (tzLocation C loc) o.expr o.hol a with
         | .error p => .error p
         | .ok l => .ok (l.map (itemOfAware C))) := by
  unfold PyOH.intervals
  rw [hl]
  dsimp only
  rw [iterFrom_sim (sim_pyAware C loc) o.expr o.hol start a ((pyLocalize_naive C _ start).trans ha)]
  cases iterFrom C (tzLocation C loc) o.expr o.hol a with
  | error p => rfl
  | ok l => exact mapItems_aware C _ l

/-- **the end of an item is `None` iff it reads 10000-01-01** (`map_date_limit`) -/
theorem py_date_end_is_none (d : DateTimeMaybeAware C.Zone) :
    DateTimeMaybeAware.mapDateLimit C d = none ↔ DateTimeMaybeAware.asNaiveLocal C d = instEnd := by
  unfold DateTimeMaybeAware.mapDateLimit
  split <;> simp_all

theorem py_date_end_else_some (d : DateTimeMaybeAware C.Zone) (h : DateTimeMaybeAware.asNaiveLocal C d ≠ instEnd) :
    DateTimeMaybeAware.mapDateLimit C d = some d := by
  unfold DateTimeMaybeAware.mapDateLimit
  simp only [h, if_false]

/-- naive context, naive inputs: the items are the core's ranges, the end `None` iff `DATE_END` -/
theorem py_intervals_item_naive (r : Range Int) :
    itemOfNaive C none r
      = .ok ⟨.naive r.start, if r.stop = instEnd then none else some (.naive r.stop), r.kind, r.comments⟩ := by
  simp only [itemOfNaive, attach, DateTimeMaybeAware.mapDateLimit, DateTimeMaybeAware.asNaiveLocal]
  rfl

/-- the iterator's zone preference: `start`'s zone, else `end`'s, else none -/
theorem py_prefer_timezone {Z : Type} (start : DateTimeMaybeAware Z) (stop : Option (DateTimeMaybeAware Z)) :
    PyOH.preferTimezone start stop
      = (match start.timezone with
         | some z => some z
         | none => stop.bind DateTimeMaybeAware.timezone) := by
  unfold PyOH.preferTimezone
  cases start.timezone with
  | some z => rfl
  | none => cases stop <;> rfl

/-! ## A context with a zone: the localized stream, for every input -/

/-- the core's generic `next_change` is consistent with its `iter_from`: whenever the whole window
can be iterated, the lazily pulled first range is the head of the collected ranges -/
theorem core_first_is_head {DT : Type} (L : Localize C DT) (e : C.Expr) (h : C.Hol) (a b : DT)
    (rs : List (Range DT)) (hr : iterRange C L e h a b = .ok rs) :
    firstOfRange C L e h a b = .ok rs.head? :=
  firstOfRange_of_iterRange C L e h a b rs hr

/-- without a location nothing is skipped: the core's filter keeps exactly the non-empty ranges
(so `NoLocation` results are the evaluator's wall-clock ranges, same-kind neighbours merged) -/
theorem core_no_location_filter (l : List Interval) :
    filterRanges C (noLocation C) l = .ok (l.filter (fun iv => decide (iv.start < iv.stop))) := by
  induction l with
  | nil => rfl
  | cons iv rest ih =>
    have hk : keepRange C (noLocation C) iv = .ok (decide (iv.start < iv.stop)) := rfl
    simp only [filterRanges, ih, hk, List.filter_cons]

/-- **py_intervals_eq_core**, context with a zone, ANY bounds (naive or aware, existing on the zone's
clock or inside one of its gaps): the evaluator's wall-clock stream over the window of the bounds'
wall-clock times (table `wall`), LOCALIZED — the spans the zone's clock skips dropped, the same-kind
neighbours they separated merged, every bound converted with `TzLocation::datetime`, end `None` iff
it reads 10000-01-01; all items in the zone of the context -/
theorem py_intervals_eq_core_zone_range (o : PyOH C) (loc : TzLoc C.Zone) (hl : o.locale = .aware loc)
    (start stop : DateTimeMaybeAware C.Zone) :
    o.intervals start (some stop)
      = (match C.iterNaive o.expr o.hol (.tzLocation loc)
                (min instEnd (wall C (.aware loc) start)) (min instEnd (wall C (.aware loc) stop)) with
         | .error p => .error p
         | .ok l =>
           match zoneRanges C loc.tz l with
           | .error p => .error p
           | .ok rs => .ok (rs.map (itemOfAware C))) := by
  unfold PyOH.intervals
  rw [hl]
  dsimp only
  rw [iterRange_pyAware]
  cases C.iterNaive o.expr o.hol (.tzLocation loc) (min instEnd (wall C (.aware loc) start))
      (min instEnd (wall C (.aware loc) stop)) with
  | error p => rfl
  | ok l =>
    dsimp only
    cases zoneRanges C loc.tz l with
    | error p => rfl
    | ok rs => exact mapItems_aware C _ rs

/-- … and without `end`: the window ends where `DATE_END` lands on the zone's clock -/
theorem py_intervals_eq_core_zone_from (o : PyOH C) (loc : TzLoc C.Zone) (hl : o.locale = .aware loc)
    (start : DateTimeMaybeAware C.Zone) :
    o.intervals start none
      = (match landing C loc.tz instEnd with
         | .error p => .error p
         | .ok stopN =>
           match C.iterNaive o.expr o.hol (.tzLocation loc)
                  (min instEnd (wall C (.aware loc) start)) (min instEnd stopN) with
           | .error p => .error p
           | .ok l =>
             match zoneRanges C loc.tz l with
             | .error p => .error p
             | .ok rs => .ok (rs.map (itemOfAware C))) := by
  unfold PyOH.intervals
  rw [hl]
  dsimp only
  unfold iterFrom landing
  rw [(sim_pyAware C loc).datetime]
  simp only [tzLocation]
  cases C.tzDatetime loc.tz instEnd with
  | error p => rfl
  | ok u =>
    dsimp only
    have := iterRange_pyAware C loc o.expr o.hol start (.aware ⟨u, loc.tz⟩)
    rw [show wall C (.aware loc) (.aware ⟨u, loc.tz⟩) = C.tzNaive loc.tz u from rfl] at this
    rw [this]
    show (match (match C.iterNaive o.expr o.hol (.tzLocation loc) (min instEnd (wall C (.aware loc) start))
                        (min instEnd (C.tzNaive loc.tz u)) with
                 | Except.error p => Except.error p
                 | Except.ok l =>
                   match zoneRanges C loc.tz l with
                   | Except.error p => Except.error p
                   | Except.ok rs => Except.ok (rs.map (liftRange DateTimeMaybeAware.aware))) with
          | Except.error p => Except.error p
          | Except.ok l => PyOH.mapItems (PyOH.preferTimezone start none) l) = _
    cases C.iterNaive o.expr o.hol (.tzLocation loc) (min instEnd (wall C (.aware loc) start))
        (min instEnd (C.tzNaive loc.tz u)) with
    | error p => rfl
    | ok l =>
      dsimp only
      cases zoneRanges C loc.tz l with
      | error p => rfl
      | ok rs => exact mapItems_aware C _ rs

/-- **py_next_change_eq_core**, context with a zone, ANY input: when the open-ended window from the
input's wall-clock time can be iterated (`l`) and localized (`rs`), `next_change` is the end of the
first LOCALIZED range (`None` when that end reads 10000-01-01 or later on the zone's clock, or when
there is no range), in the zone of the context.  In particular a span that the zone's clock skips
is not a change: see the Paris example below.  (`next_change` itself pulls the stream lazily; it
returns this value even if the stream panics further on.) -/
theorem py_next_change_eq_core_zone (o : PyOH C) (loc : TzLoc C.Zone) (hl : o.locale = .aware loc)
    (t : DateTimeMaybeAware C.Zone) (stopN : Int) (l : List Interval) (rs : List (Range (Aware C.Zone)))
    (hstop : landing C loc.tz instEnd = .ok stopN)
    (hstream : C.iterNaive o.expr o.hol (.tzLocation loc)
                  (min instEnd (wall C (.aware loc) t)) (min instEnd stopN) = .ok l)
    (hrs : zoneRanges C loc.tz l = .ok rs) :
    o.nextChange t = .ok (zoneNextChange C loc.tz rs) := by
  unfold landing at hstop
  cases hu : C.tzDatetime loc.tz instEnd with
  | error p => rw [hu] at hstop; cases hstop
  | ok u =>
    rw [hu] at hstop
    cases hstop
    have hdt : (pyLocalize C (.aware loc)).datetime instEnd = .ok (.aware ⟨u, loc.tz⟩) := by
      simp only [pyLocalize, tzLocation, hu]
    have hiter : iterRange C (pyLocalize C (.aware loc)) o.expr o.hol t (.aware ⟨u, loc.tz⟩)
        = .ok (rs.map (liftRange .aware)) := by
      rw [iterRange_pyAware]
      have hw : wall C (.aware loc) (.aware ⟨u, loc.tz⟩) = C.tzNaive loc.tz u := rfl
      rw [hw, hstream]
      dsimp only
      rw [hrs]
    unfold PyOH.nextChange Py.nextChange
    rw [hl, hdt]
    dsimp only
    rw [firstOfRange_of_iterRange C _ o.expr o.hol t _ _ hiter]
    cases rs with
    | nil => rfl
    | cons r rest =>
      have hn : (pyLocalize C (.aware loc)).naive (.aware r.stop) = C.tzNaive loc.tz r.stop.utc := rfl
      simp only [List.map_cons, List.head?, liftRange, zoneNextChange, hn]
      by_cases hge : C.tzNaive loc.tz r.stop.utc ≥ instEnd
      · simp only [hge, if_true]
      · simp only [hge, if_false]
        cases t <;> rfl

/-! ## normalize, str -/

/-- `normalize()` keeps the context: same holidays and locale, the core's normal form -/
theorem py_normalize (o : PyOH C) :
    o.normalize.expr = C.normalize o.expr ∧ o.normalize.hol = o.hol ∧ o.normalize.locale = o.locale :=
  ⟨rfl, rfl, rfl⟩

/-- `str(x)` is the core's `Display`, independent of the context -/
theorem py_str (o : PyOH C) : o.str = C.display o.expr := rfl

/-- `repr(x)` is `OpeningHours(…)` around Rust's `Debug` quoting of `str(x)`.  (Whether Python reads
that literal back as `str(x)` is not a property of the model: Rust writes `\u{1}` where Python wants
`\x01`; checked by the runs, clause `eval-repr`.) -/
theorem py_repr (o : PyOH C) : o.repr = "OpeningHours(" ++ C.debugStr (C.display o.expr) ++ ")" := rfl

/-! ## No panic of the binding's own -/

/-- **py_no_panic (state)**: if the core does not panic, `state` / `is_*` return -/
theorem py_no_panic_state (hC : CoreTotal C) (o : PyOH C) (t : DateTimeMaybeAware C.Zone) :
    ∃ k, o.state t = .ok k := by
  unfold PyOH.state Py.state
  split
  · exact ⟨_, rfl⟩
  · obtain ⟨r, hr⟩ := firstNaive_total C hC o.expr o.hol (pyLocalize C o.locale).ev ((pyLocalize C o.locale).naive t)
      ((pyLocalize C o.locale).naive t + nsPerMin)
    rw [hr]
    cases r <;> exact ⟨_, rfl⟩

/-- **py_no_panic (next_change)** -/
theorem py_no_panic_next_change (hC : CoreTotal C) (o : PyOH C) (t : DateTimeMaybeAware C.Zone) :
    ∃ r, o.nextChange t = .ok r := by
  unfold PyOH.nextChange
  obtain ⟨r, hr⟩ := nextChange_total C hC (pyLocalize C o.locale) (pyLocalize_datetime_total C hC o.locale) o.expr o.hol t
  rw [hr]
  cases r with
  | none => exact ⟨_, rfl⟩
  | some dt =>
    dsimp only
    obtain ⟨x, hx⟩ := orWithTimezoneOf_total C hC dt t
    rw [hx]
    exact ⟨_, rfl⟩

/-- **py_no_panic (intervals)** -/
theorem py_no_panic_intervals (hC : CoreTotal C) (o : PyOH C) (start : DateTimeMaybeAware C.Zone)
    (stop : Option (DateTimeMaybeAware C.Zone)) : ∃ r, o.intervals start stop = .ok r := by
  have hL := pyLocalize_datetime_total C hC o.locale
  have hrange : ∀ a b, ∃ l, iterRange C (pyLocalize C o.locale) o.expr o.hol a b = .ok l :=
    fun a b => iterRange_total C hC _ hL o.expr o.hol a b
  unfold PyOH.intervals
  cases stop with
  | some s =>
    dsimp only
    obtain ⟨l, hl⟩ := hrange start s
    rw [hl]
    exact mapItems_total C hC _ l
  | none =>
    dsimp only
    unfold iterFrom
    obtain ⟨e, he⟩ := hL instEnd
    rw [he]
    dsimp only
    obtain ⟨l, hl⟩ := hrange start e
    rw [hl]
    exact mapItems_total C hC _ l

/-- **py_no_panic (constructor, validate)**: no panic unless the parser panics -/
theorem py_no_panic_ctor (a : Args C.Zone) (hp : ∀ s, C.parse a.oh ≠ .panic s) (s : String) :
    ctor C a ≠ .error (.panic s) := by
  intro h
  exact hp s ((ctor_panic_iff C a s).mp h).2

theorem py_no_panic_validate (x : String) (hp : ∀ s, C.parse x ≠ .panic s) : ∃ b, validate C x = .ok b := by
  unfold validate
  cases h : C.parse x with
  | ok e => exact ⟨_, rfl⟩
  | err => exact ⟨_, rfl⟩
  | panic s => exact absurd h (hp s)

/-! ## Non-vacuity: a concrete core -/

/-- a small core: expressions are strings that parse iff non-empty (`"!"` panics), two countries,
one zone `true` two hours east of UTC and one zone `false` = UTC, a state change every hour -/
def demoCore : Core where
  Expr := String
  Zone := Bool
  Hol := Nat
  parse := fun s => if s = "" then .err else if s = "!" then .panic "parser.rs" else .ok s
  display := fun e => e
  normalize := fun e => e
  debugStr := fun s => "\"" ++ s ++ "\""
  holDefault := (0 : Nat)
  countryHolidays := fun iso => if iso = "FR" then some (1 : Nat) else if iso = "DE" then some (2 : Nat) else none
  coordsHolidays := fun _ => (3 : Nat)
  coordsZone := fun _ => true
  tzNaive := fun z u => if z then u + 2 * 60 * nsPerMin else u
  tzDatetime := fun z n => .ok (if z then n - 2 * 60 * nsPerMin else n)
  streamNaive := fun _ _ _ a b => .cons ⟨a, min b (a + 60 * nsPerMin), .open, []⟩ .done

example : CoreTotal demoCore := ⟨fun _ _ => ⟨_, rfl⟩, fun _ _ _ _ _ => ⟨_, rfl⟩⟩

/-- all five arguments given, both flags `None`: the context of rows 2 and 7 -/
example : ∃ ctx, ctor demoCore ⟨"24/7", some true, some "FR", some (.fin 97 2, .fin (-5) 2), none, none⟩ = .ok ctx
    ∧ ctx.holidays = .country "FR" ∧ ctx.locale = .awareTzCoords true ⟨.fin 97 2, .fin (-5) 2⟩ := ⟨_, rfl, rfl, rfl⟩

/-- the order of the errors on a call where everything is wrong -/
example : ctor demoCore ⟨"", none, some "ZZ", some (.fin 91 1, .fin 0 1), none, none⟩ = .error .invalidCoordinates := rfl
example : ctor demoCore ⟨"", none, some "ZZ", some (.fin 90 1, .fin (-180) 1), none, none⟩ = .error .parserError := rfl
example : ctor demoCore ⟨"x", none, some "ZZ", some (.fin 90 1, .fin (-180) 1), none, none⟩ = .error .unknownCountry := rfl
example : ctor demoCore ⟨"!", none, some "ZZ", some (.fin 90 1, .fin (-180) 1), none, none⟩ = .error (.panic "parser.rs") := rfl
example : ctor demoCore ⟨"x", none, none, some (.nan, .fin 0 1), none, none⟩ = .error .invalidCoordinates := rfl
example : ctor demoCore ⟨"x", none, none, some (.fin 0 1, .posInf), none, none⟩ = .error .invalidCoordinates := rfl

/-- a naive input on an aware context (zone `true`, UTC+2) is read as local time and the answer
carries the context zone: local 01:00 is 23:00 UTC of the day before -/
example : PyOH.nextChange (C := demoCore) ⟨"x", (0 : Nat), .aware ⟨true, none⟩⟩ (.naive 0)
    = .ok (some (.aware ⟨-60 * nsPerMin, true⟩)) := by rfl

/-- an aware input (zone `true`) on a naive context: its own wall-clock time (02:00) is evaluated and
the answer (03:00) gets the input's zone back (01:00 UTC) -/
example : PyOH.nextChange (C := demoCore) ⟨"x", (0 : Nat), .naive⟩ (.aware ⟨0, true⟩)
    = .ok (some (.aware ⟨60 * nsPerMin, true⟩)) := by rfl

/-- an aware input in zone `false` (UTC) on a context in zone `true`: converted, answered in the
context zone -/
example : PyOH.nextChange (C := demoCore) ⟨"x", (0 : Nat), .aware ⟨true, none⟩⟩ (.aware ⟨0, false⟩)
    = .ok (some (.aware ⟨60 * nsPerMin, true⟩)) := by rfl

/-- the last interval of an open-ended iteration ends with `None` -/
example : PyOH.intervals (C := demoCore) ⟨"x", (0 : Nat), .naive⟩ (.naive (instEnd - 30 * nsPerMin)) none
    = .ok [⟨.naive (instEnd - 30 * nsPerMin), none, .open, []⟩] := by rfl

/-! ### the localized stream: Europe/Paris, 2024-03-31 (clocks go from 02:00 to 03:00) -/

/-- 2024-03-31 is day 738976; `dm d m` = minute `m` of day `d` -/
def dm (d m : Int) : Int := d * nsPerDay + m * nsPerMin

/-- a core with one zone, Europe/Paris around its spring-forward of 2024-03-31: UTC+1 until 01:00 UTC,
UTC+2 from then on, so the local times 02:00 ≤ t < 03:00 of that day do not exist and `datetime` maps
them to the first valid instant (01:00 UTC = 03:00 local).  An "expression" is its own wall-clock
stream. -/
def parisCore : Core where
  Expr := Int → Int → NStream
  Zone := Unit
  Hol := Unit
  parse := fun _ => .err
  display := fun _ => ""
  normalize := fun e => e
  debugStr := fun s => s
  holDefault := ()
  countryHolidays := fun _ => none
  coordsHolidays := fun _ => ()
  coordsZone := fun _ => ()
  tzNaive := fun _ u => if u < dm 738976 60 then u + 60 * nsPerMin else u + 120 * nsPerMin
  tzDatetime := fun _ n =>
    .ok (if n < dm 738976 120 then n - 60 * nsPerMin else if n < dm 738976 180 then dm 738976 60 else n - 120 * nsPerMin)
  streamNaive := fun e _ _ a b => e a b

/-- `iter_range_naive` of `02:00-03:00` from 02:30 on 2024-03-31 (the first four items) -/
def oh0203 (tail : NStream) : Int → Int → NStream := fun _ _ =>
  .cons ⟨dm 738976 150, dm 738976 180, .open, []⟩
    (.cons ⟨dm 738976 180, dm 738977 120, .closed, []⟩
      (.cons ⟨dm 738977 120, dm 738977 180, .open, []⟩
        (.cons ⟨dm 738977 180, dm 738978 120, .closed, []⟩ tail)))

/-- `iter_range_naive` of `02:30-02:45` over 2024-03-31 01:00 … 04:00 -/
def oh0230 : Int → Int → NStream := fun _ _ =>
  .cons ⟨dm 738976 60, dm 738976 150, .closed, []⟩
    (.cons ⟨dm 738976 150, dm 738976 165, .open, ["never on that day"]⟩
      (.cons ⟨dm 738976 165, dm 738976 240, .closed, []⟩ .done))

/-- **`02:00-03:00`, Europe/Paris, naive 2024-03-31 02:30** (a wall-clock time inside the gap): the
open span 02:30–03:00 does not exist on that day's clock; `next_change` is the NEXT day's 02:00
(00:00 UTC, UTC+2) — what CPython and the Rust core answer since /repo dfe1ade … -/
example : PyOH.nextChange (C := parisCore) ⟨oh0203 .done, (), .aware ⟨(), none⟩⟩ (.naive (dm 738976 150))
    = .ok (some (.aware ⟨dm 738977 0, ()⟩)) := by rfl

/-- … whereas the same expression read on the wall clock alone (the core's answer before the repair,
and still `NoLocation`'s) changes at 03:00 of the same day -/
example : Py.nextChange parisCore (wallClock parisCore ⟨(), none⟩) (oh0203 .done) () (dm 738976 150)
    = .ok (some (dm 738976 180)) := by rfl

/-- the hypotheses of `py_next_change_eq_core_zone` are satisfiable, and its right-hand side is that
answer: the localized stream starts with `closed` from 03:00 (the first instant after the gap) to the
next day's 02:00 -/
example : ∃ stopN l rs, landing parisCore () instEnd = .ok stopN
    ∧ parisCore.iterNaive (oh0203 .done) () (.tzLocation ⟨(), none⟩)
        (min instEnd (wall parisCore (.aware ⟨(), none⟩) (.naive (dm 738976 150)))) (min instEnd stopN) = .ok l
    ∧ zoneRanges parisCore () l = .ok rs
    ∧ rs.head? = some ⟨⟨dm 738976 60, ()⟩, ⟨dm 738977 0, ()⟩, .closed, []⟩
    ∧ zoneNextChange parisCore () rs = some (.aware ⟨dm 738977 0, ()⟩) :=
  ⟨_, _, _, rfl, rfl, rfl, rfl, rfl⟩

/-- `next_change` pulls the stream lazily: a panic of the evaluator further on does not surface -/
example : PyOH.nextChange (C := parisCore) ⟨oh0203 (.panic "later"), (), .aware ⟨(), none⟩⟩ (.naive (dm 738976 150))
    = .ok (some (.aware ⟨dm 738977 0, ()⟩)) := by rfl

/-- **`02:30-02:45`, Europe/Paris, 2024-03-31 01:00 … 04:00**: the open span is skipped by the clock,
its two closed neighbours are one interval (00:00 UTC … 02:00 UTC) — not `closed, open (empty), closed` -/
example : PyOH.intervals (C := parisCore) ⟨oh0230, (), .aware ⟨(), none⟩⟩ (.naive (dm 738976 60)) (some (.naive (dm 738976 240)))
    = .ok [⟨.aware ⟨dm 738976 0, ()⟩, some (.aware ⟨dm 738976 120, ()⟩), .closed, []⟩] := by rfl

end OH.Props.C12
