/-
C02B — Layer B of C02 / C03 / C08 / C16: the real day level meets `EnvOK`.

`EnvOK (envOf ctx e)` (OH/Proofs/Iter.lean) is what the proven iterator theorems (Layer A,
OH/Props/C02A.lean) require of `schedule_at` / `next_change_hint`:
  sched_ok    the day schedule is produced without panic,
  tiles       it tiles 00:00-24:00,
  hint_ok     `next_change_hint` does not panic,
  hint_gt     it points strictly after the day,
  hint_sound  every day strictly between a day and its hint consists of ranges of the kind of the
              last range of that day.

Hypotheses of the theorems below:
  `ParserWF e`     the range invariant of parsed expressions (OH/Model/ParserWF.lean),
  `CtxWF ctx`      the two holiday calendars are strictly increasing lists of representable days,
  `exprHintSafe e` (decidable scope) every DATED range (`Mar 01-Jun 15`, `easter`, `2024 Mar 01-…`) of the
                   expression satisfies `datedHintSafe` (OH/Proofs/HintDatedSafe.lean): a single day with a
                   year, or a start that carries a year (one interval): no condition; a yearless single day
                   (`Feb 29`, `Dec 25 +Su`) and a yearless range (`Mar 01-Jun 15`, `Dec 24-Jan 02`,
                   `easter -2 days-easter +1 day`, `Jan 01 +400 days-Jan 10 +770 days`): both day offsets within
                   ±92 000 000 days (a single day: the end offset only), ±300 000 days for a range one bound of
                   which is Easter (and, for the range, an end without a year: a defined meaning) — NO condition
                   on the size of the shift relative to a year any more: the search windows of
                   `MonthdayRange::Date` are centred on the year of `d - day offset` (`yearBeforeOffset`).
                   Expressions without dated ranges (`NoDated`) are in scope.  The former refutation of the
                   unscoped statement (`envOK_fails_shifted`, witness `Jan 01 +400 days-Jan 10 +770 days`,
                   open finding `dated-shift-over-a-year`) is now the theorem `envOK_shifted`: the witness is in
                   scope and `EnvOK` holds of it.  Beyond ±92 000 000 days (±300 000 with Easter) nothing is
                   proved (why: OH/Proofs/EvalSpecDatedClass.lean, notes/DATED-BOUND.md); no failure of
                   `EnvOK` is known there (brute force on the model up to ±10⁹ days: the hint stays sound).
  (`ExprDatedOK e` is the semantic form of the scope: every dated range has a total filter and a sound hint.)

Everything else — year ranges with steps and wrap, month ranges with and without year, week ranges
with steps, weekday ranges with nth/offsets, holidays with offsets, the selector lists, the rule fold
with normal / additional / fallback rules, spans past midnight, events, `is_constant` — is proved
without further hypothesis.
-/
import OH.Proofs.HintExpr
import OH.Proofs.HintDatedSafe
import OH.Props.C02
import OH.Props.C03
import OH.Props.C08
import OH.Props.C16
namespace OH.Props.C02B
open OH.Model OH.Model.Cal OH.Props.C02

/-! ## from a day of a single kind to the day level's vocabulary -/

theorem schedOf_of_scheduleAt {ctx : Ctx} {e : Expr} {D : Int} {s : Schedule} (h : scheduleAt ctx e D = .ok s)
    (hg : GoodS s) : (envOf ctx e).schedOf D = Schedule.iter s := by
  simp only [Env.schedOf, envOf, daySchedule, h, OH.Props.C14.iter_no_panic s hg.1, Bool.false_eq_true, if_false]

theorem kinds_of_dayKind {ctx : Ctx} {e : Expr} {D : Int} {s : Schedule} {k : Kind}
    (h : scheduleAt ctx e D = .ok s) (hg : GoodS s) (hk : DayKind s k) :
    (∀ r ∈ (envOf ctx e).schedOf D, r.kind = k) ∧ lastKind ((envOf ctx e).schedOf D) = k := by
  rw [schedOf_of_scheduleAt h hg]
  exact iter_kinds s hg k hk

theorem outside_closed (ctx : Ctx) (e : Expr) (D : Int) (h : D < dateStart ∨ dateEnd ≤ D) :
    (∀ r ∈ (envOf ctx e).schedOf D, r.kind = .closed) ∧ lastKind ((envOf ctx e).schedOf D) = .closed :=
  kinds_of_dayKind (OH.Props.C08.C08_schedule_outside ctx e D h) goodS_nil (fun _ _ => rfl)

/-! ## the master theorem -/

/-- Layer B: the day level of a parsed expression meets `EnvOK`, provided its dated ranges do. -/
theorem envOK_of_datedOK (ctx : Ctx) (hc : CtxWF ctx) (e : Expr) (hw : ParserWF e = true) (hdt : ExprDatedOK e) :
    EnvOK (envOf ctx e) where
  sched_ok d _ := by
    obtain ⟨s, _, _, h, _⟩ := daySchedule_ok ctx e hw hdt d
    exact ⟨_, h⟩
  tiles d _ := by
    obtain ⟨s, h1, hg, _, t⟩ := daySchedule_ok ctx e hw hdt d
    rw [schedOf_of_scheduleAt h1 hg]; exact t
  hint_ok d hd := by
    obtain ⟨h, a, _⟩ := nextChangeHint_ok ctx hc e hw hdt d hd
    exact ⟨h, a⟩
  hint_gt d hd := by
    obtain ⟨h, a, b⟩ := nextChangeHint_ok ctx hc e hw hdt d hd
    simp only [Env.hintOf, envOf, a]
    cases h <;> simpa [hintDay] using b
  hint_sound d d' h1 h2 h3 r hr := by
    have hd : d < dateEnd := by omega
    obtain ⟨h, a, _⟩ := nextChangeHint_ok ctx hc e hw hdt d hd
    have hH : (envOf ctx e).hintOf d = hintDay d h := by
      simp only [Env.hintOf, envOf, a]; cases h <;> rfl
    rw [hH] at h2
    by_cases hd1 : d < dateStart
    · -- before the supported window: the hint is `DATE_START`, everything is closed
      have : h = some dateStart := by
        have : nextChangeHint ctx e d = .ok (some dateStart) := by simp [nextChangeHint, hd1]
        rw [this] at a; exact (Except.ok.inj a).symm
      subst this
      simp only [hintDay] at h2
      rw [(outside_closed ctx e d' (Or.inl h2)).1 r hr, (outside_closed ctx e d (Or.inl hd1)).2]
    · by_cases hcst : isConstant e = true
      · -- trivially constant expression
        obtain ⟨k, hk⟩ := scheduleAt_const ctx e hw hdt hcst
        obtain ⟨s, s1, s2, s3⟩ := hk d (by omega) hd
        obtain ⟨s', t1, t2, t3⟩ := hk d' (by omega) h3
        rw [(kinds_of_dayKind t1 t2 t3).1 r hr, (kinds_of_dayKind s1 s2 s3).2]
      · obtain ⟨k, hk⟩ := hint_sound_expr ctx hc e hw hdt d (by omega) hd (by simpa using hcst) h a (by omega)
        obtain ⟨s, s1, s2, s3⟩ := hk d (Int.le_refl _) (by omega) hd
        obtain ⟨s', t1, t2, t3⟩ := hk d' (by omega) h2 h3
        rw [(kinds_of_dayKind t1 t2 t3).1 r hr, (kinds_of_dayKind s1 s2 s3).2]

/-! ## expressions without dated ranges: no further hypothesis -/

/-- the expression has no dated range (`MonthdayRange.date`); month ranges are allowed -/
def NoDated (e : Expr) : Bool :=
  e.all (fun r => r.day.monthday.all (fun m => match m with | .month .. => true | .date .. => false))

theorem exprDatedOK_of_noDated {e : Expr} (h : NoDated e = true) : ExprDatedOK e := by
  intro r hr m hm
  simp only [NoDated, List.all_eq_true] at h
  have := h r hr m hm
  cases m with
  | month lo hi yr => trivial
  | date s so e eo => simp at this

/-- `envOK_partial`: Layer B in full for every parsed expression without dated ranges -/
theorem envOK_partial (ctx : Ctx) (hc : CtxWF ctx) (e : Expr) (hw : ParserWF e = true) (hn : NoDated e = true) :
    DayLevelOK ctx e :=
  envOK_of_datedOK ctx hc e hw (exprDatedOK_of_noDated hn)

/-! ## dated ranges in the proven scope -/

/-- month ranges are always in scope, dated ranges when `datedHintSafe` -/
def mdInScope : MonthdayRange → Bool
  | .month .. => true
  | .date s so e eo => datedHintSafe s so e eo

/-- the decidable scope of Layer B: every dated range of the expression is `datedHintSafe` -/
def exprHintSafe (e : Expr) : Bool := e.all (fun r => r.day.monthday.all mdInScope)

theorem exprHintSafe_of_noDated {e : Expr} (h : NoDated e = true) : exprHintSafe e = true := by
  simp only [NoDated, exprHintSafe, List.all_eq_true] at *
  intro r hr m hm
  have := h r hr m hm
  cases m with
  | month lo hi yr => rfl
  | date s so e eo => simp at this

theorem exprDatedOK_of_safe {e : Expr} (hw : ParserWF e = true) (h : exprHintSafe e = true) : ExprDatedOK e := by
  intro r hr m hm
  simp only [exprHintSafe, List.all_eq_true] at h
  have hs := h r hr m hm
  have hrw := parserWF_rules hw r hr
  simp only [Rule.wf, DaySelector.wf, Bool.and_eq_true, List.all_eq_true] at hrw
  have hmw := hrw.1.1.1.1.2 m hm
  cases m with
  | month lo hi yr => trivial
  | date s so e eo => exact MonthdayRange.date_ok s so e eo hmw hs

/-- LAYER B: the day level of every parsed expression in scope meets `EnvOK` -/
theorem envOK_of_parserWF (ctx : Ctx) (hc : CtxWF ctx) (e : Expr) (hw : ParserWF e = true) (hs : exprHintSafe e = true) :
    DayLevelOK ctx e :=
  envOK_of_datedOK ctx hc e hw (exprDatedOK_of_safe hw hs)

/-! ## C02 / C03 / C16 without the Layer B hypothesis

The `…_partial` theorems of OH/Props/C02.lean, C03.lean, C16.lean instantiated: the hypothesis
`DayLevelOK ctx e` is replaced by `CtxWF ctx`, `ParserWF e` and the decidable scope `exprHintSafe e`
(`NoDated e` suffices: `exprHintSafe_of_noDated`).  Still `…_partial`: FULL STATEMENT = the same without the
scope hypothesis (day offsets of yearless dated ranges within ±92 000 000 days, ±300 000 days when a bound is
Easter), which is neither proved nor
refuted (the former refutation is now `envOK_shifted` below). -/

section corollaries
variable {ctx : Ctx} {e : Expr} (hc : CtxWF ctx) (hw : ParserWF e = true) (hs : exprHintSafe e = true)
include hc hw hs

theorem C02_total_partial (hb : ctx.bound = none) (frm to : Int) : ∃ out, iterRangeNaive ctx e frm to = .ok out :=
  OH.Props.C02.C02_total_partial (envOK_of_parserWF ctx hc e hw hs) hb frm to

/-- C02 master statement: the stream is THE list of maximal constant runs of the pointwise state -/
theorem C02_iter_range_exact_partial (hb : ctx.bound = none) (frm to : Int) {out : List Interval}
    (h : iterRangeNaive ctx e frm to = .ok out) :
    if min instEnd frm < min instEnd to then Runs (envOf ctx e) (min instEnd frm) (min instEnd to) out
    else out = [] :=
  OH.Props.C02.C02_iter_range_exact_partial (envOK_of_parserWF ctx hc e hw hs) hb frm to h

theorem C02_pointwise_partial (hb : ctx.bound = none) (frm to : Int) {out : List Interval}
    (h : iterRangeNaive ctx e frm to = .ok out) :
    ∀ iv ∈ out, ∀ t, iv.start ≤ t → t < iv.stop → iv.kind = pointState ctx e t :=
  OH.Props.C02.C02_pointwise_partial (envOK_of_parserWF ctx hc e hw hs) hb frm to h

theorem C02_no_change_skipped_partial (hb : ctx.bound = none) (frm to : Int) {out : List Interval}
    (h : iterRangeNaive ctx e frm to = .ok out) :
    ∀ t, min instEnd frm < t → t < min instEnd to →
      pointState ctx e (t - 1) ≠ pointState ctx e t → ∃ iv ∈ out, iv.start = t :=
  OH.Props.C02.C02_no_change_skipped_partial (envOK_of_parserWF ctx hc e hw hs) hb frm to h

theorem C02_adjacent_kinds_differ_partial (hb : ctx.bound = none) (frm to : Int) {out : List Interval}
    (h : iterRangeNaive ctx e frm to = .ok out) :
    ∀ i (hi : i + 1 < out.length), out[i].kind ≠ out[i + 1].kind :=
  OH.Props.C02.C02_adjacent_kinds_differ_partial (envOK_of_parserWF ctx hc e hw hs) hb frm to h

theorem C03_state_partial {t : Int} (hlt : t < instEnd) : state ctx e t = .ok (pointState ctx e t) :=
  OH.Props.C03.C03_state_partial (envOK_of_parserWF ctx hc e hw hs) hlt

theorem C03_next_change_some_partial (hb : ctx.bound = none) {t c : Int} (h : nextChange ctx e t = .ok (some c)) :
    t < c ∧ c < instEnd ∧ (∀ u, t ≤ u → u < c → pointState ctx e u = pointState ctx e t)
      ∧ pointState ctx e c ≠ pointState ctx e t :=
  OH.Props.C03.C03_next_change_some_partial (envOK_of_parserWF ctx hc e hw hs) hb h

theorem C03_next_change_none_partial (hb : ctx.bound = none) {t : Int} (h : nextChange ctx e t = .ok none) :
    ∀ u, t ≤ u → u < instEnd → pointState ctx e u = pointState ctx e t :=
  OH.Props.C03.C03_next_change_none_partial (envOK_of_parserWF ctx hc e hw hs) hb h

theorem C03_next_change_exact_partial (hb : ctx.bound = none) {t : Int} (hlt : t < instEnd) :
    ∃ x, nextChange ctx e t = .ok x ∧ IsNextChange (envOf ctx e) t x :=
  OH.Props.C03.C03_next_change_exact_partial (envOK_of_parserWF ctx hc e hw hs) hb hlt

theorem C16_state_unchanged_partial (t : Int) : state ctx e t = state { ctx with bound := none } e t :=
  OH.Props.C16.C16_state_unchanged_partial (envOK_of_parserWF ctx hc e hw hs) t

theorem C16_next_change_partial {B : Int} (hB : ctx.bound = some B) {t : Int} (hfit : B + nsPerDay ≤ deltaMax ∨ instMin ≤ t)
    {x : Option Int} (hx : nextChange { ctx with bound := none } e t = .ok x) :
    ∃ y, nextChange ctx e t = .ok y
      ∧ (y = x ∨ y = none)
      ∧ (∀ c, x = some c → c - t ≤ B - nsPerDay → y = x)
      ∧ (∀ c, x = some c → c - t > B → y = none)
      ∧ (x = none → y = none) :=
  OH.Props.C16.C16_next_change_partial (envOK_of_parserWF ctx hc e hw hs) hB hfit hx

theorem C16_negative_bound_partial {B : Int} (hB : ctx.bound = some B) (hneg : B < 0) (t : Int) :
    nextChange ctx e t = .ok none :=
  OH.Props.C16.C16_negative_bound_partial (envOK_of_parserWF ctx hc e hw hs) hB hneg t

end corollaries

/-! ## non-vacuity: a concrete non-trivial input meeting every hypothesis -/

/-- `2024-2030/2 Nov-Feb week 01-20/2 Mo-Fr 09:00-17:00; Sa[1] 22:00-26:00 unknown; PH off || sunrise-sunset "x"` -/
def demoExpr : Expr :=
  [ ⟨⟨[⟨2024, 2030, 2⟩], [.month 11 2 none], [⟨1, 20, 2⟩], [.fixed 0 4 0 [true,true,true,true,true] [false,false,false,false,false]]⟩,
      [⟨.fixed 540, .fixed 1020, false, none⟩], .open, .normal, []⟩,
    ⟨⟨[], [], [], [.fixed 5 5 0 [true,false,false,false,false] [false,false,false,false,false]]⟩,
      [⟨.fixed 1320, .fixed 1560, false, none⟩], .unknown, .normal, []⟩,
    ⟨⟨[], [], [], [.holiday .pub 0]⟩, [TimeSpan.fullDay], .closed, .normal, []⟩,
    ⟨⟨[], [], [], []⟩, [⟨.variable .sunrise 0, .variable .sunset 0, false, none⟩], .open, .fallback, ["x"]⟩ ]

/-- a context with two public holidays (2024-12-25, 2025-01-01) -/
def demoCtx : Ctx := { Ctx.default with pub := [739245, 739252] }

example : ParserWF demoExpr = true := by decide
example : CtxWF demoCtx := by decide
example : NoDated demoExpr = true := by decide
example : isConstant demoExpr = false := by decide
example : DayLevelOK demoCtx demoExpr := envOK_partial demoCtx (by decide) demoExpr (by decide) (by decide)

/-- dated ranges in scope: `Mar 01-Jun 15; Dec 24-Jan 02 off; easter -2 days-easter +1 day 10:00-12:00;
Feb 29; 2024 Mar 01-2025 Jun 15 unknown; Jan 01 +Su 09:00-10:00; 2027 Sep 31 +Tu` -/
def demoDated : Expr :=
  let no : DateOffset := ⟨.none, 0⟩
  let day (m : MonthdayRange) : DaySelector := ⟨[], [m], [], []⟩
  [ ⟨day (.date (.fixed none 3 1) no (.fixed none 6 15) no), [TimeSpan.fullDay], .open, .normal, []⟩,
    ⟨day (.date (.fixed none 12 24) no (.fixed none 1 2) no), [TimeSpan.fullDay], .closed, .normal, []⟩,
    ⟨day (.date (.easter none) ⟨.none, -2⟩ (.easter none) ⟨.none, 1⟩), [⟨.fixed 600, .fixed 720, false, none⟩], .open, .normal, []⟩,
    ⟨day (.date (.fixed none 2 29) no (.fixed none 2 29) no), [TimeSpan.fullDay], .open, .normal, []⟩,
    ⟨day (.date (.fixed (some 2024) 3 1) no (.fixed (some 2025) 6 15) no), [TimeSpan.fullDay], .unknown, .normal, []⟩,
    ⟨day (.date (.fixed none 1 1) ⟨.next 6, 0⟩ (.fixed none 1 1) ⟨.next 6, 0⟩), [⟨.fixed 540, .fixed 600, false, none⟩], .open, .normal, []⟩,
    ⟨day (.date (.fixed (some 2027) 9 31) ⟨.next 1, 0⟩ (.fixed (some 2027) 9 31) ⟨.next 1, 0⟩), [TimeSpan.fullDay], .open, .normal, []⟩ ]

example : ParserWF demoDated = true := by decide
example : exprHintSafe demoDated = true := by decide
example : NoDated demoDated = false := by decide
example : DayLevelOK demoCtx demoDated := envOK_of_parserWF demoCtx (by decide) demoDated (by decide) (by decide)

/-! ## the former refutation of the unscoped statement

`Jan 01 +400 days-Jan 10 +770 days` (both bounds shifted by more than a year).  With search windows around
the year of the evaluated day (filter `y−2..y+2`, hint `y−2..y+10`) filter and hint paired the bounds
differently: from 2019-02-20 (day 737110, closed) `next_change_hint` answered 2020-02-05 (737460) although
2020-01-01 (737425) was open all day (on the real code `iter_range` reported Closed for
2019-02-20..2020-02-05 while `state()` was Open from 2020-01-01); `¬ EnvOK` was a theorem
(`envOK_fails_shifted`, `layerB_unscoped_fails`).  With the windows centred on the year of `d - day offset`
the expression is inside the scope, `EnvOK` holds, and 2020-01-01 is closed as the specification says. -/

def shiftedExpr : Expr :=
  [⟨⟨[], [.date (.fixed none 1 1) ⟨.none, 400⟩ (.fixed none 1 10) ⟨.none, 770⟩], [], []⟩, [TimeSpan.fullDay], .open, .normal, []⟩]

example : ParserWF shiftedExpr = true := by decide
example : exprHintSafe shiftedExpr = true := by decide

/-- the former counter-example meets `EnvOK` -/
theorem envOK_shifted : DayLevelOK Ctx.default shiftedExpr :=
  envOK_of_parserWF Ctx.default (by decide) shiftedExpr (by decide) (by decide)

/-- concretely: from 2019-02-20 (737110, closed, the day after the occurrence 2019-02-05 … 2019-02-19) the hint
is still 2020-02-05 (737460, the next start), and 2020-01-01 (737425) is now closed all day — as is every day
in between (`envOK_shifted`) -/
theorem shifted_witness_values :
    (envOf Ctx.default shiftedExpr).hintOf 737110 = 737460 ∧
    (envOf Ctx.default shiftedExpr).schedOf 737425 = [⟨0, 1440, .closed, []⟩] ∧
    lastKind ((envOf Ctx.default shiftedExpr).schedOf 737110) = .closed ∧
    (envOf Ctx.default shiftedExpr).schedOf 737460 = [⟨0, 1440, .open, []⟩] := by
  decide +kernel

/-- shapes that were outside the scope and are inside now: a shifted bound that leaves its year
(`Jan 01 -7 days-Dec 25`), occurrences three years long (`Jan 01 -364 days-Dec 31 +370 days`), a single day
longer than a year (`Dec 28 +35 days-Dec 28 +405 days`), February 29th with a long occurrence
(`Feb 29 -1000 days-Feb 29 +10 days`), offsets of ±100 000 days with weekday moves, and the bounds of the
scope: `Jan 01 -Mo -92000000 days-Dec 31 +Su +92000000 days`, `Feb 29 -10¹² days-Feb 29 -92000000 days`,
`easter -300000 days-easter +300000 days` -/
def wideDated : Expr :=
  let day (m : MonthdayRange) : DaySelector := ⟨[], [m], [], []⟩
  [ ⟨day (.date (.fixed none 1 1) ⟨.none, -7⟩ (.fixed none 12 25) ⟨.none, 0⟩), [TimeSpan.fullDay], .open, .normal, []⟩,
    ⟨day (.date (.fixed none 1 1) ⟨.none, -364⟩ (.fixed none 12 31) ⟨.none, 370⟩), [TimeSpan.fullDay], .closed, .normal, []⟩,
    ⟨day (.date (.fixed none 12 28) ⟨.none, 35⟩ (.fixed none 12 28) ⟨.none, 405⟩), [⟨.fixed 600, .fixed 720, false, none⟩], .open, .normal, []⟩,
    ⟨day (.date (.fixed none 2 29) ⟨.none, -1000⟩ (.fixed none 2 29) ⟨.none, 10⟩), [TimeSpan.fullDay], .unknown, .normal, []⟩,
    ⟨day (.date (.fixed none 1 1) ⟨.prev 0, -100000⟩ (.fixed none 12 31) ⟨.next 6, 100000⟩), [TimeSpan.fullDay], .open, .additional, []⟩,
    ⟨day (.date (.fixed none 1 1) ⟨.prev 0, -92000000⟩ (.fixed none 12 31) ⟨.next 6, 92000000⟩), [TimeSpan.fullDay], .open, .additional, []⟩,
    ⟨day (.date (.fixed none 2 29) ⟨.none, -1000000000000⟩ (.fixed none 2 29) ⟨.none, -92000000⟩), [TimeSpan.fullDay], .open, .additional, []⟩,
    ⟨day (.date (.easter none) ⟨.none, -300000⟩ (.easter none) ⟨.none, 300000⟩), [TimeSpan.fullDay], .open, .additional, []⟩ ]

example : ParserWF wideDated = true := by decide
example : exprHintSafe wideDated = true := by decide
example : DayLevelOK demoCtx wideDated := envOK_of_parserWF demoCtx (by decide) wideDated (by decide) (by decide)

/-- outside the scope (nothing is proved, nothing is known to fail): a day offset beyond ±92 000 000 days on a
yearless start (and below +99 500 000, from where on nothing ever starts: in scope again); beyond ±300 000 days
next to Easter -/
example : exprHintSafe [⟨⟨[], [.date (.fixed none 1 1) ⟨.none, 92000001⟩ (.fixed none 1 10) ⟨.none, 0⟩], [], []⟩,
    [TimeSpan.fullDay], .open, .normal, []⟩] = false := by decide
example : exprHintSafe [⟨⟨[], [.date (.easter none) ⟨.none, 300001⟩ (.fixed none 12 31) ⟨.none, 0⟩], [], []⟩,
    [TimeSpan.fullDay], .open, .normal, []⟩] = false := by decide

end OH.Props.C02B
