/-
C20 — `UniqueSortedVec` keeps its sorted-unique invariant under all operations.

"A UniqueSortedVec built from any vector holds exactly the distinct elements in increasing order;
 union returns exactly the set union (again sorted and unique) for any two operands, contains agrees
 with membership, and find_first_following returns the least element not smaller than the argument."

Model: `OH.Model.SortedVec` (a value is the underlying `Vec<T>` as a `List α`); helper lemmas:
`OH.Proofs.SortedVec`.  Every theorem is stated for an arbitrary element type whose `compare` is a
lawful total order: `Std.TransOrd α` (orientation `compare a b = (compare b a).swap` and
transitivity) and `Std.LawfulEqOrd α` (`compare a b = .eq ↔ a = b`) — what Rust's `T: Ord` promises.
The invariant is `Sorted l`: `l` is strictly increasing for `compare` (hence duplicate-free).
"Any two operands" of `union`/`contains`/`find_first_following` are `UniqueSortedVec` values; the
only constructors are `new`, `From<Vec<T>>` and `union` (`to_ref` re-borrows the same elements), and
`reachable_sorted` shows that every such value is `Sorted`, so the hypothesis `Sorted` below is met
by every value the public API can build.
-/
import OH.Model.SortedVec
import OH.Proofs.SortedVec
namespace OH.Props.C20
open OH.Model.SortedVec OH.Proofs.SortedVec Std

/-! The order classes are available for the element types the library uses
(`UniqueSortedVec<Arc<str>>` for comments, small integers in tests). -/
example : TransOrd Nat ∧ LawfulEqOrd Nat := ⟨inferInstance, inferInstance⟩
example : TransOrd Char ∧ LawfulEqOrd Char := ⟨inferInstance, inferInstance⟩
example : TransOrd String ∧ LawfulEqOrd String := ⟨inferInstance, inferInstance⟩

set_option linter.unusedSectionVars false

variable {α : Type} [Ord α] [TransOrd α] [LawfulEqOrd α]

/-! ### the invariant -/

/-- `Sorted l` (strictly increasing) unfolds to: every earlier element is `<` every later one. -/
theorem sorted_iff (l : List α) :
    Sorted l ↔ ∀ (i j : Nat) (hi : i < l.length) (hj : j < l.length), i < j → compare l[i] l[j] = .lt :=
  List.pairwise_iff_getElem

/-- a strictly increasing vector has no repeated element -/
theorem sorted_nodup {l : List α} (h : Sorted l) : l.Nodup := h.nodup

/-- Uniqueness of the representation: two sorted-unique vectors with the same members are equal. -/
theorem sorted_ext {a b : List α} (ha : Sorted a) (hb : Sorted b) (h : ∀ x, x ∈ a ↔ x ∈ b) : a = b :=
  OH.Proofs.SortedVec.sorted_ext ha hb h

/-! ### `From<Vec<T>>` : "holds exactly the distinct elements in increasing order" -/

/-- in increasing order, each element once — for ANY input vector -/
theorem fromVec_sorted (v : List α) : Sorted (fromVec v) := sorted_fromVec v

/-- exactly the elements of the input -/
theorem fromVec_mem (v : List α) (x : α) : x ∈ fromVec v ↔ x ∈ v := mem_fromVec

theorem fromVec_nodup (v : List α) : (fromVec v).Nodup := (sorted_fromVec v).nodup

/-- the result is the unique sorted-unique vector with the members of `v` -/
theorem fromVec_unique (v l : List α) (hl : Sorted l) (hm : ∀ x, x ∈ l ↔ x ∈ v) : fromVec v = l :=
  sorted_ext (sorted_fromVec v) hl (fun x => by rw [mem_fromVec, hm])

/-- `From<Vec>` does not change a vector that is already sorted and unique -/
theorem fromVec_of_sorted {l : List α} (h : Sorted l) : fromVec l = l :=
  OH.Proofs.SortedVec.fromVec_of_sorted h

/-! ### `union` : "exactly the set union (again sorted and unique)" -/

theorem union_sorted {a b : List α} (ha : Sorted a) (hb : Sorted b) : Sorted (union a b) :=
  sorted_union ha hb

theorem union_mem {a b : List α} (ha : Sorted a) (hb : Sorted b) (x : α) :
    x ∈ union a b ↔ x ∈ a ∨ x ∈ b := mem_union ha hb

/-- closed form used as the executable specification in the correspondence driver -/
theorem union_eq_fromVec_append {a b : List α} (ha : Sorted a) (hb : Sorted b) :
    union a b = fromVec (a ++ b) := OH.Proofs.SortedVec.union_eq_fromVec_append ha hb

/-- for operands built with `From<Vec>` from arbitrary vectors (the quantifier of the property) -/
theorem union_fromVec (v w : List α) :
    Sorted (union (fromVec v) (fromVec w)) ∧
    ∀ x, x ∈ union (fromVec v) (fromVec w) ↔ x ∈ v ∨ x ∈ w := by
  refine ⟨sorted_union (sorted_fromVec v) (sorted_fromVec w), fun x => ?_⟩
  rw [mem_union (sorted_fromVec v) (sorted_fromVec w), mem_fromVec, mem_fromVec]

theorem union_comm {a b : List α} (ha : Sorted a) (hb : Sorted b) : union a b = union b a :=
  sorted_ext (sorted_union ha hb) (sorted_union hb ha)
    (fun x => by rw [mem_union ha hb, mem_union hb ha]; exact Or.comm)

theorem union_assoc {a b c : List α} (ha : Sorted a) (hb : Sorted b) (hc : Sorted c) :
    union (union a b) c = union a (union b c) :=
  sorted_ext (sorted_union (sorted_union ha hb) hc) (sorted_union ha (sorted_union hb hc))
    (fun x => by
      rw [mem_union (sorted_union ha hb) hc, mem_union ha hb,
          mem_union ha (sorted_union hb hc), mem_union hb hc]
      exact or_assoc)

theorem union_idem {a : List α} (ha : Sorted a) : union a a = a :=
  sorted_ext (sorted_union ha ha) ha (fun x => by rw [mem_union ha ha]; exact or_self_iff)

theorem union_nil_left (a : List α) : union [] a = a := by
  unfold union; cases a <;> simp

theorem union_nil_right (a : List α) : union a [] = a := by
  unfold union; simp

/-- absorption: the union with a subset changes nothing -/
theorem union_eq_left_of_subset {a b : List α} (ha : Sorted a) (hb : Sorted b)
    (h : ∀ x ∈ b, x ∈ a) : union a b = a :=
  sorted_ext (sorted_union ha hb) ha (fun x => by
    rw [mem_union ha hb]; exact ⟨fun h' => h'.elim id (h x), Or.inl⟩)

/-! ### `contains` : "agrees with membership" -/

theorem contains_iff {v : List α} (hv : Sorted v) (x : α) : contains v x = true ↔ x ∈ v :=
  contains_iff_mem hv

theorem contains_fromVec (v : List α) (x : α) : contains (fromVec v) x = true ↔ x ∈ v := by
  rw [contains_iff_mem (sorted_fromVec v), mem_fromVec]

/-! ### `find_first_following` : "the least element not smaller than the argument" -/

/-- `Some(y)` exactly when `y` is a member, `¬ y < x`, and `y ≤ z` for every member `z` with `¬ z < x` -/
theorem findFirstFollowing_some {v : List α} (hv : Sorted v) (x y : α) :
    findFirstFollowing v x = some y ↔
      y ∈ v ∧ compare y x ≠ .lt ∧ ∀ z ∈ v, compare z x ≠ .lt → compare y z ≠ .gt :=
  findFirstFollowing_eq_some_iff hv

/-- `None` exactly when every member is smaller than the argument -/
theorem findFirstFollowing_none {v : List α} (hv : Sorted v) (x : α) :
    findFirstFollowing v x = none ↔ ∀ z ∈ v, compare z x = .lt :=
  findFirstFollowing_eq_none_iff hv

/-- closed form used as the executable specification in the correspondence driver -/
theorem findFirstFollowing_eq_find? {v : List α} (hv : Sorted v) (x : α) :
    findFirstFollowing v x = v.find? (fun y => compare y x != .lt) :=
  OH.Proofs.SortedVec.findFirstFollowing_eq_find? x hv

/-- a member is its own first following element (link between the two queries) -/
theorem findFirstFollowing_self_iff {v : List α} (hv : Sorted v) (x : α) :
    findFirstFollowing v x = some x ↔ contains v x = true := by
  rw [findFirstFollowing_eq_some_iff hv, contains_iff_mem hv]
  constructor
  · exact fun h => h.1
  · intro hx
    refine ⟨hx, lt_irrefl' x, fun z _ hz hgt => hz (gt_iff_lt'.mp hgt)⟩

/-- Both queries go through `slice::binary_search`, whose probing strategy is a standard-library
detail.  On a sorted-unique vector its documented contract has a single solution, which is what the
model computes — so the two theorems above hold for any conforming implementation. -/
theorem binarySearch_is_the_contract {v : List α} (hv : Sorted v) (x : α) (r : Bool × Nat) :
    SearchContract v x r ↔ r = binarySearch v.toArray x 0 v.length :=
  ⟨fun h => searchContract_unique hv h (binarySearch_contract x hv),
   fun h => h ▸ binarySearch_contract x hv⟩

/-! ### the invariant holds for every value the public API can build -/

/-- values obtainable from `UniqueSortedVec::new()`, `From<Vec<T>>` and `union` -/
inductive Reachable : List α → Prop
  | new : Reachable []
  | fromVec (v : List α) : Reachable (fromVec v)
  | union {a b : List α} : Reachable a → Reachable b → Reachable (union a b)

theorem reachable_sorted {l : List α} (h : Reachable l) : Sorted l := by
  induction h with
  | new => exact sorted_nil
  | fromVec v => exact sorted_fromVec v
  | union _ _ iha ihb => exact sorted_union iha ihb

/-- conversely every sorted-unique vector is a value of the type (`From<Vec>` fixes it) -/
theorem sorted_reachable {l : List α} (h : Sorted l) : Reachable l := by
  have := Reachable.fromVec l
  rwa [OH.Proofs.SortedVec.fromVec_of_sorted h] at this

theorem reachable_iff_sorted (l : List α) : Reachable l ↔ Sorted l :=
  ⟨reachable_sorted, sorted_reachable⟩

/-- hence all clauses hold for reachable values without further hypothesis -/
theorem reachable_all {a b : List α} (ha : Reachable a) (hb : Reachable b) (x : α) :
    Sorted (union a b) ∧ (x ∈ union a b ↔ x ∈ a ∨ x ∈ b) ∧ (contains a x = true ↔ x ∈ a) ∧
    (findFirstFollowing a x = none ↔ ∀ z ∈ a, compare z x = .lt) :=
  ⟨sorted_union (reachable_sorted ha) (reachable_sorted hb),
   mem_union (reachable_sorted ha) (reachable_sorted hb),
   contains_iff_mem (reachable_sorted ha),
   findFirstFollowing_eq_none_iff (reachable_sorted ha)⟩

/-- `to_ref` (the only constructor that changes the element type) keeps the invariant, under the
contract of `Borrow` that the borrowed form orders like the owned one (`String`/`Arc<str>` → `str`) -/
theorem toRef_sorted {β : Type} [Ord β] (f : α → β) (hf : ∀ a b, compare (f a) (f b) = compare a b)
    {v : List α} (hv : Sorted v) : Sorted (toRef f v) := sorted_toRef hf hv

theorem toRef_mem {β : Type} (f : α → β) (v : List α) (y : β) : y ∈ toRef f v ↔ ∃ x ∈ v, f x = y := by
  unfold toRef; exact List.mem_map

/-! ### non-vacuity and the role of the hypotheses
(`union` and `binarySearch` are defined by well-founded recursion, which `decide` evaluates only
with the kernel's reduction: `decide +kernel`, which adds no trust assumption.) -/

example : Sorted [1, 3, 5] ∧ Sorted [2, 3, 9, 10] := by decide
example : Sorted ["Anaïs", "Hello", "été"] := by decide
example : fromVec [2, 1, 3, 5, 3] = [1, 2, 3, 5] := by decide
example : fromVec ["Hello", "Anaïs", "Hello"] = ["Anaïs", "Hello"] := by decide
example : union [1, 2, 3] [0, 3, 4] = [0, 1, 2, 3, 4] := by decide +kernel
example : union [1, 3, 5] [2, 3, 9, 10] = [1, 2, 3, 5, 9, 10] := by decide +kernel
example : contains [10, 30, 40] 30 = true ∧ contains [10, 30, 40] 50 = false := by decide +kernel
example : findFirstFollowing [10, 30, 40] 30 = some 30 ∧ findFirstFollowing [10, 30, 40] 31 = some 40 ∧
    findFirstFollowing [10, 30, 40] 50 = none := by decide +kernel

/-- `union` is only specified on sorted-unique operands (the type guarantees them): on an operand
that violates the invariant the result is not the set union — the hypothesis is needed. -/
example : union [2, 1] [1] = [1, 2, 1] ∧ ¬ Sorted (union [2, 1] [1]) := by decide +kernel
/-- likewise binary search needs a sorted vector -/
example : (3 : Nat) ∈ [3, 1, 2] ∧ contains [3, 1, 2] 3 = false := by decide +kernel

end OH.Props.C20
