/-
C01 / C02 on the code as it is NOW: the month selector.  Of `impl DateFilter for ds::MonthdayRange`
(opening-hours/src/filter/date_filter.rs) the arm `MonthdayRange::Month { .. }` of `filter` and the arm
`MonthdayRange::Month { range, year: None }` and `{ range, year: Some(year) }` of `next_change_hint` are translated from the Rust source on every run
(`translators/rs2lean.py`, "arm" targets in chrono mode → `OH.Generated.Arith.MonthdayRange.filter_month`,
`hint_month_every_year`, `hint_month_of_year`: the statements in front of `match self`, then the arm, with the bindings of the pattern as
parameters typed from the declaration of the enum), together with `Month::from_date` (rules/day.rs; `impl Datelike`
read as `NaiveDate`, `unreachable!` an explicit panic outcome).  `range.wrapping_contains(&month)` is the translated
generic function at `Month`, whose derived order is the order of the discriminants; `range.end().next()` is the
translated `Month::next`; `as _` is the cast to the `u32` parameter of `from_ymd_opt`.  The chrono calls are the
functions `Chrono.*` of `OH/Model/RustChrono.lean` (their meaning in the calendar model).

The tie: for EVERY range of months, EVERY optional `u16` year and EVERY date the generated definitions return what the
hand-written evaluator model (`OH.Model.MonthdayRange.filter`, `.hint` on `.month lo hi yr`) returns; no panic
(`unreachable!`, `unwrap()` of `Month::next`) and no overflow (`naive.year() + 1`) is reachable.
-/
import OH.Generated.Arith
import OH.Proofs.RustInt
import OH.Proofs.Calendar
import OH.Props.ArithC01Range
import OH.Props.ArithC07Month
import OH.Model.Eval
namespace OH.Props.ArithC01MonthSel
set_option linter.unusedSimpArgs false
set_option linter.unusedVariables false
open OH.Model.RustInt
open OH.Model.RustChrono
open OH.Generated.Arith
open OH.Model (wrappingContains)
open OH.Props.ArithC01Range (wrappingContains_eq_model)

/-- the model's number of a month of the code -/
def num (m : Month) : Nat := m.discr.toNat

theorem num_range (m : Month) : 1 ≤ num m ∧ num m ≤ 12 := by cases m <;> decide

theorem discr_num (m : Month) : m.discr = (num m : Nat) := by cases m <;> rfl

/-- `Month::from_date`: for every date the month whose number is the calendar's; `unreachable!` is unreachable -/
theorem fromDate_spec (d : Int) : ∃ m, Month.from_date d = .ok m ∧ num m = OH.Model.Cal.month d := by
  have hb := OH.Model.Cal.month_bounds d
  unfold Month.from_date Chrono.month
  generalize OH.Model.Cal.month d = k at *
  obtain rfl | rfl | rfl | rfl | rfl | rfl | rfl | rfl | rfl | rfl | rfl | rfl :
      k = 1 ∨ k = 2 ∨ k = 3 ∨ k = 4 ∨ k = 5 ∨ k = 6 ∨ k = 7 ∨ k = 8 ∨ k = 9 ∨ k = 10 ∨ k = 11 ∨ k = 12 := by omega
  all_goals exact ⟨_, rfl, rfl⟩

/-- the derived order of `Month` is the order of the month numbers -/
theorem le_iff_num (a b : Month) : a ≤ b ↔ num a ≤ num b := by
  show a.discr ≤ b.discr ↔ _
  rw [discr_num a, discr_num b]; omega

/-- `wrapping_contains` at `Month` is the model's on the month numbers -/
theorem wc_month (lo hi m : Month) : wrappingContains lo hi m = wrappingContains (num lo) (num hi) (num m) := by
  unfold wrappingContains
  simp only [le_iff_num]

theorem year_wrap (y : Int) : wrap .u16 y = ((y % 65536).toNat : Nat) := by
  unfold wrap
  simp only [Ty.min, Ty.modulus]
  omega

/-- THE TIE (filter): the arm `Month { year, range }` of `MonthdayRange::filter` -/
theorem monthFilter_eq_model (lo hi : Month) (yr : Option Nat) (d : Int) :
    ∃ b, MonthdayRange.filter_month d ⟨lo, hi⟩ (yr.map (fun (n : Nat) => (n : Int))) = .ok b
      ∧ OH.Model.MonthdayRange.filter (.month (num lo) (num hi) yr) d = .ok b := by
  obtain ⟨m, hm, hmn⟩ := fromDate_spec d
  simp only [MonthdayRange.filter_month, OH.Model.MonthdayRange.filter, hm, bnd_ok, Chrono.year, year_wrap,
    wrappingContains_eq_model, wc_month, hmn]
  generalize (OH.Model.Cal.year d % 65536).toNat = w
  cases yr with
  | none =>
    simp only [Option.map_none, Option.getD_none, decide_true, if_true, ↓reduceIte, bnd_ok, beq_self_eq_true,
      Bool.true_and]
    exact ⟨_, rfl, rfl⟩
  | some y =>
    simp only [Option.map_some, Option.getD_some]
    by_cases h : y = w
    · subst h
      simp only [decide_true, if_true, ↓reduceIte, bnd_ok, beq_self_eq_true, Bool.true_and]
      exact ⟨_, rfl, rfl⟩
    · have h' : ¬ ((y : Int) = (w : Int)) := by omega
      have h'' : (y == w) = false := by simp [h]
      simp only [h', h'', decide_false, Bool.false_eq_true, if_false, ↓reduceIte, Bool.false_and]
      exact ⟨_, rfl, rfl⟩

theorem num_injective {a b : Month} (h : num a = num b) : a = b :=
  OH.Props.ArithC07Month.discr_injective a b (by rw [discr_num a, discr_num b, h])

/-- `Month::next` on the month numbers is the evaluator model's `monthNext` -/
theorem next_num (m : Month) : ∃ m', Month.next m = .ok m' ∧ num m' = OH.Model.monthNext (num m) := by
  obtain ⟨m', h1, h2, _⟩ := OH.Props.ArithC07Month.next_eq_eval_model m
  exact ⟨m', h1, h2⟩

theorem wrap_num (m : Month) : wrap .u32 m.discr = (num m : Nat) := by
  rw [discr_num m]; exact wrap_id (by have := num_range m; in_range)

/-- THE TIE (hint): the arm `Month { range, year: None }` of `MonthdayRange::next_change_hint` -/
theorem monthHint_eq_model (lo hi : Month) (d : Int) :
    ∃ h, MonthdayRange.hint_month_every_year d ⟨lo, hi⟩ = .ok h
      ∧ OH.Model.MonthdayRange.hint (.month (num lo) (num hi) none) d = .ok h := by
  obtain ⟨m, hm, hmn⟩ := fromDate_spec d
  obtain ⟨nx, hnx, hnxn⟩ := next_num hi
  have one : (1 : Int).toNat = 1 := rfl
  simp only [MonthdayRange.hint_month_every_year, OH.Model.MonthdayRange.hint, hm, hnx, bnd_ok, wrappingContains_eq_model,
    wc_month, hmn, Chrono.year, Chrono.DATE_END, Chrono.from_ymd_opt, Chrono.with_year, wrap_num, Int.toNat_natCast, one,
    ← hnxn]
  by_cases c : nx = lo
  · subst c
    simp only [decide_true, if_true, ↓reduceIte, beq_self_eq_true]
    exact ⟨_, rfl, rfl⟩
  · have c' : (num nx == num lo) = false := by
      simp only [beq_eq_false_iff_ne, ne_eq]
      exact fun h => c (num_injective h)
    simp only [c, c', decide_false, Bool.false_eq_true, if_false, ↓reduceIte]
    have tail : ∀ (site : String) (k : Nat), ∃ h,
        (match OH.Model.Cal.ofYmd? (OH.Model.Cal.year d) k 1 with
          | none => (.ok none : R (Option Int))
          | some naive =>
            if decide (naive > d) = true then .ok (some naive)
            else bnd (add .i32 site (OH.Model.Cal.year naive) 1) fun t =>
              .ok (OH.Model.Cal.withYear? naive t)) = .ok h
        ∧ (match OH.Model.Cal.ofYmd? (OH.Model.Cal.year d) k 1 with
          | none => (.ok none : Except String (Option Int))
          | some n => if n > d then .ok (some n) else .ok (OH.Model.Cal.withYear? n (OH.Model.Cal.year n + 1))) = .ok h := by
      intro site k
      cases hq : OH.Model.Cal.ofYmd? (OH.Model.Cal.year d) k 1 with
      | none => exact ⟨_, rfl, rfl⟩
      | some n =>
        obtain ⟨b1, b2, _, _⟩ := OH.Model.Cal.ofYmd?_eq_some_iff.1 hq
        have hy := (OH.Model.Cal.civil_of_ofYmd? hq).1
        simp only [OH.Model.Cal.minYear, OH.Model.Cal.maxYear] at b1 b2
        by_cases g : n > d
        · simp only [g, decide_true, if_true, ↓reduceIte]; exact ⟨_, rfl, rfl⟩
        · simp only [g, decide_false, Bool.false_eq_true, if_false, ↓reduceIte]
          rw [add_ok (by rw [hy]; in_range)]
          simp only [bnd_ok]
          exact ⟨_, rfl, rfl⟩
    cases wrappingContains (num lo) (num hi) (OH.Model.Cal.month d) with
    | true => simp only [if_true, ↓reduceIte, bnd_ok]; exact tail _ (num nx)
    | false => simp only [Bool.false_eq_true, if_false, ↓reduceIte, bnd_ok]; exact tail _ (num lo)

/-- THE TIE (hint, with a year): the arm `Month { range, year: Some(year) }` of `MonthdayRange::next_change_hint`.  The two
local closures `first_day` / `last_day` are expanded where they are called (`?` inside them leaves the closure), `month + 1`
(`u32`) cannot overflow, the `?`s after the closure calls end the function with `None` in the order of the code; the
untranslated `next_change_from_bounds` of the same file is the function parameter `ext_next_change_from_bounds`, instantiated
here with its hand model (`nextChangeFromIntervals ∘ intervalsFromBounds`): the ARGUMENTS the code passes to it are the model's -/
theorem monthHintYear_eq_model (lo hi : Month) (yr : Nat) (d : Int) :
    ∃ h, MonthdayRange.hint_month_of_year d ⟨lo, hi⟩ (yr : Int)
        (ext_next_change_from_bounds := fun d s e => OH.Model.nextChangeFromIntervals d (OH.Model.intervalsFromBounds s e)) = .ok h
      ∧ OH.Model.MonthdayRange.hint (.month (num lo) (num hi) (some yr)) d = .ok h := by
  have one : (1 : Int).toNat = 1 := rfl
  have twelve : (12 : Int).toNat = 12 := rfl
  have t31 : (31 : Int).toNat = 31 := rfl
  have hl := num_range lo
  have hh := num_range hi
  simp only [MonthdayRange.hint_month_of_year, OH.Model.MonthdayRange.hint, wrap_num, Chrono.from_ymd_opt, Chrono.pred_opt,
    Int.toNat_natCast, one, twelve, t31, bnd_ok]
  generalize num lo = a at *
  generalize num hi = b at *
  have e12 : decide ((12 : Int) < 12) = false := by decide
  have e12' : ¬ (12 : Nat) < 12 := by omega
  simp only [e12, e12', Bool.false_eq_true, if_false, ↓reduceIte, bnd_ok]
  have hadd : ∀ s, add .u32 s (b : Int) 1 = .ok (((b + 1 : Nat) : Int)) := by
    intro s; rw [add_ok (by in_range)]; rfl
  by_cases c : a ≤ b
  · have c' : (a : Int) ≤ (b : Int) := by omega
    simp only [c, c', decide_true, if_true, ↓reduceIte]
    cases h1 : OH.Model.Cal.ofYmd? yr a 1 with
    | none => exact ⟨_, rfl, rfl⟩
    | some x =>
      simp only []
      by_cases c2 : b < 12
      · have c2' : (b : Int) < 12 := by omega
        simp only [c2, c2', decide_true, if_true, ↓reduceIte, hadd, bnd_ok, Int.toNat_natCast]
        cases h2 : OH.Model.Cal.ofYmd? yr (b + 1) 1 with
        | none => exact ⟨_, rfl, rfl⟩
        | some z =>
          simp only [bnd_ok, Option.bind_some]
          cases h3 : OH.Model.Cal.pred? z <;> exact ⟨_, rfl, rfl⟩
      · have c2' : ¬ (b : Int) < 12 := by omega
        simp only [c2, c2', decide_false, Bool.false_eq_true, if_false, ↓reduceIte, bnd_ok]
        cases h2 : OH.Model.Cal.ofYmd? yr 12 31 <;> exact ⟨_, rfl, rfl⟩
  · have c' : ¬ (a : Int) ≤ (b : Int) := by omega
    simp only [c, c', decide_false, Bool.false_eq_true, if_false, ↓reduceIte]
    cases h0 : OH.Model.Cal.ofYmd? yr 1 1 with
    | none => exact ⟨_, rfl, rfl⟩
    | some x0 =>
      simp only []
      cases h1 : OH.Model.Cal.ofYmd? yr a 1 with
      | none => exact ⟨_, rfl, rfl⟩
      | some x =>
        simp only []
        cases h4 : OH.Model.Cal.ofYmd? yr 12 31 with
        | none =>
          by_cases c2 : b < 12
          · have c2' : (b : Int) < 12 := by omega
            simp only [c2, c2', decide_true, if_true, ↓reduceIte, hadd, bnd_ok, Int.toNat_natCast]
            cases h2 : OH.Model.Cal.ofYmd? yr (b + 1) 1 with
            | none => exact ⟨_, rfl, rfl⟩
            | some z =>
              simp only [bnd_ok, Option.bind_some]
              cases h3 : OH.Model.Cal.pred? z <;> exact ⟨_, rfl, rfl⟩
          · have c2' : ¬ (b : Int) < 12 := by omega
            simp only [c2, c2', decide_false, Bool.false_eq_true, if_false, ↓reduceIte, bnd_ok]
            exact ⟨_, rfl, rfl⟩
        | some x4 =>
          by_cases c2 : b < 12
          · have c2' : (b : Int) < 12 := by omega
            simp only [c2, c2', decide_true, if_true, ↓reduceIte, hadd, bnd_ok, Int.toNat_natCast]
            cases h2 : OH.Model.Cal.ofYmd? yr (b + 1) 1 with
            | none => exact ⟨_, rfl, rfl⟩
            | some z =>
              simp only [bnd_ok, Option.bind_some]
              cases h3 : OH.Model.Cal.pred? z <;> exact ⟨_, rfl, rfl⟩
          · have c2' : ¬ (b : Int) < 12 := by omega
            simp only [c2, c2', decide_false, Bool.false_eq_true, if_false, ↓reduceIte, bnd_ok]
            exact ⟨_, rfl, rfl⟩
end OH.Props.ArithC01MonthSel
