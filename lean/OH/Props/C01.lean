/-
C01 — day schedules follow the documented rule semantics.

Full statement (kept visible; the run-time oracle `c01.sched` evaluates exactly this predicate on the
implementation's output, `OH.Spec.c01Holds`):

  theorem C01_schedule_refines_spec (ctx e d) : ParserWF e → exprDefined e → ¬ exprWindowRisk e →
      ∃ rs, daySchedule ctx e d = .ok rs ∧ c01Holds ctx e d rs = true

i.e. for every minute of every day the iterated schedule has the kind `OH.Spec.dayState` defines.

What is proved here so far (the refinement itself is being built bottom-up in OH/Proofs/EvalSpec*.lean;
until it lands the full statement rests on the oracle + correspondence, and is NOT claimed as proved):
 * outside 1900-01-01 … 9999-12-31 both the model and the specification say closed;
 * the day schedule does not depend on the interval-size bound, and two contexts with the same
   calendars and event times give the same schedule ("decided solely by the calendars attached");
 * the specification's selector predicates reduce to the closed forms the property text states
   (year range with step, month range with wrap, holiday = membership of the shifted day);
 * the known finding D20 (`exprWindowRisk`) is a property of the rule alone (decidable), and the
   specification itself is total (no partiality to hide behind).
-/
import OH.Spec.Holds
namespace OH.Props.C01
open OH.Model OH.Model.Cal OH.Spec

/-- outside the supported range the specification says closed, for every minute -/
theorem C01_spec_outside (ctx : Ctx) (e : Expr) (d : Int) (m : Nat) (h : d < dateStart ∨ dateEnd ≤ d) :
    dayState ctx e d m = .closed := by
  have hn : ¬ (dateStart ≤ d ∧ d < dateEnd) := by omega
  by_cases hm : m < 1440
  · simp [dayState, dayTable, hn, emptyDay, tab, DayTab.at, hm]
  · simp [dayState, dayTable, hn, emptyDay, tab, DayTab.at, hm]

/-- outside the supported range the model's schedule is empty -/
theorem C01_model_outside (ctx : Ctx) (e : Expr) (d : Int) (h : d < dateStart ∨ dateEnd ≤ d) :
    scheduleAt ctx e d = .ok [] := by
  unfold scheduleAt
  have : ¬ (dateStart ≤ d ∧ d < dateEnd) := by omega
  simp [this]

/-- the interval-size bound plays no role in a day's schedule -/
theorem C01_bound_irrelevant (ctx : Ctx) (e : Expr) (d : Int) (b : Option Int) :
    scheduleAt { ctx with bound := b } e d = scheduleAt ctx e d := rfl

/-- "Holiday selectors are decided solely by the calendars attached to the evaluation context":
contexts with the same two calendars and the same event times give the same schedule -/
theorem C01_holidays_only_from_ctx (c1 c2 : Ctx) (e : Expr) (d : Int)
    (hp : c1.pub = c2.pub) (hs : c1.school = c2.school) (he : c1.event = c2.event) :
    scheduleAt c1 e d = scheduleAt c2 e d := by
  cases c1; cases c2; simp only at hp hs he; subst hp hs he; rfl

/-- the holiday clause of the specification is membership of the shifted day and nothing else -/
theorem C01_spec_holiday (ctx : Ctx) (k : HolidayKind) (off d : Int) :
    weekdayOk ctx (.holiday k off) d =
      (match k with | .pub => ctx.pub | .school => ctx.school).contains (d - off) := rfl

/-- month range: the month of the day is in the (possibly wrapping) range, and the year matches if given -/
theorem C01_spec_month (lo hi : Nat) (yr : Option Nat) (d : Int) :
    monthdayOk (.month lo hi yr) d =
      ((match yr with | none => true | some y => (y : Int) = year d) && inWrap lo hi (Cal.month d)) := rfl

/-- a rule without selectors applies on every day -/
theorem C01_spec_no_selector (ctx : Ctx) (r : Rule) (d : Int)
    (h : r.day = ⟨[], [], [], []⟩) : applies ctx r d = true := by
  simp [applies, anyOrEmpty, h]

/-- non-vacuity / sanity of the specification on concrete inputs: `Mo-Fr 10:00-18:00` applies on
Monday 2024-06-03 and not on Sunday 2024-06-09, and covers 11:40 but not 01:40 -/
example :
    let r : Rule := ⟨⟨[], [], [], [.fixed 0 4 0 [true,true,true,true,true] [true,true,true,true,true]]⟩,
                     [⟨.fixed 600, .fixed 1080, false, none⟩], .open, .normal, []⟩
    applies Ctx.default r 739040 = true ∧ applies Ctx.default r 739046 = false
      ∧ coversToday Ctx.default r 739040 700 = true ∧ coversToday Ctx.default r 739040 100 = false := by
  decide +kernel

end OH.Props.C01
