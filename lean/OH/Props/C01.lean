/-
C01 — day schedules follow the documented rule semantics.

Statement (the run-time oracle `c01.sched` evaluates exactly this predicate on the implementation's
output, `OH.Spec.c01Holds`; `c01Holds_iff` shows it is literally the pointwise statement):

  ∃ rs, daySchedule ctx e d = .ok rs ∧ c01Holds ctx e d rs = true
  i.e. ∀ m < 1440, kindAt rs m = some (OH.Spec.dayState ctx e d m)

for every minute of every day the iterated schedule has the kind the declarative specification
(`OH.Spec.Rules`: `applies`, `spanOn`, `inToday`, `inSpill`, `ruleDay`, `overlay`, `step`, `dayTable`) defines.

PROVED (refinement built bottom-up in OH/Proofs/EvalSpec*.lean; standard foundations only: propext, Classical.choice, Quot.sound).
The only hypotheses are `ParserWF e`, the day range 1900–9999 (outside: `C01_model_outside`,
`C01_spec_outside`) and a decidable class of dated ranges (which implies `exprDefined e`):
 * `C01_schedule_refines_spec_plain` (every day of 1900–9999) and `C01_schedule_refines_spec_window` (and `'`,
   pointwise conclusion): dated ranges in the RULE-LEVEL decidable class `exprDatedPlain e` (= `exprDatedSafe e d`
   for every `d`): a defined meaning (not "no year … year") and
     - two FIXED dates without a year (`Jan 01 …-Dec 31 …`, `Feb 29 …`): NO condition — every day offset an i64 can
       hold, within and beyond representability (OH/Proofs/EvalSpecDatedAll.lean: `year_before_offset` pinned at the
       first/last year of the calendar, windows cut by the calendar, occurrences pinned at `NaiveDate::MIN/MAX`);
     - both dates carry a year: NO condition;
     - a start with a year (fixed or Easter) before a fixed yearless end: start offset within ±92 000 000 days (the
       shifted start is not pinned), ANY end offset (OH/Proofs/EvalSpecDatedYearAll.lean);
     - one of the two dates is Easter: both day offsets within ±300 000 days (all years looked at are ≥ 0) — or,
       beyond representability, a yearless start moved by +99 500 000 days or more (nothing ever starts before
       10000-01-01: both sides say "never", OH/Proofs/DatedFar.lean)
   —
   NOTHING ELSE: bounds with or without a year, single days, any weekday shift, shifts of several years,
   occurrences longer than a year, offsets that differ by years (`Jan 01 +400 days-Jan 10 +770 days`).
   This is what centring the pairing windows of `MonthdayRange::Date` on the year of `d - day offset`
   (`OH.Model.yearBeforeOffset`) buys: `OH.Proofs.EvalSpec.dated_window_eq` (two yearless bounds, any two runs
   of years reaching two years below and above the centres), `single_window_iff` (single day, years `c-1 … c+8`),
   `dated_year_yearless_eq` (yearless end searched around the year of `start - end offset`);
 * `C01_schedule_refines_spec_nodated`: no side condition when there is no dated range — every year,
   week, month, weekday (nth, any offset, wrapping) and holiday selector, time spans incl. events and
   spans past midnight, the rule fold (normal / additional / fallback, closed rules, spill from yesterday),
   iteration of the schedule;
 * `C01_schedule_refines_spec_partial` / `C01_holds_partial`: the general form, with the dated ranges as the
   hypothesis `DatedAgree e d` (filter = `datedOk` on `d` and `d - 1`);
 * `C04_schedule_total`: `daySchedule` never fails under `ParserWF` alone (every day, context, offset).
No offset-scope hypothesis is left: the specification shifts days with the same saturating shift as the
(repaired) code, see `OH.Spec.shift`, `OH.Spec.weekdayOk` and the history note below.
NOT proved (rests on oracle + correspondence): a start with a year moved by more than ±92 000 000 days before a
yearless end; day offsets beyond ±300 000 days next to a yearless Easter; nothing is known to fail there — since /repo 5cdd92e also beyond about
±92 000 000 days, where `d - offset` or a year of the window around it is not representable and a bound simply has
no occurrence: lean/scratch/BFDated.lean (offsets up to ±2·10⁸: 0 mismatch with the specification, 0 unsound hint)
and the oracle on generated offsets up to ±10⁹ days.  Why the
proofs stop there: a start with a year pinned at `NaiveDate::MIN/MAX` is a case analysis not written; Easter: `easter()` of a negative year is not a date of March/April, it
can be `Feb 30` — no occurrence (notes/DATED-BOUND.md).
Older clauses kept below:
 * outside 1900-01-01 … 9999-12-31 both the model and the specification say closed;
 * the day schedule does not depend on the interval-size bound, and two contexts with the same
   calendars and event times give the same schedule ("decided solely by the calendars attached");
 * the specification's selector predicates reduce to the closed forms the property text states.
-/
import OH.Spec.Holds
import OH.Proofs.EvalSpecFold
import OH.Proofs.EvalTotal
import OH.Proofs.EvalSpecDatedClass
namespace OH.Props.C01
open OH.Model OH.Model.Cal OH.Spec

/-- outside the supported range the specification says closed, for every minute -/
theorem C01_spec_outside (ctx : Ctx) (e : Expr) (d : Int) (m : Nat) (h : d < dateStart ∨ dateEnd ≤ d) :
    dayState ctx e d m = .closed := by
  have hn : ¬ (dateStart ≤ d ∧ d < dateEnd) := by omega
  by_cases hm : m < 1440
  · simp [dayState, dayTable, hn, emptyDay, tab, DayTab.at, hm]
  · simp [dayState, dayTable, hn, emptyDay, tab, DayTab.at, hm]

/-- outside the supported range the model's schedule is empty -/
theorem C01_model_outside (ctx : Ctx) (e : Expr) (d : Int) (h : d < dateStart ∨ dateEnd ≤ d) :
    scheduleAt ctx e d = .ok [] := by
  unfold scheduleAt
  have : ¬ (dateStart ≤ d ∧ d < dateEnd) := by omega
  simp [this]

/-- the interval-size bound plays no role in a day's schedule -/
theorem C01_bound_irrelevant (ctx : Ctx) (e : Expr) (d : Int) (b : Option Int) :
    scheduleAt { ctx with bound := b } e d = scheduleAt ctx e d := rfl

/-- "Holiday selectors are decided solely by the calendars attached to the evaluation context":
contexts with the same two calendars and the same event times give the same schedule -/
theorem C01_holidays_only_from_ctx (c1 c2 : Ctx) (e : Expr) (d : Int)
    (hp : c1.pub = c2.pub) (hs : c1.school = c2.school) (he : c1.event = c2.event) :
    scheduleAt c1 e d = scheduleAt c2 e d := by
  cases c1; cases c2; simp only at hp hs he; subst hp hs he; rfl

/-- the holiday clause of the specification is membership of the shifted day and nothing else
(the shift saturates at chrono's extreme dates like the code's) -/
theorem C01_spec_holiday (ctx : Ctx) (k : HolidayKind) (off d : Int) :
    weekdayOk ctx (.holiday k off) d =
      (match k with | .pub => ctx.pub | .school => ctx.school).contains (addDaysSat d (satNeg off)) := rfl

/-- … which is the day `d - off` whenever that day is representable -/
theorem C01_spec_holiday_plain (ctx : Ctx) (k : HolidayKind) (off d : Int)
    (hd : minDay ≤ d ∧ d ≤ maxDay) (hr : minDay ≤ d - off ∧ d - off ≤ maxDay) :
    weekdayOk ctx (.holiday k off) d =
      (match k with | .pub => ctx.pub | .school => ctx.school).contains (d - off) := by
  rw [C01_spec_holiday]
  have e : addDaysSat d (satNeg off) = d - off := by
    rw [minDay_eq, maxDay_eq] at hd hr
    have e : satNeg off = -off := by unfold satNeg; rw [if_neg (by omega)]
    rw [e, addDaysSat_eq (by omega) (by rw [minDay_eq]; omega) (by rw [maxDay_eq]; omega)]
    omega
  rw [e]

/-- month range: the month of the day is in the (possibly wrapping) range, and the year matches if given -/
theorem C01_spec_month (lo hi : Nat) (yr : Option Nat) (d : Int) :
    monthdayOk (.month lo hi yr) d =
      ((match yr with | none => true | some y => (y : Int) = year d) && inWrap lo hi (Cal.month d)) := rfl

/-- a rule without selectors applies on every day -/
theorem C01_spec_no_selector (ctx : Ctx) (r : Rule) (d : Int)
    (h : r.day = ⟨[], [], [], []⟩) : applies ctx r d = true := by
  simp [applies, anyOrEmpty, h]

/-- non-vacuity / sanity of the specification on concrete inputs: `Mo-Fr 10:00-18:00` applies on
Monday 2024-06-03 and not on Sunday 2024-06-09, and covers 11:40 but not 01:40 -/
example :
    let r : Rule := ⟨⟨[], [], [], [.fixed 0 4 0 [true,true,true,true,true] [true,true,true,true,true]]⟩,
                     [⟨.fixed 600, .fixed 1080, false, none⟩], .open, .normal, []⟩
    applies Ctx.default r 739040 = true ∧ applies Ctx.default r 739046 = false
      ∧ coversToday Ctx.default r 739040 700 = true ∧ coversToday Ctx.default r 739040 100 = false := by
  decide +kernel

/-! ## The refinement: the evaluator model against the declarative specification -/

/-- The model's filter and the specification agree on every dated range (`Jan 10-Feb 20`,
`2020 Dec 24-Jan 2`, `easter -2 days-easter +1 day` …) of the expression, on day `d` and on the day
before.  This is the part of the refinement proved per class of dated ranges (see `DatedAgree_of_safe`). -/
def DatedAgree (e : Expr) (d : Int) : Prop :=
  ∀ r ∈ e, ∀ a so b eo, MonthdayRange.date a so b eo ∈ r.day.monthday →
    ∀ d', (d' = d - 1 ∨ d' = d) →
      MonthdayRange.filter (.date a so b eo) d' = .ok (datedOk a so b eo d')

open OH.Proofs.EvalSpec in
theorem exprOK_of (ctx : Ctx) (e : Expr) (d : Int) (hwf : ParserWF e = true)
    (hda : DatedAgree e d) : ExprOK ctx e d := by
  intro r hr
  simp only [ParserWF, Bool.and_eq_true, List.all_eq_true] at hwf
  have hrw := hwf.1.2 r hr
  simp only [Rule.wf, Bool.and_eq_true] at hrw
  exact ⟨hrw.1.1, fun a so b eo h => hda r hr a so b eo h d (Or.inr rfl),
    fun a so b eo h => hda r hr a so b eo h (d - 1) (Or.inl rfl)⟩

/-- C01, with the dated ranges as a hypothesis: under `ParserWF`, inside 1900–9999 (outside:
`C01_model_outside`/`C01_spec_outside`), the iterated day schedule never fails and gives every minute
of the day the state the documented semantics define. -/
theorem C01_schedule_refines_spec_partial (ctx : Ctx) (e : Expr) (d : Int) (hwf : ParserWF e = true)
    (h1 : dateStart ≤ d) (h2 : d < dateEnd) (hda : DatedAgree e d) :
    ∃ rs, daySchedule ctx e d = .ok rs ∧ ∀ m, m < 1440 → kindAt rs m = some (dayState ctx e d m) :=
  OH.Proofs.EvalSpec.daySchedule_spec ctx e d (exprOK_of ctx e d hwf hda) h1 h2

/-- the run-time oracle `c01Holds` is literally the statement of the theorem -/
theorem c01Holds_iff (ctx : Ctx) (e : Expr) (d : Int) (rs : List TimeRange) :
    c01Holds ctx e d rs = true ↔ ∀ m, m < 1440 → kindAt rs m = some (dayState ctx e d m) := by
  unfold c01Holds c01Mismatch dayState
  simp only [Option.isNone_iff_eq_none, List.find?_eq_none, List.mem_range, bne_iff_ne, ne_eq,
    Decidable.not_not]

theorem C01_holds_partial (ctx : Ctx) (e : Expr) (d : Int) (hwf : ParserWF e = true)
    (h1 : dateStart ≤ d) (h2 : d < dateEnd) (hda : DatedAgree e d) :
    ∃ rs, daySchedule ctx e d = .ok rs ∧ c01Holds ctx e d rs = true := by
  obtain ⟨rs, h, hs⟩ := C01_schedule_refines_spec_partial ctx e d hwf h1 h2 hda
  exact ⟨rs, h, (c01Holds_iff ctx e d rs).2 hs⟩

/-- no dated range in the expression (only year, month, week, weekday and holiday selectors) -/
def noDated (e : Expr) : Bool :=
  e.all (fun r => r.day.monthday.all (fun m => match m with | .date .. => false | .month .. => true))

theorem DatedAgree_of_noDated (e : Expr) (d : Int) (h : noDated e = true) : DatedAgree e d := by
  intro r hr a so b eo hm
  simp only [noDated, List.all_eq_true] at h
  have := h r hr _ hm
  simp at this

/-- C01 in full for expressions without dated ranges: no side condition at all -/
theorem C01_schedule_refines_spec_nodated (ctx : Ctx) (e : Expr) (d : Int) (hwf : ParserWF e = true)
    (h1 : dateStart ≤ d) (h2 : d < dateEnd) (hnd : noDated e = true) :
    ∃ rs, daySchedule ctx e d = .ok rs ∧ c01Holds ctx e d rs = true :=
  C01_holds_partial ctx e d hwf h1 h2 (DatedAgree_of_noDated e d hnd)

/-! ## Dated ranges: the classes for which `DatedAgree` is proved -/

open OH.Proofs.EvalSpec in
/-- every dated range of the expression is in the class `datedSafe` on day `d` and on the day before
(decidable; see `OH.Proofs.EvalSpec.datedSafe`: the class no longer depends on the day, `exprDatedSafe e d`
is `exprDatedPlain e`, see `exprDatedSafe_iff_plain`) -/
def exprDatedSafe (e : Expr) (d : Int) : Bool :=
  e.all (fun r => r.day.monthday.all (fun m => match m with
    | .date a so b eo => datedSafe a so b eo d && datedSafe a so b eo (d - 1)
    | .month .. => true))

open OH.Proofs.EvalSpec in
/-- rule-level class, no reference to the day (see `OH.Proofs.EvalSpec.datedPlain`): day offsets within
ANY offsets between two fixed yearless dates and when both bounds carry a year; a start with a year before a fixed
yearless end: start offset within ±92 000 000 days, any end offset; ±300 000 days when a bound is a yearless Easter
(or a yearless start moved by ≥ +99 500 000 days); the range has a defined meaning.  Nothing else. -/
def exprDatedPlain (e : Expr) : Bool :=
  e.all (fun r => r.day.monthday.all (fun m => match m with
    | .date a so b eo => datedPlain a so b eo
    | .month .. => true))

theorem wf_of_parserWF {e : Expr} (hwf : ParserWF e = true) {r : Rule} (hr : r ∈ e)
    {m : MonthdayRange} (hm : m ∈ r.day.monthday) : m.wf = true := by
  simp only [ParserWF, Bool.and_eq_true, List.all_eq_true] at hwf
  have hrw := hwf.1.2 r hr
  simp only [Rule.wf, DaySelector.wf, Bool.and_eq_true, List.all_eq_true] at hrw
  exact hrw.1.1.1.1.2 m hm

open OH.Proofs.EvalSpec in
theorem DatedAgree_of_safe (e : Expr) (d : Int) (hwf : ParserWF e = true)
    (h1 : dateStart ≤ d) (h2 : d < dateEnd) (h : exprDatedSafe e d = true) : DatedAgree e d := by
  intro r hr a so b eo hm d' hd'
  simp only [exprDatedSafe, List.all_eq_true] at h
  have := h r hr _ hm
  simp only [Bool.and_eq_true] at this
  have hmw := wf_of_parserWF hwf hr hm
  rcases hd' with rfl | rfl
  · exact dated_eq_of_safe a so b eo (d - 1) hmw this.2 (by omega) (by omega)
  · exact dated_eq_of_safe a so b eo d' hmw this.1 (by omega) h2

open OH.Proofs.EvalSpec in
/-- the class only contains ranges with a defined meaning -/
theorem exprDefined_of_safe (e : Expr) (d : Int) (h : exprDatedSafe e d = true) : exprDefined e = true := by
  simp only [exprDatedSafe, List.all_eq_true] at h
  simp only [exprDefined, List.all_eq_true]
  intro r hr m hm
  have := h r hr m hm
  cases m with
  | month lo hi yr => rfl
  | date a so b eo =>
    simp only [Bool.and_eq_true] at this
    have h1 := this.1
    unfold datedSafe datedPlain at h1
    simp only [Bool.and_eq_true] at h1
    exact h1.2

open OH.Proofs.EvalSpec in
theorem exprDatedSafe_of_plain (e : Expr) (d : Int) (h : exprDatedPlain e = true) : exprDatedSafe e d = true := by
  simp only [exprDatedPlain, List.all_eq_true] at h
  simp only [exprDatedSafe, List.all_eq_true]
  intro r hr m hm
  have hp := h r hr m hm
  cases m with
  | month lo hi yr => rfl
  | date a so b eo =>
    simp only [Bool.and_eq_true]
    exact ⟨datedSafe_of_plain a so b eo d hp, datedSafe_of_plain a so b eo (d - 1) hp⟩

open OH.Proofs.EvalSpec in
/-- the day-level class is the rule-level one: it no longer depends on the day -/
theorem exprDatedSafe_iff_plain (e : Expr) (d : Int) : exprDatedSafe e d = true ↔ exprDatedPlain e = true := by
  refine ⟨fun h => ?_, exprDatedSafe_of_plain e d⟩
  simp only [exprDatedSafe, List.all_eq_true] at h
  simp only [exprDatedPlain, List.all_eq_true]
  intro r hr m hm
  have := h r hr m hm
  cases m with
  | month lo hi yr => rfl
  | date a so b eo =>
    simp only [Bool.and_eq_true] at this
    exact this.1

/-- C01 for every parsed expression and day of 1900–9999 in the decidable class `exprDatedSafe`:
the iterated day schedule never fails and the run-time oracle `c01Holds` holds on it. -/
theorem C01_schedule_refines_spec_window (ctx : Ctx) (e : Expr) (d : Int) (hwf : ParserWF e = true)
    (h1 : dateStart ≤ d) (h2 : d < dateEnd) (hds : exprDatedSafe e d = true) :
    ∃ rs, daySchedule ctx e d = .ok rs ∧ c01Holds ctx e d rs = true :=
  C01_holds_partial ctx e d hwf h1 h2 (DatedAgree_of_safe e d hwf h1 h2 hds)

/-- the same with the pointwise conclusion -/
theorem C01_schedule_refines_spec_window' (ctx : Ctx) (e : Expr) (d : Int) (hwf : ParserWF e = true)
    (h1 : dateStart ≤ d) (h2 : d < dateEnd) (hds : exprDatedSafe e d = true) :
    ∃ rs, daySchedule ctx e d = .ok rs ∧ ∀ m, m < 1440 → kindAt rs m = some (dayState ctx e d m) :=
  C01_schedule_refines_spec_partial ctx e d hwf h1 h2 (DatedAgree_of_safe e d hwf h1 h2 hds)

/-- former name of `C01_schedule_refines_spec_window` (the class used to be year-locality only) -/
theorem C01_schedule_refines_spec_inyear (ctx : Ctx) (e : Expr) (d : Int) (hwf : ParserWF e = true)
    (h1 : dateStart ≤ d) (h2 : d < dateEnd) (hds : exprDatedSafe e d = true) :
    ∃ rs, daySchedule ctx e d = .ok rs ∧ c01Holds ctx e d rs = true :=
  C01_schedule_refines_spec_window ctx e d hwf h1 h2 hds

/-- C01 for every day of 1900–9999, for expressions in the RULE-LEVEL class `exprDatedPlain`: every dated
range with a defined meaning whose day offsets are any (two fixed yearless dates; two bounds with a year), a start
offset within ±92 000 000 days (a start with a year before a fixed yearless end), within ±300 000 days (Easter)
— (`Jan 10-Feb 20`, `Dec 24-Jan 2`,
`Feb 29`, `2020 Dec 24-Jan 2`, `easter -47 days-easter +60 days`, `Jan 1 -10 days-Dec 25`,
`Jan 01 +400 days-Jan 10 +770 days`, `Feb 29 -1000 days-Feb 29 +10 days`, `2020 Jan 1-Feb 1 +800 days`) -/
theorem C01_schedule_refines_spec_plain (ctx : Ctx) (e : Expr) (d : Int) (hwf : ParserWF e = true)
    (h1 : dateStart ≤ d) (h2 : d < dateEnd) (hpl : exprDatedPlain e = true) :
    ∃ rs, daySchedule ctx e d = .ok rs ∧ c01Holds ctx e d rs = true :=
  C01_schedule_refines_spec_window ctx e d hwf h1 h2 (exprDatedSafe_of_plain e d hpl)

/-! ## C04 clause: the day schedule is total -/

/-- `schedule_at(date).into_iter()` never panics on a parsed expression: every day, every context,
every offset (saturated shifts are total) -/
theorem C04_schedule_total (ctx : Ctx) (e : Expr) (d : Int) (hwf : ParserWF e = true) :
    ∃ rs, daySchedule ctx e d = .ok rs := by
  apply OH.Proofs.EvalSpec.daySchedule_total
  intro hin r hr
  simp only [ParserWF, Bool.and_eq_true, List.all_eq_true] at hwf
  have hrw := hwf.1.2 r hr
  simp only [Rule.wf, Bool.and_eq_true] at hrw
  have hd := OH.Proofs.EvalSpec.window_repr (d := d) (by omega) hin.2
  have hd1 := OH.Proofs.EvalSpec.window_repr (d := d - 1) (by omega) (by omega)
  exact ⟨OH.Proofs.EvalSpec.daySelectorFilter_total ctx r.day hrw.1.1 d hd,
    OH.Proofs.EvalSpec.daySelectorFilter_total ctx r.day hrw.1.1 (d - 1) hd1⟩

/-! ## History: findings made while this refinement was proved

1. Windowed pairing of yearless dated ranges (repaired in /repo: pairing on the years `y-2 … y+2`; the model
   follows): `Jan 1 -10 days-Dec 25` was open on 2023-12-28 and `Dec 31 +100 days-Jan 1 +50 days` closed on
   2024-01-15 — an OFFSET moved a bound out of the year it was projected on; neither was in the class then
   called D20.  Both days now agree with the specification and are inside `exprDatedSafe` (checked below).
   A shift of MORE than a year still left that fixed window (`Jan 01 +400 days-Jan 10 +770 days` open on
   2020-01-01 where the semantics say closed; former open finding `dated-shift-over-a-year`).  The windows are
   now centred on the year of `d - day offset` of each bound (`yearBeforeOffset`), five years each as before:
   the class lost every condition on the size of the shift (checked on the witness below).
2. Saturated day shifts.  With offsets of about 97 million days or more the shifted day is not representable
   by chrono; the (repaired) code pins it at `NaiveDate::MIN`/`MAX` (`add_days_saturating`).  An earlier version
   of the specification shifted exactly, and the statement then failed on `Mo[1-5] +97000000 days`
   (2024-01-21: exact shift = a Monday, first of its month ⇒ open; implementation closed) and on
   `2020 Jan 1 -100000000 days-Feb 1` (2024-01-15: implementation open, exact reading closed); the earlier
   theorems carried an offset scope `EvalScope` and a refutation `C01_full_statement_fails` of the unscoped
   statement.  The property text gives no meaning to days chrono cannot represent, so the specification
   now adopts the code's saturating shift (`OH.Spec.shift`, `OH.Spec.weekdayOk`), the scope hypothesis is
   gone, and both witnesses agree (first one checked below; the second needs 550 000 candidate years and
   is checked by the run-time oracle only). -/

/-- `Mo[1-5] +97000000 days` on 2024-01-21: the selector and the specification agree (closed) -/
example :
    let w : WeekDayRange := .fixed 0 0 97000000 [true, true, true, true, true] [false, false, false, false, false]
    w.wf = true ∧ (match WeekDayRange.filter Ctx.default w 738906 with | .ok b => b | .error _ => true) = false
      ∧ weekdayOk Ctx.default w 738906 = false := by decide +kernel

/-- the two former witnesses of finding 1 are inside the class on the formerly failing days -/
example :
    let e1 : Expr := [⟨⟨[], [.date (.fixed none 1 1) ⟨.none, -10⟩ (.fixed none 12 25) ⟨.none, 0⟩], [], []⟩,
      [TimeSpan.fullDay], .open, .normal, []⟩]
    let e2 : Expr := [⟨⟨[], [.date (.fixed none 12 31) ⟨.none, 100⟩ (.fixed none 1 1) ⟨.none, 50⟩], [], []⟩,
      [TimeSpan.fullDay], .open, .normal, []⟩]
    exprDatedSafe e1 738882 = true ∧ exprDatedSafe e2 738900 = true := by decide +kernel

/-! ### non-vacuity of the positive theorems -/

/-- `Dec 24-Jan 2 10:00-18:00; easter -2 days-easter +1 day,2024 Mar 1 +3 days-Apr 15 off; PH -1 day 08:00-12:00`:
every hypothesis of `C01_schedule_refines_spec_plain` holds (with a non-empty holiday calendar) -/
def demoExpr : Expr :=
  [⟨⟨[], [.date (.fixed none 12 24) ⟨.none, 0⟩ (.fixed none 1 2) ⟨.none, 0⟩], [], []⟩,
      [⟨.fixed 600, .fixed 1080, false, none⟩], .open, .normal, []⟩,
   ⟨⟨[], [.date (.easter none) ⟨.none, -2⟩ (.easter none) ⟨.none, 1⟩,
          .date (.fixed (some 2024) 3 1) ⟨.none, 3⟩ (.fixed none 4 15) ⟨.none, 0⟩], [], []⟩,
      [TimeSpan.fullDay], .closed, .normal, []⟩,
   ⟨⟨[], [], [], [.holiday .pub (-1)]⟩, [⟨.fixed 480, .fixed 720, false, none⟩], .open, .normal, []⟩]

def demoCtx : Ctx := { Ctx.default with pub := [739246, 739252] }

example : ParserWF demoExpr = true ∧ exprDatedPlain demoExpr = true := by decide +kernel

example : ∃ rs, daySchedule demoCtx demoExpr 739250 = .ok rs ∧ c01Holds demoCtx demoExpr 739250 rs = true :=
  C01_schedule_refines_spec_plain demoCtx demoExpr 739250 (by decide +kernel) (by decide +kernel)
    (by decide +kernel) (by decide +kernel)

/-- ranges with offsets on yearless bounds that leave their year are in the rule-level class:
`Dec 25 -3 days-Jan 1 +2 days`, `Dec 31 +Su +100 days-Jan 1 +50 days`, `Jan 1 -10 days-Dec 25`,
`easter -47 days-easter +60 days` -/
example :
    let e : Expr := [⟨⟨[], [.date (.fixed none 12 25) ⟨.none, -3⟩ (.fixed none 1 1) ⟨.none, 2⟩,
                            .date (.fixed none 12 31) ⟨.next 6, 100⟩ (.fixed none 1 1) ⟨.none, 50⟩,
                            .date (.fixed none 1 1) ⟨.none, -10⟩ (.fixed none 12 25) ⟨.none, 0⟩,
                            .date (.easter none) ⟨.none, -47⟩ (.easter none) ⟨.none, 60⟩], [], []⟩,
      [TimeSpan.fullDay], .open, .normal, []⟩]
    ParserWF e = true ∧ exprDatedPlain e = true ∧ exprDatedSafe e 739250 = true := by decide +kernel

/-- shifts of more than a year, offsets that differ by a year, single days longer than a year, a yearless end
two years after a start with a year: all inside the rule-level class (`Jan 1 +800 days-Jan 5 +800 days`,
`Jan 01 +400 days-Jan 10 +770 days`, `Feb 29 -1000 days-Feb 29 +10 days`, `2020 Jan 1-Feb 1 +800 days`,
`Jan 01 -Mo -100000 days-Dec 31 +Su +100000 days`, and at the bound of the class
`Jan 01 -Mo -92000000 days-Dec 31 +Su +92000000 days`, `Jan 01 +92000000 days-Jan 10 -92000000 days`,
`Feb 29 -10¹² days-Feb 29 +92000000 days`, `Jan 01 +9·10¹⁸ days-Jan 10 -Mo -9·10¹⁸ days`,
`Feb 29 -200000000 days-Feb 29 +200000000 days`,
`2020 Jan 1 -92000000 days-Feb 1 +9·10¹⁸ days`, `2024 easter +92000000 days-Dec 31 -150000000 days`, `easter -300000 days-easter +300000 days`, and with two years
any offsets: `2020 Jan 1 -1000000000 days-2021 easter +1000000000 days`; beyond representability:
`easter +99500000 days-Dec 31 -Mo -9000000000000000000 days`) -/
example :
    let e : Expr := [⟨⟨[], [.date (.fixed none 1 1) ⟨.none, 800⟩ (.fixed none 1 5) ⟨.none, 800⟩,
                            .date (.fixed none 1 1) ⟨.none, 400⟩ (.fixed none 1 10) ⟨.none, 770⟩,
                            .date (.fixed none 2 29) ⟨.none, -1000⟩ (.fixed none 2 29) ⟨.none, 10⟩,
                            .date (.fixed (some 2020) 1 1) ⟨.none, 0⟩ (.fixed none 2 1) ⟨.none, 800⟩,
                            .date (.fixed none 1 1) ⟨.prev 0, -100000⟩ (.fixed none 12 31) ⟨.next 6, 100000⟩,
                            .date (.fixed none 1 1) ⟨.prev 0, -92000000⟩ (.fixed none 12 31) ⟨.next 6, 92000000⟩,
                            .date (.fixed none 1 1) ⟨.none, 92000000⟩ (.fixed none 1 10) ⟨.none, -92000000⟩,
                            .date (.fixed none 2 29) ⟨.none, -1000000000000⟩ (.fixed none 2 29) ⟨.none, 92000000⟩,
                            .date (.fixed none 1 1) ⟨.none, 9000000000000000000⟩ (.fixed none 1 10) ⟨.prev 0, -9000000000000000000⟩,
                            .date (.fixed none 2 29) ⟨.none, -200000000⟩ (.fixed none 2 29) ⟨.none, 200000000⟩,
                            .date (.fixed (some 2020) 1 1) ⟨.none, -92000000⟩ (.fixed none 2 1) ⟨.none, 9000000000000000000⟩,
                            .date (.easter (some 2024)) ⟨.none, 92000000⟩ (.fixed none 12 31) ⟨.none, -150000000⟩,
                            .date (.easter none) ⟨.none, -300000⟩ (.easter none) ⟨.none, 300000⟩,
                            .date (.fixed (some 2020) 1 1) ⟨.none, -1000000000⟩ (.easter (some 2021)) ⟨.none, 1000000000⟩,
                            .date (.easter none) ⟨.none, 99500000⟩ (.fixed none 12 31) ⟨.prev 0, -9000000000000000000⟩], [], []⟩,
      [TimeSpan.fullDay], .open, .normal, []⟩]
    ParserWF e = true ∧ exprDatedPlain e = true := by decide +kernel

/-- just outside the class: one day more, on a fixed date, after a start with a year and on Easter -/
example :
    let e0 : Expr := [⟨⟨[], [.date (.fixed (some 2020) 1 1) ⟨.none, 92000001⟩ (.fixed none 12 31) ⟨.none, 0⟩], [], []⟩,
      [TimeSpan.fullDay], .open, .normal, []⟩]
    exprDatedPlain e0 = false := by decide +kernel
example :
    let e1 : Expr := [⟨⟨[], [.date (.easter none) ⟨.none, 99499999⟩ (.fixed none 12 31) ⟨.none, 0⟩], [], []⟩,
      [TimeSpan.fullDay], .open, .normal, []⟩]
    let e2 : Expr := [⟨⟨[], [.date (.easter none) ⟨.none, 0⟩ (.fixed none 12 31) ⟨.none, 300001⟩], [], []⟩,
      [TimeSpan.fullDay], .open, .normal, []⟩]
    exprDatedPlain e1 = false ∧ exprDatedPlain e2 = false := by decide +kernel

/-- The witness of the former open finding `dated-shift-over-a-year`, `Jan 01 +400 days-Jan 10 +770 days` on
2020-01-01 (day 737425): with the windows centred on the year of `d - offset` the filter says CLOSED, like the
specification (with the windows `y-2 … y+2` around the day's year it said open); and open on 2020-02-10
(737465), inside the occurrence 2020-02-05 … 2020-02-19. -/
example :
    let r : MonthdayRange := .date (.fixed none 1 1) ⟨.none, 400⟩ (.fixed none 1 10) ⟨.none, 770⟩
    (match r.filter 737425 with | .ok b => b | .error _ => true) = false
      ∧ datedOk (.fixed none 1 1) ⟨.none, 400⟩ (.fixed none 1 10) ⟨.none, 770⟩ 737425 = false
      ∧ (match r.filter 737465 with | .ok b => b | .error _ => false) = true
      ∧ datedOk (.fixed none 1 1) ⟨.none, 400⟩ (.fixed none 1 10) ⟨.none, 770⟩ 737465 = true := by
  decide +kernel

/-- … as an instance of the theorem: C01 holds for that expression on that day -/
example :
    let e : Expr := [⟨⟨[], [.date (.fixed none 1 1) ⟨.none, 400⟩ (.fixed none 1 10) ⟨.none, 770⟩], [], []⟩,
      [TimeSpan.fullDay], .open, .normal, []⟩]
    ∃ rs, daySchedule Ctx.default e 737425 = .ok rs ∧ c01Holds Ctx.default e 737425 rs = true :=
  C01_schedule_refines_spec_plain Ctx.default _ 737425 (by decide +kernel) (by decide +kernel)
    (by decide +kernel) (by decide +kernel)

/-- … and far from any bound: `Jan 01 -Mo +92000000 days-Jan 10 +Su -92000000 days` (the start comes from
about year -249 900, the end from about year +253 900; the specification looks at every year of chrono's
calendar, most of whose shifted instances are pinned at `NaiveDate::MIN/MAX`) on 2020-01-01; and beyond
representability, `Jan 01 -150000000 days-Jan 10 +150000000 days` (no day `d - offset` chrono can represent) -/
example :
    let e : Expr := [⟨⟨[], [.date (.fixed none 1 1) ⟨.none, -150000000⟩ (.fixed none 1 10) ⟨.none, 150000000⟩], [], []⟩,
      [TimeSpan.fullDay], .open, .normal, []⟩]
    ∃ rs, daySchedule Ctx.default e 737425 = .ok rs ∧ c01Holds Ctx.default e 737425 rs = true :=
  C01_schedule_refines_spec_plain Ctx.default _ 737425 (by decide +kernel) (by decide +kernel)
    (by decide +kernel) (by decide +kernel)

example :
    let e : Expr := [⟨⟨[], [.date (.fixed none 1 1) ⟨.prev 0, 92000000⟩ (.fixed none 1 10) ⟨.next 6, -92000000⟩], [], []⟩,
      [TimeSpan.fullDay], .open, .normal, []⟩]
    ∃ rs, daySchedule Ctx.default e 737425 = .ok rs ∧ c01Holds Ctx.default e 737425 rs = true :=
  C01_schedule_refines_spec_plain Ctx.default _ 737425 (by decide +kernel) (by decide +kernel)
    (by decide +kernel) (by decide +kernel)

end OH.Props.C01
