/-
C01 — day schedules follow the documented rule semantics.

Statement (the run-time oracle `c01.sched` evaluates exactly this predicate on the implementation's
output, `OH.Spec.c01Holds`; `c01Holds_iff` shows it is literally the pointwise statement):

  ∃ rs, daySchedule ctx e d = .ok rs ∧ c01Holds ctx e d rs = true
  i.e. ∀ m < 1440, kindAt rs m = some (OH.Spec.dayState ctx e d m)

for every minute of every day the iterated schedule has the kind the declarative specification
(`OH.Spec.Rules`: `applies`, `spanOn`, `inToday`, `inSpill`, `ruleDay`, `overlay`, `step`, `dayTable`) defines.

PROVED (refinement built bottom-up in OH/Proofs/EvalSpec*.lean; only the three standard axioms):
 * `C01_schedule_refines_spec_partial` / `C01_holds_partial`: under `ParserWF e`, a day of 1900–9999,
   the offset scope `EvalScope ctx e` and the hypothesis `DatedAgree e d` (filter = `datedOk` on the dated
   ranges of `e`, on `d` and `d - 1`) — everything except dated ranges is proved in full: year, week,
   month, weekday (nth, offsets, wrapping) and holiday selectors, time spans incl. events and spans
   past midnight, the rule fold (normal / additional / fallback, closed rules, spill from yesterday),
   iteration of the schedule;
 * `C01_schedule_refines_spec_nodated`: hence in full for expressions without dated ranges;
 * `C01_schedule_refines_spec_inyear`: in full under the DECIDABLE side condition `exprDatedSafe e d`
   (dated ranges: day offsets within ±100 000 days, defined meaning, and "year-locality": every bound
   WITHOUT a year, shifted by its offset, stays inside the calendar year it is projected on, for the years
   the specification looks at around `d`; bounds WITH a year are unrestricted);
 * `C01_schedule_refines_spec_plain`: in full, for EVERY day of 1900–9999, under the RULE-LEVEL decidable
   class `exprDatedPlain e` (yearless bounds without offsets, or Easter ± ≤ 70 days with any weekday shift);
 * `C04_schedule_total`: `daySchedule` never fails under `ParserWF` alone (every day, context, offset);
 * `C01_full_statement_fails`: the statement WITHOUT the offset scope is false (saturated shifts).
NOT proved (rests on oracle + correspondence): dated ranges whose yearless bounds are shifted out of
their calendar year (`Jan 1 -10 days-Dec 25`, `Dec 31 +100 days-…`), and offsets beyond the stated bounds.
Older clauses kept below:
 * outside 1900-01-01 … 9999-12-31 both the model and the specification say closed;
 * the day schedule does not depend on the interval-size bound, and two contexts with the same
   calendars and event times give the same schedule ("decided solely by the calendars attached");
 * the specification's selector predicates reduce to the closed forms the property text states.
-/
import OH.Spec.Holds
import OH.Proofs.EvalSpecFold
import OH.Proofs.EvalTotal
import OH.Proofs.EvalSpecDatedClass
namespace OH.Props.C01
open OH.Model OH.Model.Cal OH.Spec

/-- outside the supported range the specification says closed, for every minute -/
theorem C01_spec_outside (ctx : Ctx) (e : Expr) (d : Int) (m : Nat) (h : d < dateStart ∨ dateEnd ≤ d) :
    dayState ctx e d m = .closed := by
  have hn : ¬ (dateStart ≤ d ∧ d < dateEnd) := by omega
  by_cases hm : m < 1440
  · simp [dayState, dayTable, hn, emptyDay, tab, DayTab.at, hm]
  · simp [dayState, dayTable, hn, emptyDay, tab, DayTab.at, hm]

/-- outside the supported range the model's schedule is empty -/
theorem C01_model_outside (ctx : Ctx) (e : Expr) (d : Int) (h : d < dateStart ∨ dateEnd ≤ d) :
    scheduleAt ctx e d = .ok [] := by
  unfold scheduleAt
  have : ¬ (dateStart ≤ d ∧ d < dateEnd) := by omega
  simp [this]

/-- the interval-size bound plays no role in a day's schedule -/
theorem C01_bound_irrelevant (ctx : Ctx) (e : Expr) (d : Int) (b : Option Int) :
    scheduleAt { ctx with bound := b } e d = scheduleAt ctx e d := rfl

/-- "Holiday selectors are decided solely by the calendars attached to the evaluation context":
contexts with the same two calendars and the same event times give the same schedule -/
theorem C01_holidays_only_from_ctx (c1 c2 : Ctx) (e : Expr) (d : Int)
    (hp : c1.pub = c2.pub) (hs : c1.school = c2.school) (he : c1.event = c2.event) :
    scheduleAt c1 e d = scheduleAt c2 e d := by
  cases c1; cases c2; simp only at hp hs he; subst hp hs he; rfl

/-- the holiday clause of the specification is membership of the shifted day and nothing else -/
theorem C01_spec_holiday (ctx : Ctx) (k : HolidayKind) (off d : Int) :
    weekdayOk ctx (.holiday k off) d =
      (match k with | .pub => ctx.pub | .school => ctx.school).contains (d - off) := rfl

/-- month range: the month of the day is in the (possibly wrapping) range, and the year matches if given -/
theorem C01_spec_month (lo hi : Nat) (yr : Option Nat) (d : Int) :
    monthdayOk (.month lo hi yr) d =
      ((match yr with | none => true | some y => (y : Int) = year d) && inWrap lo hi (Cal.month d)) := rfl

/-- a rule without selectors applies on every day -/
theorem C01_spec_no_selector (ctx : Ctx) (r : Rule) (d : Int)
    (h : r.day = ⟨[], [], [], []⟩) : applies ctx r d = true := by
  simp [applies, anyOrEmpty, h]

/-- non-vacuity / sanity of the specification on concrete inputs: `Mo-Fr 10:00-18:00` applies on
Monday 2024-06-03 and not on Sunday 2024-06-09, and covers 11:40 but not 01:40 -/
example :
    let r : Rule := ⟨⟨[], [], [], [.fixed 0 4 0 [true,true,true,true,true] [true,true,true,true,true]]⟩,
                     [⟨.fixed 600, .fixed 1080, false, none⟩], .open, .normal, []⟩
    applies Ctx.default r 739040 = true ∧ applies Ctx.default r 739046 = false
      ∧ coversToday Ctx.default r 739040 700 = true ∧ coversToday Ctx.default r 739040 100 = false := by
  decide +kernel

/-! ## The refinement: the evaluator model against the declarative specification -/

open OH.Proofs.EvalSpec in
/-- Scope of the weekday/holiday offsets (decidable, on the rule and the context): every fixed
weekday range has `|offset| ≤ 92 093 339` days (so that the shifted day is representable for every
day of 1900–9999: the implementation SATURATES at chrono's extreme dates, the documented semantics
shift exactly), and every holiday range has such an offset or a calendar that does not contain
chrono's two extreme days.  See `OH.Proofs.EvalSpec.wdayScope`. -/
def EvalScope (ctx : Ctx) (e : Expr) : Bool := e.all (fun r => selScope ctx r.day)

/-- The model's filter and the specification agree on every dated range (`Jan 10-Feb 20`,
`2020 Dec 24-Jan 2`, `easter -2 days-easter +1 day` …) of the expression, on day `d` and on the day
before.  This is the part of the refinement proved per class of dated ranges (see `DatedAgree_of_*`). -/
def DatedAgree (e : Expr) (d : Int) : Prop :=
  ∀ r ∈ e, ∀ a so b eo, MonthdayRange.date a so b eo ∈ r.day.monthday →
    ∀ d', (d' = d - 1 ∨ d' = d) →
      MonthdayRange.filter (.date a so b eo) d' = .ok (datedOk a so b eo d')

open OH.Proofs.EvalSpec in
theorem exprOK_of (ctx : Ctx) (e : Expr) (d : Int) (hwf : ParserWF e = true)
    (hsc : EvalScope ctx e = true) (hda : DatedAgree e d) : ExprOK ctx e d := by
  intro r hr
  simp only [ParserWF, Bool.and_eq_true, List.all_eq_true] at hwf
  have hrw := hwf.1.2 r hr
  simp only [Rule.wf, Bool.and_eq_true] at hrw
  simp only [EvalScope, List.all_eq_true] at hsc
  exact ⟨hrw.1.1, hsc r hr, fun a so b eo h => hda r hr a so b eo h d (Or.inr rfl),
    fun a so b eo h => hda r hr a so b eo h (d - 1) (Or.inl rfl)⟩

/-- C01, with the dated ranges as a hypothesis: under `ParserWF`, inside 1900–9999 (outside:
`C01_model_outside`/`C01_spec_outside`), the iterated day schedule never fails and gives every minute
of the day the state the documented semantics define. -/
theorem C01_schedule_refines_spec_partial (ctx : Ctx) (e : Expr) (d : Int) (hwf : ParserWF e = true)
    (h1 : dateStart ≤ d) (h2 : d < dateEnd) (hsc : EvalScope ctx e = true) (hda : DatedAgree e d) :
    ∃ rs, daySchedule ctx e d = .ok rs ∧ ∀ m, m < 1440 → kindAt rs m = some (dayState ctx e d m) :=
  OH.Proofs.EvalSpec.daySchedule_spec ctx e d (exprOK_of ctx e d hwf hsc hda) h1 h2

/-- the run-time oracle `c01Holds` is literally the statement of the theorem -/
theorem c01Holds_iff (ctx : Ctx) (e : Expr) (d : Int) (rs : List TimeRange) :
    c01Holds ctx e d rs = true ↔ ∀ m, m < 1440 → kindAt rs m = some (dayState ctx e d m) := by
  unfold c01Holds c01Mismatch dayState
  simp only [Option.isNone_iff_eq_none, List.find?_eq_none, List.mem_range, bne_iff_ne, ne_eq,
    Decidable.not_not]

theorem C01_holds_partial (ctx : Ctx) (e : Expr) (d : Int) (hwf : ParserWF e = true)
    (h1 : dateStart ≤ d) (h2 : d < dateEnd) (hsc : EvalScope ctx e = true) (hda : DatedAgree e d) :
    ∃ rs, daySchedule ctx e d = .ok rs ∧ c01Holds ctx e d rs = true := by
  obtain ⟨rs, h, hs⟩ := C01_schedule_refines_spec_partial ctx e d hwf h1 h2 hsc hda
  exact ⟨rs, h, (c01Holds_iff ctx e d rs).2 hs⟩

/-- no dated range in the expression (only year, month, week, weekday and holiday selectors) -/
def noDated (e : Expr) : Bool :=
  e.all (fun r => r.day.monthday.all (fun m => match m with | .date .. => false | .month .. => true))

theorem DatedAgree_of_noDated (e : Expr) (d : Int) (h : noDated e = true) : DatedAgree e d := by
  intro r hr a so b eo hm
  simp only [noDated, List.all_eq_true] at h
  have := h r hr _ hm
  simp at this

/-- C01 in full for expressions without dated ranges -/
theorem C01_schedule_refines_spec_nodated (ctx : Ctx) (e : Expr) (d : Int) (hwf : ParserWF e = true)
    (h1 : dateStart ≤ d) (h2 : d < dateEnd) (hsc : EvalScope ctx e = true) (hnd : noDated e = true) :
    ∃ rs, daySchedule ctx e d = .ok rs ∧ c01Holds ctx e d rs = true :=
  C01_holds_partial ctx e d hwf h1 h2 hsc (DatedAgree_of_noDated e d hnd)

/-! ## Dated ranges: the classes for which `DatedAgree` is proved -/

open OH.Proofs.EvalSpec in
/-- every dated range of the expression is in the class `datedSafe` on day `d` and on the day before
(decidable; see `OH.Proofs.EvalSpec.datedSafe`: offsets within ±100 000 days, defined meaning, and
every bound without a year — shifted — stays inside the year it is projected on, for the years the
specification looks at around `d`) -/
def exprDatedSafe (e : Expr) (d : Int) : Bool :=
  e.all (fun r => r.day.monthday.all (fun m => match m with
    | .date a so b eo => datedSafe a so b eo d && datedSafe a so b eo (d - 1)
    | .month .. => true))

open OH.Proofs.EvalSpec in
/-- rule-level class, no reference to the day (see `OH.Proofs.EvalSpec.datedPlain`): bounds without a
year carry no offset (or are Easter shifted by at most 70 days, weekday shift allowed); a start with
a year may carry any offset within ±100 000 days; the range has a defined meaning -/
def exprDatedPlain (e : Expr) : Bool :=
  e.all (fun r => r.day.monthday.all (fun m => match m with
    | .date a so b eo => datedPlain a so b eo
    | .month .. => true))

theorem wf_of_parserWF {e : Expr} (hwf : ParserWF e = true) {r : Rule} (hr : r ∈ e)
    {m : MonthdayRange} (hm : m ∈ r.day.monthday) : m.wf = true := by
  simp only [ParserWF, Bool.and_eq_true, List.all_eq_true] at hwf
  have hrw := hwf.1.2 r hr
  simp only [Rule.wf, DaySelector.wf, Bool.and_eq_true, List.all_eq_true] at hrw
  exact hrw.1.1.1.1.2 m hm

open OH.Proofs.EvalSpec in
theorem DatedAgree_of_safe (e : Expr) (d : Int) (hwf : ParserWF e = true)
    (h1 : dateStart ≤ d) (h2 : d < dateEnd) (h : exprDatedSafe e d = true) : DatedAgree e d := by
  intro r hr a so b eo hm d' hd'
  simp only [exprDatedSafe, List.all_eq_true] at h
  have := h r hr _ hm
  simp only [Bool.and_eq_true] at this
  have hmw := wf_of_parserWF hwf hr hm
  rcases hd' with rfl | rfl
  · exact dated_eq_of_safe a so b eo (d - 1) hmw this.2 (by omega) (by omega)
  · exact dated_eq_of_safe a so b eo d' hmw this.1 (by omega) h2

open OH.Proofs.EvalSpec in
theorem exprDatedSafe_of_plain (e : Expr) (d : Int) (hwf : ParserWF e = true)
    (h1 : dateStart ≤ d) (h2 : d < dateEnd) (h : exprDatedPlain e = true) : exprDatedSafe e d = true := by
  simp only [exprDatedPlain, List.all_eq_true] at h
  simp only [exprDatedSafe, List.all_eq_true]
  intro r hr m hm
  have hp := h r hr m hm
  have hmw := wf_of_parserWF hwf hr hm
  cases m with
  | month lo hi yr => rfl
  | date a so b eo =>
    simp only [Bool.and_eq_true]
    exact ⟨datedSafe_of_plain a so b eo d hmw hp (by omega) h2,
      datedSafe_of_plain a so b eo (d - 1) hmw hp (by omega) (by omega)⟩

/-- C01 for every expression and day in the decidable class `exprDatedSafe`:
the iterated day schedule never fails and the run-time oracle `c01Holds` holds on it. -/
theorem C01_schedule_refines_spec_inyear (ctx : Ctx) (e : Expr) (d : Int) (hwf : ParserWF e = true)
    (h1 : dateStart ≤ d) (h2 : d < dateEnd) (hsc : EvalScope ctx e = true)
    (hds : exprDatedSafe e d = true) :
    ∃ rs, daySchedule ctx e d = .ok rs ∧ c01Holds ctx e d rs = true :=
  C01_holds_partial ctx e d hwf h1 h2 hsc (DatedAgree_of_safe e d hwf h1 h2 hds)

/-- the same with the pointwise conclusion -/
theorem C01_schedule_refines_spec_inyear' (ctx : Ctx) (e : Expr) (d : Int) (hwf : ParserWF e = true)
    (h1 : dateStart ≤ d) (h2 : d < dateEnd) (hsc : EvalScope ctx e = true)
    (hds : exprDatedSafe e d = true) :
    ∃ rs, daySchedule ctx e d = .ok rs ∧ ∀ m, m < 1440 → kindAt rs m = some (dayState ctx e d m) :=
  C01_schedule_refines_spec_partial ctx e d hwf h1 h2 hsc (DatedAgree_of_safe e d hwf h1 h2 hds)

/-- C01 for every day of 1900–9999, for expressions in the RULE-LEVEL class `exprDatedPlain`
(dated ranges without offsets — `Jan 10-Feb 20`, `Dec 24-Jan 2`, `Dec 25`, `Feb 29`, `2020 Dec 24-Jan 2`,
`2024 easter-2024 Dec 31` — Easter with offsets up to 70 days, any offset ≤ 100 000 days on a start
that carries a year) -/
theorem C01_schedule_refines_spec_plain (ctx : Ctx) (e : Expr) (d : Int) (hwf : ParserWF e = true)
    (h1 : dateStart ≤ d) (h2 : d < dateEnd) (hsc : EvalScope ctx e = true)
    (hpl : exprDatedPlain e = true) :
    ∃ rs, daySchedule ctx e d = .ok rs ∧ c01Holds ctx e d rs = true :=
  C01_schedule_refines_spec_inyear ctx e d hwf h1 h2 hsc (exprDatedSafe_of_plain e d hwf h1 h2 hpl)

/-! ## C04 clause: the day schedule is total -/

/-- `schedule_at(date).into_iter()` never panics on a parsed expression: every day, every context,
every offset (no scope hypothesis: saturated shifts are total) -/
theorem C04_schedule_total (ctx : Ctx) (e : Expr) (d : Int) (hwf : ParserWF e = true) :
    ∃ rs, daySchedule ctx e d = .ok rs := by
  apply OH.Proofs.EvalSpec.daySchedule_total
  intro hin r hr
  simp only [ParserWF, Bool.and_eq_true, List.all_eq_true] at hwf
  have hrw := hwf.1.2 r hr
  simp only [Rule.wf, Bool.and_eq_true] at hrw
  have hd := OH.Proofs.EvalSpec.window_repr (d := d) (by omega) hin.2
  have hd1 := OH.Proofs.EvalSpec.window_repr (d := d - 1) (by omega) (by omega)
  exact ⟨OH.Proofs.EvalSpec.daySelectorFilter_total ctx r.day hrw.1.1 d hd,
    OH.Proofs.EvalSpec.daySelectorFilter_total ctx r.day hrw.1.1 (d - 1) hd1⟩

/-! ## The scope hypotheses cannot be dropped: the statement without them is FALSE

History.  While this refinement was being proved, two defects of the windowed pairing of yearless dated
ranges were found outside the class then called D20 (`exprWindowRisk`): `Jan 1 -10 days-Dec 25` was open on
2023-12-28 and `Dec 31 +100 days-Jan 1 +50 days` closed on 2024-01-15 (an OFFSET moved a bound out of the
year it was projected on).  Both were confirmed on the implementation and are repaired in /repo (pairing on
the years `y-2 … y+2`); the model follows the repaired code and both days now agree with the specification.

What remains false is the statement WITHOUT the offset scope (`EvalScope`, and `offSmallD` inside
`datedSafe`): the implementation shifts days with SATURATION at chrono's extreme dates (±262 000 years), the
documented semantics shift exactly.  Witnesses, both confirmed on the real implementation:
 * `Mo[1-5] +97000000 days` on 2024-01-21: the day shifted back by 97 000 000 days is a Monday and the
   first of its month, so the specification says open; the implementation tests `NaiveDate::MIN` instead
   and says closed (proved below);
 * `2020 Jan 1 -100000000 days-Feb 1` on 2024-01-15: implementation open (start saturated, end searched
   around year −262 143, `valid_ymd_before` falling back to `DATE_END`), specification closed (checked with
   `#eval`; too large for a kernel proof: the specification scans 550 000 years). -/

def cexRule : Rule :=
  ⟨⟨[], [], [], [.fixed 0 0 97000000 [true, true, true, true, true] [false, false, false, false, false]]⟩,
    [TimeSpan.fullDay], .open, .normal, []⟩
/-- `Mo[1-5] +97000000 days` -/
def cex : Expr := [cexRule]

/-- the witness is parser-well-formed, has no dated range at all, and is outside `EvalScope` -/
example : ParserWF cex = true ∧ exprDefined cex = true ∧ noDated cex = true
    ∧ EvalScope Ctx.default cex = false := by decide +kernel

open OH.Proofs.EvalSpec in
/-- specification: open on 2024-01-21 -/
theorem cex_spec : dayState Ctx.default cex 738906 0 = .open := by
  have a0 : applies Ctx.default cexRule 738906 = true := by decide +kernel
  have hin : dateStart ≤ (738906 : Int) ∧ (738906 : Int) < dateEnd := by decide +kernel
  have hstep : OH.Spec.step Ctx.default 738906 emptyDay cexRule
      = if applies Ctx.default cexRule 738906 = true then ruleDay Ctx.default cexRule 738906
        else overlay emptyDay (ruleSpill Ctx.default cexRule 738906) := rfl
  have ht : inToday (cexRule.time.map (spanOn Ctx.default 738906)) 0 = true := by decide +kernel
  unfold dayState dayTable
  rw [if_pos hin]
  simp only [cex, List.foldl_cons, List.foldl_nil, hstep, a0, if_true]
  simp only [ruleDay, tab_at, a0, ht, Bool.and_self, Bool.or_true, if_true]
  rfl

/-- model (= implementation): closed on 2024-01-21 -/
theorem cex_model : (match daySchedule Ctx.default cex 738906 with
    | .ok rs => kindAt rs 0 == some .closed | .error _ => false) = true := by decide +kernel

/-- REFUTATION of the statement without the offset scope: hypotheses `ParserWF` and `exprDefined` alone
(even with no dated range at all) do not imply the conclusion -/
theorem C01_full_statement_fails :
    ¬ ∀ (ctx : Ctx) (e : Expr) (d : Int), ParserWF e = true → exprDefined e = true → noDated e = true →
        dateStart ≤ d → d < dateEnd →
        ∃ rs, daySchedule ctx e d = .ok rs ∧ c01Holds ctx e d rs = true := by
  intro h
  obtain ⟨rs, hrs, hh⟩ := h Ctx.default cex 738906 (by decide +kernel) (by decide +kernel)
    (by decide +kernel) (by decide +kernel) (by decide +kernel)
  have hm := cex_model
  rw [hrs] at hm
  simp only [beq_iff_eq] at hm
  have := (c01Holds_iff _ _ _ _).1 hh 0 (by decide)
  rw [cex_spec, hm] at this
  cases this

/-- the same on the selector alone -/
example :
    let w : WeekDayRange := .fixed 0 0 97000000 [true, true, true, true, true] [false, false, false, false, false]
    w.wf = true ∧ (match WeekDayRange.filter Ctx.default w 738906 with | .ok b => b | .error _ => true) = false
      ∧ weekdayOk Ctx.default w 738906 = true := by decide +kernel

/-! ### non-vacuity of the positive theorems -/

/-- `Dec 24-Jan 2 10:00-18:00; easter -2 days-easter +1 day,2024 Mar 1 +3 days-Apr 15 off; PH -1 day 08:00-12:00`:
every hypothesis of `C01_schedule_refines_spec_plain` holds (with a non-empty holiday calendar) -/
def demoExpr : Expr :=
  [⟨⟨[], [.date (.fixed none 12 24) ⟨.none, 0⟩ (.fixed none 1 2) ⟨.none, 0⟩], [], []⟩,
      [⟨.fixed 600, .fixed 1080, false, none⟩], .open, .normal, []⟩,
   ⟨⟨[], [.date (.easter none) ⟨.none, -2⟩ (.easter none) ⟨.none, 1⟩,
          .date (.fixed (some 2024) 3 1) ⟨.none, 3⟩ (.fixed none 4 15) ⟨.none, 0⟩], [], []⟩,
      [TimeSpan.fullDay], .closed, .normal, []⟩,
   ⟨⟨[], [], [], [.holiday .pub (-1)]⟩, [⟨.fixed 480, .fixed 720, false, none⟩], .open, .normal, []⟩]

def demoCtx : Ctx := { Ctx.default with pub := [739246, 739252] }

example : ParserWF demoExpr = true ∧ EvalScope demoCtx demoExpr = true ∧ exprDatedPlain demoExpr = true := by
  decide +kernel

example : ∃ rs, daySchedule demoCtx demoExpr 739250 = .ok rs ∧ c01Holds demoCtx demoExpr 739250 rs = true :=
  C01_schedule_refines_spec_plain demoCtx demoExpr 739250 (by decide +kernel) (by decide +kernel)
    (by decide +kernel) (by decide +kernel) (by decide +kernel)

/-- a range with offsets on yearless bounds, outside the rule-level class but inside the day-level one:
`Dec 25 -3 days-Jan 1 +2 days` on 2024-12-30 -/
example :
    let e : Expr := [⟨⟨[], [.date (.fixed none 12 25) ⟨.none, -3⟩ (.fixed none 1 1) ⟨.none, 2⟩], [], []⟩,
      [TimeSpan.fullDay], .open, .normal, []⟩]
    exprDatedPlain e = false ∧ exprDatedSafe e 739250 = true := by decide +kernel

end OH.Props.C01
