/-
C14 / C01 on the code as it is NOW: `Schedule::from_ranges` (opening-hours/src/schedule.rs:78) is translated from the
Rust source on every run (`translators/rs2lean.py` → `OH.Generated.Arith.Sched.Schedule.from_ranges`, with
`Schedule.from_ranges.loop1` = the `while i + 1 < inner.len()` loop with an explicit `fuel`; support library
`OH/Model/RustVec.lean`).  The library calls that are not translated are PARAMETERS of the generated definition:
`ext_sort_unstable_by_key_range_start` (the sort), `ext_union` (`UniqueSortedVec::union`), `ext_comments_default`
(what `std::mem::take` leaves behind).

* `fromRanges_loop_gen` / `fromRanges_loop`: from the state `inner = pre ++ cur :: rest`, `i = pre.length`, for EVERY
  function standing for the union, the sort and the default, every fuel above `rest.length` and every vector shorter
  than `usize::MAX`, the loop is left through its condition with `pre ++ <merge of cur with rest>`: no
  `index out of bounds`, no `removal index out of bounds`, no `usize` overflow, no fuel exhaustion.  With the model's
  `cunion` for the union the merge is the model's `mergeFixedLoop`.
* `fromRanges_gen`: for EVERY input, EVERY function standing for the sort, any default value and every fuel above the
  length of the vector, the generated `from_ranges` is the model's `mergeFixed` of the sorted vector.
* `fromRanges_eq_model`: with the model's insertion sort standing for the library sort it IS the model `fromRanges`.
* `fromRanges_total`: a value for every input.
-/
import OH.Generated.Arith
import OH.Proofs.ArithSched
import OH.Proofs.ArithSchedFrom
namespace OH.Props.ArithC14SchedFrom
open OH.Model.RustInt
open OH.Generated.Arith
open OH.Proofs.ArithSched
open OH.Proofs.ArithSchedFrom

/-- `.filter(|range| range.start < range.end).map(|range| TimeRange { range, kind, comments })` on generated values -/
def gmk (rs : List (Range Nat)) (k : OH.Model.Kind) (c : List String) : List GTR :=
  List.map (fun (range : Range Nat) => ({ range := range, kind := k, comments := c } : GTR))
    (List.filter (fun (range : Range Nat) => decide (range.start < range.«end»)) rs)

/-- **The loop, any union.**  State `inner = pre ++ cur :: rest`, `i = pre.length`: the loop ends through its
condition (`.next`), with `pre ++ gmerge unionf cur rest` and `i` = the last index. -/
theorem fromRanges_loop_gen (unionf : List String → List String → List String) (dflt : List String)
    (sortf : List GTR → List GTR) :
    ∀ (rest : List GTR) (cur : GTR) (pre : List GTR) (fuel : Nat),
      rest.length < fuel → (pre ++ cur :: rest).length < 2 ^ 64 →
      Sched.Schedule.from_ranges.loop1 fuel (pre ++ cur :: rest) (pre.length : Int)
          (ext_comments_default := dflt) (ext_sort_unstable_by_key_range_start := sortf) (ext_union := unionf)
        = .ok (.next (pre ++ gmerge unionf cur rest, ((pre ++ gmerge unionf cur rest).length : Int) - 1)) := by
  intro rest
  induction rest with
  | nil =>
    intro cur pre fuel hf hlen
    obtain ⟨n, rfl⟩ : ∃ n, fuel = n + 1 := ⟨fuel - 1, by simp only [List.length_nil] at hf; omega⟩
    simp only [List.length_append, List.length_cons, List.length_nil] at hlen
    have hadd : ∀ s, add .usize s (pre.length : Int) 1 = .ok ((pre.length : Int) + 1) := fun s =>
      add_ok (by in_range)
    have hc : ¬ ((pre.length : Int) + 1 < (pre.length : Int) + 1 + (([] : List GTR).length : Int)) := by
      simp
    simp only [Sched.Schedule.from_ranges.loop1, hadd, bnd_ok, vecLen_mid, hc, decide_false, gmerge]
    simp
  | cons u rest ih =>
    intro cur pre fuel hf hlen
    obtain ⟨n, rfl⟩ : ∃ n, fuel = n + 1 := ⟨fuel - 1, by omega⟩
    simp only [List.length_append, List.length_cons] at hlen hf
    have hadd : ∀ s, add .usize s (pre.length : Int) 1 = .ok ((pre.length : Int) + 1) := fun s =>
      add_ok (by in_range)
    have hc : ((pre.length : Int) + 1 < (pre.length : Int) + 1 + ((u :: rest).length : Int)) := by
      simp only [List.length_cons]; omega
    by_cases hm : cur.range.«end» ≥ u.range.start
    · have := ih ⟨⟨cur.range.start, max cur.range.«end» u.range.«end»⟩, cur.kind, unionf cur.comments u.comments⟩
        pre n (by omega) (by simp only [List.length_append, List.length_cons]; omega)
      simp only [Sched.Schedule.from_ranges.loop1, hadd, bnd_ok, vecLen_mid, hc, decide_true, if_true,
        vecIdx_mid, vecIdx_mid1, vecSet_mid, vecRemove_mid1, hm, cmpMax_eq_max, gmerge]
      exact this
    · have := ih u (pre ++ [cur]) n (by omega) (by simp only [List.length_append, List.length_cons, List.length_nil]; omega)
      simp only [List.length_append, List.length_cons, List.length_nil, Int.natCast_add, Int.natCast_one,
        Int.natCast_zero, Int.zero_add, List.append_assoc, List.cons_append, List.nil_append] at this
      simp only [Sched.Schedule.from_ranges.loop1, hadd, bnd_ok, vecLen_mid, hc, decide_true, if_true,
        vecIdx_mid, vecIdx_mid1, hm, decide_false, gmerge, if_false, Bool.false_eq_true]
      rw [this]
      simp only [List.length_append, List.length_cons, Int.natCast_add, Int.natCast_one]

/-- **The loop, the model's union.**  With `OH.Model.cunion` standing for `UniqueSortedVec::union` the merge is the
model's `mergeFixedLoop` (transported through `toM` / `ofM`); the final `i` is the last index of the result. -/
theorem fromRanges_loop (dflt : List String) (sortf : List GTR → List GTR)
    (pre : List GTR) (cur : GTR) (rest : List GTR) (fuel : Nat)
    (hf : rest.length < fuel) (hlen : (pre ++ cur :: rest).length < 2 ^ 64) :
    Sched.Schedule.from_ranges.loop1 fuel (pre ++ cur :: rest) (pre.length : Int)
        (ext_comments_default := dflt) (ext_sort_unstable_by_key_range_start := sortf) (ext_union := OH.Model.cunion)
      = .ok (.next (pre ++ (OH.Model.Schedule.mergeFixedLoop (toM cur) (rest.map toM)).map ofM,
          ((pre ++ (OH.Model.Schedule.mergeFixedLoop (toM cur) (rest.map toM)).map ofM).length : Int) - 1)) := by
  rw [← gmerge_cunion]
  exact fromRanges_loop_gen OH.Model.cunion dflt sortf rest cur pre fuel hf hlen

/-- **Tie, and termination.**  For EVERY input, EVERY function standing for the sort, ANY value for what `take`
leaves behind and every fuel above the length of the vector, the generated `from_ranges` is a value and equals the
model's `mergeFixed` on the sorted vector. -/
theorem fromRanges_gen (rs : List (Range Nat)) (k : OH.Model.Kind) (c : List String) (dflt : List String)
    (sortf : List GTR → List GTR) (fuel : Nat)
    (hf : (sortf (gmk rs k c)).length < fuel) (hlen : (sortf (gmk rs k c)).length < 2 ^ 64) :
    Sched.Schedule.from_ranges rs k c (ext_comments_default := dflt)
        (ext_sort_unstable_by_key_range_start := sortf) (ext_union := OH.Model.cunion) fuel
      = .ok ⟨(OH.Model.Schedule.mergeFixed ((sortf (gmk rs k c)).map toM)).map ofM⟩ := by
  simp only [Sched.Schedule.from_ranges]
  change bnd (Sched.Schedule.from_ranges.loop1 fuel (sortf (gmk rs k c)) 0 dflt sortf OH.Model.cunion) _ = _
  generalize sortf (gmk rs k c) = sorted at hf hlen ⊢
  cases sorted with
  | nil =>
    obtain ⟨n, rfl⟩ : ∃ n, fuel = n + 1 := ⟨fuel - 1, by omega⟩
    have hadd : ∀ s, add .usize s 0 1 = .ok 1 := fun s => add_ok (by in_range)
    simp [Sched.Schedule.from_ranges.loop1, hadd, vecLen, OH.Model.Schedule.mergeFixed]
  | cons cur rest =>
    have := fromRanges_loop dflt sortf [] cur rest fuel
      (by simp only [List.length_cons] at hf; omega) (by simpa using hlen)
    simp only [List.nil_append, List.length_nil, Int.natCast_zero] at this
    simp only [this, bnd_ok, List.map_cons, OH.Model.Schedule.mergeFixed]

/-- the generated filter-and-map is the model's `mkRanges` -/
theorem gmk_map_toM (rs : List (Range Nat)) (k : OH.Model.Kind) (c : List String) :
    (gmk rs k c).map toM = OH.Model.Schedule.mkRanges (rs.map fun r => (r.start, r.«end»)) k c := by
  induction rs with
  | nil => rfl
  | cons r rs ih =>
    simp only [gmk, OH.Model.Schedule.mkRanges, List.map_cons, List.filter_cons] at ih ⊢
    by_cases h : r.start < r.«end»
    · simp only [h, decide_true, if_true, List.map_cons, ih]; rfl
    · simp only [h, decide_false, if_false, ih, Bool.false_eq_true]

theorem gmk_length_le (rs : List (Range Nat)) (k : OH.Model.Kind) (c : List String) :
    (gmk rs k c).length ≤ rs.length := by
  simp only [gmk, List.length_map]; exact List.length_filter_le _ _

/-- **The generated `from_ranges` IS the model `fromRanges`** when the model's insertion sort stands for
`sort_unstable_by_key`. -/
theorem fromRanges_eq_model (rs : List (Range Nat)) (k : OH.Model.Kind) (c : List String) (dflt : List String)
    (fuel : Nat) (hf : rs.length < fuel) (hlen : rs.length < 2 ^ 64) :
    Sched.Schedule.from_ranges rs k c (ext_comments_default := dflt)
        (ext_sort_unstable_by_key_range_start := fun l => (OH.Model.Schedule.sortByStart (l.map toM)).map ofM)
        (ext_union := OH.Model.cunion) fuel
      = .ok ⟨(OH.Model.Schedule.fromRanges (rs.map fun r => (r.start, r.«end»)) k c).map ofM⟩ := by
  have hl : ((OH.Model.Schedule.sortByStart ((gmk rs k c).map toM)).map ofM).length ≤ rs.length := by
    simp only [List.length_map, sortByStart_length]; exact gmk_length_le rs k c
  rw [fromRanges_gen rs k c dflt _ fuel (by omega) (by omega)]
  simp only [map_toM_map_ofM, gmk_map_toM, OH.Model.Schedule.fromRanges, OH.Model.Schedule.fromRangesFixed]

/-- never a panic (`index out of bounds`, `removal index out of bounds`), never a `usize` overflow, never out of
fuel: the loop ends, for every input and every function standing for the sort -/
theorem fromRanges_total (rs : List (Range Nat)) (k : OH.Model.Kind) (c : List String) (dflt : List String)
    (sortf : List GTR → List GTR) (fuel : Nat)
    (hf : (sortf (gmk rs k c)).length < fuel) (hlen : (sortf (gmk rs k c)).length < 2 ^ 64) :
    ∃ out, Sched.Schedule.from_ranges rs k c (ext_comments_default := dflt)
        (ext_sort_unstable_by_key_range_start := sortf) (ext_union := OH.Model.cunion) fuel = .ok out :=
  ⟨_, fromRanges_gen rs k c dflt sortf fuel hf hlen⟩

/-- the same for ANY function standing for the union -/
theorem fromRanges_total_any_union (rs : List (Range Nat)) (k : OH.Model.Kind) (c : List String) (dflt : List String)
    (sortf : List GTR → List GTR) (unionf : List String → List String → List String) (fuel : Nat)
    (hf : (sortf (gmk rs k c)).length < fuel) (hlen : (sortf (gmk rs k c)).length < 2 ^ 64) :
    ∃ out, Sched.Schedule.from_ranges rs k c (ext_comments_default := dflt)
        (ext_sort_unstable_by_key_range_start := sortf) (ext_union := unionf) fuel = .ok out := by
  simp only [Sched.Schedule.from_ranges]
  change ∃ out, bnd (Sched.Schedule.from_ranges.loop1 fuel (sortf (gmk rs k c)) 0 dflt sortf unionf) _ = _
  generalize sortf (gmk rs k c) = sorted at hf hlen ⊢
  cases sorted with
  | nil =>
    obtain ⟨n, rfl⟩ : ∃ n, fuel = n + 1 := ⟨fuel - 1, by omega⟩
    have hadd : ∀ s, add .usize s 0 1 = .ok 1 := fun s => add_ok (by in_range)
    simp [Sched.Schedule.from_ranges.loop1, hadd, vecLen]
  | cons cur rest =>
    have := fromRanges_loop_gen unionf dflt sortf rest cur [] fuel
      (by simp only [List.length_cons] at hf; omega) (by simpa using hlen)
    simp only [List.nil_append, List.length_nil, Int.natCast_zero] at this
    simp only [this, bnd_ok]
    exact ⟨_, rfl⟩

end OH.Props.ArithC14SchedFrom
