/-
C19 — ExtendedTime is a faithful 00:00..48:00 minute counter.
Only property theorems live here; there are no helper lemmas to weaken.
All arithmetic facts are closed by `omega` after unfolding the model.
-/
import OH.Model.ExtendedTime
namespace OH.Props.C19
open OH.Model OH.Model.ExtendedTime

/-- The invariant of a constructed value. -/
def WF (t : ExtendedTime) : Prop := t.hour ≤ 48 ∧ t.minute ≤ 59 ∧ (t.hour = 48 → t.minute = 0)

/-- "can be built exactly for 00:00 up to and including 48:00 with minutes below 60" -/
theorem new_some_iff (h m : Nat) :
    (∃ t, new h m = some t) ↔ (60 * h + m ≤ 2880 ∧ m < 60) := by
  unfold new
  constructor
  · intro ⟨t, ht⟩
    split at ht
    · cases ht
    · rename_i hc; simp at hc; omega
  · intro hh
    refine ⟨⟨h, m⟩, ?_⟩
    have : ¬ (h > 48 || m > 59 || (h == 48 && m > 0)) = true := by simp; omega
    simp [this]

theorem new_eq (h m : Nat) (t : ExtendedTime) (ht : new h m = some t) :
    t.hour = h ∧ t.minute = m ∧ WF t := by
  unfold new at ht
  split at ht
  · cases ht
  · rename_i hc; simp at hc; cases ht; simp [WF]; omega

/-- every minute count 0..=2880 is reachable, and nothing else -/
theorem fromMins_some_iff (n : Nat) : (∃ t, fromMins n = some t) ↔ n ≤ 2880 := by
  unfold fromMins
  split
  · constructor
    · intro ⟨_, h⟩; cases h
    · intro; omega
  · rw [new_some_iff]; omega

/-- conversion to and from minutes are inverse (1) -/
theorem mins_fromMins (n : Nat) (t : ExtendedTime) (h : fromMins n = some t) : t.mins = n := by
  unfold fromMins at h
  split at h
  · cases h
  · obtain ⟨h1, h2, _⟩ := new_eq _ _ _ h
    unfold mins; omega

/-- conversion to and from minutes are inverse (2) -/
theorem fromMins_mins (t : ExtendedTime) (h : WF t) : fromMins t.mins = some t := by
  obtain ⟨h1, h2, h3⟩ := h
  unfold fromMins mins new
  have e1 : (t.minute + 60 * t.hour) / 60 = t.hour := by omega
  have e2 : (t.minute + 60 * t.hour) % 60 = t.minute := by omega
  rw [e1, e2]
  have : ¬ t.hour > 255 := by omega
  have c : ¬ (t.hour > 48 || t.minute > 59 || (t.hour == 48 && t.minute > 0)) = true := by
    simp; omega
  simp [this, c]

theorem mins_le (t : ExtendedTime) (h : WF t) : t.mins ≤ 2880 := by
  obtain ⟨h1, h2, h3⟩ := h; unfold mins; omega

/-- ordering is minute ordering -/
theorem lt_iff_mins_lt (a b : ExtendedTime) (ha : WF a) (hb : WF b) :
    lt a b = true ↔ a.mins < b.mins := by
  obtain ⟨_, ha2, _⟩ := ha
  obtain ⟨_, hb2, _⟩ := hb
  unfold lt mins; simp; omega

theorem mins_inj (a b : ExtendedTime) (ha : WF a) (hb : WF b) (h : a.mins = b.mins) : a = b := by
  obtain ⟨_, ha2, _⟩ := ha
  obtain ⟨_, hb2, _⟩ := hb
  cases a; cases b; simp [mins] at *; omega

/-- add_minutes equals integer addition, `none` exactly when the result leaves 00:00..48:00 -/
theorem addMinutes_spec (t : ExtendedTime) (d : Int) (h : WF t)
    (_hd : -32768 ≤ d ∧ d ≤ 32767) :
    addMinutes t d =
      if 0 ≤ (t.mins : Int) + d ∧ (t.mins : Int) + d ≤ 2880
      then fromMins ((t.mins : Int) + d).toNat else none := by
  have hm := mins_le t h
  unfold addMinutes
  simp only
  split
  · rename_i hc
    split
    · omega
    · rfl
  · split
    · split
      · omega
      · rfl
    · split
      · rfl
      · rename_i h1 h2 h3
        have : ¬ ∃ u, fromMins ((t.mins : Int) + d).toNat = some u := by
          rw [fromMins_some_iff]; omega
        cases hf : fromMins ((t.mins : Int) + d).toNat with
        | none => rfl
        | some u => exact absurd ⟨u, hf⟩ this

/-- the result of a successful add_minutes has exactly the summed minute count -/
theorem addMinutes_mins (t u : ExtendedTime) (d : Int) (h : WF t)
    (hd : -32768 ≤ d ∧ d ≤ 32767) (hu : addMinutes t d = some u) :
    (u.mins : Int) = t.mins + d := by
  rw [addMinutes_spec t d h hd] at hu
  split at hu
  · have := mins_fromMins _ _ hu; omega
  · cases hu

/-- add_minutes fails exactly outside 00:00..48:00 -/
theorem addMinutes_none_iff (t : ExtendedTime) (d : Int) (h : WF t)
    (hd : -32768 ≤ d ∧ d ≤ 32767) :
    addMinutes t d = none ↔ ((t.mins : Int) + d < 0 ∨ (t.mins : Int) + d > 2880) := by
  rw [addMinutes_spec t d h hd]
  split
  · rename_i hc
    have : ∃ u, fromMins ((t.mins : Int) + d).toNat = some u := by
      rw [fromMins_some_iff]; omega
    obtain ⟨u, hu⟩ := this
    simp [hu]; omega
  · simp; omega

/-- add_hours equals integer addition of 60-minute steps, `none` exactly outside 00:00..48:00 -/
theorem addHours_spec (t : ExtendedTime) (d : Int) (h : WF t) (hd : -128 ≤ d ∧ d ≤ 127) :
    addHours t d =
      if 0 ≤ (t.mins : Int) + 60 * d ∧ (t.mins : Int) + 60 * d ≤ 2880
      then fromMins ((t.mins : Int) + 60 * d).toNat else none := by
  obtain ⟨hh, mm⟩ := t
  obtain ⟨h1, h2, h3⟩ := h
  simp only at h1 h2 h3
  have hm : (ExtendedTime.mk hh mm).mins = mm + 60 * hh := rfl
  unfold addHours
  simp only [hm]
  by_cases hneg : (hh : Int) + d < 0
  · have c : ¬ (0 ≤ ((mm + 60 * hh : Nat) : Int) + 60 * d ∧ ((mm + 60 * hh : Nat) : Int) + 60 * d ≤ 2880) := by omega
    rw [if_neg c, if_pos (Or.inl hneg)]
  · obtain ⟨n, hn⟩ : ∃ n : Nat, (hh : Int) + d = n := ⟨((hh : Int) + d).toNat, by omega⟩
    have e : ((mm + 60 * hh : Nat) : Int) + 60 * d = ((mm + 60 * n : Nat) : Int) := by omega
    rw [hn, e]
    simp only [Int.toNat_natCast]
    have c0 : ¬ ((n : Int) < 0 ∨ (n : Int) > 255) := by omega
    rw [if_neg c0]
    by_cases hr : mm + 60 * n ≤ 2880
    · have c : (0 ≤ ((mm + 60 * n : Nat) : Int) ∧ ((mm + 60 * n : Nat) : Int) ≤ 2880) := by omega
      rw [if_pos c]
      unfold fromMins
      have e1 : (mm + 60 * n) / 60 = n := by omega
      have e2 : (mm + 60 * n) % 60 = mm := by omega
      rw [e1, e2]
      have : ¬ n > 255 := by omega
      rw [if_neg this]
    · have c : ¬ (0 ≤ ((mm + 60 * n : Nat) : Int) ∧ ((mm + 60 * n : Nat) : Int) ≤ 2880) := by omega
      rw [if_neg c]
      unfold new
      have : (n > 48 || mm > 59 || (n == 48 && mm > 0)) = true := by simp; omega
      rw [if_pos this]

theorem digitChar_zero : digitChar 0 = '0' := by decide

/-- printing gives zero-padded HH:MM -/
theorem display_spec (t : ExtendedTime) (h : WF t) :
    display t = [digitChar (t.hour / 10), digitChar (t.hour % 10), ':',
                 digitChar (t.minute / 10), digitChar (t.minute % 10)] := by
  obtain ⟨h1, h2, _⟩ := h
  have pad : ∀ n, n < 100 → pad2 n = [digitChar (n / 10), digitChar (n % 10)] := by
    intro n hn
    unfold pad2
    by_cases c : n < 10
    · have a : n / 10 = 0 := by omega
      have b : n % 10 = n := by omega
      simp [c, a, b, digitChar_zero]
    · simp [c, hn]
  unfold display
  rw [pad t.hour (by omega), pad t.minute (by omega)]
  rfl

/-- conversion to a clock time succeeds exactly below 24:00 -/
theorem toNaiveTime_some_iff (t : ExtendedTime) (h : WF t) :
    (∃ s, toNaiveTime t = some s) ↔ t.mins < 1440 := by
  obtain ⟨h1, h2, _⟩ := h
  unfold toNaiveTime mins
  split
  · simp; omega
  · simp; omega

/-- clock time -> extended time -> clock time is the identity on whole minutes -/
theorem toNaiveTime_fromNaiveTime (s : Nat) (hs : s < 86400) :
    toNaiveTime (fromNaiveTime s) = some (s / 60 * 60) ∧ WF (fromNaiveTime s) := by
  unfold toNaiveTime fromNaiveTime WF
  simp only
  have : s / 3600 < 24 ∧ s / 60 % 60 < 60 := by omega
  simp [this]; omega

/-! non-vacuity: concrete values meeting the hypotheses, including the boundary -/
example : WF ⟨48, 0⟩ ∧ WF ⟨47, 59⟩ ∧ WF ⟨0, 0⟩ ∧ ¬ WF ⟨48, 1⟩ := by simp [WF]
example : addMinutes ⟨24, 0⟩ 75 = some ⟨25, 15⟩ := by decide
example : addMinutes ⟨24, 0⟩ 1441 = none ∧ addMinutes ⟨24, 0⟩ (-1441) = none := by decide
example : addHours ⟨24, 15⟩ 3 = some ⟨27, 15⟩ ∧ addHours ⟨24, 15⟩ 24 = none := by decide

end OH.Props.C19
