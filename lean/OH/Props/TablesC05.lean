import OH.Generated.Tables
import OH.Model.Parser
/-
Tie 1 for data-like code (DESIGN §8.8): the hand-written model uses exactly the constants and look-up
tables that translators/tables2lean.py extracts from the Rust sources on every run
(OH/Generated/Tables.lean).  A changed constant, a permuted or missing match arm, a changed separator or
name in /repo breaks one of these kernel-checked obligations.
-/
namespace OH.Props.TablesC05
open OH.Model OH.Generated
open OH.Model.Peg OH.Model.Parser OH.Generated.Grammar

def opOfNat : Nat → RuleOp | 0 => .normal | 1 => .additional | _ => .fallback
def kindOfNat : Nat → Kind | 0 => .open | 1 => .closed | _ => .unknown
def eventOfNat : Nat → TimeEvent | 0 => .dawn | 1 => .sunrise | 2 => .sunset | _ => .dusk
def holidayOfNat : Nat → HolidayKind | 0 => .pub | _ => .school
def signOfNat : Nat → PlusOrMinus | 0 => .plus | _ => .minus

theorem C05_separator_arms (r : PRule) (t1 t2 : List Char) (k : List T) :
    buildAnyRuleSeparator (.node .any_rule_separator t1 [.node r t2 k]) =
      (match Tables.separatorOfRule r with
       | some v => .ok (opOfNat v) | none => unexpected .any_rule_separator) := by
  cases r <;> rfl

theorem C05_modifier_arms (r : PRule) (t1 t2 : List Char) (k : List T) :
    buildRulesModifierEnum (.node .rules_modifier_enum t1 [.node r t2 k]) =
      (match Tables.kindOfRule r with
       | some v => .ok (kindOfNat v) | none => unexpected .rules_modifier_enum) := by
  cases r <;> rfl

theorem C05_event_arms (r : PRule) (t1 t2 : List Char) (k : List T) :
    buildEvent (.node .event t1 [.node r t2 k]) =
      (match Tables.eventOfRule r with
       | some v => .ok (eventOfNat v) | none => unexpected .event) := by
  cases r <;> rfl

theorem C05_wday_arms (r : PRule) (t1 t2 : List Char) (k : List T) :
    buildWday (.node .wday t1 [.node r t2 k]) =
      (match Tables.wdayOfRule r with
       | some v => .ok v | none => unexpected .wday) := by
  cases r <;> rfl

theorem C05_month_arms (r : PRule) (t1 t2 : List Char) (k : List T) :
    buildMonth (.node .month t1 [.node r t2 k]) =
      (match Tables.monthOfRule r with
       | some v => .ok v | none => unexpected .month) := by
  cases r <;> rfl

theorem C05_holiday_arms (r : PRule) (t1 t2 : List Char) (k : List T) :
    buildHoliday (.node .holiday t1 [.node r t2 k]) =
      (match Tables.holidayOfRule r with
       | some v => .ok (.holiday (holidayOfNat v) 0) | none => unexpected .holiday) := by
  cases r <;> rfl

theorem C05_sign_arms (r : PRule) (t1 t2 : List Char) (k : List T) :
    buildPlusOrMinus (.node .plus_or_minus t1 [.node r t2 k]) =
      (match Tables.signOfRule r with
       | some v => .ok (signOfNat v) | none => unexpected .plus_or_minus) := by
  cases r <;> rfl

end OH.Props.TablesC05
