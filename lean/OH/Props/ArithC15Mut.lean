/-
C15 on the code as it is NOW, continued: the WRITING functions.  `CompactMonth::insert(&mut self, day)`
and `CompactYear::insert(&mut self, month, day)` / `CompactYear::contains(&self, month, day)`
(compact-calendar/src/lib.rs) are translated from the Rust source on every run (`translators/rs2lean.py`):
a `&mut self` method becomes the state-passing function `self → args → R (result × self)` (the statement
`self.0 |= 1 << (day - 1);` rebinds `self`; the call `self.0[i].insert(day)` of a `&mut self` method on an
array element writes the element back), the array `[CompactMonth; 12]` is a `Vector CompactMonth 12`
whose indexing has the `index out of bounds` panic outcome, `(month - 1) as usize` is a checked `u32`
subtraction followed by a wrapping cast.

For EVERY `u32` mask / EVERY array of twelve `u32` masks and EVERY `u32` month and day this file proves
that the generated definition and the hand-written model (`OH.Model.CompactCalendar.Month.insert`,
`Year.insert`, `Year.contains`: `Nat` masks, `Vector Nat 12`) agree: the same flag AND the same new state,
the assertion panic exactly where the model has it, never an overflow outcome and never the
out-of-bounds outcome (`ArithC15.Agree`).
-/
import OH.Props.ArithC15
namespace OH.Props.ArithC15Mut
open OH.Model.RustInt
open OH.Generated.Arith
open OH.Model.CompactCalendar
open OH.Props.ArithC15 (Agree)

theorem bor_natCast (a b : Nat) : bor (a : Int) (b : Int) = ((a ||| b : Nat) : Int) := by
  unfold bor; simp

/-- result and new state of a generated `&mut self` method against the model's pair (new mask, flag) -/
def insRel (a : Bool × CompactMonth) (b : Nat × Bool) : Prop := a.1 = b.2 ∧ a.2 = ⟨(b.1 : Int)⟩

/-- `CompactMonth::insert(&mut self, day)`: flag and new mask as in the model; `day - 1` and `1 << ..`
never overflow -/
theorem insert_agree (m day : Nat) (hm : m < 4294967296) (hd : day < 4294967296) :
    Agree insRel (CompactMonth.insert ⟨m⟩ day) (Month.insert m day) := by
  simp only [CompactMonth.insert, Month.insert]
  by_cases c : 1 ≤ day ∧ day ≤ 31
  · have c' : (1 : Int) ≤ day ∧ (day : Int) ≤ 31 := by omega
    rw [if_pos c, if_pos c']
    obtain ⟨b, h1, h2⟩ := ArithC15.contains_total m day hm c
    rw [h1, h2, bnd_ok]
    cases b with
    | true => exact .value _ _ ⟨rfl, rfl⟩
    | false =>
      simp only [Bool.false_eq_true, if_false]
      rs_ok
      rw [shl_one_u32 _ _ (by omega) (by omega), bnd_ok, bor_natCast]
      have e : ((day : Int) - 1).toNat = day - 1 := by omega
      rw [e]
      exact .value _ _ ⟨rfl, rfl⟩
  · have c' : ¬ ((1 : Int) ≤ day ∧ (day : Int) ≤ 31) := by omega
    rw [if_neg c, if_neg c']
    exact .panic _ _

/-- the new mask is again a `u32` (so the hypothesis of the next call holds) -/
theorem insert_keeps_u32 (m day m' : Nat) (b : Bool) (hm : m < 4294967296)
    (h : Month.insert m day = .ok (m', b)) : m' < 4294967296 := by
  simp only [Month.insert] at h
  split at h
  · rename_i c
    simp only [Month.contains, if_pos c] at h
    split at h
    · cases h
    · cases h; exact hm
    · cases h
      have hk : day - 1 < 32 := by omega
      have : 1 <<< (day - 1) < 2 ^ 32 := by
        rw [Nat.one_shiftLeft]; exact Nat.pow_lt_pow_right (by omega) hk
      exact Nat.or_lt_two_pow (n := 32) hm this
  · cases h

/-! ### CompactYear -/

/-- the model's year (twelve `Nat` masks) as the generated structure -/
def toGen (y : Model.CompactCalendar.Year) : CompactYear := ⟨y.map (fun (m : Nat) => (⟨(m : Int)⟩ : CompactMonth))⟩

def yearRel (a : Bool × CompactYear) (b : Model.CompactCalendar.Year × Bool) : Prop := a.1 = b.2 ∧ a.2 = toGen b.1

/-- `CompactYear::contains(&self, month, day)`: never out of bounds, no overflow in `month - 1` -/
theorem year_contains_agree (y : Model.CompactCalendar.Year) (hy : ∀ (i : Nat) (h : i < 12), y[i] < 4294967296) (month day : Nat)
    (hd : day < 4294967296) :
    Agree (fun a b => a = b) (CompactYear.contains (toGen y) month day) (Model.CompactCalendar.Year.contains y month day) := by
  simp only [CompactYear.contains, Model.CompactCalendar.Year.contains]
  by_cases cm : 1 ≤ month ∧ month ≤ 12
  · have cm' : (1 : Int) ≤ month ∧ (month : Int) ≤ 12 := by omega
    rw [dif_pos cm, if_pos cm']
    by_cases c : 1 ≤ day ∧ day ≤ 31
    · have c' : (1 : Int) ≤ day ∧ (day : Int) ≤ 31 := by omega
      rw [if_pos c, if_pos c']
      rs_ok
      have hi : month - 1 < 12 := by omega
      have e : ((month : Int) - 1).toNat = month - 1 := by omega
      simp only [toGen, e, Vector.getElem?_eq_getElem hi, Vector.getElem_map]
      exact ArithC15.contains_agree _ _ (hy _ hi) hd
    · have c' : ¬ ((1 : Int) ≤ day ∧ (day : Int) ≤ 31) := by omega
      rw [if_neg c, if_neg c']
      exact .panic _ _
  · have cm' : ¬ ((1 : Int) ≤ month ∧ (month : Int) ≤ 12) := by omega
    rw [dif_neg cm, if_neg cm']
    exact .panic _ _

/-- `CompactYear::insert(&mut self, month, day)`: the flag of the month's `insert`, the month written
back at its index and the other eleven untouched -/
theorem year_insert_agree (y : Model.CompactCalendar.Year) (hy : ∀ (i : Nat) (h : i < 12), y[i] < 4294967296) (month day : Nat)
    (hd : day < 4294967296) :
    Agree yearRel (CompactYear.insert (toGen y) month day) (Model.CompactCalendar.Year.insert y month day) := by
  simp only [CompactYear.insert, Model.CompactCalendar.Year.insert]
  by_cases cm : 1 ≤ month ∧ month ≤ 12
  · have cm' : (1 : Int) ≤ month ∧ (month : Int) ≤ 12 := by omega
    rw [dif_pos cm, if_pos cm']
    by_cases c : 1 ≤ day ∧ day ≤ 31
    · have c' : (1 : Int) ≤ day ∧ (day : Int) ≤ 31 := by omega
      rw [if_pos c, if_pos c']
      rs_ok
      have hi : month - 1 < 12 := by omega
      have e : ((month : Int) - 1).toNat = month - 1 := by omega
      simp only [toGen, e, Vector.getElem?_eq_getElem hi, Vector.getElem_map]
      have h := insert_agree y[month - 1] day (hy _ hi) hd
      generalize CompactMonth.insert _ day = g at h ⊢
      generalize Month.insert y[month - 1] day = mo at h ⊢
      cases h with
      | panic msg site => rw [bnd_error]; exact .panic _ _
      | value a b hab =>
        rw [bnd_ok]
        obtain ⟨m', fl⟩ := b
        refine .value _ _ ⟨hab.1, ?_⟩
        simp only [toGen, hab.2]
        congr 1
        apply Vector.ext
        intro j hj
        simp only [Vector.getElem_setIfInBounds, Vector.getElem_map, Vector.getElem_set]
        split <;> rfl
    · have c' : ¬ ((1 : Int) ≤ day ∧ (day : Int) ≤ 31) := by omega
      rw [if_neg c, if_neg c']
      exact .panic _ _
  · have cm' : ¬ ((1 : Int) ≤ month ∧ (month : Int) ≤ 12) := by omega
    rw [dif_neg cm, if_neg cm']
    exact .panic _ _

/-- with a month and a day the API allows no `.error` outcome is reachable -/
theorem year_insert_total (y : Model.CompactCalendar.Year) (hy : ∀ (i : Nat) (h : i < 12), y[i] < 4294967296) (month day : Nat)
    (hm : 1 ≤ month ∧ month ≤ 12) (hd : 1 ≤ day ∧ day ≤ 31) :
    ∃ y' b, CompactYear.insert (toGen y) month day = .ok (b, toGen y') ∧ Model.CompactCalendar.Year.insert y month day = .ok (y', b) := by
  have h := year_insert_agree y hy month day (by omega)
  obtain ⟨r, hr⟩ : ∃ r, Model.CompactCalendar.Year.insert y month day = .ok r := by
    simp only [Model.CompactCalendar.Year.insert, Month.insert, Month.contains]
    rw [dif_pos hm, if_pos hd, if_pos hd, if_pos hd]
    cases (y[month - 1] &&& 1 <<< (day - 1) != 0) <;> exact ⟨_, rfl⟩
  rw [hr] at h
  generalize CompactYear.insert (toGen y) month day = g at h ⊢
  cases h with
  | value a b hab =>
    obtain ⟨a1, a2⟩ := a
    obtain ⟨h1, h2⟩ := hab
    simp only at h1 h2
    exact ⟨r.1, r.2, by rw [h1, h2], hr⟩

/-! non-vacuity: insert day 3 twice into the empty month; month 13 is refused by the assertion -/
example : CompactMonth.insert ⟨0⟩ 3 = .ok (true, ⟨4⟩) ∧ CompactMonth.insert ⟨4⟩ 3 = .ok (false, ⟨4⟩) ∧
    CompactMonth.insert ⟨4⟩ 1 = .ok (true, ⟨5⟩) := by
  have e (m day m' : Nat) (b : Bool) (hm : m < 4294967296) (hd : day < 4294967296)
      (hmod : Month.insert m day = .ok (m', b)) : CompactMonth.insert ⟨m⟩ day = .ok (b, ⟨m'⟩) := by
    have h := insert_agree m day hm hd
    rw [hmod] at h
    generalize CompactMonth.insert ⟨(m : Int)⟩ day = g at h ⊢
    cases h with
    | value a b' hab => obtain ⟨a1, a2⟩ := a; obtain ⟨h1, h2⟩ := hab; simp only at h1 h2; rw [h1, h2]
  exact ⟨e 0 3 4 true (by omega) (by omega) rfl, e 4 3 4 false (by omega) (by omega) rfl,
    e 4 1 5 true (by omega) (by omega) rfl⟩
example (y : CompactYear) : CompactYear.insert y 13 1 = .error (.panic "assertion failed: (1..=12).contains(&month)") := rfl
example (y : CompactYear) : CompactYear.insert y 0 1 = .error (.panic "assertion failed: (1..=12).contains(&month)") := rfl

end OH.Props.ArithC15Mut
