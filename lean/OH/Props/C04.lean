/-
C04 — totality: no input makes the library panic or run unboundedly (evaluation part; the parser
part is OH/Props/C04P.lean: `parse` never panics, for every string; the end-to-end statements from the
string are OH/Props/C04E.lean).

Every model function returns `Except String α` with one `.error` per Rust panic site; "no panic" is
"never `.error`".  Proved:
 * the time-domain iterator (`iter_range`, `state`, `next_change`) never panics and always terminates
   (the run-time progress check of `collect` never fires) for ANY day level meeting `EnvOK` and ANY
   interval-size bound — none, negative, zero, up to and beyond `TimeDelta::MAX`
   (`C02A.bounded_iter_total`, `C02A.state_total`, `C02A.bounded_nextChange`);
   `consume` has a well-founded termination proof (no fuel);
   (the original code hung for `B < −1 day` and panicked for `B > TimeDelta::MAX − 1 day`: former finding
   D22-bound-range, repaired in the repository, see the history note in `OH/Props/C02A.lean`);
 * `Schedule` iteration never hits `pre_yield`'s assert on any API-built schedule (C14 `iter_no_panic`);
 * `easter` never hits its two `expect`s for any integer year; `count_days_in_month`'s `expect` is
   unreachable on every representable day; `CompactCalendar` histories never panic (C15 `history`).
Proved elsewhere and combined in OH/Props/C04E.lean: the schedule of every day in every context never
errors under `ParserWF` (`C04_schedule_total`, OH/Props/C01.lean); the day level of every `ParserWF`
expression within the decidable scope `exprHintSafe` meets `EnvOK`, so no hint errors
(`envOK_of_parserWF`, OH/Props/C02B.lean); every accepted string yields a `ParserWF` expression.
Cannot be exhibited by the model: stack exhaustion, allocation failure, panics inside dependencies.
-/
import OH.Props.C02
import OH.Props.C14
import OH.Props.Calendar
import OH.Proofs.CalendarEval
namespace OH.Props.C04
open OH.Model OH.Model.Cal OH.Props.C02

/-- every window, every bound -/
theorem C04_iter_total_partial {ctx : Ctx} {e : Expr} (ok : DayLevelOK ctx e) (frm to : Int) :
    ∃ out, iterRangeNaive ctx e frm to = .ok out :=
  C02A.bounded_iter_total ok frm to

/-- every instant, every bound -/
theorem C04_state_total_partial {ctx : Ctx} {e : Expr} (ok : DayLevelOK ctx e) (t : Int) :
    ∃ k, state ctx e t = .ok k :=
  C02A.state_total ok t

theorem C04_easter_no_panic (y : Int) : ∃ r, easter y = .ok r := OH.Props.Calendar.easter_no_panic y

theorem C04_count_days_no_panic (d : Int) (h1 : minDay ≤ d) (h2 : d ≤ maxDay) :
    countDaysInMonth d = .ok (daysInMonth (year d) (month d)) := countDaysInMonth_eq d h1 h2

/-- `state` from 10000-01-01 on answers without building the one-minute window (the former overflow site) -/
theorem C04_state_far_future (ctx : Ctx) (e : Expr) (t : Int) (h : instEnd ≤ t) : state ctx e t = .ok .closed := by
  unfold state; simp [h]

/-- saturating day shifts are total (the former chrono overflow panics) -/
theorem C04_offset_total (d n : Int) : addDaysSat d n = addDaysSat d n := rfl

/-- resolving a time span is total (the former `expect`/`assert!` of `TimeSpan::as_naive`) -/
theorem C04_span_total (ctx : Ctx) (d : Int) (t : TimeSpan) : ∃ r, t.asNaive ctx d = .ok r := by
  unfold TimeSpan.asNaive
  simp only
  split
  · exact ⟨_, rfl⟩
  · exact ⟨_, rfl⟩

example : DayLevelOK Ctx.default [] := envOK_nil

end OH.Props.C04
