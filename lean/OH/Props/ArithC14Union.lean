/-
C14 / C01 on the code as it is NOW: `ranges_union` (opening-hours/src/utils/range.rs, generic over `T: Ord`) is
translated from the Rust source on every run (`translators/rs2lean.py` → `OH.Generated.Arith.RangeUtils.ranges_union`,
with `ranges_union.loop1` = the `while let Some(item) = ranges.next()` loop as a structural recursion over what is left
of the consumed vector iterator, and `ranges_union.next` = one call of the `move ||` closure passed to
`std::iter::from_fn`, the captured `ranges` / `current_opt` passed in and out explicitly; support library
`OH/Model/RustSeq.lean`).  The returned iterator is collected by `fromFn` with an explicit `fuel` (number of calls of
the closure); running out of fuel is an error outcome.

`ranges.sort_unstable_by(|r1, r2| r1.start.cmp(&r2.start))` is NOT translated: the library function is the parameter
`ext_sort_unstable_by_start` of the generated definition and its contract `SortedByStart` (a permutation of the input,
sorted by `start`) is an explicit, named HYPOTHESIS (`hsort`) of the theorems that need it; nothing is postulated.

* `rangesUnion_gen` (tie + termination): for EVERY input, EVERY function standing for the sort and every fuel above the
  length of the vector, the generated definition is a value (no `unwrap()` panics, the iterator ends within `len + 1`
  calls) and equals the model's merge loop `rangesUnionLoop` on the sorted vector.  A rewrite in which the captured
  state stops shrinking either leaves the subset or breaks `next_nil` / `collect_eq`.
* `rangesUnion_eq_model`: with the model's insertion sort standing for the library sort (`sortPairs_meets_contract`: it
  meets the contract) the generated definition IS the model `rangesUnion`.
* `gen_rangesUnion_covers`, `gen_rangesUnion_wf`: `Props/C14.rangesUnion_covers / _wf` hold of the generated code for
  EVERY result of the sort that meets the contract — they do not depend on how equal starts are ordered.
* The LIST returned does depend on that order when an inverted range (`end < start`) shares its start with another
  range (the two `example`s at the end): "the merge does not depend on the order of equal starts" is false without the
  hypothesis "no inverted range"; what the callers rely on (`covers`, `wf`) is order-independent.
-/
import OH.Generated.Arith
import OH.Props.ArithC14
import OH.Props.C14
namespace OH.Props.ArithC14Union
open OH.Model.RustInt
open OH.Generated.Arith
open OH.Model (rangesUnion rangesUnionLoop sortPairs sortPairInsert)
open OH.Props.ArithC14 (toRange)

def toPair (r : Range Nat) : Nat × Nat := (r.start, r.«end»)

theorem toRange_toPair (r : Range Nat) : toRange (toPair r) = r := rfl
theorem toPair_toRange (p : Nat × Nat) : toPair (toRange p) = p := rfl

abbrev St := List (Range Nat) × Option (Range Nat)

theorem next_none (l : List (Range Nat)) :
    RangeUtils.ranges_union.next l none = .ok (none, (l, none)) := by
  simp only [RangeUtils.ranges_union.next]

theorem next_nil (cur : Range Nat) :
    RangeUtils.ranges_union.next [] (some cur) = .ok (some cur, ([], none)) := by
  simp only [RangeUtils.ranges_union.next, RangeUtils.ranges_union.loop1, bnd]

theorem next_merge (cur item : Range Nat) (rest : List (Range Nat)) (h : item.start ≤ cur.«end») :
    RangeUtils.ranges_union.next (item :: rest) (some cur)
      = RangeUtils.ranges_union.next rest (some (if cur.«end» < item.«end» then ⟨cur.start, item.«end»⟩ else cur)) := by
  by_cases h2 : cur.«end» < item.«end» <;>
    simp [RangeUtils.ranges_union.next, RangeUtils.ranges_union.loop1, bnd, h, h2]

theorem next_gap (cur item : Range Nat) (rest : List (Range Nat)) (h : ¬ item.start ≤ cur.«end») :
    RangeUtils.ranges_union.next (item :: rest) (some cur) = .ok (some cur, (rest, some item)) := by
  simp [RangeUtils.ranges_union.next, RangeUtils.ranges_union.loop1, bnd, h]

/-- the items the closure yields from the state `(rest, some cur)`, collected: the model's loop -/
theorem collect_eq (cur : Nat × Nat) (rest : List (Nat × Nat)) :
    ∀ fuel, rest.length + 2 ≤ fuel →
      fromFn (fun s : St => RangeUtils.ranges_union.next s.1 s.2) fuel (rest.map toRange, some (toRange cur))
        = .ok ((rangesUnionLoop cur rest).map toRange) := by
  fun_induction rangesUnionLoop cur rest with
  | case1 cur =>
    intro fuel hf
    obtain ⟨n, rfl⟩ : ∃ n, fuel = n + 2 := ⟨fuel - 2, by omega⟩
    simp [fromFn, next_nil, next_none, bnd]
  | case2 cur item rest hm ih =>
    intro fuel hf
    obtain ⟨n, rfl⟩ : ∃ n, fuel = n + 1 := ⟨fuel - 1, by omega⟩
    have := ih (n + 1) (by simp only [List.length_cons] at hf; omega)
    simp only [fromFn, List.map_cons] at this ⊢
    rw [next_merge _ _ _ (by simpa [toRange] using hm)]
    rw [← this]
    by_cases h2 : cur.2 < item.2 <;> simp [toRange, h2]
  | case3 cur item rest hm ih =>
    intro fuel hf
    obtain ⟨n, rfl⟩ : ∃ n, fuel = n + 1 := ⟨fuel - 1, by omega⟩
    have := ih n (by simp only [List.length_cons] at hf; omega)
    simp only [fromFn, List.map_cons]
    rw [next_gap _ _ _ (by simpa [toRange] using hm)]
    simp only [bnd, this]

/-- **The contract of the EXTERN** `ranges.sort_unstable_by(|r1, r2| r1.start.cmp(&r2.start))` (the library code is
not translated; the library function is the parameter `ext_sort_unstable_by_start` of the generated definition): the result is a permutation of the
input, sorted by `start`.  A HYPOTHESIS (`hsort`) of the theorems below; nothing is postulated. -/
def SortedByStart (input sorted : List (Range Nat)) : Prop :=
  sorted.Perm input ∧ sorted.Pairwise (fun a b => a.start ≤ b.start)

/-- the model's merge loop on a vector that is already sorted -/
def mergeSorted : List (Nat × Nat) → List (Nat × Nat)
  | [] => []
  | cur :: rest => rangesUnionLoop cur rest

/-- **Tie, and termination.**  For EVERY input, EVERY vector standing for the result of the sort and every fuel
above its length, the generated `ranges_union` is a value — no `unwrap()` panics, the `from_fn` iterator ends within
`len + 1` calls of the closure — and the collected items are the model's merge loop on that vector. -/
theorem rangesUnion_gen (rs : List (Range Nat)) (sortf : List (Range Nat) → List (Range Nat)) (fuel : Nat)
    (hf : (sortf rs).length < fuel) :
    RangeUtils.ranges_union rs (ext_sort_unstable_by_start := sortf) fuel = .ok ((mergeSorted ((sortf rs).map toPair)).map toRange) := by
  simp only [RangeUtils.ranges_union]
  generalize sortf rs = sorted at hf ⊢
  cases sorted with
  | nil =>
    obtain ⟨n, rfl⟩ : ∃ n, fuel = n + 1 := ⟨fuel - 1, by simp only [List.length_nil] at hf; omega⟩
    simp [iterNext, fromFn, next_none, bnd, mergeSorted]
  | cons c rest =>
    have := collect_eq (toPair c) (rest.map toPair) fuel (by simp only [List.length_cons, List.length_map] at hf ⊢; omega)
    simp only [List.map_map, toRange_toPair] at this
    have e : (toRange ∘ toPair) = id := by funext r; rfl
    simp only [e, List.map_id] at this
    simp only [iterNext, List.map_cons, mergeSorted]
    exact this

/-- never a panic, never out of fuel: the iterator ends (for every input, sorted or not) -/
theorem rangesUnion_total (rs : List (Range Nat)) (sortf : List (Range Nat) → List (Range Nat)) (fuel : Nat)
    (hf : (sortf rs).length < fuel) :
    ∃ out, RangeUtils.ranges_union rs (ext_sort_unstable_by_start := sortf) fuel = .ok out := ⟨_, rangesUnion_gen rs sortf fuel hf⟩

/-- more fuel changes nothing -/
theorem rangesUnion_fuel (rs : List (Range Nat)) (sortf : List (Range Nat) → List (Range Nat)) (f1 f2 : Nat)
    (h1 : (sortf rs).length < f1) (h2 : (sortf rs).length < f2) :
    RangeUtils.ranges_union rs (ext_sort_unstable_by_start := sortf) f1 = RangeUtils.ranges_union rs (ext_sort_unstable_by_start := sortf) f2 := by
  rw [rangesUnion_gen rs sortf f1 h1, rangesUnion_gen rs sortf f2 h2]

/-! ### the model's own sort meets the contract, so the model is one instance -/

theorem sortPairInsert_perm (x : Nat × Nat) (l : List (Nat × Nat)) : (sortPairInsert x l).Perm (x :: l) := by
  induction l with
  | nil => exact List.Perm.refl _
  | cons y ys ih =>
    unfold sortPairInsert
    split
    · exact ((List.Perm.cons y ih).trans (List.Perm.swap x y ys))
    · exact List.Perm.refl _

theorem sortPairs_perm (l : List (Nat × Nat)) : (sortPairs l).Perm l := by
  induction l with
  | nil => exact List.Perm.refl _
  | cons x xs ih =>
    unfold sortPairs
    exact (sortPairInsert_perm x _).trans (List.Perm.cons x ih)

theorem sortedP_iff (l : List (Nat × Nat)) :
    OH.Proofs.Schedule.SortedP l ↔ l.Pairwise (fun a b => a.1 ≤ b.1) := by
  induction l with
  | nil => simp [OH.Proofs.Schedule.SortedP]
  | cons x xs ih => simp only [OH.Proofs.Schedule.SortedP, List.pairwise_cons, ih]

theorem sortPairs_meets_contract (rs : List (Nat × Nat)) :
    SortedByStart (rs.map toRange) ((sortPairs rs).map toRange) := by
  refine ⟨(sortPairs_perm rs).map _, ?_⟩
  rw [List.pairwise_map]
  exact (sortedP_iff _).mp (OH.Proofs.Schedule.sortedP_sortPairs rs)

/-- with the model's insertion sort standing for the library sort, the generated function is the model `rangesUnion` -/
theorem rangesUnion_eq_model (rs : List (Nat × Nat)) (fuel : Nat) (hf : rs.length < fuel) :
    RangeUtils.ranges_union (rs.map toRange) (ext_sort_unstable_by_start := fun l => (sortPairs (l.map toPair)).map toRange) fuel
      = .ok ((rangesUnion rs).map toRange) := by
  have e0 : (toPair ∘ toRange) = id := by funext r; rfl
  rw [rangesUnion_gen _ _ _ (by simp only [List.map_map, e0, List.map_id, List.length_map, (sortPairs_perm rs).length_eq]; exact hf)]
  simp only [List.map_map, e0, List.map_id]
  unfold rangesUnion mergeSorted
  cases sortPairs rs <;> rfl

/-! ### `Props/C14.rangesUnion_covers / _wf` on the generated code, for EVERY result of the sort that meets the contract -/

theorem sortedP_of_contract {rs sorted : List (Range Nat)} (hsort : SortedByStart rs sorted) :
    OH.Proofs.Schedule.SortedP (sorted.map toPair) := by
  rw [sortedP_iff, List.pairwise_map]
  exact hsort.2

/-- the result covers exactly the union of the input ranges -/
theorem gen_rangesUnion_covers (rs : List (Range Nat)) (sortf : List (Range Nat) → List (Range Nat))
    (hsort : SortedByStart rs (sortf rs)) (fuel : Nat) (hf : (sortf rs).length < fuel) :
    ∃ out, RangeUtils.ranges_union rs (ext_sort_unstable_by_start := sortf) fuel = .ok out ∧
      ∀ m, (∃ r ∈ out, r.start ≤ m ∧ m < r.«end») ↔ (∃ r ∈ rs, r.start ≤ m ∧ m < r.«end») := by
  refine ⟨_, rangesUnion_gen rs sortf fuel hf, fun m => ?_⟩
  generalize sortf rs = sorted at hsort hf ⊢
  have hs := sortedP_of_contract hsort
  have hm : ∀ r, r ∈ sorted ↔ r ∈ rs := fun r => hsort.1.mem_iff
  have key : OH.Proofs.Schedule.PCov (mergeSorted (sorted.map toPair)) m ↔ OH.Proofs.Schedule.PCov (sorted.map toPair) m := by
    cases h : sorted.map toPair with
    | nil => exact Iff.rfl
    | cons c rest => rw [h] at hs; exact OH.Proofs.Schedule.rangesUnionLoop_covers c rest hs m
  simp only [OH.Proofs.Schedule.PCov, List.mem_map] at key
  constructor
  · rintro ⟨r, hr, h1, h2⟩
    obtain ⟨p, hp, rfl⟩ := List.mem_map.mp hr
    obtain ⟨q, ⟨r', hr', rfl⟩, hq⟩ := key.mp ⟨p, hp, h1, h2⟩
    exact ⟨r', (hm r').mp hr', hq⟩
  · rintro ⟨r, hr, h1, h2⟩
    obtain ⟨p, hp, hq⟩ := key.mpr ⟨toPair r, ⟨r, (hm r).mpr hr, rfl⟩, h1, h2⟩
    exact ⟨toRange p, List.mem_map.mpr ⟨p, hp, rfl⟩, hq⟩

/-- for non-empty input ranges the result is non-empty, increasing and strictly separated -/
theorem gen_rangesUnion_wf (rs : List (Range Nat)) (sortf : List (Range Nat) → List (Range Nat))
    (hsort : SortedByStart rs (sortf rs))
    (hne : ∀ r ∈ rs, r.start < r.«end») (fuel : Nat) (hf : (sortf rs).length < fuel) :
    ∃ out, RangeUtils.ranges_union rs (ext_sort_unstable_by_start := sortf) fuel = .ok out ∧ OH.Proofs.Schedule.PWF (out.map toPair) := by
  refine ⟨_, rangesUnion_gen rs sortf fuel hf, ?_⟩
  generalize sortf rs = sorted at hsort hf ⊢
  have hs := sortedP_of_contract hsort
  have e : (toPair ∘ toRange) = id := by funext r; rfl
  simp only [List.map_map, e, List.map_id]
  have hne' : ∀ p ∈ sorted.map toPair, p.1 < p.2 := by
    intro p hp
    obtain ⟨r, hr, rfl⟩ := List.mem_map.mp hp
    exact hne r (hsort.1.mem_iff.mp hr)
  cases h : sorted.map toPair with
  | nil => trivial
  | cons c rest => rw [h] at hs hne'; exact OH.Proofs.Schedule.rangesUnionLoop_pwf c rest hs hne'

/-! non-vacuity: the crate's unit test (`ranges_union([1..5, 0..1, 3..7, 8..9]) == [0..7, 8..9]`), and a vector whose
merge needs every call -/
example : RangeUtils.ranges_union ([⟨1, 5⟩, ⟨0, 1⟩, ⟨3, 7⟩, ⟨8, 9⟩] : List (Range Nat)) (fun _ => [⟨0, 1⟩, ⟨1, 5⟩, ⟨3, 7⟩, ⟨8, 9⟩]) 5
    = .ok [⟨0, 7⟩, ⟨8, 9⟩] := rfl
example : RangeUtils.ranges_union ([] : List (Range Nat)) id 1 = .ok [] := rfl
example : RangeUtils.ranges_union ([⟨0, 1⟩, ⟨2, 3⟩] : List (Range Nat)) id 3 = .ok [⟨0, 1⟩, ⟨2, 3⟩] := rfl
/-- the bound on the fuel is sharp: with `len` calls the last `None` is not reached -/
example : RangeUtils.ranges_union ([⟨0, 1⟩, ⟨2, 3⟩] : List (Range Nat)) id 2 = .error (.panic fuelExhausted) := rfl

/-! a finding: both vectors below meet the contract for the input `[5..3, 5..9]` (equal starts, one range inverted), and
the results differ — `sort_unstable_by` is free to return either -/
example : SortedByStart [⟨5, 3⟩, ⟨5, 9⟩] [⟨5, 3⟩, ⟨5, 9⟩] ∧ SortedByStart [⟨5, 3⟩, ⟨5, 9⟩] [⟨5, 9⟩, ⟨5, 3⟩] :=
  ⟨⟨by decide, by decide⟩, ⟨by decide, by decide⟩⟩
example : RangeUtils.ranges_union ([⟨5, 3⟩, ⟨5, 9⟩] : List (Range Nat)) (fun _ => [⟨5, 3⟩, ⟨5, 9⟩]) 3 = .ok [⟨5, 3⟩, ⟨5, 9⟩] := rfl
example : RangeUtils.ranges_union ([⟨5, 3⟩, ⟨5, 9⟩] : List (Range Nat)) (fun _ => [⟨5, 9⟩, ⟨5, 3⟩]) 3 = .ok [⟨5, 9⟩] := rfl

end OH.Props.ArithC14Union
