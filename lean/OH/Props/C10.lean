/-
C10 — Embedded holiday calendars equal the source data, per country.

  "For each supported country and every date, the embedded public (resp. school) holiday calendar
   contains the date iff the source data file lists it for that country. The set of countries, their
   ISO codes and the code parser are mutually consistent (parsing a country's code gives that
   country, anything else is rejected), and PH/SH selectors see exactly these dates when a
   country's calendar is attached."

Vocabulary (definitions in `OH.Model.HolidayDb`, `OH.Model.Country`, `OH.Generated.Countries`):
* `parseLines (bufLines text)`  the `(region, date)` pairs `build.rs` reads from a data file;
* `group lines`       the `BTreeMap<String, Vec<NaiveDate>>` of `build.rs` (sorted association list);
* `encodeDb db`       the bytes `build.rs` writes (one `CompactCalendar` per region, built by `insert`,
                      `serialize`d in region order); `regionNames db` the exported `,`-joined region list;
* `decodeDb names bytes`  `decode_holidays_db`: the `HashMap<Country, Arc<CompactCalendar>>` as the list
                      of inserted pairs, read by `mapGet` (= `HashMap::get`); `lookup` adds `unwrap_or_default`;
* `embedded text`     the whole pipeline for one data file; `holidays` = `Country::holidays`;
* `Country.fromStr / isoCode / name / display / all / isVariant`  the tables of `enum Country`,
                      regenerated from `generated.rs` by `translators/countries2lean.py` on every run;
* `abs c`, `Inv c`    the set represented by a calendar value and the reachable-value invariant (C15).

The deflate layer: in THIS file `decodeDb` is applied to the very bytes `encodeDb` produced.
`OH/Props/C10I.lean` puts the model of the decoder (`OH.Model.Inflate`, RFC 1951) in between and
restates the theorems for the embedded pair, under the fact the driver checks on the bytes really
embedded in the binary (`inflateNat z = encodeDb db`, op `hol.raw`); the encoder is not modelled and
`inflate ∘ deflate = id` is no longer assumed.  Date strings are modelled on the shape
`DDDD-DD-DD` only (every line of the two files has it: checked by the driver at run time, op `hol.load`).

The statements about the tables are decided by the kernel on the tables of the CURRENT Rust file; the
statements about the data base hold for EVERY data base / every list of lines meeting the stated
(decidable) hypotheses, which the driver evaluates on the actual files (`hol.load`).
-/
import OH.Proofs.HolidayDb
import OH.Proofs.HolidaySelectors
import OH.Props.C15
namespace OH.Props.C10
open OH.Generated OH.Model OH.Model.Country OH.Model.HolidayDb OH.Model.CompactCalendar
open OH.Model.CompactCalendar.CompactCalendar OH.Proofs.CompactCalendar OH.Proofs.HolidayDb
open OH.Proofs.Countries OH.Proofs.HolidaySelectors

/-! ## 1. the country tables are mutually consistent -/

/-- parsing a country's code gives that country (and every country has a code) -/
theorem fromStr_isoCode (c : String) (hc : isVariant c = true) :
    ∃ code, isoCode c = some code ∧ fromStr code = some c :=
  variants_roundtrip c ((isVariant_iff c).mp hc)

/-- anything else is rejected: `from_str` succeeds ONLY on a string that is the `iso_code` of the
country it returns (for ALL strings `s`: other case, other length, blanks, … give `Err`) -/
theorem fromStr_only_isoCodes (s c : String) (h : fromStr s = some c) :
    isVariant c = true ∧ isoCode c = some s :=
  ⟨(fromStr_sound h).2, (fromStr_sound h).1⟩

/-- the two together: the parser is exactly the inverse of `iso_code` -/
theorem fromStr_iff (s c : String) : fromStr s = some c ↔ (isVariant c = true ∧ isoCode c = some s) := by
  constructor
  · exact fromStr_only_isoCodes s c
  · rintro ⟨hv, hc⟩
    obtain ⟨code, h1, h2⟩ := fromStr_isoCode c hv
    rw [hc] at h1
    rw [Option.some.inj h1]; exact h2

/-- the parser is injective: two strings giving the same country are equal -/
theorem fromStr_injective (s₁ s₂ c : String) (h1 : fromStr s₁ = some c) (h2 : fromStr s₂ = some c) :
    s₁ = s₂ := OH.Proofs.Countries.fromStr_injective h1 h2

/-- `ALL` lists every variant exactly once (in declaration order), and there are 115 of them -/
theorem all_complete_nodup :
    (∀ c, isVariant c = true ↔ c ∈ Country.all) ∧ Country.all.Nodup ∧
    Country.all.length = 115 ∧ Countries.allLen = 115 := by
  refine ⟨?_, ?_, ?_, allLen_eq⟩
  · intro c; rw [isVariant_iff, Country.all, all_eq_variants]
  · rw [Country.all, all_eq_variants]; exact variants_nodup
  · rw [Country.all, all_length, allLen_eq]

/-- no two countries share an ISO code; each variant has exactly one `iso_code` arm -/
theorem isoCodes_nodup :
    (Countries.isoCodeArms.map (·.2)).Nodup ∧ Countries.isoCodeArms.map (·.1) = Countries.variants :=
  ⟨OH.Proofs.Countries.isoCodes_nodup, isoCodeArms_keys⟩

/-- two countries with the same code are the same country -/
theorem isoCode_injective (c₁ c₂ code : String) (h1 : isVariant c₁ = true) (h2 : isVariant c₂ = true)
    (e1 : isoCode c₁ = some code) (e2 : isoCode c₂ = some code) : c₁ = c₂ := by
  have a := (fromStr_iff code c₁).mpr ⟨h1, e1⟩
  have b := (fromStr_iff code c₂).mpr ⟨h2, e2⟩
  rw [a] at b; exact Option.some.inj b

/-- `iso_code` and `name` are total on the variants (the Rust `match`es are exhaustive) -/
theorem isoCode_total (c : String) (hc : isVariant c = true) :
    (isoCode c).isSome = true ∧ (name c).isSome = true := by
  obtain ⟨code, h, _⟩ := fromStr_isoCode c hc
  exact ⟨by rw [h]; rfl, variants_named c ((isVariant_iff c).mp hc)⟩

/-- names are unique, each variant has exactly one `name` arm, `Display` prints the name, and the
doc comment of each variant is its name -/
theorem names_nodup :
    (Countries.nameArms.map (·.2)).Nodup ∧ Countries.nameArms.map (·.1) = Countries.variants ∧
    (∀ c, display c = name c) ∧ Countries.variantDocs = Countries.nameArms := by
  refine ⟨OH.Proofs.Countries.names_nodup, nameArms_keys, ?_, docs_are_names⟩
  intro c; simp [display, display_is_name]

/-- there is no dead or duplicated `FromStr` arm: one arm per variant, in declaration order,
distinct patterns; a code is the variant's identifier, two upper-case ASCII letters -/
theorem fromStr_arms :
    (Countries.fromStrArms.map (·.1)).Nodup ∧ Countries.fromStrArms.map (·.2) = Countries.variants ∧
    (∀ a ∈ Countries.isoCodeArms, a.1 = a.2 ∧ twoUpper a.2 = true) :=
  ⟨fromStr_patterns_nodup, fromStrArms_values, fun a ha => ⟨isoCode_is_ident a ha, isoCode_shape a ha⟩⟩

/-! ## 2. decode ∘ encode, for any data base -/

/-- the hypothesis on a data base (`BTreeMap` contents): at least one region, distinct region names
(a map has them by construction: `group_ok`), no `,` in a region name, valid dates -/
def DbOK (db : Db) : Prop :=
  db ≠ [] ∧ (db.map (·.1)).Nodup ∧ (∀ p ∈ db, ',' ∉ p.1.toList) ∧ (∀ p ∈ db, ∀ d ∈ p.2, d.valid = true)

instance (db : Db) : Decidable (DbOK db) := by unfold DbOK; exact inferInstance

/-- `decode (encode db)`: no panic on either side; the decoded map binds a country `c` iff the code
of `c` is a region of `db`, and then to the calendar built from that region's dates — nothing else
is in the map (regions that are not country codes are skipped without disturbing the others) -/
theorem decode_encode (db : Db) (h : DbOK db) :
    ∃ bytes m, encodeDb db = .ok bytes ∧ decodeDb (regionNames db) bytes = .ok m ∧
      ∀ c cal, mapGet m c = some cal ↔
        ∃ code ds, isVariant c = true ∧ isoCode c = some code ∧ (code, ds) ∈ db ∧ fromList ds = .ok cal := by
  obtain ⟨hne, hnd, hcomma, hv⟩ := h
  obtain ⟨bs, hb, hd⟩ := decodeRegions_encode db [] hv
  refine ⟨bs, db.filterMap entry, hb, ?_, ?_⟩
  · unfold decodeDb
    rw [regions_roundtrip db hne hcomma]
    simpa using hd
  · intro c cal
    rw [mapGet_entries db hnd]
    constructor
    · rintro ⟨r, ds, hm, h1, h2⟩
      obtain ⟨a, b⟩ := fromStr_only_isoCodes r c h1
      exact ⟨r, ds, a, b, hm, h2⟩
    · rintro ⟨code, ds, a, b, hm, h2⟩
      exact ⟨code, ds, hm, (fromStr_iff code c).mpr ⟨a, b⟩, h2⟩

/-- … read through `unwrap_or_default`: for EVERY country, the looked-up calendar is a reachable
calendar value whose members are exactly the dates recorded for the country's code (none when the
code is not a region of the data base) -/
theorem decode_encode_lookup (db : Db) (h : DbOK db) :
    ∃ bytes m, encodeDb db = .ok bytes ∧ decodeDb (regionNames db) bytes = .ok m ∧
      ∀ c code, isVariant c = true → isoCode c = some code →
        Inv (lookup m c) ∧ ∀ q, abs (lookup m c) q = true ↔ ∃ ds, (code, ds) ∈ db ∧ q ∈ ds := by
  obtain ⟨bytes, m, h1, h2, h3⟩ := decode_encode db h
  obtain ⟨_, hnd, _, hv⟩ := h
  refine ⟨bytes, m, h1, h2, ?_⟩
  intro c code hvar hcode
  unfold lookup
  cases hg : mapGet m c with
  | some cal =>
    obtain ⟨code', ds, _, hc', hm, hf⟩ := (h3 c cal).mp hg
    rw [hcode] at hc'
    have e := Option.some.inj hc'
    subst e
    obtain ⟨cal', hf', hinv, ha⟩ := fromList_ok ds (hv _ hm)
    rw [hf] at hf'
    have e := Except.ok.inj hf'
    subst e
    refine ⟨hinv, ?_⟩
    intro q
    simp only [Option.getD_some, ha, decide_eq_true_eq]
    constructor
    · intro hq; exact ⟨ds, hm, hq⟩
    · rintro ⟨ds', hm', hq⟩
      rw [nodup_unique db hnd code ds ds' hm hm']; exact hq
  | none =>
    refine ⟨inv_default, ?_⟩
    intro q
    simp only [Option.getD_none, abs_default]
    constructor
    · intro hq; cases hq
    · rintro ⟨ds, hm, _⟩
      exfalso
      obtain ⟨cal, hf, _, _⟩ := fromList_ok ds (hv _ hm)
      have := (h3 c cal).mpr ⟨code, ds, hvar, hcode, hm, hf⟩
      rw [hg] at this; cases this

/-! ## 3. from the lines of a data file to `contains` -/

/-- the hypothesis on the parsed lines of a data file: at least one line, no `,` in a region name,
valid dates (`parseLines_valid`: automatic for lines read by the model's parser) -/
def LinesOK (lines : List Line) : Prop :=
  lines ≠ [] ∧ (∀ l ∈ lines, ',' ∉ l.1.toList) ∧ (∀ l ∈ lines, l.2.valid = true)

instance (lines : List Line) : Decidable (LinesOK lines) := by unfold LinesOK; exact inferInstance

/-- the `BTreeMap` built by `build.rs` meets `DbOK`; its keys are strictly increasing and are the
regions of the lines; `(region, date)` is recorded iff it is a line -/
theorem group_ok (lines : List Line) (h : LinesOK lines) :
    DbOK (group lines) ∧ ((group lines).map (·.1)).Pairwise (· < ·) ∧
    (∀ k, k ∈ (group lines).map (·.1) ↔ k ∈ lines.map (·.1)) ∧
    (∀ k x, (∃ ds, (k, ds) ∈ group lines ∧ x ∈ ds) ↔ (k, x) ∈ lines) := by
  obtain ⟨hne, hcomma, hv⟩ := h
  obtain ⟨g1, g2, g3, g4⟩ := group_spec lines
  refine ⟨⟨g4 hne, sorted_nodup _ g1, ?_, ?_⟩, g1, g2, g3⟩
  · intro p hp
    have : p.1 ∈ lines.map (·.1) := (g2 p.1).mp (List.mem_map_of_mem (f := (·.1)) hp)
    obtain ⟨l, hl, e⟩ := List.mem_map.mp this
    rw [← e]; exact hcomma l hl
  · intro p hp d hd
    have : (p.1, d) ∈ lines := (g3 p.1 d).mp ⟨p.2, hp, hd⟩
    exact hv _ this

/-- THE property, first clause: for every country and every (valid) date, the embedded calendar
contains the date iff the data file lists it for the country's code; no panic anywhere
(build script, decoding, `contains`) -/
theorem embedded_contains (lines : List Line) (h : LinesOK lines) :
    ∃ bytes m, encodeDb (group lines) = .ok bytes ∧
      decodeDb (regionNames (group lines)) bytes = .ok m ∧
      ∀ c code, isVariant c = true → isoCode c = some code → ∀ q, q.valid = true →
        contains (lookup m c) q = .ok (decide ((code, q) ∈ lines)) := by
  obtain ⟨hdb, _, _, g3⟩ := group_ok lines h
  obtain ⟨bytes, m, h1, h2, h3⟩ := decode_encode_lookup (group lines) hdb
  refine ⟨bytes, m, h1, h2, ?_⟩
  intro c code hvar hcode q hq
  obtain ⟨hinv, ha⟩ := h3 c code hvar hcode
  rw [contains_ok _ q hinv hq]
  congr 1
  rw [Bool.eq_iff_iff, ha q, g3 code q]
  simp

/-- the same from the file's text, through the model's reader: if the text parses (every line is
`REGION DDDD-DD-DD` with a valid date), has at least one line and no `,` in a region, then the
embedded map exists and `contains` is membership among the lines -/
theorem embedded_file (text : String) (lines : List Line) (hp : parseLines (bufLines text) = .ok lines)
    (hne : lines ≠ []) (hcomma : ∀ l ∈ lines, ',' ∉ l.1.toList) :
    ∃ m, embedded text = .ok m ∧
      ∀ c code, isVariant c = true → isoCode c = some code → ∀ q, q.valid = true →
        contains (lookup m c) q = .ok (decide ((code, q) ∈ lines)) := by
  obtain ⟨bytes, m, h1, h2, h3⟩ :=
    embedded_contains lines ⟨hne, hcomma, parseLines_valid _ _ hp⟩
  refine ⟨m, ?_, h3⟩
  simp only [embedded, embeddedOfLines, hp, h1, h2]

/-- ordered iteration of the embedded calendar = the sorted duplicate-free list of the file's dates
for the country's code (what the driver compares with the dump of `iter()`) -/
theorem embedded_iter (lines : List Line) (h : LinesOK lines) :
    ∃ bytes m, encodeDb (group lines) = .ok bytes ∧
      decodeDb (regionNames (group lines)) bytes = .ok m ∧
      ∀ c code, isVariant c = true → isoCode c = some code →
        collect (iter (lookup m c)) =
          .ok (OH.Spec.DateSet.ofList ((lines.filter (fun l => l.1 == code)).map (·.2))) := by
  obtain ⟨hdb, _, _, g3⟩ := group_ok lines h
  obtain ⟨bytes, m, h1, h2, h3⟩ := decode_encode_lookup (group lines) hdb
  refine ⟨bytes, m, h1, h2, ?_⟩
  intro c code hvar hcode
  obtain ⟨hinv, ha⟩ := h3 c code hvar hcode
  obtain ⟨l, e, s, hm⟩ := OH.Props.C15.iter_sorted_exact_abs _ hinv
  rw [e]
  congr 1
  apply sorted_ext (fun a b => OH.Spec.DateSet.lt a b = true) lt_irrefl lt_asymm _ _ s
    (spec_sorted_ofList _)
  intro x
  rw [hm, ha, g3, spec_mem_ofList]
  simp only [List.mem_map, List.mem_filter, beq_iff_eq]
  constructor
  · intro hx; exact ⟨(code, x), ⟨hx, rfl⟩, rfl⟩
  · rintro ⟨⟨a, b⟩, ⟨hx, e1⟩, e2⟩
    simp only at e1 e2
    rw [← e1, ← e2]; exact hx

/-! ## 4. what the `PH` / `SH` selectors see -/

/-- with `Context::default().with_holidays(country.holidays())`, the selector `PH` (resp. `SH`)
matches day `d` (any day chrono can represent) iff the public (resp. school) data file lists the
civil date of `d` for the country's code -/
theorem selectors_see (linesPub linesSchool : List Line) (hp : LinesOK linesPub) (hs : LinesOK linesSchool) :
    ∃ bp mp bs ms,
      encodeDb (group linesPub) = .ok bp ∧ decodeDb (regionNames (group linesPub)) bp = .ok mp ∧
      encodeDb (group linesSchool) = .ok bs ∧ decodeDb (regionNames (group linesSchool)) bs = .ok ms ∧
      ∀ c code, isVariant c = true → isoCode c = some code → ∀ d, OH.Model.Cal.inRange d = true →
        WeekDayRange.filter (ctxOfHolidays (holidays mp ms c)) (.holiday .pub 0) d =
          .ok (decide ((code, dateOfDay d) ∈ linesPub)) ∧
        WeekDayRange.filter (ctxOfHolidays (holidays mp ms c)) (.holiday .school 0) d =
          .ok (decide ((code, dateOfDay d) ∈ linesSchool)) := by
  obtain ⟨hdbp, _, _, gp⟩ := group_ok linesPub hp
  obtain ⟨hdbs, _, _, gs⟩ := group_ok linesSchool hs
  obtain ⟨bp, mp, p1, p2, p3⟩ := decode_encode_lookup (group linesPub) hdbp
  obtain ⟨bs, ms, s1, s2, s3⟩ := decode_encode_lookup (group linesSchool) hdbs
  refine ⟨bp, mp, bs, ms, p1, p2, s1, s2, ?_⟩
  intro c code hvar hcode d hd
  obtain ⟨ip, ap⟩ := p3 c code hvar hcode
  obtain ⟨is, as⟩ := s3 c code hvar hcode
  constructor
  · rw [holiday_filter (holidays mp ms c) ip is .pub d hd]
    congr 1
    rw [Bool.eq_iff_iff]
    simp only [holidays, ap, gp, decide_eq_true_eq]
  · rw [holiday_filter (holidays mp ms c) ip is .school d hd]
    congr 1
    rw [Bool.eq_iff_iff]
    simp only [holidays, as, gs, decide_eq_true_eq]

/-! ## non-vacuity and sharpness -/

deriving instance DecidableEq for Except

/-- a small file: regions out of order and interleaved, a duplicate line, a region that is not a
country (`XK`), a country without lines (every other one), a leap day -/
def sampleFile : List String :=
  ["FR 2024-07-14", "XK 2024-02-17", "DE 2024-10-03", "FR 2024-01-01", "FR 2024-07-14", "AD 2024-02-29"]

def sampleLines : List Line :=
  [("FR", ⟨2024, 7, 14⟩), ("XK", ⟨2024, 2, 17⟩), ("DE", ⟨2024, 10, 3⟩), ("FR", ⟨2024, 1, 1⟩),
   ("FR", ⟨2024, 7, 14⟩), ("AD", ⟨2024, 2, 29⟩)]

example : parseLines sampleFile = .ok sampleLines := by decide +kernel
example : LinesOK sampleLines := by decide
example : group sampleLines =
    [("AD", [⟨2024, 2, 29⟩]), ("DE", [⟨2024, 10, 3⟩]), ("FR", [⟨2024, 7, 14⟩, ⟨2024, 1, 1⟩, ⟨2024, 7, 14⟩]),
     ("XK", [⟨2024, 2, 17⟩])] := by decide +kernel
example : DbOK (group sampleLines) := by decide +kernel
example : regionNames (group sampleLines) = "AD,DE,FR,XK" := by decide +kernel
example : (embeddedOfLines sampleFile).toOption.map (fun m => (m.map (·.1), contains (lookup m "FR") ⟨2024, 7, 14⟩,
      contains (lookup m "FR") ⟨2024, 7, 15⟩, contains (lookup m "IT") ⟨2024, 7, 14⟩)) =
    some (["AD", "DE", "FR"], .ok true, .ok false, .ok false) := by decide +kernel
example : isVariant "FR" = true ∧ isoCode "FR" = some "FR" ∧ fromStr "FR" = some "FR" ∧
    fromStr "fr" = none ∧ fromStr "XK" = none ∧ fromStr "" = none ∧ fromStr "FRA" = none ∧
    fromStr " FR" = none ∧ name "FR" = some "France" := by decide +kernel

/-- sharpness of `db ≠ []`: an EMPTY data file makes `Country::holidays()` panic —
`"".split(',')` yields one (empty) region name, for which a calendar is read from the empty stream -/
example : encodeDb [] = .ok [] ∧ regionNames [] = "" ∧
    decodeDb (regionNames []) [] = .error "opening-hours/src/localization/country/mod.rs:91" := by
  decide +kernel

/-- sharpness of the `,` hypothesis: a region name containing `,` shifts the following regions -/
example : ¬ DbOK [("A,D", [⟨2024, 1, 1⟩])] ∧
    (splitComma (regionNames [("A,D", [⟨2024, 1, 1⟩])]).toList).map String.ofList = ["A", "D"] := by
  decide +kernel

/-- invalid dates and other shapes are not read -/
example : parseDate "2023-02-29".toList = .error "build.rs:48 ParseError" ∧
    parseDate "2023-2-28".toList = .error shapeNotModelled ∧
    parseLine "FR" = .error "build.rs:48 missing date" := by decide +kernel

end OH.Props.C10
