/-
C20 on the code as it is NOW: `UniqueSortedVec::contains`, `find_first_following` and `From<Vec<T>>::from`
(opening-hours-syntax/src/sorted_vec.rs) are translated from the Rust source on every run
(`translators/rs2lean.py` → `OH.Generated.Arith.UniqueSortedVec.contains / find_first_following / from_vec`,
support library `OH/Model/RustSeq.lean`).  The standard-library calls they consist of are NOT translated:
the library FUNCTIONS `binary_search`, `sort_unstable`, `dedup` are parameters `ext_<name>` of
the generated definition (applied where the code calls them), and the documented contract of the call is an explicit, named HYPOTHESIS of each theorem
(`BinarySearchContract`, `SortContract`, `DedupContract` below); nothing is postulated.  Under these hypotheses the generated
definitions are values (no panic outcome) and equal the hand-written model `OH.Model.SortedVec`, for every element
type with a lawful total order (as in `Props/C20.lean`), so `Props/C20`'s theorems hold of what the code says now.
-/
import OH.Generated.Arith
import OH.Props.C20
namespace OH.Props.ArithC20
open OH.Model.RustInt
open OH.Generated.Arith
open OH.Model.SortedVec OH.Proofs.SortedVec Std

set_option linter.unusedSectionVars false

variable {α : Type} [Ord α] [TransOrd α] [LawfulEqOrd α]

/-- **Contract of the EXTERN `slice::binary_search`** (`Result<usize, usize>` as `Except Int Int`: `Ok(i)` ↦ `.ok i`,
`Err(i)` ↦ `.error i`), as documented: `Ok(i)`: `i` is the index of an element equal to `x`; `Err(i)`: `i ≤ len` is the
index where `x` could be inserted keeping the order (everything before is smaller, everything from `i` on greater). -/
def BinarySearchContract (v : List α) (x : α) (r : Except Int Int) : Prop :=
  match r with
  | .ok i => 0 ≤ i ∧ v[i.toNat]? = some x
  | .error i => 0 ≤ i ∧ i.toNat ≤ v.length ∧
      (∀ j (hj : j < v.length), j < i.toNat → compare v[j] x = .lt) ∧
      (∀ j (hj : j < v.length), i.toNat ≤ j → compare v[j] x = .gt)

/-- **Contract of the EXTERN `vec.sort_unstable()`**: a permutation of the input in non-decreasing order. -/
def SortContract (input sorted : List α) : Prop :=
  sorted.Perm input ∧ sorted.Pairwise (fun a b => compare a b ≠ .gt)

/-- **Contract of the EXTERN `vec.dedup()`**: a subsequence of the input with the same members in which no two
neighbours are equal. -/
def DedupContract (input out : List α) : Prop :=
  out.Sublist input ∧ (∀ x ∈ input, x ∈ out) ∧ ∀ i (h : i + 1 < out.length), out[i] ≠ out[i + 1]

/-- the translator's reading of the result, in the vocabulary of `Props/C20.binarySearch_is_the_contract` -/
theorem searchContract_of {v : List α} {x : α} {r : Except Int Int} (h : BinarySearchContract v x r) :
    SearchContract v x (resIsOk r, (resEither r).toNat) := by
  cases r with
  | ok i =>
    obtain ⟨_, h2⟩ := h
    obtain ⟨hl, _⟩ := List.getElem?_eq_some_iff.mp h2
    exact ⟨Nat.le_of_lt hl, fun _ => h2, fun h' => by simp [resIsOk] at h'⟩
  | error i =>
    obtain ⟨_, h2, h3, h4⟩ := h
    exact ⟨h2, fun h' => by simp [resIsOk] at h', fun _ => ⟨h3, h4⟩⟩

theorem resEither_nonneg {v : List α} {x : α} {r : Except Int Int} (h : BinarySearchContract v x r) : 0 ≤ resEither r := by
  cases r with
  | ok i => exact h.1
  | error i => exact h.1

/-- `contains`: for every sorted-unique vector and EVERY result of `binary_search` meeting its contract, the generated
definition is a value and equals the model -/
theorem contains_eq_model {v : List α} (hv : Sorted v) (x : α) (bs : List α → α → Except Int Int)
    (hbinsearch : BinarySearchContract v x (bs v x)) :
    UniqueSortedVec.contains ⟨v⟩ x (ext_binary_search := bs) = .ok (contains v x) := by
  have := (OH.Props.C20.binarySearch_is_the_contract hv x _).mp (searchContract_of hbinsearch)
  simp only [UniqueSortedVec.contains, contains, ← this]

/-- `find_first_following`, likewise -/
theorem findFirstFollowing_eq_model {v : List α} (hv : Sorted v) (x : α) (bs : List α → α → Except Int Int)
    (hbinsearch : BinarySearchContract v x (bs v x)) :
    UniqueSortedVec.find_first_following ⟨v⟩ x (ext_binary_search := bs) = .ok (findFirstFollowing v x) := by
  have := (OH.Props.C20.binarySearch_is_the_contract hv x _).mp (searchContract_of hbinsearch)
  have h0 := resEither_nonneg hbinsearch
  simp only [UniqueSortedVec.find_first_following, findFirstFollowing, ← this, seqGet, Int.not_lt.mpr h0, if_false]

/-- `Props/C20.contains_iff` on the generated definition -/
theorem gen_contains_iff {v : List α} (hv : Sorted v) (x : α) (bs : List α → α → Except Int Int)
    (hbinsearch : BinarySearchContract v x (bs v x)) :
    ∃ b, UniqueSortedVec.contains ⟨v⟩ x (ext_binary_search := bs) = .ok b ∧ (b = true ↔ x ∈ v) :=
  ⟨_, contains_eq_model hv x bs hbinsearch, OH.Props.C20.contains_iff hv x⟩

/-- `Props/C20.findFirstFollowing_some / _none` on the generated definition -/
theorem gen_findFirstFollowing_spec {v : List α} (hv : Sorted v) (x : α) (bs : List α → α → Except Int Int)
    (hbinsearch : BinarySearchContract v x (bs v x)) :
    ∃ o, UniqueSortedVec.find_first_following ⟨v⟩ x (ext_binary_search := bs) = .ok o ∧
      (∀ y, o = some y ↔ y ∈ v ∧ compare y x ≠ .lt ∧ ∀ z ∈ v, compare z x ≠ .lt → compare y z ≠ .gt) ∧
      (o = none ↔ ∀ z ∈ v, compare z x = .lt) :=
  ⟨_, findFirstFollowing_eq_model hv x bs hbinsearch,
    fun y => OH.Props.C20.findFirstFollowing_some hv x y, OH.Props.C20.findFirstFollowing_none hv x⟩

/-- a non-decreasing vector without equal neighbours is strictly increasing -/
theorem sorted_of_contracts {s d : List α} (hs : s.Pairwise (fun a b => compare a b ≠ .gt)) (hd : DedupContract s d) :
    Sorted d := by
  have hle : d.Pairwise (fun a b => compare a b ≠ .gt) := hs.sublist hd.1
  rw [Sorted, List.pairwise_iff_getElem]
  intro i j hi hj hij
  have h1 : compare d[i] (d[i + 1]'(by omega)) ≠ .gt := (List.pairwise_iff_getElem.mp hle) i (i + 1) hi (by omega) (by omega)
  have h2 : d[i] ≠ d[i + 1]'(by omega) := hd.2.2 i (by omega)
  have hlt : compare d[i] (d[i + 1]'(by omega)) = .lt := by
    cases h : compare d[i] (d[i + 1]'(by omega)) with
    | lt => rfl
    | eq => exact absurd (LawfulEqOrd.eq_of_compare h) h2
    | gt => exact absurd h h1
  by_cases e : i + 1 = j
  · subst e; exact hlt
  · have h3 : compare (d[i + 1]'(by omega)) d[j] ≠ .gt :=
      (List.pairwise_iff_getElem.mp hle) (i + 1) j (by omega) hj (by omega)
    exact lt_of_lt_of_not_gt hlt h3

/-- `From<Vec<T>>::from`: for EVERY result of `sort_unstable` and of `dedup` meeting their contracts, the generated
definition is a value and equals the model `fromVec` (insertion sort + its own dedup) -/
theorem fromVec_eq_model (v : List α) (sortf dedupf : List α → List α)
    (hsort : SortContract v (sortf v)) (hdedup : DedupContract (sortf v) (dedupf (sortf v))) :
    UniqueSortedVec.from_vec v (ext_sort_unstable := sortf) (ext_dedup := dedupf) = .ok ⟨fromVec v⟩ := by
  have hd : Sorted (dedupf (sortf v)) := sorted_of_contracts hsort.2 hdedup
  have e : dedupf (sortf v) = fromVec v := sorted_ext hd (sorted_fromVec v) (fun x => by
    rw [mem_fromVec]
    exact ⟨fun h => hsort.1.mem_iff.mp (hdedup.1.mem h), fun h => hdedup.2.1 x (hsort.1.mem_iff.mpr h)⟩)
  simp only [UniqueSortedVec.from_vec, e]

/-- `Props/C20.fromVec_sorted / _mem` on the generated definition: "holds exactly the distinct elements in increasing order" -/
theorem gen_fromVec_spec (v : List α) (sortf dedupf : List α → List α)
    (hsort : SortContract v (sortf v)) (hdedup : DedupContract (sortf v) (dedupf (sortf v))) :
    ∃ u, UniqueSortedVec.from_vec v (ext_sort_unstable := sortf) (ext_dedup := dedupf) = .ok u ∧ Sorted u.v0 ∧ ∀ x, x ∈ u.v0 ↔ x ∈ v :=
  ⟨_, fromVec_eq_model v sortf dedupf hsort hdedup, sorted_fromVec v, fun _ => mem_fromVec⟩

/-! non-vacuity: the doc tests of the crate, with the results the library gives -/
example : BinarySearchContract [10, 30, 40] 30 (.ok 1) := ⟨by decide, by decide⟩
example : BinarySearchContract [10, 30, 40] 50 (.error 3) :=
  ⟨by decide, by decide, fun j hj _ => by match j, hj with | 0, _ => rfl | 1, _ => rfl | 2, _ => rfl,
    fun j hj h => by simp only [List.length_cons, List.length_nil] at hj; omega⟩
example : UniqueSortedVec.contains ⟨[10, 30, 40]⟩ 30 (fun _ _ => .ok 1) = .ok true := rfl
example : UniqueSortedVec.contains ⟨[10, 30, 40]⟩ 50 (fun _ _ => .error 3) = .ok false := rfl
example : UniqueSortedVec.find_first_following ⟨[10, 30, 40]⟩ 31 (fun _ _ => .error 2) = .ok (some 40) := rfl
example : UniqueSortedVec.find_first_following ⟨[10, 30, 40]⟩ 50 (fun _ _ => .error 3) = .ok none := rfl
example : SortContract [2, 1, 3, 5, 3] [1, 2, 3, 3, 5] := ⟨by decide, by decide⟩
example : DedupContract [1, 2, 3, 3, 5] [1, 2, 3, 5] :=
  ⟨by decide, by decide, fun i h => by match i, h with | 0, _ => simp | 1, _ => simp | 2, _ => simp⟩
example : (UniqueSortedVec.from_vec [2, 1, 3, 5, 3] (ext_sort_unstable := fun _ => [1, 2, 3, 3, 5])
    (ext_dedup := fun _ => [1, 2, 3, 5])).toOption.map (·.v0) = some [1, 2, 3, 5] := rfl

end OH.Props.ArithC20
