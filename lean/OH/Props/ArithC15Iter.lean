/-
C15 on the code as it is NOW, continued: the ITERATING functions of `CompactYear`
(compact-calendar/src/lib.rs): `first` (`self.0.iter().enumerate().find_map(|(i, month)| …)`),
`first_after` (`if let Some(res) = self.0[month0].first_after(day) { … } else { self.0[month0 + 1..]
.iter().enumerate().find_map(…) }`) and `count` (`self.0.iter().copied().map(CompactMonth::count).sum()`)
are translated from the Rust source on every run (`translators/rs2lean.py` → `OH.Generated.Arith.CompactYear.*`):
the bounded iteration over the twelve months is `findMapM` / `sumM` of `OH/Model/RustIter.lean` over
`Vector.toList`, the closure (tuple pattern, `(i + month0 + 2) as u32` on the `usize` counter of
`enumerate`, `?` leaving the closure) one function of the element, the slice `self.0[month0 + 1..]` a
`List.drop` with the `range start index out of range` panic outcome, `sum` a fold of checked `u32`
additions.

For EVERY array of twelve `u32` masks and EVERY `u32` month and day this file proves that the generated
definition and the hand-written model (`OH.Model.CompactCalendar.Year.first/firstAfter/count`) agree: the
same value, the assertion panics exactly where the model has them, and never an overflow outcome, never
`index out of bounds`, never the slice-index panic (`ArithC15.Agree`).
-/
import OH.Props.ArithC15Mut
import OH.Proofs.RustIter
set_option linter.unusedSimpArgs false
namespace OH.Props.ArithC15Iter
open OH.Model.RustInt
open OH.Generated.Arith
open OH.Model.CompactCalendar
open OH.Props.ArithC15 (Agree optRel)
open OH.Props.ArithC15Mut (toGen)

/-- a `(month, day)` pair of the generated code and the model's pair of `Nat`s -/
def pairCast (p : Nat × Nat) : Int × Int := ((p.1 : Int), (p.2 : Int))

/-- an optional `(u32, u32)` of the generated code and the model's optional pair -/
def pairRel (a : Option (Int × Int)) (b : Option (Nat × Nat)) : Prop := a = b.map pairCast

/-- a model mask as the generated structure -/
def toMonth (m : Nat) : CompactMonth := ⟨(m : Int)⟩

theorem toGen_toList (y : Model.CompactCalendar.Year) : (toGen y).v0.toList = y.toList.map toMonth := by
  simp only [toGen, Vector.toList_map]; rfl

theorem year_mem_u32 (y : Model.CompactCalendar.Year) (hy : ∀ (i : Nat) (h : i < 12), y[i] < 4294967296) :
    ∀ m ∈ y.toList, m < 4294967296 := by
  intro m hm
  obtain ⟨i, hi, e⟩ := List.getElem_of_mem hm
  have hi' : i < 12 := by simpa using hi
  have := hy i hi'
  simp only [Vector.getElem_toList] at e
  omega

/-- `CompactMonth::first` as an equation (from `ArithC15.first_agree`) -/
theorem month_first_eq (m : Nat) (hm : m < 4294967296) :
    CompactMonth.first (toMonth m) = .ok ((Month.first m).map Int.ofNat) := by
  have h := ArithC15.first_agree m hm
  unfold toMonth
  generalize CompactMonth.first ⟨(m : Int)⟩ = g at h ⊢
  cases h with
  | value a b hab => rw [hab]

/-- what the `find_map` closures compute on the element `(i, month)`: the month number `i + off` with
the first day of the month, if it has one -/
def firstG (off : Int) (p : Int × CompactMonth) : Option (Int × Int) :=
  (Month.first p.2.v0.toNat).map fun d => (p.1 + off, (d : Int))

/-- `enumerate().find_map(..)` over the months is the model's `firstFrom` -/
theorem findSome_firstG (ms : List Nat) (k off : Nat) :
    (enumFrom (k : Int) (ms.map toMonth)).findSome? (firstG off)
      = (Year.firstFrom (k + off) ms).map pairCast := by
  induction ms generalizing k with
  | nil => rfl
  | cons m ms ih =>
    simp only [List.map_cons, enumFrom, List.findSome?_cons, Year.firstFrom, firstG, toMonth, Int.toNat_natCast]
    cases Month.first m with
    | some d => simp only [Option.map_some, pairCast]; congr 2
    | none =>
      have := ih (k + 1)
      simp only [Int.natCast_add, Int.natCast_one] at this
      rw [this]
      congr 2
      omega

/-- `CompactYear::first(&self)`: the `usize` addition `i + 1` and the cast to `u32` are exact on the
twelve counters, `?` stops at the first month that has a day -/
theorem year_first_agree (y : Model.CompactCalendar.Year) (hy : ∀ (i : Nat) (h : i < 12), y[i] < 4294967296) :
    Agree pairRel (CompactYear.first (toGen y)) (.ok (Model.CompactCalendar.Year.first y)) := by
  have hmem := year_mem_u32 y hy
  simp only [CompactYear.first, Model.CompactCalendar.Year.first, toGen_toList]
  rw [findMapM_ok (g := firstG 1)]
  · refine .value _ _ ?_
    have := findSome_firstG y.toList 0 1
    simp only [Int.natCast_zero, Int.natCast_one, Nat.zero_add] at this
    exact this
  · intro p hp
    obtain ⟨i, mo⟩ := p
    obtain ⟨h0, h1, h2⟩ := mem_enumerate hp
    obtain ⟨m, hm, rfl⟩ := List.mem_map.mp h2
    have hlen : ((y.toList.map toMonth).length : Int) = 12 := by simp
    rw [hlen] at h1
    simp only []
    rs_ok
    rw [month_first_eq m (hmem m hm)]
    simp only [bnd_ok, firstG, toMonth, Int.toNat_natCast]
    cases Month.first m with
    | none => rfl
    | some d =>
      simp only [Option.map_some]
      refine congrArg (fun z => Except.ok (some (z, (d : Int)))) ?_
      omega

/-- `CompactYear::first_after(&self, month, day)`: both assertion panics as in the model, never
`index out of bounds`, never the slice-index panic (`month0 + 1 ≤ 12`), no overflow in `month - 1`,
`month0 + 1`, `i + month0 + 2`; the casts are exact -/
theorem year_firstAfter_agree (y : Model.CompactCalendar.Year) (hy : ∀ (i : Nat) (h : i < 12), y[i] < 4294967296)
    (month day : Nat) (hd : day < 4294967296) :
    Agree pairRel (CompactYear.first_after (toGen y) month day) (Model.CompactCalendar.Year.firstAfter y month day) := by
  have hmem := year_mem_u32 y hy
  simp only [CompactYear.first_after, Model.CompactCalendar.Year.firstAfter]
  by_cases cm : 1 ≤ month ∧ month ≤ 12
  · have cm' : (1 : Int) ≤ month ∧ (month : Int) ≤ 12 := by omega
    rw [dif_pos cm, if_pos cm']
    by_cases c : 1 ≤ day ∧ day ≤ 31
    · have c' : (1 : Int) ≤ day ∧ (day : Int) ≤ 31 := by omega
      rw [if_pos c, if_pos c']
      rs_ok
      have hi : month - 1 < 12 := by omega
      have e : ((month : Int) - 1).toNat = month - 1 := by omega
      simp only [e, Vector.getElem?_eq_getElem hi]
      simp only [toGen, Vector.getElem_map]
      have h := ArithC15.firstAfter_agree y[month - 1] day (hy _ hi) hd
      generalize CompactMonth.first_after _ day = g at h ⊢
      generalize Month.firstAfter y[month - 1] day = mo at h ⊢
      cases h with
      | panic msg site => rw [bnd_error]; exact .panic _ _
      | value a b hab =>
        rw [bnd_ok]
        cases b with
        | some r =>
          rw [hab]
          exact .value _ _ rfl
        | none =>
          rw [hab]
          rs_ok
          have e2 : ((month : Int) - 1 + 1).toNat = month - 1 + 1 := by omega
          have hlen : (Vector.map (fun (m : Nat) => (⟨(m : Int)⟩ : CompactMonth)) y).toList.length = 12 := by simp
          rw [sliceFrom_ok (by rw [hlen, e2]; omega), bnd_ok, e2]
          have tl : (Vector.map (fun (m : Nat) => (⟨(m : Int)⟩ : CompactMonth)) y).toList = y.toList.map toMonth :=
            toGen_toList y
          rw [tl, ← List.map_drop]
          rw [findMapM_ok (g := firstG ((month : Int) - 1 + 2))]
          · refine .value _ _ ?_
            have := findSome_firstG (List.drop (month - 1 + 1) y.toList) 0 (month - 1 + 2)
            simp only [Int.natCast_zero, Nat.zero_add] at this
            have e3 : (((month - 1 + 2 : Nat) : Int)) = (month : Int) - 1 + 2 := by omega
            rw [e3] at this
            exact this
          · intro p hp
            obtain ⟨i, mo⟩ := p
            obtain ⟨h0, h1, h2⟩ := mem_enumerate hp
            obtain ⟨m, hm, rfl⟩ := List.mem_map.mp h2
            have hl : ((List.map toMonth (List.drop (month - 1 + 1) y.toList)).length : Int) = 12 - month := by
              simp only [List.length_map, List.length_drop, Vector.length_toList]; omega
            rw [hl] at h1
            simp only []
            rs_ok
            rw [month_first_eq m (hmem m (List.mem_of_mem_drop hm))]
            simp only [bnd_ok, firstG, toMonth, Int.toNat_natCast]
            cases Month.first m with
            | none => rfl
            | some d =>
              simp only [Option.map_some]
              refine congrArg (fun z => Except.ok (some (z, (d : Int)))) ?_
              omega
    · have c' : ¬ ((1 : Int) ≤ day ∧ (day : Int) ≤ 31) := by omega
      rw [if_neg c, if_neg c']
      exact .panic _ _
  · have cm' : ¬ ((1 : Int) ≤ month ∧ (month : Int) ≤ 12) := by omega
    rw [dif_neg cm, if_neg cm']
    exact .panic _ _

/-- the sum of the generated counts is the model's sum -/
theorem sum_count_cast (ms : List Nat) :
    ((ms.map toMonth).map fun mo => ((Month.count mo.v0.toNat : Nat) : Int)).sum
      = (((ms.map Month.count).sum : Nat) : Int) := by
  induction ms with
  | nil => rfl
  | cons m ms ih =>
    simp only [List.map_cons, List.sum_cons, Int.natCast_add, toMonth, Int.toNat_natCast] at ih ⊢
    rw [ih]

/-- `CompactYear::count(&self)`: the sum of the twelve `count_ones()`; none of the `u32` additions of
`Sum for u32` can overflow (at most `12 * 32`) -/
theorem year_count_agree (y : Model.CompactCalendar.Year) (hy : ∀ (i : Nat) (h : i < 12), y[i] < 4294967296) :
    CompactYear.count (toGen y) = .ok ((Model.CompactCalendar.Year.count y : Nat) : Int) := by
  have hmem := year_mem_u32 y hy
  simp only [CompactYear.count, Model.CompactCalendar.Year.count, toGen_toList]
  rw [sumM_ok .u32 _ (g := fun mo => ((Month.count mo.v0.toNat : Nat) : Int)) 32]
  · simp only [bnd_ok, sum_count_cast]
  · intro mo hmo
    obtain ⟨m, hm, rfl⟩ := List.mem_map.mp hmo
    refine ⟨?_, by omega, ?_⟩
    · have := ArithC15.count_agree m (hmem m hm)
      simp only [toMonth, Int.toNat_natCast]
      exact this
    · simp only [toMonth, Int.toNat_natCast, Month.count, Model.CompactCalendar.countOnes]
      have : (List.filter m.testBit (List.range 32)).length ≤ (List.range 32).length := List.length_filter_le _ _
      simp only [List.length_range] at this
      omega
  · decide
  · simp only [List.length_map, Vector.length_toList]; decide

/-- with a month and a day the API allows (1..=12, 1..=31) `first_after` reaches no `.error` outcome -/
theorem year_firstAfter_total (y : Model.CompactCalendar.Year) (hy : ∀ (i : Nat) (h : i < 12), y[i] < 4294967296)
    (month day : Nat) (hm : 1 ≤ month ∧ month ≤ 12) (hd : 1 ≤ day ∧ day ≤ 31) :
    ∃ r, CompactYear.first_after (toGen y) month day = .ok (r.map pairCast) ∧
      Model.CompactCalendar.Year.firstAfter y month day = .ok r := by
  have h := year_firstAfter_agree y hy month day (by omega)
  obtain ⟨r, hr⟩ : ∃ r, Model.CompactCalendar.Year.firstAfter y month day = .ok r := by
    simp only [Model.CompactCalendar.Year.firstAfter, Month.firstAfter]
    rw [dif_pos hm, if_pos hd, if_pos hd]
    by_cases z : y[month - 1] >>> day = 0 <;> simp [z]
  rw [hr] at h
  generalize CompactYear.first_after (toGen y) month day = g at h ⊢
  cases h with
  | value a b hab => exact ⟨r, by rw [hab], hr⟩

/-- the first day of a year as an equation -/
theorem year_first_eq (y : Model.CompactCalendar.Year) (hy : ∀ (i : Nat) (h : i < 12), y[i] < 4294967296) :
    CompactYear.first (toGen y) = .ok ((Model.CompactCalendar.Year.first y).map pairCast) := by
  have h := year_first_agree y hy
  generalize CompactYear.first (toGen y) = g at h ⊢
  cases h with
  | value a b hab => rw [hab]

/-! non-vacuity: a year with 1 February and 1 March -/
example : let y : Model.CompactCalendar.Year := #v[0, 1, 1, 0, 0, 0, 0, 0, 0, 0, 0, 0]
    CompactYear.first (toGen y) = .ok (some (2, 1)) ∧
    CompactYear.first_after (toGen y) 2 1 = .ok (some (3, 1)) ∧
    CompactYear.first_after (toGen y) 3 1 = .ok none ∧
    CompactYear.count (toGen y) = .ok 2 := by
  intro y
  have hy : ∀ (i : Nat) (h : i < 12), y[i] < 4294967296 := by decide
  have tz : Model.CompactCalendar.trailingZeros 1 = 0 := by rw [Model.CompactCalendar.trailingZeros]; rfl
  refine ⟨?_, ?_, ?_, ?_⟩
  · rw [year_first_eq y hy]
    simp [y, Model.CompactCalendar.Year.first, Year.firstFrom, Month.first, tz, pairCast]
  · obtain ⟨r, h1, h2⟩ := year_firstAfter_total y hy 2 1 (by omega) (by omega)
    have e : Model.CompactCalendar.Year.firstAfter y 2 1 = .ok (some (3, 1)) := by
      simp [y, Model.CompactCalendar.Year.firstAfter, Month.firstAfter, Year.firstFrom, Month.first, tz]
    rw [e] at h2; cases h2; exact h1
  · obtain ⟨r, h1, h2⟩ := year_firstAfter_total y hy 3 1 (by omega) (by omega)
    have e : Model.CompactCalendar.Year.firstAfter y 3 1 = .ok none := by
      simp [y, Model.CompactCalendar.Year.firstAfter, Month.firstAfter, Year.firstFrom, Month.first]
    rw [e] at h2; cases h2; exact h1
  · rw [year_count_agree y hy]
    have e : Model.CompactCalendar.Year.count y = 2 := by decide
    rw [e]; rfl
example (y : CompactYear) : CompactYear.first_after y 13 1 = .error (.panic "assertion failed: (1..=12).contains(&month)") := rfl
example (y : CompactYear) : CompactYear.first_after y 1 0 = .error (.panic "assertion failed: (1..=31).contains(&day)") := rfl

end OH.Props.ArithC15Iter
