/-
C11 — "Sun events are physically ordered and consistent with coordinates and zone"

  Without coordinates, dawn, sunrise, sunset and dusk are 06:00, 07:00, 19:00 and 20:00 on every date.
  With coordinates of latitude within 60 degrees and the zone inferred from them, on every date the local
  event times satisfy dawn < sunrise < solar noon < sunset < dusk, so 'sunrise-sunset' is open at solar
  noon and closed at solar midnight; a coordinate pair is accepted iff latitude is in [-90, 90], longitude
  in [-180, 180] and neither is NaN, and every accepted pair yields a zone and evaluates.
  Quantifier: all valid coordinates x all dates 1900..2100 x the four events and their offsets.

PROVED here (about the model):
 * `default_events`        the four default times, on every date, and that is what a context without
                           coordinates uses
 * `event_offset_arith`    `event ± hh:mm` is integer addition; outside 00:00–48:00 it is 00:00
 * `coords_valid_iff`      accepted ⇔ both finite, lat ∈ [−90, 90], lon ∈ [−180, 180] (so neither NaN nor ±∞)
 * `sun_consequence`       IF the event times of the context are ordered on every day THEN `sunrise-sunset`
                           is open exactly on [sunrise, sunset): open at any "noon" in between, closed at
                           any "midnight" before dawn or after dusk — parametric in the event function
 * `sun_general`, `sun_wrapped`   with NO ordering assumed (any four times of day): the exact set of open
                           minutes, incl. the case where sunset falls after local midnight (span wraps)

NOT proved, NOT provable here, and covered by SEARCH only (suite `c11`, labelled as a test):
 * the ordering itself (`dawn < sunrise < noon < sunset < dusk`): a fact about the floating-point solar
   geometry of the third-party crate `sunrise` and about which zone `tzf-rs` finds for a point;
 * "every accepted pair yields a zone and evaluates": the polygon lookup of `tzf-rs` and
   `country-boundaries` is not modelled.
The search (see NOTES.md for its results) shows that the ordering clause, read on local *times of day*,
is FALSE at some points within |lat| ≤ 60 (finding D17: `TzLocation::event_time` drops the date of the
event, localize.rs:164-165; and the `sunrise` crate returns 1970-01-01T00:00:00Z when an event does not
occur) — so `sun_consequence` keeps the ordering as a hypothesis on purpose.
-/
import OH.Model.Sun
import OH.Model.Iter
import OH.Props.C14
import OH.Proofs.Calendar
import OH.Model.ParserWF
namespace OH.Props.C11
open OH.Model OH.Model.Sun OH.Model.Cal OH.Spec.Schedule

/-! ## default events -/

/-- "Without coordinates, dawn, sunrise, sunset and dusk are 06:00, 07:00, 19:00 and 20:00 on every date" -/
theorem default_events (d : Int) :
    defaultEvent d .dawn = 6 * 60 ∧ defaultEvent d .sunrise = 7 * 60
    ∧ defaultEvent d .sunset = 19 * 60 ∧ defaultEvent d .dusk = 20 * 60 := ⟨rfl, rfl, rfl, rfl⟩

/-- … and `Context::default()` (locale `NoLocation`) uses them -/
theorem default_ctx_events : Ctx.default.event = defaultEvent := rfl

/-- the defaults are ordered, every day (so `sun_consequence` applies to them) -/
theorem default_events_ordered (d : Int) :
    defaultEvent d .dawn < defaultEvent d .sunrise ∧ defaultEvent d .sunrise < defaultEvent d .sunset
    ∧ defaultEvent d .sunset < defaultEvent d .dusk ∧ defaultEvent d .dusk < 1440 := by
  simp [defaultEvent]

/-! ## offsets -/

/-- `VariableTime::as_naive`: `event + offset` in minutes when that lies in 00:00–48:00, else 00:00
(`add_minutes(offset).unwrap_or(MIDNIGHT_00)`) -/
theorem event_offset_arith (ctx : Ctx) (d : Int) (e : TimeEvent) (off : Int) :
    Time.asNaive ctx d (.variable e off) =
      if 0 ≤ (ctx.event d e : Int) + off ∧ (ctx.event d e : Int) + off ≤ 2880
      then ((ctx.event d e : Int) + off).toNat else 0 := by
  simp only [Time.asNaive]
  by_cases h : 0 ≤ (ctx.event d e : Int) + off ∧ (ctx.event d e : Int) + off ≤ 2880
  · rw [if_pos h, if_neg (by omega)]
  · rw [if_neg h, if_pos (by omega)]

/-- inside the range it is plain addition -/
theorem event_offset_inside (ctx : Ctx) (d : Int) (e : TimeEvent) (off : Int)
    (h : 0 ≤ (ctx.event d e : Int) + off ∧ (ctx.event d e : Int) + off ≤ 2880) :
    (Time.asNaive ctx d (.variable e off) : Int) = ctx.event d e + off := by
  rw [event_offset_arith, if_pos h]; omega

/-- a fixed time is itself -/
theorem fixed_time (ctx : Ctx) (d : Int) (m : Nat) : Time.asNaive ctx d (.fixed m) = m := rfl

/-! ## coordinates -/

/-- "a coordinate pair is accepted iff latitude is in [-90, 90], longitude in [-180, 180] and neither
is NaN" — over the model of doubles: accepted iff both are finite numbers in the closed ranges
(±∞ are out of range, NaN fails every comparison but is tested first). -/
theorem coords_valid_iff (lat lon : F64) :
    (coordsNew lat lon).isSome = true ↔
      ∃ a b : Rat, lat = .finite a ∧ lon = .finite b ∧ -90 ≤ a ∧ a ≤ 90 ∧ -180 ≤ b ∧ b ≤ 180 := by
  cases lat <;> cases lon <;>
    simp [coordsNew, F64.isNan, F64.lt, F64.gt, Rat.not_lt, and_assoc]

/-- the same with IEEE `<=` on both sides ("in [-90, 90]" as a double comparison; NaN satisfies none) -/
theorem coords_valid_iff_le (lat lon : F64) :
    (coordsNew lat lon).isSome = true ↔
      (F64.le (.finite (-90)) lat = true ∧ F64.le lat (.finite 90) = true
        ∧ F64.le (.finite (-180)) lon = true ∧ F64.le lon (.finite 180) = true) := by
  cases lat <;> cases lon <;>
    simp [coordsNew, F64.isNan, F64.lt, F64.gt, F64.le, Rat.not_lt, and_assoc]

/-- NaN on either side is rejected -/
theorem coords_nan_rejected (x : F64) : coordsNew .nan x = none ∧ coordsNew x .nan = none := by
  cases x <;> simp [coordsNew, F64.isNan]

/-- an accepted pair is stored unchanged (`lat()`/`lon()` return what was given) -/
theorem coords_value (lat lon : F64) (p : F64 × F64) (h : coordsNew lat lon = some p) : p = (lat, lon) := by
  unfold coordsNew at h; split at h <;> simp_all

/-! ## the consequence of the ordering -/

private abbrev theSpan : TimeSpan := ⟨.variable .sunrise 0, .variable .sunset 0, false, none⟩
private abbrev theRule : Rule := ⟨⟨[], [], [], []⟩, [theSpan], .open, .normal, []⟩

private theorem asNaive_event (ev : Int → TimeEvent → Nat) (d : Int) (e : TimeEvent) (h : ev d e ≤ 2880) :
    Time.asNaive (sunCtx ev) d (.variable e 0) = ev d e := by
  have hh : (sunCtx ev).event d e = ev d e := rfl
  rw [event_offset_arith, if_pos (by omega)]; omega

private theorem span_asNaive (ev : Int → TimeEvent → Nat) (d : Int)
    (h1 : ev d .sunrise < ev d .sunset) (h2 : ev d .sunset ≤ 1440) :
    TimeSpan.asNaive (sunCtx ev) d theSpan = .ok (ev d .sunrise, ev d .sunset) := by
  simp only [TimeSpan.asNaive, asNaive_event ev d .sunrise (by omega), asNaive_event ev d .sunset (by omega),
    h1, if_true]

private theorem intervalsAt_eq (ev : Int → TimeEvent → Nat) (d : Int)
    (h1 : ev d .sunrise < ev d .sunset) (h2 : ev d .sunset ≤ 1440) :
    intervalsAt (sunCtx ev) [theSpan] d = .ok [(ev d .sunrise, ev d .sunset)] := by
  have e1 : max (ev d .sunrise) 0 = ev d .sunrise := by omega
  have e2 : min (ev d .sunset) 1440 = ev d .sunset := by omega
  have hi : rangeIntersection (ev d .sunrise, ev d .sunset) (0, 1440) = some (ev d .sunrise, ev d .sunset) := by
    simp only [rangeIntersection, e1, e2, h1, if_true]
  simp only [intervalsAt, mapM', span_asNaive ev d h1 h2, bind, Except.bind, pure, Except.pure,
    List.filterMap_cons, hi, List.filterMap_nil, rangesUnion, sortPairs, sortPairInsert, rangesUnionLoop]

private theorem intervalsAtNextDay_eq (ev : Int → TimeEvent → Nat) (d : Int)
    (h1 : ev d .sunrise < ev d .sunset) (h2 : ev d .sunset ≤ 1440) :
    intervalsAtNextDay (sunCtx ev) [theSpan] d = .ok [] := by
  have hi : rangeIntersection (ev d .sunrise, ev d .sunset) (1440, 2880) = none := by
    simp only [rangeIntersection]
    rw [if_neg (by omega)]
  simp only [intervalsAtNextDay, mapM', span_asNaive ev d h1 h2, bind, Except.bind, pure, Except.pure,
    List.filterMap_cons, hi, List.filterMap_nil, List.map_nil, rangesUnion, sortPairs]

private theorem filter_empty (ctx : Ctx) (d : Int) : DaySelector.filter ctx ⟨[], [], [], []⟩ d = .ok true := by
  simp [DaySelector.filter, listFilter, bind, Except.bind]

private theorem rule_eq (ev : Int → TimeEvent → Nat) (d : Int) (hd : dateStart ≤ d)
    (h1 : ev d .sunrise < ev d .sunset) (h2 : ev d .sunset ≤ 1440)
    (h3 : ev (d-1) .sunrise < ev (d-1) .sunset) (h4 : ev (d-1) .sunset ≤ 1440) :
    ruleScheduleAt (sunCtx ev) theRule d = .ok (some [⟨ev d .sunrise, ev d .sunset, .open, []⟩]) := by
  have hp : pred? d = some (d - 1) := pred?_of_dateStart_le hd
  have hf : Schedule.fromRanges [(ev d .sunrise, ev d .sunset)] .open []
      = [⟨ev d .sunrise, ev d .sunset, .open, []⟩] := by
    simp [Schedule.fromRanges, Schedule.fromRangesFixed, Schedule.mkRanges, h1, Schedule.sortByStart,
      Schedule.sortInsert, Schedule.mergeFixed, Schedule.mergeFixedLoop]
  have hf0 : Schedule.fromRanges [] .open [] = [] := by
    simp [Schedule.fromRanges, Schedule.fromRangesFixed, Schedule.mkRanges, Schedule.sortByStart, Schedule.mergeFixed]
  simp only [ruleScheduleAt, filter_empty, bind, Except.bind, pure, Except.pure, if_true, hp,
    intervalsAt_eq ev d h1 h2, intervalsAtNextDay_eq ev (d-1) h3 h4, hf, hf0, Schedule.addition, List.reverse_nil,
    Schedule.additionRev]

/-- the (un-iterated) schedule of `sunrise-sunset` on a supported day whose events, and those of the day
before, are in order: the single open range sunrise..sunset -/
theorem sun_schedule (ev : Int → TimeEvent → Nat) (d : Int) (hd : dateStart ≤ d ∧ d < dateEnd)
    (h1 : ev d .sunrise < ev d .sunset) (h2 : ev d .sunset ≤ 1440)
    (h3 : ev (d-1) .sunrise < ev (d-1) .sunset) (h4 : ev (d-1) .sunset ≤ 1440) :
    scheduleAt (sunCtx ev) sunriseSunset d = .ok [⟨ev d .sunrise, ev d .sunset, .open, []⟩] := by
  simp only [scheduleAt, hd, sunriseSunset, foldM', scheduleStep, filter_empty, rule_eq ev d hd.1 h1 h2 h3 h4,
    bind, Except.bind, pure, Except.pure]
  simp

/-- the events of a context are physically ordered on day `d`, as minutes of that day -/
def Ordered (ev : Int → TimeEvent → Nat) (d : Int) : Prop :=
  ev d .dawn < ev d .sunrise ∧ ev d .sunrise < ev d .sunset ∧ ev d .sunset < ev d .dusk ∧ ev d .dusk < 1440

instance (ev : Int → TimeEvent → Nat) (d : Int) : Decidable (Ordered ev d) := by unfold Ordered; infer_instance

/-- **The consequence.**  For ANY event function that is ordered on day `d` and on the day before, the
expression `sunrise-sunset` evaluates without panic on `d`, its iterated schedule tiles 00:00–24:00, and
the state at minute `m` is open exactly when `sunrise ≤ m < sunset`. -/
theorem sun_consequence (ev : Int → TimeEvent → Nat) (d : Int) (hd : dateStart ≤ d ∧ d < dateEnd)
    (ho : Ordered ev d) (hp : Ordered ev (d - 1)) :
    ∃ rs, daySchedule (sunCtx ev) sunriseSunset d = .ok rs ∧ Tiles rs 0 1440 ∧
      ∀ m, m < 1440 →
        stateAt rs m = some (if ev d .sunrise ≤ m ∧ m < ev d .sunset then Kind.open else Kind.closed) := by
  obtain ⟨o1, o2, o3, o4⟩ := ho
  obtain ⟨p1, p2, p3, p4⟩ := hp
  have hs := sun_schedule ev d hd o2 (by omega) p2 (by omega)
  have hwf : WF [(⟨ev d .sunrise, ev d .sunset, .open, []⟩ : TimeRange)] := by
    simp only [WF]; exact ⟨o2, by simp, trivial⟩
  have hw : Within 1440 [(⟨ev d .sunrise, ev d .sunset, .open, []⟩ : TimeRange)] := by
    intro t ht; simp only [List.mem_singleton] at ht; subst ht; simp only; omega
  refine ⟨Schedule.iter [⟨ev d .sunrise, ev d .sunset, .open, []⟩], ?_, OH.Props.C14.iter_tiling _ hwf hw, ?_⟩
  · simp only [daySchedule, hs, OH.Props.C14.iter_no_panic _ hwf]; rfl
  · intro m hm
    rw [OH.Props.C14.iter_state _ hwf m hm]
    simp only [dayState, stateAt]
    split <;> rfl

/-- "… so 'sunrise-sunset' is open at solar noon": at any minute strictly between sunrise and sunset -/
theorem sun_open_at_noon (ev : Int → TimeEvent → Nat) (d : Int) (hd : dateStart ≤ d ∧ d < dateEnd)
    (ho : Ordered ev d) (hp : Ordered ev (d - 1)) (noon : Nat)
    (hn : ev d .sunrise < noon ∧ noon < ev d .sunset) :
    ∃ rs, daySchedule (sunCtx ev) sunriseSunset d = .ok rs ∧ stateAt rs noon = some .open := by
  obtain ⟨rs, h1, _, h3⟩ := sun_consequence ev d hd ho hp
  refine ⟨rs, h1, ?_⟩
  rw [h3 noon (by unfold Ordered at ho; omega), if_pos (by omega)]

/-- "… and closed at solar midnight": at any minute before dawn or from dusk on (in fact before sunrise
or from sunset on) -/
theorem sun_closed_at_midnight (ev : Int → TimeEvent → Nat) (d : Int) (hd : dateStart ≤ d ∧ d < dateEnd)
    (ho : Ordered ev d) (hp : Ordered ev (d - 1)) (midnight : Nat) (hm : midnight < 1440)
    (hn : midnight < ev d .sunrise ∨ ev d .sunset ≤ midnight) :
    ∃ rs, daySchedule (sunCtx ev) sunriseSunset d = .ok rs ∧ stateAt rs midnight = some .closed := by
  obtain ⟨rs, h1, _, h3⟩ := sun_consequence ev d hd ho hp
  refine ⟨rs, h1, ?_⟩
  rw [h3 midnight hm, if_neg (by omega)]

/-- in particular without coordinates: open 07:00–19:00 every supported day -/
theorem sun_default (d : Int) (hd : dateStart ≤ d ∧ d < dateEnd) :
    ∃ rs, daySchedule (sunCtx defaultEvent) sunriseSunset d = .ok rs ∧
      ∀ m, m < 1440 → stateAt rs m = some (if 420 ≤ m ∧ m < 1140 then Kind.open else Kind.closed) := by
  obtain ⟨rs, h1, _, h3⟩ := sun_consequence defaultEvent d hd (default_events_ordered d) (default_events_ordered (d - 1))
  exact ⟨rs, h1, h3⟩

/-! ## … and without any ordering: what the model does with ARBITRARY times of day

`TzLocation::event_time` returns the local time of day of each event and drops its date (D17), so the
four numbers the evaluator sees need not be ordered.  `sun_general` says exactly what `sunrise-sunset`
evaluates to then: when sunset is not after sunrise as a time of day the span wraps past midnight. -/

/-- `TimeSpan::as_naive` of `sunrise-sunset` for arbitrary times of day: the span itself, or wrapped to the next day -/
private theorem span_general (ev : Int → TimeEvent → Nat) (d : Int)
    (h1 : ev d .sunrise < 1440) (h2 : ev d .sunset < 1440) :
    TimeSpan.asNaive (sunCtx ev) d theSpan =
      .ok (ev d .sunrise, if ev d .sunrise < ev d .sunset then ev d .sunset else ev d .sunset + 1440) := by
  simp only [TimeSpan.asNaive, asNaive_event ev d .sunrise (by omega), asNaive_event ev d .sunset (by omega)]
  by_cases h : ev d .sunrise < ev d .sunset
  · simp only [h, if_true]
  · simp only [h, if_false]
    rw [if_neg (by omega)]
    congr 2; omega

private theorem intervalsAt_general (ev : Int → TimeEvent → Nat) (d : Int)
    (h1 : ev d .sunrise < 1440) (h2 : ev d .sunset < 1440) :
    intervalsAt (sunCtx ev) [theSpan] d =
      .ok [(ev d .sunrise, if ev d .sunrise < ev d .sunset then ev d .sunset else 1440)] := by
  have hi : rangeIntersection (ev d .sunrise, if ev d .sunrise < ev d .sunset then ev d .sunset else ev d .sunset + 1440) (0, 1440)
      = some (ev d .sunrise, if ev d .sunrise < ev d .sunset then ev d .sunset else 1440) := by
    by_cases h : ev d .sunrise < ev d .sunset
    · have e1 : max (ev d .sunrise) 0 = ev d .sunrise := by omega
      have e2 : min (ev d .sunset) 1440 = ev d .sunset := by omega
      simp only [rangeIntersection, h, if_true, e1, e2]
    · have e1 : max (ev d .sunrise) 0 = ev d .sunrise := by omega
      have e2 : min (ev d .sunset + 1440) 1440 = 1440 := by omega
      simp only [rangeIntersection, h, if_false, e1, e2, h1, if_true]
  simp only [intervalsAt, mapM', span_general ev d h1 h2, bind, Except.bind, pure, Except.pure,
    List.filterMap_cons, hi, List.filterMap_nil, rangesUnion, sortPairs, sortPairInsert, rangesUnionLoop]

private theorem intervalsAtNextDay_general (ev : Int → TimeEvent → Nat) (d : Int)
    (h1 : ev d .sunrise < 1440) (h2 : ev d .sunset < 1440) :
    intervalsAtNextDay (sunCtx ev) [theSpan] d =
      .ok (if ev d .sunrise < ev d .sunset ∨ ev d .sunset = 0 then [] else [(0, ev d .sunset)]) := by
  by_cases h : ev d .sunrise < ev d .sunset
  · have hi : rangeIntersection (ev d .sunrise, ev d .sunset) (1440, 2880) = none := by
      simp only [rangeIntersection]; rw [if_neg (by omega)]
    simp only [intervalsAtNextDay, mapM', span_general ev d h1 h2, h, if_true, true_or, bind, Except.bind, pure, Except.pure,
      List.filterMap_cons, hi, List.filterMap_nil, List.map_nil, rangesUnion, sortPairs]
  · by_cases h0 : ev d .sunset = 0
    · have hi : rangeIntersection (ev d .sunrise, ev d .sunset + 1440) (1440, 2880) = none := by
        simp only [rangeIntersection]; rw [if_neg (by omega)]
      rw [if_pos (Or.inr h0)]
      simp only [intervalsAtNextDay, mapM', span_general ev d h1 h2, h, if_false, bind, Except.bind, pure,
        Except.pure, List.filterMap_cons, hi, List.filterMap_nil, List.map_nil, rangesUnion, sortPairs]
    · have e1 : max (ev d .sunrise) 1440 = 1440 := by omega
      have e2 : min (ev d .sunset + 1440) 2880 = ev d .sunset + 1440 := by omega
      have hi : rangeIntersection (ev d .sunrise, ev d .sunset + 1440) (1440, 2880) = some (1440, ev d .sunset + 1440) := by
        simp only [rangeIntersection, e1, e2]; rw [if_pos (by omega)]
      simp only [intervalsAtNextDay, mapM', span_general ev d h1 h2, h, if_false, h0, or_self, bind, Except.bind, pure,
        Except.pure, List.filterMap_cons, hi, List.filterMap_nil, List.map_cons, List.map_nil, rangesUnion, sortPairs,
        sortPairInsert, rangesUnionLoop]
      simp

/-- the ranges of day `d` coming from the span of `d` itself and from the span of `d - 1` wrapped past midnight -/
def todayRanges (ev : Int → TimeEvent → Nat) (d : Int) : List (Nat × Nat) :=
  [(ev d .sunrise, if ev d .sunrise < ev d .sunset then ev d .sunset else 1440)]
def spillRanges (ev : Int → TimeEvent → Nat) (d : Int) : List (Nat × Nat) :=
  if ev (d - 1) .sunrise < ev (d - 1) .sunset ∨ ev (d - 1) .sunset = 0 then [] else [(0, ev (d - 1) .sunset)]

theorem sun_schedule_general (ev : Int → TimeEvent → Nat) (d : Int) (hd : dateStart ≤ d ∧ d < dateEnd)
    (h1 : ev d .sunrise < 1440) (h2 : ev d .sunset < 1440)
    (h3 : ev (d-1) .sunrise < 1440) (h4 : ev (d-1) .sunset < 1440) :
    scheduleAt (sunCtx ev) sunriseSunset d =
      .ok (Schedule.addition (Schedule.fromRanges (todayRanges ev d) .open [])
                             (Schedule.fromRanges (spillRanges ev d) .open [])) := by
  have hp : pred? d = some (d - 1) := pred?_of_dateStart_le hd.1
  have hr : ruleScheduleAt (sunCtx ev) theRule d =
      .ok (some (Schedule.addition (Schedule.fromRanges (todayRanges ev d) .open [])
                             (Schedule.fromRanges (spillRanges ev d) .open []))) := by
    simp only [ruleScheduleAt, filter_empty, bind, Except.bind, pure, Except.pure, if_true, hp,
      intervalsAt_general ev d h1 h2, intervalsAtNextDay_general ev (d-1) h3 h4, todayRanges, spillRanges]
  simp only [scheduleAt, hd, sunriseSunset, foldM', scheduleStep, filter_empty, hr,
    bind, Except.bind, pure, Except.pure]
  simp

/-- open minutes of local day `d` for ARBITRARY times of day of the two events (no ordering assumed):
inside sunrise..sunset when they are in order, from sunrise to 24:00 when the span wraps, and before
the sunset of the day before when THAT span wrapped -/
def sunOpen (ev : Int → TimeEvent → Nat) (d : Int) (m : Nat) : Bool :=
  (if ev d .sunrise < ev d .sunset then decide (ev d .sunrise ≤ m ∧ m < ev d .sunset) else decide (ev d .sunrise ≤ m))
  || (!decide (ev (d - 1) .sunrise < ev (d - 1) .sunset) && decide (m < ev (d - 1) .sunset))

theorem sun_general (ev : Int → TimeEvent → Nat) (d : Int) (hd : dateStart ≤ d ∧ d < dateEnd)
    (h1 : ev d .sunrise < 1440) (h2 : ev d .sunset < 1440)
    (h3 : ev (d-1) .sunrise < 1440) (h4 : ev (d-1) .sunset < 1440) :
    ∃ rs, daySchedule (sunCtx ev) sunriseSunset d = .ok rs ∧ Tiles rs 0 1440 ∧
      ∀ m, m < 1440 → stateAt rs m = some (if sunOpen ev d m then Kind.open else Kind.closed) := by
  have hs := sun_schedule_general ev d hd h1 h2 h3 h4
  have wa := OH.Props.C14.fromRanges_wf (todayRanges ev d) .open []
  have wb := OH.Props.C14.fromRanges_wf (spillRanges ev d) .open []
  have hwf := OH.Props.C14.addition_wf _ _ wa wb
  have la : Within 1440 (Schedule.fromRanges (todayRanges ev d) .open []) :=
    OH.Props.C14.fromRanges_within 1440 _ _ _ (by
      intro r hr; simp only [todayRanges, List.mem_singleton] at hr; subst hr; simp only; split <;> omega)
  have lb : Within 1440 (Schedule.fromRanges (spillRanges ev d) .open []) :=
    OH.Props.C14.fromRanges_within 1440 _ _ _ (by
      intro r hr; unfold spillRanges at hr; split at hr
      · cases hr
      · simp only [List.mem_singleton] at hr; subst hr; simp only; omega)
  have hw := OH.Props.C14.addition_within 1440 _ _ wa wb la lb
  refine ⟨Schedule.iter _, ?_, OH.Props.C14.iter_tiling _ hwf hw, ?_⟩
  · simp only [daySchedule, hs, OH.Props.C14.iter_no_panic _ hwf]; rfl
  · intro m hm
    rw [OH.Props.C14.iter_state _ hwf m hm]
    unfold dayState
    rw [OH.Props.C14.addition_state _ _ wa wb, OH.Props.C14.fromRanges_covers, OH.Props.C14.fromRanges_covers]
    simp only [fromSpec, InRanges, todayRanges, spillRanges, sunOpen]
    by_cases c1 : ev d .sunrise < ev d .sunset <;> by_cases c2 : ev (d-1) .sunrise < ev (d-1) .sunset <;>
      by_cases c3 : ev (d-1) .sunset = 0 <;> by_cases c4 : ev d .sunrise ≤ m <;> by_cases c5 : m < ev d .sunset <;>
      by_cases c6 : m < ev (d-1) .sunset <;> simp [c1, c2, c3, c4, c5, c6, hm] <;> omega


/-- When sunset falls after local midnight (as times of day: sunset ≤ sunrise, today and the day before),
`sunrise-sunset` is open from sunrise to 24:00 and from 00:00 to the sunset that belongs to the day
before, and closed in between: the dropped date is harmless for this expression. -/
theorem sun_wrapped (ev : Int → TimeEvent → Nat) (d : Int) (hd : dateStart ≤ d ∧ d < dateEnd)
    (h1 : ev d .sunrise < 1440) (h2 : ev d .sunset ≤ ev d .sunrise)
    (h3 : ev (d-1) .sunrise < 1440) (h4 : ev (d-1) .sunset ≤ ev (d-1) .sunrise) :
    ∃ rs, daySchedule (sunCtx ev) sunriseSunset d = .ok rs ∧
      ∀ m, m < 1440 → stateAt rs m =
        some (if ev d .sunrise ≤ m ∨ m < ev (d-1) .sunset then Kind.open else Kind.closed) := by
  obtain ⟨rs, r1, _, r3⟩ := sun_general ev d hd h1 (by omega) h3 (by omega)
  refine ⟨rs, r1, fun m hm => ?_⟩
  rw [r3 m hm]
  have c1 : ¬ ev d .sunrise < ev d .sunset := by omega
  have c2 : ¬ ev (d-1) .sunrise < ev (d-1) .sunset := by omega
  by_cases a : ev d .sunrise ≤ m <;> by_cases b : m < ev (d-1) .sunset <;> simp [sunOpen, c1, c2, a, b]

/-! ## non-vacuity, and what happens when the hypothesis fails -/

/-- the AST is a well-formed parse result (the harness op `sun.ast` checks that it IS what the parser
returns for the text `sunrise-sunset`) -/
example : ParserWF sunriseSunset = true := by decide

private def okIs (r : M (List TimeRange)) (l : List TimeRange) : Bool :=
  match r with
  | .ok rs => rs == l
  | .error _ => false

private def evParis : Int → TimeEvent → Nat := fun _ e => match e with
  | .dawn => 306 | .sunrise => 347 | .sunset => 1318 | .dusk => 1359
private def evNome : Int → TimeEvent → Nat := fun _ e => match e with
  | .dawn => 311 | .sunrise => 372 | .sunset => 1433 | .dusk => 34
private def evWrapped : Int → TimeEvent → Nat := fun _ e => match e with
  | .dawn => 270 | .sunrise => 330 | .sunset => 10 | .dusk => 70

/-- Paris, 2024-06-21 (day 739058): 05:06 / 05:47 / 21:58 / 22:39 local -/
example :
    Ordered evParis 739058 ∧ Ordered evParis 739057
    ∧ okIs (daySchedule (sunCtx evParis) sunriseSunset 739058)
        [⟨0, 347, .closed, []⟩, ⟨347, 1318, .open, []⟩, ⟨1318, 1440, .closed, []⟩] = true := by
  decide +kernel

/-- D17 (found by the search, localize.rs:164-165): at (55.2, -162.7), America/Nome, 2024-06-21 the UTC
instants are ordered but as local times of day dusk 00:34 < dawn 05:11: `Ordered` is FALSE there. -/
example : ¬ Ordered evNome 739058 := by decide

/-- …and the hypothesis is not idle: when sunset falls after local midnight (time of day 00:10 < sunrise
05:30) the span wraps, the model opens 05:30–24:00 and 00:00–00:10 (as `sun_wrapped` says) and the
conclusion of `sun_consequence` ("closed before sunrise") is false at 00:05. -/
example :
    okIs (daySchedule (sunCtx evWrapped) sunriseSunset 739058)
      [⟨0, 10, .open, []⟩, ⟨10, 330, .closed, []⟩, ⟨330, 1440, .open, []⟩] = true := by
  decide +kernel

end OH.Props.C11
