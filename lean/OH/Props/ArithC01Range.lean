/-
C01 (and C14) on the code as it is NOW: `WrappingRange::wrapping_contains` (opening-hours/src/utils/range.rs,
`impl<T: PartialOrd> WrappingRange<T> for RangeInclusive<T>`) — the test every wrapping selector of the
evaluator goes through (year, month, week, weekday ranges) — is translated from the Rust source on every
run (`translators/rs2lean.py` → `OH.Generated.Arith.WrappingRange.wrapping_contains`).  The generic
parameter `T: PartialOrd` is a Lean type parameter with decidable `≤`/`<` about which nothing is assumed,
`self.start()`/`self.end()` are the accessors of `std::ops::RangeInclusive`, `self.contains(elt)` is
`RangeBounds::contains` (`start <= elt && elt <= end`).

The tie: for EVERY carrier and EVERY three values the generated definition returns (no panic outcome)
exactly what the hand-written model `OH.Model.wrappingContains` returns — the model every evaluator
theorem (`Props/C01`, `Proofs/EvalSpec*`, `Proofs/Hint*`) and `Props/C14.wrappingContains_*` talk about.
-/
import OH.Generated.Arith
import OH.Model.Schedule
namespace OH.Props.ArithC01Range
open OH.Model.RustInt
open OH.Generated.Arith
open OH.Model (wrappingContains)

/-- `(lo..=hi).wrapping_contains(&x)` is the model's `wrappingContains lo hi x`, on any carrier -/
theorem wrappingContains_eq_model {α : Type} [LE α] [LT α] [DecidableLE α] [DecidableLT α] (lo hi x : α) :
    WrappingRange.wrapping_contains ⟨lo, hi⟩ x = .ok (wrappingContains lo hi x) := by
  simp only [WrappingRange.wrapping_contains, wrappingContains, RangeInclusive.contains]
  by_cases h : lo ≤ hi
  · simp only [h, decide_true, if_true, Bool.decide_and]
  · simp only [h, decide_false, Bool.false_eq_true, if_false, Bool.decide_or]

/-- the generated function never reaches a panic / overflow outcome -/
theorem wrappingContains_total {α : Type} [LE α] [LT α] [DecidableLE α] [DecidableLT α] (r : RangeInclusive α) (x : α) :
    ∃ b, WrappingRange.wrapping_contains r x = .ok b :=
  ⟨_, wrappingContains_eq_model r.start r.«end» x⟩

/-- an ordinary range (`lo ≤ hi`) contains exactly the values between its bounds … -/
theorem gen_wrappingContains_plain (lo hi x : Nat) (h : lo ≤ hi) :
    WrappingRange.wrapping_contains ⟨lo, hi⟩ x = .ok (decide (lo ≤ x ∧ x ≤ hi)) := by
  rw [wrappingContains_eq_model]; simp [wrappingContains, h]

/-- … and a wrapping one (`hi < lo`) the values from `lo` on and those up to `hi` -/
theorem gen_wrappingContains_wrapping (lo hi x : Nat) (h : hi < lo) :
    WrappingRange.wrapping_contains ⟨lo, hi⟩ x = .ok (decide (lo ≤ x ∨ x ≤ hi)) := by
  have : ¬ lo ≤ hi := by omega
  rw [wrappingContains_eq_model]; simp [wrappingContains, this]

/-- the same two readings on `Int` carriers (years, as the evaluator compares them) -/
theorem gen_wrappingContains_int (lo hi x : Int) :
    WrappingRange.wrapping_contains ⟨lo, hi⟩ x
      = .ok (if lo ≤ hi then decide (lo ≤ x ∧ x ≤ hi) else decide (lo ≤ x ∨ x ≤ hi)) := by
  rw [wrappingContains_eq_model]; rfl

/-! non-vacuity: `Nov..=Feb` (11..=2) contains December and January, not June; `Feb..=Nov` the opposite -/
example : WrappingRange.wrapping_contains (⟨11, 2⟩ : RangeInclusive Nat) 12 = .ok true := rfl
example : WrappingRange.wrapping_contains (⟨11, 2⟩ : RangeInclusive Nat) 1 = .ok true := rfl
example : WrappingRange.wrapping_contains (⟨11, 2⟩ : RangeInclusive Nat) 6 = .ok false := rfl
example : WrappingRange.wrapping_contains (⟨11, 2⟩ : RangeInclusive Nat) 2 = .ok true := rfl   -- both bounds belong to it
example : WrappingRange.wrapping_contains (⟨11, 2⟩ : RangeInclusive Nat) 11 = .ok true := rfl
example : WrappingRange.wrapping_contains (⟨2, 11⟩ : RangeInclusive Nat) 6 = .ok true := rfl
example : WrappingRange.wrapping_contains (⟨2, 11⟩ : RangeInclusive Nat) 12 = .ok false := rfl
example : WrappingRange.wrapping_contains (⟨2, 11⟩ : RangeInclusive Nat) 2 = .ok true := rfl

end OH.Props.ArithC01Range
