/-
C15 — CompactCalendar is a faithful set of dates, also across serialization.

  "After any sequence of insertions a calendar contains exactly the inserted dates: contains, count,
   ordered iteration and first_after (the strictly next member) agree with a plain sorted set, insert
   reports whether the date was new, and equality is set equality. serialize followed by deserialize
   returns an equal calendar and consumes exactly the bytes written, so calendars can be
   concatenated in one stream."

Vocabulary (definitions in `OH.Model.CompactCalendar`, `OH.Spec.DateSet`, `OH.Proofs.CompactCalendar`):
* `fromList ds`   the model of `CompactCalendar::default()` followed by `insert d` for each `d` of
                  `ds` in order (`Except`: `.error site` = a panic at `site`);
* `AllValid ds`   every `d ∈ ds` is a date chrono can build (`from_ymd_opt` succeeds) — the ONLY
                  hypothesis on histories (a `NaiveDate` argument satisfies it by construction;
                  it includes chrono's year range −262143 … 262142, which is inside `i32`);
* `DateSet.ofList ds`  the plain sorted duplicate-free list of the dates of `ds` (the oracle the
                  driver runs); `DateSet.lt` the chronological order;
* `abs c`         the set represented by a calendar value; `Inv c` the (decidable) invariant;
* `Repr c`        "`c` exists in memory": `first_year` fits `i32`, masks fit `u32`, length fits `usize`.
Every statement below has the form `model call = .ok …`, so it also says: no panic
(in particular not "calendar is too large", not "invalid date loaded from calendar", no overflow).
-/
import OH.Proofs.CompactCalendar
namespace OH.Props.C15
open OH.Model.CompactCalendar OH.Model.CompactCalendar.CompactCalendar OH.Proofs.CompactCalendar OH.Spec

def AllValid (ds : List Date) : Prop := ∀ d ∈ ds, d.valid = true

instance (ds : List Date) : Decidable (AllValid ds) := by unfold AllValid; exact inferInstance

/-! ### reachable calendars: the invariant -/

/-- the default calendar satisfies the invariant -/
theorem default_inv : Inv CompactCalendar.default := inv_default

/-- window invariant preserved by `insert` (all four branches), which does not panic -/
theorem insert_inv (c : CompactCalendar) (d : Date) (hc : Inv c) (hd : d.valid = true) :
    ∃ c' b, insert c d = .ok (c', b) ∧ Inv c' := by
  obtain ⟨c', e, h, _⟩ := insert_ok c d hc hd
  exact ⟨c', _, e, h⟩

/-- EVERY insertion history runs without panic and ends in an invariant calendar that represents
exactly the inserted dates -/
theorem history (ds : List Date) (hv : AllValid ds) :
    ∃ c, fromList ds = .ok c ∧ Inv c ∧ ∀ q, abs c q = decide (q ∈ ds) :=
  fromList_ok ds hv

/-- the members of an invariant calendar are valid dates; the window fits chrono's year range
(so none of the `i32` year computations can overflow and `i32::try_from(len)` cannot fail) -/
theorem inv_members_valid (c : CompactCalendar) (hc : Inv c) :
    (∀ q, abs c q = true → q.valid = true) ∧
    -262143 ≤ c.firstYear ∧ c.firstYear + c.years.length ≤ 262143 :=
  ⟨fun _ h => abs_valid hc h, hc.bounds⟩

/-! ### insert -/

/-- after `insert d`, the members are `d` and the former members -/
theorem insert_abs (c : CompactCalendar) (d : Date) (hc : Inv c) (hd : d.valid = true) :
    ∃ c' b, insert c d = .ok (c', b) ∧ ∀ q, abs c' q = true ↔ (q = d ∨ abs c q = true) := by
  obtain ⟨c', e, _, a⟩ := insert_ok c d hc hd
  exact ⟨c', _, e, fun q => by rw [a]; simp⟩

/-- `insert` reports whether the date was new -/
theorem insert_returns_new (c : CompactCalendar) (d : Date) (hc : Inv c) (hd : d.valid = true) :
    ∃ c', insert c d = .ok (c', !abs c d) := by
  obtain ⟨c', e, _, _⟩ := insert_ok c d hc hd
  exact ⟨c', e⟩

/-- … for histories: the flag returned by one more insertion is "not inserted before" -/
theorem insert_returns_new_history (ds : List Date) (d : Date) (hv : AllValid ds)
    (hd : d.valid = true) (c : CompactCalendar) (hc : fromList ds = .ok c) :
    ∃ c', insert c d = .ok (c', decide (d ∉ ds)) ∧ ∀ q, abs c' q = decide (q ∈ ds ++ [d]) := by
  obtain ⟨c0, e0, hinv, a0⟩ := history ds hv
  rw [hc] at e0; cases e0
  obtain ⟨c', e, _, a⟩ := insert_ok c d hinv hd
  refine ⟨c', ?_, ?_⟩
  · rw [e, a0]; simp
  · intro q; rw [a, a0]
    by_cases h : q = d <;> simp [h]

/-! ### contains -/

theorem contains_iff_abs (c : CompactCalendar) (q : Date) (hc : Inv c) (hq : q.valid = true) :
    contains c q = .ok (abs c q) := contains_ok c q hc hq

/-- `contains` agrees with membership in the history, for every valid query date -/
theorem contains_iff (ds : List Date) (q : Date) (hv : AllValid ds) (hq : q.valid = true)
    (c : CompactCalendar) (hc : fromList ds = .ok c) :
    contains c q = .ok (decide (q ∈ ds)) := by
  obtain ⟨c0, e0, hinv, a0⟩ := history ds hv
  rw [hc] at e0; cases e0
  rw [contains_ok c q hinv hq, a0]

/-! ### ordered iteration and count -/

/-- `iter` yields exactly the members, strictly increasing (invariant calendars) -/
theorem iter_sorted_exact_abs (c : CompactCalendar) (hc : Inv c) :
    ∃ l, collect (iter c) = .ok l ∧ l.Pairwise (fun a b => DateSet.lt a b = true) ∧
      ∀ q, q ∈ l ↔ abs c q = true := by
  obtain ⟨_, hb2⟩ := hc.bounds
  exact ⟨_, collect_iterFrom _ _ _ hc.allOk (by omega), sorted_datesFrom _ _, mem_datesFrom _ _⟩

/-- `iter` yields exactly the inserted dates, strictly increasing -/
theorem iter_sorted_exact (ds : List Date) (hv : AllValid ds)
    (c : CompactCalendar) (hc : fromList ds = .ok c) :
    ∃ l, collect (iter c) = .ok l ∧ l.Pairwise (fun a b => DateSet.lt a b = true) ∧
      ∀ q, q ∈ l ↔ q ∈ ds := by
  obtain ⟨c0, e0, hinv, a0⟩ := history ds hv
  rw [hc] at e0; cases e0
  obtain ⟨l, e, s, m⟩ := iter_sorted_exact_abs c hinv
  exact ⟨l, e, s, fun q => by rw [m, a0]; simp⟩

/-- the plain sorted set: strictly increasing, same members as the history -/
theorem spec_ofList (ds : List Date) :
    (DateSet.ofList ds).Pairwise (fun a b => DateSet.lt a b = true) ∧
    ∀ q, q ∈ DateSet.ofList ds ↔ q ∈ ds :=
  ⟨spec_sorted_ofList ds, spec_mem_ofList ds⟩

/-- `iter` agrees with the plain sorted set -/
theorem iter_eq_spec (ds : List Date) (hv : AllValid ds)
    (c : CompactCalendar) (hc : fromList ds = .ok c) :
    collect (iter c) = .ok (DateSet.ofList ds) := by
  obtain ⟨l, e, s, m⟩ := iter_sorted_exact ds hv c hc
  rw [e]
  congr 1
  apply sorted_ext (fun a b => DateSet.lt a b = true) lt_irrefl lt_asymm _ _ s (spec_sorted_ofList ds)
  intro x; rw [m, spec_mem_ofList]

/-- `count` = number of distinct inserted dates (length of the plain sorted set), no `u32` overflow -/
theorem count_eq (ds : List Date) (hv : AllValid ds)
    (c : CompactCalendar) (hc : fromList ds = .ok c) :
    count c = .ok (DateSet.count (DateSet.ofList ds)) := by
  obtain ⟨c0, e0, hinv, a0⟩ := history ds hv
  rw [hc] at e0; cases e0
  have h1 := count_ok c hinv
  have h2 := iter_eq_spec ds hv c hc
  obtain ⟨_, hb2⟩ := hinv.bounds
  unfold iter at h2
  rw [collect_iterFrom _ _ _ hinv.allOk (by omega)] at h2
  have h3 := Except.ok.inj h2
  rw [h1, h3]; rfl

/-- `count` = number of items `iter` yields (invariant calendars) -/
theorem count_eq_iter_length (c : CompactCalendar) (hc : Inv c) :
    ∃ l, collect (iter c) = .ok l ∧ count c = .ok l.length := by
  obtain ⟨_, hb2⟩ := hc.bounds
  exact ⟨_, collect_iterFrom _ _ _ hc.allOk (by omega), count_ok c hc⟩

/-! ### first_after -/

/-- `first_after q` (any valid `q`, inside or outside the stored year span): the result `x` is a
member, strictly greater than `q`, and no member lies strictly between -/
theorem firstAfter_some (ds : List Date) (q : Date) (hv : AllValid ds) (hq : q.valid = true)
    (c : CompactCalendar) (hc : fromList ds = .ok c) (x : Date) (hx : firstAfter c q = .ok (some x)) :
    x ∈ ds ∧ DateSet.lt q x = true ∧ ∀ z ∈ ds, DateSet.lt q z = true → DateSet.lt z x = false := by
  obtain ⟨c0, e0, hinv, a0⟩ := history ds hv
  rw [hc] at e0; cases e0
  obtain ⟨r, e, h⟩ := firstAfter_ok c q hinv hq
  rw [hx] at e; cases e
  obtain ⟨h1, h2, h3⟩ := h
  rw [a0] at h1
  refine ⟨by simpa using h1, h2, ?_⟩
  intro z hz
  exact h3 z (by rw [a0]; simpa using hz)

/-- `first_after q = None` iff no member is strictly greater than `q` -/
theorem firstAfter_none (ds : List Date) (q : Date) (hv : AllValid ds) (hq : q.valid = true)
    (c : CompactCalendar) (hc : fromList ds = .ok c) :
    firstAfter c q = .ok none ↔ ∀ z ∈ ds, DateSet.lt q z = false := by
  obtain ⟨c0, e0, hinv, a0⟩ := history ds hv
  rw [hc] at e0; cases e0
  obtain ⟨r, e, h⟩ := firstAfter_ok c q hinv hq
  rw [e]
  cases r with
  | none =>
    simp only [true_iff]
    intro z hz
    exact h z (by rw [a0]; simpa using hz)
  | some x =>
    obtain ⟨h1, h2, _⟩ := h
    rw [a0] at h1
    constructor
    · intro h; cases h
    · intro hall
      have := hall x (by simpa using h1)
      rw [this] at h2; cases h2

/-- `first_after` never panics on an invariant calendar and always returns the strictly next member
(`IsFirstAfter`: least member greater than the query, `none` iff there is none) -/
theorem firstAfter_total (c : CompactCalendar) (q : Date) (hc : Inv c) (hq : q.valid = true) :
    ∃ r, firstAfter c q = .ok r ∧ IsFirstAfter (abs c) q r := firstAfter_ok c q hc hq

/-- `first_after` agrees with the plain sorted set -/
theorem firstAfter_eq_spec (ds : List Date) (q : Date) (hv : AllValid ds) (hq : q.valid = true)
    (c : CompactCalendar) (hc : fromList ds = .ok c) :
    firstAfter c q = .ok (DateSet.firstAfter (DateSet.ofList ds) q) := by
  obtain ⟨c0, e0, hinv, a0⟩ := history ds hv
  rw [hc] at e0; cases e0
  obtain ⟨r, e, h⟩ := firstAfter_ok c q hinv hq
  rw [e]
  congr 1
  apply isFirstAfter_unique _ _ q _ r _ h (find_isFirstAfter q _ (spec_sorted_ofList ds))
  intro z
  rw [a0]
  simp [spec_mem_ofList]

/-! ### equality -/

/-- for invariant (= reachable) calendars, structural equality (the derived `PartialEq`) is set
equality; in particular equal sets force the same `first_year` and the same length -/
theorem eq_iff_abs_eq (c₁ c₂ : CompactCalendar) (h1 : Inv c₁) (h2 : Inv c₂) :
    c₁ = c₂ ↔ ∀ q, abs c₁ q = abs c₂ q :=
  ⟨fun e _ => by rw [e], eq_of_abs_eq c₁ c₂ h1 h2⟩

/-- two histories give equal calendars iff they insert the same set of dates
(any order, any multiplicity; both empty included) -/
theorem eq_iff_same_dates (ds₁ ds₂ : List Date) (hv1 : AllValid ds₁) (hv2 : AllValid ds₂)
    (c₁ c₂ : CompactCalendar) (hc1 : fromList ds₁ = .ok c₁) (hc2 : fromList ds₂ = .ok c₂) :
    c₁ = c₂ ↔ ∀ q, q ∈ ds₁ ↔ q ∈ ds₂ := by
  obtain ⟨d1, e1, i1, a1⟩ := history ds₁ hv1
  obtain ⟨d2, e2, i2, a2⟩ := history ds₂ hv2
  rw [hc1] at e1; cases e1
  rw [hc2] at e2; cases e2
  rw [eq_iff_abs_eq c₁ c₂ i1 i2]
  constructor
  · intro h q
    have := h q
    rw [a1, a2] at this
    simpa using this
  · intro h q
    rw [a1, a2]
    simp [h q]

/-! ### serialization -/

/-- `deserialize(serialize(c) ++ rest)` returns `c` and leaves exactly `rest` unread, for every
calendar value that exists in memory -/
theorem deserialize_serialize_append (c : CompactCalendar) (rest : List Nat) (h : Repr c) :
    deserialize (serialize c ++ rest) = some (c, rest) := roundtrip c rest h

/-- a stream of concatenated calendars is read back one by one (`readMany n` = `n` successive
calls of `deserialize` on the same reader) -/
theorem deserialize_stream (cs : List CompactCalendar) (rest : List Nat) (h : ∀ c ∈ cs, Repr c) :
    readMany cs.length (cs.flatMap serialize ++ rest) = some (cs, rest) :=
  readMany_roundtrip cs rest h

/-- every reachable calendar exists in memory (so the two theorems above apply to it) -/
theorem inv_repr (c : CompactCalendar) (hc : Inv c) : Repr c := hc.repr

/-- the round trip for histories, the way the property states it -/
theorem history_roundtrip (ds : List Date) (hv : AllValid ds) (rest : List Nat)
    (c : CompactCalendar) (hc : fromList ds = .ok c) :
    deserialize (serialize c ++ rest) = some (c, rest) := by
  obtain ⟨c0, e0, hinv, _⟩ := history ds hv
  rw [hc] at e0; cases e0
  exact roundtrip c rest hinv.repr

/-! ### non-vacuity: concrete histories meeting the hypothesis, with the interesting shapes:
any order, duplicates, years far apart, negative years, Feb 29, day 31, December -/

def sample : List Date :=
  [⟨2020, 2, 29⟩, ⟨-262143, 1, 1⟩, ⟨2020, 2, 29⟩, ⟨262142, 12, 31⟩, ⟨-44, 3, 15⟩, ⟨2000, 2, 29⟩,
   ⟨1999, 12, 31⟩, ⟨0, 2, 29⟩]

example : AllValid sample := by decide
example : ¬ AllValid [⟨1900, 2, 29⟩] := by decide     -- 1900 is not a leap year
example : ¬ AllValid [⟨262143, 1, 1⟩] := by decide    -- beyond chrono's MAX_YEAR
example : Inv CompactCalendar.default ∧ Repr CompactCalendar.default := by decide
/-- the invariant is not trivially true: a window whose first year record is empty violates it,
and such a value is unequal to the tight one although it represents the same set -/
example : ¬ Inv ⟨2019, [Year.default, Vector.replicate 12 1]⟩ ∧ Inv ⟨2020, [Vector.replicate 12 1]⟩ := by
  decide
example : Repr ⟨-2147483648, [Vector.replicate 12 4294967295]⟩ := by decide

end OH.Props.C15
