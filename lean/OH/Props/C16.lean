/-
C16 — the interval-size bound is a sound approximation.
Proved in full for any day level meeting `EnvOK` and EVERY bound `B` (negative, zero, `TimeDelta::MAX`
included) (`OH/Props/C02A.lean`), comparing `env` with the same day level without bound.  `…_partial`:
Layer B hypothesis `EnvOK (envOf ctx e)`; and the comparison is with `unbounded (envOf ctx e)`, which is
`envOf {ctx with bound := none} e` because the day level never reads the bound (`envOf_unbounded`, by `rfl`).
`hfit` in `C16_next_change_partial` is `B + 1 day ≤ TimeDelta::MAX` OR `t ≥ NaiveDateTime::MIN`: the second
alternative holds for every real instant (the model's instants are unbounded integers), so it is no
restriction on the property.  For `B < 0`: `next_change` is always `none` (`C16_negative_bound_partial`).
History: the original code hung for `B < −1 day` and panicked for `B > TimeDelta::MAX − 1 day`; repaired in
the repository ("fix: an interval-size bound below -1 day or close to TimeDelta::MAX must not hang or panic").
-/
import OH.Props.C02
namespace OH.Props.C16
open OH.Model OH.Model.Cal OH.Props.C02

/-- the day level does not depend on the bound -/
theorem envOf_unbounded (ctx : Ctx) (e : Expr) :
    envOf { ctx with bound := none } e = C02A.unbounded (envOf ctx e) := rfl

/-- `state` is unchanged: every bound, every instant -/
theorem C16_state_unchanged_partial {ctx : Ctx} {e : Expr} (ok : DayLevelOK ctx e) (t : Int) :
    state ctx e t = state { ctx with bound := none } e t :=
  C02A.bounded_state_unchanged ok t

theorem C16_next_change_partial {ctx : Ctx} {e : Expr} (ok : DayLevelOK ctx e) {B : Int}
    (hB : ctx.bound = some B) {t : Int} (hfit : B + nsPerDay ≤ deltaMax ∨ instMin ≤ t)
    {x : Option Int} (hx : nextChange { ctx with bound := none } e t = .ok x) :
    ∃ y, nextChange ctx e t = .ok y
      ∧ (y = x ∨ y = none)
      ∧ (∀ c, x = some c → c - t ≤ B - nsPerDay → y = x)
      ∧ (∀ c, x = some c → c - t > B → y = none)
      ∧ (x = none → y = none) :=
  C02A.bounded_nextChange ok hB hfit hx

/-- a negative bound: `next_change` is `none` at every instant -/
theorem C16_negative_bound_partial {ctx : Ctx} {e : Expr} (ok : DayLevelOK ctx e) {B : Int}
    (hB : ctx.bound = some B) (hneg : B < 0) (t : Int) : nextChange ctx e t = .ok none :=
  C02A.negative_bound_nextChange ok hB hneg t

/-- non-vacuity of the Layer B hypothesis (the bounded instance of Layer A is `C02A`'s `weekEnv` example) -/
example : DayLevelOK Ctx.default [] := envOK_nil

end OH.Props.C16
