/-
C16 — the interval-size bound is a sound approximation.
Proved in full for any day level meeting `EnvOK` and any bound `−1 day ≤ B ≤ TimeDelta::MAX − 1 day`
(`OH/Props/C02A.lean`), comparing `env` with the same day level without bound.  `…_partial`: Layer B
hypothesis `EnvOK (envOf ctx e)`; and the comparison is with `unbounded (envOf ctx e)`, which is
`envOf {ctx with bound := none} e` because the day level never reads the bound (`envOf_unbounded`, by `rfl`).
Outside that range of bounds the property is FALSE of the code: `bound_overflow_panics`
(B > TimeDelta::MAX − 1 day panics) and `bound_below_minus_one_day_diverges` (B < −1 day: endless stream).
-/
import OH.Props.C02
namespace OH.Props.C16
open OH.Model OH.Model.Cal OH.Props.C02

/-- the day level does not depend on the bound -/
theorem envOf_unbounded (ctx : Ctx) (e : Expr) :
    envOf { ctx with bound := none } e = C02A.unbounded (envOf ctx e) := rfl

theorem C16_state_unchanged_partial {ctx : Ctx} {e : Expr} (ok : DayLevelOK ctx e) {B : Int}
    (hB : ctx.bound = some B) (hlo : -nsPerDay ≤ B) (hhi : B + nsPerDay ≤ deltaMax)
    {t : Int} (hrep : t + nsPerMin ≤ instMax) :
    state ctx e t = state { ctx with bound := none } e t :=
  C02A.bounded_state_unchanged ok hB hlo hhi hrep

theorem C16_next_change_partial {ctx : Ctx} {e : Expr} (ok : DayLevelOK ctx e) {B : Int}
    (hB : ctx.bound = some B) (hlo : -nsPerDay ≤ B) (hhi : B + nsPerDay ≤ deltaMax)
    {t : Int} {x : Option Int} (hx : nextChange { ctx with bound := none } e t = .ok x) :
    ∃ y, nextChange ctx e t = .ok y
      ∧ (y = x ∨ y = none)
      ∧ (∀ c, x = some c → c - t ≤ B - nsPerDay → y = x)
      ∧ (∀ c, x = some c → c - t > B → y = none)
      ∧ (x = none → y = none) :=
  C02A.bounded_nextChange ok hB hlo hhi hx

/-- non-vacuity of the Layer B hypothesis (the bounded instance of Layer A is `C02A`'s `weekEnv` example) -/
example : DayLevelOK Ctx.default [] := envOK_nil

end OH.Props.C16
