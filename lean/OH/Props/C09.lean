/-
C09 — Time-zone contexts evaluate on local wall-clock time and map results back.

  "With a time-zone context, evaluating at an instant given in any zone equals evaluating the same
   expression without location at that instant's wall-clock time in the context zone.  Every
   returned instant is the context-zone instant whose wall-clock time is the naive result - the
   later one when that wall-clock time is ambiguous, the first valid instant after it when it does
   not exist - and returned interval bounds never go backwards in absolute time."

Model: `OH.Model.Tz` (a zone = initial offset + finite transition table; `naive`, `fromLocal`,
`datetime`, and the localized API written over the naive iterator of `OH.Model.Iter`).
Helper lemmas: `OH.Proofs.Tz`.  Inputs of the localized API are absolute instants, so "the zone in
which the input is expressed" does not exist in the model; that `DateTime<Tz>` values of other
zones are first converted (`with_timezone`) is checked by the correspondence suite (`tz.*` ops
build the input in a different zone).

Status of the clauses (details at each theorem), for the code of /repo e1e5204: `TzLocation::datetime`
takes `latest()` of the requested time when it exists; otherwise it steps forward minute by minute,
takes `earliest()` of the first time that exists and walks back second by second (with
`earliest()`) while the local time still exists.
* two hypotheses on the table, both decidable and evaluated by the driver on every table:
  `ZoneOK` (sorted, `|offset| < 1 day`, every span a minute longer than the jumps at its two ends
  together) and the weaker `ZoneOrdered` (sorted, local spans in order: neither their starts nor their
  ends go backwards, a span that starts with a forward jump lasts a minute) which allows a gap
  directly followed by a fold (`lisbon1992`: Europe/Lisbon 1992-09-27) — `ZoneOK.toOrdered`.
* `naive`/`datetime` laws on existing local times: every sorted table (stated for `ZoneOK`).
* "first valid instant after it": `FirstValidAfter z n T` (`T` shows a time after `n`, no time in
  between exists, no earlier instant shows a time at/after `n`; unique: `firstValidAfter_unique`).
  `datetime_gap_first_valid_ordered`: for every `ZoneOrdered` table with transitions on whole seconds
  (`WholeSeconds`, every chrono-tz table) and every whole-second `n`; in general
  `datetime_gap_ordered` gives the exact value `T + (n - b) mod 1 s`.  The `ZoneOK` forms
  (`datetime_gap`, `datetime_gap_first_valid`) add that the first valid time is shown only once.
  Before e1e5204 the `ZoneOrdered` forms were FALSE (`latest()` after a gap: one hour late in Lisbon,
  former finding class `zone-not-ok` = `gapLandsInFold`); witness `datetime_gap_then_fold_witness`.
* `datetime_mono` is still FALSE for arguments with different sub-second phases inside a gap
  (`datetime_mono_false`); true forms: `datetime_mono_aligned(_ordered)`, `datetime_mono_congr(_ordered)`.
* localized = naive evaluation (code of /repo dfe1ade): `state_localized` (purely naive);
  `iterRange_localized`: the naive stream with the spans the clock skips entirely dropped
  (`filter_drops_exactly_skipped`), the neighbours they separated merged, bounds mapped by `datetime`
  (`iterRange_bounds_mapped`); `nextChange_localized`: the end of the first range of that stream.
* no interval of the localized stream is empty: `localized_intervals_nonempty` (every `ZoneOrdered`
  table; former finding D16 of C02), adjacent kinds differ: `localized_adjacent_kinds_differ`;
  witness `D16_repaired_witness` (Paris 2024-03-31 `02:30-02:45`: 3 intervals).
* bounds never go backwards: `bounds_never_go_backwards_ordered`, FULL for `ZoneOrdered ∧ WholeSeconds`
  tables (`bounds_never_go_backwards` is its `ZoneOK` instance).
* Representability hypotheses `instMin ≤ n` appear because the walk back subtracts seconds
  (`NaiveDateTime - TimeDelta` panics below `NaiveDateTime::MIN`; unreachable: `datetime_no_panic`).
-/
import OH.Proofs.Tz
namespace OH.Props.C09
open OH.Model OH.Model.Tz OH.Proofs.Tz

/-- well-formed table: transitions strictly increasing, `|offset| < 86 400 s`, every span at least
a minute longer than the two offset jumps at its ends together (decidable: `zoneOK`) -/
def ZoneOK (z : Zone) : Prop := zoneOK z = true

/-- the local time `n` is shown by the zone's clock at some instant -/
def Valid (z : Zone) (n : Int) : Prop := ∃ u, naive z u = n

/-- every forward jump lands on a whole local minute (decidable: `gapsAligned`) -/
def GapMinuteAligned (z : Zone) : Prop := gapsAligned z = true

/-- the table ends at least a minute before `bound` (`DATE_END` or `NaiveDateTime::MAX`) -/
def EndsBefore (z : Zone) (bound : Int) : Prop := lastLocal z + nsPerMin ≤ bound

instance (z : Zone) : Decidable (ZoneOK z) := by unfold ZoneOK; infer_instance
instance (z : Zone) : Decidable (GapMinuteAligned z) := by unfold GapMinuteAligned; infer_instance
instance (z : Zone) (b : Int) : Decidable (EndsBefore z b) := by unfold EndsBefore; infer_instance

theorem ZoneOK.sorted {z : Zone} (h : ZoneOK z) : sorted z = true := by
  unfold ZoneOK zoneOK at h; simp only [Bool.and_eq_true] at h; exact h.1.1
theorem ZoneOK.spaced {z : Zone} (h : ZoneOK z) : spaced z = true := by
  unfold ZoneOK zoneOK at h; simp only [Bool.and_eq_true] at h; exact h.2

/-- the weaker well-formedness: transitions strictly increasing and local spans in order — the local
starts and the local ends of consecutive spans never go backwards and a span that starts with a
forward jump lasts at least a minute (decidable: `zoneOrdered`).  Unlike `ZoneOK` it allows a gap
directly followed by a fold (the first valid time after the gap is then ambiguous), two folds or a
fold and a gap within the hour: `lisbon1992` below. -/
def ZoneOrdered (z : Zone) : Prop := zoneOrdered z = true
instance (z : Zone) : Decidable (ZoneOrdered z) := by unfold ZoneOrdered; infer_instance

theorem ZoneOrdered.sorted {z : Zone} (h : ZoneOrdered z) : sorted z = true := by
  unfold ZoneOrdered zoneOrdered at h; simp only [Bool.and_eq_true] at h; exact h.1
theorem ZoneOrdered.ordered {z : Zone} (h : ZoneOrdered z) : spansOrdered z = true := by
  unfold ZoneOrdered zoneOrdered at h; simp only [Bool.and_eq_true] at h; exact h.2

/-- every `ZoneOK` table is `ZoneOrdered` -/
theorem ZoneOK.toOrdered {z : Zone} (h : ZoneOK z) : ZoneOrdered z := by
  unfold ZoneOrdered zoneOrdered
  rw [h.sorted, spansOrdered_of_spaced h.spaced]
  rfl

theorem valid_iff_latest_of_sorted {z : Zone} (hs : sorted z = true) (n : Int) :
    Valid z n ↔ latest? z n ≠ none := by
  unfold Valid
  rw [Ne, latest_none_iff hs]
  constructor
  · intro ⟨u, hu⟩ h; exact h u hu
  · intro h
    apply Classical.byContradiction
    intro hc
    exact h (fun u hu => hc ⟨u, hu⟩)

theorem valid_iff_latest {z : Zone} (hz : ZoneOK z) (n : Int) : Valid z n ↔ latest? z n ≠ none :=
  valid_iff_latest_of_sorted hz.sorted n

/-! ## the zone model: `fromLocal` is chrono's `from_local_datetime` -/

/-- `fromLocal z n` lists exactly the instants whose wall-clock time is `n` … -/
theorem mem_fromLocal_iff {z : Zone} (hz : ZoneOK z) (n u : Int) :
    u ∈ fromLocal z n ↔ naive z u = n := mem_fromLocal hz.sorted n u

/-- … in increasing order (so `earliest`/`latest` are its head and last element) -/
theorem fromLocal_increasing {z : Zone} (hz : ZoneOK z) (n : Int) :
    (fromLocal z n).Pairwise (· < ·) := fromLocal_pairwise hz.sorted n

/-- a local time is shown at 0, 1 or 2 instants (`LocalResult::{None, Single, Ambiguous}`) -/
theorem fromLocal_at_most_two {z : Zone} (hz : ZoneOK z) (n : Int) : (fromLocal z n).length ≤ 2 :=
  fromLocal_length_le_two hz.sorted hz.spaced n

/-! ## `datetime` on existing local times -/

/-- if `n` is a valid unambiguous local time, `datetime` returns its instant and
`naive (datetime n) = n` -/
theorem naive_datetime_of_valid {z : Zone} (hz : ZoneOK z) {n u : Int}
    (huniq : ∀ u', naive z u' = n ↔ u' = u) : datetime z n = .ok u ∧ naive z u = n := by
  have hu : naive z u = n := (huniq u).mpr rfl
  have hv : latest? z n ≠ none := (valid_iff_latest hz n).mp ⟨u, hu⟩
  cases hl : latest? z n with
  | none => exact absurd hl hv
  | some u' =>
    have := (huniq u').mp (latest_spec hz.sorted hl).1
    subst this
    exact ⟨datetime_of_some hl, hu⟩

/-- for every existing local time (ambiguous or not) the result reads `n` and is the LATEST such
instant -/
theorem datetime_latest {z : Zone} (hz : ZoneOK z) {n : Int} (hv : Valid z n) :
    ∃ u, datetime z n = .ok u ∧ naive z u = n ∧ ∀ u', naive z u' = n → u' ≤ u := by
  have hv' := (valid_iff_latest hz n).mp hv
  cases hl : latest? z n with
  | none => exact absurd hl hv'
  | some u =>
    obtain ⟨h1, h2⟩ := latest_spec hz.sorted hl
    exact ⟨u, datetime_of_some hl, h1, h2⟩

/-- when two instants `u₁ < u₂` show the same wall-clock time, the result is not the earlier one -/
theorem datetime_picks_later_when_ambiguous {z : Zone} (hz : ZoneOK z) {n u₁ u₂ : Int}
    (h₁ : naive z u₁ = n) (h₂ : naive z u₂ = n) (hlt : u₁ < u₂) :
    ∃ u, datetime z n = .ok u ∧ naive z u = n ∧ u₁ < u ∧ u₂ ≤ u := by
  obtain ⟨u, hd, hn, hmax⟩ := datetime_latest hz ⟨u₁, h₁⟩
  have := hmax u₂ h₂
  exact ⟨u, hd, hn, by omega, this⟩

/-! ## `datetime` on local times that do not exist -/

/-- transitions on whole seconds (decidable: `secondsAligned`; true of every chrono-tz table) -/
def WholeSeconds (z : Zone) : Prop := secondsAligned z = true
instance (z : Zone) : Decidable (WholeSeconds z) := by unfold WholeSeconds; infer_instance

/-- "the first valid instant after" a local time `n` that does not exist: the clock at `T` shows a
time after `n`, no local time from `n` up to that time exists, and no instant before `T` shows a time
at/after `n`.  (So the time shown at `T` is the smallest existing local time after `n`, and `T` is
the first instant showing it — also when it is shown again after a fold.) -/
def FirstValidAfter (z : Zone) (n T : Int) : Prop :=
  n < naive z T ∧ (∀ m, n ≤ m → m < naive z T → ¬ Valid z m) ∧ (∀ u, n ≤ naive z u → T ≤ u)

/-- there is at most one such instant -/
theorem firstValidAfter_unique {z : Zone} {n T T' : Int} (h : FirstValidAfter z n T)
    (h' : FirstValidAfter z n T') : T = T' := by
  have h1 := h.2.2 T' (Int.le_of_lt h'.1)
  have h2 := h'.2.2 T (Int.le_of_lt h.1)
  omega

/-- `n` does not exist, table merely `ZoneOrdered` (a fold may follow the gap directly): `n` is
skipped by a forward jump at instant `T`, landing on local time `b`.  No local time in `[n, b)`
exists, `b` is shown at `T` and not before, every earlier instant shows a time before the gap and
every later one a time at/after `b` — and `datetime` (minute loop, `earliest()`, walk back by
seconds) returns `T + (n - b) mod 1 s`: `T` itself whenever `n` and `b` are whole seconds, otherwise
`T` plus the sub-second phase. -/
theorem datetime_gap_ordered {z : Zone} (hz : ZoneOrdered z) (hend : EndsBefore z instMax) {n : Int}
    (hmin : instMin ≤ n) (hn : ¬ Valid z n) :
    ∃ T a b, gapOf z n = some (T, a, b) ∧ a ≤ n ∧ n < b ∧
      (∀ m, n ≤ m → m < b → ¬ Valid z m) ∧
      naive z T = b ∧ (∀ u, naive z u = b → T ≤ u) ∧
      (∀ u, u < T → naive z u < a) ∧ (∀ u, T ≤ u → b ≤ naive z u) ∧
      datetime z n = .ok (T + (n - b) % nsPerSec) ∧
      0 ≤ (n - b) % nsPerSec ∧ (n - b) % nsPerSec < nsPerSec := by
  have hl : latest? z n = none := by
    apply Classical.byContradiction
    intro hc
    exact hn ((valid_iff_latest_of_sorted hz.sorted n).mpr hc)
  obtain ⟨T, a, b, g1, g2, g3, g4, g5, _, g6⟩ := datetime_gap_core hz.sorted hz.ordered hl hend hmin
  have hT := earliest_spec hz.sorted (g5 0 (by omega) (by simp [nsPerMin]))
  simp only [Int.add_zero] at hT
  refine ⟨T, a, b, g1, g2, g3, ?_, hT.1, hT.2, ?_, ?_, g6, emod_sec_nonneg _, emod_sec_lt _⟩
  · intro m h1 h2 hv
    exact (valid_iff_latest_of_sorted hz.sorted m).mp hv (g4 m h1 h2)
  · intro u hu
    exact gap_below hz.sorted hz.ordered g1 hu
  · intro u hu
    exact gap_above hz.sorted hz.ordered g1 hu

/-- the class predicate's gap test is exact for `ZoneOrdered` tables -/
theorem gapOf_isSome_iff_not_valid_ordered {z : Zone} (hz : ZoneOrdered z) (n : Int) :
    (gapOf z n).isSome = true ↔ ¬ Valid z n := by
  rw [gapOf_isSome_iff hz.sorted hz.ordered, valid_iff_latest_of_sorted hz.sorted]
  simp

/-- the run-time oracle's reading of "first valid instant" (`gapOf`, `OH/Driver/Tz.lean`) is the
definition: the forward jump `gapOf z n` finds is the first valid instant after `n` -/
theorem firstValidAfter_of_gapOf {z : Zone} (hz : ZoneOrdered z) {n T a b : Int}
    (hg : gapOf z n = some (T, a, b)) : FirstValidAfter z n T ∧ naive z T = b := by
  have hl : latest? z n = none := (gapOf_isSome_iff hz.sorted hz.ordered n).mp (by rw [hg]; rfl)
  obtain ⟨T', a', b', g1, g2, g3, _, g5, g6, _⟩ := gap_of_none hz.sorted hz.ordered hl
  rw [hg] at g1
  cases g1
  have hT := (earliest_spec hz.sorted (g6 0 (by omega) (by simp [nsPerMin]))).1
  simp only [Int.add_zero] at hT
  refine ⟨⟨by omega, ?_, ?_⟩, hT⟩
  · intro m h1 h2 hv
    rw [hT] at h2
    exact (valid_iff_latest_of_sorted hz.sorted m).mp hv (g5 m h1 h2)
  · intro u hu
    exact gap_le_valid hz.sorted hz.ordered hg g2 hu rfl

/-- the value of `datetime` on the class `gapOf z n = some (T, a, b)`, `ZoneOrdered` tables -/
theorem datetime_gap_value_ordered {z : Zone} (hz : ZoneOrdered z) (hend : EndsBefore z instMax)
    {n T a b : Int} (hmin : instMin ≤ n) (hg : gapOf z n = some (T, a, b)) :
    datetime z n = .ok (T + (n - b) % nsPerSec) := by
  have hn : ¬ Valid z n := (gapOf_isSome_iff_not_valid_ordered hz n).mp (by rw [hg]; rfl)
  obtain ⟨T', a', b', g1, _, _, _, _, _, _, _, g7, _, _⟩ := datetime_gap_ordered hz hend hmin hn
  rw [hg] at g1
  cases g1
  exact g7

/-- **the full clause — "the first valid instant after it"** — for every whole-second `n` in a
whole-second `ZoneOrdered` table, in particular when clocks are set back right after the gap
(Europe/Lisbon 1992: the first valid time is then ambiguous and the FIRST of
its two instants is returned).  False before /repo e1e5204 (`latest()`: one hour late). -/
theorem datetime_gap_first_valid_ordered {z : Zone} (hz : ZoneOrdered z) (hsec : WholeSeconds z)
    (hend : EndsBefore z instMax) {n : Int} (hmin : instMin ≤ n) (hn : ¬ Valid z n)
    (hws : n % nsPerSec = 0) :
    ∃ T, FirstValidAfter z n T ∧ datetime z n = .ok T := by
  obtain ⟨⟨T, a, b⟩, hg⟩ := Option.isSome_iff_exists.mp ((gapOf_isSome_iff_not_valid_ordered hz n).mpr hn)
  refine ⟨T, (firstValidAfter_of_gapOf hz hg).1, ?_⟩
  have hb : b % nsPerSec = 0 := by
    apply gap_end_seconds (gapOf_eq z n ▸ hg)
    have h := hsec
    unfold WholeSeconds secondsAligned at h
    simp only [List.all_eq_true, decide_eq_true_eq] at h
    exact h
  have : (n - b) % nsPerSec = 0 := by simp only [nsPerSec] at *; omega
  rw [datetime_gap_value_ordered hz hend hmin hg, this, Int.add_zero]

/-- `n` does not exist, `ZoneOK` table: it is skipped by a forward jump at instant `T`, landing on
local time `b`.  No local time in `[n, b)` exists, `b` is shown at `T` only — so `T` is the first valid
instant after `n` — and `datetime` (minute loop + walk back by seconds) returns `T + (n - b) mod 1 s`:
`T` itself whenever `n` and `b` are whole seconds, otherwise `T` plus the sub-second phase. -/
theorem datetime_gap {z : Zone} (hz : ZoneOK z) (hend : EndsBefore z instMax) {n : Int}
    (hmin : instMin ≤ n) (hn : ¬ Valid z n) :
    ∃ T a b, gapOf z n = some (T, a, b) ∧ a ≤ n ∧ n < b ∧
      (∀ m, n ≤ m → m < b → ¬ Valid z m) ∧
      naive z T = b ∧ (∀ u, naive z u = b → u = T) ∧
      datetime z n = .ok (T + (n - b) % nsPerSec) ∧
      0 ≤ (n - b) % nsPerSec ∧ (n - b) % nsPerSec < nsPerSec := by
  have hl : latest? z n = none := by
    apply Classical.byContradiction
    intro hc
    exact hn ((valid_iff_latest hz n).mpr hc)
  obtain ⟨T, a, b, g1, g2, g3, g4, g5, g5', g6⟩ :=
    datetime_gap_core hz.sorted hz.toOrdered.ordered hl hend hmin
  refine ⟨T, a, b, g1, g2, g3, ?_, ?_, ?_, g6, emod_sec_nonneg _, emod_sec_lt _⟩
  · intro m h1 h2 hv
    exact (valid_iff_latest hz m).mp hv (g4 m h1 h2)
  · have := g5 0 (by omega) (by simp [nsPerMin])
    simp only [Int.add_zero] at this
    exact (earliest_spec hz.sorted this).1
  · intro u hu
    have := g5' hz.spaced 0 (by omega) (by simp [nsPerMin])
    simp only [Int.add_zero] at this
    have hm := (mem_fromLocal hz.sorted b u).mpr hu
    rw [this] at hm
    simpa using hm

/-- the value of `datetime` on the class `gapOf z n = some (T, a, b)` -/
theorem datetime_gap_value {z : Zone} (hz : ZoneOK z) (hend : EndsBefore z instMax) {n T a b : Int}
    (hmin : instMin ≤ n) (hg : gapOf z n = some (T, a, b)) :
    datetime z n = .ok (T + (n - b) % nsPerSec) :=
  datetime_gap_value_ordered hz.toOrdered hend hmin hg

/-- the full clause — "the first valid instant after it" — for every whole-second `n` in a
whole-second table: no alignment of the gap on the minute grid is needed any more -/
theorem datetime_gap_first_valid {z : Zone} (hz : ZoneOK z) (hsec : WholeSeconds z)
    (hend : EndsBefore z instMax) {n : Int} (hmin : instMin ≤ n) (hn : ¬ Valid z n)
    (hws : n % nsPerSec = 0) :
    ∃ T a b, gapOf z n = some (T, a, b) ∧ naive z T = b ∧ (∀ m, n ≤ m → m < b → ¬ Valid z m) ∧
      datetime z n = .ok T := by
  obtain ⟨T, a, b, g1, _, _, g4, g5, _, g7, _, _⟩ := datetime_gap hz hend hmin hn
  refine ⟨T, a, b, g1, g5, g4, ?_⟩
  have hb : b % nsPerSec = 0 := by
    apply gap_end_seconds (gapOf_eq z n ▸ g1)
    have h := hsec
    unfold WholeSeconds secondsAligned at h
    simp only [List.all_eq_true, decide_eq_true_eq] at h
    exact h
  have : (n - b) % nsPerSec = 0 := by simp only [nsPerSec] at *; omega
  rw [g7, this, Int.add_zero]

/-! ### witnesses: tables of the installed database (tzdb 2025a) -/

/-- Europe/Paris around 2024: +1 h, +2 h from 2024-03-31 01:00 UTC, +1 h from 2024-10-27 01:00 UTC -/
def paris2024 : Zone := ⟨3600, [(63847530000000000000, 7200), (63865674000000000000, 3600)]⟩

/-- Africa/Monrovia around 1972: -0:44:30, then UTC from 1972-01-07 00:44:30 UTC -/
def monrovia1972 : Zone := ⟨-2670, [(62199276270000000000, 0)]⟩

/-- Europe/Lisbon around 1992 (Portugal moved from WET/WEST to CET/CEST): +0 h; +1 h from
1992-03-29 01:00 UTC; +2 h from 1992-09-27 00:00 UTC (a gap: 01:00–02:00 local is skipped);
+1 h again from 1992-09-27 01:00 UTC (a fold: 02:00–03:00 local is shown twice — the whole hour
after the gap); +2 h from 1993-03-28 01:00 UTC -/
def lisbon1992 : Zone :=
  ⟨0, [(62837514000000000000, 3600), (62853235200000000000, 7200), (62853238800000000000, 3600),
       (62868963600000000000, 7200)]⟩

example : ZoneOK paris2024 := by decide
example : WholeSeconds paris2024 := by decide
example : EndsBefore paris2024 instEnd := by decide
example : ZoneOK monrovia1972 := by decide
example : WholeSeconds monrovia1972 := by decide
example : ¬ GapMinuteAligned monrovia1972 := by decide

example : ¬ ZoneOK lisbon1992 := by decide
example : ZoneOrdered lisbon1992 := by decide
example : ZoneOrdered paris2024 := by decide
example : WholeSeconds lisbon1992 := by decide
example : EndsBefore lisbon1992 instEnd := by decide
/-- the first valid time after the gap, 02:00, is shown at 00:00Z and again at 01:00Z -/
example : fromLocal lisbon1992 62853242400000000000 = [62853235200000000000, 62853238800000000000] := by
  decide
/-- the former finding class `zone-not-ok` is not empty there -/
example : gapLandsInFold lisbon1992 62853238800000000000 = true := by decide

/-- non-vacuity of the `ZoneOrdered` theorems where `ZoneOK` fails — the witness of the former
finding `zone-not-ok` (`tz.datetime Europe/Lisbon 727468:3600000000000`): 1992-09-27 01:00 in Lisbon
does not exist; `datetime` answers 00:00 UTC, the first valid instant (02:00 +02; it answered
01:00 UTC = 02:00 +01 before /repo e1e5204); with a sub-second phase the phase is kept; 01:30 likewise;
the ambiguous 02:00 itself, when REQUESTED, is still mapped to its later instant 01:00 UTC -/
theorem datetime_gap_then_fold_witness :
    datetime lisbon1992 62853238800000000000 = .ok 62853235200000000000 ∧
    FirstValidAfter lisbon1992 62853238800000000000 62853235200000000000 ∧
    datetime lisbon1992 62853238800000000001 = .ok 62853235200000000001 ∧
    datetime lisbon1992 62853240600000000000 = .ok 62853235200000000000 ∧
    datetime lisbon1992 62853242400000000000 = .ok 62853238800000000000 := by
  refine ⟨?_, ?_, ?_, ?_, ?_⟩
  · exact datetime_gap_value_ordered (z := lisbon1992) (by decide) (by decide) (by decide)
      (by decide : gapOf lisbon1992 62853238800000000000 =
        some (62853235200000000000, 62853238800000000000, 62853242400000000000))
  · exact (firstValidAfter_of_gapOf (z := lisbon1992) (by decide)
      (by decide : gapOf lisbon1992 62853238800000000000 =
        some (62853235200000000000, 62853238800000000000, 62853242400000000000))).1
  · exact datetime_gap_value_ordered (z := lisbon1992) (by decide) (by decide) (by decide)
      (by decide : gapOf lisbon1992 62853238800000000001 =
        some (62853235200000000000, 62853238800000000000, 62853242400000000000))
  · exact datetime_gap_value_ordered (z := lisbon1992) (by decide) (by decide) (by decide)
      (by decide : gapOf lisbon1992 62853240600000000000 =
        some (62853235200000000000, 62853238800000000000, 62853242400000000000))
  · exact datetime_of_some (by decide)

/-- 1972-01-07 00:00 in Monrovia does not exist; the gap ends at 00:44:30 (off the minute grid);
`datetime` now answers the first valid instant 00:44:30 UTC (it answered 00:45:00 UTC before the
walk back was added) -/
theorem datetime_gap_unaligned_witness :
    datetime monrovia1972 62199273600000000000 = .ok 62199276270000000000 :=
  datetime_gap_value (z := monrovia1972) (by decide) (by decide) (by decide)
    (by decide : gapOf monrovia1972 62199273600000000000 =
      some (62199276270000000000, 62199273600000000000, 62199276270000000000))

/-! ## `datetime_mono` -/

/-- `n ≤ n' → datetime n ≤ datetime n'` is still FALSE for arguments with different sub-second
phases inside a gap: in Paris on 2024-03-31, `02:58:59.9` is mapped to `03:00:00.9 +02` and the later
`02:59:00.0` to `03:00:00.0 +02` -/
theorem datetime_mono_false :
    ∃ (z : Zone) (n n' u u' : Int), ZoneOK z ∧ WholeSeconds z ∧ n ≤ n' ∧
      datetime z n = .ok u ∧ datetime z n' = .ok u' ∧ u' < u := by
  refine ⟨paris2024, 63847537139900000000, 63847537140000000000,
    63847530000900000000, 63847530000000000000, by decide, by decide, by decide, ?_, ?_, by decide⟩
  · exact datetime_gap_value (z := paris2024) (by decide) (by decide) (by decide)
      (by decide : gapOf paris2024 63847537139900000000 =
        some (63847530000000000000, 63847533600000000000, 63847537200000000000))
  · exact datetime_gap_value (z := paris2024) (by decide) (by decide) (by decide)
      (by decide : gapOf paris2024 63847537140000000000 =
        some (63847530000000000000, 63847533600000000000, 63847537200000000000))

/-- true form 1 (what the evaluator needs): the smaller argument exists or is a whole second
(every bound the evaluator produces is a whole minute or an existing local time); `ZoneOrdered`
tables (a fold may follow a gap directly) -/
theorem datetime_mono_aligned_ordered {z : Zone} (hz : ZoneOrdered z) (hsec : WholeSeconds z)
    (hend : EndsBefore z instMax) {n n' u u' : Int} (hmin : instMin ≤ n) (hle : n ≤ n')
    (hn : n % nsPerSec = 0 ∨ Valid z n)
    (hu : datetime z n = .ok u) (hu' : datetime z n' = .ok u') : u ≤ u' :=
  OH.Proofs.Tz.datetime_mono_aligned hz.sorted hz.ordered hsec hend hmin hle
    (hn.imp id (valid_iff_latest_of_sorted hz.sorted n).mp) hu hu'

/-- true form 2: both arguments have the same phase within the second (any `ZoneOrdered` zone) -/
theorem datetime_mono_congr_ordered {z : Zone} (hz : ZoneOrdered z) (hend : EndsBefore z instMax)
    {n n' u u' : Int} (hmin : instMin ≤ n) (hle : n ≤ n') (hc : (n' - n) % nsPerSec = 0)
    (hu : datetime z n = .ok u) (hu' : datetime z n' = .ok u') : u ≤ u' :=
  OH.Proofs.Tz.datetime_mono_congr hz.sorted hz.ordered hend hmin hle hc hu hu'

/-- true form 1 for `ZoneOK` tables -/
theorem datetime_mono_aligned {z : Zone} (hz : ZoneOK z) (hsec : WholeSeconds z)
    (hend : EndsBefore z instMax) {n n' u u' : Int} (hmin : instMin ≤ n) (hle : n ≤ n')
    (hn : n % nsPerSec = 0 ∨ Valid z n)
    (hu : datetime z n = .ok u) (hu' : datetime z n' = .ok u') : u ≤ u' :=
  datetime_mono_aligned_ordered hz.toOrdered hsec hend hmin hle hn hu hu'

/-- true form 2: both arguments have the same phase within the second (any `ZoneOK` zone) -/
theorem datetime_mono_congr {z : Zone} (hz : ZoneOK z) (hend : EndsBefore z instMax)
    {n n' u u' : Int} (hmin : instMin ≤ n) (hle : n ≤ n') (hc : (n' - n) % nsPerSec = 0)
    (hu : datetime z n = .ok u) (hu' : datetime z n' = .ok u') : u ≤ u' :=
  datetime_mono_congr_ordered hz.toOrdered hend hmin hle hc hu hu'

/-- on existing local times `datetime` is strictly increasing -/
theorem datetime_strictMono_valid {z : Zone} (hz : ZoneOK z) {n n' u u' : Int} (hlt : n < n')
    (hv : Valid z n) (hv' : Valid z n')
    (hu : datetime z n = .ok u) (hu' : datetime z n' = .ok u') : u < u' := by
  have h1 := (valid_iff_latest hz n).mp hv
  have h2 := (valid_iff_latest hz n').mp hv'
  cases hl : latest? z n with
  | none => exact absurd hl h1
  | some a =>
    cases hl' : latest? z n' with
    | none => exact absurd hl' h2
    | some b =>
      rw [datetime_of_some hl] at hu
      rw [datetime_of_some hl'] at hu'
      cases hu; cases hu'
      exact latest_strictMono hz.sorted hz.toOrdered.ordered hlt hl hl'

/-! ## panic freedom of the loop -/

/-- neither `expect("no valid datetime for time zone")` nor the `naive -= 1 s` of the walk back can
panic for a representable `n` (no `ZoneOK` needed) -/
theorem datetime_no_panic {z : Zone} (hend : EndsBefore z instMax) {n : Int}
    (hlo : instMin ≤ n) (hn : n ≤ instMax) :
    ∃ u, datetime z n = .ok u := OH.Proofs.Tz.datetime_no_panic hend n hlo hn

/-- the loop makes at most 2·1440 steps: a gap is shorter than two days because
`|offset| < 86 400 s` (a fuel of 2880 would suffice; the model uses the measure `lastLocal z - n`) -/
theorem datetime_steps_le_2880 {z : Zone} (hz : ZoneOK z) {n : Int} (hn : ¬ Valid z n) :
    ∃ k : Nat, k ≤ 2880 ∧ (∀ j : Nat, j < k → ¬ Valid z (n + j * nsPerMin)) ∧
      Valid z (n + k * nsPerMin) := by
  have hl : latest? z n = none := by
    apply Classical.byContradiction
    intro hc
    exact hn ((valid_iff_latest hz n).mpr hc)
  have hb : offsetsBounded z = true := by
    have h := hz
    unfold ZoneOK zoneOK at h; simp only [Bool.and_eq_true] at h; exact h.1.2
  obtain ⟨k, h1, h2, h3⟩ := datetime_steps_le hz.sorted hz.toOrdered.ordered hb hl
  refine ⟨k, h1, ?_, (valid_iff_latest hz _).mpr h3⟩
  intro j hj hv
  exact (valid_iff_latest hz _).mp hv (h2 j hj)

/-! ## localized evaluation = naive evaluation at the wall-clock time

`env` is any day level (`envOf ctx e` for an expression); `stateG`/`nextChangeG`/`iterRangeG`
(`OH/Model/Iter.lean`) are the `NoLocation` API over it. -/

example (ctx : Ctx) (e : Expr) (t : Int) : stateG (envOf ctx e) t = state ctx e t := rfl
example (ctx : Ctx) (e : Expr) (t : Int) : nextChangeG (envOf ctx e) t = nextChange ctx e t := rfl
example (ctx : Ctx) (e : Expr) (f t : Int) : iterRangeG (envOf ctx e) f t = iterRangeNaive ctx e f t := rfl

/-- `iter_range` (code of /repo dfe1ade): the naive iteration between the wall-clock times of the
bounds; the spans the clock skips entirely are dropped (`filterRanges`), the neighbours they separated
are merged (`mergeRanges`), then each bound is mapped by `datetime` (`mapIntervals`):
`localizeRanges z l = filterRanges z l >>= fun fl => mapIntervals z (mergeRanges fl)` -/
theorem iterRange_localized {env : Env} {z : Zone} {f t : Int}
    (hf : instMin ≤ naive z f ∧ naive z f ≤ instMax) (ht : instMin ≤ naive z t ∧ naive z t ≤ instMax) :
    iterRangeTzG env z f t =
      match iterRangeG env (naive z f) (naive z t) with
      | .error p => .error p
      | .ok l => localizeRanges z l := by
  unfold iterRangeTzG
  rw [naiveChecked_ok hf.1 hf.2, naiveChecked_ok ht.1 ht.2]
  simp only [iterRangeG_clamp]
  cases iterRangeG env (naive z f) (naive z t) <;> rfl

example (z : Zone) (l : List Interval) :
    localizeRanges z l = (match filterRanges z l with
      | .error p => .error p
      | .ok fl => mapIntervals z (mergeRanges fl)) := rfl

/-- … every returned interval is a group of naive intervals `a … b` of one kind, all of which passed
the filter: it starts at `datetime a.start`, stops at `datetime b.stop`, has their kind and the
comments of `a` -/
theorem iterRange_bounds_mapped {z : Zone} {l out : List Interval} (h : localizeRanges z l = .ok out) :
    ∀ y ∈ out, ∃ a ∈ l, ∃ b ∈ l, keepRange z a = .ok true ∧ keepRange z b = .ok true ∧
      datetime z a.start = .ok y.start ∧ datetime z b.stop = .ok y.stop ∧
      y.kind = a.kind ∧ b.kind = a.kind ∧ y.comments = a.comments := by
  intro y hy
  unfold localizeRanges at h
  split at h
  · cases h
  · rename_i fl hfl
    obtain ⟨hsub, hkeep⟩ := filterRanges_spec hfl
    obtain ⟨c, hc, hm⟩ := mapIntervals_mem h y hy
    obtain ⟨m1, m2, m3, m4⟩ := mapInterval_spec hm
    obtain ⟨a, ha, b, hb, q1, q2, q3, q4, q5, _⟩ := mergeRanges_mem c hc
    refine ⟨a, hsub.subset ha, b, hsub.subset hb, hkeep a ha, hkeep b hb, ?_, ?_, ?_, q4, ?_⟩
    · rw [← q1]; exact m1
    · rw [← q2]; exact m2
    · rw [m3, q3]
    · rw [m4, q5]

/-- "the clock skips the whole span": no local time in `[a, b)` exists -/
def Skipped (z : Zone) (a b : Int) : Prop := ∀ m, a ≤ m → m < b → ¬ Valid z m

/-- the oracle's predicate `localSpanInGap` (the class predicate of the former finding D16) is the
definition -/
theorem localSpanInGap_iff_skipped {z : Zone} (hz : ZoneOrdered z) (a b : Int) :
    localSpanInGap z a b = true ↔ a < b ∧ Skipped z a b := by
  rw [localSpanInGap_iff hz.sorted hz.ordered]
  unfold Skipped
  constructor
  · intro ⟨h1, h2⟩
    exact ⟨h1, fun m m1 m2 hv => (valid_iff_latest_of_sorted hz.sorted m).mp hv (h2 m m1 m2)⟩
  · intro ⟨h1, h2⟩
    refine ⟨h1, fun m m1 m2 => ?_⟩
    apply Classical.byContradiction
    intro hc
    exact h2 m m1 m2 ((valid_iff_latest_of_sorted hz.sorted m).mpr hc)

/-- **what the filter drops**: a non-empty naive span whose start is a whole second or an existing
local time (every bound the evaluator produces) is dropped iff the clock skips all of it -/
theorem filter_drops_exactly_skipped {z : Zone} (hz : ZoneOrdered z) (hsec : WholeSeconds z)
    (hend : EndsBefore z instMax) {iv : Interval} (hmin : instMin ≤ iv.start) (hle : iv.start ≤ instMax)
    (hne : iv.start < iv.stop) (hws : iv.start % nsPerSec = 0 ∨ Valid z iv.start) :
    ∃ k, keepRange z iv = .ok k ∧ (k = false ↔ Skipped z iv.start iv.stop) := by
  refine ⟨_, keepRange_eq hz.sorted hz.ordered hsec hend hmin hle hne
    (hws.imp id (valid_iff_latest_of_sorted hz.sorted _).mp), ?_⟩
  have := localSpanInGap_iff_skipped hz iv.start iv.stop
  cases hk : localSpanInGap z iv.start iv.stop with
  | true => simp only [Bool.not_true, true_iff]; exact (this.mp hk).2
  | false =>
    simp only [Bool.not_false, Bool.true_eq_false, false_iff]
    intro hsk
    rw [this.mpr ⟨hne, hsk⟩] at hk
    cases hk

/-- **no interval of the localized stream is empty** (`start < stop` as instants), for every
`ZoneOrdered` table — the clause of C02 "intervals are non-empty" in a zone context (former finding
D16).  The naive stream may be anything whose starts are representable. -/
theorem localized_intervals_nonempty {z : Zone} (hz : ZoneOrdered z) (hend : EndsBefore z instMax)
    {l out : List Interval} (hrep : ∀ iv ∈ l, instMin ≤ iv.start ∧ iv.start ≤ instMax)
    (h : localizeRanges z l = .ok out) : ∀ y ∈ out, y.start < y.stop := by
  intro y hy
  unfold localizeRanges at h
  split at h
  · cases h
  · rename_i fl hfl
    obtain ⟨hsub, hkeep⟩ := filterRanges_spec hfl
    -- a kept range is not inverted: the local time shown at `datetime start` is `≥ start` and `< stop`
    have hne : ∀ x ∈ fl, x.start ≤ x.stop := by
      intro x hx
      obtain ⟨u, hu, hu2⟩ := keepRange_true (hkeep x hx)
      have r := hrep x (hsub.subset hx)
      have := datetime_naive_bound hz.sorted hend r.1 r.2 hu
      omega
    obtain ⟨c, hc, hm⟩ := mapIntervals_mem h y hy
    obtain ⟨m1, m2, _, _⟩ := mapInterval_spec hm
    obtain ⟨a, ha, b, hb, q1, q2, _, _, _, q6⟩ := mergeRanges_mem c hc
    obtain ⟨u, hu, hu2⟩ := keepRange_true (hkeep a ha)
    rw [← q1, m1] at hu
    cases hu
    have r := hrep a (hsub.subset ha)
    have hb0 := datetime_naive_bound hz.sorted hend r.1 r.2 (q1 ▸ m1)
    have hle := q6 hne
    exact datetime_lt_of_naive_lt hz.sorted hz.ordered hend (by omega) (by omega) m2

/-- … in particular for `iter_range` -/
theorem iterRange_intervals_nonempty {env : Env} {z : Zone} {f t : Int} {out : List Interval}
    (hz : ZoneOrdered z) (hend : EndsBefore z instMax) (hf : instMin ≤ naive z f)
    (h : iterRangeTzG env z f t = .ok out) : ∀ y ∈ out, y.start < y.stop := by
  unfold iterRangeTzG at h
  split at h
  · cases h
  · rename_i nf hnf
    split at h
    · cases h
    · split at h
      · cases h
      · rename_i l hl
        have e := naiveChecked_eq hnf
        have hw := iterRangeG_window hl
        have h1 := instEnd_le_instMax
        have h2 := instMin_le_instEnd
        apply localized_intervals_nonempty hz hend ?_ h
        intro iv hiv
        have := hw iv hiv
        simp only [clamp_idem] at this
        omega

/-- **full coalescing restores alternation**: adjacent intervals of the localized stream have
different kinds whenever the naive stream is in order (each range ends before the later ones start:
C02 Layer A) — whatever was dropped in between -/
theorem localized_adjacent_kinds_differ {z : Zone} {l out : List Interval}
    (hord : l.Pairwise (fun a b => a.stop ≤ b.start)) (h : localizeRanges z l = .ok out) :
    ∀ i (hi : i + 1 < out.length), out[i].kind ≠ out[i + 1].kind := by
  unfold localizeRanges at h
  split at h
  · cases h
  · rename_i fl hfl
    obtain ⟨hsub, _⟩ := filterRanges_spec hfl
    exact (mapIntervals_adjDiffer h (mergeRanges_adjDiffer (hord.sublist hsub))).1.get

/-- without a zone (`naive` and `datetime` are the identity: the filter is `start < end`) the new
`iter_range` is the naive stream itself as soon as no two neighbours are mergeable — which is the
case when neighbours have different kinds (C02 Layer A, `iter_adjacent_kinds_differ`) and for the
bounded streams of C16 (an interval reported as ending at `DATE_END` overlaps its successor) -/
theorem noLocation_iterRange_unchanged {l : List Interval} (hne : ∀ iv ∈ l, iv.start < iv.stop)
    (hadj : ∀ i (hi : i + 1 < l.length), l[i].kind ≠ l[i + 1].kind ∨ l[i + 1].start < l[i].stop) :
    mergeRanges (l.filter (fun iv => decide (iv.start < iv.stop))) = l := by
  have hf : l.filter (fun iv => decide (iv.start < iv.stop)) = l := by
    apply List.filter_eq_self.mpr
    intro iv hiv
    simp only [decide_eq_true_eq]
    exact hne iv hiv
  rw [hf]
  apply mergeRanges_eq_self
  intro i hi
  cases hm : mergeable l[i] l[i + 1] with
  | false => rfl
  | true =>
    obtain ⟨h1, h2⟩ := mergeable_iff.mp hm
    rcases hadj i hi with h | h
    · exact absurd h1.symm h
    · omega

/-- `state`: the state at an absolute instant is the NoLocation state at its wall-clock time in
the context zone — for every table (no `ZoneOK` needed); the only hypothesis is that the wall-clock
time is representable (`naive_local()` panics otherwise).
(The unrepaired `state` built the window `naive t .. naive (t + 1 min)`, which is empty during the
minute before clocks are set back: it answered `closed` for `24/7` at 2024-10-27 00:59:30Z in
Europe/Paris.  Fixed in /repo b0d5731, the witness is kept as an op line of the `tz` suite.) -/
theorem state_localized {env : Env} {z : Zone} {t : Int}
    (hlo : instMin ≤ naive z t) (hhi : naive z t ≤ instMax) :
    stateTzG env z t = stateG env (naive z t) := stateTzG_eq hlo hhi

/-- the same for an expression: `stateTz e ctx z t = state e ctx (naive z t)` -/
theorem state_localized_expr (ctx : Ctx) (e : Expr) {z : Zone} {t : Int}
    (hlo : instMin ≤ naive z t) (hhi : naive z t ≤ instMax) :
    stateTz ctx e z t = state ctx e (naive z t) := stateTzG_eq hlo hhi

/-- `next_change`, exact form (code of /repo dfe1ade): the end of the FIRST range of the filtered and
merged naive stream from the wall-clock time to `DATE_END`, mapped by `datetime`; `None` when that
range reaches `DATE_END`.  (`l` exists for every day level meeting `EnvOK`: `iterRangeG_total`.)
When nothing is skipped at the naive next change this is `datetime` of the naive answer; when the
span that starts there is skipped by the clock (Paris 2024-03-31 `02:30-02:45`, asked at 01:00: naive
answer 02:30) the state does not change there and the answer is the end of the merged range (02:30
of the next day). -/
theorem nextChange_localized {env : Env} {z : Zone} {t : Int} {l fl : List Interval} (hz : ZoneOrdered z)
    (hend : EndsBefore z instEnd) (hlo : instMin ≤ naive z t) (hhi : naive z t ≤ instMax)
    (hl : iterRangeG env (naive z t) instEnd = .ok l) (hfl : filterRanges z l = .ok fl) :
    nextChangeTzG env z t =
      match (mergeRanges fl).head? with
      | none => .ok none
      | some c =>
        if c.stop ≥ instEnd then .ok none
        else match datetime z c.stop with
          | .error p => .error p
          | .ok u => .ok (some u) :=
  nextChangeTzG_exact hz.sorted hend hlo hhi hl hfl

/-- … and a panic of the naive evaluation is the same panic -/
theorem nextChange_localized_error {env : Env} {z : Zone} {t : Int} {p : String} (hz : ZoneOK z)
    (hend : EndsBefore z instEnd) (hlo : instMin ≤ naive z t) (hhi : naive z t ≤ instMax)
    (h : nextChangeG env (naive z t) = .error p) : nextChangeTzG env z t = .error p :=
  nextChangeTzG_error hz.sorted hend hlo hhi h

/-! ## returned interval bounds never go backwards -/

/-- FULL statement, for every `ZoneOrdered` table with transitions on whole seconds (every chrono-tz
table but the few whose local spans are out of order, see notes/C09.md): the mapped intervals are
ordered like the naive ones — also across a gap directly followed by a fold.  `Ordered l` (each
naive interval has `start ≤ stop`, each interval ends before the later ones start) is the tiling
property of the naive iterator, C02 Layer A — a hypothesis here, checked on the implementation's
output by the drivers.
(Before the walk back was added to `datetime` this needed `GapMinuteAligned z` and failed in
Africa/Monrovia 1972: `00:45:00Z .. 00:44:45Z`.) -/
theorem bounds_never_go_backwards_ordered {env : Env} {z : Zone} {f t : Int} {l out : List Interval}
    (hz : ZoneOrdered z) (hsec : WholeSeconds z) (hend : EndsBefore z instMax)
    (hf : instMin ≤ naive z f)
    (hl : iterRangeG env (min instEnd (naive z f)) (min instEnd (naive z t)) = .ok l)
    (hord : Ordered l) (hout : localizeRanges z l = .ok out) : Ordered out := by
  have hcls := iterRangeG_class hl
  simp only [clamp_idem] at hcls
  have hie := instMin_le_instEnd
  -- every bound is representable, and a whole second or an existing local time
  have hC : ∀ iv ∈ l, (instMin ≤ iv.start ∧ (iv.start % nsPerSec = 0 ∨ Valid z iv.start)) ∧
      (instMin ≤ iv.stop ∧ (iv.stop % nsPerSec = 0 ∨ Valid z iv.stop)) := by
    have key : ∀ (w x : Int), (x % nsPerMin = 0 ∨ x = min instEnd (naive z w)) →
        (x % nsPerSec = 0 ∨ Valid z x) := by
      intro w x hx
      rcases hx with h | h
      · left; simp only [nsPerMin, nsPerSec] at *; omega
      · by_cases hc : naive z w ≤ instEnd
        · right; exact ⟨w, by omega⟩
        · left; rw [h]; have := instEnd_aligned; simp only [nsPerMin, nsPerSec] at *; omega
    intro iv hiv
    obtain ⟨c1, c2, c3⟩ := hcls iv hiv
    have hss := hord.1 iv hiv
    exact ⟨⟨by omega, key f _ c1⟩, ⟨by omega, key t _ c2⟩⟩
  -- the filtered and merged list is ordered too, and its bounds are bounds of `l`
  unfold localizeRanges at hout
  split at hout
  · cases hout
  · rename_i fl hfl
    obtain ⟨hsub, _⟩ := filterRanges_spec hfl
    have hC' : ∀ c ∈ mergeRanges fl, (instMin ≤ c.start ∧ (c.start % nsPerSec = 0 ∨ Valid z c.start)) ∧
        (instMin ≤ c.stop ∧ (c.stop % nsPerSec = 0 ∨ Valid z c.stop)) := by
      intro c hc
      obtain ⟨a, ha, b, hb, q1, q2, _⟩ := mergeRanges_mem c hc
      rw [q1, q2]
      exact ⟨(hC a (hsub.subset ha)).1, (hC b (hsub.subset hb)).2⟩
    exact mapIntervals_ordered (fun x => instMin ≤ x ∧ (x % nsPerSec = 0 ∨ Valid z x))
      (fun a b ua ub hab hCa hua hub => datetime_mono_aligned_ordered hz hsec hend hCa.1 hab hCa.2 hua hub)
      hout hC' (mergeRanges_ordered (hord.sublist hsub))

/-- the `ZoneOK` instance -/
theorem bounds_never_go_backwards {env : Env} {z : Zone} {f t : Int} {l out : List Interval}
    (hz : ZoneOK z) (hsec : WholeSeconds z) (hend : EndsBefore z instMax)
    (hf : instMin ≤ naive z f)
    (hl : iterRangeG env (min instEnd (naive z f)) (min instEnd (naive z t)) = .ok l)
    (hord : Ordered l) (hout : localizeRanges z l = .ok out) : Ordered out :=
  bounds_never_go_backwards_ordered hz.toOrdered hsec hend hf hl hord hout

/-- across the former `zone-not-ok` witness the bounds are ordered: Lisbon 1992-09-27 `01:30-02:00`
(start skipped, end ambiguous) is mapped to `00:00Z .. 01:00Z` -/
theorem bounds_gap_then_fold_witness :
    datetime lisbon1992 62853240600000000000 = .ok 62853235200000000000 ∧
    datetime lisbon1992 62853242400000000000 = .ok 62853238800000000000 :=
  ⟨datetime_gap_then_fold_witness.2.2.2.1, datetime_gap_then_fold_witness.2.2.2.2⟩

/-- the former witness of the violation, Monrovia `1972-01-07 00:00 .. 00:44:45`, is now ordered:
`00:44:30Z .. 00:44:45Z` -/
theorem bounds_former_witness :
    datetime monrovia1972 62199273600000000000 = .ok 62199276270000000000 ∧
    datetime monrovia1972 62199276285000000000 = .ok 62199276285000000000 := by
  refine ⟨datetime_gap_unaligned_witness, ?_⟩
  exact datetime_of_some (by decide)

/-! ## the former finding classes, as decidable predicates on (table, naive instants) -/

/-- class `unaligned-gap` (sub-second phase only): the returned instant is `(n - b) mod 1 s > 0`
after the first valid instant `T` -/
theorem unalignedGap_class {z : Zone} (hz : ZoneOK z) (hend : EndsBefore z instMax) {n : Int}
    (hmin : instMin ≤ n) (h : unalignedGap z n = true) :
    ∃ T a b, gapOf z n = some (T, a, b) ∧ naive z T = b ∧ (∀ m, n ≤ m → m < b → ¬ Valid z m) ∧
      datetime z n = .ok (T + (n - b) % nsPerSec) ∧ 0 < (n - b) % nsPerSec ∧ (n - b) % nsPerSec < nsPerSec := by
  have hn : ¬ Valid z n := by
    intro hv
    apply (valid_iff_latest hz n).mp hv
    apply (gapOf_isSome_iff hz.sorted hz.toOrdered.ordered n).mp
    unfold unalignedGap at h
    split at h
    · rename_i heq; rw [heq]; rfl
    · cases h
  obtain ⟨T, a, b, g1, _, _, g4, g5, _, g7, g8, g9⟩ := datetime_gap hz hend hmin hn
  refine ⟨T, a, b, g1, g5, g4, g7, ?_, g9⟩
  unfold unalignedGap at h
  rw [g1] at h
  simp only [decide_eq_true_eq] at h
  omega

/-- … which no whole-second `n` belongs to in a whole-second table: the class is empty on naive
results (whole minutes) -/
theorem unalignedGap_false {z : Zone} (hsec : WholeSeconds z) {n : Int} (hws : n % nsPerSec = 0) :
    unalignedGap z n = false := by
  unfold unalignedGap
  split
  · rename_i T a b hgap
    have hb : b % nsPerSec = 0 := by
      apply gap_end_seconds (gapOf_eq z n ▸ hgap)
      have h := hsec
      unfold WholeSeconds secondsAligned at h
      simp only [List.all_eq_true, decide_eq_true_eq] at h
      exact h
    simp only [decide_eq_false_iff_not, Decidable.not_not]
    simp only [nsPerSec] at *; omega
  · rfl

/-- class `unaligned-gap-backwards` needs a sub-second phase too -/
theorem backwardsInGap_false {z : Zone} {a b : Int} (hsec : WholeSeconds z) (hws : a % nsPerSec = 0) :
    backwardsInGap z a b = false := by
  unfold backwardsInGap
  split
  · rename_i T a' g hgap
    have hb : g % nsPerSec = 0 := by
      apply gap_end_seconds (gapOf_eq z a ▸ hgap)
      have h := hsec
      unfold WholeSeconds secondsAligned at h
      simp only [List.all_eq_true, decide_eq_true_eq] at h
      exact h
    simp only [decide_eq_false_iff_not]
    simp only [nsPerSec] at *; omega
  · rfl

/-- the FORMER class `zone-not-ok` (no longer a finding class, not used by the driver: /repo e1e5204
repaired it, `datetime_gap_first_valid_ordered`) never occurs for a `ZoneOK` table -/
theorem gapLandsInFold_false {z : Zone} (hz : ZoneOK z) (n : Int) : gapLandsInFold z n = false := by
  unfold gapLandsInFold
  split
  · rename_i T a b hgap
    have hnone : latest? z n = none :=
      (gapOf_isSome_iff hz.sorted hz.toOrdered.ordered n).mp (by rw [hgap]; rfl)
    obtain ⟨T1, a1, b1, g1, _, _, _, _, _, g6⟩ := gap_of_none hz.sorted hz.toOrdered.ordered hnone
    rw [hgap] at g1
    cases g1
    have := emod_sec_lt (n - b)
    rw [g6 hz.spaced _ (emod_sec_nonneg _) (by have := secLt; omega)]
    simp
  · rfl

/-! ## D16 (repaired in /repo dfe1ade): a local span inside a gap

`datetime` maps both bounds of a local span that the clock skips to the same instant
(`D16_empty_interval_witness`, `D16_class`: still true, they are statements about `datetime`).  The
former `iter_range` mapped every naive interval and so returned an EMPTY interval there (C02's
"intervals are non-empty" in a zone context; former open finding D16).  `iter_range` now drops such
spans before mapping and merges the neighbours: `localized_intervals_nonempty`,
`localized_adjacent_kinds_differ`, `filter_drops_exactly_skipped` above, witness below. -/

/-- why the filter is needed: `02:30-02:45` in Europe/Paris on 2024-03-31 — both bounds are mapped to
`03:00 +02` = 01:00 UTC -/
theorem D16_empty_interval_witness :
    datetime paris2024 63847535400000000000 = .ok 63847530000000000000 ∧
    datetime paris2024 63847536300000000000 = .ok 63847530000000000000 ∧
    localSpanInGap paris2024 63847535400000000000 63847536300000000000 = true := by
  refine ⟨?_, ?_, by decide⟩
  · exact datetime_gap_value (z := paris2024) (by decide) (by decide) (by decide)
      (by decide : gapOf paris2024 63847535400000000000 =
        some (63847530000000000000, 63847533600000000000, 63847537200000000000))
  · exact datetime_gap_value (z := paris2024) (by decide) (by decide) (by decide)
      (by decide : gapOf paris2024 63847536300000000000 =
        some (63847530000000000000, 63847533600000000000, 63847537200000000000))

/-- the class: a local span that starts inside a gap and ends inside it or at its end, both bounds
with the same phase within the second (always so for the evaluator's whole-minute bounds), has both
bounds mapped to the SAME instant -/
theorem D16_class {z : Zone} (hz : ZoneOK z) (hend : EndsBefore z instMax) {a b : Int}
    (hg : localSpanInGap z a b = true) (hc : (b - a) % nsPerSec = 0) (hmin : instMin ≤ a) :
    datetime z a = datetime z b :=
  datetime_eq_of_localSpanInGap hz.sorted hz.spaced hend hg hc hmin

/-- the naive stream of `02:30-02:45` between 2024-03-30 00:00Z and 2024-04-01 00:00Z in Europe/Paris
(wall-clock window 03-30 01:00 … 04-01 02:00): closed / open / closed / open (skipped by the clock
on 03-31) / closed -/
def parisD16Naive : List Interval :=
  [⟨63847443600000000000, 63847449000000000000, .closed, []⟩,
   ⟨63847449000000000000, 63847449900000000000, .open, []⟩,
   ⟨63847449900000000000, 63847535400000000000, .closed, []⟩,
   ⟨63847535400000000000, 63847536300000000000, .open, []⟩,
   ⟨63847536300000000000, 63847620000000000000, .closed, []⟩]

/-- **witness of the repaired behaviour** (`tz.iter Europe/Paris Asia/Tokyo 738975:0 738977:0 - 02:30-02:45`,
`corpus/C02/d16-span-in-gap.ops`): the skipped `02:30-02:45` of 03-31 is dropped, the two closed
ranges around it are merged: THREE intervals closed / open / closed, none empty, kinds alternating
(the former code returned five, the fourth being the empty `01:00Z..01:00Z`) -/
theorem D16_repaired_witness :
    localizeRanges paris2024 parisD16Naive = .ok
      [⟨63847440000000000000, 63847445400000000000, .closed, []⟩,
       ⟨63847445400000000000, 63847446300000000000, .open, []⟩,
       ⟨63847446300000000000, 63847612800000000000, .closed, []⟩] := by
  have d1 : datetime paris2024 63847443600000000000 = .ok 63847440000000000000 := datetime_of_some (by decide)
  have d2 : datetime paris2024 63847449000000000000 = .ok 63847445400000000000 := datetime_of_some (by decide)
  have d3 : datetime paris2024 63847449900000000000 = .ok 63847446300000000000 := datetime_of_some (by decide)
  have d4 := D16_empty_interval_witness.1
  have d5 := D16_empty_interval_witness.2.1
  have d6 : datetime paris2024 63847620000000000000 = .ok 63847612800000000000 := datetime_of_some (by decide)
  have k1 : keepRange paris2024 ⟨63847443600000000000, 63847449000000000000, .closed, []⟩ = .ok true := by
    rw [keepRange_ok (iv := ⟨_, _, _, _⟩) d1 (by decide) (by decide)]; exact congrArg _ (by decide)
  have k2 : keepRange paris2024 ⟨63847449000000000000, 63847449900000000000, .open, []⟩ = .ok true := by
    rw [keepRange_ok (iv := ⟨_, _, _, _⟩) d2 (by decide) (by decide)]; exact congrArg _ (by decide)
  have k3 : keepRange paris2024 ⟨63847449900000000000, 63847535400000000000, .closed, []⟩ = .ok true := by
    rw [keepRange_ok (iv := ⟨_, _, _, _⟩) d3 (by decide) (by decide)]; exact congrArg _ (by decide)
  have k4 : keepRange paris2024 ⟨63847535400000000000, 63847536300000000000, .open, []⟩ = .ok false := by
    rw [keepRange_ok (iv := ⟨_, _, _, _⟩) d4 (by decide) (by decide)]; exact congrArg _ (by decide)
  have k5 : keepRange paris2024 ⟨63847536300000000000, 63847620000000000000, .closed, []⟩ = .ok true := by
    rw [keepRange_ok (iv := ⟨_, _, _, _⟩) d5 (by decide) (by decide)]; exact congrArg _ (by decide)
  have hm : mergeRanges
      [⟨63847443600000000000, 63847449000000000000, .closed, []⟩,
       ⟨63847449000000000000, 63847449900000000000, .open, []⟩,
       ⟨63847449900000000000, 63847535400000000000, .closed, []⟩,
       (⟨63847536300000000000, 63847620000000000000, .closed, []⟩ : Interval)] =
      [⟨63847443600000000000, 63847449000000000000, .closed, []⟩,
       ⟨63847449000000000000, 63847449900000000000, .open, []⟩,
       ⟨63847449900000000000, 63847620000000000000, .closed, []⟩] := by decide
  simp only [localizeRanges, parisD16Naive, filterRanges, k1, k2, k3, k4, k5, if_true,
    Bool.false_eq_true, if_false, hm, mapIntervals, mapInterval, d1, d2, d3, d6]

/-- … to which the general theorems apply -/
example : ∀ y ∈ ([⟨63847440000000000000, 63847445400000000000, .closed, []⟩,
       ⟨63847445400000000000, 63847446300000000000, .open, []⟩,
       ⟨63847446300000000000, 63847612800000000000, .closed, []⟩] : List Interval), y.start < y.stop :=
  localized_intervals_nonempty (z := paris2024) (by decide) (by decide) (l := parisD16Naive)
    (by decide) D16_repaired_witness

/-- the class predicate's gap test is exact -/
theorem gapOf_isSome_iff_not_valid {z : Zone} (hz : ZoneOK z) (n : Int) :
    (gapOf z n).isSome = true ↔ ¬ Valid z n := by
  rw [gapOf_isSome_iff hz.sorted hz.toOrdered.ordered, valid_iff_latest hz]
  simp

end OH.Props.C09
