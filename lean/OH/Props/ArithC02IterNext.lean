/-
C02 on the code as it is NOW, the interval iterator: `<TimeDomainIterator as Iterator>::next` of
`opening-hours/src/opening_hours.rs`, translated from the Rust source on every run (rs2lean, seventh increment, region
`[iter extension]`, second part: `OH.Generated.Arith.Localize.TimeDomainIterator.next`; `&mut self` = the struct passed in
and returned).  Instantiation BY NAME: `ExtendedTime := Nat` (minute counts; `try_into()` to `NaiveTime` :=
`tryIntoNaiveTime`, `MIDNIGHT_00 := 0`), `OpeningHours<L> :=` the model's day level `Env` (its
`ctx.approx_bound_interval_size := env.bound`), `DATE_END := instEnd`, and the UNTRANSLATED
`self.consume_until_next_kind(kind)` := the model's `consume` (`consumeOf`).

* `next_eq_model` (MAIN): for EVERY iterator state the generated `next` = the model's `itNext` (`OH/Model/Iter.lean`):
  the `None` of an exhausted schedule, the start instant, both `got invalid time from schedule` panics, the end instant
  clamped to `end_datetime`, the interval-size bound with its `start..DATE_END` answer, the state after the call, and the
  panics of `consume_until_next_kind`.  No loop in `next`: no fuel.
-/
import OH.Generated.Arith
import OH.Proofs.ArithIterNext
namespace OH.Props.ArithC02IterNext
open OH.Model OH.Model.RustInt OH.Generated.Arith OH.Generated.Arith.Localize
open OH.Proofs.ArithSched OH.Proofs.ArithIter OH.Proofs.ArithIterNext

theorem next_eq_model (s : GState) :
    TimeDomainIterator.next s (ext_extended_time_try_into_naive_time := tryIntoNaiveTime)
        (ext_consume_until_next_kind := consumeOf) (ExtendedTime_MIDNIGHT_00 := (0 : Nat))
        (ext_oh_approx_bound_interval_size := fun env => env.bound) (DATE_END := instEnd)
      = liftNext s (itNext s.opening_hours s.end_datetime (toSt s)) := by
  obtain ⟨env, d, sched, stop⟩ := s
  unfold TimeDomainIterator.next itNext
  cases sched with
  | nil => rfl
  | cons g rest =>
    simp only [toSt, consumeOf, List.map_cons, List.head?_cons, clockMinute, tryIntoNaiveTime, toM_s, toM_kind, toM_comments, bnd]
    by_cases h1 : g.range.start < 1440
    · simp only [h1, if_true]
      generalize consume env (instDay stop) d g.kind ⟨d, toM g :: rest.map toM⟩ = r
      cases r with
      | error p => rfl
      | ok st' =>
        obtain ⟨d', sch'⟩ := st'
        cases sch' with
        | nil =>
          simp only [ofSt, List.map_nil, List.head?_nil, Option.map_none, Option.getD_none, cmpMin_eq_min, mkInstant, nsPerDay,
            show (0 : Nat) < 1440 by decide, if_true]
          cases env.bound with
          | none => simp [liftNext, ofSt, ofIv]
          | some b =>
            simp only [liftNext, ofSt, ofIv, gt_iff_lt, decide_eq_true_eq]
            split <;> simp_all
        | cons t ts =>
          simp only [ofSt, List.map_cons, List.head?_cons, Option.map_some, Option.getD_some, ofM_start, cmpMin_eq_min, mkInstant, nsPerDay]
          by_cases h2 : t.s < 1440
          · simp only [h2, if_true]
            cases env.bound with
            | none => simp [liftNext, ofSt, ofIv]
            | some b =>
              simp only [liftNext, ofSt, ofIv, gt_iff_lt, decide_eq_true_eq]
              split <;> simp_all
          · simp only [h2, if_false]; rfl
    · simp only [h1, if_false]; rfl

end OH.Props.ArithC02IterNext
