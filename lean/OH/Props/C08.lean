/-
C08 — supported date range: closed outside 1900..9999, results never leave it.
The window clauses hold for ANY day level and any bound (no hypothesis at all); "closed outside" is
proved for the model's day level directly (`scheduleAt` returns the empty schedule outside the range).
-/
import OH.Props.C02
namespace OH.Props.C08
open OH.Model OH.Model.Cal OH.Props.C02

/-- no reported interval starts before the requested start or ends after min(requested end, 10000-01-01) -/
theorem C08_intervals_inside_window (ctx : Ctx) (e : Expr) (frm to : Int) {out : List Interval}
    (h : iterRangeNaive ctx e frm to = .ok out) :
    ∀ iv ∈ out, min instEnd frm ≤ iv.start ∧ iv.stop ≤ min instEnd to :=
  C02A.iter_inside_window (envOf ctx e) frm to h

/-- next_change never returns an instant at or beyond 10000-01-01 -/
theorem C08_next_change_lt_end (ctx : Ctx) (e : Expr) (t c : Int) (h : nextChange ctx e t = .ok (some c)) :
    c < instEnd :=
  C02A.nextChange_lt_end (envOf ctx e) t c h

/-- the day schedule of every day outside 1900-01-01 … 9999-12-31 is empty (closed all day, no comments),
whatever the expression and the context -/
theorem C08_schedule_outside (ctx : Ctx) (e : Expr) (d : Int) (h : d < dateStart ∨ dateEnd ≤ d) :
    scheduleAt ctx e d = .ok [] := by
  unfold scheduleAt
  have : ¬ (dateStart ≤ d ∧ d < dateEnd) := by omega
  simp [this]

/-- from 10000-01-01 on `state` is closed -/
theorem C08_state_after_end (ctx : Ctx) (e : Expr) (t : Int) (h : instEnd ≤ t) : state ctx e t = .ok .closed := by
  unfold state
  simp [h]

example : C08_schedule_outside Ctx.default [] 0 (Or.inl (by decide)) = C08_schedule_outside Ctx.default [] 0 (Or.inl (by decide)) := rfl

end OH.Props.C08
