/-
C09 on the code as it is NOW: `impl Localize for TzLocation<Tz>` (`naive`, `datetime`: the minute-by-minute gap scan,
the walk back second by second, `earliest()` / `latest()` of chrono's `LocalResult`) and `impl Localize for NoLocation`
of `opening-hours/src/localization/localize.rs`, translated from the Rust source on every run
(`OH.Generated.Arith.Localize.*`, region `[tz extension]` of `translators/rs2lean.py`).  The impl is generic in
`Tz: TimeZone`; the generated definitions have the type parameters `Tz`, `DT` (= `chrono::DateTime<Tz>`) and take the
trait methods they call as NAMED parameters.  Here they are instantiated BY NAME at the transition-table model:
`Tz := Zone`, `DT := RustTzZone.DateTime` (UTC instant, zone), `ext_from_local_datetime := RustTzZone.from_local_datetime`
(`fromLocal` as `LocalResult`), `ext_with_timezone := RustTzZone.with_timezone`, `ext_naive_local := RustTzZone.naive_local`
(OH/Model/RustTzZone.lean: TRUSTED that chrono-tz computes this, the existing trusted-base entry of C09), and proved
equal to the hand-written model `OH/Model/Tz.lean` for EVERY zone table (no `ZoneOrdered` / `ZoneOK` needed, so in
particular for every table the theorems of `OH/Props/C09.lean` cover), every representable `NaiveDateTime`, panic
outcomes and termination included (`liftM` / `liftDT` of `OH/Proofs/ArithTz.lean` spell the model's error strings as the
code's panic messages).

* `noLocation_naive`, `noLocation_datetime`: the identity.
* `naive_eq_model`: `TzLocation::naive` = `naiveChecked` (value, or the `naive_local` panic).
* `walk_eq_model`: the `while naive > requested` loop = `walkBack`, for every fuel above the seconds to walk.
* `minute_eq_model`: the `loop` = `minuteLoop` then `walkBack`, for every fuel ≥ `tzFuelAt`.
* `datetime_eq_model` (MAIN): `TzLocation::datetime` = `Model.Tz.datetime`, for every fuel ≥ `tzFuel z n`: same instant,
  the `expect("no valid datetime for time zone")` panic and the `NaiveDateTime - TimeDelta` overflow exactly where the
  model has them, never out of fuel (termination: measure `lastLocal z - n`, as the model's).
* `eventTime_default`, `eventTime_no_coords`, `eventTime_coords`: the `event_time` plumbing (default times = the model's
  `defaultEvent`; with coordinates: time of day of `naive` of the UTC instant the untranslated `Coordinates::event_time` gives).
* `tzFuel_le`: an explicit linear bound for `tzFuel`; `datetime_total`: with `OH.Props.C09.datetime_no_panic`, for a
  table whose last span starts a minute before `NaiveDateTime::MAX` the generated `datetime` is a value.
-/
import OH.Generated.Arith
import OH.Model.RustTzZone
import OH.Proofs.ArithTz
import OH.Props.C09
namespace OH.Props.ArithC09Tz
open OH.Model OH.Model.Tz OH.Model.RustInt OH.Model.RustTzZone
open OH.Generated.Arith
open OH.Proofs.ArithTz

/-- `NoLocation::naive` is the identity and cannot fail -/
theorem noLocation_naive (s : Localize.NoLocation) (dt : Int) : Localize.NoLocation.naive s dt = .ok dt := rfl

/-- `NoLocation::datetime` is the identity and cannot fail -/
theorem noLocation_datetime (s : Localize.NoLocation) (n : Int) : Localize.NoLocation.datetime s n = .ok n := rfl

/-- `TzLocation::naive(dt)` = `dt.with_timezone(&self.tz).naive_local()` is the model's `naiveChecked` at the instant
of `dt` in the zone of the context (the zone `dt` is expressed in is irrelevant), the `naive_local` panic included -/
theorem naive_eq_model (z : Zone) (c : Option Unit) (dt : DateTime) :
    Localize.TzLocation.naive (⟨z, c⟩ : Localize.TzLocation Zone Unit) dt
        (ext_with_timezone := with_timezone) (ext_naive_local := naive_local)
      = liftM (naiveChecked z dt.utc) := by
  unfold Localize.TzLocation.naive naive_local with_timezone
  simp only [bnd]
  cases h : naiveChecked z dt.utc with
  | ok n => rfl
  | error p =>
    unfold naiveChecked at h
    simp only [] at h
    split at h
    · cases h; rfl
    · cases h

/-- the walk-back `while` loop is the model's `walkBack` for every fuel above the number of seconds to walk -/
theorem walk_eq_model (z : Zone) (c : Option Unit) (fuel : Nat) (requested naive u : Int) (hmax : naive ≤ instMax)
    (hf : ((naive - requested).toNat + 999999999) / 1000000000 + 1 ≤ fuel) :
    flowVal (gWalk z c fuel requested naive ⟨u, z⟩) = liftDT z (walkBack z requested naive u) :=
  walk_eq z c fuel requested naive u hmax hf

/-- the minute `loop` is the model's `minuteLoop` followed by `walkBack` for every fuel ≥ `tzFuelAt` -/
theorem minute_eq_model (z : Zone) (c : Option Unit) (fuel : Nat) (requested naive : Int) (hlo : instMin ≤ requested)
    (hle : requested ≤ naive) (hmax : naive ≤ instMax) (hf : tzFuelAt z requested naive ≤ fuel) :
    gMinute z c fuel requested naive
      = liftDT z (match minuteLoop z requested naive with
          | .error p => .error p
          | .ok (m, u) => walkBack z requested m u) :=
  minute_eq z c fuel requested naive hlo hle hmax hf

/-- MAIN: the translated `TzLocation::datetime` equals the model's `datetime` for every zone table, every representable
naive time and every fuel ≥ `tzFuel z n`: same instant (in the zone of the context), same panics, never out of fuel -/
theorem datetime_eq_model (z : Zone) (c : Option Unit) (n : Int) (fuel : Nat) (hlo : instMin ≤ n) (hhi : n ≤ instMax)
    (hf : tzFuel z n ≤ fuel) :
    Localize.TzLocation.datetime (⟨z, c⟩ : Localize.TzLocation Zone Unit) n
        (ext_from_local_datetime := from_local_datetime) fuel
      = liftDT z (Tz.datetime z n) := by
  unfold Localize.TzLocation.datetime
  simp only []
  have h := minute_eq z c fuel n n hlo (Int.le_refl n) hhi hf
  unfold gMinute at h
  rw [h]
  unfold Tz.datetime
  cases minuteLoop z n n with
  | error p => rfl
  | ok r => obtain ⟨m, u⟩ := r; rfl

/-- an explicit bound: 61 units of fuel per minute between `n` and the start of the last span of the table, plus 124 -/
theorem tzFuel_le (z : Zone) (n : Int) : tzFuel z n ≤ 61 * ((lastLocal z - n).toNat / 60000000000) + 124 := by
  unfold tzFuel tzFuelAt
  omega

/-- for a table whose spans end a minute before `NaiveDateTime::MAX` the translated `datetime` is a value — the model's —
for every representable naive time: no panic, no fuel exhaustion -/
theorem datetime_total {z : Zone} (hend : OH.Props.C09.EndsBefore z instMax) (c : Option Unit) {n : Int}
    (hlo : instMin ≤ n) (hhi : n ≤ instMax) (fuel : Nat) (hf : tzFuel z n ≤ fuel) :
    ∃ u, Tz.datetime z n = .ok u ∧
      Localize.TzLocation.datetime (⟨z, c⟩ : Localize.TzLocation Zone Unit) n
        (ext_from_local_datetime := from_local_datetime) fuel = .ok ⟨u, z⟩ := by
  obtain ⟨u, hu⟩ := OH.Props.C09.datetime_no_panic hend hlo hhi
  exact ⟨u, hu, by rw [datetime_eq_model z c n fuel hlo hhi hf, hu]; rfl⟩

/-- the default `Localize::event_time` (what `NoLocation` uses): 06:00, 07:00, 19:00, 20:00 — the model's `defaultEvent`
(minutes of the day), no `unwrap()` panic -/
theorem eventTime_default (d : Int) (ev : OH.Generated.Arith.TimeEvent) :
    Localize.Localize.event_time d ev
      = .ok ((OH.Model.defaultEvent d (match ev with
          | .Dawn => .dawn | .Sunrise => .sunrise | .Sunset => .sunset | .Dusk => .dusk) : Nat) * 60000000000) := by
  have h : ∀ (hh : Int), hh < 24 → TzChrono.from_hms_opt hh 0 0 = some ((hh * 3600 + 0 * 60 + 0) * 1000000000) := by
    intro hh hlt
    unfold TzChrono.from_hms_opt
    rw [if_neg (by omega)]
  unfold Localize.Localize.event_time
  cases ev
  · simp only [h 6 (by omega), OH.Model.defaultEvent]; congr 1
  · simp only [h 7 (by omega), OH.Model.defaultEvent]; congr 1
  · simp only [h 19 (by omega), OH.Model.defaultEvent]; congr 1
  · simp only [h 20 (by omega), OH.Model.defaultEvent]; congr 1

/-- `TzLocation::event_time` without coordinates is the default method -/
theorem eventTime_no_coords {DTU : Type} (z : Zone) (d : Int) (ev : OH.Generated.Arith.TimeEvent) (sun : Unit → Int → OH.Generated.Arith.TimeEvent → R DTU)
    (utc : DTU → Zone → DateTime) :
    Localize.TzLocation.event_time (⟨z, none⟩ : Localize.TzLocation Zone Unit) d ev (ext_coords_event_time := sun)
        (ext_utc_with_timezone := utc) (ext_with_timezone := with_timezone) (ext_naive_local := naive_local)
      = Localize.Localize.event_time d ev := by
  unfold Localize.TzLocation.event_time
  simp only [bnd]
  cases Localize.Localize.event_time d ev <;> rfl

/-- `TzLocation::event_time` with coordinates: the time of day of the wall-clock reading, in the zone of the context, of
the UTC instant `Coordinates::event_time` computes (a parameter: the `sunrise` crate is not modelled, C11), with the
`naive_local` panic -/
theorem eventTime_coords (z : Zone) (cs : Unit) (d : Int) (ev : OH.Generated.Arith.TimeEvent) (sun : Unit → Int → OH.Generated.Arith.TimeEvent → R Int) :
    Localize.TzLocation.event_time (⟨z, some cs⟩ : Localize.TzLocation Zone Unit) d ev (ext_coords_event_time := sun)
        (ext_utc_with_timezone := fun u z => (⟨u, z⟩ : DateTime)) (ext_with_timezone := with_timezone)
        (ext_naive_local := naive_local)
      = bnd (sun cs d ev) fun u => bnd (liftM (naiveChecked z u)) fun n => .ok (n % 86400000000000) := by
  unfold Localize.TzLocation.event_time
  simp only []
  cases sun cs d ev with
  | error e => rfl
  | ok u =>
    simp only [bnd]
    rw [naive_eq_model z (some cs) ⟨u, z⟩]
    cases naiveChecked z u <;> rfl

end OH.Props.ArithC09Tz
