/-
C02 (and C01/C03/C08/C16) on the code as it is NOW: `single_interval_from_bounds` and the `Date { .. }` arms of
`MonthdayRange::next_change_hint` / `MonthdayRange::filter` (`opening-hours/src/filter/date_filter.rs`), translated from
the Rust source on every run by `translators/rs2lean.py` (sixth increment, `dated3` → `OH.Generated.Arith.Dated3.*`).

* `hint_date` / `filter_date`: the arm `ds::MonthdayRange::Date { start: (start, start_offset), end: (end, end_offset) }`;
  `if let (Date::Fixed { .. }, true) = (*start, start == end) { ..; return ..; }` is a `match` on the pair, the rest of the
  block its other arm; `if let Some(interval) = single_interval_from_bounds(..) { return ..; }` likewise.
* THE THEOREM THE SEEDED REGRESSION BREAKS: `hintDate_single_interval` — when the range is not a single day and
  `single_interval_from_bounds` returns `Some(interval)`, the hint is the model's `nextChangeFromIntervals d [interval]`
  (in particular the day AFTER the last day of the interval, `hintDate_single_interval_on_end`); an arm that answers
  `if date < *interval.end() { .. }` by hand does not satisfy it.
* `single_interval_from_bounds`: outcome by outcome of its callees (`date_year`, `date_on_year`, `DateOffset::apply`,
  `year_before_offset`, all translated and tied in ArithC01Dated / ArithC01Offset), incl. the window `end_year - 1 ..=
  end_year + 2` searched lazily in order (`filterMapMapFindM`).
The untranslated `intervals_from_bounds` is the named parameter `f` of the statements.
-/
import OH.Generated.Arith
import OH.Proofs.RustInt
import OH.Proofs.RustDated
import OH.Proofs.RustDated3
import OH.Model.Eval
import OH.Props.ArithC01Dated
import OH.Props.ArithC02Dated2
namespace OH.Props.ArithC02Dated3
set_option linter.unusedSimpArgs false
set_option linter.unusedVariables false
open OH.Model.RustInt
open OH.Model.RustChrono
open OH.Generated.Arith
open OH.Proofs.RustDated (bnd_pure)
open OH.Proofs.RustDated3 (rangeInclList_eq window_single)
open OH.Props.ArithC01Dated (yearBeforeOffset_total)
open OH.Props.ArithC02Dated2 (pairOf nextChangeFromIntervals_eq_model isOpenFromIntervals_eq_model)

/-- the test of the single-day branch: `if let (Date::Fixed { .. }, true) = (*start, start == end)` -/
def SingleDay (s e : Date) : Prop := (∃ y m dd, s = .Fixed y m dd) ∧ s = e

/-- a year chrono can represent (what `year_before_offset` returns: the year of a `NaiveDate`) -/
def YearOk (y : Int) : Prop := -262144 ≤ y ∧ y ≤ 262143

/-! ### the `Date` arm of `next_change_hint` -/

/-- THE SINGLE-INTERVAL BRANCH OF THE HINT: not a single day, `single_interval_from_bounds` returns `Some(interval)` ⇒ the hint
is `next_change_from_intervals(date, [interval])`, i.e. the model's `nextChangeFromIntervals d [interval]`; for every date
and whatever stands for the two untranslated functions -/
theorem hintDate_single_interval (d : Int) (s e : Date) (so eo : DateOffset)
    (f : List Int → List Int → List (RangeInclusive Int))
    (iv : RangeInclusive Int) (hne : ¬ SingleDay s e)
    (hs : Dated3.single_interval_from_bounds s so e eo = .ok (some iv)) :
    Dated3.hint_date d s so e eo f = .ok (some (OH.Model.nextChangeFromIntervals d [pairOf iv])) := by
  obtain ⟨ys, hys⟩ := yearBeforeOffset_total d so
  obtain ⟨ye, hye⟩ := yearBeforeOffset_total d eo
  unfold Dated3.hint_date
  simp only [hys, hye, bnd_ok]
  cases s with
  | Easter y => simp only [hs, bnd_ok, nextChangeFromIntervals_eq_model, List.map_cons, List.map_nil]
  | Fixed y m dd =>
    have hd : decide (Date.Fixed y m dd = e) = false := by
      simp only [decide_eq_false_iff_not]
      exact fun h => hne ⟨⟨_, _, _, rfl⟩, h⟩
    simp only [hd, hs, bnd_ok, nextChangeFromIntervals_eq_model, List.map_cons, List.map_nil]

/-- on the LAST day of the single interval the hint is the day after it (the seeded `date < *interval.end()` answers the
start of the interval / `DATE_END` there) -/
theorem hintDate_single_interval_on_end (s e : Date) (so eo : DateOffset)
    (f : List Int → List Int → List (RangeInclusive Int))
    (iv : RangeInclusive Int) (hne : ¬ SingleDay s e) (hle : iv.start ≤ iv.«end»)
    (hs : Dated3.single_interval_from_bounds s so e eo = .ok (some iv)) :
    Dated3.hint_date iv.«end» s so e eo f = .ok (some ((OH.Model.Cal.succ? iv.«end»).getD OH.Model.Cal.dateEnd)) := by
  rw [hintDate_single_interval iv.«end» s e so eo f iv hne hs]
  simp [OH.Model.nextChangeFromIntervals, pairOf, hle]

/-- the single-day branch, a day with a year: the only year looked at is that one -/
theorem hintDate_single_day_year (d : Int) (fy : Int) (m : Month) (dd : Int) (so eo : DateOffset)
    (f : List Int → List Int → List (RangeInclusive Int)) :
    Dated3.hint_date d (.Fixed (some fy) m dd) so (.Fixed (some fy) m dd) eo f
      = bnd (Dated3.single_day_intervals m dd ⟨fy, fy⟩ so eo) fun l => .ok (some (OH.Model.nextChangeFromIntervals d (l.map pairOf))) := by
  obtain ⟨ys, hys⟩ := yearBeforeOffset_total d so
  obtain ⟨ye, hye⟩ := yearBeforeOffset_total d eo
  unfold Dated3.hint_date
  simp only [hys, hye, bnd_ok, decide_true, nextChangeFromIntervals_eq_model]

/-- the single-day branch, a day without year: the years `end_year - 1 ..= end_year + 10` (no overflow) -/
theorem hintDate_single_day (d : Int) (m : Month) (dd : Int) (so eo : DateOffset) (ye : Int)
    (f : List Int → List Int → List (RangeInclusive Int))
    (hye : DateFilter.year_before_offset d eo = .ok ye) (hb : YearOk ye) :
    Dated3.hint_date d (.Fixed none m dd) so (.Fixed none m dd) eo f
      = bnd (Dated3.single_day_intervals m dd ⟨ye - 1, ye + 10⟩ so eo) fun l => .ok (some (OH.Model.nextChangeFromIntervals d (l.map pairOf))) := by
  obtain ⟨ys, hys⟩ := yearBeforeOffset_total d so
  obtain ⟨h1, h2⟩ := hb
  unfold Dated3.hint_date
  simp only [hys, hye, bnd_ok, decide_true]
  rs_ok
  simp only [nextChangeFromIntervals_eq_model, bnd_ok]

/-! ### the `Date` arm of `filter` -/

/-- the single-interval branch of `filter`: `interval.contains(&date)` -/
theorem filterDate_single_interval (d : Int) (s e : Date) (so eo : DateOffset)
    (f : List Int → List Int → List (RangeInclusive Int))
    (iv : RangeInclusive Int) (hne : ¬ SingleDay s e)
    (hs : Dated3.single_interval_from_bounds s so e eo = .ok (some iv)) :
    Dated3.filter_date d s so e eo f = .ok (decide ((pairOf iv).1 ≤ d) && decide (d ≤ (pairOf iv).2)) := by
  obtain ⟨ys, hys⟩ := yearBeforeOffset_total d so
  obtain ⟨ye, hye⟩ := yearBeforeOffset_total d eo
  unfold Dated3.filter_date
  simp only [hys, hye, bnd_ok, pairOf]
  cases s with
  | Easter y => simp only [hs, bnd_ok]; rfl
  | Fixed y m dd =>
    have hd : decide (Date.Fixed y m dd = e) = false := by
      simp only [decide_eq_false_iff_not]
      exact fun h => hne ⟨⟨_, _, _, rfl⟩, h⟩
    simp only [hd, hs, bnd_ok]; rfl

/-- the single-day branch of `filter`, a day without year: the years `end_year - 1 ..= end_year + 8` -/
theorem filterDate_single_day (d : Int) (m : Month) (dd : Int) (so eo : DateOffset) (ye : Int)
    (f : List Int → List Int → List (RangeInclusive Int))
    (hye : DateFilter.year_before_offset d eo = .ok ye) (hb : YearOk ye) :
    Dated3.filter_date d (.Fixed none m dd) so (.Fixed none m dd) eo f
      = bnd (Dated3.single_day_intervals m dd ⟨ye - 1, ye + 8⟩ so eo) fun l => .ok (OH.Model.isOpenFromIntervals d (l.map pairOf)) := by
  obtain ⟨ys, hys⟩ := yearBeforeOffset_total d so
  obtain ⟨h1, h2⟩ := hb
  unfold Dated3.filter_date
  simp only [hys, hye, bnd_ok, decide_true]
  rs_ok
  simp only [isOpenFromIntervals_eq_model, bnd_ok]

/-- the single-day branch of `filter`, a day with a year -/
theorem filterDate_single_day_year (d : Int) (fy : Int) (m : Month) (dd : Int) (so eo : DateOffset)
    (f : List Int → List Int → List (RangeInclusive Int)) :
    Dated3.filter_date d (.Fixed (some fy) m dd) so (.Fixed (some fy) m dd) eo f
      = bnd (Dated3.single_day_intervals m dd ⟨fy, fy⟩ so eo) fun l => .ok (OH.Model.isOpenFromIntervals d (l.map pairOf)) := by
  obtain ⟨ys, hys⟩ := yearBeforeOffset_total d so
  obtain ⟨ye, hye⟩ := yearBeforeOffset_total d eo
  unfold Dated3.filter_date
  simp only [hys, hye, bnd_ok, decide_true, isOpenFromIntervals_eq_model]

/-! ### `single_interval_from_bounds` -/

/-- a start without year: `None` (the `?` on `date_year(start)`) -/
theorem singleInterval_no_start_year (s e : Date) (so eo : DateOffset) (h : DateFilter.date_year s = .ok none) :
    Dated3.single_interval_from_bounds s so e eo = .ok none := by
  unfold Dated3.single_interval_from_bounds
  simp only [h, bnd_ok]

/-- a start with a year that cannot be projected on it (`date_on_year(start, start_year, valid_ymd_after)?`): `None` -/
theorem singleInterval_no_start (s e : Date) (so eo : DateOffset) (sy : Int) (h : DateFilter.date_year s = .ok (some sy))
    (h2 : DateFilter.date_on_year s sy DateFilter.valid_ymd_after = .ok none) :
    Dated3.single_interval_from_bounds s so e eo = .ok none := by
  unfold Dated3.single_interval_from_bounds
  simp only [h, h2, bnd_ok]

/-- both bounds carry a year: from the start (`valid_ymd_after`, shifted) to the end on ITS year (`valid_ymd_before`, shifted) -/
theorem singleInterval_end_year (s e : Date) (so eo : DateOffset) (sy s0 start ey e0 stop : Int)
    (h1 : DateFilter.date_year s = .ok (some sy)) (h2 : DateFilter.date_on_year s sy DateFilter.valid_ymd_after = .ok (some s0))
    (h3 : DateOffset.apply so s0 = .ok start) (h4 : DateFilter.date_year e = .ok (some ey))
    (h5 : DateFilter.date_on_year e ey DateFilter.valid_ymd_before = .ok (some e0)) (h6 : DateOffset.apply eo e0 = .ok stop) :
    Dated3.single_interval_from_bounds s so e eo = .ok (some ⟨start, stop⟩) := by
  unfold Dated3.single_interval_from_bounds
  simp only [h1, h2, h3, h4, h5, h6, bnd_ok]

/-- an end with a year that cannot be projected on it: `None` -/
theorem singleInterval_end_year_none (s e : Date) (so eo : DateOffset) (sy s0 start ey : Int)
    (h1 : DateFilter.date_year s = .ok (some sy)) (h2 : DateFilter.date_on_year s sy DateFilter.valid_ymd_after = .ok (some s0))
    (h3 : DateOffset.apply so s0 = .ok start) (h4 : DateFilter.date_year e = .ok (some ey))
    (h5 : DateFilter.date_on_year e ey DateFilter.valid_ymd_before = .ok none) :
    Dated3.single_interval_from_bounds s so e eo = .ok none := by
  unfold Dated3.single_interval_from_bounds
  simp only [h1, h2, h3, h4, h5, bnd_ok]

/-- an end without year: the first occurrence of the end (`valid_ymd_before`, shifted) that is not before the start, looked
for LAZILY and IN ORDER on the years `y0 - 1, y0, y0 + 1, y0 + 2` (`y0 = year_before_offset(start_date, end_offset)`; no
overflow), `DATE_END` when there is none -/
theorem singleInterval_no_end_year (s e : Date) (so eo : DateOffset) (sy s0 start y0 : Int)
    (h1 : DateFilter.date_year s = .ok (some sy)) (h2 : DateFilter.date_on_year s sy DateFilter.valid_ymd_after = .ok (some s0))
    (h3 : DateOffset.apply so s0 = .ok start) (h4 : DateFilter.date_year e = .ok none)
    (h5 : DateFilter.year_before_offset start eo = .ok y0) (hb : YearOk y0) :
    Dated3.single_interval_from_bounds s so e eo =
      bnd (filterMapMapFindM (fun y => DateFilter.date_on_year e y DateFilter.valid_ymd_before) (fun x => DateOffset.apply eo x)
            (fun x => decide (x ≥ start)) [y0 - 1, y0, y0 + 1, y0 + 2]) fun r =>
      .ok (some ⟨start, r.getD Chrono.DATE_END⟩) := by
  obtain ⟨hb1, hb2⟩ := hb
  unfold Dated3.single_interval_from_bounds
  simp only [h1, h2, h3, h4, h5, bnd_ok]
  rs_ok
  simp only [bnd_pure, window_single]

end OH.Props.ArithC02Dated3
