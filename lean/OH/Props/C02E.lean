import OH.Props.C02B
import OH.Props.C04P
/-
C02 / C03 / C16 FROM THE STRING: the corollaries of OH/Props/C02B.lean with `ParserWF e` replaced by
`parse s = ok e` (every accepted string yields a `ParserWF` expression, for every string).  What
remains as hypotheses: a well-formed context (`CtxWF`: strictly increasing, representable holiday
calendars — what C15 provides) and the decidable scope `exprHintSafe e` of Layer B (dated ranges whose
total shift stays within a year; no condition on expressions without dated ranges).
-/
namespace OH.Props.C02E
open OH.Model OH.Model.Cal OH.Props.C02 OH.Props.C02B

section
variable {s : String} {e : Expr} (h : Parser.parse s = .ok e) (hs : exprHintSafe e = true)
  {ctx : Ctx} (hc : CtxWF ctx)
include h hs hc

/-- **C02 for every parsed expression in scope**: the stream of `iter_range` is THE list of maximal
constant runs of the pointwise state over `[min from END, min to END)` -/
theorem C02_every_parsed_expression (hb : ctx.bound = none) (frm to : Int) {out : List Interval}
    (ho : iterRangeNaive ctx e frm to = .ok out) :
    if min instEnd frm < min instEnd to then Runs (envOf ctx e) (min instEnd frm) (min instEnd to) out
    else out = [] :=
  C02_iter_range_exact_partial hc (OH.Proofs.SynTotal.parse_string_ok_wf s e h) hs hb frm to ho

/-- no change present in the daily schedules is skipped -/
theorem C02_no_change_skipped (hb : ctx.bound = none) (frm to : Int) {out : List Interval}
    (ho : iterRangeNaive ctx e frm to = .ok out) :
    ∀ t, min instEnd frm < t → t < min instEnd to →
      pointState ctx e (t - 1) ≠ pointState ctx e t → ∃ iv ∈ out, iv.start = t :=
  C02_no_change_skipped_partial hc (OH.Proofs.SynTotal.parse_string_ok_wf s e h) hs hb frm to ho

/-- **C03**: `state` is the pointwise state; `next_change` is THE next change -/
theorem C03_every_parsed_expression (hb : ctx.bound = none) {t : Int} (hlt : t < instEnd) :
    state ctx e t = .ok (pointState ctx e t) ∧
      ∃ x, nextChange ctx e t = .ok x ∧ IsNextChange (envOf ctx e) t x :=
  ⟨C03_state_partial hc (OH.Proofs.SynTotal.parse_string_ok_wf s e h) hs hlt,
   C03_next_change_exact_partial hc (OH.Proofs.SynTotal.parse_string_ok_wf s e h) hs hb hlt⟩

/-- **C16**: with a bound `B` the answer is the exact one or none, with both thresholds -/
theorem C16_every_parsed_expression {B : Int} (hB : ctx.bound = some B) {t : Int}
    (hfit : B + nsPerDay ≤ deltaMax ∨ instMin ≤ t)
    {x : Option Int} (hx : nextChange { ctx with bound := none } e t = .ok x) :
    state ctx e t = state { ctx with bound := none } e t ∧
    ∃ y, nextChange ctx e t = .ok y
      ∧ (y = x ∨ y = none)
      ∧ (∀ c, x = some c → c - t ≤ B - nsPerDay → y = x)
      ∧ (∀ c, x = some c → c - t > B → y = none)
      ∧ (x = none → y = none) :=
  ⟨C16_state_unchanged_partial hc (OH.Proofs.SynTotal.parse_string_ok_wf s e h) hs t,
   C16_next_change_partial hc (OH.Proofs.SynTotal.parse_string_ok_wf s e h) hs hB hfit hx⟩

end
end OH.Props.C02E
