/-
C01 on the code as it is NOW, continued: how the spans of a time selector are cut into "today" and
"the part that spills over midnight" (opening-hours/src/filter/time_filter.rs,
`time_selector_intervals_at`, `time_selector_intervals_at_next_day`).  The three CLOSURES of these two
functions are translated from the Rust source on every run (`translators/rs2lean.py` →
`OH.Generated.Arith.TimeFilter.*`):

* `|range| range_intersection(range, MIDNIGHT_00..MIDNIGHT_24)`        (`intervals_at_clip`),
* `|range| range_intersection(range, MIDNIGHT_24..MIDNIGHT_48)`        (`intervals_at_next_day_clip`),
* `|range| { range.start.add_hours(-24).unwrap() .. range.end.add_hours(-24).unwrap() }`
                                                                        (`intervals_at_next_day_shift`),

the first two calling the translated generic `range_intersection` at `T = ExtendedTime` (derived order).
The iterator plumbing around them (`as_naive(..).filter_map(..).map(..)`, `ranges_union`) is not
translated; the evaluator model has it as `filterMap` / `map` / `rangesUnion` on lists of minute pairs.

The tie: on EVERY pair of well-formed times the clip closures return what the model's
`rangeIntersection · (0, 1440)` / `(1440, 2880)` returns on the minute counts, and on every range the
second clip lets through the shift returns both bounds minus 24 h — its two `unwrap()`s cannot panic
there, no `i8` negation / `i16` addition overflows.
-/
import OH.Props.ArithC01Time
import OH.Model.Schedule
namespace OH.Props.ArithC01Spill
set_option linter.unusedSimpArgs false
open OH.Model.RustInt
open OH.Generated.Arith
open OH.Props.ArithC19 (MTime GTime emb wf_isU8 addHours_eq_model)
open OH.Props.ArithC01Time (emb_lt_iff fromMins_wf midnight00 midnight24 midnight48)
open OH.Props (C19.WF)
open OH.Model (rangeIntersection)
open OH.Model.ExtendedTime (midnight00 midnight24 midnight48)

theorem wf00 : C19.WF OH.Model.ExtendedTime.midnight00 := by simp [C19.WF, OH.Model.ExtendedTime.midnight00]
theorem wf24 : C19.WF OH.Model.ExtendedTime.midnight24 := by simp [C19.WF, OH.Model.ExtendedTime.midnight24]
theorem wf48 : C19.WF OH.Model.ExtendedTime.midnight48 := by simp [C19.WF, OH.Model.ExtendedTime.midnight48]

/-- `max` / `min` of the derived order, on embedded model values -/
theorem cmpMax_emb (a b : MTime) (ha : C19.WF a) (hb : C19.WF b) :
    cmpMax (emb a) (emb b) = emb (if b.mins < a.mins then a else b) := by
  unfold cmpMax
  by_cases c : b.mins < a.mins
  · rw [if_pos ((emb_lt_iff b a hb ha).mpr c), if_pos c]
  · rw [if_neg (fun h => c ((emb_lt_iff b a hb ha).mp h)), if_neg c]

theorem cmpMin_emb (a b : MTime) (ha : C19.WF a) (hb : C19.WF b) :
    cmpMin (emb a) (emb b) = emb (if b.mins < a.mins then b else a) := by
  unfold cmpMin
  by_cases c : b.mins < a.mins
  · rw [if_pos ((emb_lt_iff b a hb ha).mpr c), if_pos c]
  · rw [if_neg (fun h => c ((emb_lt_iff b a hb ha).mp h)), if_neg c]

/-- a pair of model times as a `Range<ExtendedTime>` -/
def rng (p : MTime × MTime) : Range GTime := ⟨emb p.1, emb p.2⟩

/-- `range_intersection` at `T = ExtendedTime` is the model's `rangeIntersection` on the minute counts -/
theorem rangeIntersection_time (a b c d : MTime) (ha : C19.WF a) (hb : C19.WF b) (hc : C19.WF c) (hd : C19.WF d) :
    ∃ res : Option (MTime × MTime),
      RangeUtils.range_intersection (rng (a, b)) (rng (c, d)) = .ok (res.map rng) ∧
      (∀ p, res = some p → C19.WF p.1 ∧ C19.WF p.2) ∧
      res.map (fun p => (p.1.mins, p.2.mins)) = rangeIntersection (a.mins, b.mins) (c.mins, d.mins) := by
  simp only [RangeUtils.range_intersection, rng, cmpMax_emb a c ha hc, cmpMin_emb b d hb hd]
  have hmx : C19.WF (if c.mins < a.mins then a else c) := by split <;> assumption
  have hmn : C19.WF (if d.mins < b.mins then d else b) := by split <;> assumption
  have emx : (if c.mins < a.mins then a else c).mins = max a.mins c.mins := by split <;> omega
  have emn : (if d.mins < b.mins then d else b).mins = min b.mins d.mins := by split <;> omega
  by_cases c1 : (if c.mins < a.mins then a else c).mins < (if d.mins < b.mins then d else b).mins
  · have c1' := (emb_lt_iff _ _ hmx hmn).mpr c1
    refine ⟨some ((if c.mins < a.mins then a else c), (if d.mins < b.mins then d else b)), ?_, ?_, ?_⟩
    · simp only [c1', decide_true, if_true, ↓reduceIte, Option.map_some, rng]
    · intro p hp; cases hp; exact ⟨hmx, hmn⟩
    · simp only [Option.map_some, rangeIntersection, emx, emn]
      rw [emx, emn] at c1
      rw [if_pos c1]
  · have c1' : ¬ _ := fun h => c1 ((emb_lt_iff _ _ hmx hmn).mp h)
    refine ⟨none, ?_, ?_, ?_⟩
    · simp only [c1', decide_false, Bool.false_eq_true, if_false, ↓reduceIte, Option.map_none]
    · intro p hp; cases hp
    · simp only [Option.map_none, rangeIntersection]
      rw [emx, emn] at c1
      rw [if_neg c1]

/-- today's part of a span: `range_intersection(range, 00:00..24:00)` -/
theorem clip_eq_model (a b : MTime) (ha : C19.WF a) (hb : C19.WF b) :
    ∃ res : Option (MTime × MTime),
      TimeFilter.intervals_at_clip (rng (a, b)) = .ok (res.map rng) ∧
      (∀ p, res = some p → C19.WF p.1 ∧ C19.WF p.2) ∧
      res.map (fun p => (p.1.mins, p.2.mins)) = rangeIntersection (a.mins, b.mins) (0, 1440) := by
  unfold TimeFilter.intervals_at_clip
  simp only [ArithC01Time.midnight00, ArithC01Time.midnight24, bnd_ok]
  exact rangeIntersection_time a b _ _ ha hb wf00 wf24

/-- the part that spills into the next day: `range_intersection(range, 24:00..48:00)` -/
theorem clip_next_day_eq_model (a b : MTime) (ha : C19.WF a) (hb : C19.WF b) :
    ∃ res : Option (MTime × MTime),
      TimeFilter.intervals_at_next_day_clip (rng (a, b)) = .ok (res.map rng) ∧
      (∀ p, res = some p → C19.WF p.1 ∧ C19.WF p.2) ∧
      res.map (fun p => (p.1.mins, p.2.mins)) = rangeIntersection (a.mins, b.mins) (1440, 2880) := by
  unfold TimeFilter.intervals_at_next_day_clip
  simp only [ArithC01Time.midnight24, ArithC01Time.midnight48, bnd_ok]
  exact rangeIntersection_time a b _ _ ha hb wf24 wf48

/-- one bound moved back by 24 h -/
theorem addHours_minus24 (a : MTime) (ha : C19.WF a) (h : 1440 ≤ a.mins) :
    ∃ u : MTime, C19.WF u ∧ ExtendedTime.add_hours (emb a) (-24) = .ok (some (emb u)) ∧ u.mins = a.mins - 1440 := by
  have hs := OH.Props.C19.addHours_spec a (-24) ha (by omega)
  have hm := OH.Props.C19.mins_le a ha
  have : (0 ≤ (a.mins : Int) + 60 * -24 ∧ (a.mins : Int) + 60 * -24 ≤ 2880) := by omega
  rw [if_pos this] at hs
  obtain ⟨u, hu⟩ := (OH.Props.C19.fromMins_some_iff ((a.mins : Int) + 60 * -24).toNat).mpr (by omega)
  refine ⟨u, fromMins_wf _ _ hu, ?_, ?_⟩
  · rw [addHours_eq_model a (-24) (wf_isU8 a ha) (by omega), hs, hu]; rfl
  · have := OH.Props.C19.mins_fromMins _ _ hu; omega

/-- the `-24 h` shift of a spilled range: both bounds minus 1440 minutes, and NO panic: the two
`unwrap()`s are safe on everything the clip lets through (bounds ≥ 24:00) -/
theorem shift_eq_model (a b : MTime) (ha : C19.WF a) (hb : C19.WF b) (h1 : 1440 ≤ a.mins) (h2 : 1440 ≤ b.mins) :
    ∃ u v : MTime, C19.WF u ∧ C19.WF v ∧ TimeFilter.intervals_at_next_day_shift (rng (a, b)) = .ok (rng (u, v)) ∧
      (u.mins, v.mins) = (a.mins - 1440, b.mins - 1440) := by
  obtain ⟨u, hu, eu, mu⟩ := addHours_minus24 a ha h1
  obtain ⟨v, hv, ev, mv⟩ := addHours_minus24 b hb h2
  refine ⟨u, v, hu, hv, ?_, by rw [mu, mv]⟩
  unfold TimeFilter.intervals_at_next_day_shift
  have n24 : ∀ s, neg .i8 s 24 = .ok (-24) := fun s => neg_ok (by in_range)
  simp only [n24, bnd_ok, rng, eu, ev]

/-- … and below 24:00 the first `unwrap()` does panic: the guard of the clip is what makes the shift total -/
example : TimeFilter.intervals_at_next_day_shift ⟨⟨23, 0⟩, ⟨25, 0⟩⟩ = .error (.panic "called `unwrap()` on a `None`/`Err` value") := rfl

/-- clip then shift, as `time_selector_intervals_at_next_day` composes them: never a panic, and the model's
`(r.1 - 1440, r.2 - 1440)` of `rangeIntersection r (1440, 2880)` -/
theorem next_day_clip_then_shift (a b : MTime) (ha : C19.WF a) (hb : C19.WF b) :
    (TimeFilter.intervals_at_next_day_clip (rng (a, b)) = .ok none ∧ rangeIntersection (a.mins, b.mins) (1440, 2880) = none) ∨
    (∃ p u v : MTime × MTime, TimeFilter.intervals_at_next_day_clip (rng (a, b)) = .ok (some (rng p)) ∧
      TimeFilter.intervals_at_next_day_shift (rng p) = .ok (rng (u.1, v.1)) ∧
      (rangeIntersection (a.mins, b.mins) (1440, 2880)).map (fun r => (r.1 - 1440, r.2 - 1440)) = some (u.1.mins, v.1.mins)) := by
  obtain ⟨res, h1, h2, h3⟩ := clip_next_day_eq_model a b ha hb
  cases res with
  | none => left; exact ⟨h1, by simpa using h3.symm⟩
  | some p =>
    right
    obtain ⟨w1, w2⟩ := h2 p rfl
    have h3' : rangeIntersection (a.mins, b.mins) (1440, 2880) = some (p.1.mins, p.2.mins) := by simpa using h3.symm
    have hb1 : 1440 ≤ p.1.mins ∧ 1440 ≤ p.2.mins := by
      unfold rangeIntersection at h3'
      simp only at h3'
      split at h3'
      · rename_i hlt
        simp only [Option.some.injEq, Prod.mk.injEq] at h3'
        omega
      · cases h3'
    obtain ⟨u, v, hu, hv, e, m⟩ := shift_eq_model p.1 p.2 w1 w2 hb1.1 hb1.2
    refine ⟨p, (u, u), (v, v), h1, e, ?_⟩
    rw [h3']
    simp only [Option.map_some, Option.some.injEq]
    exact m.symm

/-! non-vacuity: 22:00-26:00 gives 22:00-24:00 today and 00:00-02:00 tomorrow -/
example : TimeFilter.intervals_at_clip ⟨⟨22, 0⟩, ⟨26, 0⟩⟩ = .ok (some ⟨⟨22, 0⟩, ⟨24, 0⟩⟩) := rfl
example : TimeFilter.intervals_at_next_day_clip ⟨⟨22, 0⟩, ⟨26, 0⟩⟩ = .ok (some ⟨⟨24, 0⟩, ⟨26, 0⟩⟩) := rfl
example : TimeFilter.intervals_at_next_day_shift ⟨⟨24, 0⟩, ⟨26, 0⟩⟩ = .ok ⟨⟨0, 0⟩, ⟨2, 0⟩⟩ := rfl
example : TimeFilter.intervals_at_next_day_clip ⟨⟨8, 0⟩, ⟨12, 0⟩⟩ = .ok none := rfl

end OH.Props.ArithC01Spill
