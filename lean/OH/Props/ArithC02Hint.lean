/-
C02 (and C01, C03, C08, C16: every property that relies on the hints) on the code as it is NOW: the
`next_change_hint` of the year selector.  `impl DateFilter for ds::YearRange` `next_change_hint`
(opening-hours/src/filter/date_filter.rs) is translated from the Rust source on every run (`translators/rs2lean.py`,
chrono mode → `OH.Generated.Arith.YearRange.next_change_hint`): `let Ok(curr_year): Result<u16, _> = .. else { return
.. }` is the `u16` range test, the early `return`s (`if .. { return None; }`, the `return` inside the block that
computes `next_year`) are branches that end the function, the arithmetic is on `i32` with every `+ - * / %` a checked
operation, the local closure `round_up` is expanded where it is called.  The chrono calls (`date.year()`,
`NaiveDate::from_ymd_opt`, `DATE_END.date()`) are the functions `Chrono.*` of `OH/Model/RustChrono.lean`, i.e. their
meaning in the calendar model (trusted as the calendar model is; tied by the `chr.*` suite).

The tie: for EVERY `u16` range and step and EVERY date whose year chrono represents, the generated definition and
the hand-written evaluator model (`OH.Model.YearRange.hint`, about which `Props/C02B.lean` proves hint soundness)
agree: the same hint, the remainder-by-zero outcome exactly where the model has its error (step 0, which the parser
never produces), and no overflow outcome: `end + 1`, `curr_year + 1`, `x + d - 1`, `d * ..`, `start + ..` all fit `i32`.
-/
import OH.Generated.Arith
import OH.Proofs.RustInt
import OH.Model.Eval
namespace OH.Props.ArithC02Hint
set_option linter.unusedSimpArgs false
set_option linter.unusedVariables false
open OH.Model.RustInt
open OH.Model.RustChrono
open OH.Generated.Arith

/-- the generated outcome and the model outcome agree: the same value, or the division-by-zero outcome exactly where
the model has its error (never an overflow / `unwrap` outcome) -/
inductive AgreeDZ {α : Type} : R α → Except String α → Prop
  | value (a : α) : AgreeDZ (.ok a) (.ok a)
  | divZero (site e : String) : AgreeDZ (.error (.divZero site)) (.error e)

theorem AgreeDZ.of_eq {α : Type} {a b : α} (h : a = b) : AgreeDZ (.ok a : R α) (.ok b) := h ▸ .value a

/-- closes `AgreeDZ (.ok a) (.ok b)` when `a` and `b` are the same up to the order of the operands of `+` -/
macro "agree_val" : tactic =>
  `(tactic| ((try simp only [Int.add_comm (1 : Int)]); exact AgreeDZ.value _))

def genYear (r : OH.Model.YearRange) : OH.Generated.Arith.YearRange := ⟨⟨⟨r.lo⟩, ⟨r.hi⟩⟩, r.step⟩

theorem rem_i32_nat (s : String) (a b : Nat) : rem .i32 s (a : Int) (b : Int) =
    if b = 0 then .error (.divZero s) else .ok (((a % b : Nat) : Int)) := by
  unfold rem
  by_cases h : b = 0
  · subst h; simp
  · have h1 : ¬ ((b : Int) = 0) := by omega
    have h2 : ¬ ((b : Int) = -1) := by omega
    simp only [h1, h2, h, if_false, and_false, ↓reduceIte]
    rw [Int.tmod_eq_emod_of_nonneg (by omega)]
    rfl

theorem div_i32_nat (s : String) (a b : Nat) (ha : a ≤ 2147483647) : div .i32 s (a : Int) (b : Int) =
    if b = 0 then .error (.divZero s) else .ok (((a / b : Nat) : Int)) := by
  unfold div
  by_cases h : b = 0
  · subst h; simp
  · have h1 : ¬ ((b : Int) = 0) := by omega
    simp only [h1, h, if_false, ↓reduceIte]
    rw [Int.tdiv_eq_ediv_of_nonneg (by omega)]
    have e : (a : Int) / (b : Int) = ((a / b : Nat) : Int) := rfl
    rw [e]
    have : a / b ≤ a := Nat.div_le_self a b
    generalize a / b = q at this ⊢
    exact chk_ok (by in_range)

theorem mul_i32_nat (s : String) (a b : Nat) (h : a * b ≤ 2147483647) :
    mul .i32 s (a : Int) (b : Int) = .ok (((a * b : Nat) : Int)) := by
  rw [Int.natCast_mul]
  have : ((a : Int) * (b : Int)) = ((a * b : Nat) : Int) := by rw [Int.natCast_mul]
  exact mul_ok (by rw [this]; generalize a * b = q at h ⊢; in_range)

theorem decide_gt_year (a b : Nat) : decide ((⟨(a : Int)⟩ : Year) > ⟨(b : Int)⟩) = decide (b < a) := by
  have : ((⟨(a : Int)⟩ : Year) > ⟨(b : Int)⟩) ↔ b < a := by
    show (b : Int) < (a : Int) ↔ b < a
    omega
  simp only [this]

/-- THE TIE: `YearRange::next_change_hint` as the code has it now is the model's, for every `u16` range and step and
every date with an `i32` year -/
theorem yearRange_hint_agree (r : OH.Model.YearRange) (hlo : r.lo ≤ 65535) (hhi : r.hi ≤ 65535) (hst : r.step ≤ 65535)
    (d : Int) (hy : -2147483648 ≤ OH.Model.Cal.year d ∧ OH.Model.Cal.year d ≤ 2147483647) :
    AgreeDZ (YearRange.next_change_hint (genYear r) d) (OH.Model.YearRange.hint r d) := by
  obtain ⟨lo, hi, step⟩ := r
  simp only [YearRange.next_change_hint, OH.Model.YearRange.hint, genYear, Chrono.year, Chrono.DATE_END,
    Chrono.from_ymd_opt] at *
  generalize OH.Model.Cal.year d = y at hy ⊢
  by_cases c : y < 0 ∨ y > 65535
  · rw [if_pos c, tryInto_none (by in_range)]
    agree_val
  · rw [if_neg c, tryInto_some (by in_range)]
    obtain ⟨n, rfl⟩ : ∃ n : Nat, y = n := ⟨y.toNat, by omega⟩
    have one : (1 : Int).toNat = 1 := rfl
    simp only [Int.toNat_natCast, one]
    by_cases c1 : hi < lo
    · have c1' : (⟨(lo : Int)⟩ : Year) > ⟨(hi : Int)⟩ := by show (hi : Int) < (lo : Int); omega
      simp only [c1, c1', decide_true, if_true, ↓reduceIte]; agree_val
    · have c1' : ¬ (⟨(lo : Int)⟩ : Year) > ⟨(hi : Int)⟩ := by show ¬ (hi : Int) < (lo : Int); omega
      simp only [c1, c1', decide_false, Bool.false_eq_true, if_false, ↓reduceIte]
      by_cases c2 : hi < n
      · have c2' : (hi : Int) < (n : Int) := by omega
        simp only [c2, c2', decide_true, if_true, ↓reduceIte]; agree_val
      · have c2' : ¬ (hi : Int) < (n : Int) := by omega
        simp only [c2, c2', decide_false, Bool.false_eq_true, if_false, ↓reduceIte]
        by_cases c3 : n < lo
        · have c3' : (n : Int) < (lo : Int) := by omega
          simp only [c3, c3', decide_true, if_true, ↓reduceIte, bnd_ok, pure, Except.pure, bind, Except.bind]
          agree_val
        · have c3' : ¬ (n : Int) < (lo : Int) := by omega
          simp only [c3, c3', decide_false, Bool.false_eq_true, if_false, ↓reduceIte]
          by_cases c4 : step = 1
          · subst c4
            simp only [Int.natCast_one, eq_self, decide_true, if_true, ↓reduceIte, bnd_ok, pure, Except.pure, bind,
              Except.bind]
            try rs_ok
            agree_val
          · have c4' : ¬ (step : Int) = 1 := by omega
            have c4'' : ¬ (1 : Int) = (step : Int) := by omega
            simp only [c4, c4', c4'', decide_false, Bool.false_eq_true, if_false, ↓reduceIte]
            have e : (n : Int) - lo = ((n - lo : Nat) : Int) := by omega
            try rs_ok
            rw [e, rem_i32_nat]
            by_cases z : step = 0
            · simp only [z, if_true, ↓reduceIte, bnd_error, bind, Except.bind]; exact .divZero _ _
            · simp only [z, if_false, ↓reduceIte, bnd_ok]
              by_cases c5 : (n - lo) % step = 0
              · simp only [c5, Int.natCast_zero, eq_self, decide_true, if_true, ↓reduceIte, bnd_ok, pure, Except.pure, bind,
                  Except.bind]
                try rs_ok
                agree_val
              · have c5' : ¬ (((n - lo) % step : Nat) : Int) = 0 := by omega
                have c5'' : ¬ (0 : Int) = (((n - lo) % step : Nat) : Int) := by omega
                simp only [c5, c5', c5'', decide_false, Bool.false_eq_true, if_false, ↓reduceIte, bnd_ok, pure, Except.pure, bind,
                  Except.bind]
                try rs_ok
                have e2 : ((n - lo : Nat) : Int) + step - 1 = ((n - lo + step - 1 : Nat) : Int) := by omega
                simp only [e, e2]
                rw [div_i32_nat _ _ _ (by omega)]
                simp only [z, if_false, ↓reduceIte, bnd_ok]
                have hq1 : step * ((n - lo + step - 1) / step) ≤ n - lo + step - 1 := Nat.mul_div_le _ _
                rw [mul_i32_nat _ _ _ (by omega)]
                generalize step * ((n - lo + step - 1) / step) = q at hq1 ⊢
                try rs_ok
                agree_val

/-- with the steps the parser produces (≥ 1) no `.error` outcome is reachable: the hint of the code is the model's -/
theorem yearRange_hint_total (r : OH.Model.YearRange) (hlo : r.lo ≤ 65535) (hhi : r.hi ≤ 65535)
    (hst : 1 ≤ r.step ∧ r.step ≤ 65535) (d : Int)
    (hy : -2147483648 ≤ OH.Model.Cal.year d ∧ OH.Model.Cal.year d ≤ 2147483647) :
    ∃ h, YearRange.next_change_hint (genYear r) d = .ok h ∧ OH.Model.YearRange.hint r d = .ok h := by
  have h := yearRange_hint_agree r hlo hhi hst.2 d hy
  have hne : ∀ e, OH.Model.YearRange.hint r d ≠ .error e := by
    intro e
    simp only [OH.Model.YearRange.hint]
    have : ¬ r.step = 0 := by omega
    repeat' split
    all_goals simp_all [pure, Except.pure, bind, Except.bind]
  generalize YearRange.next_change_hint (genYear r) d = g at h ⊢
  generalize OH.Model.YearRange.hint r d = m at h hne ⊢
  cases h with
  | value b => exact ⟨b, rfl, rfl⟩
  | divZero s e => exact absurd rfl (hne e)

end OH.Props.ArithC02Hint
