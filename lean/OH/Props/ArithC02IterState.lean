/-
C02 on the code as it is NOW, the point queries: `OpeningHours::state`, `is_open`, `is_closed`, `is_unknown` of
`opening-hours/src/opening_hours.rs`, translated from the Rust source on every run (rs2lean, seventh increment, region
`[iter extension]`: `OH.Generated.Arith.Localize.OpeningHours.state / is_open / is_closed / is_unknown`).  The functions are
generic in `L: Localize`; they are instantiated here BY NAME with the TRANSLATED `NoLocation::naive` (`L := NoLocation`,
`L::DateTime := NaiveDateTime` = its nanosecond count), `DATE_END := instEnd`, `RuleKind::X :=` the model's kinds, and
`self.iter_range_naive(a, b).next()` (the named parameter `ext_iter_range_naive_first`) `:=` the model's
`firstIntervalG env a b` (`firstOf`; a model error read as a panic) for ANY day level `env`.

* `state_eq_model` (MAIN): the generated `state` = the model's `stateG env` (`OH/Model/Iter.lean`) for every instant of
  the type (`NaiveDateTime::MIN ≤ t`): the `>= DATE_END` shortcut, the window `t .. t + 1 minute` whose `+` cannot
  overflow below `DATE_END` (the panic outcome `NaiveDateTime + TimeDelta overflowed` is in the generated text and proved
  unreachable), the first interval's kind or `Closed`, and the panics of the iterator.
* `state_eq_model_expr`: the same at the concrete day level `envOf ctx e`: the model's `state ctx e`.
* `isOpen_eq_model`, `isClosed_eq_model`, `isUnknown_eq_model`: `state(t) == RuleKind::X`.
-/
import OH.Generated.Arith
import OH.Proofs.ArithIter
namespace OH.Props.ArithC02IterState
open OH.Model OH.Model.RustInt OH.Generated.Arith OH.Generated.Arith.Localize
open OH.Proofs.ArithEval OH.Proofs.ArithIter

/-- the translated `state`, at `NoLocation`, over the model's first interval -/
theorem state_eq_model (env : Env) (t : Int) (hmin : TzChrono.NDT_MIN ≤ t) :
    OpeningHours.state (Comments := List String) t (self_ctx_locale := NoLocation.mk)
        (ext_locale_naive := NoLocation.naive) (DATE_END := instEnd) (RuleKind_Closed := Kind.closed)
        (ext_iter_range_naive_first := firstOf env)
      = liftR (stateG env t) := by
  unfold OpeningHours.state NoLocation.naive stateG
  simp only [bnd]
  by_cases h : t ≥ instEnd
  · simp only [h, decide_true, if_true]; rfl
  · have hlt : t < instEnd := by omega
    simp only [h, decide_false, if_false, add_minute_ok hmin hlt, firstOf]
    cases firstIntervalG env t (t + nsPerMin) with
    | error s => rfl
    | ok o => cases o <;> rfl

/-- the same at the day level of an expression: the model's `state ctx e` -/
theorem state_eq_model_expr (ctx : Ctx) (e : Expr) (t : Int) (hmin : TzChrono.NDT_MIN ≤ t) :
    OpeningHours.state (Comments := List String) t (self_ctx_locale := NoLocation.mk)
        (ext_locale_naive := NoLocation.naive) (DATE_END := instEnd) (RuleKind_Closed := Kind.closed)
        (ext_iter_range_naive_first := firstOf (envOf ctx e))
      = liftR (state ctx e t) := state_eq_model (envOf ctx e) t hmin

/-- `is_open` = `state(t) == RuleKind::Open` -/
theorem isOpen_eq_model (env : Env) (t : Int) (hmin : TzChrono.NDT_MIN ≤ t) :
    OpeningHours.is_open (Comments := List String) t (self_ctx_locale := NoLocation.mk)
        (ext_locale_naive := NoLocation.naive) (DATE_END := instEnd) (RuleKind_Closed := Kind.closed)
        (ext_iter_range_naive_first := firstOf env) (RuleKind_Open := Kind.open)
      = kindIs Kind.open (stateG env t) := by
  unfold OpeningHours.is_open
  rw [state_eq_model env t hmin]
  cases stateG env t <;> rfl

/-- `is_closed` = `state(t) == RuleKind::Closed` -/
theorem isClosed_eq_model (env : Env) (t : Int) (hmin : TzChrono.NDT_MIN ≤ t) :
    OpeningHours.is_closed (Comments := List String) t (self_ctx_locale := NoLocation.mk)
        (ext_locale_naive := NoLocation.naive) (DATE_END := instEnd) (RuleKind_Closed := Kind.closed)
        (ext_iter_range_naive_first := firstOf env)
      = kindIs Kind.closed (stateG env t) := by
  unfold OpeningHours.is_closed
  rw [state_eq_model env t hmin]
  cases stateG env t <;> rfl

/-- `is_unknown` = `state(t) == RuleKind::Unknown` -/
theorem isUnknown_eq_model (env : Env) (t : Int) (hmin : TzChrono.NDT_MIN ≤ t) :
    OpeningHours.is_unknown (Comments := List String) t (self_ctx_locale := NoLocation.mk)
        (ext_locale_naive := NoLocation.naive) (DATE_END := instEnd) (RuleKind_Closed := Kind.closed)
        (ext_iter_range_naive_first := firstOf env) (RuleKind_Unknown := Kind.unknown)
      = kindIs Kind.unknown (stateG env t) := by
  unfold OpeningHours.is_unknown
  rw [state_eq_model env t hmin]
  cases stateG env t <;> rfl

end OH.Props.ArithC02IterState
