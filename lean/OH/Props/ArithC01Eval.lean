/-
C01 on the code as it is NOW: the evaluator core of opening-hours/src/opening_hours.rs — `rule_sequence_schedule_at`
and `OpeningHours::schedule_at` (the fold over the rules: normal / additional / fallback operators, the spill from the
previous day, `is_always_closed`, the comments carried by the schedules) — as translated by `translators/rs2lean.py`
(`OH.Generated.Arith.Eval.*`), ARE the hand-written model `OH/Model/Eval.lean` (`ruleScheduleAt`, `scheduleStep`,
`scheduleAt`), at the instantiation of `OH/Proofs/ArithEval.lean`: the untranslated callees `DaySelector::filter`,
`time_selector_intervals_at(_next_day)` are the model's functions (passed BY NAME; a model panic is a panic, propagated in
Rust's evaluation order), the translated `Schedule::from_ranges / addition / is_always_closed` are CALLED by the
generated code and are the model's by `ArithC14Sched*`.  Fuel: for every input there is a bound above which the result is
the model's — termination is part of the statements.  Only hypothesis: interval lists are shorter than `2^64`.
-/
import OH.Proofs.ArithEval
import OH.Props.ArithC14Sched
import OH.Props.ArithC14SchedFrom
namespace OH.Props.ArithC01Eval
open OH.Model.RustInt
open OH.Model.RustChrono
open OH.Generated.Arith
open OH.Proofs.ArithSched
open OH.Proofs.ArithEval
open OH.Model (cunion)

/-- the generated `from_ranges` on what the model's interval functions produce -/
theorem fromRanges_eq (l : List (Nat × Nat)) (k : OH.Model.Kind) (c dflt : List String) (fuel : Nat)
    (hf : l.length < fuel) (hlen : l.length < 2 ^ 64) :
    Sched.Schedule.from_ranges (mkRanges l) k c (ext_comments_default := dflt)
        (ext_sort_unstable_by_key_range_start := gSort) (ext_union := cunion) fuel
      = .ok (toG (OH.Model.Schedule.fromRanges l k c)) := by
  have := OH.Props.ArithC14SchedFrom.fromRanges_eq_model (mkRanges l) k c dflt fuel (by simpa using hf) (by simpa using hlen)
  have e : gSort = fun l => (OH.Model.Schedule.sortByStart (l.map toM)).map ofM := rfl
  rw [e]
  simpa [toG] using this

/-- the generated `addition` on model schedules -/
theorem addition_eq (a b : OH.Model.Schedule) (dflt : List String) (fuel : Nat)
    (h : fuel ≥ 2 ^ b.length * (a.length + 1) + b.length) :
    Sched.Schedule.addition (toG a) (toG b) (ext_comments_default := dflt) (ext_union := cunion) fuel
      = .ok (toG (OH.Model.Schedule.addition a b)) := by
  have := OH.Props.ArithC14Sched.addition_eq_model (toG a) (toG b) dflt fuel (by simpa [toG] using h)
  simpa [toG, Function.comp_def] using this

local macro "leaf" : tactic =>
  `(tactic| simp_all [gFilter, gIv, gIvNext, bnd, bind, Except.bind, Except.map, pure, Except.pure, optG, Chrono.pred_opt,
      Option.or])

/-- **`rule_sequence_schedule_at` IS the model's `ruleScheduleAt`** (today's intervals, the spill of yesterday's,
their overlay), panics of the callees included, for every fuel above a bound -/
theorem rule_eq_model (ctx : OH.Model.Ctx) (hs : ShortIntervals ctx) (dflt : List String) (r : GRule) (d : Int) :
    ∃ N, ∀ fuel, fuel ≥ N →
      gRule ctx dflt r d fuel = liftR (Except.map optG (OH.Model.ruleScheduleAt ctx (toRule r) d)) := by
  unfold gRule Eval.rule_sequence_schedule_at
  simp only [OH.Model.ruleScheduleAt, toRule]
  -- today
  cases hf : OH.Model.DaySelector.filter ctx r.day_selector d with
  | error s => exact ⟨0, fun fuel _ => by leaf⟩
  | ok b =>
    -- yesterday, given today's schedule `T` and a fuel bound for it
    cases b with
    | false =>
      cases hp : OH.Model.Cal.pred? d with
      | none => exact ⟨0, fun fuel _ => by leaf⟩
      | some p =>
        cases hf2 : OH.Model.DaySelector.filter ctx r.day_selector p with
        | error s => exact ⟨0, fun fuel _ => by leaf⟩
        | ok b2 =>
          cases b2 with
          | false => exact ⟨0, fun fuel _ => by leaf⟩
          | true =>
            cases hi2 : OH.Model.intervalsAtNextDay ctx r.time_selector p with
            | error s => exact ⟨0, fun fuel _ => by leaf⟩
            | ok l2 =>
              refine ⟨l2.length + 1, fun fuel h => ?_⟩
              have h2 := fromRanges_eq l2 r.kind r.comments dflt fuel (by omega) (hs _ _ _ (.inr hi2))
              leaf
    | true =>
      cases hi : OH.Model.intervalsAt ctx r.time_selector d with
      | error s => exact ⟨0, fun fuel _ => by leaf⟩
      | ok l =>
        have hl := hs _ _ _ (.inl hi)
        cases hp : OH.Model.Cal.pred? d with
        | none =>
          refine ⟨l.length + 1, fun fuel h => ?_⟩
          have h1 := fromRanges_eq l r.kind r.comments dflt fuel (by omega) hl
          leaf
        | some p =>
          cases hf2 : OH.Model.DaySelector.filter ctx r.day_selector p with
          | error s =>
            refine ⟨l.length + 1, fun fuel h => ?_⟩
            have h1 := fromRanges_eq l r.kind r.comments dflt fuel (by omega) hl
            leaf
          | ok b2 =>
            cases b2 with
            | false =>
              refine ⟨l.length + 1, fun fuel h => ?_⟩
              have h1 := fromRanges_eq l r.kind r.comments dflt fuel (by omega) hl
              leaf
            | true =>
              cases hi2 : OH.Model.intervalsAtNextDay ctx r.time_selector p with
              | error s =>
                refine ⟨l.length + 1, fun fuel h => ?_⟩
                have h1 := fromRanges_eq l r.kind r.comments dflt fuel (by omega) hl
                leaf
              | ok l2 =>
                refine ⟨l.length + 1 + (l2.length + 1)
                  + (2 ^ (OH.Model.Schedule.fromRanges l2 r.kind r.comments).length
                      * ((OH.Model.Schedule.fromRanges l r.kind r.comments).length + 1)
                    + (OH.Model.Schedule.fromRanges l2 r.kind r.comments).length), fun fuel h => ?_⟩
                have h1 := fromRanges_eq l r.kind r.comments dflt fuel (by omega) hl
                have h2 := fromRanges_eq l2 r.kind r.comments dflt fuel (by omega) (hs _ _ _ (.inr hi2))
                have h3 := addition_eq (OH.Model.Schedule.fromRanges l r.kind r.comments)
                  (OH.Model.Schedule.fromRanges l2 r.kind r.comments) dflt fuel (by omega)
                leaf

/-- the generated `is_always_closed` on a model schedule -/
theorem isAlwaysClosed_eq (s : OH.Model.Schedule) :
    Sched.Schedule.is_always_closed (toG s) (RuleKind_Closed := OH.Model.Kind.closed)
      = .ok (OH.Model.Schedule.isAlwaysClosed s) := by
  simpa using OH.Props.ArithC14Sched.isAlwaysClosed_eq_model (toG s)

/-- one iteration of the generated loop, in the shape the loop has after unfolding: see `loop_eq_model` -/
theorem loop_eq_model (ctx : OH.Model.Ctx) (hs : ShortIntervals ctx) (dflt : List String) (self : GOH)
    (hctx : self.ctx = ctx) (d : Int) (rules : List GRule) :
    ∀ (pm : Bool) (pe : Option OH.Model.Schedule), ∃ N, ∀ fuel, fuel ≥ N →
      gLoop dflt self d fuel rules pm (optG pe)
        = bnd (liftR (OH.Model.foldM' (OH.Model.scheduleStep ctx d) (pm, pe) (rules.map toRule)))
            (fun st => .ok (.next (st.1, optG st.2))) := by
  subst hctx
  induction rules with
  | nil =>
    intro pm pe
    exact ⟨0, fun fuel _ => by simp [gLoop, Eval.OpeningHours.schedule_at.loop1, OH.Model.foldM', bnd]⟩
  | cons r rest ih =>
    intro pm pe
    obtain ⟨N1, h1⟩ := rule_eq_model self.ctx hs dflt r d
    cases hf : OH.Model.DaySelector.filter self.ctx r.day_selector d with
    | error s =>
      refine ⟨0, fun fuel _ => ?_⟩
      unfold gLoop
      rw [Eval.OpeningHours.schedule_at.loop1.eq_def]
      simp [gFilter, hf, bnd, OH.Model.foldM', OH.Model.scheduleStep, toRule, bind, Except.bind]
    | ok cm =>
      cases hr : OH.Model.ruleScheduleAt self.ctx (toRule r) d with
      | error s =>
        refine ⟨N1, fun fuel h => ?_⟩
        have h1' := h1 fuel (by omega)
        unfold gRule at h1'
        unfold gLoop
        rw [Eval.OpeningHours.schedule_at.loop1.eq_def]
        simp [gFilter, hf, bnd, OH.Model.foldM', OH.Model.scheduleStep, bind, Except.bind, h1', hr, Except.map]
      | ok ce =>
        cases hstep : OH.Model.scheduleStep self.ctx d (pm, pe) (toRule r) with
        | error s =>
          exfalso
          cases hop : r.operator <;> cases hk : r.kind <;>
            simp [OH.Model.scheduleStep, hf, hr, bind, Except.bind, pure, Except.pure, hop, hk] at hstep <;>
            (split at hstep <;> cases hstep)
        | ok st' =>
          obtain ⟨Nih, hih⟩ := ih st'.1 st'.2
          refine ⟨N1 + Nadd pe ce + Nih, fun fuel h => ?_⟩
          have h1' := h1 fuel (by omega)
          have hih' := hih fuel (by omega)
          have hadd : ∀ p c, pe = some p → ce = some c →
              Sched.Schedule.addition (toG p) (toG c) (ext_comments_default := dflt) (ext_union := cunion) fuel
                = .ok (toG (OH.Model.Schedule.addition p c)) := by
            intro p c hp hc
            subst hp hc
            exact addition_eq p c dflt fuel (by simp only [Nadd] at h; omega)
          unfold gRule at h1'
          unfold gLoop at hih'
          unfold gLoop
          rw [Eval.OpeningHours.schedule_at.loop1.eq_def]
          simp only [gFilter, hf, bnd, liftR_ok, h1', hr, Except.map, OH.Model.foldM', List.map_cons, bind, Except.bind, hstep]
          cases hop : r.operator <;> cases hk : r.kind <;> cases pe <;> cases ce <;> cases cm <;>
            simp_all [OH.Model.scheduleStep, bind, Except.bind, pure, Except.pure, optG, isAlwaysClosed_eq, bnd] <;>
            first
              | (subst hstep; simp_all [optG])
              | (split at hstep <;> simp only [Except.ok.injEq] at hstep <;> subst hstep <;> simp_all [optG])

/-- **MAIN: `OpeningHours::schedule_at` IS the model's `scheduleAt`** — for every expression, context and day
(outside `DATE_START..DATE_END` the empty schedule), a panic of a callee exactly where the model has it, never the
"no arm applies" outcome of the `match` on `(operator, kind)`, for every fuel above a bound (termination) -/
theorem scheduleAt_eq_model (self : GOH) (hs : ShortIntervals self.ctx) (dflt : List String) (d : Int) :
    ∃ N, ∀ fuel, fuel ≥ N →
      gScheduleAt dflt self d fuel
        = liftR (Except.map toG (OH.Model.scheduleAt self.ctx (self.expr.rules.map toRule) d)) := by
  obtain ⟨N, hN⟩ := loop_eq_model self.ctx hs dflt self rfl d self.expr.rules false none
  refine ⟨N, fun fuel h => ?_⟩
  have hl := hN fuel h
  unfold gLoop at hl
  simp only [optG, Option.map_none] at hl
  unfold gScheduleAt Eval.OpeningHours.schedule_at
  simp only [OH.Model.scheduleAt, Range.contains, Chrono.DATE_START, Chrono.DATE_END]
  by_cases hd : OH.Model.Cal.dateStart ≤ d ∧ d < OH.Model.Cal.dateEnd
  · rw [hl]
    cases hfold : OH.Model.foldM' (OH.Model.scheduleStep self.ctx d) (false, none) (self.expr.rules.map toRule) with
    | error s => simp [hd, bnd, bind, Except.bind, Except.map]
    | ok st =>
      obtain ⟨m, e⟩ := st
      cases e <;> simp [hd, bnd, bind, Except.bind, Except.map, toG, pure, Except.pure]
  · simp only [hd, Bool.not_eq_true', Except.map, liftR_ok, toG, List.map_nil]
    split
    · rfl
    · rename_i hc
      exfalso
      simp only [Bool.not_eq_eq_eq_not, Bool.not_true, Bool.and_eq_false_imp, decide_eq_true_eq, decide_eq_false_iff_not,
        Bool.not_eq_true', Bool.not_eq_false'] at hc
      simp at hc
      exact hd ⟨of_decide_eq_true hc.1, of_decide_eq_true hc.2⟩

end OH.Props.ArithC01Eval
