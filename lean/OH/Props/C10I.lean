/-
C10, the deflate layer — the embedded BYTES decode to the source data.

`OH/Props/C10.lean` proves `decode ∘ encode` on the uncompressed stream: `decodeDb (regionNames db)`
applied to the very bytes `encodeDb db` produced.  Between the two, the real code has
`flate2::write::DeflateEncoder` (in `build.rs`) and `flate2::bufread::DeflateDecoder` (in
`decode_holidays_db`).  This file removes the former assumption `inflate (deflate x) = x`:

* `OH.Model.Inflate.inflate` is a model of the DECODER (RFC 1951: stored, fixed-Huffman and
  dynamic-Huffman blocks).  It is total by construction: every definition of `OH/Model/Inflate.lean`
  is structurally recursive (on a number of bits, a list of code-length counts, or explicit fuel;
  running out of fuel is the explicit error `errFuel`, never a result — and `inflate_fuel_suffices`
  proves it is not a possible outcome at all), no `partial`, no well-founded recursion — so the kernel
  itself can run it: §1 decides one stream per block type and one per error site.
* The ENCODER is not modelled and nothing is assumed about it.  Instead the hypothesis of every
  theorem of §2 is the fact the driver CHECKS at run time (op `hol.raw`) on the bytes that
  `include_bytes!` really embeds (read through the guarded hook `Country::verif_holiday_db`):
      `inflateNat z = encodeDb db`      and      region string `= regionNames db`
  for `db = group lines`, `lines` = what the model's reader finds in the source text file.
* `decodeHolidaysDb names z` is `decode_holidays_db` with the inflate step inside.  Under that
  hypothesis §2 restates `decode_encode`, `decode_encode_lookup`, `embedded_contains`,
  `embedded_file`, `embedded_iter` and `selectors_see` of `OH.Props.C10` for the embedded pair
  `(regionNames db, z)`, for EVERY `z` — whatever the compressor wrote, at whatever level, with
  whatever block structure.

What remains trusted about the deflate layer: that the real `DeflateDecoder` yields the same bytes as
the Lean `inflate` on the embedded streams.  This is compared only through what comes out of the
decoder (`hol.cal`: all dates, serialization hash and 8.06 M `contains` bits of the 230 calendars
equal the model pipeline's), not byte by byte.
-/
import OH.Model.Inflate
import OH.Proofs.Inflate
import OH.Props.C10
namespace OH.Props.C10I
open OH.Generated OH.Model OH.Model.Country OH.Model.HolidayDb OH.Model.CompactCalendar
open OH.Model.CompactCalendar.CompactCalendar OH.Proofs.CompactCalendar OH.Proofs.HolidayDb
open OH.Model.Inflate OH.Props.C10

/-! ## 1. the kernel runs the decoder: one stream per block type, one per error site

The streams of the first four theorems were produced by zlib (`zlib.compressobj(level, DEFLATED, -15)`,
level 0 / `Z_FIXED` / level 9), i.e. by an independent implementation of the format. -/

/-- a stored block (`BTYPE = 00`): `"holiday"` -/
theorem inflate_stored_block :
    inflateList [1, 7, 0, 248, 255, 104, 111, 108, 105, 100, 97, 121] =
      .ok [104, 111, 108, 105, 100, 97, 121] := by decide +kernel

/-- a fixed-Huffman block (`BTYPE = 01`) with an overlapping back-reference (length 9, distance 3):
`"abcabcabcabc"` -/
theorem inflate_fixed_block :
    inflateList [75, 76, 74, 78, 132, 33, 0] =
      .ok [97, 98, 99, 97, 98, 99, 97, 98, 99, 97, 98, 99] := by decide +kernel

/-- a dynamic-Huffman block (`BTYPE = 10`; code length code, run-length coded lengths incl. the
repeat symbols, literal/length and distance codes built from them), literals only -/
theorem inflate_dynamic_block :
    inflateList [5, 193, 1, 1, 0, 0, 8, 195, 160, 172, 199, 245, 207, 32, 76, 173, 75, 116, 152, 123] =
      .ok [97, 98, 100, 100, 97, 100, 99, 100, 98, 100, 98, 98, 100, 99, 98, 98, 98, 97, 98, 99] := by
  decide +kernel

/-- a dynamic-Huffman block with a back-reference (length 12, distance 20) -/
theorem inflate_dynamic_block_backref :
    inflateList [77, 200, 49, 1, 0, 0, 12, 131, 48, 173, 80, 252, 107, 216, 187, 156, 193, 162, 101,
        218, 84, 28, 239, 14] =
      .ok [97, 98, 100, 100, 97, 100, 99, 100, 98, 100, 98, 98, 100, 99, 98, 98, 98, 97, 98, 99,
           97, 98, 100, 100, 97, 100, 99, 100, 98, 100, 98, 98] := by decide +kernel

/-- two blocks in one stream (a non-final stored block, then a final fixed block); the bytes after
the final block are not looked at -/
theorem inflate_two_blocks :
    inflateList ([0, 2, 0, 253, 255, 104, 105] ++ [75, 76, 74, 78, 132, 33, 0] ++ [255, 255]) =
      .ok [104, 105, 97, 98, 99, 97, 98, 99, 97, 98, 99, 97, 98, 99] := by decide +kernel

/-- the error outcomes are explicit: block type 3, truncated input (empty stream, fixed block cut
short, stored block cut short), distance beyond the start of the output, stored length check,
length symbol 286 -/
theorem inflate_errors :
    inflateList [7] = .error errBlockType ∧
    inflateList [] = .error errTruncated ∧
    inflateList [75, 76] = .error errTruncated ∧
    inflateList [1, 7, 0, 248, 255, 104] = .error errTruncated ∧
    inflateList [3, 2] = .error errTooFar ∧
    inflateList [1, 7, 0, 0, 0] = .error errStoredLen ∧
    inflateList [27, 3] = .error errLenSym := by decide +kernel

/-- the fuel suffices: "out of fuel" is not a possible outcome of `inflate`, for any input (every
symbol consumes at least one input bit, every block at least three; `OH/Proofs/Inflate.lean`) -/
theorem inflate_fuel_suffices (z : ByteArray) : inflate z ≠ .error errFuel :=
  OH.Proofs.Inflate.inflate_ne_errFuel z

/-! ## 2. end to end: the embedded pair decodes to the source data -/

/-- the run-time fact in the form the driver evaluates it: the bytes inflate, and to the encoding -/
theorem inflateNat_eq_iff (z : ByteArray) (bytes : List Nat) :
    inflateNat z = .ok bytes ↔ ∃ out, inflate z = .ok out ∧ out.data.toList.map UInt8.toNat = bytes := by
  unfold inflateNat
  cases inflate z with
  | error e => simp
  | ok out => simp

/-- under the checked fact, `decode_holidays_db` on the embedded pair IS the model pipeline's
decoding of its own encoding (no hypothesis on the data base) -/
theorem C10_embedded_bytes_eq_model (db : Db) (z : ByteArray) (bytes : List Nat)
    (he : encodeDb db = .ok bytes) (hz : inflateNat z = encodeDb db) :
    decodeHolidaysDb (regionNames db) z = decodeDb (regionNames db) bytes := by
  unfold decodeHolidaysDb
  rw [hz, he]

/-- the same from the lines of a data file: the decoded embedded pair is what `embeddedOfLines`
computes (the maps every `hol.*` verdict of the driver is computed from) -/
theorem C10_embedded_bytes_eq_pipeline (ls : List String) (lines : List Line) (z : ByteArray)
    (hp : parseLines ls = .ok lines) (hz : inflateNat z = encodeDb (group lines)) :
    decodeHolidaysDb (regionNames (group lines)) z = embeddedOfLines ls := by
  unfold decodeHolidaysDb embeddedOfLines
  rw [hp, hz]

/-- `decode_encode` with the inflate step inside: for ANY byte string `z` that inflates to the
encoding of a `DbOK` data base, decoding the embedded pair `(regionNames db, z)` does not panic and
binds country `c` iff the code of `c` is a region of `db`, to the calendar of that region's dates -/
theorem C10_embedded_bytes_decode (db : Db) (h : DbOK db) (z : ByteArray)
    (hz : inflateNat z = encodeDb db) :
    ∃ m, decodeHolidaysDb (regionNames db) z = .ok m ∧
      ∀ c cal, mapGet m c = some cal ↔
        ∃ code ds, isVariant c = true ∧ isoCode c = some code ∧ (code, ds) ∈ db ∧ fromList ds = .ok cal := by
  obtain ⟨bytes, m, h1, h2, h3⟩ := decode_encode db h
  exact ⟨m, by rw [C10_embedded_bytes_eq_model db z bytes h1 hz, h2], h3⟩

/-- `decode_encode_lookup` with the inflate step inside: through `unwrap_or_default`, every country
gets a reachable calendar whose set is exactly its region's dates (∅ when it has no region) -/
theorem C10_embedded_bytes_lookup (db : Db) (h : DbOK db) (z : ByteArray)
    (hz : inflateNat z = encodeDb db) :
    ∃ m, decodeHolidaysDb (regionNames db) z = .ok m ∧
      ∀ c code, isVariant c = true → isoCode c = some code →
        Inv (lookup m c) ∧ ∀ q, abs (lookup m c) q = true ↔ ∃ ds, (code, ds) ∈ db ∧ q ∈ ds := by
  obtain ⟨bytes, m, h1, h2, h3⟩ := decode_encode_lookup db h
  exact ⟨m, by rw [C10_embedded_bytes_eq_model db z bytes h1 hz, h2], h3⟩

/-- `embedded_contains` with the inflate step inside — THE statement of C10 about the bytes in the
binary: if the embedded bytes `z` inflate to the encoding of the grouped lines (checked by the driver
on the real bytes), then for every country and every valid date, `contains` on the calendar decoded
from the embedded pair answers "the file lists (code, date)" -/
theorem C10_embedded_bytes_contains (lines : List Line) (h : LinesOK lines) (z : ByteArray)
    (hz : inflateNat z = encodeDb (group lines)) :
    ∃ m, decodeHolidaysDb (regionNames (group lines)) z = .ok m ∧
      ∀ c code, isVariant c = true → isoCode c = some code → ∀ q, q.valid = true →
        contains (lookup m c) q = .ok (decide ((code, q) ∈ lines)) := by
  obtain ⟨bytes, m, h1, h2, h3⟩ := embedded_contains lines h
  exact ⟨m, by rw [C10_embedded_bytes_eq_model _ z bytes h1 hz, h2], h3⟩

/-- the same from the text of the data file, through the model's reader; the region string is a
variable tied by the second checked fact -/
theorem C10_embedded_bytes_file (text : String) (lines : List Line) (regions : String) (z : ByteArray)
    (hp : parseLines (bufLines text) = .ok lines)
    (hne : lines ≠ []) (hcomma : ∀ l ∈ lines, ',' ∉ l.1.toList)
    (hr : regions = regionNames (group lines)) (hz : inflateNat z = encodeDb (group lines)) :
    ∃ m, decodeHolidaysDb regions z = .ok m ∧ embedded text = .ok m ∧
      ∀ c code, isVariant c = true → isoCode c = some code → ∀ q, q.valid = true →
        contains (lookup m c) q = .ok (decide ((code, q) ∈ lines)) := by
  obtain ⟨m, h1, h2⟩ := embedded_file text lines hp hne hcomma
  refine ⟨m, ?_, h1, h2⟩
  rw [hr, C10_embedded_bytes_eq_pipeline (bufLines text) lines z hp hz]
  exact h1

/-- `embedded_iter` with the inflate step inside: `iter()` of the calendar decoded from the embedded
pair = the sorted duplicate-free list of the file's dates for the code -/
theorem C10_embedded_bytes_iter (lines : List Line) (h : LinesOK lines) (z : ByteArray)
    (hz : inflateNat z = encodeDb (group lines)) :
    ∃ m, decodeHolidaysDb (regionNames (group lines)) z = .ok m ∧
      ∀ c code, isVariant c = true → isoCode c = some code →
        collect (iter (lookup m c)) =
          .ok (OH.Spec.DateSet.ofList ((lines.filter (fun l => l.1 == code)).map (·.2))) := by
  obtain ⟨bytes, m, h1, h2, h3⟩ := embedded_iter lines h
  exact ⟨m, by rw [C10_embedded_bytes_eq_model _ z bytes h1 hz, h2], h3⟩

/-- `selectors_see` with the inflate step inside: with the two embedded pairs decoded as
`Country::holidays` does, `PH` / `SH` match day `d` iff the public / school file lists its civil date
for the country's code -/
theorem C10_embedded_bytes_selectors (linesPub linesSchool : List Line)
    (hp : LinesOK linesPub) (hs : LinesOK linesSchool) (zp zs : ByteArray)
    (hzp : inflateNat zp = encodeDb (group linesPub)) (hzs : inflateNat zs = encodeDb (group linesSchool)) :
    ∃ mp ms,
      decodeHolidaysDb (regionNames (group linesPub)) zp = .ok mp ∧
      decodeHolidaysDb (regionNames (group linesSchool)) zs = .ok ms ∧
      ∀ c code, isVariant c = true → isoCode c = some code → ∀ d, OH.Model.Cal.inRange d = true →
        WeekDayRange.filter (ctxOfHolidays (holidays mp ms c)) (.holiday .pub 0) d =
          .ok (decide ((code, OH.Proofs.HolidaySelectors.dateOfDay d) ∈ linesPub)) ∧
        WeekDayRange.filter (ctxOfHolidays (holidays mp ms c)) (.holiday .school 0) d =
          .ok (decide ((code, OH.Proofs.HolidaySelectors.dateOfDay d) ∈ linesSchool)) := by
  obtain ⟨bp, mp, bs, ms, p1, p2, s1, s2, h⟩ := selectors_see linesPub linesSchool hp hs
  exact ⟨mp, ms, by rw [C10_embedded_bytes_eq_model _ zp bp p1 hzp, p2],
    by rw [C10_embedded_bytes_eq_model _ zs bs s1 hzs, s2], h⟩

/-! ## non-vacuity: a byte string meeting the hypothesis, end to end in the kernel

`sampleLines` of `OH.Props.C10` (4 regions, one not a country), its encoding wrapped in ONE stored
block by the trivial encoder below: the hypothesis `inflateNat z = encodeDb (group sampleLines)`
holds and `contains` on the decoded embedded pair finds the listed date. -/

/-- the trivial raw-deflate encoder for short inputs: one final stored block -/
def storedEncode (bytes : List Nat) : ByteArray :=
  let n := bytes.length
  ⟨(([1, n % 256, n / 256, 255 - n % 256, 255 - n / 256] ++ bytes).map UInt8.ofNat).toArray⟩

def sampleZ : ByteArray :=
  match encodeDb (group sampleLines) with
  | .ok bytes => storedEncode bytes
  | .error _ => ByteArray.empty

example : LinesOK sampleLines := by decide
example : inflateNat sampleZ = encodeDb (group sampleLines) := by decide +kernel
example : (decodeHolidaysDb (regionNames (group sampleLines)) sampleZ).toOption.map
      (fun m => (contains (lookup m "FR") ⟨2024, 7, 14⟩, contains (lookup m "FR") ⟨2024, 7, 15⟩,
        contains (lookup m "ZW") ⟨2024, 7, 14⟩)) =
    some (.ok true, .ok false, .ok false) := by decide +kernel
/-- sharpness: one bit of the stream flipped and the hypothesis is false (the check is not vacuous) -/
example : inflateNat (sampleZ.set! 9 ((sampleZ.get! 9) ^^^ 1)) ≠ encodeDb (group sampleLines) := by
  decide +kernel

end OH.Props.C10I
