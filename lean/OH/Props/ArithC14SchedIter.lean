/-
C14 on the code as it is NOW: the day iterator of `opening-hours/src/schedule.rs` (`IntoIter::new`, `pre_yield`, `next`
and the `while let Some(next_range) = self.ranges.peek()` loop of `next`), translated from the Rust source
(`OH.Generated.Arith.Sched.IntoIter.*`, abstract `Time` / `Kind` / `Comments`), instantiated at the carriers of the
hand-written model `OH/Model/Schedule.lean` (`Time := Nat`, `Kind := OH.Model.Kind`, `Comments := List String`,
`MIDNIGHT_00 := 0`, `MIDNIGHT_24 := 1440`, `RuleKind_Closed := Kind.closed`, `UniqueSortedVec::new() := []`,
`UniqueSortedVec::union := cunion`), is tied to the model `IterState.new` / `nextLoop` / `next`.

* `iterNew_eq_model`: `IntoIter::new` is `IterState.new`.
* `preYield_spec`: `pre_yield` yields the value and moves `last_end`, or fails with the `assert!`.
* `next_loop` (with `loop_eq`, `nextLoop_eq`): for every fuel above the number of remaining ranges the generated loop
  neither runs out of fuel nor hits an `unwrap()`; it computes the model's loop.
* `next_agree` (main): for every iterator state and every fuel above the number of remaining ranges, the generated
  `next` corresponds (`Corr`) to the model's `next`.
* `next_total_of_model`: if the model's `next` does not panic, the generated `next` is a value.
-/
import OH.Generated.Arith
import OH.Proofs.RustInt
import OH.Proofs.ArithSched
namespace OH.Props.ArithC14SchedIter
open OH.Model.RustInt
open OH.Generated.Arith
open OH.Model (Kind cunion)
open OH.Model.Schedule (IterState nextStart extendHole nextLoop nextRaw NextResult midnight24)
open OH.Proofs.ArithSched

/-- the generated loop at the model's carriers -/
abbrev gLoop (fuel : Nat) (self : GIter) (y : GTR) : R (Flow (Option GTR) (GIter × GTR)) :=
  Sched.IntoIter.next.loop1 fuel self y (MIDNIGHT_24 := 1440) (RuleKind_Closed := Kind.closed)
    (ext_comments_new := []) (ext_union := cunion)

/-- the generated `next` at the model's carriers -/
abbrev gNext (self : GIter) (fuel : Nat) : R (Option GTR × GIter) :=
  Sched.IntoIter.next self (MIDNIGHT_24 := 1440) (RuleKind_Closed := Kind.closed)
    (ext_comments_new := []) (ext_union := cunion) fuel

/-- generated iterator state ↦ the model's -/
def stM (st : GIter) : IterState := ⟨st.last_end, st.ranges.map toM⟩

theorem iterNew_eq_model (s : GSched) :
    Sched.IntoIter.new s (MIDNIGHT_00 := 0) = .ok ⟨0, s.inner⟩
    ∧ stM ⟨0, s.inner⟩ = IterState.new (s.inner.map toM) := by
  exact ⟨rfl, rfl⟩

theorem preYield_spec (self : GIter) (v : GTR) :
    Sched.IntoIter.pre_yield self v =
      if v.range.start < v.range.«end» then .ok (some v, { self with last_end := v.range.«end» })
      else .error (.panic "infinite loop detected") := by
  by_cases h : v.range.start < v.range.«end» <;> simp [Sched.IntoIter.pre_yield, h]

/-- the `while let` loop of `next` alone (the model's `nextLoop` without the code after the loop) -/
def loopM (y : OH.Model.TimeRange) : List OH.Model.TimeRange → OH.Model.TimeRange × List OH.Model.TimeRange
  | [] => (y, [])
  | n :: rest =>
    if n.s > y.e ∧ y.kind ≠ Kind.closed then (y, n :: rest)
    else if (extendHole y n).kind ≠ n.kind then (extendHole y n, n :: rest)
    else loopM ⟨(extendHole y n).s, n.e, (extendHole y n).kind, cunion (extendHole y n).comments n.comments⟩ rest

/-- the code after the loop: "extend with the last hole" -/
def finish (y : OH.Model.TimeRange) : OH.Model.TimeRange :=
  if y.kind = Kind.closed then { y with e := midnight24 } else y

/-- the model's `nextLoop` is the loop followed by the code after the loop -/
theorem nextLoop_eq (y : OH.Model.TimeRange) (rs : List OH.Model.TimeRange) :
    nextLoop y rs = match loopM y rs with
      | (y', []) => (finish y', [])
      | (y', n :: rest) => (y', n :: rest) := by
  fun_induction loopM y rs with
  | case1 y => simp [nextLoop, finish]
  | case2 y n rest h => simp [nextLoop, h]
  | case3 y n rest h1 h2 => simp [nextLoop, h1, h2]
  | case4 y n rest h1 h2 ih => rw [nextLoop]; simp only [h1, h2, if_false]; exact ih

/-- how the generated loop is left, given the result of the model's loop and the (unchanged) `last_end` -/
def loopOut (le : Nat) (m : OH.Model.TimeRange × List OH.Model.TimeRange) : R (Flow (Option GTR) (GIter × GTR)) :=
  match m.2 with
  | [] => .ok (.next (⟨le, []⟩, ofM m.1))
  | n :: rest =>
    bnd (Sched.IntoIter.pre_yield (⟨le, (n :: rest).map ofM⟩ : GIter) (ofM m.1)) fun t => .ok (.ret t.1 (t.2, ofM m.1))

theorem loop_eq (le : Nat) : ∀ (rs : List GTR) (y : GTR) (fuel : Nat), fuel > rs.length →
    gLoop fuel ⟨le, rs⟩ y = loopOut le (loopM (toM y) (rs.map toM)) := by
  intro rs
  induction rs with
  | nil =>
    intro y fuel hf
    obtain ⟨k, rfl⟩ : ∃ k, fuel = k + 1 := ⟨fuel - 1, by omega⟩
    simp [gLoop, Sched.IntoIter.next.loop1, loopM, loopOut]
  | cons n rest ih =>
    intro y fuel hf
    obtain ⟨k, rfl⟩ : ∃ k, fuel = k + 1 := ⟨fuel - 1, by simp only [List.length_cons] at hf; omega⟩
    have hk : k > rest.length := by simp only [List.length_cons] at hf; omega
    have hcomp : ofM ∘ toM = id := by funext t; rfl
    obtain ⟨⟨ys, ye⟩, yk, yc⟩ := y
    obtain ⟨⟨ns, ne⟩, nk, nc⟩ := n
    by_cases h1 : ns > ye <;> by_cases h2 : yk = Kind.closed <;> by_cases h3 : yk = nk
    all_goals
      try subst h3
      try subst h2
      simp only [gLoop, Sched.IntoIter.next.loop1, List.head?, List.map_cons, loopM, extendHole, iterNext]
      simp [*, loopOut, toM, ofM, bnd, ih _ _ hk]
/-- the loop of `next`, relative to the model's `nextLoop` (which includes the code after the loop, `finish`):
when the model stops before a range `n`, the generated loop `return`s what `pre_yield` gives (possibly the `assert!`);
when the ranges run out, the generated loop ends normally with a `yielded_range` that `finish` maps to the model's. -/
theorem next_loop (self : GIter) (y : GTR) (fuel : Nat) (hf : fuel > self.ranges.length) :
    match nextLoop (toM y) (self.ranges.map toM) with
    | (y', n :: rest) =>
      gLoop fuel self y =
        bnd (Sched.IntoIter.pre_yield (⟨self.last_end, (n :: rest).map ofM⟩ : GIter) (ofM y'))
          fun t => .ok (.ret t.1 (t.2, ofM y'))
    | (m, []) => ∃ y', gLoop fuel self y = .ok (.next (⟨self.last_end, []⟩, y')) ∧ m = finish (toM y') := by
  obtain ⟨le, rs⟩ := self
  rw [nextLoop_eq, loop_eq le rs y fuel hf]
  rcases hm : loopM (toM y) (rs.map toM) with ⟨y', _ | ⟨n, rest⟩⟩
  · exact ⟨ofM y', by simp [loopOut], by simp⟩
  · simp [loopOut]

/-- the correspondence between the outcome of the generated `next` (from the state `st`) and the model's -/
def Corr (st : GIter) (g : R (Option GTR × GIter)) : NextResult → Prop
  | .done => g = .ok (none, st)
  | .yield v st' => g = .ok (some (ofM v), ⟨st'.lastEnd, st'.ranges.map ofM⟩)
  | .panic _ => g = .error (.panic "infinite loop detected")

theorem toM_mk (a b : Nat) (k : Kind) (c : List String) : toM ⟨⟨a, b⟩, k, c⟩ = ⟨a, b, k, c⟩ := rfl

theorem next_agree (st : GIter) (fuel : Nat) (hf : fuel > st.ranges.length) :
    Corr st (gNext st fuel) (OH.Model.Schedule.next (stM st)) := by
  obtain ⟨le, rs⟩ := st
  by_cases h0 : le ≥ 1440
  · simp [gNext, Sched.IntoIter.next, OH.Model.Schedule.next, stM, h0, Corr]
  · have h0' : le < 1440 := by omega
    cases rs with
    | nil =>
      simp [gNext, Sched.IntoIter.next, OH.Model.Schedule.next, stM, h0, h0', Corr, nextRaw, nextStart,
        Sched.TimeRange.new, loop_eq le [] _ fuel hf, loopM, loopOut, nextLoop, preYield_spec, midnight24, ofM]
    | cons n rest =>
      have hf' : fuel > rest.length := by simp only [List.length_cons] at hf; omega
      by_cases hs : n.range.start = le
      · rcases hm : loopM (toM n) (rest.map toM) with ⟨y', _ | ⟨n', rest'⟩⟩
        · simp [gNext, Sched.IntoIter.next, OH.Model.Schedule.next, stM, h0, hs, nextRaw, nextStart,
            iterNext, loop_eq le rest _ fuel hf', nextLoop_eq, hm, loopOut, preYield_spec, finish, midnight24]
          by_cases hk : y'.kind = Kind.closed
          · by_cases hl : y'.s < 1440 <;> simp [hk, hl, Corr, ofM]
          · by_cases hl : y'.s < y'.e <;> simp [hk, hl, Corr, ofM]
        · simp [gNext, Sched.IntoIter.next, OH.Model.Schedule.next, stM, h0, hs, nextRaw, nextStart,
            iterNext, loop_eq le rest _ fuel hf', nextLoop_eq, hm, loopOut, preYield_spec, midnight24]
          by_cases hl : y'.s < y'.e <;> simp [hl, Corr, ofM]
      · rcases hm : loopM ⟨le, n.range.start, Kind.closed, []⟩ (toM n :: rest.map toM) with ⟨y', _ | ⟨n', rest'⟩⟩
        · simp [gNext, Sched.IntoIter.next, OH.Model.Schedule.next, stM, h0, hs, nextRaw, nextStart,
            Sched.TimeRange.new, toM_mk, loop_eq le (n :: rest) _ fuel hf, nextLoop_eq, hm, loopOut, preYield_spec,
            finish, midnight24]
          by_cases hk : y'.kind = Kind.closed
          · by_cases hl : y'.s < 1440 <;> simp [hk, hl, Corr, ofM]
          · by_cases hl : y'.s < y'.e <;> simp [hk, hl, Corr, ofM]
        · simp [gNext, Sched.IntoIter.next, OH.Model.Schedule.next, stM, h0, hs, nextRaw, nextStart,
            Sched.TimeRange.new, toM_mk, loop_eq le (n :: rest) _ fuel hf, nextLoop_eq, hm, loopOut, preYield_spec,
            midnight24]
          by_cases hl : y'.s < y'.e <;> simp [hl, Corr, ofM]

/-- if the model's `next` does not panic, the generated `next` is a value (no `assert!`, no `unwrap()` panic, no fuel
exhaustion) -/
theorem next_total_of_model (st : GIter) (fuel : Nat) (hf : fuel > st.ranges.length)
    (hnp : ∀ v, OH.Model.Schedule.next (stM st) ≠ NextResult.panic v) :
    ∃ r, gNext st fuel = .ok r := by
  have h := next_agree st fuel hf
  cases hm : OH.Model.Schedule.next (stM st) with
  | done => rw [hm] at h; exact ⟨_, h⟩
  | yield v st' => rw [hm] at h; exact ⟨_, h⟩
  | panic v => exact absurd hm (hnp v)

end OH.Props.ArithC14SchedIter
