/-
C01 on the code as it is NOW: `utils::dates::easter` (opening-hours/src/utils/dates.rs), the only
arithmetic the day-selector evaluation of C01 does itself, is translated from the Rust source on every
run (`translators/rs2lean.py` → `OH.Generated.Arith.Dates.easter`: the `i32` arithmetic with every
overflow an explicit outcome, the two `try_into().expect(..)` explicit panic outcomes, and — the final
`NaiveDate::from_ymd_opt(year, month, day)` being a library call — the triple of its arguments as the
result).  For EVERY `i32` year this file proves that the generated definition

 (a) never reaches an overflow or panic outcome (so the function behaves the same with and without
     overflow checks; in particular `easter(i32::MIN)` and `easter(i32::MAX)`, which the crate's unit
     test calls, are not overflows: they return `None` because chrono rejects the year), and
 (b) computes exactly the arguments on which the hand-written model `OH.Model.Cal.easter` calls its
     `ofYmd?`, so model and code agree on every `i32`;

and restates the model's Easter theorems (`OH/Props/Calendar.lean`) on the generated definition.
-/
import OH.Generated.Arith
import OH.Proofs.RustInt
import OH.Props.Calendar
namespace OH.Props.ArithC01
open OH.Model.RustInt OH.Model.Cal
open OH.Generated.Arith

/-- `NaiveDate::from_ymd_opt` on the argument triple the generated function returns (`i32`, `u32`, `u32`) -/
def fromYmdArgs (r : Int × Int × Int) : Option Day := ofYmd? r.1 r.2.1.toNat r.2.2.toNat

/-- (a) + (b): for every `i32` year the generated `easter` returns (without overflow or panic) the
year and a non-negative month and day, and the hand-written model is `from_ymd_opt` of exactly these -/
theorem easter_eq_model (y : Int) (hy : -2147483648 ≤ y ∧ y ≤ 2147483647) :
    ∃ m d, Dates.easter y = .ok (y, m, d) ∧ 0 ≤ m ∧ 0 ≤ d ∧
      OH.Model.Cal.easter y = .ok (fromYmdArgs (y, m, d)) := by
  simp only [Dates.easter, OH.Model.Cal.easter, fromYmdArgs]
  have ha := tmod_lt y (c := 19) (by omega)
  generalize y.tmod 19 = a at *
  have hb : -21474836 ≤ y.tdiv 100 ∧ y.tdiv 100 ≤ 21474836 := by
    rcases tdiv_cases y 100 with ⟨_, e⟩ | ⟨_, e⟩ <;> omega
  generalize y.tdiv 100 = b at *
  have hc := tmod_lt y (c := 100) (by omega)
  generalize y.tmod 100 = c at *
  have hd := tdiv_le b (c := 4) (by omega) hb.1 hb.2 (by omega) (by omega)
  generalize b.tdiv 4 = d at *
  have he := tmod_lt b (c := 4) (by omega)
  generalize b.tmod 4 = e at *
  rs_ok
  have hf := tdiv_le (b + 8) (c := 25) (lo := -21474828) (hi := 21474844) (by omega) (by omega) (by omega)
    (by omega) (by omega)
  generalize (b + 8).tdiv 25 = f at *
  rs_ok
  have hg := tdiv_le (b - f + 1) (c := 3) (lo := -42949679) (hi := 42949665) (by omega) (by omega) (by omega)
    (by omega) (by omega)
  generalize (b - f + 1).tdiv 3 = g at *
  rs_ok
  have hh := tmod_lt (19 * a + b - d - g + 15) (c := 30) (by omega)
  generalize (19 * a + b - d - g + 15).tmod 30 = h at *
  have hi := tdiv_le c (c := 4) (lo := -100) (hi := 100) (by omega) (by omega) (by omega) (by omega) (by omega)
  generalize c.tdiv 4 = i at *
  have hk := tmod_lt c (c := 4) (by omega)
  generalize c.tmod 4 = k at *
  rs_ok
  have hl := tmod_lt (32 + 2 * e + 2 * i - h - k) (c := 7) (by omega)
  generalize (32 + 2 * e + 2 * i - h - k).tmod 7 = l at *
  rs_ok
  have hm := tdiv_451_bounds (a + 11 * h + 22 * l) (by omega) (by omega)
  generalize (a + 11 * h + 22 * l).tdiv 451 = m at *
  rs_ok
  have hx : 0 ≤ h + l - 7 * m + 114 := by omega
  rw [Int.tdiv_eq_ediv_of_nonneg hx, Int.tmod_eq_emod_of_nonneg hx]
  rs_ok
  refine ⟨_, _, rfl, by omega, by omega, ?_⟩
  rw [if_neg (by omega), if_neg (by omega)]

/-- (a) no `i32` overflow, no `expect` panic, for every `i32` year -/
theorem easter_total (y : Int) (hy : -2147483648 ≤ y ∧ y ≤ 2147483647) : ∃ r, Dates.easter y = .ok r := by
  obtain ⟨m, d, h, _⟩ := easter_eq_model y hy
  exact ⟨_, h⟩

/-- (b) as one equation: the model is `from_ymd_opt` applied to what the code computes -/
theorem easter_model_of_generated (y : Int) (hy : -2147483648 ≤ y ∧ y ≤ 2147483647)
    (r : Int × Int × Int) (hr : Dates.easter y = .ok r) :
    OH.Model.Cal.easter y = .ok (fromYmdArgs r) := by
  obtain ⟨m, d, h, _, _, hm⟩ := easter_eq_model y hy
  rw [h] at hr
  cases hr
  exact hm

/-- the first component is the year that was passed -/
theorem easter_year (y : Int) (hy : -2147483648 ≤ y ∧ y ≤ 2147483647) (r : Int × Int × Int)
    (hr : Dates.easter y = .ok r) : r.1 = y := by
  obtain ⟨m, d, h, _⟩ := easter_eq_model y hy
  rw [h] at hr
  cases hr
  rfl

/-- Easter on the generated code: for every year `0 ≤ y ≤ 262142` (chrono's last year) the arguments the
code passes to `from_ymd_opt` are a valid date of year `y`, between March 22 and April 25, a Sunday -/
theorem gen_easter_spec (y : Int) (h0 : 0 ≤ y) (h1 : y ≤ maxYear) :
    ∃ r day, Dates.easter y = .ok r ∧ fromYmdArgs r = some day ∧ year day = y ∧
      ymdRaw y 3 22 ≤ day ∧ day ≤ ymdRaw y 4 25 ∧ weekday day = 6 := by
  have hy : -2147483648 ≤ y ∧ y ≤ 2147483647 := by unfold maxYear at h1; omega
  obtain ⟨m, d, h, _, _, hm⟩ := easter_eq_model y hy
  obtain ⟨day, hd, hyr, lo, hi, hw⟩ := OH.Props.Calendar.easter_spec_all y h0 h1
  rw [hm] at hd
  have : fromYmdArgs (y, m, d) = some day := by
    injection hd
  exact ⟨_, day, h, this, hyr, lo, hi, hw.2⟩

/-- in the supported window 1900–9999 the date also lies inside `DATE_START … DATE_END` -/
theorem gen_easter_window (y : Int) (h0 : 1900 ≤ y) (h1 : y ≤ 9999) :
    ∃ r day, Dates.easter y = .ok r ∧ fromYmdArgs r = some day ∧ year day = y ∧
      weekday day = 6 ∧ dateStart ≤ day ∧ day < dateEnd := by
  obtain ⟨m, d, h, _, _, hm⟩ := easter_eq_model y (by omega)
  obtain ⟨day, hd, hyr, _, _, hw, hs, he⟩ := OH.Props.Calendar.easter_spec y h0 h1
  rw [hm] at hd
  have : fromYmdArgs (y, m, d) = some day := by
    injection hd
  exact ⟨_, day, h, this, hyr, hw, hs, he⟩

/-- outside chrono's years `from_ymd_opt` rejects the triple: this — not an overflow — is why the
crate's unit test sees `None` for `i32::MIN` and `i32::MAX` -/
theorem gen_easter_none_outside (y : Int) (hy : -2147483648 ≤ y ∧ y ≤ 2147483647)
    (ho : y < minYear ∨ maxYear < y) :
    ∃ r, Dates.easter y = .ok r ∧ fromYmdArgs r = none := by
  obtain ⟨m, d, h, _⟩ := easter_eq_model y hy
  refine ⟨_, h, ?_⟩
  unfold fromYmdArgs ofYmd?
  rw [if_neg (by omega)]

/-! non-vacuity: the values of the crate's unit test (`test_easter`), on the generated definition -/
example : Dates.easter 2024 = .ok (2024, 3, 31) ∧ Dates.easter 1901 = .ok (1901, 4, 7) ∧
    Dates.easter 3000 = .ok (3000, 4, 13) ∧ Dates.easter 2038 = .ok (2038, 4, 25) := ⟨rfl, rfl, rfl, rfl⟩
example : ∃ m d, Dates.easter (-2147483648) = .ok (-2147483648, m, d) ∧
    fromYmdArgs (-2147483648, m, d) = none := ⟨_, _, rfl, rfl⟩
example : ∃ m d, Dates.easter 2147483647 = .ok (2147483647, m, d) ∧
    fromYmdArgs (2147483647, m, d) = none := ⟨_, _, rfl, rfl⟩

end OH.Props.ArithC01
