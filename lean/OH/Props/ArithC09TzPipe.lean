/-
C09 on the code as it is NOW, second part: the localisation pipeline of `OpeningHours::iter_range`
(`opening-hours/src/opening_hours.rs`: filter the naive stream with `naive(datetime(start)) < end`, merge consecutive
kept ranges of one kind with `Peekable::next_if`, map the bounds with `datetime`), translated from the Rust source on
every run (`OH.Generated.Arith.Localize.OpeningHours.iter_range`, `.next` = one call of the `from_fn` closure, `.loop1` =
the merging `while let`).  The function is generic in `L: Localize`: `L`, `L::DateTime` are type parameters, `locale.naive`
/ `locale.datetime` NAMED parameters — instantiated here BY NAME with the TRANSLATED `TzLocation::naive` / `datetime`
(`gNaive`, `gDatetime F`: the functions of `OH/Props/ArithC09Tz.lean`), `DATE_END := instEnd`,
`self.ctx.locale := ⟨z, c⟩`; `self.iter_range_naive(a, b)` is a parameter standing for the list of items the naive
iterator yields (`src`; the naive iterator itself is C02's).  The `Peekable<Filter<..>>` is `FilterPeek`
(OH/Model/RustTz.lean): the predicate runs LAZILY, interleaved with merging and mapping, as in Rust.

* `keep_eq_model`: the filter closure = the model's `keepRange` (value or the same panic), for every range.
* `merge_eq_model`: what the `while let .. next_if` loop merges = the model's `mergeRanges`.
* `mapBounds_eq_model`: the final `locale.datetime(..)..locale.datetime(..)` = the model's `mapInterval`.
* `lazy_pipeline` (generic: ANY predicate total on the source, ANY `datetime` function, ANY abstract `Kind`/`Comments`):
  the collected `from_fn` iterator = map-in-order (first failure wins) of merge of filter; the loop never runs out of
  fuel above `source length + 1`.
* `iterFrom_eq_model`: `iter_from(t)` = `iter_range(t, locale.datetime(DATE_END))`.
* `nextChange_eq_model`: `next_change` = `iter_from(t).next()` = ONE call of the closure on the fresh iterator: the first
  filtered-and-merged range, its bounds mapped, `None` when its end reads `DATE_END` or later.
* `iterRange_eq_model` (MAIN): for every zone table, every source list whose filter closure does not panic
  (`keepRange` total on it: `OH.Props.C09.datetime_no_panic` gives that for tables ending before `NaiveDateTime::MAX`),
  the translated `iter_range` = `localizeRanges` of `OH/Model/Tz.lean` (filter → merge → map), panics of the bound
  mapping included, for every fuel above the length of the source.
-/
import OH.Generated.Arith
import OH.Proofs.ArithTzPipeZone
namespace OH.Props.ArithC09TzPipe
open OH.Model OH.Model.Tz OH.Model.RustInt OH.Model.RustTzZone
open OH.Generated.Arith OH.Generated.Arith.Localize
open OH.Proofs.ArithTz OH.Proofs.ArithTzPipe OH.Proofs.ArithTzPipeZone

/-- the filter closure `|dtr| locale.naive(locale.datetime(dtr.range.start)) < dtr.range.end`, with the translated
`TzLocation::datetime` / `naive` for `locale`, is the model's `keepRange` -/
theorem keep_eq_model (z : Zone) (c : Option Unit) (F : Nat) (x : DN) (h : OKb z F x.range.start) :
    gKeep F ⟨z, c⟩ x = liftM (keepRange z (toIv x)) := gKeep_eq z c F x h

/-- merging on the generated carrier is the model's `mergeRanges` -/
theorem merge_eq_model (l : List DN) : (mergeRangesG l).map toIv = mergeRanges (l.map toIv) := mergeRangesG_eq l

/-- mapping the bounds is the model's `mapInterval` -/
theorem mapBounds_eq_model (z : Zone) (c : Option Unit) (F : Nat) (x : DN) (h1 : OKb z F x.range.start)
    (h2 : OKb z F x.range.«end») :
    mapB (gDatetime F) (⟨z, c⟩ : Loc) x
      = (match mapInterval z (toIv x) with
          | .ok iv => .ok (ofIvD z iv)
          | .error s => .error (panicOf s)) := mapB_eq z c F x h1 h2

/-- the lazy pipeline, generically: filter, merge, map in order -/
theorem lazy_pipeline {L DT Kind Comments : Type} [DecidableEq Kind] (p : DTRn Kind Comments → R Bool)
    (q : DTRn Kind Comments → Bool) (dtf : L → Int → R DT) (locale : L) (l : List (DTRn Kind Comments))
    (hp : ∀ x ∈ l, p x = .ok (q x)) (fuel : Nat) (hfuel : l.length + 1 ≤ fuel) :
    fromFn (fun s => OpeningHours.iter_range.next fuel locale s p (ext_locale_datetime := dtf)) fuel ⟨l, none⟩
      = mapMR (mapB dtf locale) (mergeRangesG (l.filter q)) := by
  have hwf : WF (⟨l, none⟩ : FilterPeek (DTRn Kind Comments)) := by intro hc; cases hc
  have hlen : (mergeRangesG (l.filter q)).length ≤ l.length :=
    Nat.le_trans (mergeRangesG_length _) (List.length_filter_le q l)
  exact fromFn_spec p q dtf locale fuel fuel ⟨l, none⟩ hwf hp hfuel (by
    show (mergeRangesG (l.filter q)).length + 1 ≤ fuel
    omega)

theorem cmpMin_eq_min (a b : Int) : cmpMin a b = min a b := by
  unfold cmpMin
  simp only [Int.min_def]
  split <;> split <;> omega

/-- MAIN: the translated `iter_range` at a zone table = the model's filter → merge → map -/
theorem iterRange_eq_model (z : Zone) (c : Option Unit) («from» to : DateTime) (nf nt : Int) (l : List DN)
    (src : Int → Int → R (List DN)) (F fuel : Nat)
    (hf : naiveChecked z «from».utc = .ok nf) (ht : naiveChecked z to.utc = .ok nt)
    (hsrc : src (min instEnd nf) (min instEnd nt) = .ok l)
    (hb : ∀ x ∈ l, OKb z F x.range.start ∧ OKb z F x.range.«end»)
    (hk : ∀ x ∈ l, ∃ b, keepRange z (toIv x) = .ok b)
    (hfuel : l.length + 1 ≤ fuel) :
    OpeningHours.iter_range «from» to (self_ctx_locale := (⟨z, c⟩ : Loc)) (DATE_END := instEnd)
        (ext_locale_naive := gNaive) (ext_iter_range_naive := src) (ext_locale_datetime := gDatetime F) fuel
      = liftL z (localizeRanges z (l.map toIv)) := by
  have bnd_ok : ∀ {α β : Type} (a : α) (f : α → R β), bnd (.ok a) f = f a := fun _ _ => rfl
  have hnf : gNaive (⟨z, c⟩ : Loc) «from» = .ok nf := by rw [gNaive_eq, hf]; rfl
  have hnt : gNaive (⟨z, c⟩ : Loc) to = .ok nt := by rw [gNaive_eq, ht]; rfl
  unfold OpeningHours.iter_range
  simp only []
  rw [hnf, bnd_ok, hnt, bnd_ok, cmpMin_eq_min, cmpMin_eq_min, hsrc, bnd_ok]
  have hp : ∀ x ∈ l, gKeep F (⟨z, c⟩ : Loc) x = .ok (keepB z x) := by
    intro x hx
    rw [gKeep_eq z c F x (hb x hx).1]
    obtain ⟨b, hb'⟩ := hk x hx
    simp only [keepB, hb', OH.Proofs.ArithTz.liftM]
  have := lazy_pipeline (gKeep F (⟨z, c⟩ : Loc)) (keepB z) (gDatetime F) (⟨z, c⟩ : Loc) l hp fuel hfuel
  unfold gKeep at this
  rw [this]
  unfold localizeRanges
  rw [filterRanges_total z l hk]
  simp only []
  rw [← mergeRangesG_eq]
  exact mapMR_eq z c F _ (mergeRangesG_bounds (OKb z F) _ (fun x hx => hb x (List.mem_filter.mp hx).1))

/-- `iter_from(t)` = `iter_range(t, locale.datetime(DATE_END))`, collected -/
theorem iterFrom_eq_model (z : Zone) (c : Option Unit) (t : DateTime) (nf nt e : Int) (l : List DN)
    (src : Int → Int → R (List DN)) (F fuel : Nat)
    (hf : naiveChecked z t.utc = .ok nf) (hFe : OKb z F instEnd) (he : Tz.datetime z instEnd = .ok e)
    (ht : naiveChecked z e = .ok nt)
    (hsrc : src (min instEnd nf) (min instEnd nt) = .ok l)
    (hb : ∀ x ∈ l, OKb z F x.range.start ∧ OKb z F x.range.«end»)
    (hk : ∀ x ∈ l, ∃ b, keepRange z (toIv x) = .ok b)
    (hfuel : l.length + 1 ≤ fuel) :
    OpeningHours.iter_from t (self_ctx_locale := (⟨z, c⟩ : Loc)) (DATE_END := instEnd)
        (ext_locale_datetime := gDatetime F) (ext_locale_naive := gNaive) (ext_iter_range_naive := src) fuel
      = liftL z (localizeRanges z (l.map toIv)) := by
  have hde : gDatetime F (⟨z, c⟩ : Loc) instEnd = .ok ⟨e, z⟩ := by rw [gDatetime_eq z c F _ hFe, he]; rfl
  unfold OpeningHours.iter_from
  rw [hde]
  simp only [bnd]
  rw [iterRange_eq_model z c t ⟨e, z⟩ nf nt l src F fuel hf ht hsrc hb hk hfuel]
  cases liftL z (localizeRanges z (l.map toIv)) <;> rfl

/-- `next_change` (through `iter_from(..).next()`: ONE call of the `from_fn` closure on the fresh iterator): the first range of
filter → merge, its bounds mapped, `None` when its end reads `DATE_END` or later on the wall clock — panics of the mapping and
of `naive` included; later ranges are neither filtered nor mapped -/
theorem nextChange_eq_model (z : Zone) (c : Option Unit) (t : DateTime) (nf nt e : Int) (l : List DN)
    (src : Int → Int → R (List DN)) (F fuel : Nat)
    (hf : naiveChecked z t.utc = .ok nf) (hFe : OKb z F instEnd) (he : Tz.datetime z instEnd = .ok e)
    (ht : naiveChecked z e = .ok nt)
    (hsrc : src (min instEnd nf) (min instEnd nt) = .ok l)
    (hb : ∀ x ∈ l, OKb z F x.range.start ∧ OKb z F x.range.«end»)
    (hk : ∀ x ∈ l, ∃ b, keepRange z (toIv x) = .ok b)
    (hfuel : l.length + 1 ≤ fuel) :
    OpeningHours.next_change t (self_ctx_locale := (⟨z, c⟩ : Loc)) (DATE_END := instEnd)
        (ext_locale_datetime := gDatetime F) (ext_locale_naive := gNaive) (ext_iter_range_naive := src) fuel
      = (match mergeRanges ((l.filter (keepB z)).map toIv) with
          | [] => .ok none
          | cm :: _ => liftOD z (nextChangeOf z cm)) := by
  have bnd_ok : ∀ {α β : Type} (a : α) (f : α → R β), bnd (.ok a) f = f a := fun _ _ => rfl
  have hnf : gNaive (⟨z, c⟩ : Loc) t = .ok nf := by rw [gNaive_eq, hf]; rfl
  have hde : gDatetime F (⟨z, c⟩ : Loc) instEnd = .ok ⟨e, z⟩ := by rw [gDatetime_eq z c F _ hFe, he]; rfl
  have hnt : gNaive (⟨z, c⟩ : Loc) ⟨e, z⟩ = .ok nt := by rw [gNaive_eq, ht]; rfl
  have hp : ∀ x ∈ l, gKeep F (⟨z, c⟩ : Loc) x = .ok (keepB z x) := by
    intro x hx
    rw [gKeep_eq z c F x (hb x hx).1]
    obtain ⟨b, hb'⟩ := hk x hx
    simp only [keepB, hb', OH.Proofs.ArithTz.liftM]
  unfold OpeningHours.next_change OpeningHours.iter_from.first OpeningHours.iter_range.first
  simp only []
  rw [hde, bnd_ok, hnf, bnd_ok, hnt, bnd_ok, cmpMin_eq_min, cmpMin_eq_min, hsrc, bnd_ok]
  have hwf : WF (⟨l, none⟩ : FilterPeek DN) := by intro hc; cases hc
  have hsz : size (⟨l, none⟩ : FilterPeek DN) = l.length := rfl
  have hpend : pending (keepB z) (⟨l, none⟩ : FilterPeek DN) = l.filter (keepB z) := rfl
  rcases next_spec (gKeep F (⟨z, c⟩ : Loc)) (keepB z) (gDatetime F) (⟨z, c⟩ : Loc) fuel ⟨l, none⟩ hwf hp (by omega)
    with ⟨hnil, st', h⟩ | ⟨curr', st', _, h2, _, _, h5⟩
  · unfold gKeep at h
    have hnil' : l.filter (keepB z) = [] := by rw [← hpend]; exact hnil
    rw [h, hnil']
    rfl
  · unfold gKeep at h5
    rw [h5, ← mergeRangesG_eq, ← hpend, h2]
    have hmem : curr' ∈ mergeRangesG (l.filter (keepB z)) := by rw [← hpend, h2]; exact List.mem_cons_self
    have hcb := mergeRangesG_bounds (OKb z F) _ (fun x hx => hb x (List.mem_filter.mp hx).1) curr' hmem
    rw [mapB_eq z c F curr' hcb.1 hcb.2]
    simp only [List.map_cons, nextChangeOf]
    cases hm : mapInterval z (toIv curr') with
    | error p => rfl
    | ok iv =>
      simp only [bnd, ofIvD]
      rw [gNaive_eq]
      cases naiveChecked z iv.stop with
      | error p => rfl
      | ok ne =>
        simp only [OH.Proofs.ArithTz.liftM, liftOD]
        by_cases hge : ne ≥ instEnd
        · simp only [hge, decide_true, if_true]
        · simp only [hge, decide_false, if_false, Bool.false_eq_true]

end OH.Props.ArithC09TzPipe
