/-
The tie of `ArithC01TimeSel` COMPOSED with the one of `ArithC02Eval`: the per-rule closure of
`OpeningHours::next_change_hint` (the adaptor `.map(|rule| ..)`, `OH.Generated.Arith.Eval.OpeningHours.next_change_hint.map1`,
region `[eval2 extension]`) at `TimeSel := TimeSel.TimeSelector Dur` with the GENERATED
`TimeSelector::is_immutable_full_day` / `is_00_24` passed for its named parameters is the model's per-rule hint
(`modelRuleHint`, mapped over the rules), for every instantiation `DayInst` of the day selector, all outcomes of the
day-selector callees included — for rules whose spans satisfy the invariant of `ExtendedTime` (`ValidSpan`).
-/
import OH.Props.ArithC01TimeSel
import OH.Props.ArithC02Eval
namespace OH.Props.ArithC01TimeSelLink
open OH.Model.RustInt
open OH.Model.RustChrono
open OH.Generated.Arith
open OH.Proofs.ArithEval
open OH.Proofs.ArithEval2
open OH.Proofs.ArithTimeSel

variable {Dur : Type} [DecidableEq Dur]

/-- the generated adaptor at the generated time selector, the generated predicates passed by name -/
theorem hintMap_linked {DS : Type} (I : DayInst DS) (mins : Dur → Int)
    (self : Eval.OpeningHours Nat OH.Model.Kind (List String) OH.Model.RuleOp DS (TimeSel.TimeSelector Dur) OH.Model.Ctx)
    (d : Int)
    (rules : List (Eval.RuleSequence Nat OH.Model.Kind (List String) OH.Model.RuleOp DS (TimeSel.TimeSelector Dur) OH.Model.Ctx))
    (hv : ∀ r ∈ rules, ∀ s ∈ r.time_selector.time, ValidSpan s) :
    Eval.OpeningHours.next_change_hint.map1 self d rules (RuleKind_Closed := .closed) (RuleOperator_Fallback := .fallback)
        (ext_day_selector_filter := I.filt) (ext_day_selector_is_empty := I.isEmp)
        (ext_day_selector_next_change_hint := I.hint)
        (ext_time_selector_is_00_24 := TimeSel.TimeSelector.is_00_24)
        (ext_time_selector_is_immutable_full_day := TimeSel.TimeSelector.is_immutable_full_day)
      = liftR (OH.Model.mapM' (modelRuleHint self.ctx d)
          (rules.map fun r => ⟨I.toDS r.day_selector, r.time_selector.time.map (toSpan mins), r.kind, r.operator, r.comments⟩)) := by
  induction rules with
  | nil => rw [Eval.OpeningHours.next_change_hint.map1]; rfl
  | cons r rest ih =>
    rw [Eval.OpeningHours.next_change_hint.map1, ih (fun x hx => hv x (by simp [hx]))]
    have hr := OH.Props.ArithC01TimeSel.selImmutable_eq_model mins r.time_selector (hv r (by simp))
    have hc := OH.Props.ArithC02Eval.closure_core
      (OH.Model.isImmutableFullDay (r.time_selector.time.map (toSpan mins)))
      (OH.Model.DaySelector.filter self.ctx (I.toDS r.day_selector) d)
      (OH.Model.Cal.pred? d) (fun p => OH.Model.DaySelector.filter self.ctx (I.toDS r.day_selector) p)
      (OH.Model.DaySelector.hint self.ctx (I.toDS r.day_selector) d) (OH.Model.Cal.succ? d)
    simp only [hr, I.filt_eq, I.hint_eq, Chrono.pred_opt, Chrono.succ_opt] at hc ⊢
    erw [hc]
    simp only [List.map_cons, OH.Model.mapM', modelRuleHint]
    cases ruleHintCore (OH.Model.isImmutableFullDay (r.time_selector.time.map (toSpan mins)))
        (OH.Model.DaySelector.filter self.ctx (I.toDS r.day_selector) d) (OH.Model.Cal.pred? d)
        (fun p => OH.Model.DaySelector.filter self.ctx (I.toDS r.day_selector) p)
        (OH.Model.DaySelector.hint self.ctx (I.toDS r.day_selector) d) (OH.Model.Cal.succ? d) with
    | error s => rfl
    | ok hd =>
      cases OH.Model.mapM' (modelRuleHint self.ctx d)
        (rest.map fun r => (⟨I.toDS r.day_selector, r.time_selector.time.map (toSpan mins), r.kind, r.operator, r.comments⟩ : OH.Model.Rule)) with
      | error s => rfl
      | ok tl => rfl

end OH.Props.ArithC01TimeSelLink
