/-
C02 on the code as it is NOW: `OpeningHours::next_change_hint` of opening-hours/src/opening_hours.rs — the lower bound
the iterator `TimeDomainIterator` skips days with (the pre-1900 shortcut, the `is_constant` shortcut, the minimum over the
rules of either the day selector's hint or "tomorrow" when the rule matched today or yesterday and is not an immutable
full-day rule) — as translated by `translators/rs2lean.py` (`OH.Generated.Arith.Eval.OpeningHours.next_change_hint`,
region `[eval2 extension]`), IS the hand-written model `OH.Model.nextChangeHint`, for all inputs, panics of the callees
included (propagated in Rust's evaluation order), at EVERY instantiation `DayInst` of `OH/Proofs/ArithEval2.lean` (the abstract
day-selector type and its by-name functions, with proofs that they are the model's; `modelInst` here, the generated
`DayFilter.DaySelector.*` in `ArithC02EvalLink`): the untranslated
callees `DaySelector::filter`, `DaySelector::next_change_hint`, `TimeSelector::is_immutable_full_day`, `DaySelector::is_empty`,
`TimeSelector::is_00_24` are the model's functions (passed BY NAME).  `OpeningHoursExpression::is_constant` and
`RuleSequence::is_constant` of opening-hours-syntax/src/rules/mod.rs are translated too (`let .. else`, `last().map(..)`,
`iter().rev().find(..)`) and CALLED by the generated `next_change_hint` (linked): `isConstant_eq_model` ties them to the
model's `isConstant`.  No fuel: the iterator chains over the rule vector are structural recursions.
-/
import OH.Proofs.ArithEval2
namespace OH.Props.ArithC02Eval
open OH.Model.RustInt
open OH.Model.RustChrono
open OH.Generated.Arith
open OH.Proofs.ArithEval
open OH.Proofs.ArithEval2

/-- the model's `nextChangeHint`, with its closure named -/
theorem model_unfold (ctx : OH.Model.Ctx) (e : OH.Model.Expr) (d : Int) :
    OH.Model.nextChangeHint ctx e d =
      (if d < OH.Model.Cal.dateStart then .ok (some OH.Model.Cal.dateStart)
       else if OH.Model.isConstant e then .ok (some OH.Model.Cal.dateEnd)
       else do
         let hs ← OH.Model.mapM' (modelRuleHint ctx d) e
         match hs with
         | [] => pure none
         | _ => pure (OH.Model.hintsMin hs)) := rfl

/-- the shape of the generated closure body against the shape of the model's, the callees' outcomes abstract: every
combination (panic of the first filter, of the second, of the hint; the short-circuits) agrees -/
theorem closure_core (imm : Bool) (f1 : OH.Model.M Bool) (p : Option Int) (f2 : Int → OH.Model.M Bool)
    (h : OH.Model.M (Option Int)) (s : Option Int) :
    (bnd (Except.ok imm) fun tmp2 =>
      bnd
        (if tmp2 = true then Except.ok true
        else
          bnd
            (bnd (liftR f1) fun tmp3 =>
              bnd
                (if tmp3 = true then Except.ok true
                else
                  bnd
                    (match p with
                    | none => Except.ok false
                    | some prev => bnd (liftR (f2 prev)) fun tmp4 => Except.ok tmp4)
                    fun tmp4 => Except.ok tmp4)
                fun tmp4 => Except.ok tmp4)
            fun tmp7 => Except.ok !tmp7)
        fun tmp8 =>
        if tmp8 = true then bnd (liftR h) fun tmp9 => Except.ok tmp9
        else Except.ok s) =
    liftR (ruleHintCore imm f1 p f2 h s) := by
  unfold ruleHintCore
  cases p with
  | none =>
    rcases f1 with e | (_ | _) <;> rcases h with e' | hv <;> cases imm <;> rfl
  | some q =>
    rcases hq : f2 q with e2 | (_ | _) <;> rcases f1 with e | (_ | _) <;> rcases h with e' | hv <;> cases imm <;>
      simp [hq, bnd, liftR, bind, Except.bind, pure, Except.pure]

/-- **one rule**: the closure `|rule| { .. }` (with its local closure `matched_today_or_yesterday`, the short-circuits of
`||` and of `is_some_and`) is the model's closure, every combination of callee outcomes included -/
theorem ruleHint_eq_model {DS : Type} (I : DayInst DS) (self : GOHD DS) (d : Int) (r : GRuleD DS) (rest : List (GRuleD DS)) :
    gHintMap I self d (r :: rest) =
      bnd (liftR (modelRuleHint self.ctx d (toRuleD I r))) fun hd => bnd (gHintMap I self d rest) fun tl => .ok (hd :: tl) := by
  unfold gHintMap
  rw [Eval.OpeningHours.next_change_hint.map1]
  congr 1
  simp only [modelRuleHint, gImmutable, I.filt_eq, I.hint_eq, toRuleD, Chrono.pred_opt, Chrono.succ_opt]
  exact closure_core (OH.Model.isImmutableFullDay r.time_selector)
    (OH.Model.DaySelector.filter self.ctx (I.toDS r.day_selector) d)
    (OH.Model.Cal.pred? d) (fun p => OH.Model.DaySelector.filter self.ctx (I.toDS r.day_selector) p)
    (OH.Model.DaySelector.hint self.ctx (I.toDS r.day_selector) d) (OH.Model.Cal.succ? d)

/-- **the adaptor `.map(..)`** over the whole rule vector is the model's `mapM'` of its closure -/
theorem hintMap_eq_model {DS : Type} (I : DayInst DS) (self : GOHD DS) (d : Int) (rules : List (GRuleD DS)) :
    gHintMap I self d rules = liftR (OH.Model.mapM' (modelRuleHint self.ctx d) (rules.map (toRuleD I))) := by
  induction rules with
  | nil => unfold gHintMap; rw [Eval.OpeningHours.next_change_hint.map1]; rfl
  | cons r rest ih =>
    rw [ruleHint_eq_model, ih]
    simp only [List.map_cons, OH.Model.mapM']
    cases modelRuleHint self.ctx d (toRuleD I r) with
    | error s => rfl
    | ok hd =>
      cases OH.Model.mapM' (modelRuleHint self.ctx d) (rest.map (toRuleD I)) with
      | error s => rfl
      | ok tl => rfl

/-- `RuleSequence::is_constant` (rules/mod.rs) is the model's `Rule.isConstant` -/
theorem ruleIsConstant_eq_model {DS : Type} (I : DayInst DS) (r : GRuleD DS) :
    gRuleIsConstant I r = .ok (toRuleD I r).isConstant := by
  unfold gRuleIsConstant Eval.RuleSequence.is_constant
  simp only [I.isEmp_eq, gIs0024, bnd, OH.Model.Rule.isConstant, toRuleD]
  cases (I.toDS r.day_selector).isEmpty <;> rfl

/-- the `find` over the reversed rules is `List.find?` with the model's predicate -/
theorem find_eq_model {DS : Type} (I : DayInst DS) (kind : OH.Model.Kind) (l : List (GRuleD DS)) :
    gFind I kind l = .ok (l.find? fun rs => tailPred kind (toRuleD I rs)) := by
  induction l with
  | nil => unfold gFind; rw [Eval.OpeningHoursExpression.is_constant.find1]; rfl
  | cons r rest ih =>
    unfold gFind at ih ⊢
    rw [Eval.OpeningHoursExpression.is_constant.find1, ih]
    have hd : decide (r.kind ≠ kind) = (r.kind != kind) := by by_cases h : r.kind = kind <;> simp [h]
    simp only [I.isEmp_eq, gIs0024, bnd, List.find?_cons, tailPred, toRuleD, hd]
    cases (I.toDS r.day_selector).isEmpty <;> cases OH.Model.is0024 r.time_selector <;> cases hb : (r.kind != kind) <;> simp

/-- **`OpeningHoursExpression::is_constant` IS the model's `isConstant`** -/
theorem isConstant_eq_model {DS : Type} (I : DayInst DS) (e : GExprD DS) :
    gIsConstant I e = .ok (OH.Model.isConstant (e.rules.map (toRuleD I))) := by
  unfold gIsConstant Eval.OpeningHoursExpression.is_constant
  have hf := fun kind => find_eq_model I kind e.rules.reverse
  unfold gFind at hf
  have hr := ruleIsConstant_eq_model I
  unfold gRuleIsConstant at hr
  simp only [vecLast, OH.Model.isConstant, List.getLast?_map, ← List.map_reverse, List.find?_map]
  cases hl : e.rules.getLast? with
  | none => rfl
  | some last =>
    simp only [bnd, hf, Option.map_some, toRuleD_kind]
    have : ((fun rs => rs.day.isEmpty || !OH.Model.is0024 rs.time || rs.kind != last.kind) ∘ toRuleD I)
        = fun rs => tailPred last.kind (toRuleD I rs) := rfl
    rw [this]
    cases e.rules.reverse.find? (fun rs => tailPred last.kind (toRuleD I rs)) with
    | none => by_cases h : last.kind = .closed <;> simp [h]
    | some tail =>
      simp only [hr, Option.map_some, toRuleD_kind, toRuleD_op]
      by_cases hk : tail.kind = last.kind <;> cases (toRuleD I tail).isConstant <;> by_cases ho : tail.operator = .fallback <;>
        simp [hk, ho]

/-- **MAIN: `OpeningHours::next_change_hint` IS the model's `nextChangeHint`**, for every expression, context and date, at
every instantiation of the day-selector functions that are the model's -/
theorem nextChangeHint_eq_model_at {DS : Type} (I : DayInst DS) (self : GOHD DS) (d : Int) :
    gNextChangeHint I self d = liftR (OH.Model.nextChangeHint self.ctx (self.expr.rules.map (toRuleD I)) d) := by
  rw [model_unfold]
  unfold gNextChangeHint Eval.OpeningHours.next_change_hint
  have hm := hintMap_eq_model I self d self.expr.rules
  unfold gHintMap at hm
  have hc := isConstant_eq_model I self.expr
  unfold gIsConstant at hc
  rw [hm, hc]
  simp only [Chrono.DATE_START, Chrono.DATE_END, bnd]
  by_cases h1 : d < OH.Model.Cal.dateStart
  · simp [h1]
  · simp only [h1, decide_false, Bool.false_eq_true, if_false]
    cases OH.Model.isConstant (self.expr.rules.map (toRuleD I)) with
    | true => simp
    | false =>
      simp only [Bool.false_eq_true, if_false]
      cases OH.Model.mapM' (modelRuleHint self.ctx d) (self.expr.rules.map (toRuleD I)) with
      | error s => rfl
      | ok hs =>
        simp only [liftR_ok, bind, Except.bind, minJoin_eq]
        cases hs <;> rfl

/-- the instance "the day-selector callees are the model's own functions" (`DaySel := OH.Model.DaySelector`) -/
theorem nextChangeHint_eq_model (self : GOH) (d : Int) :
    gNextChangeHint modelInst self d = liftR (OH.Model.nextChangeHint self.ctx (self.expr.rules.map toRule) d) :=
  nextChangeHint_eq_model_at modelInst self d

end OH.Props.ArithC02Eval
