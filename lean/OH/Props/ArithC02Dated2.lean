/-
C02 (and C01/C03/C08/C16) on the code as it is NOW: the two consumers of the interval stream of a dated range
(`opening-hours/src/filter/date_filter.rs`), translated from the Rust source on every run by `translators/rs2lean.py`
(fifth extension, `[dated2 extension]` → `OH.Generated.Arith.Dated2.*`):

* `is_open_from_intervals(date, intervals)`: `let Some(first) = intervals.find(|rg| *rg.end() >= date) else { return false };
  first.contains(&date)`;
* `next_change_from_intervals(date, intervals)`: the same `find`, then `*first.start() <= date` decides between
  `first.end().succ_opt().unwrap_or(DATE_END.date())` and `*first.start()`.

The iterator parameter is the list of its items.  The tie: for EVERY date and EVERY list of intervals the generated
definition is `.ok` of the hand-written evaluator model (`OH.Model.isOpenFromIntervals / nextChangeFromIntervals`) on
the same intervals read as pairs: the same value, no panic, no overflow outcome.  The single-interval branch of
`MonthdayRange::next_change_hint` (`next_change_from_intervals(date, [interval].into_iter())`) is the instance
`nextChange_single`: strictly before the start ↦ the start; from the start to the end INCLUDED ↦ the day after the end
(an off-by-one `date < end` in that branch contradicts `nextChange_single_on_end`); after the end ↦ `DATE_END`.
`is_open_from_bounds` / `next_change_from_bounds` are translated too; the `intervals_from_bounds` they call is NOT: it is
the named function parameter `ext_intervals_from_bounds`, instantiated with its hand model (`modelIntervals`).
-/
import OH.Generated.Arith
import OH.Model.Eval
namespace OH.Props.ArithC02Dated2
set_option linter.unusedSimpArgs false
set_option linter.unusedVariables false
open OH.Model.RustInt
open OH.Model.RustChrono
open OH.Generated.Arith

/-- the model's reading of a `RangeInclusive<NaiveDate>`: the pair of its bounds -/
def pairOf (r : RangeInclusive Int) : Int × Int := (r.start, r.«end»)

theorem find_map_pairOf (d : Int) (ivs : List (RangeInclusive Int)) :
    (ivs.map pairOf).find? (fun r => decide (r.2 ≥ d)) =
      (ivs.find? (fun (rg : RangeInclusive Int) => decide (rg.«end» ≥ d))).map pairOf := by
  induction ivs with
  | nil => rfl
  | cons x xs ih =>
    simp only [List.map_cons, List.find?_cons, pairOf]
    by_cases h : x.«end» ≥ d
    · simp [h, pairOf]
    · simpa [h, pairOf] using ih

/-- `is_open_from_intervals` = the model's `isOpenFromIntervals`, for every date and every list of intervals -/
theorem isOpenFromIntervals_eq_model (d : Int) (ivs : List (RangeInclusive Int)) :
    Dated2.is_open_from_intervals d ivs = .ok (OH.Model.isOpenFromIntervals d (ivs.map pairOf)) := by
  unfold Dated2.is_open_from_intervals OH.Model.isOpenFromIntervals
  rw [find_map_pairOf]
  cases ivs.find? (fun (rg : RangeInclusive Int) => decide (rg.«end» ≥ d)) with
  | none => rfl
  | some r => simp [pairOf]

/-- `next_change_from_intervals` = the model's `nextChangeFromIntervals`, for every date and every list of intervals -/
theorem nextChangeFromIntervals_eq_model (d : Int) (ivs : List (RangeInclusive Int)) :
    Dated2.next_change_from_intervals d ivs = .ok (OH.Model.nextChangeFromIntervals d (ivs.map pairOf)) := by
  unfold Dated2.next_change_from_intervals OH.Model.nextChangeFromIntervals
  rw [find_map_pairOf]
  cases ivs.find? (fun (rg : RangeInclusive Int) => decide (rg.«end» ≥ d)) with
  | none => rfl
  | some r =>
    simp only [Option.map_some, pairOf, Chrono.succ_opt, Chrono.DATE_END]
    by_cases h : r.start ≤ d <;> simp [h]

theorem isOpen_total (d : Int) (ivs : List (RangeInclusive Int)) : ∃ b, Dated2.is_open_from_intervals d ivs = .ok b :=
  ⟨_, isOpenFromIntervals_eq_model d ivs⟩

theorem nextChange_total (d : Int) (ivs : List (RangeInclusive Int)) : ∃ r, Dated2.next_change_from_intervals d ivs = .ok r :=
  ⟨_, nextChangeFromIntervals_eq_model d ivs⟩

/-- the single-interval branch of `MonthdayRange::next_change_hint`: `next_change_from_intervals(date, [interval].into_iter())` -/
theorem nextChange_single (d s e : Int) :
    Dated2.next_change_from_intervals d [RangeInclusive.mk s e] =
      .ok (if e < d then OH.Model.Cal.dateEnd else if s ≤ d then (OH.Model.Cal.succ? e).getD OH.Model.Cal.dateEnd else s) := by
  rw [nextChangeFromIntervals_eq_model]
  unfold OH.Model.nextChangeFromIntervals
  simp only [List.map_cons, List.map_nil, pairOf, List.find?_cons, List.find?_nil]
  by_cases h : e < d
  · have : ¬ e ≥ d := by omega
    simp [h, this]
  · have : e ≥ d := by omega
    simp [h, this]

/-- on the LAST day of the single interval the hint is the day after it (the seeded `date < *interval.end()` gave the
start of the interval / `DATE_END` here) -/
theorem nextChange_single_on_end (s e : Int) (h : s ≤ e) :
    Dated2.next_change_from_intervals e [RangeInclusive.mk s e] = .ok ((OH.Model.Cal.succ? e).getD OH.Model.Cal.dateEnd) := by
  rw [nextChange_single]
  simp [h]

/-- the single-interval instance agrees with the model's branch `nextChangeFromIntervals d [iv]` of `MonthdayRange.hint` -/
theorem nextChange_single_eq_model (d : Int) (iv : Int × Int) :
    Dated2.next_change_from_intervals d [RangeInclusive.mk iv.1 iv.2] = .ok (OH.Model.nextChangeFromIntervals d [iv]) := by
  rw [nextChangeFromIntervals_eq_model]
  rfl

/-- the hand model of the untranslated `intervals_from_bounds`, as the named function parameter of the generated
`is_open_from_bounds` / `next_change_from_bounds` -/
def modelIntervals (starts ends : List Int) : List (RangeInclusive Int) :=
  (OH.Model.intervalsFromBounds starts ends).map (fun p => RangeInclusive.mk p.1 p.2)

theorem map_pairOf_modelIntervals (s e : List Int) : (modelIntervals s e).map pairOf = OH.Model.intervalsFromBounds s e := by
  simp [modelIntervals, pairOf, Function.comp_def]

/-- `next_change_from_bounds` (translated; the untranslated `intervals_from_bounds` it calls standing for its hand model):
exactly the function `ArithC01MonthSel` instantiates the hole `ext_next_change_from_bounds` of the `Month` arms with -/
theorem nextChangeFromBounds_eq_model (d : Int) (s e : List Int) :
    Dated2.next_change_from_bounds d s e (ext_intervals_from_bounds := modelIntervals) =
      .ok (OH.Model.nextChangeFromIntervals d (OH.Model.intervalsFromBounds s e)) := by
  simp only [Dated2.next_change_from_bounds, nextChangeFromIntervals_eq_model, map_pairOf_modelIntervals]
  rfl

/-- `is_open_from_bounds`, the same way -/
theorem isOpenFromBounds_eq_model (d : Int) (s e : List Int) :
    Dated2.is_open_from_bounds d s e (ext_intervals_from_bounds := modelIntervals) =
      .ok (OH.Model.isOpenFromIntervals d (OH.Model.intervalsFromBounds s e)) := by
  simp only [Dated2.is_open_from_bounds, isOpenFromIntervals_eq_model, map_pairOf_modelIntervals]
  rfl

/-- for ANY function standing for `intervals_from_bounds` the two functions are total: the only outcomes they can add
are the callee's -/
theorem fromBounds_total (d : Int) (s e : List Int) (f : List Int → List Int → List (RangeInclusive Int)) :
    (∃ r, Dated2.next_change_from_bounds d s e f = .ok r) ∧ (∃ b, Dated2.is_open_from_bounds d s e f = .ok b) := by
  simp only [Dated2.next_change_from_bounds, Dated2.is_open_from_bounds, nextChangeFromIntervals_eq_model, isOpenFromIntervals_eq_model]
  exact ⟨⟨_, rfl⟩, ⟨_, rfl⟩⟩

end OH.Props.ArithC02Dated2
