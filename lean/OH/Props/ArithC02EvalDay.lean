/-
C02 on the code as it is NOW: the day-selector layer of opening-hours/src/filter/date_filter.rs — `impl<T: DateFilter>
DateFilter for [T]` (`filter`: `is_empty() || iter().any(..)`; `next_change_hint`: the minimum of the elements' hints,
`Some(DATE_END)` for an empty list) and `impl DateFilter for DaySelector` (`filter`: the short-circuit conjunction over the
year / monthday / week / weekday lists; `next_change_hint`: `Some(DATE_END)` for an empty selector, else the minimum of the
four lists' hints, `[..].iter().min().unwrap()`), with `DaySelector::is_empty` of opening-hours-syntax/src/rules/day.rs —
as translated by `translators/rs2lean.py` (`OH.Generated.Arith.DayFilter.*`, region `[eval2 extension]`), ARE the
hand-written model's `listFilter`, `listHint`, `DaySelector.filter`, `DaySelector.hint` (OH/Model/Eval.lean), for all
inputs, panics of the per-selector functions included (propagated in Rust's evaluation order); the `unwrap()` never
panics.  The slice impl is translated once, generic in `T`; the `DaySelector` functions CALL it (linked).  The
`DateFilter` impls of the four element types are the model's functions, passed BY NAME (`OH/Proofs/ArithEval2.lean`).
-/
import OH.Proofs.ArithEval2
namespace OH.Props.ArithC02EvalDay
open OH.Model.RustInt
open OH.Model.RustChrono
open OH.Generated.Arith
open OH.Proofs.ArithEval
open OH.Proofs.ArithEval2

/-- `.iter().any(|x| x.filter(date, ctx))` is the model's short-circuit `anyM` -/
theorem any_eq_model {T Ctx : Type} (f : T → OH.Model.M Bool) (g : T → Int → Ctx → R Bool) (d : Int) (ctx : Ctx)
    (h : ∀ x, g x d ctx = liftR (f x)) (l : List T) :
    DayFilter.Slice.filter.any1 d ctx l (ext_elem_filter := g) = liftR (OH.Model.anyM f l) := by
  induction l with
  | nil => rw [DayFilter.Slice.filter.any1]; rfl
  | cons x xs ih =>
    rw [DayFilter.Slice.filter.any1, h x, ih]
    simp only [OH.Model.anyM]
    rcases f x with e | (_ | _) <;> simp [bnd, liftR, bind, Except.bind, pure, Except.pure]

/-- **`<[T] as DateFilter>::filter` IS the model's `listFilter`** -/
theorem sliceFilter_eq_model {T Ctx : Type} (f : T → OH.Model.M Bool) (g : T → Int → Ctx → R Bool) (d : Int) (ctx : Ctx)
    (h : ∀ x, g x d ctx = liftR (f x)) (l : List T) :
    DayFilter.Slice.filter l d ctx (ext_elem_filter := g) = liftR (OH.Model.listFilter f l) := by
  unfold DayFilter.Slice.filter OH.Model.listFilter
  rw [any_eq_model f g d ctx h]
  cases l with
  | nil => rfl
  | cons x xs => simp only [List.isEmpty_cons, Bool.false_eq_true, if_false]; cases OH.Model.anyM f (x :: xs) <;> rfl

/-- the adaptor `.map(|selector| selector.next_change_hint(date, ctx))` is the model's `mapM'` -/
theorem map_eq_model {T Ctx : Type} (f : T → OH.Model.M (Option Int)) (g : T → Int → Ctx → R (Option Int)) (d : Int) (ctx : Ctx)
    (h : ∀ x, g x d ctx = liftR (f x)) (l : List T) :
    DayFilter.Slice.next_change_hint.map1 d ctx l (ext_elem_next_change_hint := g) = liftR (OH.Model.mapM' f l) := by
  induction l with
  | nil => rw [DayFilter.Slice.next_change_hint.map1]; rfl
  | cons x xs ih =>
    rw [DayFilter.Slice.next_change_hint.map1, h x, ih]
    simp only [OH.Model.mapM']
    rcases f x with e | v <;> rcases OH.Model.mapM' f xs with e2 | vs <;> rfl

/-- **`<[T] as DateFilter>::next_change_hint` IS the model's `listHint`** -/
theorem sliceHint_eq_model {T Ctx : Type} (f : T → OH.Model.M (Option Int)) (g : T → Int → Ctx → R (Option Int)) (d : Int) (ctx : Ctx)
    (h : ∀ x, g x d ctx = liftR (f x)) (l : List T) :
    DayFilter.Slice.next_change_hint l d ctx (ext_elem_next_change_hint := g) = liftR (OH.Model.listHint f l) := by
  unfold DayFilter.Slice.next_change_hint OH.Model.listHint
  rw [map_eq_model f g d ctx h]
  rcases OH.Model.mapM' f l with e | hs
  · rfl
  · simp [bnd, liftR, bind, Except.bind, pure, Except.pure, minGetD_eq]

/-- `DaySelector::is_empty` (rules/day.rs) -/
theorem isEmpty_eq_model (s : GDaySel) : DayFilter.DaySelector.is_empty s = .ok (toDS s).isEmpty := by
  simp [DayFilter.DaySelector.is_empty, OH.Model.DaySelector.isEmpty, toDS, Bool.and_assoc]

/-- **`DaySelector::filter` IS the model's `DaySelector.filter`** (the `&&` chain short-circuits, a panic of a selector
is reached exactly when the earlier lists matched) -/
theorem dayFilter_eq_model (s : GDaySel) (d : Int) (ctx : OH.Model.Ctx) :
    gDayFilter s d ctx = liftR (OH.Model.DaySelector.filter ctx (toDS s) d) := by
  unfold gDayFilter DayFilter.DaySelector.filter OH.Model.DaySelector.filter
  rw [sliceFilter_eq_model (fun r : OH.Model.YearRange => r.filter d) gYearF d ctx (fun _ => rfl),
    sliceFilter_eq_model (fun r : OH.Model.MonthdayRange => r.filter d) gMonthdayF d ctx (fun _ => rfl),
    sliceFilter_eq_model (fun r : OH.Model.WeekRange => r.filter d) gWeekF d ctx (fun _ => rfl),
    sliceFilter_eq_model (fun r : OH.Model.WeekDayRange => r.filter ctx d) gWeekdayF d ctx (fun _ => rfl)]
  simp only [toDS]
  rcases OH.Model.listFilter (fun r : OH.Model.YearRange => r.filter d) s.year with e | (_ | _) <;>
  rcases OH.Model.listFilter (fun r : OH.Model.MonthdayRange => r.filter d) s.monthday with e | (_ | _) <;>
  rcases OH.Model.listFilter (fun r : OH.Model.WeekRange => r.filter d) s.week with e | (_ | _) <;>
  rcases OH.Model.listFilter (fun r : OH.Model.WeekDayRange => r.filter ctx d) s.weekday with e | (_ | _) <;> rfl

/-- **`DaySelector::next_change_hint` IS the model's `DaySelector.hint`**; `.min().unwrap()` never panics -/
theorem dayHint_eq_model (s : GDaySel) (d : Int) (ctx : OH.Model.Ctx) :
    gDayHint s d ctx = liftR (OH.Model.DaySelector.hint ctx (toDS s) d) := by
  unfold gDayHint DayFilter.DaySelector.next_change_hint OH.Model.DaySelector.hint
  rw [isEmpty_eq_model,
    sliceHint_eq_model (fun r : OH.Model.YearRange => r.hint d) gYearH d ctx (fun _ => rfl),
    sliceHint_eq_model (fun r : OH.Model.MonthdayRange => r.hint d) gMonthdayH d ctx (fun _ => rfl),
    sliceHint_eq_model (fun r : OH.Model.WeekRange => r.hint d) gWeekH d ctx (fun _ => rfl),
    sliceHint_eq_model (fun r : OH.Model.WeekDayRange => r.hint ctx d) gWeekdayH d ctx (fun _ => rfl)]
  cases (toDS s).isEmpty with
  | true => rfl
  | false =>
    simp only [toDS]
    rcases OH.Model.listHint (fun r : OH.Model.YearRange => r.hint d) s.year with e | a <;>
    rcases OH.Model.listHint (fun r : OH.Model.MonthdayRange => r.hint d) s.monthday with e | b <;>
    rcases OH.Model.listHint (fun r : OH.Model.WeekRange => r.hint d) s.week with e | c <;>
    rcases OH.Model.listHint (fun r : OH.Model.WeekDayRange => r.hint ctx d) s.weekday with e | e' <;>
    simp [bnd, liftR, bind, Except.bind, pure, Except.pure, min4_eq]

end OH.Props.ArithC02EvalDay
