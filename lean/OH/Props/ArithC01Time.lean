/-
C01 / C11 / C19 on the code as it is NOW: the clock arithmetic of the time selectors
(opening-hours/src/filter/time_filter.rs).  `impl TimeFilter for ts::VariableTime` (`as_naive`: an event
time moved by the offset, `add_minutes(self.offset).unwrap_or(MIDNIGHT_00)`) and `impl TimeFilter for
ts::TimeSpan` (`as_naive`: `if start < end { end } else { max(start, end.add_hours(24)
.unwrap_or(MIDNIGHT_48)) }`, the wrap of a span over midnight) are translated from the Rust source on
every run (`translators/rs2lean.py` → `OH.Generated.Arith.VariableTime.as_naive`, `TimeSpan.as_naive`),
together with the associated constants `ExtendedTime::MIDNIGHT_00/24/48` (`Self::new(..).unwrap()`).
The calls that need the context — `self.event.as_naive(ctx, date)` (the sun event of the day) and
`self.range.start/end.as_naive(ctx, date)` — are NOT translated: their results are the parameters
`ext1`, `ext2` of the generated definitions, and the theorems quantify over them (every well-formed
`ExtendedTime`).  `<` and `std::cmp::max` on `ExtendedTime` are the derived lexicographic order
(`#[derive(PartialOrd, Ord)]` is checked by the translator, the instances are generated).

The tie: for EVERY well-formed event time / pair of bounds and EVERY `i16` offset the generated definitions
return a value (the `unwrap()` of the constants, the `i16`/`u16` conversions and the hour addition never
reach a panic / overflow outcome) and it is the value of the hand-written evaluator model
(`OH.Model.Time.asNaive`, `OH.Model.TimeSpan.asNaive`, minutes since midnight).
-/
import OH.Props.ArithC19
import OH.Model.Eval
namespace OH.Props.ArithC01Time
-- the `simp only` sets below deliberately list both spellings of a step (`if_true` / `↓reduceIte`, …) so that a
-- harmless rewrite of the Rust source (a `let` more, `max` written out as an `if`) does not break the proofs
set_option linter.unusedSimpArgs false
open OH.Model.RustInt
open OH.Generated.Arith
open OH.Props.ArithC19 (MTime GTime emb wf_isU8 addMinutes_eq_model addHours_eq_model)
open OH.Props (C19.WF)

/-! ### the constants -/

theorem midnight00 : ExtendedTime.MIDNIGHT_00 = .ok (emb OH.Model.ExtendedTime.midnight00) := rfl
theorem midnight24 : ExtendedTime.MIDNIGHT_24 = .ok (emb OH.Model.ExtendedTime.midnight24) := rfl
theorem midnight48 : ExtendedTime.MIDNIGHT_48 = .ok (emb OH.Model.ExtendedTime.midnight48) := rfl

/-! ### the derived order is the order of the minute counts -/

theorem emb_lt_iff (a b : MTime) (ha : C19.WF a) (hb : C19.WF b) : emb a < emb b ↔ a.mins < b.mins := by
  obtain ⟨_, ha2, _⟩ := ha
  obtain ⟨_, hb2, _⟩ := hb
  show ((a.hour : Int) < b.hour ∨ ((a.hour : Int) = b.hour ∧ ((a.minute : Int) < b.minute))) ↔ _
  unfold OH.Model.ExtendedTime.mins
  omega

theorem fromMins_wf (n : Nat) (t : MTime) (h : OH.Model.ExtendedTime.fromMins n = some t) : C19.WF t := by
  unfold OH.Model.ExtendedTime.fromMins OH.Model.ExtendedTime.new at h
  split at h
  · cases h
  · split at h
    · cases h
    · cases h
      rename_i h1 h2
      simp only [gt_iff_lt, Bool.or_eq_true, decide_eq_true_eq, Bool.and_eq_true, beq_iff_eq, not_or, not_and, Nat.not_lt] at h2
      refine ⟨?_, ?_, fun e => ?_⟩
      · show n / 60 ≤ 48; omega
      · show n % 60 ≤ 59; omega
      · have := h2.2 e; show n % 60 = 0; omega

/-! ### `VariableTime::as_naive` -/

/-- an event time moved by the offset: the sum of the minute counts, 00:00 when it leaves 00:00..48:00
(the clock does not wrap); never a panic or an overflow -/
theorem variableTime_asNaive (e : TimeEvent) (off : Int) (hoff : -32768 ≤ off ∧ off ≤ 32767)
    (ev : MTime) (hev : C19.WF ev) :
    ∃ r : MTime, C19.WF r ∧ VariableTime.as_naive ⟨e, off⟩ (emb ev) = .ok (emb r) ∧
      r.mins = (if (ev.mins : Int) + off < 0 ∨ (ev.mins : Int) + off > 2880 then 0 else ((ev.mins : Int) + off).toNat) := by
  unfold VariableTime.as_naive
  simp only [addMinutes_eq_model ev off (wf_isU8 ev hev) hoff, bnd_ok, midnight00]
  cases h : OH.Model.ExtendedTime.addMinutes ev off with
  | none =>
    refine ⟨OH.Model.ExtendedTime.midnight00, by simp [C19.WF, OH.Model.ExtendedTime.midnight00], rfl, ?_⟩
    have := (OH.Props.C19.addMinutes_none_iff ev off hev hoff).mp h
    rw [if_pos this]; rfl
  | some u =>
    have hm := OH.Props.C19.addMinutes_mins ev u off hev hoff h
    have hn : ¬ ((ev.mins : Int) + off < 0 ∨ (ev.mins : Int) + off > 2880) := by
      intro c
      have := (OH.Props.C19.addMinutes_none_iff ev off hev hoff).mpr c
      rw [this] at h; cases h
    have hw : C19.WF u := by
      rw [OH.Props.C19.addMinutes_spec ev off hev hoff] at h
      split at h
      · exact fromMins_wf _ _ h
      · cases h
    refine ⟨u, hw, rfl, ?_⟩
    rw [if_neg hn]; omega

/-- the same against the evaluator model: `Time::as_naive` of a variable time, given the event time the
context supplies -/
theorem variableTime_asNaive_eq_model (ctx : OH.Model.Ctx) (d : Int) (e : TimeEvent) (e' : OH.Model.TimeEvent)
    (off : Int) (hoff : -32768 ≤ off ∧ off ≤ 32767) (ev : MTime) (hev : C19.WF ev)
    (hctx : ctx.event d e' = ev.mins) :
    ∃ r : MTime, C19.WF r ∧ VariableTime.as_naive ⟨e, off⟩ (emb ev) = .ok (emb r) ∧
      r.mins = OH.Model.Time.asNaive ctx d (.variable e' off) := by
  obtain ⟨r, hw, h1, h2⟩ := variableTime_asNaive e off hoff ev hev
  refine ⟨r, hw, h1, ?_⟩
  rw [h2]
  simp only [OH.Model.Time.asNaive, hctx]

/-! ### `TimeSpan::as_naive` -/

/-- the span of two naive bounds: kept when `start < end`; otherwise the end is moved to the next day,
cut at 48:00, and not before the start (the span may be empty, never inverted); never a panic -/
theorem timeSpan_asNaive (a b : MTime) (ha : C19.WF a) (hb : C19.WF b) :
    ∃ r : MTime, C19.WF r ∧ TimeSpan.as_naive (emb a) (emb b) = .ok ⟨emb a, emb r⟩ ∧
      r.mins = (if a.mins < b.mins then b.mins
                else max a.mins (if b.mins + 1440 > 2880 then 2880 else b.mins + 1440)) := by
  unfold TimeSpan.as_naive
  simp only [addHours_eq_model b 24 (wf_isU8 b hb) (by omega), midnight48, bnd_ok]
  by_cases c : a.mins < b.mins
  · have c' : emb a < emb b := (emb_lt_iff a b ha hb).mpr c
    simp only [c', decide_true, if_true, ↓reduceIte, bnd_ok]
    exact ⟨b, hb, rfl, by rw [if_pos c]⟩
  · have c' : ¬ emb a < emb b := fun h => c ((emb_lt_iff a b ha hb).mp h)
    simp only [c', decide_false, Bool.false_eq_true, if_false, ↓reduceIte, bnd_ok]
    rw [if_neg c]
    have hs := OH.Props.C19.addHours_spec b 24 hb (by omega)
    have hbm := OH.Props.C19.mins_le b hb
    -- the wrapped end, as a model value
    obtain ⟨w, hw, hwe, hwm⟩ : ∃ w : MTime, C19.WF w ∧
        Option.getD ((OH.Model.ExtendedTime.addHours b 24).map emb) (emb OH.Model.ExtendedTime.midnight48) = emb w ∧
        w.mins = (if b.mins + 1440 > 2880 then 2880 else b.mins + 1440) := by
      by_cases cw : b.mins + 1440 > 2880
      · have : ¬ (0 ≤ (b.mins : Int) + 60 * 24 ∧ (b.mins : Int) + 60 * 24 ≤ 2880) := by omega
        rw [if_neg this] at hs
        rw [hs, if_pos cw]
        exact ⟨OH.Model.ExtendedTime.midnight48, by simp [C19.WF, OH.Model.ExtendedTime.midnight48], rfl, rfl⟩
      · have : (0 ≤ (b.mins : Int) + 60 * 24 ∧ (b.mins : Int) + 60 * 24 ≤ 2880) := by omega
        rw [if_pos this] at hs
        obtain ⟨u, hu⟩ := (OH.Props.C19.fromMins_some_iff ((b.mins : Int) + 60 * 24).toNat).mpr (by omega)
        rw [hs, hu, if_neg cw]
        refine ⟨u, fromMins_wf _ _ hu, rfl, ?_⟩
        have := OH.Props.C19.mins_fromMins _ _ hu
        omega
    simp only [hwe]
    by_cases cm : emb w < emb a
    · simp only [cmpMax, cm, decide_true, if_true, ↓reduceIte, bnd_ok]
      have := (emb_lt_iff w a hw ha).mp cm
      exact ⟨a, ha, rfl, by omega⟩
    · simp only [cmpMax, cm, decide_false, Bool.false_eq_true, if_false, ↓reduceIte, bnd_ok]
      have : ¬ w.mins < a.mins := fun h => cm ((emb_lt_iff w a hw ha).mpr h)
      exact ⟨w, hw, rfl, by omega⟩

/-- the same against the evaluator model `TimeSpan.asNaive`, given the naive bounds -/
theorem timeSpan_asNaive_eq_model (ctx : OH.Model.Ctx) (d : Int) (t : OH.Model.TimeSpan) (a b : MTime)
    (ha : C19.WF a) (hb : C19.WF b)
    (hs : t.start.asNaive ctx d = a.mins) (he : t.stop.asNaive ctx d = b.mins) :
    ∃ r : MTime, C19.WF r ∧ TimeSpan.as_naive (emb a) (emb b) = .ok ⟨emb a, emb r⟩ ∧
      OH.Model.TimeSpan.asNaive ctx d t = .ok (a.mins, r.mins) := by
  obtain ⟨r, hw, h1, h2⟩ := timeSpan_asNaive a b ha hb
  refine ⟨r, hw, h1, ?_⟩
  simp only [OH.Model.TimeSpan.asNaive, hs, he]
  by_cases c : a.mins < b.mins
  · rw [if_pos c] at h2; rw [if_pos c, h2]
  · rw [if_neg c] at h2; rw [if_neg c, h2]

/-! non-vacuity: sunset (19:00) - 20:00 = 00:00, not 23:00 of the day before; 22:00-02:00 ends at 26:00;
an end pushed beyond 48:00 is cut -/
example : VariableTime.as_naive ⟨.Sunset, -1200⟩ ⟨19, 0⟩ = .ok ⟨0, 0⟩ := rfl
example : VariableTime.as_naive ⟨.Sunset, 90⟩ ⟨19, 0⟩ = .ok ⟨20, 30⟩ := rfl
example : VariableTime.as_naive ⟨.Dusk, 1800⟩ ⟨20, 0⟩ = .ok ⟨0, 0⟩ := rfl
example : TimeSpan.as_naive ⟨22, 0⟩ ⟨2, 0⟩ = .ok ⟨⟨22, 0⟩, ⟨26, 0⟩⟩ := rfl
example : TimeSpan.as_naive ⟨8, 0⟩ ⟨12, 30⟩ = .ok ⟨⟨8, 0⟩, ⟨12, 30⟩⟩ := rfl
example : TimeSpan.as_naive ⟨30, 0⟩ ⟨25, 0⟩ = .ok ⟨⟨30, 0⟩, ⟨48, 0⟩⟩ := rfl

end OH.Props.ArithC01Time
