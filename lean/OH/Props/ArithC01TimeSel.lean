/-
C01 / C02 / C03 on the code as it is NOW: the three predicates of the time selector that decide whether a rule can be
skipped — `TimeSelector::is_00_24` (opening-hours-syntax/src/rules/time.rs), `<TimeSelector as
TimeFilter>::is_immutable_full_day` and `<TimeSpan as TimeFilter>::is_immutable_full_day`
(opening-hours/src/filter/time_filter.rs), with the constructor `TimeSpan::fixed_range` they compare against — as
translated by `translators/rs2lean.py` (`OH.Generated.Arith.TimeSel.*`, region `[timesel extension]`) ARE the model's
`is0024` / `isImmutableFullDay` / `· == TimeSpan.fullDay` of `OH/Model/Syntax.lean`, for all inputs (no panic is
reachable: the `unwrap()` of the constants `MIDNIGHT_00` / `MIDNIGHT_24` succeeds).  First as facts about the generated
values themselves (`*_eq_decide`: structural equality with `fixed_range(00:00, 24:00)`, no hypothesis), then through the
reading `toSpan` of `OH/Proofs/ArithTimeSel.lean` for spans whose `ExtendedTime`s satisfy the type's invariant
(`minute ≤ 59`, fields non-negative: without it `23:60` would read as `24:00`).  `ruleIsConstant_linked`: the generated
`RuleSequence::is_constant` of the `[eval2 extension]` with the GENERATED `is_00_24` passed for its named parameter is
the model's `Rule.isConstant`.  No fuel: `.iter().all(..)` is a structural recursion.
-/
import OH.Proofs.ArithTimeSel
import OH.Proofs.ArithEval2
namespace OH.Props.ArithC01TimeSel
open OH.Model.RustInt
open OH.Generated.Arith
open OH.Proofs.ArithTimeSel
open OH.Proofs.ArithEval2

variable {Dur : Type} [DecidableEq Dur]

omit [DecidableEq Dur] in
/-- `TimeSpan::fixed_range(MIDNIGHT_00, MIDNIGHT_24)` never panics and is the value `gFull` -/
theorem fixedRange_full :
    (bnd ExtendedTime.MIDNIGHT_00 fun a => bnd ExtendedTime.MIDNIGHT_24 fun b => TimeSel.TimeSpan.fixed_range a b)
      = .ok (gFull : TimeSel.TimeSpan Dur) := by
  simp [midnight00, midnight24, bnd, TimeSel.TimeSpan.fixed_range, gFull]

/-- `TimeSpan::is_immutable_full_day`: derived equality with the fixed 00:00-24:00 span -/
theorem spanImmutable_eq_decide (s : TimeSel.TimeSpan Dur) :
    TimeSel.TimeSpan.is_immutable_full_day s = .ok (decide (s = gFull)) := by
  simp only [TimeSel.TimeSpan.is_immutable_full_day, midnight00, midnight24, bnd, TimeSel.TimeSpan.fixed_range, gFull]
  congr

/-- … which is the model's `· == TimeSpan.fullDay` on the reading of a valid span -/
theorem spanImmutable_eq_model (mins : Dur → Int) (s : TimeSel.TimeSpan Dur) (hv : ValidSpan s) :
    TimeSel.TimeSpan.is_immutable_full_day s = .ok (toSpan mins s == OH.Model.TimeSpan.fullDay) := by
  rw [spanImmutable_eq_decide]
  congr 1
  have := toSpan_eq_full_iff mins s hv
  by_cases h : s = gFull <;> simp_all

/-- the adaptor `.all(|span| ..)` is `List.all` (it stops at the first `false`; nothing can panic) -/
theorem all_eq_decide (l : List (TimeSel.TimeSpan Dur)) :
    TimeSel.TimeSelector.is_immutable_full_day.all1 l = .ok (l.all fun s => decide (s = gFull)) := by
  induction l with
  | nil => rfl
  | cons s rest ih =>
    simp only [TimeSel.TimeSelector.is_immutable_full_day.all1, spanImmutable_eq_decide, bnd, ih, List.all_cons]
    by_cases h : s = gFull <;> simp [h]

/-- `TimeSelector::is_immutable_full_day` is the model's `isImmutableFullDay` -/
theorem selImmutable_eq_model (mins : Dur → Int) (self : TimeSel.TimeSelector Dur) (hv : ∀ s ∈ self.time, ValidSpan s) :
    TimeSel.TimeSelector.is_immutable_full_day self
      = .ok (OH.Model.isImmutableFullDay (self.time.map (toSpan mins))) := by
  simp only [TimeSel.TimeSelector.is_immutable_full_day, all_eq_decide, bnd, OH.Model.isImmutableFullDay, List.all_map]
  congr 1
  generalize self.time = l at hv
  induction l with
  | nil => rfl
  | cons s rest ih =>
    have := toSpan_eq_full_iff mins s (hv s (by simp))
    have ih' := ih (fun x hx => hv x (by simp [hx]))
    simp only [List.all_cons, ih']
    by_cases h : s = gFull <;> simp_all

/-- `TimeSelector::is_00_24`: exactly one span, the fixed 00:00-24:00 one -/
theorem is0024_eq_decide (self : TimeSel.TimeSelector Dur) :
    TimeSel.TimeSelector.is_00_24 self = .ok (decide (self.time = [gFull])) := by
  obtain ⟨l⟩ := self
  simp only [TimeSel.TimeSelector.is_00_24, midnight00, midnight24, bnd, TimeSel.TimeSpan.fixed_range]
  match l with
  | [] => simp
  | [s] => simp [gFull]
  | s :: t :: r =>
    have h : ¬ ((r.length : Int) + 1 + 1 = 1) := by omega
    simp [h]

/-- `TimeSelector::is_00_24` is the model's `is0024` -/
theorem is0024_eq_model (mins : Dur → Int) (self : TimeSel.TimeSelector Dur) (hv : ∀ s ∈ self.time, ValidSpan s) :
    TimeSel.TimeSelector.is_00_24 self = .ok (OH.Model.is0024 (self.time.map (toSpan mins))) := by
  rw [is0024_eq_decide]
  congr 1
  obtain ⟨l⟩ := self
  simp only [OH.Model.is0024]
  match l with
  | [] => simp
  | [s] =>
    have := toSpan_eq_full_iff mins s (hv s (by simp))
    by_cases h : s = gFull <;> simp_all
  | s :: t :: r => simp

/-- LINK: the generated `RuleSequence::is_constant` (region `[eval2 extension]`, `TimeSel := TimeSel.TimeSelector Dur`)
with the GENERATED `is_00_24` for its named parameter is the model's `Rule.isConstant` -/
theorem ruleIsConstant_linked {DS : Type} (I : DayInst DS) (mins : Dur → Int)
    (r : Eval.RuleSequence Nat OH.Model.Kind (List String) OH.Model.RuleOp DS (TimeSel.TimeSelector Dur) OH.Model.Ctx)
    (hv : ∀ s ∈ r.time_selector.time, ValidSpan s) :
    Eval.RuleSequence.is_constant r (ext_day_selector_is_empty := I.isEmp)
        (ext_time_selector_is_00_24 := TimeSel.TimeSelector.is_00_24)
      = .ok (OH.Model.Rule.isConstant
          ⟨I.toDS r.day_selector, r.time_selector.time.map (toSpan mins), r.kind, r.operator, r.comments⟩) := by
  unfold Eval.RuleSequence.is_constant
  simp only [I.isEmp_eq, is0024_eq_model mins r.time_selector hv, bnd, OH.Model.Rule.isConstant]
  cases (I.toDS r.day_selector).isEmpty <;> rfl

end OH.Props.ArithC01TimeSel
