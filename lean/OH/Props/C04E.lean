import OH.Props.C04P
import OH.Props.C04
import OH.Props.C01
import OH.Props.C02B
import OH.Props.C06
/-
C04 — totality END TO END, from the string: combines the parser theorems (every accepted string
yields a `ParserWF` / printable expression, `OH/Props/C04P.lean`, `OH/Props/C05.lean`, `C06.lean`) with
the evaluator, printer and normalisation theorems that were stated under those hypotheses.  For
EVERY string `s`: `parse s` is Ok or Err; if it is `ok e` then printing `e`, normalizing `e`, the
schedule of every day in every context, and (within the decidable scope of Layer B) state / next_change
/ range iteration all return normally in the models.
-/
namespace OH.Props.C04E
open OH.Model OH.Model.Cal OH.Model.Parser OH.Props.C02

/-- the schedule of EVERY day (any representable day number, inside or outside 1900..9999) in EVERY
context returns normally for every parsed expression -/
theorem C04_parsed_schedule_total (s : String) (e : Expr) (h : Parser.parse s = .ok e) (ctx : Ctx) (d : Int) :
    ∃ rs, daySchedule ctx e d = .ok rs :=
  OH.Props.C01.C04_schedule_total ctx e d (OH.Proofs.SynTotal.parse_string_ok_wf s e h)

/-- printing a parsed expression returns normally -/
theorem C04_parsed_print_total (s : String) (e : Expr) (h : Parser.parse s = .ok e) :
    ∃ p, Print.toString? e = some p := by
  obtain ⟨p, hp, -⟩ := OH.Props.C06.C06_every_parsed_expression_round_trips s e h
  exact ⟨p, hp⟩

/-- normalizing a parsed expression returns normally (no `u8`/`u16` overflow, `canonical_to_seq`
terminates) -/
theorem C04_parsed_normalize_total (s : String) (e : Expr) (h : Parser.parse s = .ok e) :
    ∃ n, OH.Model.Norm.normalizeM e = .ok n :=
  OH.Proofs.NormPrintable.normalize_ok_of_printableOut e (OH.Props.C06.C06_parsed_is_printable s e h)

/-- state, next_change and range iteration return normally for every parsed expression within the
decidable scope of Layer B (`exprHintSafe`: dated ranges whose total shift stays within a year;
everything without dated ranges), every well-formed context, EVERY interval-size bound, every instant
and window -/
theorem C04_parsed_iteration_total (s : String) (e : Expr) (h : Parser.parse s = .ok e)
    (hs : OH.Props.C02B.exprHintSafe e = true) (ctx : Ctx) (hc : CtxWF ctx) (frm to t : Int) :
    (∃ out, iterRangeNaive ctx e frm to = .ok out) ∧ (∃ k, state ctx e t = .ok k) := by
  have ok : DayLevelOK ctx e :=
    OH.Props.C02B.envOK_of_parserWF ctx hc e (OH.Proofs.SynTotal.parse_string_ok_wf s e h) hs
  exact ⟨OH.Props.C04.C04_iter_total_partial ok frm to, OH.Props.C04.C04_state_total_partial ok t⟩

end OH.Props.C04E
