/-
C01 (and the hints of C02/C03/C08/C16) on the code as it is NOW: the helpers of a dated range
(`opening-hours/src/filter/date_filter.rs`), translated from the Rust source on every run by `translators/rs2lean.py`
(fourth extension, chrono mode → `OH.Generated.Arith.DateFilter.*`):

* `valid_ymd_before` / `valid_ymd_after`: `debug_assert!` is an explicit panic outcome,
  `from_ymd_opt(..).into_iter().chain((28..day).rev().filter_map(|day| ..)).next()` is `firstOrRevFindMapM` of
  `OH/Model/RustDated.lean` (the exact date first, then the candidates `day-1, …, 28` through the closure);
* `year_before_offset`: `saturating_neg` on `i64`, the translated `add_days_saturating`, chrono's `year()`;
* `date_year`: an or-pattern over the two struct variants of `enum Date`, `year.map(Into::into)`;
* `date_on_year`: a `match` on `enum Date` with `year: None` / `year: Some(year)` sub-patterns and a match guard
  (first match: after a failed guard the remaining arms), the parameter `impl FnOnce(i32, u32, u32) -> Option<NaiveDate>`
  as a function parameter, `month.into()` as the discriminant cast (macro-generated `From<Month> for u32`), the call of
  the translated `easter` given the chrono meaning of the `from_ymd_opt` that ends it.

The tie: for EVERY value of the machine types the generated definition and the hand-written evaluator model
(`OH.Model.validYmdBefore / validYmdAfter / yearBeforeOffset / dateYear / dateOnYear`) agree: the same value; the
`debug_assert!` panic exactly for a day outside 1..=31 (the model has no outcome there: the parser only produces days
1..=31, `Props/C05`); never an overflow outcome.
-/
import OH.Generated.Arith
import OH.Proofs.RustInt
import OH.Proofs.RustDated
import OH.Model.Eval
import OH.Props.ArithC01
import OH.Props.ArithC01Offset
import OH.Props.ArithC01MonthSel
namespace OH.Props.ArithC01Dated
set_option linter.unusedSimpArgs false
set_option linter.unusedVariables false
open OH.Model.RustInt
open OH.Model.RustChrono
open OH.Generated.Arith
open OH.Model.Cal
open OH.Proofs.RustDated
open OH.Props.ArithC01Offset (AgreeP genOffset addDaysSat_eq_model)
open OH.Props.ArithC01MonthSel (num wrap_num num_range)

/-- the model's reading of a Rust `ds::Date` (months are their numbers, integers their values) -/
def specOf : Date → OH.Model.DateSpec
  | .Fixed y m d => .fixed (y.map Int.toNat) (num m) d.toNat
  | .Easter y => .easter (y.map Int.toNat)

/-- the fields of a `ds::Date` are values of their machine types (`Option<u16>`, `u8`) -/
def DateOk : Date → Prop
  | .Fixed y _ d => (∀ v, y = some v → 0 ≤ v ∧ v ≤ 65535) ∧ 0 ≤ d ∧ d ≤ 255
  | .Easter y => ∀ v, y = some v → 0 ≤ v ∧ v ≤ 65535

/-- the day of a fixed date is one the parser can produce -/
def DayOk : Date → Prop
  | .Fixed _ _ d => 1 ≤ d ∧ d ≤ 31
  | .Easter _ => True

/-- the two functions `date_on_year` is called with -/
def builder (after : Bool) : Int → Int → Int → R (Option Int) :=
  if after then DateFilter.valid_ymd_after else DateFilter.valid_ymd_before

theorem before_closure (y : Int) (m : Nat) (day : Int) :
    (.ok (Chrono.from_ymd_opt y (m : Int) day) : R (Option Int)) = cand y m false day := by
  simp only [cand, Chrono.from_ymd_opt, Int.toNat_natCast, Bool.false_eq_true, if_false, ↓reduceIte]
  cases ofYmd? y m day.toNat <;> rfl

theorem after_closure (y : Int) (m : Nat) (day : Int) :
    (match Chrono.from_ymd_opt y (m : Int) day with
      | none => .ok none
      | some t => .ok (Chrono.succ_opt t) : R (Option Int)) = cand y m true day := by
  simp only [cand, Chrono.from_ymd_opt, Chrono.succ_opt, Int.toNat_natCast, if_true, ↓reduceIte]
  cases ofYmd? y m day.toNat <;> rfl

/-- `valid_ymd_before` for a day the assertion accepts: the model's `validYmdBefore`, for EVERY year, every `u32`
month and day; no other outcome -/
theorem validYmdBefore_eq_model (y : Int) (m d : Nat) (hd : 1 ≤ d ∧ d ≤ 31) :
    DateFilter.valid_ymd_before y m d = .ok (OH.Model.validYmdBefore y m d) := by
  have hc : RangeInclusive.contains (RangeInclusive.mk (1 : Int) 31) (d : Int) = true := by
    simp only [RangeInclusive.contains, Bool.and_eq_true, decide_eq_true_eq]; omega
  unfold DateFilter.valid_ymd_before OH.Model.validYmdBefore
  simp only [hc, if_true, ↓reduceIte, bnd_pure]
  refine (firstOr_congr _ _ (cand y m false) _ _ (fun day => before_closure y m day)).trans ?_
  have := chain_firstValid y m d false
  simp only [Chrono.from_ymd_opt, Int.toNat_natCast] at this ⊢
  rw [this]; rfl

/-- `valid_ymd_after`, in the same way: the model's `validYmdAfter` -/
theorem validYmdAfter_eq_model (y : Int) (m d : Nat) (hd : 1 ≤ d ∧ d ≤ 31) :
    DateFilter.valid_ymd_after y m d = .ok (OH.Model.validYmdAfter y m d) := by
  have hc : RangeInclusive.contains (RangeInclusive.mk (1 : Int) 31) (d : Int) = true := by
    simp only [RangeInclusive.contains, Bool.and_eq_true, decide_eq_true_eq]; omega
  unfold DateFilter.valid_ymd_after OH.Model.validYmdAfter
  simp only [hc, if_true, ↓reduceIte, bnd_pure]
  refine (firstOr_congr _ _ (cand y m true) _ _ (fun day => after_closure y m day)).trans ?_
  have := chain_firstValid y m d true
  simp only [Chrono.from_ymd_opt, Int.toNat_natCast] at this ⊢
  rw [this]; rfl

/-- outside 1..=31 both end with the `debug_assert!` panic (nothing else) -/
theorem validYmd_panics (after : Bool) (y m d : Int) (hd : ¬ (1 ≤ d ∧ d ≤ 31)) :
    ∃ msg, builder after y m d = .error (.panic msg) := by
  have hc : RangeInclusive.contains (RangeInclusive.mk (1 : Int) 31) d = false := by
    simp only [RangeInclusive.contains, Bool.and_eq_false_iff, decide_eq_false_iff_not]; omega
  cases after
  · simp only [builder, Bool.false_eq_true, if_false, ↓reduceIte, DateFilter.valid_ymd_before, hc]
    exact ⟨_, rfl⟩
  · simp only [builder, if_true, ↓reduceIte, DateFilter.valid_ymd_after, hc, Bool.false_eq_true, if_false]
    exact ⟨_, rfl⟩

theorem validYmd_total (after : Bool) (y : Int) (m d : Nat) (hd : 1 ≤ d ∧ d ≤ 31) :
    ∃ r, builder after y m d = .ok r := by
  cases after
  · exact ⟨_, by simp only [builder, Bool.false_eq_true, if_false, ↓reduceIte]; exact validYmdBefore_eq_model y m d hd⟩
  · exact ⟨_, by simp only [builder, if_true, ↓reduceIte]; exact validYmdAfter_eq_model y m d hd⟩

/-- `year_before_offset` is the model's `yearBeforeOffset`: for EVERY date and every day offset (no hypothesis;
`saturating_neg` on `i64` is `satNeg`) -/
theorem yearBeforeOffset_eq_model (d : Int) (o : OH.Model.DateOffset) :
    DateFilter.year_before_offset d (genOffset o) = .ok (OH.Model.yearBeforeOffset d o) := by
  unfold DateFilter.year_before_offset OH.Model.yearBeforeOffset
  simp only [genOffset, saturatingNeg_i64, addDaysSat_eq_model, bnd, Chrono.year]

theorem yearBeforeOffset_total (d : Int) (o : OH.Generated.Arith.DateOffset) :
    ∃ r, DateFilter.year_before_offset d o = .ok r := by
  unfold DateFilter.year_before_offset
  simp only [addDaysSat_eq_model, bnd]
  exact ⟨_, rfl⟩

theorem map_toNat_cast (y : Option Int) (h : ∀ v, y = some v → 0 ≤ v ∧ v ≤ 65535) :
    (y.map Int.toNat).map (fun (n : Nat) => (n : Int)) = y := by
  cases y with
  | none => rfl
  | some v =>
    have := (h v rfl).1
    simp only [Option.map_some, Option.some.injEq]; omega

/-- `date_year` is the model's `dateYear`, for every date whose fields are of their machine types -/
theorem dateYear_eq_model (dt : Date) (hok : DateOk dt) :
    DateFilter.date_year dt = .ok (OH.Model.dateYear (specOf dt)) := by
  cases dt with
  | Fixed y m d => simp only [DateFilter.date_year, specOf, OH.Model.dateYear, map_toNat_cast y hok.1]
  | Easter y => simp only [DateFilter.date_year, specOf, OH.Model.dateYear, map_toNat_cast y hok]

theorem easter_chrono (y : Int) (hy : -2147483648 ≤ y ∧ y ≤ 2147483647) :
    AgreeP (bnd (Dates.easter y) fun t => (.ok (Chrono.from_ymd_opt t.1 t.2.1 t.2.2) : R (Option Int)))
      (OH.Model.Cal.easter y) := by
  obtain ⟨m, d, h, _, _, hm⟩ := OH.Props.ArithC01.easter_eq_model y hy
  rw [h, hm]
  simp only [bnd, Chrono.from_ymd_opt, OH.Props.ArithC01.fromYmdArgs]
  exact .value _

/-- `date_on_year` called with `valid_ymd_after` (`after = true`) or `valid_ymd_before`: the model's `dateOnYear`, for
every date of the machine types with a day in 1..=31 and every `i32` year -/
theorem dateOnYear_agree (dt : Date) (hok : DateOk dt) (hday : DayOk dt) (fy : Int)
    (hfy : -2147483648 ≤ fy ∧ fy ≤ 2147483647) (after : Bool) :
    AgreeP (DateFilter.date_on_year dt fy (builder after)) (OH.Model.dateOnYear (specOf dt) fy after) := by
  cases dt with
  | Easter y =>
    cases y with
    | none =>
      simp only [DateFilter.date_on_year, specOf, OH.Model.dateOnYear, Option.getD_none, Option.map_none]
      exact easter_chrono fy hfy
    | some v =>
      have hv := hok v rfl
      have e : ((v.toNat : Nat) : Int) = v := by omega
      simp only [DateFilter.date_on_year, specOf, OH.Model.dateOnYear, Option.getD_some, Option.map_some, e]
      exact easter_chrono v (by omega)
  | Fixed y m d =>
    obtain ⟨hy, hd0, hd1⟩ := hok
    have hd : 1 ≤ d.toNat ∧ d.toNat ≤ 31 := by
      have := hday; simp only [DayOk] at this; omega
    have ed : ((d.toNat : Nat) : Int) = d := by omega
    have call : ∀ yy : Int, builder after yy (wrap .u32 m.discr) d
        = .ok (if after then OH.Model.validYmdAfter yy (num m) d.toNat else OH.Model.validYmdBefore yy (num m) d.toNat) := by
      intro yy
      rw [wrap_num m, ← ed]
      cases after
      · simp only [builder, Bool.false_eq_true, if_false, ↓reduceIte, Int.toNat_natCast]
        exact validYmdBefore_eq_model yy (num m) d.toNat hd
      · simp only [builder, if_true, ↓reduceIte, Int.toNat_natCast]
        exact validYmdAfter_eq_model yy (num m) d.toNat hd
    cases y with
    | none =>
      simp only [DateFilter.date_on_year, specOf, OH.Model.dateOnYear, Option.map_none, call, bnd]
      exact .value _
    | some v =>
      have hv := hy v rfl
      have e : ((v.toNat : Nat) : Int) = v := by omega
      simp only [DateFilter.date_on_year, specOf, OH.Model.dateOnYear, Option.map_some, e]
      by_cases c : v = fy
      · subst c
        simp only [eq_self_iff_true, decide_true, if_true, ↓reduceIte, call, bnd]
        exact .value _
      · have c' : ¬ fy = v := fun h => c h.symm      -- either spelling of the guard
        simp only [c, c', decide_false, Bool.false_eq_true, if_false, ↓reduceIte]
        exact .value _

/-- on such dates `date_on_year` has no outcome but a value whenever the model has one (the model's only error is
the `easter` one) -/
theorem dateOnYear_value (dt : Date) (hok : DateOk dt) (hday : DayOk dt) (fy : Int)
    (hfy : -2147483648 ≤ fy ∧ fy ≤ 2147483647) (after : Bool) (r : Option Int)
    (hm : OH.Model.dateOnYear (specOf dt) fy after = .ok r) :
    DateFilter.date_on_year dt fy (builder after) = .ok r := by
  have h := dateOnYear_agree dt hok hday fy hfy after
  rw [hm] at h
  generalize DateFilter.date_on_year dt fy (builder after) = g at h
  cases h
  rfl

/-- with a day outside 1..=31 a fixed date that reaches its builder ends with the `debug_assert!` panic -/
theorem dateOnYear_bad_day (m : Month) (d fy : Int) (hd : ¬ (1 ≤ d ∧ d ≤ 31)) (after : Bool) :
    ∃ msg, DateFilter.date_on_year (.Fixed none m d) fy (builder after) = .error (.panic msg) := by
  obtain ⟨msg, h⟩ := validYmd_panics after fy (wrap .u32 m.discr) d hd
  exact ⟨msg, by simp only [DateFilter.date_on_year, h, bnd]⟩

example : DateFilter.valid_ymd_before 2021 2 30 = .ok (some (ymdRaw 2021 2 28)) := by rfl
example : DateFilter.valid_ymd_after 2021 2 30 = .ok (some (ymdRaw 2021 3 1)) := by rfl
example : DateFilter.valid_ymd_before 300000 2 30 = .ok none := by rfl

end OH.Props.ArithC01Dated
