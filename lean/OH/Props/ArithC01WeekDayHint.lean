/-
C01 (and C02, C03, C08, C16) on the code as it is NOW: `impl DateFilter for ds::WeekDayRange` `next_change_hint`
(opening-hours/src/filter/date_filter.rs), translated from the Rust source on every run (`translators/rs2lean.py`,
[weekday extension], second part, chrono mode → `OH.Generated.Arith.WeekDayRange.next_change_hint`): `Some({ .. })` with the
`?` of `date.succ_opt()?` inside the block as the `none => .ok none` arm, `calendar.first_after(..).map(|following|
add_days_saturating(following, *offset)).unwrap_or_else(|| DATE_END.date())` as a two-armed match, the calendars of the
context as by-name parameters (`contains` and `first_after` of `ctx.holidays.public` / `.school`).

The tie: with the model's calendars passed by name, for EVERY kind, offset and date the generated definition and the
hand-written evaluator model `OH.Model.WeekDayRange.hint` give the same value; neither has another outcome (no fuel: the
function has no loop and no recursion).
-/
import OH.Proofs.ArithWeekDay
namespace OH.Props.ArithC01WeekDayHint
set_option linter.unusedSimpArgs false
set_option linter.unusedVariables false
open OH.Model.RustInt
open OH.Model.RustChrono
open OH.Generated.Arith
open OH.Proofs.ArithWeekDay

/-- THE TIE, `Holiday` arm: both sides are `.ok` of the same hint, for every kind, offset and date -/
theorem weekDayRange_hint_holiday_agree (k : OH.Model.HolidayKind) (off d : Int) (ctx : OH.Model.Ctx) :
    ∃ v, WeekDayRange.next_change_hint (.Holiday (genKind k) off) d (OH.Model.calContains ctx.pub) (OH.Model.calContains ctx.school)
          (OH.Model.calFirstAfter ctx.pub) (OH.Model.calFirstAfter ctx.school) = .ok v
      ∧ OH.Model.WeekDayRange.hint ctx (.holiday k off) d = .ok v := by
  simp only [WeekDayRange.next_change_hint, OH.Model.WeekDayRange.hint, OH.Proofs.RustDated.saturatingNeg_i64,
    OH.Props.ArithC01Offset.addDaysSat_eq_model, bnd, bind, Except.bind, pure, Except.pure, Chrono.succ_opt, Chrono.DATE_END]
  generalize OH.Model.addDaysSat d (OH.Model.satNeg off) = d'
  have key : ∀ cal : List Int, ∃ v,
      (if OH.Model.calContains cal d' = true then
          (match OH.Model.Cal.succ? d with
          | none => Except.ok none
          | some tmp2 => Except.ok (some tmp2) : R (Option Int))
        else
          match OH.Model.calFirstAfter cal d' with
          | some following => Except.ok (some (OH.Model.addDaysSat following off))
          | none => Except.ok (some OH.Model.Cal.dateEnd)) = Except.ok v ∧
      (if OH.Model.calContains cal d' = true then (Except.ok (OH.Model.Cal.succ? d) : Except String (Option Int))
        else
          match OH.Model.calFirstAfter cal d' with
          | none => Except.ok (some OH.Model.Cal.dateEnd)
          | some f => Except.ok (some (OH.Model.addDaysSat f off))) = Except.ok v := by
    intro cal
    by_cases hc : OH.Model.calContains cal d' = true
    · rw [if_pos hc, if_pos hc]
      cases OH.Model.Cal.succ? d <;> exact ⟨_, rfl, rfl⟩
    · rw [if_neg hc, if_neg hc]
      cases OH.Model.calFirstAfter cal d' <;> exact ⟨_, rfl, rfl⟩
  cases k
  · exact key ctx.pub
  · exact key ctx.school

/-- THE TIE, `Fixed` arm: no hint, on both sides, whatever the fields and the calendars -/
theorem weekDayRange_hint_fixed_agree (lo hi : Nat) (off : Int) (ns ne : Vector Bool 5) (d : Int) (ctx : OH.Model.Ctx)
    (pc sc : Int → Bool) (pf sf : Int → Option Int) :
    WeekDayRange.next_change_hint (.Fixed ⟨lo, hi⟩ off ns ne) d pc sc pf sf = .ok none
      ∧ OH.Model.WeekDayRange.hint ctx (.fixed lo hi off ns.toList ne.toList) d = .ok none := by
  simp only [WeekDayRange.next_change_hint, OH.Model.WeekDayRange.hint, and_self]

end OH.Props.ArithC01WeekDayHint
