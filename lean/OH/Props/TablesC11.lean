import OH.Generated.Tables
import OH.Model.Eval
/-
Tie 1 for data-like code (DESIGN §8.8): the hand-written model uses exactly the constants and look-up
tables that translators/tables2lean.py extracts from the Rust sources on every run
(OH/Generated/Tables.lean).  A changed constant, a permuted or missing match arm, a changed separator or
name in /repo breaks one of these kernel-checked obligations.
-/
namespace OH.Props.TablesC11
open OH.Model OH.Generated

def eventOfNat : Nat → TimeEvent | 0 => .dawn | 1 => .sunrise | 2 => .sunset | _ => .dusk

theorem C11_default_events (d : Int) : ∀ p ∈ Tables.defaultEvents, defaultEvent d (eventOfNat p.1) = p.2 := by
  have h : ∀ p ∈ Tables.defaultEvents, defaultEvent 0 (eventOfNat p.1) = p.2 := by decide
  intro p hp
  have := h p hp
  cases hev : eventOfNat p.1 <;> simpa [hev, defaultEvent] using this

theorem C11_default_events_complete : Tables.defaultEvents.map (·.1) = [0, 1, 2, 3] := by decide

end OH.Props.TablesC11
