import OH.Props.C01
import OH.Props.C04P
/-
C01 FROM THE STRING: the refinement theorems were stated under `ParserWF e`; every string the parser
accepts yields such an expression (`parse_string_ok_wf`, for every string), so the day schedules of
EVERY parsed expression follow the documented semantics — in full without dated ranges, and for dated
ranges within the decidable classes of OH/Props/C01.lean.
-/
namespace OH.Props.C01E
open OH.Model OH.Model.Cal OH.Spec OH.Props.C01

/-- **C01 for every parsed expression without dated ranges**: every context, every day 1900–9999,
every minute has exactly the state the specification defines -/
theorem C01_every_parsed_expression_nodated (s : String) (e : Expr) (h : Parser.parse s = .ok e)
    (hnd : noDated e = true) (ctx : Ctx) (d : Int) (h1 : dateStart ≤ d) (h2 : d < dateEnd) :
    ∃ rs, daySchedule ctx e d = .ok rs ∧ c01Holds ctx e d rs = true :=
  C01_schedule_refines_spec_nodated ctx e d (OH.Proofs.SynTotal.parse_string_ok_wf s e h) h1 h2 hnd

/-- **C01 for every parsed expression whose dated ranges are in the rule-level class** `exprDatedPlain`
(every dated range with a defined meaning and: ANY day offsets between two fixed yearless dates and between two
bounds with a year, a start offset within ±92 000 000 days from a start with a year to a fixed yearless end,
±300 000 days when a bound is a yearless Easter — whatever the size of the
shift relative to a year, since the pairing windows are centred on the year of `d - day offset`) -/
theorem C01_every_parsed_expression_plain (s : String) (e : Expr) (h : Parser.parse s = .ok e)
    (hpl : exprDatedPlain e = true) (ctx : Ctx) (d : Int) (h1 : dateStart ≤ d) (h2 : d < dateEnd) :
    ∃ rs, daySchedule ctx e d = .ok rs ∧ c01Holds ctx e d rs = true :=
  C01_schedule_refines_spec_plain ctx e d (OH.Proofs.SynTotal.parse_string_ok_wf s e h) h1 h2 hpl

/-- and for the day-level class `exprDatedSafe e d` (now the same class: `exprDatedSafe_iff_plain`) -/
theorem C01_every_parsed_expression_window (s : String) (e : Expr) (h : Parser.parse s = .ok e)
    (ctx : Ctx) (d : Int) (h1 : dateStart ≤ d) (h2 : d < dateEnd) (hds : exprDatedSafe e d = true) :
    ∃ rs, daySchedule ctx e d = .ok rs ∧ c01Holds ctx e d rs = true :=
  C01_schedule_refines_spec_window ctx e d (OH.Proofs.SynTotal.parse_string_ok_wf s e h) h1 h2 hds

end OH.Props.C01E
