import OH.Generated.Tables
import OH.Model.Normalize
/-
Tie 1 for data-like code (DESIGN §8.8): the hand-written model uses exactly the constants and look-up
tables that translators/tables2lean.py extracts from the Rust sources on every run
(OH/Generated/Tables.lean).  A changed constant, a permuted or missing match arm, a changed separator or
name in /repo breaks one of these kernel-checked obligations.
-/
namespace OH.Props.TablesC07
open OH.Model OH.Generated


theorem C07_frames :
    (Norm.yearF.frameStart, Norm.yearF.frameEnd) = Tables.frameYear ∧
    (Norm.monthF.frameStart, Norm.monthF.frameEnd) = Tables.frameMonth ∧
    (Norm.weekF.frameStart, Norm.weekF.frameEnd) = Tables.frameWeek ∧
    (Norm.wdayF.frameStart, Norm.wdayF.frameEnd) = Tables.frameWeekday ∧
    (Norm.timeB.boundStart, Norm.timeB.boundEnd) = (60 * Tables.boundTimeHours.1, 60 * Tables.boundTimeHours.2) := by
  decide

end OH.Props.TablesC07
