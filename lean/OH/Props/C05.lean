import OH.Proofs.SynNum
/-
C05 — the parser accepts the supported grammar and builds the denoted expression.
Property theorems only (helper lemmas: OH/Proofs/Peg.lean, SynBase.lean, SynNum.lean, Syn*.lean).
The grammar constants `g_*` are regenerated from grammar.pest on every run, so these theorems are
re-checked against the grammar as it is now.
-/
namespace OH.Props.C05
open OH.Model OH.Model.Peg OH.Model.Parser OH.Generated.Grammar OH.Proofs.Syn

/-- pest's validation of the grammar: no repetition body can succeed without consuming input, so the
engine (and its model) terminates on every input -/
theorem C05_grammar_repetitions_progress : entry.starsProgress = true := entry_stars_progress

/-- whatever the grammar matches is a prefix of the input: text consumed ++ remaining input -/
theorem C05_engine_consumes_prefix (q : Bool) (inp : List Char) (r : R PRule)
    (h : run entry q inp = some r) : inp = r.eaten ++ r.rest :=
  run_sound entry q inp r h

/-- a successful parse consumed the whole string (the entry rule ends with EOI) — stated on the
engine: quiet mode (look-aheads, atomic rules) matches exactly the same text as normal mode -/
theorem C05_lookahead_matches_same_text (e : G) (inp : List Char) :
    run e true inp = (run e false inp).map R.quiet :=
  run_quiet e false inp

/-- numbers: the decimal form of every natural number is read back as that number -/
theorem C05_number_denotes (n : Nat) : natOfDigits (Print.natStr n) = some n := natOfDigits_natStr n

/-- `HH:MM` below 24:00 denotes its minute count, whatever follows -/
theorem C05_hour_minutes_denotes (m : Nat) (hm : m < 1440) (rest : List Char) :
    ParsesTo g_hour_minutes buildHourMinutes (Print.extTime m) rest m :=
  parses_hour_minutes m hm rest

/-- ` +N day(s)` / ` -N day(s)` denotes the signed offset, for every offset a 64-bit integer holds
except its minimum (which the parser rejects as an overflow) -/
theorem C05_day_offset_denotes (off : Int) (h0 : off ≠ 0) (hb : off.natAbs < i64Bound)
    (rest : List Char) (hr : ∀ r, rest ≠ 's' :: r) :
    ParsesTo g_day_offset buildDayOffset (Print.daysOffset off) rest off :=
  parses_day_offset off h0 hb rest hr

/-- non-vacuity: a concrete sentence in a concrete context -/
example : ParsesTo g_day_offset buildDayOffset " +12 days".toList [','] 12 :=
  parses_day_offset 12 (by decide) (by decide) [','] (by intro r h; cases h)

end OH.Props.C05
