import OH.Proofs.SynNum
import OH.Proofs.SynTotal
import OH.Proofs.SentRule8
/-
C05 — the parser accepts the supported grammar and builds the denoted expression.
Property theorems only (helper lemmas: OH/Proofs/Peg.lean, SynBase.lean, SynNum.lean, Syn*.lean).
The grammar constants `g_*` are regenerated from grammar.pest on every run, so these theorems are
re-checked against the grammar as it is now.
-/
namespace OH.Props.C05
open OH.Model OH.Model.Peg OH.Model.Parser OH.Generated.Grammar OH.Proofs.Syn

/-- pest's validation of the grammar: no repetition body can succeed without consuming input, so the
engine (and its model) terminates on every input -/
theorem C05_grammar_repetitions_progress : entry.starsProgress = true := entry_stars_progress

/-- whatever the grammar matches is a prefix of the input: text consumed ++ remaining input -/
theorem C05_engine_consumes_prefix (q : Bool) (inp : List Char) (r : R PRule)
    (h : run entry q inp = some r) : inp = r.eaten ++ r.rest :=
  run_sound entry q inp r h

/-- a successful parse consumed the whole string (the entry rule ends with EOI) — stated on the
engine: quiet mode (look-aheads, atomic rules) matches exactly the same text as normal mode -/
theorem C05_lookahead_matches_same_text (e : G) (inp : List Char) :
    run e true inp = (run e false inp).map R.quiet :=
  run_quiet e false inp

/-- numbers: the decimal form of every natural number is read back as that number -/
theorem C05_number_denotes (n : Nat) : natOfDigits (Print.natStr n) = some n := natOfDigits_natStr n

/-- `HH:MM` below 24:00 denotes its minute count, whatever follows -/
theorem C05_hour_minutes_denotes (m : Nat) (hm : m < 1440) (rest : List Char) :
    ParsesTo g_hour_minutes buildHourMinutes (Print.extTime m) rest m :=
  parses_hour_minutes m hm rest

/-- ` +N day(s)` / ` -N day(s)` denotes the signed offset, for every offset a 64-bit integer holds
except its minimum (which the parser rejects as an overflow) -/
theorem C05_day_offset_denotes (off : Int) (h0 : off ≠ 0) (hb : off.natAbs < i64Bound)
    (rest : List Char) (hr : ∀ r, rest ≠ 's' :: r) :
    ParsesTo g_day_offset buildDayOffset (Print.daysOffset off) rest off :=
  parses_day_offset off h0 hb rest hr

/-- REJECTION CLAUSE, for every string: whatever the parser accepts has all its fields in range
(`ParserWF`: years 1900..9999, months 1..12, days 1..31, weeks 1..53, weekdays, steps ≥ 1 within
`u8`/`u16`, nth positions 1..5, start ≤ 24:00, end ≤ 48:00, event offsets within ±24:00, day offsets
within `i64`, a non-empty time selector, a non-empty rule list whose first rule is Normal).  So a
sentence with a start hour above 24, a minute above 59, an extended time above 48:00, day 0 or above
31, week 0 or above 53, nth outside 1..5, a year outside 1900..9999 or a zero step is never accepted
with that field: it is an error, or the offending characters are read as something else in range. -/
theorem C05_accepted_fields_in_range (s : String) (e : Expr) (h : Parser.parse s = .ok e) :
    ParserWF e = true :=
  OH.Proofs.SynTotal.parse_string_ok_wf s e h

/-- empty input is rejected (`&ANY` at the head of the entry rule) -/
theorem C05_empty_rejected :
    (match Parser.parseChars [] with | .error .parser => true | _ => false) = true := by decide +kernel

/-! ### the whole sentence -/

/-- **C05, main statement**: EVERY well-formed sentence of the supported grammar — the OSM grammar with
the documented relaxations, as data in OH/Spec/Sent.lean: optional spaces, one-digit hours / days /
weeks, `off`, explicit `open`, `day`/`days`, leading zeros, `[1-3]`, `Jan 5-10`, `2020+`, `Jan 5+`,
`week1`, holidays and weekdays in either order joined by `,` or a space, a comment before and/or after
the selectors, six spellings of the separators, `:` / `: ` / a space after the wide-range selectors —
parses to exactly the expression it denotes: same selectors, ranges, steps, offsets, time spans,
modifier, comments and rule separators.  `render` and `denote` are written without any parser; the
driver draws its `c05.den` lines from the same definitions. -/
theorem C05_every_sentence_parses_to_its_denotation (s : OH.Spec.Sent.Sentence) (h : s.wf = true) :
    Parser.parseChars s.render = .ok s.denote :=
  OH.Proofs.Sent.sentence_parses s h

/-- the same on strings -/
theorem C05_every_sentence_parses_string (s : OH.Spec.Sent.Sentence) (h : s.wf = true) :
    Parser.parse (String.ofList s.render) = .ok s.denote :=
  OH.Proofs.Sent.sentence_parses_string s h

/-- non-vacuity: a well-formed sentence using most constructs and relaxations
(`"c":Mo[1-3,-1] +02 days,PH 9:00 - 12:00,(sunrise+0:30)-sunset+ off "x"; 2020+ Jan 5-10 week1: 10:00+`) -/
example :
    let c : OH.Spec.Sent.Clock := ⟨9, 0, true⟩
    let s : OH.Spec.Sent.Sentence :=
      ⟨⟨.sel (.comment "c")
          (some (.daysHols [.nth 0 [.range 1 3, .last 1] (some ⟨⟨2, 1⟩, false, true⟩)] false [.pub none]))
          [.range (.clock c) true true (.clock ⟨12, 0, false⟩) false,
           .range (.var (.shifted .sunrise false (.clock ⟨0, 30, true⟩))) false false (.var (.plain .sunset)) true],
        ⟨.off, some "x"⟩⟩,
       [(.semiSpace, ⟨.sel (.sel [.plus 2020] [] (some ⟨false, [.single ⟨1, true⟩]⟩) .colonSpace) none
          [.from_ (.clock ⟨10, 0, false⟩)], ⟨.none, none⟩⟩)]⟩
    s.wf = true := by decide +kernel

/-- non-vacuity: a concrete sentence in a concrete context -/
example : ParsesTo g_day_offset buildDayOffset " +12 days".toList [','] 12 :=
  parses_day_offset 12 (by decide) (by decide) [','] (by intro r h; cases h)

end OH.Props.C05
