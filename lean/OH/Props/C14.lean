import OH.Proofs.Schedule
import OH.Proofs.ScheduleIter
import OH.Proofs.ScheduleComments
/-
C14 — Schedule algebra: overlay semantics and gap-free day iteration.

  "A Schedule built from any ranges within 00:00-24:00 and combined by addition keeps disjoint,
   increasing, non-empty ranges; from_ranges covers exactly the union of its input ranges, and after
   addition every minute shows the kind of the most recently added schedule covering it, earlier
   schedules showing through elsewhere.  Iterating a schedule yields a gap-free tiling of
   00:00-24:00 in which closed fills the holes and adjacent ranges have different kinds."

Vocabulary (`OH.Spec.Schedule`, also evaluated by the correspondence driver on the implementation):
`WF` = non-empty, increasing, disjoint; `Within 1440` = all ranges end by 24:00; `Coalesced` = no two
touching ranges of the same kind; `stateAt s m` = kind of the range covering minute `m`;
`fromSpec rs k m` = `some k` iff some input range contains `m`; `Tiles l a b`; `Alternates l`;
`dayState s m = (stateAt s m).getD closed`.

STATUS.  Everything is proved in full for the model of the code as it is now.
The clause "from_ranges covers exactly the union of its input ranges" was FALSE for the code as
originally written (defect D6, schedule.rs:95: the end of the right-hand range was assigned instead
of the maximum); /repo now carries the one-line repair and `Schedule.fromRanges` is
`fromRangesFixed`.  Kept for the record, about the original code (`fromRangesBuggy`):
  * `fromRangesBuggy_covers_fails`    refutation on `from_ranges([06:00-14:00, 06:00-09:30])`
  * `fromRangesBuggy_covers_partial`  the clause under the decidable hypothesis `FromRangesOK rs`
  * `fromRangesBuggy_sound`           the half that held unconditionally (nothing was invented)
and, for the code as it is:
  * `fromRanges_covers`               the FULL clause
The theorems about `fromRanges` other than `fromRanges_covers` are proved by
`first | <buggy proof> | <fixed proof>` and compile whichever definition is switched on in
`OH/Model/Schedule.lean`; with `fromRangesBuggy` only `fromRanges_covers` has to be commented out
(`fromRanges_covers_partial` is its `_partial` form).
-/
namespace OH.Props.C14
open OH.Model OH.Model.Schedule OH.Spec.Schedule OH.Proofs.Schedule

/-! ## 1. `from_ranges` -/

theorem fromRangesBuggy_swf (rs : List (Nat × Nat)) (k : Kind) (c : List String) :
    SWF (fromRangesBuggy rs k c) := by
  apply mergeBuggy_swf _ (sorted_sortByStart _)
  intro t ht
  rw [mem_sortByStart, mem_mkRanges] at ht
  obtain ⟨r, _, h, rfl⟩ := ht; exact h

theorem fromRangesFixed_swf (rs : List (Nat × Nat)) (k : Kind) (c : List String) :
    SWF (fromRangesFixed rs k c) := by
  apply mergeFixed_swf _ (sorted_sortByStart _)
  intro t ht
  rw [mem_sortByStart, mem_mkRanges] at ht
  obtain ⟨r, _, h, rfl⟩ := ht; exact h

/-- `from_ranges` yields disjoint, increasing, non-empty ranges for ARBITRARY input ranges
(overlapping, nested, adjacent; empty and inverted ones are dropped). -/
theorem fromRanges_wf (rs : List (Nat × Nat)) (k : Kind) (c : List String) :
    WF (fromRanges rs k c) := by
  first
  | exact swf_wf _ (fromRangesBuggy_swf rs k c)
  | exact swf_wf _ (fromRangesFixed_swf rs k c)

/-- … and they are even strictly separated, hence coalesced -/
theorem fromRanges_coalesced (rs : List (Nat × Nat)) (k : Kind) (c : List String) :
    Coalesced (fromRanges rs k c) := by
  first
  | exact swf_coalesced _ (fromRangesBuggy_swf rs k c)
  | exact swf_coalesced _ (fromRangesFixed_swf rs k c)

theorem fromRangesBuggy_within (lim : Nat) (rs : List (Nat × Nat)) (k : Kind) (c : List String)
    (h : ∀ r ∈ rs, r.2 ≤ lim) : Within lim (fromRangesBuggy rs k c) := by
  intro x hx
  obtain ⟨_, ⟨y, hy, e⟩, _⟩ := mergeBuggy_mem _ x hx
  rw [mem_sortByStart, mem_mkRanges] at hy
  obtain ⟨r, hr, _, rfl⟩ := hy
  rw [e]; exact h r hr

theorem fromRangesFixed_within (lim : Nat) (rs : List (Nat × Nat)) (k : Kind) (c : List String)
    (h : ∀ r ∈ rs, r.2 ≤ lim) : Within lim (fromRangesFixed rs k c) := by
  intro x hx
  obtain ⟨_, ⟨y, hy, e⟩, _⟩ := mergeFixed_mem _ x hx
  rw [mem_sortByStart, mem_mkRanges] at hy
  obtain ⟨r, hr, _, rfl⟩ := hy
  rw [e]; exact h r hr

/-- input ranges within 00:00-24:00 (or any other limit) give a schedule within that limit -/
theorem fromRanges_within (lim : Nat) (rs : List (Nat × Nat)) (k : Kind) (c : List String)
    (h : ∀ r ∈ rs, r.2 ≤ lim) : Within lim (fromRanges rs k c) := by
  first
  | exact fromRangesBuggy_within lim rs k c h
  | exact fromRangesFixed_within lim rs k c h

theorem kind_sorted_mkRanges (rs : List (Nat × Nat)) (k : Kind) (c : List String) :
    ∀ t ∈ sortByStart (mkRanges rs k c), t.kind = k := by
  intro t ht
  rw [mem_sortByStart, mem_mkRanges] at ht
  obtain ⟨r, _, _, rfl⟩ := ht; rfl

/-- FULL clause for the repaired code: "from_ranges covers exactly the union of its input ranges"
(and every covered minute has the given kind), for arbitrary input ranges. -/
theorem fromRangesFixed_covers (rs : List (Nat × Nat)) (k : Kind) (c : List String) (m : Nat) :
    stateAt (fromRangesFixed rs k c) m = fromSpec rs k m := by
  unfold fromRangesFixed fromSpec
  rw [stateAt_uniform k _ (mergeFixed_kind k _ (kind_sorted_mkRanges rs k c)) m]
  have := mergeFixed_covers _ (sorted_sortByStart (mkRanges rs k c)) m
  have := coveredBy_sorted_mkRanges rs k c m
  grind

/-- The code as originally written, under the precise hypothesis `FromRangesOK rs` (no execution of line 95
assigns an end smaller than the accumulated one). -/
theorem fromRangesBuggy_covers_partial (rs : List (Nat × Nat)) (k : Kind) (c : List String)
    (h : FromRangesOK rs) (m : Nat) :
    stateAt (fromRangesBuggy rs k c) m = fromSpec rs k m := by
  have e : fromRangesBuggy rs k c = fromRangesFixed rs k c :=
    mergeBuggy_eq_fixed _ (mergeOK_of_fromRangesOK rs k c h)
  rw [e]; exact fromRangesFixed_covers rs k c m

/-- under `FromRangesOK` the code as written and the repaired code return the same schedule,
comments included -/
theorem fromRangesBuggy_eq_fixed (rs : List (Nat × Nat)) (k : Kind) (c : List String)
    (h : FromRangesOK rs) : fromRangesBuggy rs k c = fromRangesFixed rs k c :=
  mergeBuggy_eq_fixed _ (mergeOK_of_fromRangesOK rs k c h)

/-- The half of the clause that the code as originally written satisfied for ALL inputs: it never shows a
minute that is not in the union of the inputs, and never another kind. -/
theorem fromRangesBuggy_sound (rs : List (Nat × Nat)) (k : Kind) (c : List String) (m : Nat) (k' : Kind)
    (h : stateAt (fromRangesBuggy rs k c) m = some k') : fromSpec rs k m = some k' := by
  unfold fromRangesBuggy at h
  unfold fromSpec
  rw [stateAt_uniform k _ (mergeBuggy_kind k _ (kind_sorted_mkRanges rs k c)) m] at h
  have := mergeBuggy_sound _ (sorted_sortByStart (mkRanges rs k c)) m
  have := coveredBy_sorted_mkRanges rs k c m
  grind

/-- REFUTATION of the full clause for the code as originally written (defect D6):
`from_ranges([06:00-14:00, 06:00-09:30], Open)` shows nothing at 10:00 although the first input
range contains it. -/
theorem fromRangesBuggy_covers_fails :
    ¬ ∀ (rs : List (Nat × Nat)) (k : Kind) (c : List String) (m : Nat),
        stateAt (fromRangesBuggy rs k c) m = fromSpec rs k m := by
  intro h
  have := h [(360, 840), (360, 570)] Kind.open [] 600
  revert this
  decide

/-- the witness is in the class `D6-fromranges-nested` (and the repaired code is right on it) -/
example : ¬ FromRangesOK [(360, 840), (360, 570)] := by decide
example : stateAt (fromRangesFixed [(360, 840), (360, 570)] Kind.open []) 600 = some Kind.open := by decide

/-- A simple order-independent sufficient condition for `FromRangesOK`: among the non-empty input
ranges, none that starts no later than another ends after it (no nesting, no equal starts with
different ends).  Disjoint, touching and "staircase"-overlapping inputs all satisfy it. -/
theorem fromRangesOK_of_noNesting (rs : List (Nat × Nat)) (h : NoNesting rs) : FromRangesOK rs :=
  OH.Proofs.Schedule.fromRangesOK_of_noNesting rs h

/-- `from_ranges` (whichever definition is switched on): the clause under `FromRangesOK`.
FULL STATEMENT: `fromRanges_covers` below (false for the code as originally written, see
`fromRangesBuggy_covers_fails`, where the hypothesis `FromRangesOK rs` cannot be dropped). -/
theorem fromRanges_covers_partial (rs : List (Nat × Nat)) (k : Kind) (c : List String)
    (_h : FromRangesOK rs) (m : Nat) : stateAt (fromRanges rs k c) m = fromSpec rs k m := by
  first
  | exact fromRangesBuggy_covers_partial rs k c _h m
  | exact fromRangesFixed_covers rs k c m

/-- `from_ranges` never shows more than the union of its inputs (unconditional) -/
theorem fromRanges_sound (rs : List (Nat × Nat)) (k : Kind) (c : List String) (m : Nat) (k' : Kind)
    (h : stateAt (fromRanges rs k c) m = some k') : fromSpec rs k m = some k' := by
  first
  | exact fromRangesBuggy_sound rs k c m k' h
  | (rw [← fromRangesFixed_covers rs k c m]; exact h)

/-- FULL clause: "from_ranges covers exactly the union of its input ranges" (and every covered
minute has the given kind), for arbitrary input ranges.  (Needs `fromRanges := fromRangesFixed`.) -/
theorem fromRanges_covers (rs : List (Nat × Nat)) (k : Kind) (c : List String) (m : Nat) :
    stateAt (fromRanges rs k c) m = fromSpec rs k m := fromRangesFixed_covers rs k c m

/-- every range of `from_ranges` carries exactly the given comments (for a sorted duplicate-free
comment list `union c c = c`, which is C15) -/
theorem fromRanges_comments (rs : List (Nat × Nat)) (k : Kind) (c : List String)
    (hc : cunion c c = c) : ∀ t ∈ fromRanges rs k c, t.comments = c := by
  have h0 : ∀ t ∈ sortByStart (mkRanges rs k c), t.comments = c := by
    intro t ht
    rw [mem_sortByStart, mem_mkRanges] at ht
    obtain ⟨r, _, _, rfl⟩ := ht; rfl
  first
  | exact mergeBuggy_comments c hc _ h0
  | exact mergeFixed_comments c hc _ h0

/-! ## 2. `insert` (private; the step of `addition`) -/

/-- inserting a non-empty range keeps the ranges disjoint, increasing, non-empty -/
theorem insert_wf (s : Schedule) (hs : WF s) (ins : TimeRange) (h : ins.s < ins.e) :
    WF (insert s ins) := (insert_spec s hs ins h).1

/-- the inserted range wins inside itself, the old schedule shows through elsewhere -/
theorem insert_state (s : Schedule) (hs : WF s) (ins : TimeRange) (h : ins.s < ins.e) (m : Nat) :
    stateAt (insert s ins) m = if ins.s ≤ m ∧ m < ins.e then some ins.kind else stateAt s m :=
  (insert_spec s hs ins h).2.1 m

/-- What is true about coalescing: `insert` only merges the inserted range with the neighbours it
touches, so it does not repair a schedule that already had touching ranges of one kind; but it never
creates such a pair: a coalesced schedule stays coalesced. -/
theorem insert_coalesced (s : Schedule) (hs : WF s) (hc : Coalesced s) (ins : TimeRange)
    (h : ins.s < ins.e) : Coalesced (insert s ins) :=
  OH.Proofs.Schedule.insert_coalesced s hs hc ins h

theorem insert_within (lim : Nat) (s : Schedule) (hs : WF s) (hw : Within lim s) (ins : TimeRange)
    (h : ins.s < ins.e) (he : ins.e ≤ lim) : Within lim (insert s ins) :=
  OH.Proofs.Schedule.insert_within lim s hs hw ins h he

/-! ## 3. `addition` -/

theorem addition_wf (a b : Schedule) (ha : WF a) (hb : WF b) : WF (addition a b) :=
  (additionRev_spec b.reverse a ha (fun t ht => wf_nonempty b hb t (List.mem_reverse.mp ht))).1

/-- "after addition every minute shows the kind of the most recently added schedule covering it,
earlier schedules showing through elsewhere" -/
theorem addition_state (a b : Schedule) (ha : WF a) (hb : WF b) (m : Nat) :
    stateAt (addition a b) m = (stateAt b m).or (stateAt a m) := by
  have := (additionRev_spec b.reverse a ha
    (fun t ht => wf_nonempty b hb t (List.mem_reverse.mp ht))).2 m
  rw [List.reverse_reverse] at this
  exact this

theorem addition_coalesced (a b : Schedule) (ha : WF a) (hc : Coalesced a) (hb : WF b) :
    Coalesced (addition a b) :=
  additionRev_coalesced b.reverse a ha hc (fun t ht => wf_nonempty b hb t (List.mem_reverse.mp ht))

theorem addition_within (lim : Nat) (a b : Schedule) (ha : WF a) (hb : WF b)
    (wa : Within lim a) (wb : Within lim b) : Within lim (addition a b) :=
  additionRev_within lim b.reverse a ha wa
    (fun t ht => wf_nonempty b hb t (List.mem_reverse.mp ht))
    (fun t ht => wb t (List.mem_reverse.mp ht))

/-- `base + s₁ + s₂ + … + sₙ` -/
def additions (base : Schedule) (ss : List Schedule) : Schedule := ss.foldl addition base

theorem additions_wf (ss : List Schedule) (base : Schedule) (hb : WF base) (hss : ∀ s ∈ ss, WF s) :
    WF (additions base ss) := by
  induction ss generalizing base with
  | nil => exact hb
  | cons s rest ih =>
    exact ih (addition base s) (addition_wf base s hb (hss s (by simp))) (fun x hx => hss x (by simp [hx]))

/-- Over any finite sequence of additions: the most recently added schedule covering the minute
wins (`findSome?` on the reversed sequence), the base schedule shows through where none covers it. -/
theorem additions_state (ss : List Schedule) (base : Schedule) (hb : WF base) (hss : ∀ s ∈ ss, WF s)
    (m : Nat) :
    stateAt (additions base ss) m
      = (ss.reverse.findSome? (fun s => stateAt s m)).or (stateAt base m) := by
  induction ss generalizing base with
  | nil => simp [additions]
  | cons s rest ih =>
    have h1 := hss s (by simp)
    show stateAt (additions (addition base s) rest) m = _
    rw [ih (addition base s) (addition_wf base s hb h1) (fun x hx => hss x (by simp [hx])),
      addition_state base s hb h1 m, List.reverse_cons, List.findSome?_append]
    simp only [List.findSome?_cons, List.findSome?_nil]
    cases List.findSome? (fun s => stateAt s m) rest.reverse <;> cases stateAt s m <;> simp

/-! ## 4. closure: every schedule the public API can build -/

/-- schedules built by `new`, `from_ranges` (arbitrary ranges ending by `lim`) and `addition` -/
inductive Reachable (lim : Nat) : Schedule → Prop
  | new : Reachable lim Schedule.new
  | fromRanges (rs : List (Nat × Nat)) (k : Kind) (c : List String) (h : ∀ r ∈ rs, r.2 ≤ lim) :
      Reachable lim (Schedule.fromRanges rs k c)
  | addition (a b : Schedule) : Reachable lim a → Reachable lim b → Reachable lim (Schedule.addition a b)

/-- "A Schedule built from any ranges within 00:00-24:00 and combined by addition keeps disjoint,
increasing, non-empty ranges" (`lim = 1440`; also for ranges up to 48:00, `lim = 2880`), within the
limit, and coalesced. -/
theorem reachable_wf (lim : Nat) (s : Schedule) (h : Reachable lim s) :
    WF s ∧ Within lim s ∧ Coalesced s := by
  induction h with
  | new => exact ⟨trivial, fun t ht => by simp [Schedule.new] at ht, fun t ht => by simp [Schedule.new] at ht⟩
  | fromRanges rs k c h => exact ⟨fromRanges_wf rs k c, fromRanges_within lim rs k c h, fromRanges_coalesced rs k c⟩
  | addition a b _ _ iha ihb =>
    exact ⟨addition_wf a b iha.1 ihb.1, addition_within lim a b iha.1 ihb.1 iha.2.1 ihb.2.1,
      addition_coalesced a b iha.1 iha.2.2 ihb.1⟩

/-- the macro `schedule!` only uses `new`, `from_ranges` and `addition` -/
theorem scheduleMacro_reachable (lim : Nat) (seqs : List (Nat × List MacroLink))
    (h : ∀ sq ∈ seqs, ∀ ln ∈ sq.2, ln.2.2 ≤ lim) : Reachable lim (scheduleMacro seqs) := by
  unfold scheduleMacro
  suffices H : ∀ (seqs : List (Nat × List MacroLink)) (acc : Schedule), Reachable lim acc →
      (∀ sq ∈ seqs, ∀ ln ∈ sq.2, ln.2.2 ≤ lim) →
      Reachable lim (seqs.foldl (fun sch sq =>
        (sq.2.foldl (fun (acc : Schedule × Nat) (ln : MacroLink) =>
          (Schedule.addition acc.1 (Schedule.fromRanges [(acc.2, ln.2.2)] ln.1 (SortedVec.fromVec ln.2.1)), ln.2.2))
          (sch, sq.1)).1) acc) from H seqs _ Reachable.new h
  intro seqs
  induction seqs with
  | nil => intro acc ha _; exact ha
  | cons sq rest ih =>
    intro acc ha hs
    rw [List.foldl_cons]
    apply ih _ _ (fun x hx => hs x (by simp [hx]))
    have hl := hs sq (by simp)
    generalize sq.1 = p0
    generalize sq.2 = links at hl
    induction links generalizing acc p0 with
    | nil => exact ha
    | cons ln lrest ih2 =>
      rw [List.foldl_cons]
      apply ih2 _ _ _ (fun x hx => hl x (by simp [hx]))
      exact Reachable.addition _ _ ha (Reachable.fromRanges _ _ _ (by
        intro r hr; rw [List.mem_singleton] at hr; subst hr; exact hl ln (by simp)))

/-! ## 5. iteration -/

theorem iterInv_new (s : Schedule) (hs : WF s) : IterInv (IterState.new s) :=
  ⟨hs, fun _ _ => Nat.zero_le _⟩

/-- the `assert!` of `pre_yield` ("infinite loop detected") is unreachable for every well-formed
schedule — even with ranges beyond 24:00 -/
theorem iter_no_panic (s : Schedule) (hs : WF s) : iterPanics s = false :=
  (iterFrom_spec (IterState.new s) none (iterInv_new s hs) (fun _ => by simp)).1

/-- General form (ranges may reach beyond 24:00, up to 48:00): the iteration tiles `[0, E)` for some
`E ≥ 24:00`, adjacent kinds differ, and every minute below `E` shows the state of the schedule with
`closed` in the holes.  (Iteration stops at the first `last_end ≥ 24:00`; a final closed range is
cut at 24:00.) -/
theorem iter_ext (s : Schedule) (hs : WF s) :
    ∃ E, 1440 ≤ E ∧ Tiles (iter s) 0 E ∧ Alternates (iter s) ∧
      ∀ m, m < E → stateAt (iter s) m = some (dayState s m) := by
  obtain ⟨_, E, h1, h2, _, h4, h5, _⟩ :=
    iterFrom_spec (IterState.new s) none (iterInv_new s hs) (fun _ => by simp)
  exact ⟨E, h2 (by simp [IterState.new]), h1, altFrom_alternates _ _ h4,
    fun m hm => h5 m (Nat.zero_le _) hm⟩

/-- "Iterating a schedule yields a gap-free tiling of 00:00-24:00 …" -/
theorem iter_tiling (s : Schedule) (hs : WF s) (hw : Within 1440 s) : Tiles (iter s) 0 1440 := by
  obtain ⟨_, E, h1, h2, _, _, _, h6⟩ :=
    iterFrom_spec (IterState.new s) none (iterInv_new s hs) (fun _ => by simp)
  have e1 : 1440 ≤ E := h2 (by simp [IterState.new])
  have e2 : E ≤ 1440 := h6 hw (by simp [IterState.new])
  have : E = 1440 := by omega
  subst this; exact h1

/-- "… and adjacent ranges have different kinds" -/
theorem iter_alternates (s : Schedule) (hs : WF s) : Alternates (iter s) := by
  obtain ⟨_, _, _, h, _⟩ := iter_ext s hs; exact h

/-- "… in which closed fills the holes": every minute of the day shows the state of the schedule,
`closed` where no range covers it -/
theorem iter_state (s : Schedule) (hs : WF s) (m : Nat) (hm : m < 1440) :
    stateAt (iter s) m = some (dayState s m) := by
  obtain ⟨E, h1, _, _, h⟩ := iter_ext s hs; exact h m (by omega)

/-- all of it for every schedule the API can build from ranges within 00:00-24:00 -/
theorem reachable_iter (s : Schedule) (h : Reachable 1440 s) :
    iterPanics s = false ∧ Tiles (iter s) 0 1440 ∧ Alternates (iter s) ∧
    ∀ m, m < 1440 → stateAt (iter s) m = some (dayState s m) := by
  obtain ⟨h1, h2, _⟩ := reachable_wf 1440 s h
  exact ⟨iter_no_panic s h1, iter_tiling s h1 h2, iter_alternates s h1, iter_state s h1⟩

/-- `is_always_closed` says that no minute is open or unknown -/
theorem isAlwaysClosed_iff (s : Schedule) :
    isAlwaysClosed s = true ↔ ∀ t ∈ s, t.kind = Kind.closed := by
  simp [isAlwaysClosed]

theorem isAlwaysClosed_dayState (s : Schedule) (h : isAlwaysClosed s = true) (m : Nat) :
    dayState s m = Kind.closed := by
  rw [isAlwaysClosed_iff] at h
  unfold dayState
  cases hst : stateAt s m with
  | none => rfl
  | some k =>
    obtain ⟨t, ht, _, _, e⟩ := stateAt_eq_some s m k hst
    rw [← e, h t ht]; rfl

/-! ## 6. `utils/range.rs` -/

/-- `ranges_union` covers exactly the union of its input ranges (arbitrary input, including empty
and inverted ranges, which cover nothing and are passed through) -/
theorem rangesUnion_covers (rs : List (Nat × Nat)) (m : Nat) :
    (∃ r ∈ rangesUnion rs, r.1 ≤ m ∧ m < r.2) ↔ (∃ r ∈ rs, r.1 ≤ m ∧ m < r.2) := by
  have hs := sortedP_sortPairs rs
  have hm : ∀ u, u ∈ sortPairs rs ↔ u ∈ rs := fun u => mem_sortPairs u rs
  unfold rangesUnion
  split
  · rename_i h; rw [h] at hm
    constructor
    · rintro ⟨r, hr, _⟩; simp at hr
    · rintro ⟨r, hr, _⟩; exact absurd ((hm r).mpr hr) (by simp)
  · rename_i cur rest h
    rw [h] at hs hm
    have := rangesUnionLoop_covers cur rest hs m
    unfold PCov at this
    rw [this]
    constructor
    · rintro ⟨r, hr, h'⟩; exact ⟨r, (hm r).mp hr, h'⟩
    · rintro ⟨r, hr, h'⟩; exact ⟨r, (hm r).mpr hr, h'⟩

/-- for non-empty input ranges the result is non-empty, increasing and strictly separated -/
theorem rangesUnion_wf (rs : List (Nat × Nat)) (hne : ∀ r ∈ rs, r.1 < r.2) : PWF (rangesUnion rs) := by
  have hs := sortedP_sortPairs rs
  have hm : ∀ u, u ∈ sortPairs rs ↔ u ∈ rs := fun u => mem_sortPairs u rs
  unfold rangesUnion
  split
  · trivial
  · rename_i cur rest h
    rw [h] at hs hm
    exact rangesUnionLoop_pwf cur rest hs (fun r hr => hne r ((hm r).mp hr))

theorem rangeIntersection_some (a b r : Nat × Nat) (h : rangeIntersection a b = some r) :
    r.1 < r.2 ∧ ∀ m, (r.1 ≤ m ∧ m < r.2) ↔ ((a.1 ≤ m ∧ m < a.2) ∧ (b.1 ≤ m ∧ m < b.2)) := by
  unfold rangeIntersection at h
  simp only at h
  split at h
  · cases h; simp only; refine ⟨by assumption, fun m => ?_⟩; omega
  · cases h

theorem rangeIntersection_none (a b : Nat × Nat) (h : rangeIntersection a b = none) :
    ∀ m, ¬ ((a.1 ≤ m ∧ m < a.2) ∧ (b.1 ≤ m ∧ m < b.2)) := by
  unfold rangeIntersection at h
  simp only at h
  split at h
  · cases h
  · intro m; omega

theorem wrappingContains_plain (lo hi x : Nat) (h : lo ≤ hi) :
    wrappingContains lo hi x = true ↔ (lo ≤ x ∧ x ≤ hi) := by
  simp [wrappingContains, h]

theorem wrappingContains_wrapping (lo hi x : Nat) (h : hi < lo) :
    wrappingContains lo hi x = true ↔ (lo ≤ x ∨ x ≤ hi) := by
  have : ¬ lo ≤ hi := by omega
  simp [wrappingContains, this]

/-! ## 7. comments (support for C17) -/

/-- What C15 proves about `UniqueSortedVec::union` for `P` = "sorted and duplicate-free"; a
hypothesis here, to be discharged with the C15 theorems. -/
structure UnionLaws (P : List String → Prop) : Prop where
  closed : ∀ a b, P a → P b → P (cunion a b)
  sub : ∀ a b x, P a → P b → x ∈ cunion a b → x ∈ a ∨ x ∈ b

/-- the comment list is well-formed (`P`) and all its elements come from `src` -/
def CommentsOK (P : List String → Prop) (src : String → Prop) (c : List String) : Prop :=
  P c ∧ ∀ x ∈ c, src x

theorem commentsOK_union {P : List String → Prop} (U : UnionLaws P) (src : String → Prop)
    (a b : List String) (ha : CommentsOK P src a) (hb : CommentsOK P src b) :
    CommentsOK P src (cunion a b) :=
  ⟨U.closed a b ha.1 hb.1, fun x hx => (U.sub a b x ha.1 hb.1 hx).elim (ha.2 x) (hb.2 x)⟩

/-- every comment list of `from_ranges` is sorted/duplicate-free and made of the given comments -/
theorem fromRanges_commentsOK {P : List String → Prop} (U : UnionLaws P) (src : String → Prop)
    (rs : List (Nat × Nat)) (k : Kind) (c : List String) (hc : CommentsOK P src c) :
    ∀ t ∈ fromRanges rs k c, CommentsOK P src t.comments :=
  fromRanges_G _ (commentsOK_union U src) rs k c hc

/-- every comment list of `a.addition(b)` is sorted/duplicate-free and comes from the comments of
`a` and `b` -/
theorem addition_commentsOK {P : List String → Prop} (U : UnionLaws P) (src : String → Prop)
    (a b : Schedule) (ha : ∀ t ∈ a, CommentsOK P src t.comments) (hb : ∀ t ∈ b, CommentsOK P src t.comments) :
    ∀ t ∈ addition a b, CommentsOK P src t.comments :=
  addition_G _ (commentsOK_union U src) a b ha hb

/-- … and so is every comment list yielded by the iteration (holes have no comments) -/
theorem iter_commentsOK {P : List String → Prop} (U : UnionLaws P) (hnil : P []) (src : String → Prop)
    (s : Schedule) (hs : ∀ t ∈ s, CommentsOK P src t.comments) :
    ∀ t ∈ iter s, CommentsOK P src t.comments :=
  iterFrom_G _ (commentsOK_union U src) (IterState.new s) ⟨hnil, fun x hx => by simp at hx⟩ hs

/-- a range of `a` that no range of `b` overlaps or touches is kept exactly (bounds, kind, comments) -/
theorem addition_keeps_left (a b : Schedule) (ha : WF a) (hc : Coalesced a) (hb : WF b)
    (t : TimeRange) (ht : t ∈ a) (hap : ∀ u ∈ b, Apart t u) : t ∈ addition a b :=
  additionRev_keeps_old b.reverse a ha hc (fun x hx => wf_nonempty b hb x (List.mem_reverse.mp hx)) t ht
    (fun x hx => hap x (List.mem_reverse.mp hx))

/-- a range of `b` that no range of `a` and no other range of `b` overlaps or touches is kept exactly
(bounds, kind, comments) -/
theorem addition_keeps_right (a b : Schedule) (ha : WF a) (hc : Coalesced a) (hb : WF b)
    (t : TimeRange) (ht : t ∈ b) (hapa : ∀ u ∈ a, Apart u t) (hapb : ∀ u ∈ b, u ≠ t → Apart u t) :
    t ∈ addition a b := by
  obtain ⟨r1, r2, e⟩ := List.append_of_mem (List.mem_reverse.mpr ht)
  have hne := wf_nonempty b hb
  have hb' : WF (r2.reverse ++ t :: r1.reverse) := by
    have : b = r2.reverse ++ t :: r1.reverse := by
      have := congrArg List.reverse e
      simpa using this
    rw [← this]; exact hb
  rw [wf_append] at hb'
  simp only [WF] at hb'
  have m1 : ∀ x ∈ r1, x ∈ b := fun x hx => List.mem_reverse.mp (by rw [e]; simp [hx])
  have m2 : ∀ x ∈ r2, x ∈ b := fun x hx => List.mem_reverse.mp (by rw [e]; simp [hx])
  unfold Schedule.addition
  rw [e]
  apply additionRev_keeps_new r1 r2 a ha hc t (hne t ht) (fun x hx => hne x (m1 x hx))
    (fun x hx => hne x (m2 x hx)) hapa
  · intro x hx
    apply hapb x (m1 x hx)
    rintro rfl
    have := hb'.2.1.2.1 x (List.mem_reverse.mpr hx)
    have := hne x ht
    omega
  · intro x hx
    have hx' := m2 x hx
    have : x ≠ t := by
      rintro rfl
      have := hb'.2.2 x (List.mem_reverse.mpr hx) x (by simp)
      have := hne x ht
      omega
    have := hapb x hx' this
    unfold Apart at *; omega

/-! ## 8. non-vacuity: concrete non-trivial inputs meeting every hypothesis -/

/-- 10:00-14:00 and 12:00-16:00 open (the doc example of `from_ranges`): overlapping, `FromRangesOK` -/
example : FromRangesOK [(600, 840), (720, 960)] := by decide
example : NoNesting [(600, 840), (720, 960)] := by
  intro a ha b hb; simp only [List.mem_cons, List.not_mem_nil, or_false] at ha hb
  rcases ha with rfl | rfl <;> rcases hb with rfl | rfl <;> simp
example : (fromRanges [(600, 840), (720, 960)] Kind.open []).map (fun t => (t.s, t.e, t.kind))
    = [(600, 960, Kind.open)] := by decide

/-- a reachable schedule with three kinds, an overlay and a hole -/
def demo : Schedule :=
  addition (addition (fromRanges [(540, 720), (840, 1080)] Kind.open []) (fromRanges [(1020, 1200)] Kind.unknown []))
    (fromRanges [(0, 60), (1320, 1440)] Kind.closed [])

example : Reachable 1440 demo :=
  Reachable.addition _ _
    (Reachable.addition _ _ (Reachable.fromRanges _ _ _ (by decide)) (Reachable.fromRanges _ _ _ (by decide)))
    (Reachable.fromRanges _ _ _ (by decide))

example : demo.map (fun t => (t.s, t.e, t.kind)) = [(0, 60, Kind.closed), (540, 720, Kind.open),
    (840, 1020, Kind.open), (1020, 1200, Kind.unknown), (1320, 1440, Kind.closed)] := by decide
example : WF demo ∧ Within 1440 demo ∧ Coalesced demo := by decide
example : Tiles (iter demo) 0 1440 := iter_tiling demo (by decide) (by decide)
example : stateAt (iter demo) 1000 = some Kind.open ∧ stateAt (iter demo) 1250 = some Kind.closed :=
  ⟨by rw [iter_state demo (by decide) 1000 (by decide)]; decide,
   by rw [iter_state demo (by decide) 1250 (by decide)]; decide⟩

/-- ranges beyond 24:00: still well-formed, the iteration covers the whole day -/
example : WF (fromRanges [(1380, 1560)] Kind.open []) ∧ ¬ Within 1440 (fromRanges [(1380, 1560)] Kind.open []) := by
  decide

end OH.Props.C14
