import OH.Generated.Tables
import OH.Model.Calendar
/-
Tie 1 for data-like code (DESIGN §8.8): the hand-written model uses exactly the constants and look-up
tables that translators/tables2lean.py extracts from the Rust sources on every run
(OH/Generated/Tables.lean).  A changed constant, a permuted or missing match arm, a changed separator or
name in /repo breaks one of these kernel-checked obligations.
-/
namespace OH.Props.TablesC08
open OH.Model OH.Generated


theorem C08_date_start : Cal.dateStart = Cal.ymdRaw Tables.dateStart.1 Tables.dateStart.2.1 Tables.dateStart.2.2.1
    ∧ Tables.dateStart.2.2.2 = (0, 0, 0) := by decide

theorem C08_date_end : Cal.dateEnd = Cal.ymdRaw Tables.dateEnd.1 Tables.dateEnd.2.1 Tables.dateEnd.2.2.1
    ∧ Tables.dateEnd.2.2.2 = (0, 0, 0) := by decide

end OH.Props.TablesC08
