/-
C03 — state and next_change are mutually consistent.
Proved in full for any day level meeting `EnvOK` (`OH/Props/C02A.lean`); instantiated at the real day
level under the Layer B hypothesis `DayLevelOK ctx e` (see `OH/Props/C02.lean`), hence `…_partial`.
`is_open / is_closed / is_unknown` are `state(t) == Open/Closed/Unknown` in the Rust code: the three
cases of `Kind` (exhaustive and exclusive by construction, checked on the implementation by `c03.state`).
-/
import OH.Props.C02
namespace OH.Props.C03
open OH.Model OH.Model.Cal OH.Props.C02

/-- for every instant before 10000-01-01 and every bound (none, negative, huge): no side condition -/
theorem C03_state_partial {ctx : Ctx} {e : Expr} (ok : DayLevelOK ctx e)
    {t : Int} (hlt : t < instEnd) :
    state ctx e t = .ok (pointState ctx e t) :=
  C02A.state_eq_pointKind ok hlt

/-- from 10000-01-01 on `state` is closed (early return) -/
theorem C03_state_after_end_partial {ctx : Ctx} {e : Expr} (ok : DayLevelOK ctx e)
    {t : Int} (hge : instEnd ≤ t) : state ctx e t = .ok .closed :=
  C02A.state_after_end ok hge

/-- `some c`: strictly after `t`, before 10000-01-01, constant on `[t, c)` (never earlier), different at `c` (never later) -/
theorem C03_next_change_some_partial {ctx : Ctx} {e : Expr} (ok : DayLevelOK ctx e) (hb : ctx.bound = none)
    {t c : Int} (h : nextChange ctx e t = .ok (some c)) :
    t < c ∧ c < instEnd ∧ (∀ u, t ≤ u → u < c → pointState ctx e u = pointState ctx e t)
      ∧ pointState ctx e c ≠ pointState ctx e t :=
  C02A.nextChange_some ok hb h

/-- `none` exactly when the state stays the same until 10000-01-01 -/
theorem C03_next_change_none_partial {ctx : Ctx} {e : Expr} (ok : DayLevelOK ctx e) (hb : ctx.bound = none)
    {t : Int} (h : nextChange ctx e t = .ok none) :
    ∀ u, t ≤ u → u < instEnd → pointState ctx e u = pointState ctx e t :=
  C02A.nextChange_none ok hb h

/-- never a panic, and the answer is the exact next change -/
theorem C03_next_change_exact_partial {ctx : Ctx} {e : Expr} (ok : DayLevelOK ctx e) (hb : ctx.bound = none)
    {t : Int} (hlt : t < instEnd) :
    ∃ x, nextChange ctx e t = .ok x ∧ IsNextChange (envOf ctx e) t x :=
  C02A.nextChange_exact ok hb hlt

example : DayLevelOK Ctx.default [] := envOK_nil

end OH.Props.C03
