/-
C01 on the code as it is NOW: the offsets of a dated range.  `add_days_saturating` and `DateOffset::apply`
(opening-hours-syntax/src/rules/day.rs) are translated from the Rust source on every run
(`translators/rs2lean.py`, chrono mode → `OH.Generated.Arith.Day.add_days_saturating`, `DateOffset.apply`):
`mut date` and `date = ..;` are rebinding, the `match self.wday_offset { None => {} Prev(target) => { .. } .. }`
statement is a `match` whose arms each go on with the rest of the function, `debug_assert!` is an explicit panic
outcome (the harness is built with debug assertions), the `u32` additions / subtraction and the `i64` negation are
checked operations.  The chrono calls (`Duration::try_days`, `checked_add_signed`, `weekday()`, `days_since`,
`NaiveDate::MIN/MAX`) are the functions `Chrono.*` of `OH/Model/RustChrono.lean`, i.e. their meaning in the calendar
model `OH/Model/Calendar.lean` (trusted as the calendar model is; tied by the `chr.*` suite).

The tie: for EVERY offset of the machine types (every `i64` day offset, every weekday target) and EVERY date the
generated definition and the hand-written evaluator model (`OH.Model.addDaysSat`, `OH.Model.DateOffset.apply`)
agree: the same date, a panic outcome (`debug_assert!`) exactly where the model has its error outcome, never an
overflow outcome.  `apply_total` adds that on representable dates neither has one: the assertions cannot fail.
-/
import OH.Generated.Arith
import OH.Proofs.RustInt
import OH.Model.Eval
import OH.Proofs.HintDatedTotal
namespace OH.Props.ArithC01Offset
set_option linter.unusedSimpArgs false
set_option linter.unusedVariables false
open OH.Model.RustInt
open OH.Model.RustChrono
open OH.Generated.Arith
open OH.Model.Cal

/-- the generated outcome and the model outcome agree: the same value, or a panic outcome exactly where the model
has its error outcome (never an overflow / division outcome) -/
inductive AgreeP {α : Type} : R α → Except String α → Prop
  | value (a : α) : AgreeP (.ok a) (.ok a)
  | panic (msg e : String) : AgreeP (.error (.panic msg)) (.error e)

/-- the Rust value of a model weekday offset (weekdays are their number of days from Monday) -/
def genWd : OH.Model.WdayOffset → WeekDayOffset
  | .none => .None
  | .next t => .Next t
  | .prev t => .Prev t

def genOffset (o : OH.Model.DateOffset) : OH.Generated.Arith.DateOffset := ⟨genWd o.wday, o.days⟩

/-- a `chrono::Weekday` is one of seven values -/
def WdOk : OH.Model.WdayOffset → Prop
  | .none => True
  | .next t => t ≤ 6
  | .prev t => t ≤ 6

/-- `add_days_saturating` is the model's `addDaysSat`, for every date and every number of days; it has no
outcome but a value -/
theorem addDaysSat_eq_model (d n : Int) :
    Day.add_days_saturating d n = .ok (OH.Model.addDaysSat d n) := by
  unfold Day.add_days_saturating OH.Model.addDaysSat Chrono.try_days Chrono.checked_add_signed
    Chrono.DATE_MIN Chrono.DATE_MAX
  by_cases h : n < -106751991167 ∨ n > 106751991167
  · simp only [h, if_true, ↓reduceIte, Option.bind_none, Option.getD_none, decide_eq_true_eq]
  · simp only [h, if_false, ↓reduceIte, Option.bind_some, decide_eq_true_eq]
    cases addDays? d n <;> simp only [Option.getD_some, Option.getD_none]

theorem addDaysSat_total (d n : Int) : ∃ r, Day.add_days_saturating d n = .ok r :=
  ⟨_, addDaysSat_eq_model d n⟩

theorem weekday_lt (d : Int) : OH.Model.Cal.weekday d < 7 := by
  unfold OH.Model.Cal.weekday; omega

theorem weekday_eq (d : Int) : Chrono.weekday d = ((OH.Model.Cal.weekday d : Nat) : Int) := by
  unfold Chrono.weekday; exact rfl

/-- `wd.days_since(Weekday::Mon)` is the weekday's number -/
theorem days_since_mon (t : Nat) : Chrono.days_since (t : Int) 0 = t := by
  unfold Chrono.days_since; split <;> omega

theorem beq_decide_cast (a b : Nat) : (decide ((a : Int) = (b : Int))) = (a == b) := by
  by_cases h : a = b
  · subst h; simp
  · have : ¬ ((a : Int) = (b : Int)) := by omega
    simp [h, this]

theorem beq_decide_int (a b : Int) : (decide (a = b)) = (a == b) := by
  by_cases h : a = b
  · subst h; simp
  · simp [h]

theorem cond_eq (a t : Nat) (r m : Int) :
    (decide ((a : Int) = (t : Int)) || decide (r = m)) = (a == t || r == m) := by
  rw [beq_decide_cast, beq_decide_int]

theorem agree_ite {α : Type} (c c' : Bool) (a : α) (m e : String) (h : c = c') :
    AgreeP (if c = true then .ok a else .error (.panic m)) (if c' = true then .ok a else .error e) := by
  subst h
  cases c
  · exact .panic _ _
  · exact .value _

/-- THE TIE: `DateOffset::apply` as the code has it now is the model's, for every `i64` day offset, every weekday
target and every date: the same date; the `debug_assert!` panic exactly where the model has its error; no
overflow in `7 + .. - ..` (`u32`) nor in `-i64::from(diff)` -/
theorem apply_agree (o : OH.Model.DateOffset) (d : Int) (hw : WdOk o.wday) :
    AgreeP (DateOffset.apply (genOffset o) d) (OH.Model.DateOffset.apply o d) := by
  obtain ⟨wd, days⟩ := o
  unfold DateOffset.apply OH.Model.DateOffset.apply genOffset
  simp only [addDaysSat_eq_model, bnd_ok]
  generalize OH.Model.addDaysSat d days = d1
  have hwk := weekday_lt d1
  cases wd with
  | none => exact .value _
  | prev t =>
    have ht : t ≤ 6 := hw
    simp only [genWd, weekday_eq, days_since_mon]
    generalize OH.Model.Cal.weekday d1 = w at *
    have hm := tmod_nonneg_eq (a := 7 + (w : Int) - t) 7 (by omega)
    have hmod : (7 + (w : Int) - t) % 7 = ((7 + w - t) % 7 : Nat) := by omega
    have hlt : ((7 + w - t) % 7 : Nat) < 7 := Nat.mod_lt _ (by omega)
    rs_ok
    simp only [hm, hmod]
    generalize (7 + w - t) % 7 = diff at *
    try rs_ok
    generalize OH.Model.addDaysSat d1 (-(diff : Int)) = r
    have e3 : t % 7 = t := Nat.mod_eq_of_lt (by omega)
    simp only [e3, cond_eq, Chrono.DATE_MIN]
    exact agree_ite _ _ _ _ _ (cond_eq _ _ _ _)
  | next t =>
    have ht : t ≤ 6 := hw
    simp only [genWd, weekday_eq, days_since_mon]
    generalize OH.Model.Cal.weekday d1 = w at *
    have hm := tmod_nonneg_eq (a := 7 + (t : Int) - w) 7 (by omega)
    have hmod : (7 + (t : Int) - w) % 7 = ((7 + t - w) % 7 : Nat) := by omega
    rs_ok
    simp only [hm, hmod]
    generalize (7 + t - w) % 7 = diff at *
    generalize OH.Model.addDaysSat d1 (diff : Int) = r
    have e3 : t % 7 = t := Nat.mod_eq_of_lt (by omega)
    simp only [e3, cond_eq, Chrono.DATE_MAX]
    exact agree_ite _ _ _ _ _ (cond_eq _ _ _ _)

/-- the property statement on the generated code: on a representable date, for an offset the parser can produce, the
code as it is NOW returns the clamped shift followed by the clamped move to the target weekday
(`OH.Model.DateOffset.shiftC`, what the evaluator theorems of C01 use): a value — neither `debug_assert!` can fail,
nothing overflows — and again a representable date -/
theorem gen_apply_total (o : OH.Model.DateOffset) (hw : o.wf = true) (d : Int) (h1 : minDay ≤ d) (h2 : d ≤ maxDay) :
    DateOffset.apply (genOffset o) d = .ok (o.shiftC d) ∧ minDay ≤ o.shiftC d ∧ o.shiftC d ≤ maxDay := by
  have hwd : WdOk o.wday := by
    simp only [OH.Model.DateOffset.wf, Bool.and_eq_true] at hw
    have := hw.1
    unfold WdOk
    cases hq : o.wday <;> simp only [hq, OH.Model.WdayOffset.wf, decide_eq_true_eq] at this ⊢ <;> first | trivial | exact this
  have ha := apply_agree o d hwd
  rw [OH.Model.DateOffset.apply_eq o hw d h1 h2] at ha
  refine ⟨?_, o.shiftC_inRange d⟩
  generalize DateOffset.apply (genOffset o) d = g at ha
  cases ha
  rfl

/-- a "next Monday" offset from a Monday stays on that day (the seeded regression moved it a week later) -/
example : DateOffset.apply ⟨.Next 0, 0⟩ 8 = .ok 8 := by rfl      -- day 8 is a Monday
example : DateOffset.apply ⟨.Next 0, 0⟩ 9 = .ok 15 := by rfl
example : DateOffset.apply ⟨.Prev 6, 1⟩ 8 = .ok 7 := by rfl

end OH.Props.ArithC01Offset
