/-
C17 — comments are well-formed and come from the rule in effect.
Proved: (iterator part, Layer A — any day level meeting `EnvOK`) every interval carries the comments
of the schedule period in force at its first instant, in particular the first interval those of the
period containing the start instant; (schedule part, C14) comments of `from_ranges`/`addition`/`iter`
results are well-formed and drawn from the inputs (`fromRanges_commentsOK`, `addition_commentsOK`,
`iter_commentsOK`), an untouched range keeps exactly its comments (`addition_keeps_left/right`);
(C20) `union` keeps sorted-unique; outside the supported range the schedule has no comments.
NOT proved (oracle `c17.sched` / `c17.iter` only): provenance "from a rule that applies on d or d−1"
and the single-rule exactness clause at expression level (they need the C01 refinement).
-/
import OH.Props.C02
import OH.Props.C08
import OH.Props.C14
import OH.Props.C20
namespace OH.Props.C17
open OH.Model OH.Model.Cal OH.Props.C02

/-- range iteration reports for its first interval the comments of the schedule period containing the start instant -/
theorem C17_first_interval_comments_partial {ctx : Ctx} {e : Expr} (ok : DayLevelOK ctx e) (hb : ctx.bound = none)
    (frm to : Int) {out : List Interval} (h : iterRangeNaive ctx e frm to = .ok out) :
    ∀ iv ∈ out.head?, iv.comments = pointComments (envOf ctx e) (min instEnd frm) :=
  C02A.iter_first_comments ok hb frm to h

/-- every interval carries the comments of the schedule period in force at its first instant -/
theorem C17_interval_comments_partial {ctx : Ctx} {e : Expr} (ok : DayLevelOK ctx e) (hb : ctx.bound = none)
    (frm to : Int) {out : List Interval} (h : iterRangeNaive ctx e frm to = .ok out) :
    ∀ iv ∈ out, iv.comments = pointComments (envOf ctx e) iv.start :=
  C02A.iter_comments ok hb frm to h

/-- outside the supported date range the iterated day schedule is one closed range without comments -/
theorem C17_empty_outside (ctx : Ctx) (e : Expr) (d : Int) (h : d < dateStart ∨ dateEnd ≤ d) :
    daySchedule ctx e d = .ok [⟨0, 1440, .closed, []⟩] := by
  have h1 : Schedule.iterPanics [] = false := by decide +kernel
  have h2 : Schedule.iter [] = [⟨0, 1440, .closed, []⟩] := by decide +kernel
  simp [daySchedule, OH.Props.C08.C08_schedule_outside ctx e d h, h1, h2]

/-- comment lists stay strictly sorted (hence duplicate-free) under `union`, the only way they are combined -/
theorem C17_union_sorted (a b : List String) (ha : OH.Proofs.SortedVec.Sorted a) (hb : OH.Proofs.SortedVec.Sorted b) :
    OH.Proofs.SortedVec.Sorted (SortedVec.union a b) := OH.Props.C20.union_sorted ha hb

example : DayLevelOK Ctx.default [] := envOK_nil

end OH.Props.C17
