import OH.Proofs.SynNum
import OH.Proofs.SynRule9
import OH.Model.PrintableOut
import OH.Proofs.EvalComments2
import OH.Proofs.SynClosure5
import OH.Proofs.NormPrintable
/-
C06 — printed expressions parse back to an equivalent expression.
Property theorems only.  The printers are OH/Model/Print.lean (one definition per `Display`), the
parser is the PEG interpreter on the regenerated grammar followed by the builders.
-/
namespace OH.Props.C06
open OH.Model OH.Model.Peg OH.Model.Parser OH.Generated.Grammar OH.Proofs.Syn

/-- `{}` on an unsigned integer prints digits only, at least one, no leading zero for a positive
number — what the grammar's numeric rules accept -/
theorem C06_printed_number_shape (n : Nat) :
    Print.natStr n ≠ [] ∧ (∀ c ∈ Print.natStr n, '0' ≤ c ∧ c ≤ '9') ∧
      (0 < n → ∃ c cs, Print.natStr n = c :: cs ∧ '1' ≤ c ∧ c ≤ '9') :=
  ⟨natStr_ne_nil n, natStr_digits n, natStr_head n⟩

/-- a printed number is read back by `positive_number` as a whole when no digit follows -/
theorem C06_printed_number_reparses (n : Nat) (hn : 0 < n) (h64 : n < u64Bound) (rest : List Char)
    (hr : NoDigit rest) :
    run g_positive_number false (Print.natStr n ++ rest)
        = some ⟨[.node .positive_number (Print.natStr n) []], Print.natStr n, rest⟩ ∧
      buildPositiveNumber (.node .positive_number (Print.natStr n) []) = .ok n := by
  refine ⟨?_, build_positive_number n h64⟩
  simpa using run_positive_number false n hn rest hr

/-- a printed day offset (`write_days_offset`) parses back to the same offset -/
theorem C06_day_offset_roundtrip (off : Int) (h0 : off ≠ 0) (hb : off.natAbs < i64Bound)
    (rest : List Char) (hr : ∀ r, rest ≠ 's' :: r) :
    ParsesTo g_day_offset buildDayOffset (Print.daysOffset off) rest off :=
  parses_day_offset off h0 hb rest hr

/-- a printed time of day below 24:00 parses back to the same time -/
theorem C06_time_of_day_roundtrip (m : Nat) (hm : m < 1440) (rest : List Char) :
    ParsesTo g_hour_minutes buildHourMinutes (Print.extTime m) rest m :=
  parses_hour_minutes m hm rest

/-! ### the whole expression -/

/-- the hypothesis of the round-trip theorem is the decidable predicate the driver evaluates on every
expression the real parser returns (core-only restatement, definitionally the same) -/
theorem C06_printableOut_is_the_hypothesis (e : Expr) :
    OH.Model.Printable.printableOut e = PrintableOut e := rfl

/-- **C06 (syntactic half)**: every expression within what the parser can build, printed by `Display`,
parses back — to itself with the comments of each rule joined into one (`["a", "b"]` is written
`"a, b"`), nothing else changed: same selectors, ranges, steps, offsets, time spans, modifiers,
operators.  For ALL such expressions, on the grammar regenerated from grammar.pest on this run. -/
theorem C06_parse_print_roundtrip (e : Expr) (h : OH.Model.Printable.printableOut e = true) :
    Parser.parseChars (Print.expr e) = .ok (reparsed e) :=
  parse_print_roundtrip e h

/-- on strings: `to_string` does not panic and `parse (to_string e)` succeeds with that result -/
theorem C06_toString_parse_roundtrip (e : Expr) (h : OH.Model.Printable.printableOut e = true) :
    ∃ s, Print.toString? e = some s ∧ Parser.parse s = .ok (reparsed e) :=
  toString_parse_roundtrip e h

/-- an expression no rule of which has two comments comes back UNCHANGED -/
theorem C06_roundtrip_identity (e : Expr) (h : OH.Model.Printable.printableOut e = true)
    (hc : ∀ r ∈ e, r.comments.length ≤ 1) : Parser.parseChars (Print.expr e) = .ok e :=
  parse_print_roundtrip_same e h hc

/-- the round trip is idempotent: what comes back is within the class again and comes back unchanged -/
theorem C06_roundtrip_idempotent (e : Expr) (h : OH.Model.Printable.printableOut e = true) :
    OH.Model.Printable.printableOut (reparsed e) = true ∧
      Parser.parseChars (Print.expr (reparsed e)) = .ok (reparsed e) :=
  ⟨printableOut_reparsed e h, parse_print_reparsed e h⟩

/-- `Display` never reaches its `unwrap` on such expressions -/
theorem C06_print_never_panics (e : Expr) (h : OH.Model.Printable.printableOut e = true) :
    Print.printPanics e = false :=
  printable_no_panic e h

/-- **C06 (semantic half)**: the expression read back from the printed form EVALUATES IDENTICALLY: in
every context, on every day (inside or outside 1900..9999), every minute has the same state (open /
closed / unknown), and evaluation fails exactly when the original fails, with the same message.  The
comments are those of the original with the comments of each rule joined (`reparsed e`), see
`C06_parse_print_roundtrip`. -/
theorem C06_reparsed_evaluates_identically (e : Expr) (h : OH.Model.Printable.printableOut e = true)
    (e' : Expr) (hp : Parser.parseChars (Print.expr e) = .ok e') (ctx : Ctx) (d : Int) :
    match scheduleAt ctx e d, scheduleAt ctx e' d with
    | .ok s, .ok s' => ∀ m, OH.Spec.Schedule.dayState s m = OH.Spec.Schedule.dayState s' m
    | .error p, .error p' => p = p'
    | _, _ => False := by
  have hrt : Parser.parseChars (Print.expr e) = .ok (joinComments e) := by
    rw [parse_print_roundtrip e h, reparsed_eq_joinComments e h]
  exact OH.Proofs.EvalComments.parsed_evaluates_identically e e' hrt hp ctx d

/-- changing the comments of rules in ANY way never changes a state: the states of a day do not
depend on comments (used above with "join the comments of each rule") -/
theorem C06_states_do_not_depend_on_comments (f : List String → List String) (ctx : Ctx) (e : Expr) (d : Int) :
    match scheduleAt ctx e d, scheduleAt ctx (OH.Proofs.EvalComments.mapComments f e) d with
    | .ok s, .ok s' => ∀ m, OH.Spec.Schedule.dayState s m = OH.Spec.Schedule.dayState s' m
    | .error p, .error p' => p = p'
    | _, _ => False :=
  OH.Proofs.EvalComments.scheduleAt_kinds_mapComments f ctx e d

/-! ### without hypothesis: every parsed expression -/

/-- everything the parser accepts is within the class of the round-trip theorem (for EVERY string) -/
theorem C06_parsed_is_printable (s : String) (e : Expr) (h : Parser.parse s = .ok e) :
    OH.Model.Printable.printableOut e = true :=
  OH.Proofs.SynClosure.parse_ok_printable s.toList e h

/-- **C06, full syntactic statement**: for every string `s` that parses to `e`, `to_string e` does not
panic and parses successfully — to `e` with the comments of each rule joined -/
theorem C06_every_parsed_expression_round_trips (s : String) (e : Expr) (h : Parser.parse s = .ok e) :
    ∃ p, Print.toString? e = some p ∧ Parser.parse p = .ok (reparsed e) :=
  OH.Proofs.SynClosure.parse_toString_parse s e h

/-- **C06, full statement**: for every string `s` that parses to `e`: the printed form parses, and
whatever it parses to evaluates identically in every context, on every day, at every minute -/
theorem C06_every_parsed_expression_reparses_equivalent (s : String) (e : Expr) (h : Parser.parse s = .ok e) :
    ∃ p e', Print.toString? e = some p ∧ Parser.parse p = .ok e' ∧
      ∀ (ctx : Ctx) (d : Int),
        match scheduleAt ctx e d, scheduleAt ctx e' d with
        | .ok sc, .ok sc' => ∀ m, OH.Spec.Schedule.dayState sc m = OH.Spec.Schedule.dayState sc' m
        | .error q, .error q' => q = q'
        | _, _ => False := by
  have hp := C06_parsed_is_printable s e h
  obtain ⟨p, hs, hr⟩ := C06_every_parsed_expression_round_trips s e h
  refine ⟨p, reparsed e, hs, hr, fun ctx d => ?_⟩
  exact C06_reparsed_evaluates_identically e hp (reparsed e) (parse_print_roundtrip e hp) ctx d

/-- the printers never reach their `unwrap` on a parsed expression -/
theorem C06_print_never_panics_on_parsed (s : String) (e : Expr) (h : Parser.parse s = .ok e) :
    Print.printPanics e = false :=
  OH.Proofs.SynClosure.print_never_panics_on_parsed s e h

/-! ### normalized expressions -/

/-- **C06 for normal forms**: for every string `s` that parses to `e`, `normalize e` succeeds, its
printed form parses — to the normal form with the comments of each rule joined, a `Normal` first
operator (`Display` does not write it; the evaluator does not look at it) and the rule `closed` for
the empty normal form — and whatever it parses to evaluates identically to the normal form in every
context, on every day, at every minute -/
theorem C06_every_normal_form_reparses_equivalent (s : String) (e : Expr) (h : Parser.parse s = .ok e) :
    ∃ n, OH.Model.Norm.normalizeM e = .ok n ∧
      Parser.parseChars (Print.expr n) = .ok (joinComments n) ∧
      ∀ (ctx : Ctx) (d : Int),
        match scheduleAt ctx n d, scheduleAt ctx (joinComments n) d with
        | .ok sc, .ok sc' => ∀ m, OH.Spec.Schedule.dayState sc m = OH.Spec.Schedule.dayState sc' m
        | .error q, .error q' => q = q'
        | _, _ => False := by
  have hp := C06_parsed_is_printable s e h
  obtain ⟨n, hn, -, hr⟩ := OH.Proofs.NormPrintable.normal_form_printable e hp
  exact ⟨n, hn, hr, fun ctx d =>
    OH.Proofs.NormPrintable.normal_form_reparse_evaluates_identically e n hp hn (joinComments n) hr ctx d⟩

/-- the rules of the normal form of a printable expression are within what the parser can build -/
theorem C06_normal_form_rules_printable (e n : Expr) (he : OH.Model.Printable.printableOut e = true)
    (h : OH.Model.Norm.normalizeM e = .ok n) : ∀ r ∈ n, OH.Model.Printable.okRule r = true :=
  OH.Proofs.NormPrintable.normalize_okRule e n
    (OH.Proofs.NormPrintable.all_okRule_of_printableOut e he) h

/-- non-vacuity: a rule with years, a dated range with offsets, a week, weekdays with positions and
an offset, a holiday, two time spans (an event with an offset, an open end) and two comments is in the
class (evaluated by the kernel) -/
example : OH.Model.Printable.printableOut
    [⟨⟨[⟨2020, 2030, 2⟩], [.date (.fixed none 1 5) ⟨.next 0, 2⟩ (.easter none) ⟨.none, -1⟩], [⟨1, 53, 2⟩],
        [.fixed 0 0 1 [true, false, false, false, true] [true, false, false, false, false], .holiday .pub 1]⟩,
      [⟨.variable .sunrise 30, .fixed 1560, false, none⟩, ⟨.fixed 600, .fixed 1440, true, none⟩],
      .unknown, .normal, ["a", "b"]⟩] = true := by decide +kernel

end OH.Props.C06
