import OH.Proofs.SynNum
/-
C06 — printed expressions parse back to an equivalent expression.
Property theorems only.  The printers are OH/Model/Print.lean (one definition per `Display`), the
parser is the PEG interpreter on the regenerated grammar followed by the builders.
-/
namespace OH.Props.C06
open OH.Model OH.Model.Peg OH.Model.Parser OH.Generated.Grammar OH.Proofs.Syn

/-- `{}` on an unsigned integer prints digits only, at least one, no leading zero for a positive
number — what the grammar's numeric rules accept -/
theorem C06_printed_number_shape (n : Nat) :
    Print.natStr n ≠ [] ∧ (∀ c ∈ Print.natStr n, '0' ≤ c ∧ c ≤ '9') ∧
      (0 < n → ∃ c cs, Print.natStr n = c :: cs ∧ '1' ≤ c ∧ c ≤ '9') :=
  ⟨natStr_ne_nil n, natStr_digits n, natStr_head n⟩

/-- a printed number is read back by `positive_number` as a whole when no digit follows -/
theorem C06_printed_number_reparses (n : Nat) (hn : 0 < n) (h64 : n < u64Bound) (rest : List Char)
    (hr : NoDigit rest) :
    run g_positive_number false (Print.natStr n ++ rest)
        = some ⟨[.node .positive_number (Print.natStr n) []], Print.natStr n, rest⟩ ∧
      buildPositiveNumber (.node .positive_number (Print.natStr n) []) = .ok n := by
  refine ⟨?_, build_positive_number n h64⟩
  simpa using run_positive_number false n hn rest hr

/-- a printed day offset (`write_days_offset`) parses back to the same offset -/
theorem C06_day_offset_roundtrip (off : Int) (h0 : off ≠ 0) (hb : off.natAbs < i64Bound)
    (rest : List Char) (hr : ∀ r, rest ≠ 's' :: r) :
    ParsesTo g_day_offset buildDayOffset (Print.daysOffset off) rest off :=
  parses_day_offset off h0 hb rest hr

/-- a printed time of day below 24:00 parses back to the same time -/
theorem C06_time_of_day_roundtrip (m : Nat) (hm : m < 1440) (rest : List Char) :
    ParsesTo g_hour_minutes buildHourMinutes (Print.extTime m) rest m :=
  parses_hour_minutes m hm rest

end OH.Props.C06
