import OH.Proofs.NormalizeEval
import OH.Props.C13
/-
C07 — normalisation does not change the meaning.

  "For every expression, context and instant, the normalized expression has the same state as the
   original; equivalently, both have the same schedule on every day."

Models: `OH.Model.Norm.normalize` (OH/Model/Normalize.lean) and the evaluator `OH.Model.scheduleAt` /
`OH.Model.daySchedule` (OH/Model/Eval.lean, Iter.lean), both with 0 disagreements against the
implementation.  "Every expression" = every parser output: `ExprOK e` (the grammar's field ranges and
a non-empty time selector, see OH/Props/C13.lean; decidable, met by every value `parse` returns).
"Every context": the theorems quantify over an arbitrary `Ctx` (holiday calendars, sun events,
interval bound) — the canonical prefix does not depend on it and the untouched tail sees it equally.
"Every instant": every day `d : Int` (inside or outside 1900..9999) and every minute `m < 1440`.
The *state* at an instant is the kind of the day schedule at its minute (C03 identifies
`OpeningHours::state` with it); the theorems are therefore stated on the day schedules, which is the
"equivalently" of the property text.

STATUS: FULL for the code as it is now (D12, D18 and D13 repaired in /repo).
 * `C07_normalize_preserves`          same kind at every minute of `schedule_at(d).into_iter()`;
                                      an evaluation panic of a (tail) rule is the same panic
 * `C07_normalize_preserves_schedule` the same on `schedule_at(d)` with `closed` in the holes
 * steps of the proof that are of independent interest:
   `C07_selector_is_filter` (b), `C07_prefix_reads_paving` (c-1), `C07_foldback` (c-2),
   `C07_tail_cannot_tell` (the rules after the canonical prefix only see kinds)
 * about the code before the D13 repair (`normalizeG false`): `C07_before_repair_fails`.
Comments are NOT covered: the evaluator hands the comments of an entirely overwritten range to the
overwriting range (`Schedule::insert`), the paving replaces the value; comment-only differences are
reported by the driver as the tag suffix `+c` (about 1.2 % of generated expressions).
-/
namespace OH.Props.C07
open OH.Model OH.Model.Cal OH.Model.Norm OH.Spec.Schedule
open OH.Proofs.Normalize OH.Proofs.NormalizeEval OH.Proofs.Paving OH.Props.C13

/-- **C07**: on every day, at every minute, `schedule_at(d).into_iter()` of the normal form shows the
kind the original shows (and panics exactly when the original panics, with the same message) -/
theorem C07_normalize_preserves (ctx : Ctx) (e : Expr) (he : ExprOK e) (d : Int) (m : Nat) (hm : m < 1440) :
    (daySchedule ctx (normalize e) d).map (fun l => stateAt l m)
      = (daySchedule ctx e d).map (fun l => stateAt l m) := by
  obtain ⟨n, hn⟩ := C13_no_panic e he
  rw [normalize_eq_of_ok hn]
  exact normalize_preserves_daySchedule ctx e n he hn d m hm

/-- **C07** on `schedule_at(d)` itself, `closed` filling the holes -/
theorem C07_normalize_preserves_schedule (ctx : Ctx) (e : Expr) (he : ExprOK e) (d : Int) (m : Nat)
    (hm : m < 1440) :
    (scheduleAt ctx (normalize e) d).map (fun s => dayState s m)
      = (scheduleAt ctx e d).map (fun s => dayState s m) := by
  obtain ⟨n, hn⟩ := C13_no_panic e he
  rw [normalize_eq_of_ok hn]
  exact normalize_preserves_kinds ctx e n he hn d m hm

/-! ### the steps -/

/-- (b) on a day of the supported window, the day filter of a canonical rule is membership of the point
(year, month, ISO week, weekday) of the day in the day part of the rule's canonical selector -/
theorem C07_selector_is_filter (ctx : Ctx) (r : Rule) (hr : RuleOK r) (sel : CanonicalSelector)
    (hsel : ruleseqToSelector r = .ok (some sel)) (d : Int) (hd : dateStart ≤ d ∧ d < dateEnd) :
    r.day.filter ctx d = .ok (Paving.mem (P := DaysCovered) (pt d) sel.tail) :=
  dayFilter_canon ctx r hr sel hsel d hd

/-- (b) its own schedule covers exactly the minutes of the time part of the selector, with its kind,
on the days that match, and nothing passes midnight -/
theorem C07_selector_is_schedule (ctx : Ctx) (r : Rule) (hr : RuleOK r) (sel : CanonicalSelector)
    (hsel : ruleseqToSelector r = .ok (some sel)) (d : Int) (hd : dateStart ≤ d ∧ d < dateEnd) :
    ∃ ce, ruleScheduleAt ctx r d = .ok ce ∧ EvOK ce ∧
      ∀ m, stateOpt ce m =
        if Paving.mem (P := DaysCovered) (pt d) sel.tail = true ∧ inRanges sel.range m = true
        then some r.kind else none :=
  canonRule_eval ctx r hr sel hsel d hd

/-- (c-1) folding canonical rules with the loop body of `schedule_at` gives, at every minute, the kind
the paving built from the same rules stores at the point of (minute, day) -/
theorem C07_prefix_reads_paving (ctx : Ctx) (d : Int) (hd : dateStart ≤ d ∧ d < dateEnd) (l : List Rule)
    (P : Canonical) (hl : ∀ r ∈ l, RuleOK r) (hf : foldRules Paving.empty l = some P) :
    ∃ st, foldM' (scheduleStep ctx d) (false, none) l = .ok st ∧
      ∀ m, m < 1440 → kindAt st.2 m = (Paving.get P ((m, pt d) : Point5)).1 := by
  obtain ⟨st, h1, h2⟩ := prefix_reads ctx d hd l Paving.empty P false none hl LawfulPaving.wf_empty hf
    (reads_empty d)
  exact ⟨st, h1, h2.2⟩

/-- (c-2) the rules `canonical_to_seq` emits fold back to a paving that denotes the same function
(values: kind AND comments) -/
theorem C07_foldback (P : Canonical) (hP : PavOK P) (rs : List Rule) (h : canonicalToSeq true P = .ok rs) :
    ∃ P2, foldRules Paving.empty rs = some P2 ∧ ∀ x, Paving.get P2 x = Paving.get P x := by
  obtain ⟨P2, h1, _, h2, _⟩ := foldback P hP rs h
  exact ⟨P2, h1, h2⟩

/-- the rules that follow the canonical prefix cannot tell apart two accumulated schedules that show
the same kinds: neither their overlay nor the fallback test looks at anything else -/
theorem C07_tail_cannot_tell (ctx : Ctx) (d : Int) (m : Nat) (hm : m < 1440) (l : List Rule) (b1 b2 : Bool)
    (p1 p2 : Option Schedule) (h : Equiv p1 p2) :
    (foldM' (scheduleStep ctx d) (b1, p1) l).map (fun st => kindAt st.2 m)
      = (foldM' (scheduleStep ctx d) (b2, p2) l).map (fun st => kindAt st.2 m) :=
  tail_equiv ctx d m hm l b1 b2 p1 p2 h

/-! ### non-vacuity, and the code before the D13 repair -/

/-- kind shown by `schedule_at` in the default context, `none` on a panic -/
def kindOn (e : Expr) (d : Int) (m : Nat) : Option Kind :=
  match scheduleAt Ctx.default e d with
  | .ok s => some (dayState s m)
  | .error _ => none

/-- the hypotheses are met by the D13 witness, whose normal form is a different expression -/
example : ExprOK d13Witness ∧ normalize d13Witness = d13NormalForm ∧ d13NormalForm ≠ d13Witness :=
  ⟨by decide, normalize_eq_of_ok d13Witness_normalizes.1, d13Witness_normalizes.2⟩

set_option maxRecDepth 100000 in
/-- **before the repair** `normalize` changed the meaning: `Apr 05:00-23:00, 13:30-14:00 unknown` is open
at 06:40 on 2024-04-15, the normal form the old code produced (`…; 13:30-14:00 unknown`) is closed -/
theorem C07_before_repair_fails :
    normalizeG false d13Witness = .ok d13NormalFormBefore ∧
    kindOn d13Witness (ymdRaw 2024 4 15) 400 = some Kind.open ∧
    kindOn d13NormalFormBefore (ymdRaw 2024 4 15) 400 = some Kind.closed ∧
    kindOn d13NormalForm (ymdRaw 2024 4 15) 400 = some Kind.open :=
  ⟨C13_idempotent_before_repair_fails.2.1, by decide, by decide, by decide⟩

end OH.Props.C07
