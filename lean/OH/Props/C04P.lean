import OH.Proofs.SynTotal
/-
C04, parser part — "parse returns Ok or Err for every string".
The parser model has one explicit outcome per panic site of parser.rs (`expect`, `unwrap`,
`unreachable!`, `assert!`, array index, integer `parse().expect`); these theorems say none of them is
reachable, for EVERY input, on the grammar as regenerated from grammar.pest on this run.
Route: every pair list the engine produces conforms to the grammar (`run_conf`, generic), and every
builder is total on conforming pairs.
-/
namespace OH.Props.C04P
open OH.Model OH.Model.Peg OH.Model.Parser OH.Generated.Grammar OH.Proofs.SynTotal

/-- the engine only produces pairs and texts that the grammar expression describes (any grammar) -/
theorem C04_pairs_conform_to_grammar {ρ : Type} (e : PExpr ρ) (q : Bool) (inp : List Char) (r : R ρ)
    (h : run e q inp = some r) : Conf e q r.kids r.eaten :=
  run_conf e q inp r h

/-- no string reaches a panic site of the parser -/
theorem C04_parse_never_panics (s : String) (site : String) : Parser.parse s ≠ .error (.panic site) :=
  parse_string_never_panics s site

/-- the same on character lists (arbitrary Unicode scalar values) -/
theorem C04_parseChars_never_panics (inp : List Char) (site : String) :
    Parser.parseChars inp ≠ .error (.panic site) :=
  parse_never_panics inp site

/-- hence the result is `Ok` or one of the four documented error classes -/
theorem C04_parse_ok_or_err (s : String) :
    (∃ e, Parser.parse s = .ok e) ∨ Parser.parse s = .error .parser ∨
      (∃ w, Parser.parse s = .error (.unsupported w)) ∨ Parser.parse s = .error .overflow ∨
      Parser.parse s = .error .exttime := by
  cases h : Parser.parse s with
  | ok e => exact .inl ⟨e, rfl⟩
  | error err =>
    cases err with
    | parser => exact .inr (.inl rfl)
    | unsupported w => exact .inr (.inr (.inl ⟨w, rfl⟩))
    | overflow => exact .inr (.inr (.inr (.inl rfl)))
    | exttime => exact .inr (.inr (.inr (.inr rfl)))
    | panic site => exact absurd h (parse_string_never_panics s site)

/-- non-vacuity: the formerly panicking input `10:00-12:00/30` (D1) parses in the model (evaluated by
the kernel) -/
example : (match Parser.parseChars ['1', '0', ':', '0', '0', '-', '1', '2', ':', '0', '0', '/', '3', '0'] with
    | .ok _ => true | .error _ => false) = true := by decide +kernel

end OH.Props.C04P
