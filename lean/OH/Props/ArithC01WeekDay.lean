/-
C01 (and C02, C03, C08, C16) on the code as it is NOW: `impl DateFilter for ds::WeekDayRange` `filter`
(opening-hours/src/filter/date_filter.rs).  It is translated from the Rust source on every run (`translators/rs2lean.py`,
[weekday extension], chrono mode → `OH.Generated.Arith.WeekDayRange.filter`): `match self` over the struct-variant enum, the
wrapping range as two recursive calls on rebuilt `Fixed` values (`fuel` = the depth allowed), the day offset undone first
(`add_days_saturating(date, offset.saturating_neg())`), `pos_from_start` / `pos_from_end` with their checked `u8`
subtractions and the translated `count_days_in_month` — BOTH on the shifted date —, `wrapping_contains` on the weekday
numbers, `[bool; 5]` indexing with its `index out of bounds` outcome, `&&` / `||` with their short circuit; the calendars of
the context are by-name parameters (`ctx.holidays.public.contains` / `.school.contains`).

The tie: for EVERY date, offset, pair of position arrays and every weekday range the generated definition (fuel ≥ 2) and
the hand-written evaluator model `OH.Model.WeekDayRange.filter` agree: the same truth value, or a panic / overflow
outcome exactly where the model has its error.  Termination: depth 2 suffices (the rebuilt ranges do not wrap), depth 1
does not for a wrapping range.
-/
import OH.Proofs.ArithWeekDay
namespace OH.Props.ArithC01WeekDay
set_option linter.unusedSimpArgs false
set_option linter.unusedVariables false
open OH.Model.RustInt
open OH.Generated.Arith
open OH.Proofs.ArithWeekDay

/-- THE TIE, `Fixed` arm: every weekday range (a `Weekday` start: `lo ≤ 6`), wrapping or not, every offset, every pair of
`[bool; 5]` arrays, EVERY date, every fuel ≥ 2, whatever the calendars: the generated `filter` is the model's -/
theorem weekDayRange_fixed_agree (fuel : Nat) (hf : 2 ≤ fuel) (lo hi : Nat) (hlo : lo ≤ 6) (off : Int)
    (ns ne : Vector Bool 5) (d : Int) (pc sc : Int → Bool) (ctx : OH.Model.Ctx) :
    AgreeB (WeekDayRange.filter fuel (.Fixed ⟨lo, hi⟩ off ns ne) d pc sc)
      (OH.Model.WeekDayRange.filter ctx (.fixed lo hi off ns.toList ne.toList) d) := by
  obtain ⟨f, rfl⟩ : ∃ f, fuel = f + 2 := ⟨fuel - 2, by omega⟩
  by_cases h : lo > hi
  · exact wrap_agree f lo hi hlo h off ns ne d pc sc ctx
  · have := simple_agree (f + 1) lo hi (by omega) off ns ne d pc sc
    simp only [OH.Model.WeekDayRange.filter, if_neg h]
    exact this

/-- a range that does not wrap needs depth 1 only: one level of the generated function is the model's `wdayFixedSimple` -/
theorem weekDayRange_simple_agree (fuel : Nat) (lo hi : Nat) (h : lo ≤ hi) (off : Int) (ns ne : Vector Bool 5) (d : Int)
    (pc sc : Int → Bool) :
    AgreeB (WeekDayRange.filter (fuel + 1) (.Fixed ⟨lo, hi⟩ off ns ne) d pc sc)
      (OH.Model.wdayFixedSimple lo hi off ns.toList ne.toList d) :=
  simple_agree fuel lo hi h off ns ne d pc sc

/-- THE TIE, `Holiday` arm: with the calendars of the model's context passed by name, every kind, offset, date and every
fuel ≥ 1: the same truth value; no other outcome -/
theorem weekDayRange_holiday_agree (fuel : Nat) (hf : 1 ≤ fuel) (k : OH.Model.HolidayKind) (off d : Int) (ctx : OH.Model.Ctx) :
    AgreeB (WeekDayRange.filter fuel (.Holiday (genKind k) off) d (OH.Model.calContains ctx.pub) (OH.Model.calContains ctx.school))
      (OH.Model.WeekDayRange.filter ctx (.holiday k off) d) := by
  obtain ⟨f, rfl⟩ : ∃ f, fuel = f + 1 := ⟨fuel - 1, by omega⟩
  simp only [WeekDayRange.filter, OH.Model.WeekDayRange.filter, OH.Proofs.RustDated.saturatingNeg_i64,
    OH.Props.ArithC01Offset.addDaysSat_eq_model, bnd, bind, Except.bind, pure, Except.pure]
  cases k <;> exact .value _

/-- fuel: depth 0 is the fuel outcome, for every input -/
theorem weekDayRange_fuel_zero (r : WeekDayRange) (d : Int) (pc sc : Int → Bool) :
    WeekDayRange.filter 0 r d pc sc = .error (.panic loopFuelExhausted) := by
  simp only [WeekDayRange.filter]

/-- fuel: depth 1 does NOT suffice for a wrapping range (so the `2` of `weekDayRange_fixed_agree` is exact) -/
theorem weekDayRange_fuel_one_wrapping (lo hi : Int) (h : lo > hi) (off : Int) (ns ne : Vector Bool 5) (d : Int)
    (pc sc : Int → Bool) :
    WeekDayRange.filter 1 (.Fixed ⟨lo, hi⟩ off ns ne) d pc sc = .error (.panic loopFuelExhausted) := by
  simp only [WeekDayRange.filter, h, decide_true, if_true, bnd]

end OH.Props.ArithC01WeekDay
