/-
Calendar foundation — the model `OH.Model.Cal` of chrono's proleptic Gregorian `NaiveDate` over `Int`
day numbers (`num_days_from_ce`) is a correct calendar.  (Shared foundation of the evaluator
properties, not one of the C-properties.)

The statements below are the ones the evaluator proofs build on; each is proved for ALL integers
(days / years) unless a hypothesis says otherwise — in particular outside chrono's representable
range and for year 0 and negative years.  Helper lemmas and many more rewriting forms:
`OH.Proofs.Calendar`.  Nothing here is by enumeration: every proof is `omega` after case splits on
the leap rule and the 12 months, including Easter (bounds on the intermediate values of the
anonymous Gregorian algorithm).  Only the eight range numerals are evaluated by `decide`.

Tie to chrono: the `chr.*` correspondence suite (`harness/src/cal.rs`, `OH/Driver/Cal.lean`) compares
every function of the model with chrono on every day 1900-01-01 … 9999-12-31 and on samples of the
whole representable range, and checks the statements below on chrono's outputs.
-/
import OH.Model.Calendar
import OH.Proofs.Calendar
namespace OH.Props.Calendar
open OH.Model.Cal

/-! ### years -/

/-- leap rule -/
theorem isLeap_iff (y : Int) : isLeap y = true ↔ y % 4 = 0 ∧ (y % 100 ≠ 0 ∨ y % 400 = 0) :=
  OH.Model.Cal.isLeap_iff y

theorem yearLen_cases (y : Int) : yearLen y = 365 ∨ yearLen y = 366 := OH.Model.Cal.yearLen_cases y

theorem yearStart_succ (y : Int) : yearStart (y + 1) = yearStart y + yearLen y :=
  OH.Model.Cal.yearStart_succ y

/-- `yearStart` is strictly increasing -/
theorem yearStart_lt_iff {a b : Int} : yearStart a < yearStart b ↔ a < b := OH.Model.Cal.yearStart_lt_iff

/-- the year of a day brackets it — for every integer day (no fuel or range caveat: the bounded
search `findYear` between `yearLow` and `yearHigh` always finds the year) -/
theorem year_spec (d : Int) : yearStart (year d) ≤ d - 1 ∧ d - 1 < yearStart (year d + 1) :=
  OH.Model.Cal.year_spec d

theorem year_unique {d y : Int} (h1 : yearStart y ≤ d - 1) (h2 : d - 1 < yearStart (y + 1)) : year d = y :=
  OH.Model.Cal.year_unique h1 h2

theorem year_mono {a b : Int} (h : a ≤ b) : year a ≤ year b := OH.Model.Cal.year_mono h

/-- Jan 1 of `y` is the first day whose year is `y` -/
theorem lt_ymdRaw_jan1_iff (d y : Int) : d < ymdRaw y 1 1 ↔ year d < y := OH.Model.Cal.lt_ymdRaw_jan1_iff d y

/-- 0-based ordinal inside the year -/
theorem ordinal0_bounds (d : Int) : 0 ≤ ordinal0 d ∧ ordinal0 d < yearLen (year d) :=
  OH.Model.Cal.ordinal0_bounds d

/-! ### months and days -/

theorem month_bounds (d : Int) : 1 ≤ month d ∧ month d ≤ 12 := OH.Model.Cal.month_bounds d

theorem dayOfMonth_bounds (d : Int) : 1 ≤ dayOfMonth d ∧ dayOfMonth d ≤ daysInMonth (year d) (month d) :=
  OH.Model.Cal.dayOfMonth_bounds d

/-- the `monthStart` table is the running sum of the month lengths -/
theorem monthStart_succ (y : Int) (m : Nat) (h1 : 1 ≤ m) (h2 : m ≤ 12) :
    monthStart (isLeap y) (m + 1) = monthStart (isLeap y) m + daysInMonth y m :=
  OH.Model.Cal.monthStart_succ y m h1 h2

theorem monthStart_total (y : Int) : monthStart (isLeap y) 1 = 0 ∧ monthStart (isLeap y) 13 = yearLen y :=
  ⟨rfl, rfl⟩

/-- civil round trip: every day is the day number of its (year, month, day) -/
theorem ymdRaw_civil (d : Int) : ymdRaw (year d) (month d) (dayOfMonth d) = d := OH.Model.Cal.ymdRaw_civil d

/-- … and `from_ymd_opt` rebuilds every representable day from its fields -/
theorem ofYmd?_civil (d : Int) (h1 : minYear ≤ year d) (h2 : year d ≤ maxYear) :
    ofYmd? (year d) (month d) (dayOfMonth d) = some d := OH.Model.Cal.ofYmd?_civil d h1 h2

/-- `from_ymd_opt` succeeds exactly on valid triples of representable years -/
theorem ofYmd?_isSome_iff {y : Int} {m dd : Nat} :
    (ofYmd? y m dd).isSome = true ↔
      minYear ≤ y ∧ y ≤ maxYear ∧ 1 ≤ m ∧ m ≤ 12 ∧ 1 ≤ dd ∧ dd ≤ daysInMonth y m :=
  OH.Model.Cal.ofYmd?_isSome_iff

/-- converse round trip: the fields of a date built by `from_ymd_opt` -/
theorem civil_of_ofYmd? {y : Int} {m dd : Nat} {d : Int} (h : ofYmd? y m dd = some d) :
    year d = y ∧ month d = m ∧ dayOfMonth d = dd := OH.Model.Cal.civil_of_ofYmd? h

/-- (year, month, day) is strictly increasing, lexicographically, in the day number -/
theorem lt_iff_civil_lt (d d' : Int) :
    d < d' ↔ year d < year d' ∨ (year d = year d' ∧
      (month d < month d' ∨ (month d = month d' ∧ dayOfMonth d < dayOfMonth d'))) :=
  OH.Model.Cal.lt_iff_ymdLt d d'

/-- `ymdRaw y m 1` is the first day whose (year, month) is (y, m) or later -/
theorem lt_first_of_month_iff (y : Int) {m : Nat} (h1 : 1 ≤ m) (h2 : m ≤ 12) (d : Int) :
    d < ymdRaw y m 1 ↔ year d < y ∨ (year d = y ∧ month d < m) :=
  OH.Model.Cal.lt_ymdRaw_first_iff y h1 h2 d

/-- the days of month (y, m) are the `daysInMonth y m` days from `ymdRaw y m 1` -/
theorem year_month_eq_iff (y : Int) {m : Nat} (h1 : 1 ≤ m) (h2 : m ≤ 12) (d : Int) :
    (year d = y ∧ month d = m) ↔ ymdRaw y m 1 ≤ d ∧ d < ymdRaw y m 1 + daysInMonth y m :=
  OH.Model.Cal.year_month_eq_iff y h1 h2 d

/-- the day before the first of a month is the last day of the previous month -/
theorem first_of_month_pred (y : Int) {m : Nat} (h1 : 2 ≤ m) (h2 : m ≤ 12) :
    ymdRaw y m 1 - 1 = ymdRaw y (m - 1) (daysInMonth y (m - 1)) := OH.Model.Cal.ymdRaw_first_pred y h1 h2

theorem jan1_pred (y : Int) : ymdRaw y 1 1 - 1 = ymdRaw (y - 1) 12 31 := OH.Model.Cal.ymdRaw_jan1_pred y

/-- the fields of the next day -/
theorem civil_succ (d : Int) :
    (dayOfMonth d < daysInMonth (year d) (month d) ∧
      year (d + 1) = year d ∧ month (d + 1) = month d ∧ dayOfMonth (d + 1) = dayOfMonth d + 1) ∨
    (dayOfMonth d = daysInMonth (year d) (month d) ∧ month d < 12 ∧
      year (d + 1) = year d ∧ month (d + 1) = month d + 1 ∧ dayOfMonth (d + 1) = 1) ∨
    (dayOfMonth d = 31 ∧ month d = 12 ∧
      year (d + 1) = year d + 1 ∧ month (d + 1) = 1 ∧ dayOfMonth (d + 1) = 1) :=
  OH.Model.Cal.civil_succ d

/-! ### weekdays (0 = Monday … 6 = Sunday) -/

theorem weekday_lt (d : Int) : weekday d < 7 := OH.Model.Cal.weekday_lt d
theorem weekday_succ (d : Int) : weekday (d + 1) = (weekday d + 1) % 7 := OH.Model.Cal.weekday_succ d
theorem weekday_add_seven (d : Int) : weekday (d + 7) = weekday d := OH.Model.Cal.weekday_add_seven d

/-! ### ISO weeks -/

theorem isoWeek_bounds (d : Int) : 1 ≤ isoWeek d ∧ isoWeek d ≤ 53 := OH.Model.Cal.isoWeek_le_53 d

theorem isoWeek_le_weeksInYear (d : Int) : isoWeek d ≤ isoWeeksInYear (isoYear d) :=
  (OH.Model.Cal.isoWeek_bounds d).2

theorem isoWeeksInYear_cases (y : Int) : isoWeeksInYear y = 52 ∨ isoWeeksInYear y = 53 :=
  OH.Model.Cal.isoWeeksInYear_cases y

/-- the ISO year is the civil year or a neighbour -/
theorem isoYear_near_year (d : Int) : year d - 1 ≤ isoYear d ∧ isoYear d ≤ year d + 1 :=
  OH.Model.Cal.isoYear_near_year d

/-- all seven days Monday … Sunday of a week share (isoYear, isoWeek) -/
theorem iso_same_week (d : Int) (j : Nat) (hj : j ≤ 6) :
    isoYear (d - weekday d + j) = isoYear d ∧ isoWeek (d - weekday d + j) = isoWeek d ∧
      weekday (d - weekday d + j) = j := OH.Model.Cal.iso_same_week d j hj

/-- a week later: next week number, or week 1 of the next ISO year after the last week -/
theorem iso_add_seven (d : Int) :
    (isoYear (d + 7) = isoYear d ∧ isoWeek (d + 7) = isoWeek d + 1) ∨
    (isoYear (d + 7) = isoYear d + 1 ∧ isoWeek (d + 7) = 1 ∧ isoWeek d = isoWeeksInYear (isoYear d)) :=
  OH.Model.Cal.iso_add_seven d

/-- ISO years are whole weeks: `isoYearStart` (Monday of week 1) plays the role of `yearStart` -/
theorem isoYear_eq_iff {d y : Int} : isoYear d = y ↔ isoYearStart y ≤ d ∧ d < isoYearStart (y + 1) :=
  OH.Model.Cal.isoYear_eq_iff

theorem isoYearStart_succ (y : Int) : isoYearStart (y + 1) = isoYearStart y + 7 * isoWeeksInYear y :=
  OH.Model.Cal.isoYearStart_succ y

theorem isoWeek_eq (d : Int) : (isoWeek d : Int) = (d - isoYearStart (isoYear d)) / 7 + 1 :=
  OH.Model.Cal.isoWeek_eq d

/-- fields of a date built by `from_isoywd_opt` -/
theorem iso_of_ofIsoYwd? {y : Int} {w wd : Nat} {d : Int} (h : ofIsoYwd? y w wd = some d) :
    isoYear d = y ∧ isoWeek d = w ∧ weekday d = wd := OH.Model.Cal.iso_of_ofIsoYwd? h

/-- converse round trip, for every representable day -/
theorem ofIsoYwd?_iso (d : Int) (h1 : minDay ≤ d) (h2 : d ≤ maxDay) :
    ofIsoYwd? (isoYear d) (isoWeek d) (weekday d) = some d := OH.Model.Cal.ofIsoYwd?_iso d h1 h2

/-- `from_isoywd_opt` succeeds exactly on valid triples whose day is representable -/
theorem ofIsoYwd?_eq_some_iff {y : Int} {w wd : Nat} {d : Int} :
    ofIsoYwd? y w wd = some d ↔
      1 ≤ w ∧ w ≤ isoWeeksInYear y ∧ wd ≤ 6 ∧ minDay ≤ d ∧ d ≤ maxDay ∧
        d = isoYearStart y + 7 * ((w : Int) - 1) + wd :=
  OH.Model.Cal.ofIsoYwd?_eq_some_iff

/-- the Mondays `from_isoywd_opt(y, w, Mon)` are strictly increasing in (y, w) -/
theorem ofIsoYwd?_monday_lt_iff {y : Int} {w : Nat} {y' : Int} {w' : Nat} {d d' : Int}
    (h : ofIsoYwd? y w 0 = some d) (h' : ofIsoYwd? y' w' 0 = some d') :
    d < d' ↔ (y < y' ∨ (y = y' ∧ w < w')) := OH.Model.Cal.ofIsoYwd?_monday_lt_iff h h'

/-! ### `succ_opt`, `pred_opt`, `+ Duration::days`, `with_year`, `with_day(1)`, `checked_add_months(1)` -/

theorem succ?_eq_some_iff {d d' : Int} : succ? d = some d' ↔ d < maxDay ∧ d' = d + 1 :=
  OH.Model.Cal.succ?_eq_some_iff

theorem pred?_eq_some_iff {d d' : Int} : pred? d = some d' ↔ minDay < d ∧ d' = d - 1 :=
  OH.Model.Cal.pred?_eq_some_iff

theorem addDays?_eq_some_iff {d n d' : Int} :
    addDays? d n = some d' ↔ minDay ≤ d + n ∧ d + n ≤ maxDay ∧ d' = d + n :=
  OH.Model.Cal.addDays?_eq_some_iff

/-- inside (and one past) the evaluator's window `succ?`/`pred?` cannot fail -/
theorem succ?_of_le_dateEnd {d : Int} (h : d ≤ dateEnd) : succ? d = some (d + 1) :=
  OH.Model.Cal.succ?_of_le_dateEnd h

theorem pred?_of_dateStart_le {d : Int} (h : dateStart ≤ d) : pred? d = some (d - 1) :=
  OH.Model.Cal.pred?_of_dateStart_le h

theorem withYear?_eq_some_iff {d y d' : Int} :
    withYear? d y = some d' ↔
      minYear ≤ y ∧ y ≤ maxYear ∧ year d' = y ∧ month d' = month d ∧ dayOfMonth d' = dayOfMonth d :=
  OH.Model.Cal.withYear?_eq_some_iff

/-- `with_year` fails exactly outside chrono's year range and for Feb 29 in a common year -/
theorem withYear?_eq_none_iff {d y : Int} :
    withYear? d y = none ↔
      ¬ (minYear ≤ y ∧ y ≤ maxYear) ∨ (month d = 2 ∧ dayOfMonth d = 29 ∧ isLeap y = false) :=
  OH.Model.Cal.withYear?_eq_none_iff

theorem civil_firstOfMonth (d : Int) :
    year (firstOfMonth d) = year d ∧ month (firstOfMonth d) = month d ∧ dayOfMonth (firstOfMonth d) = 1 :=
  OH.Model.Cal.civil_firstOfMonth d

/-- `checked_add_months(1)` lands in the next month with the day clamped to its length -/
theorem addOneMonth?_spec {d d' : Int} (h : addOneMonth? d = some d') :
    ((month d ≠ 12 ∧ year d' = year d ∧ month d' = month d + 1) ∨
     (month d = 12 ∧ year d' = year d + 1 ∧ month d' = 1)) ∧
    dayOfMonth d' = min (dayOfMonth d) (daysInMonth (year d') (month d')) :=
  OH.Model.Cal.addOneMonth?_spec h

/-- … and fails, for a representable day, only in December of chrono's last year -/
theorem addOneMonth?_eq_none_iff {d : Int} (h1 : minYear ≤ year d) (h2 : year d ≤ maxYear) :
    addOneMonth? d = none ↔ year d = maxYear ∧ month d = 12 :=
  OH.Model.Cal.addOneMonth?_eq_none_iff h1 h2

/-- what `count_days_in_month` computes -/
theorem firstOfMonth_addOneMonth? {d d' : Int} (h : addOneMonth? d = some d') :
    firstOfMonth d' - firstOfMonth d = daysInMonth (year d) (month d) :=
  OH.Model.Cal.firstOfMonth_addOneMonth? h

/-! ### Easter -/

/-- the two `expect`s of `utils::dates::easter` cannot fire, whatever the year -/
theorem easter_no_panic (y : Int) : ∃ r, easter y = .ok r := OH.Model.Cal.easter_no_panic y

/-- for every year 1900 … 9999 Easter exists, is in that year, between March 22 and April 25,
a Sunday, and inside the evaluator's window -/
theorem easter_spec (y : Int) (h0 : 1900 ≤ y) (h1 : y ≤ 9999) :
    ∃ d, easter y = .ok (some d) ∧ year d = y ∧ ymdRaw y 3 22 ≤ d ∧ d ≤ ymdRaw y 4 25 ∧
      weekday d = 6 ∧ dateStart ≤ d ∧ d < dateEnd := OH.Model.Cal.easter_spec_window y h0 h1

/-- the same for every year 0 … 262142 -/
theorem easter_spec_all (y : Int) (h0 : 0 ≤ y) (h1 : y ≤ maxYear) :
    ∃ d, easter y = .ok (some d) ∧ year d = y ∧ ymdRaw y 3 22 ≤ d ∧ d ≤ ymdRaw y 4 25 ∧
      ((month d = 3 ∧ 22 ≤ dayOfMonth d) ∨ (month d = 4 ∧ dayOfMonth d ≤ 25)) ∧ weekday d = 6 :=
  OH.Model.Cal.easter_spec y h0 h1

/-! ### ranges -/

theorem dateStart_eq : dateStart = 693596 := OH.Model.Cal.dateStart_eq
theorem dateEnd_eq : dateEnd = 3652060 := OH.Model.Cal.dateEnd_eq
theorem minDay_eq : minDay = -95746129 := OH.Model.Cal.minDay_eq
theorem maxDay_eq : maxDay = 95745399 := OH.Model.Cal.maxDay_eq
theorem year_dateStart : year dateStart = 1900 := OH.Model.Cal.year_dateStart
theorem year_dateEnd_pred : year (dateEnd - 1) = 9999 := OH.Model.Cal.year_dateEnd_pred

/-- representable days = representable years -/
theorem inRange_iff_year (d : Int) : (minDay ≤ d ∧ d ≤ maxDay) ↔ (minYear ≤ year d ∧ year d ≤ maxYear) :=
  OH.Model.Cal.inRange_iff_year d

/-- the evaluator's window `[dateStart, dateEnd)` = years 1900 … 9999 -/
theorem window_iff_year (d : Int) : (dateStart ≤ d ∧ d < dateEnd) ↔ (1900 ≤ year d ∧ year d ≤ 9999) :=
  OH.Model.Cal.window_iff_year d

/-! ### non-vacuity / sanity: concrete dates (2024-02-29 is day 738945, a Thursday in ISO week 9) -/

example : ofYmd? 2024 2 29 = some 738945 := by decide
example : (year 738945, month 738945, dayOfMonth 738945, weekday 738945, isoYear 738945, isoWeek 738945)
    = (2024, 2, 29, 3, 2024, 9) := by decide
example : ofYmd? 2023 2 29 = none := by decide
example : ofIsoYwd? 2020 53 6 = ofYmd? 2021 1 3 := by decide
example : ofIsoYwd? 2021 53 0 = none := by decide
example : easter 2024 = .ok (ofYmd? 2024 3 31) := by rfl
example : easter 2038 = .ok (ofYmd? 2038 4 25) := by rfl   -- the latest possible date
example : easter 2285 = .ok (ofYmd? 2285 3 22) := by rfl   -- the earliest possible date
example : (year 0, month 0, dayOfMonth 0) = (0, 12, 31) := by decide   -- day 0 is 0000-12-31
example : (year (-365), month (-365), dayOfMonth (-365)) = (0, 1, 1) := by decide   -- year 0 is leap
example : addOneMonth? 738916 = some 738945 := by decide   -- 2024-01-31 + 1 month = 2024-02-29
example : withYear? 738945 2023 = none := by decide

end OH.Props.Calendar
