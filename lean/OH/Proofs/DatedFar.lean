import OH.Proofs.HintDated
import OH.Proofs.EvalSpecDatedWide
/-
Dated ranges whose yearless START is moved by 99 500 000 days or more (beyond representability: the year of
`d - offset` is not a year of chrono's calendar, `year_before_offset` is pinned at `NaiveDate::MIN`'s year): every
instance of the start lies on a day chrono can represent, so every shifted start — pinned at `NaiveDate::MAX` or not
— lies after 9999-12-31.  The range has no occurrence that starts before the end of the evaluation window: the
filter is false on every day before 10000-01-01, and so is the specification's `datedOk`.  Any dates (Easter
included), any end offset, any weekday shift.
-/
namespace OH.Proofs.EvalSpec
open OH.Model OH.Model.Cal
open OH.Spec (shift dateInstance exactInstance specYear datedOk candidateYears yearsNear yearSpan isFixedDate)

/-- a start offset of 99 500 000 days or more: `NaiveDate::MIN + offset` is already after 9999-12-31 -/
def offFarStartD (o : DateOffset) : Bool := decide (99500000 ≤ o.days)

theorem shiftC_far (o : DateOffset) (h : 99500000 ≤ o.days) (x : Int) (hx : minDay ≤ x) : dateEnd < o.shiftC x := by
  have := (o.shiftC_near x).1
  have := minDay_eq; have := maxDay_eq; have := dateEnd_eq
  unfold clampDay at *
  omega

/-- the first component of every interval of `intervals_from_bounds` is one of the starts -/
theorem intervalsGo_fst (ss es : List Int) : ∀ r ∈ intervalsGo ss es, r.1 ∈ ss := by
  fun_induction intervalsGo ss es with
  | case1 => simp
  | case2 s ss es hdw ih =>
    intro r hr
    rcases List.mem_cons.1 hr with rfl | hr
    · simp
    · exact List.mem_cons_of_mem _ (ih r hr)
  | case3 s ss es e et hdw hse ih =>
    intro r hr
    rcases List.mem_cons.1 hr with rfl | hr
    · simp
    · exact List.mem_cons_of_mem _ (ih r hr)
  | case4 s ss es e et hdw hse ih =>
    intro r hr
    rcases List.mem_cons.1 hr with rfl | hr
    · simp
    · exact List.mem_cons_of_mem _ (ih r hr)

/-- when every start lies after the day, the pairing selects nothing -/
theorem isOpen_false_of_starts_gt (ss es : List Int) (d : Int) (h : ∀ x ∈ ss, d < x) :
    isOpenFromIntervals d (intervalsFromBounds ss es) = false := by
  unfold isOpenFromIntervals
  cases hf : (intervalsFromBounds ss es).find? (fun r => decide (r.2 ≥ d)) with
  | none => rfl
  | some r =>
    have hm := List.mem_of_find?_eq_some hf
    rw [intervalsFromBounds] at hm
    have := h r.1 (ensureIncreasing_sub ss _ (intervalsGo_fst _ _ r hm))
    simp only [Bool.and_eq_false_iff, decide_eq_false_iff_not]
    left; omega

theorem singleDayV_fst (m dd : Nat) (so eo : DateOffset) (d : Int) (ys : List Int) (r : Int × Int)
    (h : singleDayV m dd so eo d ys = some r) :
    ∃ f, (minDay ≤ f ∧ f ≤ maxDay) ∧ r = (so.shiftC f, eo.shiftC f) ∧ eo.shiftC f ≥ d := by
  induction ys with
  | nil => simp [singleDayV] at h
  | cons y ys ih =>
    simp only [singleDayV] at h
    cases hf : ofYmd? y m dd with
    | none => rw [hf] at h; exact ih h
    | some f =>
      rw [hf] at h
      simp only [] at h
      split at h
      · rename_i hge
        simp only [Option.some.injEq] at h
        exact ⟨f, ofYmd?_inRange hf, h.symm, hge⟩
      · exact ih h

/-- the model: nothing is selected before 10000-01-01 -/
theorem datedFilterV_far (s : DateSpec) (so : DateOffset) (e : DateSpec) (eo : DateOffset)
    (hws : s.wf = true) (hsy : dateYear s = none) (hfar : 99500000 ≤ so.days) (d : Int) (hd : d < dateEnd) :
    datedFilterV s so e eo d = false := by
  unfold datedFilterV
  cases hsd : singleDayOf s e with
  | some md =>
    obtain ⟨fy, m, dd⟩ := md
    simp only []
    cases hr : singleDayV m dd so eo d (sdYears fy (yearBeforeOffset d eo) 8) with
    | none => rfl
    | some r =>
      obtain ⟨f, fr, rfl, _⟩ := singleDayV_fst m dd so eo d _ r hr
      have := shiftC_far so hfar f fr.1
      simp only [sdRes, Bool.and_eq_false_iff, decide_eq_false_iff_not]
      left; omega
  | none =>
    have hsi : singleIntervalV s so e eo = none := by simp [singleIntervalV, hsy]
    simp only [hsi]
    apply isOpen_false_of_starts_gt
    intro x hx
    simp only [List.mem_filterMap, boundV, Option.map_eq_some_iff] at hx
    obtain ⟨y, _, p, hp, rfl⟩ := hx
    have := dateOnYearV_inRange s hws y true p hp
    have := shiftC_far so hfar p this.1
    omega

/-- an instance of a yearless date is a day chrono can represent -/
theorem dateInstance_inRange (ds : DateSpec) (hwf : ds.wf = true) (hyl : specYear ds = none) (y : Int)
    (after : Bool) (p : Int) (h : dateInstance ds y after = some p) : minDay ≤ p ∧ p ≤ maxDay := by
  cases ds with
  | easter yr =>
    cases yr with
    | some n => simp [specYear] at hyl
    | none =>
      simp only [dateInstance, Option.isNone_none, true_or, if_true] at h
      cases he : easter y with
      | error _ => rw [he] at h; cases h
      | ok r => rw [he] at h; simp only [] at h; subst h; exact easter_inRange y p he
  | fixed yr m dd =>
    by_cases hk : RY y
    · obtain ⟨p', hp', _, _, rp⟩ := instW hwf rfl hyl y hk after
      rw [hp'] at h; cases h; exact rp
    · rw [dateInstance_out yr m dd y after hk] at h; cases h

/-- the specification: nothing is selected before 10000-01-01 -/
theorem datedOk_far (s : DateSpec) (so : DateOffset) (e : DateSpec) (eo : DateOffset)
    (hws : s.wf = true) (hwso : so.wf = true) (hsy : specYear s = none) (hfar : 99500000 ≤ so.days)
    (d : Int) (hd : d < dateEnd) : datedOk s so e eo d = false := by
  rw [← Bool.not_eq_true]
  intro hsel
  by_cases hns : s = e ∧ isFixedDate s = true
  · obtain ⟨rfl, hfx⟩ := hns
    cases s with
    | easter yr => simp [isFixedDate] at hfx
    | fixed yr m dd =>
      cases yr with
      | some n => simp [specYear] at hsy
      | none =>
        rw [datedOk_single_iff] at hsel
        obtain ⟨k, _, _, f, hf, hle, _⟩ := hsel
        have fr := ofYmd?_inRange hf
        rw [shift_eq_shiftC so hwso f fr.1 fr.2] at hle
        have := shiftC_far so hfar f fr.1
        omega
  · rw [datedOk_range_iff s so e eo d hns] at hsel
    obtain ⟨s0, hs0, hle, _⟩ := hsel
    obtain ⟨y, _, p, hp, rfl⟩ := mem_specStarts.1 hs0
    have pr := dateInstance_inRange s hws hsy y true p hp
    rw [shift_eq_shiftC so hwso p pr.1 pr.2] at hle
    have := shiftC_far so hfar p pr.1
    omega

/-- **a yearless start moved by 99 500 000 days or more**: the model's filter is the specification's `datedOk`
(both: never) on every day before 10000-01-01 -/
theorem dated_far_eq (s : DateSpec) (so : DateOffset) (e : DateSpec) (eo : DateOffset) (d : Int)
    (hwf : (MonthdayRange.date s so e eo).wf = true) (hsy : specYear s = none) (hfar : 99500000 ≤ so.days)
    (hd : d < dateEnd) :
    MonthdayRange.filter (.date s so e eo) d = .ok (datedOk s so e eo d) := by
  have hwf' := hwf
  simp only [MonthdayRange.wf, Bool.and_eq_true] at hwf'
  obtain ⟨⟨⟨ws, wso⟩, _⟩, _⟩ := hwf'
  have hdy : dateYear s = none := by cases s <;> exact hsy
  rw [MonthdayRange.date_filter_eq s so e eo hwf d, datedFilterV_far s so e eo ws hdy hfar d hd,
    datedOk_far s so e eo ws wso hsy hfar d hd]

end OH.Proofs.EvalSpec
