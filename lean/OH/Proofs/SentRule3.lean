import OH.Proofs.SentRule2
/-
C05, assembly, part 3: the wide-range part of a rule.
 * `Wide.empty`: `wide_range_selectors` matches the empty text in front of a rendered weekday or time
   selector (`parses_wide_emptyS`; the heads of the two selectors, two characters deep);
 * `Wide.comment c` (`"c":`): the first alternative `comment ~ ":"` (`parses_wide_comment`);
 * `Wide.sel ys ms ws sep`: the text (`wideBody` + the separator), the value (`wideVal`), what may follow
   (`AfterWideS`: which part of the following text `separator_for_readability?` swallows) and the
   hypothesis under which the rule-level lemmas are stated (`WideHypS`, discharged from the year /
   month-day / week developments at the end).
-/
namespace OH.Proofs.Sent
open OH.Model OH.Model.Peg OH.Model.Parser OH.Generated.Grammar OH.Proofs.Syn OH.Proofs.Syn.Wide
open OH.Spec.Sent (WdSel WdRange Hol Span Start Clock YearR MdRange WeekSel WideSep commaList quote)

/-! ### heads of the two small selectors, two characters deep -/

/-- a weekday selector starts with a weekday name or with `PH` / `SH` -/
theorem wdsel_head2 (w : WdSel) (h : w.wf = true) :
    (∃ lo tl, lo ≤ 6 ∧ w.render = Print.wdayStr lo ++ tl)
      ∨ (∃ c tl, w.render = c :: 'H' :: tl ∧ (c = 'P' ∨ c = 'S')) := by
  have hdays : ∀ (f : WdRange) (fs : List WdRange) (tl : List Char), f.wf = true →
      ∃ lo tl', lo ≤ 6 ∧ daysStr (f :: fs) ++ tl = Print.wdayStr lo ++ tl' := by
    intro f fs tl hf0
    obtain ⟨a, tl', ha, e⟩ := daysStr_head f fs hf0
    exact ⟨a, tl' ++ tl, ha, by rw [e, List.append_assoc]⟩
  have hhols : ∀ (x : Hol) (xs : List Hol) (tl : List Char),
      ∃ c tl', holsStr (x :: xs) ++ tl = c :: 'H' :: tl' ∧ (c = 'P' ∨ c = 'S') := by
    intro x xs tl
    obtain ⟨c, tl', e, hc⟩ := holsStr_head x xs
    exact ⟨c, tl' ++ tl, by rw [e]; rfl, hc⟩
  cases w with
  | days ws =>
    simp only [WdSel.wf, Bool.and_eq_true, List.all_eq_true] at h
    obtain ⟨f, fs, rfl⟩ := ne_nil_of_not_isEmpty h.1
    exact .inl (by simpa [WdSel.render] using hdays f fs [] (h.2 f (by simp)))
  | hols hs =>
    simp only [WdSel.wf, Bool.and_eq_true, List.all_eq_true] at h
    obtain ⟨x, xs, rfl⟩ := ne_nil_of_not_isEmpty h.1
    exact .inr (by simpa [WdSel.render] using hhols x xs [])
  | holsDays hs s ws =>
    simp only [WdSel.wf, Bool.and_eq_true, List.all_eq_true] at h
    obtain ⟨x, xs, rfl⟩ := ne_nil_of_not_isEmpty h.1.1.1
    exact .inr (by simpa [WdSel.render] using hhols x xs _)
  | daysHols ws s hs =>
    simp only [WdSel.wf, Bool.and_eq_true, List.all_eq_true] at h
    obtain ⟨f, fs, rfl⟩ := ne_nil_of_not_isEmpty h.1.1.1
    exact .inl (by simpa [WdSel.render] using hdays f fs _ (h.1.1.2 f (by simp)))

/-- a time selector starts with the start of its first span -/
theorem spans_start (ts : List Span) (hne : ts ≠ []) (h : ts.all Span.wf = true) :
    ∃ (a : Start) (tl : List Char), a.wf = true ∧ spansStr ts = a.render ++ tl := by
  have hok : ∀ s ∈ ts, s.wf = true := by simpa [List.all_eq_true] using h
  cases ts with
  | nil => exact absurd rfl hne
  | cons s ss =>
    have hs := hok s (by simp)
    rw [spansStr, commaList_span]
    cases s with
    | from_ a => exact ⟨a, _, hs, by simp only [Span.render, List.append_assoc]; rfl⟩
    | range a s1 s2 b plus =>
      simp only [Span.wf, Bool.and_eq_true] at hs
      exact ⟨a, _, hs.1, by simp only [Span.render, List.append_assoc]; rfl⟩
    | repeated a s1 b s2 s3 p =>
      simp only [Span.wf, Bool.and_eq_true] at hs
      exact ⟨a, _, hs.1.1, by simp only [Span.render, List.append_assoc]; rfl⟩

/-- a span start: one or two digits and `:`, or `(`, `d`, `s` -/
theorem start_head2 (a : Start) (h : a.wf = true) :
    (∃ x cs, ('0' ≤ x ∧ x ≤ '9') ∧ a.render = x :: ':' :: cs)
      ∨ (∃ x y cs, ('0' ≤ x ∧ x ≤ '9') ∧ a.render = x :: y :: ':' :: cs)
      ∨ (∃ c cs, a.render = c :: cs ∧ (c = '(' ∨ c = 'd' ∨ c = 's')) := by
  cases a with
  | clock c =>
    have hh : c.h < 100 := by have := (clock_wf 23 c h).1; omega
    simp only [Start.render, clock_render, hourTxt]
    split
    · next hs =>
      simp only [Bool.and_eq_true, decide_eq_true_eq] at hs
      exact .inl ⟨_, _, by rw [clkdigit_eq c.h hs.2]; exact dc_digit _ hs.2, rfl⟩
    · rw [clkpad2_eq c.h hh, pad2_lt100 c.h hh]
      exact .inr (.inl ⟨_, _, _, dc_digit _ (by omega), rfl⟩)
  | h24 => exact .inr (.inl ⟨'2', '4', ['0', '0'], by decide, by decide⟩)
  | var v => exact .inr (.inr (var_head v))

/-- a year has four digits: `H:MM` is not one -/
theorem run_year_none_time1 (x : Char) (r : List Char) : run g_year false (x :: ':' :: r) = none := by
  by_cases h1 : '1' = x
  · subst h1; simp [g_year, PExpr.rep, peg]
  · by_cases h3 : ('2' ≤ x ∧ x ≤ '9') <;> simp [g_year, PExpr.rep, peg, h1, h3]

/-! ### nothing of the wide part starts at a weekday or time selector -/

theorem noWideStart_wdselS (x : WdSel) (hx : x.wf = true) (rest : List Char) :
    NoWideStart (x.render ++ rest) := by
  rcases wdsel_head2 x hx with ⟨lo, tl, hlo, e⟩ | ⟨c, tl, e, hc⟩
  · rw [e, List.append_assoc]
    refine ⟨?_, NoDateStart_wday lo _, ?_, ?_, ?_, ?_⟩
    · apply run_year_none
      rcases le6_cases hlo with h | h | h | h | h | h | h <;> subst h <;>
        (intro c r e; simp only [Print.wdayStr, Print.str, String.toList] at e
         cases e; decide)
    all_goals
      rcases le6_cases hlo with h | h | h | h | h | h | h <;> subst h <;>
        (intro r e; simp [Print.wdayStr, Print.str] at e)
  · rw [e]
    refine ⟨?_, NoDateStart_holiday c _, ?_, ?_, ?_, ?_⟩
    · apply run_year_none
      intro c' r' e'
      cases e'
      rcases hc with rfl | rfl <;> decide
    all_goals
      rcases hc with rfl | rfl <;> (intro r e; cases e)

theorem noWideStart_spansS (ts : List Span) (hne : ts ≠ []) (hts : ts.all Span.wf = true)
    (rest : List Char) : NoWideStart (spansStr ts ++ rest) := by
  obtain ⟨a, tl, ha, e⟩ := spans_start ts hne hts
  rw [e, List.append_assoc]
  have digit_case : ∀ (x : Char) (r : List Char), ('0' ≤ x ∧ x ≤ '9') → run g_year false (x :: r) = none →
      NoWideStart (x :: r) := by
    intro x r hx hy
    obtain ⟨f1, f2, f3, f4, f5, f6, -⟩ := digit_facts x hx.1 hx.2
    refine ⟨hy, NoDateStart_of_head _ _ f1 f2, ?_, ?_, ?_, ?_⟩
    · intro r' e'; injection e' with e1 _; exact f3 e1
    · intro r' e'; injection e' with e1 _; exact f4 e1
    · intro r' e'; injection e' with e1 _; exact f5 e1
    · intro r' e'; injection e' with e1 _; exact f6 e1
  rcases start_head2 a ha with ⟨x, cs, hx, e'⟩ | ⟨x, y, cs, hx, e'⟩ | ⟨c, cs, e', hc⟩
  · rw [e']
    exact digit_case x _ hx (run_year_none_time1 _ _)
  · rw [e']
    exact digit_case x _ hx (run_year_none_time _ _ _)
  · rw [e']
    rcases hc with rfl | rfl | rfl <;>
      exact noWideStart_of_head _ _ (by decide) (by simp [MonthLetter]) (by decide) (by decide)
        (by decide) (by decide) (by decide)

theorem noWideStart_smallHere (rest : List Char) (h : SmallHere rest) : NoWideStart rest := by
  rcases h with ⟨x, r, hx, rfl⟩ | ⟨ts, r, hne, hts, rfl⟩
  · exact noWideStart_wdselS x hx r
  · exact noWideStart_spansS ts hne hts r

/-- `Wide.empty`: `wide_range_selectors` produces its (empty) pair in front of the small selectors -/
theorem parses_wide_emptyS (rest : List Char) (h : SmallHere rest) :
    ParsesTo g_wide_range_selectors buildWideRangeSelectors [] rest ⟨[], [], [], none⟩ :=
  parses_wide_empty rest (noWideStart_smallHere rest h)

/-- `24/7` is not a prefix of a weekday or time selector -/
theorem run_always_open_none_small (rest : List Char) (h : SmallHere rest) :
    run g_always_open false rest = none := by
  rcases h with ⟨x, r, hx, rfl⟩ | ⟨ts, r, hne, hts, rfl⟩
  · obtain ⟨c, cs, e, hc⟩ := wdsel_head x hx
    rw [e]
    exact run_always_open_none_head c _ (weekdayStart_ruleStart c hc).2
  · obtain ⟨a, tl, ha, e⟩ := spans_start ts hne hts
    rw [e, List.append_assoc]
    rcases start_head2 a ha with ⟨x, cs, hx, e'⟩ | ⟨x, y, cs, hx, e'⟩ | ⟨c, cs, e', hc⟩
    · rw [e']
      by_cases h2 : '2' = x <;> simp [g_always_open, peg, h2]
    · rw [e']
      by_cases h2 : '2' = x <;> by_cases h4 : '4' = y <;> simp [g_always_open, peg, h2, h4]
    · rw [e']
      rcases hc with rfl | rfl | rfl <;> simp [g_always_open, peg]

/-! ### `Wide.comment c` : `"c":` -/

/-- the first alternative of `wide_range_selectors`; nothing is asked of what follows -/
theorem parses_wide_comment (c : String) (hc : OH.Spec.Sent.commentWf c = true) (rest : List Char) :
    ParsesTo g_wide_range_selectors buildWideRangeSelectors (quote c ++ [':']) rest
      ⟨[], [], [], some c⟩ := by
  have hok : okCommentChars c.toList = true := hc
  refine ParsesTo.mk' .wide_range_selectors [commentTree c.toList] ?_ ?_
  · have h1 := run_comment c.toList hok (':' :: rest)
    simp only [quote_eq, List.append_assoc, List.cons_append, List.nil_append] at h1 ⊢
    simp [g_wide_range_selectors, run_rule, run_alt, run_seq, run_str, stripPrefix_cons_cons, h1, R.append]
  · have h2 := build_comment c.toList
    simp only [commentTree, List.cons_append] at h2
    simp [buildWideRangeSelectors, wideLoop, assertRule, Tree.rule, Tree.kids, commentTree, h2, bind,
      Except.bind]

theorem run_always_open_none_quote (r : List Char) : run g_always_open false ('"' :: r) = none :=
  run_always_open_none_head '"' r (by decide)

/-! ### `Wide.sel ys ms ws sep` -/

/-- the text of the year, month-day and week selectors (without the separator that follows) -/
def wideBody (ys : List YearR) (ms : List MdRange) (ws : Option WeekSel) : List Char :=
  commaList YearR.render ys ++ commaList MdRange.render ms
    ++ (match ws with
        | none => []
        | some w => (if ys.isEmpty && ms.isEmpty then [] else [' ']) ++ w.render)

theorem wide_render_sel (ys : List YearR) (ms : List MdRange) (ws : Option WeekSel) (sep : WideSep) :
    (OH.Spec.Sent.Wide.sel ys ms ws sep).render = wideBody ys ms ws ++ sep.render := rfl

/-- what the parser builds from them -/
def wideVal (ys : List YearR) (ms : List MdRange) (ws : Option WeekSel) : Parser.Wide :=
  ⟨ys.map YearR.denote, ms.map MdRange.denote, (match ws with | some x => x.denote | none => []), none⟩

/-- nothing more of this rule, and no space: the end of the text or a separator written without a
leading space (`;`, `, `, `||`) -/
def EndHere (rest : List Char) : Prop :=
  rest = [] ∨ (∃ r, rest = ';' :: r) ∨ (∃ r, rest = ',' :: ' ' :: r) ∨ (∃ r, rest = '|' :: r)

/-- What follows the year / month-day / week selectors, cut in two: `sp` is what
`separator_for_readability? = (" " | ": " | ":")?` swallows, `rest` what comes after.
 * nothing or `:` — then the end or a separator without space;
 * a space or `: ` — then a modifier or a separator (the space in front of them is taken by the
   ordered choice, also after the `:` that closes the selectors);
 * a space, `:` or `: ` — then a rendered weekday or time selector. -/
def AfterWideS (sp rest : List Char) : Prop :=
  ((sp = [] ∨ sp = [':']) ∧ EndHere rest)
    ∨ ((sp = [' '] ∨ sp = [':', ' ']) ∧ ∃ c r, rest = c :: r ∧ ModStart c)
    ∨ ((sp = [' '] ∨ sp = [':'] ∨ sp = [':', ' ']) ∧ SmallHere rest)

/-- the year / month-day / week selectors of a rule are read back by `wide_range_selectors`, `24/7` is
not a prefix of their text, and its first character can start a rule -/
structure WideHypS (ys : List YearR) (ms : List MdRange) (ws : Option WeekSel) : Prop where
  notAlways : ∀ rest, run g_always_open false (wideBody ys ms ws ++ rest) = none
  head : ∃ c cs, wideBody ys ms ws = c :: cs ∧ RuleStart c
  parses : ∀ sp rest, AfterWideS sp rest →
    ParsesTo g_wide_range_selectors buildWideRangeSelectors (wideBody ys ms ws ++ sp) rest (wideVal ys ms ws)

end OH.Proofs.Sent
