import OH.Proofs.SentYear
/-
C05, wide-range selectors of SENTENCES, part 2: the week selector
  week_selector = { separator_for_readability? ~ "week" ~ space? ~ week ~ ("," ~ week)* }
against `WeekSel.render`: `week 1`, `week1`, `week 01-10/02,20`: one-digit week numbers (third
alternative of `weeknum`), the optional space, steps with leading zeros.
Also here: `Small` numbers (week and day numbers) in general.
-/
namespace OH.Proofs.Sent.Wide
open OH.Model OH.Model.Peg OH.Model.Parser OH.Generated.Grammar OH.Proofs.Syn OH.Proofs.Syn.Wide
open OH.Spec.Sent (Num Small WeekR WeekSel commaList)

/-! ### `Small`: a one- or two-digit number -/

/-- either the short form (one digit) or the two-digit form of the model's `{:02}` -/
theorem small_render_cases (w : Small) (h : w.val < 100) :
    (w.val < 10 ∧ w.render = [dc w.val]) ∨ w.render = Print.pad2 w.val := by
  unfold Small.render
  by_cases hs : (w.short && decide (w.val < 10)) = true
  · simp only [Bool.and_eq_true, decide_eq_true_eq] at hs
    left
    refine ⟨hs.2, ?_⟩
    simp only [hs.1, hs.2, decide_true, Bool.and_self, if_true, digit_eq w.val hs.2]
  · right
    simp only [hs, Bool.false_eq_true, if_false]
    exact pad2_eq w.val h

theorem natOfDigits_small (w : Small) (h : w.val < 100) : natOfDigits w.render = some w.val := by
  rcases small_render_cases w h with ⟨h10, e⟩ | e
  · rw [e]; simp [natOfDigits, natOfDigitsAux, dc_val w.val h10]
  · rw [e]; exact natOfDigits_pad2 w.val h

/-- a `Small` starts with a digit -/
theorem small_head (w : Small) (h : w.val < 100) :
    ∃ c r, w.render = c :: r ∧ '0' ≤ c ∧ c ≤ '9' := by
  rcases small_render_cases w h with ⟨h10, e⟩ | e
  · exact ⟨_, _, e, dc_digit w.val h10⟩
  · rw [e, pad2_lt100 w.val h]
    exact ⟨_, _, rfl, dc_digit (w.val / 10) (by omega)⟩

/-- every character of a `Small` is a digit -/
theorem small_digits (w : Small) (h : w.val < 100) : ∀ c ∈ w.render, '0' ≤ c ∧ c ≤ '9' := by
  rcases small_render_cases w h with ⟨h10, e⟩ | e
  · rw [e]; intro c hc; simp at hc; subst hc; exact dc_digit w.val h10
  · rw [e, pad2_lt100 w.val h]
    intro c hc
    simp at hc
    rcases hc with hc | hc <;> subst hc
    · exact dc_digit _ (by omega)
    · exact dc_digit _ (by omega)

/-- a digit range fails where no digit follows -/
theorem range_none_of_NoDigit (q : Bool) (rest : List Char) (hnd : NoDigit rest) (lo hi : Char)
    (hlo : '0' ≤ lo) (hhi : hi ≤ '9') : run (.range lo hi : G) q rest = none := by
  cases rest with
  | nil => rfl
  | cons c r =>
    have := hnd c r rfl
    have : ¬ (lo ≤ c ∧ c ≤ hi) := fun ⟨a, b⟩ => this ⟨Char.le_trans hlo a, Char.le_trans b hhi⟩
    simp [peg, this]

/-! ### `weeknum = @{ '1'..'4' ~ DIGIT | "5" ~ '0'..'3' | "0"? ~ '1'..'9' }` -/

def wnTree (w : Small) : T := .node .weeknum w.render []

@[simp] theorem wnTree_rule (w : Small) : (wnTree w).rule = .weeknum := rfl

theorem dc_ne5 : ∀ d, d < 10 → d ≠ 5 → '5' ≠ dc d := by decide
theorem dc_not14 : ∀ d, d < 10 → 5 ≤ d → ¬ dc d ≤ '4' := by decide

/-- a one-digit week number `1`..`9` not followed by a digit: the third alternative -/
theorem run_weeknum_short (q : Bool) (n : Nat) (h : 1 ≤ n ∧ n ≤ 9) (rest : List Char)
    (hnd : NoDigit rest) :
    run g_weeknum q (dc n :: rest) =
      some (if q then ⟨[], [dc n], rest⟩ else ⟨[.node .weeknum [dc n] []], [dc n], rest⟩) := by
  have h09 := range_none_of_NoDigit true rest hnd '0' '9' (by decide) (by decide)
  have h03 := range_none_of_NoDigit true rest hnd '0' '3' (by decide) (by decide)
  have n0 := dc_ne0 n (by omega) h.1
  have h19 := dc_19 n (by omega) h.1
  have d5 : dc 5 = '5' := by decide
  by_cases h5 : n = 5
  · subst h5
    simp [g_weeknum, peg, d5, h03]
    cases q <;> simp
  · have n5 := dc_ne5 n (by omega) h5
    by_cases h4 : n < 5
    · have h14 := dc_14 n h4 h.1
      simp [g_weeknum, peg, h14, h09, n5, n0, h19]
      cases q <;> simp
    · have hn14 := dc_not14 n (by omega) (by omega)
      simp [g_weeknum, peg, hn14, n5, n0, h19]
      cases q <;> simp

theorem run_wn (q : Bool) (w : Small) (hw : 1 ≤ w.val ∧ w.val ≤ 53) (rest : List Char)
    (hnd : NoDigit rest) :
    run g_weeknum q (w.render ++ rest) =
      some (if q then ⟨[], w.render, rest⟩ else ⟨[wnTree w], w.render, rest⟩) := by
  unfold wnTree
  rcases small_render_cases w (by omega) with ⟨h10, e⟩ | e
  · rw [e]
    exact run_weeknum_short q w.val ⟨hw.1, by omega⟩ rest hnd
  · rw [e]
    exact run_weeknum q w.val hw rest

theorem build_wn (w : Small) (h : w.val < 100) : buildWeeknum (wnTree w) = .ok w.val := by
  have : w.val < u8Bound := by unfold u8Bound; omega
  simp [buildWeeknum, wnTree, assertRule, parseBounded, natOfDigits_small w h, this, bind, Except.bind]

/-! ### `week = { weeknum ~ ("-" ~ weeknum ~ ("/" ~ positive_number)?)? }` -/

def wkTree : WeekR → T
  | .single a => .node .week (WeekR.render (.single a)) [wnTree a]
  | .range a b => .node .week (WeekR.render (.range a b)) [wnTree a, wnTree b]
  | .step a b s => .node .week (WeekR.render (.step a b s)) [wnTree a, wnTree b, numTree s]

/-- what may follow ONE written week range: no `-`, no `/`, no digit -/
def FeWk (rest : List Char) : Prop :=
  (∀ r, rest ≠ '-' :: r) ∧ (∀ r, rest ≠ '/' :: r) ∧ NoDigit rest

theorem FeWk_comma (r : List Char) : FeWk (',' :: r) :=
  ⟨fun _ h => (by cases h), fun _ h => (by cases h), by intro c r' e; cases e; decide⟩

theorem smallWf_iff (hi : Nat) (w : Small) : w.wf hi = true ↔ 1 ≤ w.val ∧ w.val ≤ hi := by
  simp [OH.Spec.Sent.Small.wf]

theorem NoDigit_cons (c : Char) (r : List Char) (h : ¬ ('0' ≤ c ∧ c ≤ '9')) : NoDigit (c :: r) := by
  intro c' r' e; cases e; exact h

theorem run_wk (w : WeekR) (hw : w.wf = true) (rest : List Char) (hf : FeWk rest) :
    run g_week false (w.render ++ rest) = some ⟨[wkTree w], w.render, rest⟩ := by
  obtain ⟨hm, hsl, hnd⟩ := hf
  cases w with
  | single a =>
    have ha := (smallWf_iff 53 a).mp hw
    have h2 := str1_none false '-' rest hm
    simp only [WeekR.render, wkTree]
    simp [g_week, peg, run_wn false a ha rest hnd, h2]
  | range a b =>
    simp only [WeekR.wf, Bool.and_eq_true, smallWf_iff] at hw
    have h2 := str1_none false '/' rest hsl
    have ha := run_wn false a hw.1 ('-' :: (b.render ++ rest)) (NoDigit_cons _ _ (by decide))
    simp only [WeekR.render, wkTree, List.append_assoc, List.cons_append, List.nil_append]
    simp [g_week, peg, ha, run_wn false b hw.2 rest hnd, h2]
  | step a b s =>
    simp only [WeekR.wf, Bool.and_eq_true, smallWf_iff, OH.Spec.Sent.Num.wf, decide_eq_true_eq] at hw
    have hpn := run_positive_number_num false s (by omega) rest hnd
    have ha := run_wn false a hw.1.1 ('-' :: (b.render ++ ('/' :: (s.render ++ rest))))
      (NoDigit_cons _ _ (by decide))
    have hb := run_wn false b hw.1.2 ('/' :: (s.render ++ rest)) (NoDigit_cons _ _ (by decide))
    simp only [WeekR.render, wkTree, List.append_assoc, List.cons_append, List.nil_append]
    simp [g_week, peg, ha, hb, hpn, numTree]

theorem build_wk (w : WeekR) (hw : w.wf = true) : buildWeek (wkTree w) = .ok w.denote := by
  have hb1 : ¬ u8Bound ≤ 1 := by unfold u8Bound; omega
  cases w with
  | single a =>
    have ha := (smallWf_iff 53 a).mp hw
    simp [buildWeek, wkTree, assertRule, build_wn a (by omega), hb1, WeekR.denote, bind, Except.bind]
  | range a b =>
    simp only [WeekR.wf, Bool.and_eq_true, smallWf_iff] at hw
    simp [buildWeek, wkTree, assertRule, build_wn a (by omega), build_wn b (by omega), hb1,
      WeekR.denote, bind, Except.bind]
  | step a b s =>
    simp only [WeekR.wf, Bool.and_eq_true, smallWf_iff, OH.Spec.Sent.Num.wf, decide_eq_true_eq] at hw
    have hb : ¬ u8Bound ≤ s.val := by unfold u8Bound; omega
    have hpn := build_positive_number_num s (by unfold u64Bound; omega)
    simp [buildWeek, wkTree, numTree, assertRule, build_wn a (by omega), build_wn b (by omega), hpn,
      hb, WeekR.denote, bind, Except.bind]

theorem parses_wk (w : WeekR) (hw : w.wf = true) (rest : List Char) (hf : FeWk rest) :
    ParsesTo g_week buildWeek w.render rest w.denote :=
  ⟨wkTree w, run_wk w hw rest hf, build_wk w hw⟩

/-- a written week range starts with a digit -/
theorem wk_head (w : WeekR) (hw : w.wf = true) :
    ∃ c r, w.render = c :: r ∧ '0' ≤ c ∧ c ≤ '9' := by
  cases w with
  | single a =>
    have ha := (smallWf_iff 53 a).mp hw
    exact small_head a (by omega)
  | range a b =>
    simp only [WeekR.wf, Bool.and_eq_true, smallWf_iff] at hw
    obtain ⟨c, r, e, hc⟩ := small_head a (by omega)
    exact ⟨c, _, by simp only [WeekR.render, e]; rfl, hc⟩
  | step a b s =>
    simp only [WeekR.wf, Bool.and_eq_true, smallWf_iff] at hw
    obtain ⟨c, r, e, hc⟩ := small_head a (by omega)
    exact ⟨c, _, by simp only [WeekR.render, e]; rfl, hc⟩

theorem weeks_head (ws : List WeekR) (hne : ws ≠ []) (h : ws.all WeekR.wf = true) :
    ∃ c r, commaList WeekR.render ws = c :: r ∧ '0' ≤ c ∧ c ≤ '9' := by
  cases ws with
  | nil => exact absurd rfl hne
  | cons w l =>
    obtain ⟨c, r, e, hc⟩ := wk_head w (all_wf_mem h w (by simp))
    obtain ⟨t, et, _⟩ := commaList_head WeekR.render w l
    exact ⟨c, r ++ t, by rw [et, e]; rfl, hc⟩

/-- `week ~ ("," ~ week)*` on the written list -/
theorem parses_weeks (ws : List WeekR) (hne : ws ≠ []) (h : ws.all WeekR.wf = true)
    (rest : List Char) (hf : FollowWeek rest) :
    ∃ ts, run (.seq g_week (.star (.seq (.str [',']) g_week))) false (commaList WeekR.render ws ++ rest)
        = some ⟨ts, commaList WeekR.render ws, rest⟩ ∧ ts.mapM buildWeek = .ok (ws.map WeekR.denote) :=
  parses_list g_week buildWeek WeekR.render WeekR.denote (fun w => w.wf = true) (fun _ r => FeWk r)
    parses_wk (fun _ r => FeWk_comma r) ws hne (all_wf_mem h) rest ⟨hf.1, hf.2.1, hf.2.2.1⟩
    (week_stop rest hf)

end OH.Proofs.Sent.Wide

namespace OH.Proofs.Sent
open OH.Model OH.Model.Peg OH.Model.Parser OH.Generated.Grammar OH.Proofs.Syn OH.Proofs.Syn.Wide
open OH.Proofs.Sent.Wide
open OH.Spec.Sent (Num Small WeekR WeekSel commaList)

/-! ### the week selector -/

theorem weeksel_render_eq (w : WeekSel) :
    w.render = 'w' :: 'e' :: 'e' :: 'k' :: (OH.Spec.Sent.sp w.space ++ commaList WeekR.render w.weeks) := rfl

/-- a week selector starts with `week` -/
theorem weeksel_head (w : WeekSel) : ∃ r, w.render = 'w' :: 'e' :: 'e' :: 'k' :: r :=
  ⟨_, weeksel_render_eq w⟩

theorem weekselWf_iff (w : WeekSel) : w.wf = true ↔ w.weeks ≠ [] ∧ w.weeks.all WeekR.wf = true := by
  cases hw : w.weeks <;> simp [OH.Spec.Sent.WeekSel.wf, hw]

/-- `space? ~ week ~ ("," ~ week)*` on the text after `week` -/
theorem run_weeksel_body (w : WeekSel) (h : w.wf = true) (rest : List Char) (hf : FollowWeek rest) :
    ∃ ts, run (.seq (.opt g_space) (.seq g_week (.star (.seq (.str [',']) g_week)))) false
        ((OH.Spec.Sent.sp w.space ++ commaList WeekR.render w.weeks) ++ rest)
        = some ⟨ts, OH.Spec.Sent.sp w.space ++ commaList WeekR.render w.weeks, rest⟩ ∧
      ts.mapM buildWeek = .ok w.denote := by
  obtain ⟨hne, hall⟩ := (weekselWf_iff w).mp h
  obtain ⟨ts, hrun, hb⟩ := parses_weeks w.weeks hne hall rest hf
  refine ⟨ts, ?_, hb⟩
  cases hs : w.space with
  | true =>
    have hsp : run (.opt g_space) false (' ' :: (commaList WeekR.render w.weeks ++ rest))
        = some ⟨[], [' '], commaList WeekR.render w.weeks ++ rest⟩ := by
      simp [g_space, peg]
    simp only [OH.Spec.Sent.sp, if_true, List.cons_append, List.nil_append]
    simp only [run_seq, hsp, hrun] at hrun ⊢
    simp [R.append]
  | false =>
    obtain ⟨c, r, e, hc⟩ := weeks_head w.weeks hne hall
    have hne' : ' ' ≠ c := by intro h; subst h; exact absurd hc.1 (by decide)
    have hsp : run (.opt g_space) false (commaList WeekR.render w.weeks ++ rest)
        = some ⟨[], [], commaList WeekR.render w.weeks ++ rest⟩ := by
      rw [e]; simp [g_space, peg, hne']
    simp only [OH.Spec.Sent.sp, Bool.false_eq_true, if_false, List.nil_append]
    simp only [run_seq, hsp, hrun] at hrun ⊢
    simp [R.append]

theorem build_weeksel (s : List Char) (ts : List T) : buildWeekSelector (.node .week_selector s ts)
    = ts.mapM buildWeek := by
  simp [buildWeekSelector, assertRule, bind, Except.bind]

/-- ` week 1-10/2,20` after a year or month-day selector -/
theorem parses_weeksel (w : WeekSel) (h : w.wf = true) (rest : List Char) (hf : FollowWeek rest) :
    ParsesTo g_week_selector buildWeekSelector (' ' :: w.render) rest w.denote := by
  obtain ⟨ts, hrun, hb⟩ := run_weeksel_body w h rest hf
  refine ParsesTo.mk' .week_selector ts ?_ (by rw [build_weeksel, hb])
  rw [weeksel_render_eq]
  simp only [List.cons_append]
  simp only [g_week_selector, g_separator_for_readability, run_rule, run_seq, run_opt, run_alt, run_str,
    Bool.or_self, stripPrefix_cons_cons, stripPrefix_nil, if_true, Option.map_some, hrun]
  simp [R.append]

/-- `week1` at the very start of a rule (no year, no month-day selector) -/
theorem parses_weeksel_start (w : WeekSel) (h : w.wf = true) (rest : List Char) (hf : FollowWeek rest) :
    ParsesTo g_week_selector buildWeekSelector w.render rest w.denote := by
  obtain ⟨ts, hrun, hb⟩ := run_weeksel_body w h rest hf
  refine ParsesTo.mk' .week_selector ts ?_ (by rw [build_weeksel, hb])
  rw [weeksel_render_eq]
  simp only [List.cons_append]
  have hsep : ∀ X, run (.opt g_separator_for_readability) false ('w' :: X) = some (R.nil ('w' :: X)) := by
    intro X; simp [g_separator_for_readability, peg]
  simp only [g_week_selector, run_rule, run_seq, Bool.or_self, hsep, R.nil, run_str,
    stripPrefix_cons_cons, stripPrefix_nil, if_true, Option.map_some, hrun]
  simp [R.append]

/-! ### failures in front of a week selector -/

/-- `monthday_selector` fails on `week…` (and on ` week…`) -/
theorem run_monthday_selector_none_head (inp : List Char) (h : ∀ c r, inp = c :: r → ¬ MdStartChar c) :
    run g_monthday_selector false inp = none := by
  simp [g_monthday_selector, peg, run_md_none_head inp h]

theorem not_MdStartChar_w : ¬ MdStartChar 'w' := by
  simp [MdStartChar, MonthLetter]

theorem not_MdStartChar_space : ¬ MdStartChar ' ' := by
  simp [MdStartChar, MonthLetter]

theorem run_monthday_selector_none_week (w : WeekSel) (rest : List Char) :
    run g_monthday_selector false (w.render ++ rest) = none := by
  rw [weeksel_render_eq]
  exact run_monthday_selector_none_head _ (by intro c r e; cases e; exact not_MdStartChar_w)

theorem run_year_selector_none_week (w : WeekSel) (rest : List Char) :
    run g_year_selector false (w.render ++ rest) = none := by
  rw [weeksel_render_eq]
  exact run_year_selector_none _ (by intro c r e; cases e; decide)

theorem run_always_open_none_week (w : WeekSel) (rest : List Char) :
    run g_always_open false (w.render ++ rest) = none := by
  rw [weeksel_render_eq]
  exact run_always_open_none_head 'w' _ (by decide)

/-- a week selector (after its space) may follow a year selector, also one that ends with a step -/
theorem FollowYear_weeksel (X : List Char) : FollowYear (' ' :: X) := FollowYear_space X

theorem NoDigit_weeksel (X : List Char) : NoDigit (' ' :: X) := NoDigit_space X

/-! ### the follow contexts of a week selector -/

theorem FollowWeek_nil : FollowWeek [] :=
  ⟨fun _ h => (by cases h), fun _ h => (by cases h), NoDigit_nil, fun _ _ h => (by cases h)⟩

/-- a head that is neither `-`, `/`, `,` nor a digit: a space, `:`, `;`, `|` -/
theorem FollowWeek_of_head (c : Char) (r : List Char) (hc : c ≠ '-' ∧ c ≠ '/' ∧ c ≠ ',')
    (hd : ¬ ('0' ≤ c ∧ c ≤ '9')) : FollowWeek (c :: r) := by
  refine ⟨?_, ?_, NoDigit_cons c r hd, ?_⟩
  · intro _ h; cases h; exact absurd rfl hc.1
  · intro _ h; cases h; exact absurd rfl hc.2.1
  · intro _ _ h; cases h; exact absurd rfl hc.2.2

theorem FollowWeek_space (r : List Char) : FollowWeek (' ' :: r) :=
  FollowWeek_of_head ' ' r (by decide) (by decide)

theorem FollowWeek_colon (r : List Char) : FollowWeek (':' :: r) :=
  FollowWeek_of_head ':' r (by decide) (by decide)

/-- the additional-rule separator `, ` -/
theorem FollowWeek_comma_space (r : List Char) : FollowWeek (',' :: ' ' :: r) :=
  ⟨fun _ h => (by cases h), fun _ h => (by cases h), NoDigit_cons ',' _ (by decide),
    by intro c r' e; cases e; decide⟩

end OH.Proofs.Sent
