import OH.Proofs.HintDatedTotal
/-
Layer B — dated ranges (`MonthdayRange.date`), part S: soundness of the hint.

S1: not a single fixed day and the start carries a year (`single_interval_from_bounds` answers):
    unconditional.  Single fixed day with a year (one-element year list): unconditional.
S2: yearless single-day path (`Feb 29`, `Jan 01 +Su-Jan 01 +3 days` …): sound under `SDLocal` (the shifted
    bounds of the occurrence of year `k` stay within about a year of year `k`) or `SDEmpty` (every
    occurrence is empty); decidable sufficient condition `singleDaySafe`.
-/
namespace OH.Model
open OH.Model.Cal

/-! ### from the pure functions to `HintOK` -/

theorem MonthdayRange.date_hintOK_of_V (s : DateSpec) (so : DateOffset) (e : DateSpec) (eo : DateOffset)
    (hw : (MonthdayRange.date s so e eo).wf = true) (d : Int)
    (h1 : d < datedHintV s so e eo d)
    (h2 : ∀ d', d ≤ d' → d' < datedHintV s so e eo d → d' < dateEnd → datedFilterV s so e eo d' = datedFilterV s so e eo d) :
    HintOK (MonthdayRange.date s so e eo).filter (MonthdayRange.date s so e eo).hint d := by
  refine HintOK.of_some (MonthdayRange.date_hint_eq s so e eo hw d) h1 ?_
  intro d' a b c
  rw [MonthdayRange.date_filter_eq s so e eo hw d', MonthdayRange.date_filter_eq s so e eo hw d, h2 d' a b c]

/-! ### S1: one interval -/

theorem oneInterval_sound (iv : Int × Int) (d : Int) (hd : d < dateEnd) :
    d < nextChangeFromIntervals d [iv] ∧
    ∀ d', d ≤ d' → d' < nextChangeFromIntervals d [iv] → d' < dateEnd →
      (decide (iv.1 ≤ d') && decide (d' ≤ iv.2)) = (decide (iv.1 ≤ d) && decide (d ≤ iv.2)) := by
  have hmax := maxDay_eq; have hend := Cal.dateEnd_eq
  unfold nextChangeFromIntervals
  simp only [List.find?_cons, List.find?_nil]
  by_cases h : iv.2 ≥ d
  · simp only [h, decide_true]
    by_cases h' : iv.1 ≤ d
    · rw [if_pos h']
      cases hs : succ? iv.2 with
      | none =>
        have := succ?_eq_none_iff.1 hs
        simp only [Option.getD_none]
        refine ⟨hd, ?_⟩
        intro d' a b c
        have e1 : decide (iv.1 ≤ d') = true := by simp; omega
        have e2 : decide (d' ≤ iv.2) = true := by simp; omega
        have e3 : decide (iv.1 ≤ d) = true := by simp; omega
        simp [e1, e2, e3]
      | some x =>
        have := succ?_eq_some_iff.1 hs
        simp only [Option.getD_some]
        refine ⟨by omega, ?_⟩
        intro d' a b c
        have e1 : decide (iv.1 ≤ d') = true := by simp; omega
        have e2 : decide (d' ≤ iv.2) = true := by simp; omega
        have e3 : decide (iv.1 ≤ d) = true := by simp; omega
        simp [e1, e2, e3]
    · rw [if_neg h']
      refine ⟨by omega, ?_⟩
      intro d' a b c
      have e1 : decide (iv.1 ≤ d') = false := by simp; omega
      have e3 : decide (iv.1 ≤ d) = false := by simp; omega
      rw [e1, e3]; rfl
  · have : decide (iv.2 ≥ d) = false := by simp; omega
    simp only [this]
    refine ⟨hd, ?_⟩
    intro d' a b c
    have e2 : decide (d' ≤ iv.2) = false := by simp; omega
    simp [e2]

/-- **S1**: when the range is not a single fixed day and `single_interval_from_bounds` yields an
interval (the start carries a year) the hint is sound at every day before `dateEnd`, whatever the
offsets. -/
theorem MonthdayRange.date_hintOK_single (s : DateSpec) (so : DateOffset) (e : DateSpec) (eo : DateOffset)
    (hw : (MonthdayRange.date s so e eo).wf = true) (hsd : singleDayOf s e = none) (iv : Int × Int)
    (hiv : singleInterval s so e eo = .ok (some iv)) (d : Int) (hd : d < dateEnd) :
    HintOK (MonthdayRange.date s so e eo).filter (MonthdayRange.date s so e eo).hint d := by
  rw [singleInterval_eq s so e eo hw] at hiv
  simp only [Except.ok.injEq] at hiv
  obtain ⟨a, b⟩ := oneInterval_sound iv d hd
  apply MonthdayRange.date_hintOK_of_V s so e eo hw d
  · unfold datedHintV; rw [hsd, hiv]; exact a
  · intro d' h1 h2 h3
    unfold datedHintV at h2; rw [hsd, hiv] at h2
    unfold datedFilterV; rw [hsd, hiv]
    exact b d' h1 h2 h3

theorem sdRes_one (A B d : Int) :
    sdRes d (if B ≥ d then some (A, B) else none) = (decide (A ≤ d) && decide (d ≤ B)) := by
  by_cases h : B ≥ d
  · rw [if_pos h]; rfl
  · rw [if_neg h]
    have : decide (d ≤ B) = false := by simp; omega
    rw [this, Bool.and_false]; rfl

theorem sdNext_one (A B d : Int) :
    sdNext d (if B ≥ d then some (A, B) else none) = nextChangeFromIntervals d [(A, B)] := by
  unfold nextChangeFromIntervals
  simp only [List.find?_cons, List.find?_nil]
  by_cases h : B ≥ d
  · rw [if_pos h]
    have : decide (B ≥ d) = true := by simpa using h
    rw [this]; rfl
  · rw [if_neg h]
    have : decide (B ≥ d) = false := by simpa using h
    rw [this]; rfl

/-- **single day with a year** (`2024 Feb 29`, `2027 Sep 31 +Tu`): filter and hint search the same
one-year list, whatever the day: unconditional. -/
theorem MonthdayRange.date_hintOK_singleDayYear (fy m dd : Nat) (so eo : DateOffset)
    (hw : (MonthdayRange.date (.fixed (some fy) m dd) so (.fixed (some fy) m dd) eo).wf = true)
    (d : Int) (hd : d < dateEnd) :
    HintOK (MonthdayRange.date (.fixed (some fy) m dd) so (.fixed (some fy) m dd) eo).filter
      (MonthdayRange.date (.fixed (some fy) m dd) so (.fixed (some fy) m dd) eo).hint d := by
  have hsd : singleDayOf (.fixed (some fy) m dd) (.fixed (some fy) m dd) = some (some fy, m, dd) := by
    simp [singleDayOf]
  have hf : ∀ d', datedFilterV (.fixed (some fy) m dd) so (.fixed (some fy) m dd) eo d' =
      sdRes d' (singleDayV m dd so eo d' [(fy : Int)]) := by
    intro d'; unfold datedFilterV; rw [hsd]; rfl
  have hh : datedHintV (.fixed (some fy) m dd) so (.fixed (some fy) m dd) eo d =
      sdNext d (singleDayV m dd so eo d [(fy : Int)]) := by
    unfold datedHintV; rw [hsd]; rfl
  apply MonthdayRange.date_hintOK_of_V _ _ _ _ hw d
  · rw [hh]
    simp only [singleDayV]
    cases hfy : ofYmd? (fy : Int) m dd with
    | none => exact hd
    | some f =>
      simp only []
      rw [sdNext_one]
      exact (oneInterval_sound (so.shiftC f, eo.shiftC f) d hd).1
  · intro d' h1 h2 h3
    rw [hh] at h2
    rw [hf d', hf d]
    simp only [singleDayV] at h2 ⊢
    cases hfy : ofYmd? (fy : Int) m dd with
    | none => rfl
    | some f =>
      rw [hfy] at h2
      simp only [] at h2 ⊢
      rw [sdNext_one] at h2
      rw [sdRes_one, sdRes_one]
      exact (oneInterval_sound (so.shiftC f, eo.shiftC f) d hd).2 d' h1 h2 h3

/-- under `wf` the single-interval path is taken exactly when the start carries a year -/
theorem singleIntervalV_none_iff (s : DateSpec) (so : DateOffset) (e : DateSpec) (eo : DateOffset)
    (hw : (MonthdayRange.date s so e eo).wf = true) :
    singleIntervalV s so e eo = none ↔ dateYear s = none := by
  simp only [MonthdayRange.wf, Bool.and_eq_true] at hw
  obtain ⟨⟨⟨hs, _⟩, he⟩, _⟩ := hw
  have key : ∀ (ds : DateSpec) (off : DateOffset) (after : Bool) (y : Int), ds.wf = true → dateYear ds = some y →
      boundV ds off after y ≠ none := by
    intro ds off after y hds hy
    unfold boundV dateOnYearV
    cases ds with
    | easter yr =>
      cases yr with
      | none => simp [dateYear] at hy
      | some y0 =>
        simp only [dateYear, Option.map_some, Option.some.injEq] at hy
        subst hy
        simp only [DateSpec.wf, optYearOk, yearOk, Bool.and_eq_true, decide_eq_true_eq] at hds
        obtain ⟨x, hx, _⟩ := easter_spec_window (y0 : Int) (by omega) (by omega)
        simp [dateOnYear, hx]
    | fixed yr m dd =>
      cases yr with
      | none => simp [dateYear] at hy
      | some y0 =>
        simp only [dateYear, Option.map_some, Option.some.injEq] at hy
        subst hy
        simp [dateOnYear]
  constructor
  · intro h
    cases hsy : dateYear s with
    | none => rfl
    | some sy =>
      exfalso
      unfold singleIntervalV at h
      rw [hsy] at h
      simp only [] at h
      cases hb : boundV s so true sy with
      | none => exact key s so true sy hs hsy hb
      | some st =>
        rw [hb] at h
        simp only [] at h
        cases hey : dateYear e with
        | none => rw [hey] at h; simp at h
        | some ey =>
          rw [hey] at h
          simp only [] at h
          cases hb' : boundV e eo false ey with
          | none => exact key e eo false ey he hey hb'
          | some en => rw [hb'] at h; simp at h
  · intro h
    unfold singleIntervalV; rw [h]

/-! ### consecutive years -/

/-- `[lo, lo+1, …, lo+n-1]` -/
def yearsFrom (lo : Int) : Nat → List Int
  | 0 => []
  | n + 1 => lo :: yearsFrom (lo + 1) n

theorem map_range_eq_yearsFrom (lo : Int) (n : Nat) :
    (List.range n).map (fun (i : Nat) => lo + (i : Int)) = yearsFrom lo n := by
  induction n generalizing lo with
  | zero => rfl
  | succ n ih =>
    rw [List.range_succ_eq_map, List.map_cons, List.map_map, yearsFrom, ← ih (lo + 1)]
    congr 1
    · simp
    · apply List.map_congr_left
      intro i _
      simp only [Function.comp, Nat.succ_eq_add_one]
      omega

theorem yearsAround_eq (y : Int) (b a : Nat) : yearsAround y b a = yearsFrom (y - (b : Int)) (b + a + 1) := by
  unfold yearsAround
  exact map_range_eq_yearsFrom _ _

theorem yearsAround_1_1 (y : Int) : yearsAround y 1 1 = yearsFrom (y - 1) 3 := by
  rw [yearsAround_eq]; rfl

theorem yearsAround_1_10 (y : Int) : yearsAround y 1 10 = yearsFrom (y - 1) 12 := by
  rw [yearsAround_eq]; rfl

theorem mem_yearsFrom {lo : Int} {n : Nat} {k : Int} : k ∈ yearsFrom lo n ↔ lo ≤ k ∧ k < lo + n := by
  induction n generalizing lo with
  | zero => simp [yearsFrom]
  | succ n ih =>
    simp only [yearsFrom, List.mem_cons, ih]
    omega

/-! ### S2: the single-day path -/

theorem singleDayV_none_iff (m dd : Nat) (so eo : DateOffset) (d : Int) (ys : List Int) :
    singleDayV m dd so eo d ys = none ↔ ∀ k ∈ ys, ∀ f, ofYmd? k m dd = some f → eo.shiftC f < d := by
  induction ys with
  | nil => simp [singleDayV]
  | cons y ys ih =>
    simp only [singleDayV, List.mem_cons, forall_eq_or_imp]
    cases hf : ofYmd? y m dd with
    | none => simp [ih]
    | some f =>
      simp only [Option.some.injEq, forall_eq']
      by_cases hc : eo.shiftC f ≥ d
      · simp only [hc, if_true, reduceCtorEq, false_iff]
        intro h; omega
      · simp only [hc, if_false, ih]
        constructor
        · intro h; exact ⟨by omega, h⟩
        · intro h; exact h.2

/-- what `singleDayV` finds on consecutive years: the first year whose occurrence exists and ends
at or after `d` -/
theorem singleDayV_some (m dd : Nat) (so eo : DateOffset) (d : Int) (lo : Int) (n : Nat) (r : Int × Int)
    (h : singleDayV m dd so eo d (yearsFrom lo n) = some r) :
    ∃ k f, lo ≤ k ∧ k < lo + n ∧ ofYmd? k m dd = some f ∧ d ≤ eo.shiftC f ∧ r = (so.shiftC f, eo.shiftC f) ∧
      ∀ j f', lo ≤ j → j < k → ofYmd? j m dd = some f' → eo.shiftC f' < d := by
  induction n generalizing lo with
  | zero => simp [yearsFrom, singleDayV] at h
  | succ n ih =>
    simp only [yearsFrom, singleDayV] at h
    cases hf : ofYmd? lo m dd with
    | none =>
      rw [hf] at h
      obtain ⟨k, f, a, b, c, e1, e2, e3⟩ := ih (lo + 1) h
      refine ⟨k, f, by omega, by omega, c, e1, e2, ?_⟩
      intro j f' j1 j2 hj
      by_cases hjl : j = lo
      · subst hjl; rw [hf] at hj; cases hj
      · exact e3 j f' (by omega) j2 hj
    | some f =>
      rw [hf] at h
      simp only [] at h
      by_cases hc : eo.shiftC f ≥ d
      · rw [if_pos hc] at h
        simp only [Option.some.injEq] at h
        refine ⟨lo, f, by omega, by omega, hf, hc, h.symm, ?_⟩
        intro j f' j1 j2; omega
      · rw [if_neg hc] at h
        obtain ⟨k, f0, a, b, c, e1, e2, e3⟩ := ih (lo + 1) h
        refine ⟨k, f0, by omega, by omega, c, e1, e2, ?_⟩
        intro j f' j1 j2 hj
        by_cases hjl : j = lo
        · subst hjl; rw [hf] at hj; cases hj; omega
        · exact e3 j f' (by omega) j2 hj

theorem singleDayV_found (m dd : Nat) (so eo : DateOffset) (d : Int) (lo : Int) (n : Nat) (k f : Int)
    (h1 : lo ≤ k) (h2 : k < lo + n) (hf : ofYmd? k m dd = some f) (hd : d ≤ eo.shiftC f)
    (hfirst : ∀ j f', lo ≤ j → j < k → ofYmd? j m dd = some f' → eo.shiftC f' < d) :
    singleDayV m dd so eo d (yearsFrom lo n) = some (so.shiftC f, eo.shiftC f) := by
  induction n generalizing lo with
  | zero => omega
  | succ n ih =>
    simp only [yearsFrom, singleDayV]
    by_cases hk : k = lo
    · subst hk
      rw [hf]
      simp only []
      rw [if_pos hd]
    · have hrec := ih (lo + 1) (by omega) (by omega) (fun j f' a b c => hfirst j f' (by omega) b c)
      cases hf' : ofYmd? lo m dd with
      | none => exact hrec
      | some f' =>
        simp only []
        have := hfirst lo f' (by omega) (by omega) hf'
        rw [if_neg (by omega)]
        exact hrec

theorem leap_within8 (y : Int) : ∃ k, y ≤ k ∧ k ≤ y + 7 ∧ isLeap k = true := by
  by_cases h0 : isLeap y = true
  · exact ⟨y, by omega, by omega, h0⟩
  by_cases h1 : isLeap (y+1) = true
  · exact ⟨y+1, by omega, by omega, h1⟩
  by_cases h2 : isLeap (y+2) = true
  · exact ⟨y+2, by omega, by omega, h2⟩
  by_cases h3 : isLeap (y+3) = true
  · exact ⟨y+3, by omega, by omega, h3⟩
  by_cases h4 : isLeap (y+4) = true
  · exact ⟨y+4, by omega, by omega, h4⟩
  by_cases h5 : isLeap (y+5) = true
  · exact ⟨y+5, by omega, by omega, h5⟩
  by_cases h6 : isLeap (y+6) = true
  · exact ⟨y+6, by omega, by omega, h6⟩
  refine ⟨y+7, by omega, by omega, ?_⟩
  rw [isLeap_iff] at *
  omega

/-- a month/day that exists in no year of an 8-year stretch exists in no year at all -/
theorem ofYmd?_never (m dd : Nat) (y : Int) (h1 : minYear ≤ y) (h2 : y + 7 ≤ maxYear)
    (h : ∀ k, y ≤ k → k ≤ y + 7 → ofYmd? k m dd = none) (j : Int) : ofYmd? j m dd = none := by
  cases hj : ofYmd? j m dd with
  | none => rfl
  | some g =>
    exfalso
    obtain ⟨_, _, ⟨v1, v2, v3, v4⟩, _⟩ := ofYmd?_eq_some_iff.1 hj
    obtain ⟨k, k1, k2, k3⟩ := leap_within8 y
    have hk := h k k1 k2
    rw [ofYmd?_eq_none_iff] at hk
    apply hk
    refine ⟨by omega, by omega, v1, v2, v3, ?_⟩
    by_cases hm : m = 2
    · subst hm
      have := (daysInMonth_bounds j 2).2
      rw [daysInMonth_feb] at *
      rw [k3]
      split at v4 <;> simp <;> omega
    · rw [daysInMonth_of_ne_feb k j hm]; exact v4

theorem ymdRaw_year_mono {k j : Int} {m dd : Nat} (h : k ≤ j) (vk : ValidYmd k m dd) (vj : ValidYmd j m dd) :
    ymdRaw k m dd ≤ ymdRaw j m dd := by
  by_cases e : k = j
  · subst e; omega
  · have a := ymdRaw_bounds vk
    have b := ymdRaw_bounds vj
    have c := yearStart_succ k
    have := yearStart_le (a := k + 1) (b := j) (by omega)
    omega

theorem ofYmd?_year_mono {k j : Int} {m dd : Nat} {f g : Int} (h : k ≤ j) (hk : ofYmd? k m dd = some f)
    (hj : ofYmd? j m dd = some g) : f ≤ g := by
  obtain ⟨_, _, vk, rfl⟩ := ofYmd?_eq_some_iff.1 hk
  obtain ⟨_, _, vj, rfl⟩ := ofYmd?_eq_some_iff.1 hj
  exact ymdRaw_year_mono h vk vj

/-- every occurrence (years 1899 … 10009) is empty: shifted end before shifted start -/
def SDEmpty (m dd : Nat) (so eo : DateOffset) : Prop :=
  ∀ k f, 1899 ≤ k → k ≤ 10009 → ofYmd? k m dd = some f → eo.shiftC f < so.shiftC f

/-- locality of the occurrences (years 1899 … 10009): the occurrence of year `k` ends before Jan 1 of
year `k + 2`, starts at or after Jan 1 of `k - 1` and ends at or after Jan 1 of `k - 2` -/
structure SDLocal (m dd : Nat) (so eo : DateOffset) : Prop where
  l1 : ∀ k f, 1899 ≤ k → k ≤ 10009 → ofYmd? k m dd = some f → eo.shiftC f ≤ yearStart (k + 2)
  l2 : ∀ k f, 1899 ≤ k → k ≤ 10009 → ofYmd? k m dd = some f → yearStart (k - 1) < so.shiftC f
  l4 : ∀ k f, 1899 ≤ k → k ≤ 10009 → ofYmd? k m dd = some f → yearStart (k - 2) < eo.shiftC f

/-- the pure single-day filter and hint -/
def sdFilterV (m dd : Nat) (so eo : DateOffset) (d : Int) : Bool :=
  match singleDayV m dd so eo d (yearsAround (year d) 1 1) with
  | none => false
  | some r => r.1 ≤ d && d ≤ r.2

def sdHintV (m dd : Nat) (so eo : DateOffset) (d : Int) : Int :=
  match singleDayV m dd so eo d (yearsAround (year d) 1 10) with
  | none => dateEnd
  | some r => if r.1 ≤ d then (succ? r.2).getD dateEnd else r.1

theorem sd_sound_empty (m dd : Nat) (so eo : DateOffset) (hE : SDEmpty m dd so eo) (d : Int)
    (hd1 : dateStart ≤ d) (hd2 : d < dateEnd) :
    d < sdHintV m dd so eo d ∧ ∀ d', d ≤ d' → d' < dateEnd → sdFilterV m dd so eo d' = false := by
  constructor
  · obtain ⟨y1, y2⟩ := year_window hd1 hd2
    unfold sdHintV
    rw [yearsAround_1_10]
    cases hs : singleDayV m dd so eo d (yearsFrom (year d - 1) 12) with
    | none => exact hd2
    | some r =>
      obtain ⟨k, f, k1, k2, hf, hb, rfl, _⟩ := singleDayV_some _ _ _ _ _ _ _ _ hs
      have := hE k f (by omega) (by omega) hf
      simp only []
      rw [if_neg (by omega)]; omega
  · intro d' h1 h2
    obtain ⟨y1, y2⟩ := year_window (by omega) h2
    unfold sdFilterV
    rw [yearsAround_1_1]
    cases hs : singleDayV m dd so eo d' (yearsFrom (year d' - 1) 3) with
    | none => rfl
    | some r =>
      obtain ⟨k, f, k1, k2, hf, hb, rfl, _⟩ := singleDayV_some _ _ _ _ _ _ _ _ hs
      have := hE k f (by omega) (by omega) hf
      simp only [Bool.and_eq_false_iff, decide_eq_false_iff_not]
      omega

theorem sd_sound_local (m dd : Nat) (so eo : DateOffset) (hso : so.wf = true) (hL : SDLocal m dd so eo) (d : Int)
    (hd1 : dateStart ≤ d) (hd2 : d < dateEnd) :
    d < sdHintV m dd so eo d ∧
      ∀ d', d ≤ d' → d' < sdHintV m dd so eo d → d' < dateEnd → sdFilterV m dd so eo d' = sdFilterV m dd so eo d := by
  have hmax := maxDay_eq; have hend := Cal.dateEnd_eq
  obtain ⟨y1, y2⟩ := year_window hd1 hd2
  obtain ⟨ys1, ys2⟩ := year_spec d
  have hmin : minYear = -262143 := rfl
  have hmaxy : maxYear = 262142 := rfl
  -- occurrences of years before the hint's window end before `d`
  have hpre : ∀ j f', 1899 ≤ j → j < year d - 1 → ofYmd? j m dd = some f' → eo.shiftC f' < d := by
    intro j f' j1 j2 hj
    have := hL.l1 j f' j1 (by omega) hj
    have := yearStart_le (a := j + 2) (b := year d) (by omega)
    omega
  -- the filter at a later day `d'` in terms of the window of `d'`
  unfold sdHintV
  rw [yearsAround_1_10]
  cases hs : singleDayV m dd so eo d (yearsFrom (year d - 1) 12) with
  | none =>
    -- nothing found: the date exists in no year
    simp only []
    rw [singleDayV_none_iff] at hs
    have hnone : ∀ k, year d + 3 ≤ k → k ≤ year d + 3 + 7 → ofYmd? k m dd = none := by
      intro k k1 k2
      cases hk : ofYmd? k m dd with
      | none => rfl
      | some f =>
        exfalso
        have a := hs k (mem_yearsFrom.2 ⟨by omega, by omega⟩) f hk
        have b := hL.l4 k f (by omega) (by omega) hk
        have := yearStart_le (a := year d + 1) (b := k - 2) (by omega)
        omega
    have hnever := ofYmd?_never m dd (year d + 3) (by omega) (by omega) hnone
    have hfalse : ∀ d', sdFilterV m dd so eo d' = false := by
      intro d'
      unfold sdFilterV
      have : singleDayV m dd so eo d' (yearsAround (year d') 1 1) = none := by
        rw [singleDayV_none_iff]
        intro k _ f hk
        rw [hnever k] at hk; cases hk
      rw [this]
    refine ⟨hd2, ?_⟩
    intro d' _ _ _
    rw [hfalse d', hfalse d]
  | some r =>
    obtain ⟨k, f, k1, k2, hf, hb, rfl, hfirst⟩ := singleDayV_some _ _ _ _ _ _ _ _ hs
    have hl1 := hL.l1 k f (by omega) (by omega) hf
    have hl2 := hL.l2 k f (by omega) (by omega) hf
    -- all earlier occurrences end before `d`
    have hbefore : ∀ j f', 1899 ≤ j → j < k → ofYmd? j m dd = some f' → eo.shiftC f' < d := by
      intro j f' j1 j2 hj
      by_cases hjw : year d - 1 ≤ j
      · exact hfirst j f' hjw j2 hj
      · exact hpre j f' j1 (by omega) hj
    simp only []
    have hle : yearStart (k + 2) ≤ yearStart 10011 := yearStart_le (by omega)
    have h10011 : yearStart 10011 = 3656077 := by decide
    by_cases ha : so.shiftC f ≤ d
    · -- inside the occurrence: the hint is the day after its end
      rw [if_pos ha]
      have hsucc : succ? (eo.shiftC f) = some (eo.shiftC f + 1) := by rw [succ?_eq_some_iff]; omega
      rw [hsucc, Option.getD_some]
      refine ⟨by omega, ?_⟩
      have hin : ∀ d', d ≤ d' → d' < eo.shiftC f + 1 → d' < dateEnd → sdFilterV m dd so eo d' = true := by
        intro d' a b c
        obtain ⟨z1, z2⟩ := year_window (by omega) c
        obtain ⟨zs1, zs2⟩ := year_spec d'
        have g1 : year d' ≤ k + 1 := by
          have : d' ≤ yearStart (k + 1 + 1) := by rw [show k + 1 + 1 = k + 2 by omega]; omega
          have := le_yearStart_iff.1 this
          omega
        have g2 : k - 1 ≤ year d' := by
          have : yearStart (k - 1) < d' := by omega
          exact yearStart_lt_iff_le_year.1 this
        unfold sdFilterV
        rw [yearsAround_1_1]
        rw [singleDayV_found m dd so eo d' (year d' - 1) 3 k f (by omega) (by omega) hf (by omega)
          (fun j f' j1 j2 hj => by have := hbefore j f' (by omega) j2 hj; omega)]
        simp only [Bool.and_eq_true, decide_eq_true_eq]
        omega
      intro d' a b c
      rw [hin d' a b c, hin d (Int.le_refl _) (by omega) hd2]
    · -- before the occurrence: the hint is its start
      rw [if_neg ha]
      refine ⟨by omega, ?_⟩
      have hout : ∀ d', d ≤ d' → d' < so.shiftC f → d' < dateEnd → sdFilterV m dd so eo d' = false := by
        intro d' a b c
        obtain ⟨z1, z2⟩ := year_window (by omega) c
        unfold sdFilterV
        rw [yearsAround_1_1]
        cases hs' : singleDayV m dd so eo d' (yearsFrom (year d' - 1) 3) with
        | none => rfl
        | some r' =>
          obtain ⟨j, g, j1, j2, hg, hb', rfl, _⟩ := singleDayV_some _ _ _ _ _ _ _ _ hs'
          have hkj : k ≤ j := by
            by_cases hh : k ≤ j
            · exact hh
            · have := hbefore j g (by omega) (by omega) hg
              omega
          have := so.shiftC_mono hso (ofYmd?_year_mono hkj hf hg)
          simp only [Bool.and_eq_false_iff, decide_eq_false_iff_not]
          omega
      intro d' a b c
      rw [hout d' a b c, hout d (Int.le_refl _) (by omega) hd2]

/-- **S2** (abstract form): the single-day path is sound under `SDLocal` or `SDEmpty`. -/
theorem MonthdayRange.date_hintOK_singleDay (m dd : Nat) (so eo : DateOffset)
    (hw : (MonthdayRange.date (.fixed none m dd) so (.fixed none m dd) eo).wf = true)
    (hside : SDLocal m dd so eo ∨ SDEmpty m dd so eo) (d : Int) (hd1 : dateStart ≤ d) (hd2 : d < dateEnd) :
    HintOK (MonthdayRange.date (.fixed none m dd) so (.fixed none m dd) eo).filter
      (MonthdayRange.date (.fixed none m dd) so (.fixed none m dd) eo).hint d := by
  have hwf := hw
  simp only [MonthdayRange.wf, Bool.and_eq_true] at hw
  obtain ⟨⟨⟨_, hso⟩, _⟩, _⟩ := hw
  have hf : ∀ d', datedFilterV (.fixed none m dd) so (.fixed none m dd) eo d' = sdFilterV m dd so eo d' := by
    intro d'
    simp only [datedFilterV, singleDayOf, sdYears, sdFilterV, if_true]
    cases singleDayV m dd so eo d' (yearsAround (year d') 1 1) <;> rfl
  have hh : datedHintV (.fixed none m dd) so (.fixed none m dd) eo d = sdHintV m dd so eo d := by
    simp only [datedHintV, singleDayOf, sdYears, sdHintV, if_true]
    cases singleDayV m dd so eo d (yearsAround (year d) 1 10) <;> rfl
  apply MonthdayRange.date_hintOK_of_V _ _ _ _ hwf d
  · rw [hh]
    rcases hside with hL | hE
    · exact (sd_sound_local m dd so eo hso hL d hd1 hd2).1
    · exact (sd_sound_empty m dd so eo hE d hd1 hd2).1
  · intro d' a b c
    rw [hh] at b
    rw [hf d', hf d]
    rcases hside with hL | hE
    · exact (sd_sound_local m dd so eo hso hL d hd1 hd2).2 d' a b c
    · rw [(sd_sound_empty m dd so eo hE d hd1 hd2).2 d' a c,
        (sd_sound_empty m dd so eo hE d hd1 hd2).2 d (Int.le_refl _) hd2]

end OH.Model
