import OH.Proofs.HintDatedTotal
import OH.Proofs.EvalSpecDatedBase
/-
Layer B — dated ranges (`MonthdayRange.date`), part S: soundness of the hint.

S1: not a single fixed day and the start carries a year (`single_interval_from_bounds` answers):
    unconditional.  Single fixed day with a year (one-element year list): unconditional.
S2 (yearless single day) and S3 (windowed general path): OH/Proofs/HintDatedWindow.lean — any offsets
    within ±92 000 000 days (HintDatedWide.lean; ±300 000 days when a bound is Easter, HintDatedWindow.lean),
    through the refinement `filter = datedOk`.
-/
namespace OH.Model
open OH.Model.Cal

/-! ### from the pure functions to `HintOK` -/

theorem MonthdayRange.date_hintOK_of_V (s : DateSpec) (so : DateOffset) (e : DateSpec) (eo : DateOffset)
    (hw : (MonthdayRange.date s so e eo).wf = true) (d : Int)
    (h1 : d < datedHintV s so e eo d)
    (h2 : ∀ d', d ≤ d' → d' < datedHintV s so e eo d → d' < dateEnd → datedFilterV s so e eo d' = datedFilterV s so e eo d) :
    HintOK (MonthdayRange.date s so e eo).filter (MonthdayRange.date s so e eo).hint d := by
  refine HintOK.of_some (MonthdayRange.date_hint_eq s so e eo hw d) h1 ?_
  intro d' a b c
  rw [MonthdayRange.date_filter_eq s so e eo hw d', MonthdayRange.date_filter_eq s so e eo hw d, h2 d' a b c]

/-! ### S1: one interval -/

theorem oneInterval_sound (iv : Int × Int) (d : Int) (hd : d < dateEnd) :
    d < nextChangeFromIntervals d [iv] ∧
    ∀ d', d ≤ d' → d' < nextChangeFromIntervals d [iv] → d' < dateEnd →
      (decide (iv.1 ≤ d') && decide (d' ≤ iv.2)) = (decide (iv.1 ≤ d) && decide (d ≤ iv.2)) := by
  have hmax := maxDay_eq; have hend := Cal.dateEnd_eq
  unfold nextChangeFromIntervals
  simp only [List.find?_cons, List.find?_nil]
  by_cases h : iv.2 ≥ d
  · simp only [h, decide_true]
    by_cases h' : iv.1 ≤ d
    · rw [if_pos h']
      cases hs : succ? iv.2 with
      | none =>
        have := succ?_eq_none_iff.1 hs
        simp only [Option.getD_none]
        refine ⟨hd, ?_⟩
        intro d' a b c
        have e1 : decide (iv.1 ≤ d') = true := by simp; omega
        have e2 : decide (d' ≤ iv.2) = true := by simp; omega
        have e3 : decide (iv.1 ≤ d) = true := by simp; omega
        simp [e1, e2, e3]
      | some x =>
        have := succ?_eq_some_iff.1 hs
        simp only [Option.getD_some]
        refine ⟨by omega, ?_⟩
        intro d' a b c
        have e1 : decide (iv.1 ≤ d') = true := by simp; omega
        have e2 : decide (d' ≤ iv.2) = true := by simp; omega
        have e3 : decide (iv.1 ≤ d) = true := by simp; omega
        simp [e1, e2, e3]
    · rw [if_neg h']
      refine ⟨by omega, ?_⟩
      intro d' a b c
      have e1 : decide (iv.1 ≤ d') = false := by simp; omega
      have e3 : decide (iv.1 ≤ d) = false := by simp; omega
      rw [e1, e3]; rfl
  · have : decide (iv.2 ≥ d) = false := by simp; omega
    simp only [this]
    refine ⟨hd, ?_⟩
    intro d' a b c
    have e2 : decide (d' ≤ iv.2) = false := by simp; omega
    simp [e2]

/-- **S1**: when the range is not a single fixed day and `single_interval_from_bounds` yields an
interval (the start carries a year) the hint is sound at every day before `dateEnd`, whatever the
offsets. -/
theorem MonthdayRange.date_hintOK_single (s : DateSpec) (so : DateOffset) (e : DateSpec) (eo : DateOffset)
    (hw : (MonthdayRange.date s so e eo).wf = true) (hsd : singleDayOf s e = none) (iv : Int × Int)
    (hiv : singleInterval s so e eo = .ok (some iv)) (d : Int) (hd : d < dateEnd) :
    HintOK (MonthdayRange.date s so e eo).filter (MonthdayRange.date s so e eo).hint d := by
  rw [singleInterval_eq s so e eo hw] at hiv
  simp only [Except.ok.injEq] at hiv
  obtain ⟨a, b⟩ := oneInterval_sound iv d hd
  apply MonthdayRange.date_hintOK_of_V s so e eo hw d
  · unfold datedHintV; rw [hsd, hiv]; exact a
  · intro d' h1 h2 h3
    unfold datedHintV at h2; rw [hsd, hiv] at h2
    unfold datedFilterV; rw [hsd, hiv]
    exact b d' h1 h2 h3

theorem sdRes_one (A B d : Int) :
    sdRes d (if B ≥ d then some (A, B) else none) = (decide (A ≤ d) && decide (d ≤ B)) := by
  by_cases h : B ≥ d
  · rw [if_pos h]; rfl
  · rw [if_neg h]
    have : decide (d ≤ B) = false := by simp; omega
    rw [this, Bool.and_false]; rfl

theorem sdNext_one (A B d : Int) :
    sdNext d (if B ≥ d then some (A, B) else none) = nextChangeFromIntervals d [(A, B)] := by
  unfold nextChangeFromIntervals
  simp only [List.find?_cons, List.find?_nil]
  by_cases h : B ≥ d
  · rw [if_pos h]
    have : decide (B ≥ d) = true := by simpa using h
    rw [this]; rfl
  · rw [if_neg h]
    have : decide (B ≥ d) = false := by simpa using h
    rw [this]; rfl

/-- **single day with a year** (`2024 Feb 29`, `2027 Sep 31 +Tu`): filter and hint search the same
one-year list, whatever the day: unconditional. -/
theorem MonthdayRange.date_hintOK_singleDayYear (fy m dd : Nat) (so eo : DateOffset)
    (hw : (MonthdayRange.date (.fixed (some fy) m dd) so (.fixed (some fy) m dd) eo).wf = true)
    (d : Int) (hd : d < dateEnd) :
    HintOK (MonthdayRange.date (.fixed (some fy) m dd) so (.fixed (some fy) m dd) eo).filter
      (MonthdayRange.date (.fixed (some fy) m dd) so (.fixed (some fy) m dd) eo).hint d := by
  have hsd : singleDayOf (.fixed (some fy) m dd) (.fixed (some fy) m dd) = some (some fy, m, dd) := by
    simp [singleDayOf]
  have hf : ∀ d', datedFilterV (.fixed (some fy) m dd) so (.fixed (some fy) m dd) eo d' =
      sdRes d' (singleDayV m dd so eo d' [(fy : Int)]) := by
    intro d'; unfold datedFilterV; rw [hsd]; rfl
  have hh : datedHintV (.fixed (some fy) m dd) so (.fixed (some fy) m dd) eo d =
      sdNext d (singleDayV m dd so eo d [(fy : Int)]) := by
    unfold datedHintV; rw [hsd]; rfl
  apply MonthdayRange.date_hintOK_of_V _ _ _ _ hw d
  · rw [hh]
    simp only [singleDayV]
    cases hfy : ofYmd? (fy : Int) m dd with
    | none => exact hd
    | some f =>
      simp only []
      rw [sdNext_one]
      exact (oneInterval_sound (so.shiftC f, eo.shiftC f) d hd).1
  · intro d' h1 h2 h3
    rw [hh] at h2
    rw [hf d', hf d]
    simp only [singleDayV] at h2 ⊢
    cases hfy : ofYmd? (fy : Int) m dd with
    | none => rfl
    | some f =>
      rw [hfy] at h2
      simp only [] at h2 ⊢
      rw [sdNext_one] at h2
      rw [sdRes_one, sdRes_one]
      exact (oneInterval_sound (so.shiftC f, eo.shiftC f) d hd).2 d' h1 h2 h3

/-- under `wf` the single-interval path is taken exactly when the start carries a year -/
theorem singleIntervalV_none_iff (s : DateSpec) (so : DateOffset) (e : DateSpec) (eo : DateOffset)
    (hw : (MonthdayRange.date s so e eo).wf = true) :
    singleIntervalV s so e eo = none ↔ dateYear s = none := by
  simp only [MonthdayRange.wf, Bool.and_eq_true] at hw
  obtain ⟨⟨⟨hs, _⟩, he⟩, _⟩ := hw
  have key : ∀ (ds : DateSpec) (off : DateOffset) (after : Bool) (y : Int), ds.wf = true → dateYear ds = some y →
      boundV ds off after y ≠ none := by
    intro ds off after y hds hy
    unfold boundV dateOnYearV
    cases ds with
    | easter yr =>
      cases yr with
      | none => simp [dateYear] at hy
      | some y0 =>
        simp only [dateYear, Option.map_some, Option.some.injEq] at hy
        subst hy
        simp only [DateSpec.wf, optYearOk, yearOk, Bool.and_eq_true, decide_eq_true_eq] at hds
        obtain ⟨x, hx, _⟩ := easter_spec_window (y0 : Int) (by omega) (by omega)
        simp [dateOnYear, hx]
    | fixed yr m dd =>
      cases yr with
      | none => simp [dateYear] at hy
      | some y0 =>
        simp only [dateYear, Option.map_some, Option.some.injEq] at hy
        subst hy
        -- the year a date carries is one chrono can build, so its (clamped) day exists
        simp only [DateSpec.wf, optYearOk, yearOk, Bool.and_eq_true, decide_eq_true_eq] at hds
        obtain ⟨⟨⟨⟨hy0, hm1⟩, hm2⟩, hd1⟩, hd2⟩ := hds
        simp only [dateOnYear, if_true]
        rw [OH.Proofs.EvalSpec.validYmd_eq (y0 : Int) m dd after (by unfold minYear; omega)
          (by unfold maxYear; omega) hm1 hm2 hd1 hd2]
        simp
  constructor
  · intro h
    cases hsy : dateYear s with
    | none => rfl
    | some sy =>
      exfalso
      unfold singleIntervalV at h
      rw [hsy] at h
      simp only [] at h
      cases hb : boundV s so true sy with
      | none => exact key s so true sy hs hsy hb
      | some st =>
        rw [hb] at h
        simp only [] at h
        cases hey : dateYear e with
        | none => rw [hey] at h; simp at h
        | some ey =>
          rw [hey] at h
          simp only [] at h
          cases hb' : boundV e eo false ey with
          | none => exact key e eo false ey he hey hb'
          | some en => rw [hb'] at h; simp at h
  · intro h
    unfold singleIntervalV; rw [h]

end OH.Model
