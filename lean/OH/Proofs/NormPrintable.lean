import OH.Proofs.Normalize
import OH.Proofs.SynRule9
import OH.Model.PrintableOut
import OH.Proofs.EvalComments2
/-
C06, the clause for NORMALIZED expressions: the normal form of a printable (parser-producible)
expression is printable again, its string form parses back to it (comments of each rule joined, first
operator `Normal`, the empty expression read back as the single rule `closed`), and the reparsed
expression evaluates identically.

 * `ruleOK_of_okRule`, `exprOK_of_printableOut` — the decidable class of the round-trip theorem is inside
   the class `ExprOK` of the normalisation theorems (so `C13_no_panic` applies);
 * `canonical_okRule` — a rule that `ruleseq_to_selector` accepts (every range canonical), within the
   parser's field ranges, with parser-producible comments, is `okRule`;
 * `emitted_okRule` — every rule `canonical_to_seq` emits is such a rule: its comment list is the one
   stored in a paving cell, which is the comment list of an input rule (`commentsOK_foldRules`);
 * `normalize_okRule` — every rule of the normal form is `okRule` (emitted rules + untouched tail);
 * `normal_form_roundtrip`, `normal_form_reparse_evaluates_identically`.
-/
namespace OH.Proofs.NormPrintable
open OH.Model OH.Model.Norm OH.Proofs.Normalize OH.Proofs.Paving
open OH.Model.Printable

/-! ## `printableOut e → ExprOK e` -/

/-- a rule the round-trip theorem covers is within the field ranges the normalisation theorems need -/
theorem ruleOK_of_okRule (r : Rule) (h : okRule r = true) : RuleOK r := by
  simp only [okRule, okRuleSmall, okWide, okTimes, Bool.and_eq_true, List.all_eq_true, Bool.or_eq_true,
    Bool.not_eq_true'] at h
  obtain ⟨⟨⟨⟨hne, -⟩, hwd⟩, -⟩, ⟨⟨⟨hy, hm⟩, hw⟩, -⟩⟩ := h
  refine ⟨?_, ?_, ?_, ?_, ?_⟩
  · intro y hy'
    have := hy y hy'
    simp only [okYear, decide_eq_true_eq] at this
    omega
  · intro m hm'
    have := hm m hm'
    cases m with
    | month lo hi y =>
      simp only [okMonthday, Bool.and_eq_true, decide_eq_true_eq] at this
      simp only [monthRangeOK]
      omega
    | date s so e eo => trivial
  · intro w hw'
    have := hw w hw'
    simp only [okWeek, decide_eq_true_eq] at this
    omega
  · intro w hw'
    rcases hwd with h0 | h1
    · rw [List.isEmpty_iff.mp h0] at hw'
      cases hw'
    · simp only [okWeekdays, Bool.and_eq_true, List.all_eq_true] at h1
      have := h1.2 w hw'
      cases w with
      | fixed lo hi off ns ne =>
        simp only [okRange, Bool.and_eq_true, decide_eq_true_eq] at this
        simp only [wdayRangeOK]
        omega
      | holiday k off => trivial
  · intro h0
    rw [h0] at hne
    cases hne

theorem exprOK_of_all_okRule (e : Expr) (h : ∀ r ∈ e, okRule r = true) : ExprOK e :=
  fun r hr => ruleOK_of_okRule r (h r hr)

theorem all_okRule_of_printableOut (e : Expr) (h : printableOut e = true) : ∀ r ∈ e, okRule r = true := by
  simp only [printableOut, Bool.and_eq_true, List.all_eq_true] at h
  exact h.2

/-- **the class of the round-trip theorem is inside the class of the normalisation theorems** -/
theorem exprOK_of_printableOut (e : Expr) (h : printableOut e = true) : ExprOK e :=
  exprOK_of_all_okRule e (all_okRule_of_printableOut e h)

/-- hence `normalize` does not panic on a printable expression -/
theorem normalize_ok_of_printableOut (e : Expr) (h : printableOut e = true) : ∃ n, normalizeM e = .ok n :=
  normalizeG_ok true e (exprOK_of_printableOut e h)

/-! ## a canonical rule is `okRule` -/

section tfi
variable {α T : Type} [LE T] [DecidableLE T]

theorem tryFromIterGo_some (B : Bounded T) (mk : α → NM (Option (T × T))) :
    ∀ (l : List α) (L : List (T × T)), tryFromIterGo B mk l = .ok (some L) →
      ∀ x ∈ l, ∃ rg, mk x = .ok (some rg) := by
  intro l
  induction l with
  | nil => intro L _ x hx; cases hx
  | cons a l ih =>
    intro L h x hx
    simp only [tryFromIterGo] at h
    split at h
    · cases h
    · cases h
    · rename_i r hr
      split at h
      · cases h
      · cases h
      · rename_i rs hrs
        rcases List.mem_cons.mp hx with rfl | hx'
        · exact ⟨r, hr⟩
        · exact ih rs hrs x hx'

/-- `try_from_iterator` returns a selector only when every element is canonical -/
theorem tryFromIterator_some (B : Bounded T) (mk : α → NM (Option (T × T))) (l : List α) (L : List (T × T))
    (h : tryFromIterator B mk l = .ok (some L)) : ∀ x ∈ l, ∃ rg, mk x = .ok (some rg) := by
  unfold tryFromIterator at h
  split at h
  · cases h
  · cases h
  · rename_i rs hrs
    exact tryFromIterGo_some B mk l rs hrs

end tfi

theorem year_canon (y : YearRange) (rg : Frame × Frame) (h : YearRange.tryMakeCanonical y = .ok (some rg)) :
    y.step = 1 := by
  unfold YearRange.tryMakeCanonical at h
  split at h
  · cases h
  · rename_i hs
    exact Decidable.not_not.mp hs

theorem week_canon (w : WeekRange) (rg : Frame × Frame) (h : WeekRange.tryMakeCanonical w = .ok (some rg)) :
    w.step = 1 := by
  unfold WeekRange.tryMakeCanonical at h
  split at h
  · cases h
  · rename_i hs
    exact Decidable.not_not.mp hs

theorem month_canon (m : MonthdayRange) (rg : Frame × Frame)
    (h : MonthdayRange.tryMakeCanonical m = .ok (some rg)) : ∃ lo hi, m = .month lo hi none := by
  unfold MonthdayRange.tryMakeCanonical at h
  split at h
  · rename_i lo hi
    exact ⟨lo, hi, rfl⟩
  · cases h

theorem wday_canon (w : WeekDayRange) (rg : Frame × Frame)
    (h : WeekDayRange.tryMakeCanonical w = .ok (some rg)) : ∃ lo hi, w = .fixed lo hi 0 allTrue5 allTrue5 := by
  unfold WeekDayRange.tryMakeCanonical at h
  split at h
  · rename_i lo hi off ns ne
    split at h
    · rename_i hc
      obtain ⟨rfl, rfl, rfl⟩ := hc
      exact ⟨lo, hi, rfl⟩
    · cases h
  · cases h

theorem time_canon (t : TimeSpan) (rg : Nat × Nat) (h : TimeSpan.tryMakeCanonical t = .ok (some rg)) :
    ∃ s e, t = ⟨.fixed s, .fixed e, false, none⟩ ∧ s < e ∧ e ≤ 1440 := by
  unfold TimeSpan.tryMakeCanonical at h
  split at h
  · rename_i s e
    split at h
    · cases h
    · rename_i hc
      simp only [timeB] at hc
      exact ⟨s, e, rfl, by omega, by omega⟩
  · cases h

/-- the five `try_from_iterator(..)?` of `ruleseq_to_selector` all returned a selector -/
theorem ruleseqToSelector_some (r : Rule) (sel : CanonicalSelector) (h : ruleseqToSelector r = .ok (some sel)) :
    (∃ L, tryFromIterator (frameB wdayF) WeekDayRange.tryMakeCanonical r.day.weekday = .ok (some L)) ∧
    (∃ L, tryFromIterator (frameB weekF) WeekRange.tryMakeCanonical r.day.week = .ok (some L)) ∧
    (∃ L, tryFromIterator (frameB monthF) MonthdayRange.tryMakeCanonical r.day.monthday = .ok (some L)) ∧
    (∃ L, tryFromIterator (frameB yearF) YearRange.tryMakeCanonical r.day.year = .ok (some L)) ∧
    (∃ L, tryFromIterator timeB TimeSpan.tryMakeCanonical r.time = .ok (some L)) := by
  unfold ruleseqToSelector at h
  split at h
  · cases h
  · cases h
  · rename_i wd hwd
    split at h
    · cases h
    · cases h
    · rename_i wk hwk
      split at h
      · cases h
      · cases h
      · rename_i md hmd
        split at h
        · cases h
        · cases h
        · rename_i yr hyr
          split at h
          · cases h
          · cases h
          · rename_i tm htm
            exact ⟨⟨wd, hwd⟩, ⟨wk, hwk⟩, ⟨md, hmd⟩, ⟨yr, hyr⟩, ⟨tm, htm⟩⟩

theorem dropWhile_all {α : Type} (p : α → Bool) (l : List α) (h : ∀ x ∈ l, p x = true) :
    l.dropWhile p = [] := by
  induction l with
  | nil => rfl
  | cons a l ih => simp [h a (by simp), ih (fun x hx => h x (List.mem_cons_of_mem _ hx))]

theorem okRange_canon (lo hi : Nat) (h1 : lo ≤ 6) (h2 : hi ≤ 6) :
    okRange (.fixed lo hi 0 allTrue5 allTrue5) = true := by
  simp [okRange, allTrue5, i64Bound, h1, h2]

/-- **a canonical rule is printable**: if `ruleseq_to_selector` accepts the rule (every weekday range
is a plain range with all positions and no offset, every week and year range has step 1, every
month-day range is a plain month range without year, every time span is a fixed span `s-e` with
`s < e ≤ 24:00`), its fields are within the parser's ranges and its comments are parser-producible,
then the rule is within the class of the round-trip theorem -/
theorem canonical_okRule (r : Rule) (sel : CanonicalSelector) (h : ruleseqToSelector r = .ok (some sel))
    (hok : RuleOK r) (hc : r.comments.all okComment = true) : okRule r = true := by
  obtain ⟨⟨Lwd, hwd⟩, ⟨Lwk, hwk⟩, ⟨Lmd, hmd⟩, ⟨Lyr, hyr⟩, ⟨Ltm, htm⟩⟩ := ruleseqToSelector_some r sel h
  have cwd := tryFromIterator_some _ _ _ _ hwd
  have cwk := tryFromIterator_some _ _ _ _ hwk
  have cmd := tryFromIterator_some _ _ _ _ hmd
  have cyr := tryFromIterator_some _ _ _ _ hyr
  have ctm := tryFromIterator_some _ _ _ _ htm
  obtain ⟨oy, om, ow, od, ot⟩ := hok
  simp only [okRule, okRuleSmall, okWide, okTimes, Bool.and_eq_true, List.all_eq_true, Bool.or_eq_true,
    Bool.not_eq_true']
  refine ⟨⟨⟨⟨?_, ?_⟩, ?_⟩, ?_⟩, ⟨⟨⟨?_, ?_⟩, ?_⟩, ?_⟩⟩
  · -- the time list is not empty
    cases ht : r.time with
    | nil => exact absurd ht ot
    | cons a l => rfl
  · -- every span is a fixed span within the day
    intro t ht
    obtain ⟨rg, hrg⟩ := ctm t ht
    obtain ⟨s, e, rfl, hse, he⟩ := time_canon t rg hrg
    simp only [okSpan, okStart, okStop, Bool.and_eq_true, decide_eq_true_eq, and_true]
    omega
  · -- weekday list: empty, or plain ranges only
    cases hw : r.day.weekday with
    | nil => exact .inl rfl
    | cons w ws =>
      right
      have hfix : ∀ x ∈ w :: ws, ∃ lo hi, x = .fixed lo hi 0 allTrue5 allTrue5 := by
        intro x hx
        obtain ⟨rg, hrg⟩ := cwd x (hw ▸ hx)
        exact wday_canon x rg hrg
      have hnh : ∀ x ∈ w :: ws, (!isHoliday x) = true := by
        intro x hx
        obtain ⟨lo, hi, rfl⟩ := hfix x hx
        rfl
      simp only [okWeekdays, Bool.and_eq_true, List.all_eq_true]
      refine ⟨?_, ?_⟩
      · obtain ⟨lo, hi, hw0⟩ := hfix w (by simp)
        have : (w :: ws).dropWhile (fun x => !isHoliday x) = [] := dropWhile_all _ _ hnh
        simp only [okShape]
        rw [this]
        subst hw0
        simp [isHoliday]
      · intro x hx
        obtain ⟨lo, hi, rfl⟩ := hfix x hx
        have := od _ (hw ▸ hx)
        simp only [wdayRangeOK] at this
        exact okRange_canon lo hi this.1 this.2
  · exact fun s hs => (List.all_eq_true.mp hc) s hs
  · -- years
    intro y hy
    obtain ⟨rg, hrg⟩ := cyr y hy
    have hs := year_canon y rg hrg
    have := oy y hy
    simp only [okYear, decide_eq_true_eq]
    omega
  · -- month days
    intro m hm
    obtain ⟨rg, hrg⟩ := cmd m hm
    obtain ⟨lo, hi, rfl⟩ := month_canon m rg hrg
    have := om _ hm
    simp only [monthRangeOK] at this
    simp only [okMonthday, okYearOpt, Bool.and_true, decide_eq_true_eq]
    omega
  · -- weeks
    intro w hw
    obtain ⟨rg, hrg⟩ := cwk w hw
    have hs := week_canon w rg hrg
    have := ow w hw
    simp only [okWeek, decide_eq_true_eq]
    omega
  · -- the last year range has step 1
    unfold yearStepOk
    split
    · rename_i y m hy hm
      obtain ⟨rg, hrg⟩ := cyr y (List.mem_of_getLast? hy)
      simp [year_canon y rg hrg]
    · rfl

/-! ## the comments in the paving are comments of input rules -/

/-- the comment list of a paving value is parser-producible -/
def CommentsOK (v : Val) : Prop := v.2.all okComment = true

theorem commentsOK_dflt : CommentsOK (HasDflt.dflt : Val) := rfl

/-- the paving built by the `while let` loop of `normalize` only holds the default value and the
values `(kind, comments)` of the rules folded in: every comment list in it is that of an input rule -/
theorem commentsOK_foldRules : ∀ (pre : List Rule) (p p' : Canonical), (∀ r ∈ pre, RuleOK r) →
    (∀ r ∈ pre, r.comments.all okComment = true) → PavOK p → (∀ x, CommentsOK (Paving.get p x)) →
    foldRules p pre = some p' → ∀ x, CommentsOK (Paving.get p' x) := by
  intro pre
  induction pre with
  | nil => intro p p' _ _ _ hc h; cases h; exact hc
  | cons r pre ih =>
    intro p p' hok hcm hp hc h
    simp only [foldRules] at h
    split at h
    · cases h
    · split at h
      · rename_i sel hsel
        obtain ⟨o, ho, hsok⟩ := ruleseqToSelector_ok r (hok r (by simp))
        rw [hsel] at ho
        cases ho
        refine ih _ _ (fun x hx => hok x (List.mem_cons_of_mem _ hx))
          (fun x hx => hcm x (List.mem_cons_of_mem _ hx)) (pavOK_step hp r (hsok sel rfl)) ?_ h
        intro x
        rw [get_pavingStep p hp.1 r sel x]
        split
        · exact hcm r (by simp)
        · split
          · exact commentsOK_dflt
          · exact hc x
      · cases h

/-! ## every emitted rule is `okRule` -/

/-- **the rules `canonical_to_seq` emits are printable**: each one carries the value of a paving cell
(kind and comment list, unchanged), is canonical and within the parser's ranges (`emitRule_ok`) -/
theorem emitted_okRule (fx : Bool) : ∀ (p : Canonical) (dc : DaysCovered) (live : List Point5) (rs : List Rule),
    PavOK p → (∀ x, CommentsOK (Paving.get p x)) → canonicalToSeqG fx p dc live = .ok rs →
    ∀ r ∈ rs, okRule r = true := by
  intro p dc live
  induction p, dc, live using canonicalToSeqG.induct (fx := fx) with
  | case1 p dc live hpop =>
    intro rs _ _ h
    rw [canonicalToSeqG, hpop] at h
    cases h
    intro r hr; cases hr
  | case2 p dc live v sel p' hpop hlt e hemit =>
    intro rs _ _ h
    rw [canonicalToSeqG, hpop] at h
    simp only [hlt, dite_true, hemit] at h
    cases h
  | case3 p dc live v sel p' hpop hlt r dc' hemit e hrec _ =>
    intro rs _ _ h
    rw [canonicalToSeqG, hpop] at h
    simp only [hlt, dite_true, hemit, hrec] at h
    cases h
  | case4 p dc live v sel p' hpop hlt r dc' hemit rs' hrec ih =>
    intro rs hp hc h
    rw [canonicalToSeqG, hpop] at h
    simp only [hlt, dite_true, hemit, hrec, Except.ok.injEq] at h
    subst h
    obtain ⟨hp', -, hex, hval, hget, hsok, hssep⟩ := popKinds_some fx p p' v sel hp hpop
    obtain ⟨r0, he0, -, hcm, -, hsel, hrok⟩ := emitRule_ok fx dc v sel hsok hssep hex
    rw [he0] at hemit
    simp only [Except.ok.injEq, Prod.mk.injEq] at hemit
    obtain ⟨rfl, rfl⟩ := hemit
    have hv : CommentsOK v := by
      obtain ⟨x, hx⟩ := hex
      rw [← hval x hx]
      exact hc x
    have hc' : ∀ x, CommentsOK (Paving.get p' x) := by
      intro x
      rw [hget x]
      split
      · exact commentsOK_dflt
      · exact hc x
    intro r hr
    rcases List.mem_cons.mp hr with rfl | hr'
    · exact canonical_okRule _ sel hsel hrok (by rw [hcm]; exact hv)
    · exact ih rs' hp' hc' hrec r hr'
  | case5 p dc live v sel p' hpop hnlt =>
    intro rs _ _ h
    rw [canonicalToSeqG, hpop] at h
    simp only [hnlt, dite_false] at h
    cases h

/-! ## the normal form -/

/-- **every rule of the normal form of a printable expression is printable**: the rules emitted from
the paving (`emitted_okRule`) followed by the untouched tail, whose rules are input rules -/
theorem normalize_okRule (e n : Expr) (he : ∀ r ∈ e, okRule r = true) (h : normalizeM e = .ok n) :
    ∀ r ∈ n, okRule r = true := by
  have hn : normalizeG true e = .ok n := h
  unfold normalizeG at hn
  split at hn
  · cases hn
  · rename_i P rest hfold
    split at hn
    · cases hn
    · rename_i rs hrs
      cases hn
      obtain ⟨pre, rfl, hfr, -⟩ := foldPrefix_split e Paving.empty P rest hfold
      have hokpre : ∀ r ∈ pre, RuleOK r := fun r hr => ruleOK_of_okRule r (he r (List.mem_append_left _ hr))
      have hcmpre : ∀ r ∈ pre, r.comments.all okComment = true := by
        intro r hr
        have := he r (List.mem_append_left _ hr)
        simp only [okRule, okRuleSmall, Bool.and_eq_true] at this
        exact this.1.2
      have hP : PavOK P := pavOK_foldRules pre _ _ hokpre pavOK_empty hfr
      have hC : ∀ x, CommentsOK (Paving.get P x) :=
        commentsOK_foldRules pre _ _ hokpre hcmpre pavOK_empty
          (fun x => by rw [LawfulPaving.get_empty x]; exact commentsOK_dflt) hfr
      intro r hr
      rcases List.mem_append.mp hr with h1 | h1
      · exact emitted_okRule true P _ _ rs hP hC hrs r h1
      · exact he r (List.mem_append_right _ h1)

/-- the untouched tail of the normal form is a suffix of the input (its rules are input rules, with
their year steps, offsets, events, …) -/
theorem normalize_tail (e n : Expr) (h : normalizeM e = .ok n) :
    ∃ pre rs rest, e = pre ++ rest ∧ n = rs ++ rest := by
  have hn : normalizeG true e = .ok n := h
  unfold normalizeG at hn
  split at hn
  · cases hn
  · rename_i P rest hfold
    split at hn
    · cases hn
    · rename_i rs hrs
      cases hn
      obtain ⟨pre, hpre, -, -⟩ := foldPrefix_split e Paving.empty P rest hfold
      exact ⟨pre, rs, rest, hpre, rfl⟩

/-! ## the round trip of the normal form -/

/-- helper: comparison of a parse result with an expected expression, as a `Bool` for `decide` -/
def isOkEq (r : Parser.PM Expr) (x : Expr) : Bool :=
  match r with
  | .ok y => decide (y = x)
  | _ => false

theorem isOkEq_sound (r : Parser.PM Expr) (x : Expr) (h : isOkEq r x = true) : r = .ok x := by
  unfold isOkEq at h
  split at h
  · simp only [decide_eq_true_eq] at h; rw [h]
  · cases h

/-- the empty expression is printed `closed`, which parses to the single rule `closed` (evaluated by
the kernel on the PEG interpreter and the builders) -/
theorem parse_closed : Parser.parseChars (Print.expr []) = .ok (OH.Proofs.Syn.joinComments []) := by
  apply isOkEq_sound
  decide +kernel

/-- `Display` does not write the operator of the first rule -/
theorem print_expr_first_op (r : Rule) (rs : List Rule) (op : RuleOp) :
    Print.expr ({ r with op := op } :: rs) = Print.expr (r :: rs) := rfl

theorem okRule_op (r : Rule) (op : RuleOp) : okRule { r with op := op } = okRule r := rfl

theorem joinRuleComments_setOp (r : Rule) (op : RuleOp) :
    OH.Proofs.Syn.joinRuleComments { r with op := op } = { OH.Proofs.Syn.joinRuleComments r with op := op } := by
  unfold OH.Proofs.Syn.joinRuleComments
  split <;> rfl

/-- the round trip for ANY list of printable rules: empty or not, whatever the first operator -/
theorem roundtrip_of_all_okRule (n : Expr) (hn : ∀ r ∈ n, okRule r = true) :
    Parser.parseChars (Print.expr n) = .ok (OH.Proofs.Syn.joinComments n) := by
  cases n with
  | nil => exact parse_closed
  | cons r rs =>
    have hP : OH.Proofs.Syn.PrintableOut ({ r with op := .normal } :: rs) = true := by
      show printableOut ({ r with op := .normal } :: rs) = true
      simp only [printableOut, List.isEmpty_cons, Bool.not_false, Bool.true_and, beq_self_eq_true,
        List.all_cons, Bool.and_eq_true, List.all_eq_true]
      exact ⟨by rw [okRule_op]; exact hn r (by simp), fun x hx => hn x (List.mem_cons_of_mem _ hx)⟩
    have := OH.Proofs.Syn.parse_print_roundtrip _ hP
    rw [print_expr_first_op] at this
    rw [this]
    simp only [OH.Proofs.Syn.reparsed, OH.Proofs.Syn.joinComments, List.map_cons, joinRuleComments_setOp]

/-- **C06 for normal forms, syntactic half**: the normal form of a printable expression, printed by
`Display`, parses back to itself with the comments of each rule joined, the first operator `Normal`
(it is not written), and the empty normal form (printed `closed`) read back as the rule `closed` -/
theorem normal_form_roundtrip (e n : Expr) (he : printableOut e = true) (h : normalizeM e = .ok n) :
    Parser.parseChars (Print.expr n) = .ok (OH.Proofs.Syn.joinComments n) :=
  roundtrip_of_all_okRule n (normalize_okRule e n (all_okRule_of_printableOut e he) h)

/-- **C06 for normal forms, semantic half**: the expression read back from the printed normal form
evaluates like the normal form, in every context, on every day, at every minute, and fails exactly when
it fails, with the same message -/
theorem normal_form_reparse_evaluates_identically (e n : Expr) (he : printableOut e = true)
    (h : normalizeM e = .ok n) (n' : Expr) (hp : Parser.parseChars (Print.expr n) = .ok n')
    (ctx : Ctx) (d : Int) :
    match scheduleAt ctx n d, scheduleAt ctx n' d with
    | .ok s, .ok s' => ∀ m, OH.Spec.Schedule.dayState s m = OH.Spec.Schedule.dayState s' m
    | .error p, .error p' => p = p'
    | _, _ => False :=
  OH.Proofs.EvalComments.parsed_evaluates_identically n n' (normal_form_roundtrip e n he h) hp ctx d

/-- all of it at once, with the existence of the normal form (no panic) -/
theorem normal_form_printable (e : Expr) (he : printableOut e = true) :
    ∃ n, normalizeM e = .ok n ∧ (∀ r ∈ n, okRule r = true) ∧
      Parser.parseChars (Print.expr n) = .ok (OH.Proofs.Syn.joinComments n) := by
  obtain ⟨n, hn⟩ := normalize_ok_of_printableOut e he
  exact ⟨n, hn, normalize_okRule e n (all_okRule_of_printableOut e he) hn, normal_form_roundtrip e n he hn⟩

/-- when the normal form is not empty and starts with a `Normal` rule it is itself in the class
`printableOut` (in the other two cases — see the witnesses below — `Display` writes `closed`, resp.
does not write the first operator, and the reparse has a `Normal` first rule) -/
theorem normal_form_printableOut (e n : Expr) (he : printableOut e = true) (h : normalizeM e = .ok n)
    (hne : n ≠ []) (hop : ∀ r, n.head? = some r → r.op = .normal) : printableOut n = true := by
  have hall := normalize_okRule e n (all_okRule_of_printableOut e he) h
  cases n with
  | nil => exact absurd rfl hne
  | cons r rs =>
    simp only [printableOut, List.isEmpty_cons, Bool.not_false, Bool.true_and, List.all_cons,
      Bool.and_eq_true, List.all_eq_true, beq_iff_eq]
    exact ⟨hop r rfl, hall r (by simp), fun x hx => hall x (List.mem_cons_of_mem _ hx)⟩

/-! ## non-vacuity: the two cases outside `printableOut` do occur on parser output -/

def noDay : DaySelector := ⟨[], [], [], []⟩

/-- `closed || open` as the parser builds it -/
def fallbackFirstInput : Expr :=
  [⟨noDay, [TimeSpan.fullDay], .closed, .normal, []⟩, ⟨noDay, [TimeSpan.fullDay], .open, .fallback, []⟩]

/-- `Mo closed` as the parser builds it -/
def emptyNormalFormInput : Expr :=
  [⟨{ noDay with weekday := [.fixed 0 0 0 allTrue5 allTrue5] }, [TimeSpan.fullDay], .closed, .normal, []⟩]

theorem fallbackFirstInput_parsed : Parser.parse "closed || open" = .ok fallbackFirstInput := by
  apply isOkEq_sound
  decide +kernel

theorem emptyNormalFormInput_parsed : Parser.parse "Mo closed" = .ok emptyNormalFormInput := by
  apply isOkEq_sound
  decide +kernel

set_option maxRecDepth 100000 in
/-- the normal form of `closed || open` is the single FALLBACK rule `|| open` (the canonical prefix
`closed` paves nothing, so nothing is emitted): printed `24/7`, read back as a `Normal` rule -/
theorem fallbackFirst_normalizes : printableOut fallbackFirstInput = true ∧
    normalizeM fallbackFirstInput = .ok [⟨noDay, [TimeSpan.fullDay], .open, .fallback, []⟩] :=
  ⟨by decide, normalizeG_of_F true 5 _ _ (by decide)⟩

set_option maxRecDepth 100000 in
/-- the normal form of `Mo closed` is EMPTY: printed `closed`, read back as the rule `closed` -/
theorem emptyNormalForm_normalizes : printableOut emptyNormalFormInput = true ∧
    normalizeM emptyNormalFormInput = .ok [] :=
  ⟨by decide, normalizeG_of_F true 5 _ _ (by decide)⟩

end OH.Proofs.NormPrintable
