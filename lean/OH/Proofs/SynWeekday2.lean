import OH.Proofs.SynWeekday1
/-
Weekday selector, part 2: one element (`holiday`, `weekday_range`) printed and read back.
-/
namespace OH.Proofs.Syn
open OH.Model OH.Model.Peg OH.Model.Parser OH.Generated.Grammar

/-- what may follow ONE printed weekday range or holiday: the end, a comma, or a space that does not
start a day offset -/
def FollowWd (rest : List Char) : Prop :=
  rest = [] ∨ (∃ r, rest = ',' :: r) ∨ (∃ c r, rest = ' ' :: c :: r ∧ c ≠ '+' ∧ c ≠ '-')

theorem FollowWd.comma (r : List Char) : FollowWd (',' :: r) := .inr (.inl ⟨r, rfl⟩)

theorem run_day_offset_none (rest : List Char) (hf : FollowWd rest) :
    run g_day_offset false rest = none := by
  rcases hf with rfl | ⟨r, rfl⟩ | ⟨c, r, rfl, h1, h2⟩
  · simp [g_day_offset, g_space, peg]
  · simp [g_day_offset, g_space, peg]
  · simp [g_day_offset, g_space, g_plus_or_minus, g_plus, g_minus, peg, Ne.symm h1, Ne.symm h2]

theorem rule_of_buildDayOffset {t : T} {off : Int} (h : buildDayOffset t = .ok off) :
    t.rule = .day_offset := by
  by_cases hr : t.rule = .day_offset
  · exact hr
  · simp [buildDayOffset, assertRule, hr, Parser.panic, bind, Except.bind] at h

/-- `day_offset?` on a printed offset (nothing is printed for 0) -/
theorem run_opt_day_offset (off : Int) (hb : off.natAbs < i64Bound) (rest : List Char)
    (hf : FollowWd rest) :
    ∃ ts, run (.opt g_day_offset) false (Print.daysOffset off ++ rest)
        = some ⟨ts, Print.daysOffset off, rest⟩
      ∧ ((off = 0 ∧ ts = []) ∨ ∃ t, ts = [t] ∧ t.rule = .day_offset ∧ buildDayOffset t = .ok off) := by
  by_cases h0 : off = 0
  · subst h0
    refine ⟨[], ?_, .inl ⟨rfl, rfl⟩⟩
    simp [Print.daysOffset, peg, run_day_offset_none rest hf]
  · have hr : ∀ r, rest ≠ 's' :: r := by
      intro r h
      rcases hf with rfl | ⟨r', rfl⟩ | ⟨c, r', rfl, _⟩ <;> simp at h
    obtain ⟨t, ht, hbuild⟩ := parses_day_offset off h0 hb rest hr
    exact ⟨[t], by simp [peg, ht], .inr ⟨t, rfl, rule_of_buildDayOffset hbuild, hbuild⟩⟩

/-! ### `holiday` -/

/-- the values the parser builds for one element of a weekday selector.
 * `PH` with any day offset an `i64` can negate; `SH` never has an offset (the grammar has none);
 * a weekday range: days 0..6, two arrays of five, at least one position set (the parser turns
   "nothing set" into "everything set"), an `i64` offset; and brackets or an offset only on a single
   day (`Mo-Fr[1]` and `Mo-Fr +1 day` are not in the grammar). -/
def okRange : WeekDayRange → Bool
  | .holiday .pub off => decide (off.natAbs < i64Bound)
  | .holiday .school off => decide (off = 0)
  | .fixed lo hi off ns ne =>
    decide (lo ≤ 6) && decide (hi ≤ 6) && decide (ns.length = 5) && decide (ne.length = 5)
      && decide (off.natAbs < i64Bound)
      && (ns.contains true || ne.contains true)
      && (decide (lo = hi) || (!ns.contains false && !ne.contains false && decide (off = 0)))

def isHoliday : WeekDayRange → Bool
  | .holiday _ _ => true
  | .fixed .. => false

theorem parses_holiday (w : WeekDayRange) (hh : isHoliday w = true) (hok : okRange w = true)
    (rest : List Char) (hf : FollowWd rest) :
    ParsesTo g_holiday buildHoliday (Print.weekDayRange w) rest w := by
  cases w with
  | fixed => simp [isHoliday] at hh
  | holiday kind off =>
    cases kind with
    | pub =>
      have hb : off.natAbs < i64Bound := by simpa [okRange] using hok
      obtain ⟨ts, hts, hcase⟩ := run_opt_day_offset off hb rest hf
      refine ParsesTo.mk' .holiday (.node .public_holiday ['P', 'H'] [] :: ts) ?_ ?_
      · simp [Print.weekDayRange, Print.str, g_holiday, g_public_holiday, peg, hts]
      · rcases hcase with ⟨rfl, rfl⟩ | ⟨t, rfl, _, hbuild⟩
        · simp [buildHoliday, assertRule, Tree.rule, Tree.kids, bind, Except.bind]
        · simp [buildHoliday, assertRule, Tree.rule, Tree.kids, hbuild, bind, Except.bind]
    | school =>
      have h0 : off = 0 := by simpa [okRange] using hok
      subst h0
      refine ParsesTo.mk' .holiday [.node .school_holiday ['S', 'H'] []] ?_ ?_
      · simp [Print.weekDayRange, Print.str, Print.daysOffset, g_holiday, g_public_holiday,
          g_school_holiday, peg]
      · simp [buildHoliday, assertRule, Tree.rule, Tree.kids, bind, Except.bind]

/-! ### `weekday_range` -/

theorem wdayTree_rule (d : Nat) : (wdayTree d).rule = .wday := rfl
theorem tree_rule (r : PRule) (t : List Char) (k : List T) : (Tree.node r t k).rule = r := rfl
theorem tree_kids (r : PRule) (t : List Char) (k : List T) : (Tree.node r t k).kids = k := rfl

/-- alternative 3: a single day, nothing else -/
theorem parses_wdr_single (lo : Nat) (hlo : lo ≤ 6) (rest : List Char) (hf : FollowWd rest) :
    ParsesTo g_weekday_range buildWeekdayRange (Print.wdayStr lo) rest
      (.fixed lo lo 0 allTrue5 allTrue5) := by
  refine ParsesTo.mk' .weekday_range [wdayTree lo] ?_ ?_
  · rcases hf with rfl | ⟨r, rfl⟩ | ⟨c, r, rfl, _⟩
    · have h1 : run g_wday false (Print.wdayStr lo) = some ⟨[wdayTree lo], Print.wdayStr lo, []⟩ := by
        simpa using run_wday lo hlo []
      simp [g_weekday_range, peg, h1]
    · simp [g_weekday_range, peg, run_wday lo hlo]
    · simp [g_weekday_range, peg, run_wday lo hlo]
  · simp [buildWeekdayRange, assertRule, tree_rule, tree_kids, build_wday lo hlo, nthLoop, allFalse5,
      bind, Except.bind]

/-- alternative 2: `wday-wday` -/
theorem parses_wdr_span (lo hi : Nat) (hlo : lo ≤ 6) (hhi : hi ≤ 6) (rest : List Char) :
    ParsesTo g_weekday_range buildWeekdayRange (Print.wdayStr lo ++ '-' :: Print.wdayStr hi) rest
      (.fixed lo hi 0 allTrue5 allTrue5) := by
  refine ParsesTo.mk' .weekday_range [wdayTree lo, wdayTree hi] ?_ ?_
  · have h1 := run_wday lo hlo ('-' :: (Print.wdayStr hi ++ rest))
    simp [g_weekday_range, peg, h1, run_wday hi hhi]
  · simp [buildWeekdayRange, assertRule, tree_rule, tree_kids, build_wday lo hlo, build_wday hi hhi,
      wdayTree_rule, nthLoop, allFalse5, bind, Except.bind]

/-- alternative 1: `wday[…] day_offset?` -/
theorem parses_wdr_brackets (lo : Nat) (hlo : lo ≤ 6) (off : Int) (hb : off.natAbs < i64Bound)
    (ns ne : List Bool) (hs : ns.length = 5) (he : ne.length = 5)
    (hsome : (ns.contains true || ne.contains true) = true)
    (rest : List Char) (hf : FollowWd rest) :
    ParsesTo g_weekday_range buildWeekdayRange
      (Print.wdayStr lo ++ '[' :: Print.selector entryStr (nthEntries ns ne)
        ++ ']' :: Print.daysOffset off) rest (.fixed lo lo off ns ne) := by
  obtain ⟨hrep, hemp⟩ := replay_nthEntries ns ne hs he
  have hv := nthEntries_ok ns ne hs he
  obtain ⟨ts, hts, hcase⟩ := run_opt_day_offset off hb rest hf
  cases hes : nthEntries ns ne with
  | nil =>
    rw [hes] at hemp
    have : (!ns.contains true && !ne.contains true) = true := by simpa using hemp.symm
    cases h1 : ns.contains true <;> cases h2 : ne.contains true <;> simp_all
  | cons x xs =>
    rw [hes] at hrep hv
    refine ParsesTo.mk' .weekday_range (wdayTree lo :: ((x :: xs).map entryTree ++ ts)) ?_ ?_
    · have hx := run_nth_entry x (hv x (by simp))
        (tailStr entryStr xs ++ ']' :: (Print.daysOffset off ++ rest))
        (by cases xs <;> simp [tailStr_cons])
      obtain ⟨ts', hstar, hrel⟩ := run_comma_star g_nth_entry entryStr (fun e t => t = entryTree e)
        EntryOk (fun rest => ∀ r, rest ≠ '-' :: r)
        (fun e rest he hr => ⟨_, run_nth_entry e he rest hr, rfl⟩)
        (fun r r' => by simp) xs (fun y hy => hv y (by simp [hy]))
        (']' :: (Print.daysOffset off ++ rest)) (fun r' => by simp) (by simp [peg])
      rw [map_of_forall₂ entryTree hrel] at hstar
      have hw := run_wday lo hlo ('[' :: (entryStr x ++ (tailStr entryStr xs
        ++ ']' :: (Print.daysOffset off ++ rest))))
      simp only [selector_cons, List.append_assoc, List.cons_append]
      simp [g_weekday_range, peg, hw, hx, hstar, hts]
    · have hl := nthLoop_entries (x :: xs) hv ts (by
        rcases hcase with ⟨_, rfl⟩ | ⟨t, rfl, ht, _⟩
        · simp
        · simp [ht]) allFalse5 allFalse5
      rw [hrep] at hl
      have hcond' : ¬ (¬ true ∈ ns ∧ ¬ true ∈ ne) := by
        intro ⟨h1, h2⟩; simp [h1, h2] at hsome
      rcases hcase with ⟨rfl, rfl⟩ | ⟨t, rfl, _, hbuild⟩
      · simp only [List.map_cons, List.append_nil] at hl
        simp [buildWeekdayRange, assertRule, tree_rule, tree_kids, build_wday lo hlo, entryTree_rule,
          hl, hcond', bind, Except.bind]
      · simp only [List.map_cons, List.cons_append] at hl
        simp [buildWeekdayRange, assertRule, tree_rule, tree_kids, build_wday lo hlo, entryTree_rule,
          hl, hcond', hbuild, bind, Except.bind]

theorem parses_weekday_range (w : WeekDayRange) (hh : isHoliday w = false) (hok : okRange w = true)
    (rest : List Char) (hf : FollowWd rest) :
    ParsesTo g_weekday_range buildWeekdayRange (Print.weekDayRange w) rest w := by
  cases w with
  | holiday => simp [isHoliday] at hh
  | fixed lo hi off ns ne =>
    simp only [okRange, Bool.and_eq_true, Bool.or_eq_true, decide_eq_true_eq] at hok
    obtain ⟨⟨⟨⟨⟨⟨hlo, hhi⟩, hs⟩, he⟩, hb⟩, hsome⟩, hshape⟩ := hok
    by_cases hbr : (ns.contains false || ne.contains false || decide (off ≠ 0)) = true
    · -- brackets are printed: the parser builds this on a single day only
      have hlh : lo = hi := by
        rcases hshape with h | ⟨⟨h1, h2⟩, h3⟩
        · exact h
        · exfalso; simp_all
      subst hlh
      have hbr' : (false ∈ ns ∨ false ∈ ne) ∨ ¬ off = 0 := by simpa using hbr
      have := parses_wdr_brackets lo hlo off hb ns ne hs he (by simpa using hsome) rest hf
      simpa [Print.weekDayRange, hbr', selector_nthNumbers ns ne hs he] using this
    · -- no brackets: both arrays full, no offset
      simp only [Bool.or_eq_true, decide_eq_true_eq, not_or, Bool.not_eq_true, Decidable.not_not]
        at hbr
      obtain ⟨⟨h1, h2⟩, h0⟩ := hbr
      subst h0
      have e1 := allTrue_of_no_false ns hs h1
      have e2 := allTrue_of_no_false ne he h2
      subst e1 e2
      by_cases hlh : lo = hi
      · subst hlh
        simpa [Print.weekDayRange, Print.daysOffset, allTrue5] using parses_wdr_single lo hlo rest hf
      · simpa [Print.weekDayRange, Print.daysOffset, allTrue5, hlh] using
          parses_wdr_span lo hi hlo hhi rest

/-! ### first characters (for the ordered choices and the ends of the repetitions) -/

theorem weekDayRange_fixed_head (lo hi : Nat) (off : Int) (ns ne : List Bool) :
    ∃ tl, Print.weekDayRange (.fixed lo hi off ns ne) = Print.wdayStr lo ++ tl := by
  exact ⟨_, by simp only [Print.weekDayRange, List.append_assoc]; rfl⟩

theorem weekDayRange_holiday_head (k : HolidayKind) (off : Int) :
    ∃ c tl, Print.weekDayRange (.holiday k off) = c :: 'H' :: tl ∧ (c = 'P' ∨ c = 'S') := by
  cases k
  · exact ⟨'P', Print.daysOffset off, by simp [Print.weekDayRange, Print.str], .inl rfl⟩
  · exact ⟨'S', Print.daysOffset off, by simp [Print.weekDayRange, Print.str], .inr rfl⟩

end OH.Proofs.Syn
