import OH.Proofs.RustInt
import OH.Model.CompactCalendar
/-
The `u32` bit primitives of the machine-integer library (`OH/Model/RustInt.lean`: values are `Int`)
against the `Nat`-mask primitives of the hand-written CompactCalendar model
(`OH/Model/CompactCalendar.lean`): on `u32` values they are the same functions.
Helper lemmas of `OH/Props/ArithC15.lean`.
-/
namespace OH.Model.RustInt
open OH.Model

theorem lowestBit_eq (n : Nat) (h : n ≠ 0) : lowestBit n = CompactCalendar.trailingZeros n := by
  induction n using Nat.strongRecOn with
  | _ n ih =>
    rw [lowestBit, CompactCalendar.trailingZeros]
    simp only [h, ↓reduceIte, ↓reduceDIte]
    by_cases h1 : n % 2 = 1
    · simp [h1]
    · simp only [h1, ↓reduceIte]
      rw [ih (n / 2) (by omega) (by omega)]

/-- `u32::trailing_zeros` of the library = the model's -/
theorem trailingZeros_u32 (m : Nat) :
    trailingZeros .u32 (m : Int) = (CompactCalendar.trailingZeros m : Int) := by
  unfold trailingZeros
  simp only [Int.toNat_natCast]
  by_cases h : m = 0
  · subst h; rw [CompactCalendar.trailingZeros]; simp [Ty.bits]
  · rw [if_neg h, lowestBit_eq m h]

/-- a non-zero `u32` has its least set bit below 32 -/
theorem trailingZeros_lt (m : Nat) (h0 : m ≠ 0) (hm : m < 4294967296) :
    CompactCalendar.trailingZeros m < 32 := by
  have hs := (CompactCalendar.trailingZeros_spec m h0).1
  have hge := Nat.ge_two_pow_of_testBit hs
  apply Classical.byContradiction
  intro hc
  have : 2 ^ 32 ≤ 2 ^ CompactCalendar.trailingZeros m := Nat.pow_le_pow_right (by omega) (by omega)
  omega

/-- `u32::count_ones` of the library = the model's -/
theorem countOnes_u32 (m : Nat) : countOnes .u32 (m : Int) = (CompactCalendar.countOnes m : Int) := by
  unfold countOnes CompactCalendar.countOnes
  simp [Ty.bits]

theorem band_natCast (a b : Nat) : band (a : Int) (b : Int) = ((a &&& b : Nat) : Int) := by
  unfold band; simp

/-- `1 << k` on `u32` for a shift amount the type allows -/
theorem shl_one_u32 (s : String) (k : Int) (h0 : 0 ≤ k) (h1 : k < 32) :
    shl .u32 s 1 k = .ok (((1 <<< k.toNat : Nat) : Int)) := by
  unfold shl
  have : 0 ≤ k ∧ k < ((Ty.bits .u32 : Nat) : Int) := by simp only [Ty.bits]; omega
  rw [if_pos this]
  have hk : k.toNat < 32 := by omega
  have hlt : 1 <<< k.toNat < 4294967296 := by
    rw [Nat.one_shiftLeft]
    have : 2 ^ k.toNat < 2 ^ 32 := Nat.pow_lt_pow_right (by omega) hk
    omega
  have e : (Ty.modulus .u32).toNat = 4294967296 := by decide
  have e1 : (1 : Int).toNat = 1 := rfl
  rw [e, e1, Nat.mod_eq_of_lt hlt]

/-- `m >> k` on `u32` for a shift amount the type allows -/
theorem shr_u32 (s : String) (m : Nat) (k : Int) (h0 : 0 ≤ k) (h1 : k < 32) :
    shr .u32 s (m : Int) k = .ok (((m >>> k.toNat : Nat) : Int)) := by
  unfold shr
  have : 0 ≤ k ∧ k < ((Ty.bits .u32 : Nat) : Int) := by simp only [Ty.bits]; omega
  rw [if_pos this]
  simp

end OH.Model.RustInt
