import OH.Proofs.SynNum
/-
Wide-range selectors, part 1: comma-separated lists in general (own copy, in the sub-namespace `Wide`
so that nothing clashes with the other `Syn*` files), the rule `year`, and the year selector:
  `parses_year_selector`, `parses_year_selector_long` (the `2020-2020Jan` form of `Print.daySelector`).
Helper lemmas live in `OH.Proofs.Syn.Wide`, the statements meant for the assembly in `OH.Proofs.Syn`.
-/
namespace OH.Proofs.Syn
open OH.Model

/-- every year range the parser can build: `year` is 1900..9999 (`lo+` gives `hi = 9999`), the step
is a positive `u16` -/
def okYear (y : YearRange) : Bool :=
  decide (1900 ≤ y.lo ∧ y.lo ≤ 9999 ∧ 1900 ≤ y.hi ∧ y.hi ≤ 9999 ∧ 1 ≤ y.step ∧ y.step < 65536)

end OH.Proofs.Syn

namespace OH.Proofs.Syn.Wide
open OH.Model OH.Model.Peg OH.Model.Parser OH.Generated.Grammar OH.Proofs.Syn

@[simp] theorem tr_rule (r : PRule) (t : List Char) (k : List T) : (Tree.node r t k).rule = r := rfl
@[simp] theorem tr_text (r : PRule) (t : List Char) (k : List T) : (Tree.node r t k).text = t := rfl
@[simp] theorem tr_kids (r : PRule) (t : List Char) (k : List T) : (Tree.node r t k).kids = k := rfl

/-! ### comma-separated lists: `g ~ ("," ~ g)*` against `Print.selector` -/

theorem selector_cons2 {α} (f : α → List Char) (x y : α) (l : List α) :
    Print.selector f (x :: y :: l) = f x ++ ',' :: Print.selector f (y :: l) := by
  simp [Print.selector]

/-- a successful `g ~ ("," ~ g)*` after a comma is a successful `("," ~ g)*` -/
theorem star_comma {g : G} {X : List Char} {r : R PRule}
    (h : run (.seq g (.star (.seq (.str [',']) g))) false X = some r) :
    run (.star (.seq (.str [',']) g)) false (',' :: X) = some ⟨r.kids, ',' :: r.eaten, r.rest⟩ := by
  simp only [run_seq] at h
  cases h1 : run g false X with
  | none => simp [h1] at h
  | some r1 =>
    simp only [h1] at h
    cases h2 : run (.star (.seq (.str [',']) g)) false r1.rest with
    | none => simp [h2] at h
    | some r2 =>
      simp only [h2, Option.some.injEq] at h
      subst h
      have hc : run (.seq (.str [',']) g) false (',' :: X) = some ⟨r1.kids, ',' :: r1.eaten, r1.rest⟩ := by
        simp [peg, h1]
      have := run_star_some hc (by simp) h2
      simpa [R.append] using this

/-- `g ~ ("," ~ g)*` reads a printed non-empty list back, one pair per element.
`Fe x rest`: what may follow the element `x` (it must accept any comma); the repetition must stop
at `rest`. -/
theorem run_list {α} (g : G) (f : α → List Char) (tr : α → T) (ok : α → Prop)
    (Fe : α → List Char → Prop)
    (hel : ∀ x, ok x → ∀ rest, Fe x rest → run g false (f x ++ rest) = some ⟨[tr x], f x, rest⟩)
    (hmid : ∀ x r, Fe x (',' :: r)) :
    ∀ (xs : List α) (hne : xs ≠ []), (∀ x ∈ xs, ok x) → ∀ rest, Fe (xs.getLast hne) rest →
      run (.seq (.str [',']) g) false rest = none →
      run (.seq g (.star (.seq (.str [',']) g))) false (Print.selector f xs ++ rest)
        = some ⟨xs.map tr, Print.selector f xs, rest⟩ := by
  intro xs
  induction xs with
  | nil => intro hne; exact absurd rfl hne
  | cons x l ih =>
    intro hne hok rest hF hstop
    cases l with
    | nil =>
      have h1 := hel x (hok x (by simp)) rest (by simpa using hF)
      have h2 := run_star_none hstop
      simp only [Print.selector, run_seq, h1, h2, R.nil, R.append, List.append_nil, List.map]
    | cons y l =>
      have hrec := ih (by simp) (fun z hz => hok z (by simp [hz])) rest (by simpa using hF) hstop
      have h2 := star_comma hrec
      have h1 := hel x (hok x (by simp)) (',' :: (Print.selector f (y :: l) ++ rest)) (hmid x _)
      rw [selector_cons2, List.append_assoc, List.cons_append]
      simp only [run_seq, h1, h2, R.append, List.map, List.cons_append, List.nil_append]

theorem mapM_map {α} (build : T → PM α) (tr : α → T) (xs : List α)
    (h : ∀ x ∈ xs, build (tr x) = .ok x) : (xs.map tr).mapM build = .ok xs := by
  induction xs with
  | nil => rfl
  | cons x l ih =>
    simp [List.mapM_cons, h x (by simp), ih (fun z hz => h z (by simp [hz])), bind, Except.bind, pure,
      Except.pure]

/-! ### `year = @{ "19" ~ ASCII_DIGIT{2} | '2'..'9' ~ ASCII_DIGIT{3} }` -/

def yearTree (y : Nat) : T := .node .year (Print.natStr y) []

@[simp] theorem yearTree_rule (y : Nat) : (yearTree y).rule = .year := rfl

theorem dc_29 : ∀ d, d < 10 → 2 ≤ d → ('2' ≤ dc d ∧ dc d ≤ '9') ∧ '1' ≠ dc d := by decide

theorem run_year (q : Bool) (y : Nat) (h : 1900 ≤ y ∧ y ≤ 9999) (rest : List Char) :
    run g_year q (Print.natStr y ++ rest) =
      some (if q then ⟨[], Print.natStr y, rest⟩ else ⟨[yearTree y], Print.natStr y, rest⟩) := by
  unfold yearTree
  rw [natStr_4 y (by omega)]
  have h2 := dc_digit (y / 100 % 10) (by omega)
  have h3 := dc_digit (y / 10 % 10) (by omega)
  have h4 := dc_digit (y % 10) (by omega)
  by_cases hy : y < 2000
  · have e1 : y / 1000 = 1 := by omega
    have e2 : y / 100 % 10 = 9 := by omega
    have d1 : dc 1 = '1' := by decide
    have d9 : dc 9 = '9' := by decide
    simp [g_year, PExpr.rep, peg, e1, e2, d1, d9, h3, h4]
    cases q <;> simp
  · have h1 := dc_29 (y / 1000) (by omega) (by omega)
    simp [g_year, PExpr.rep, peg, h1, h2, h3, h4]
    cases q <;> simp

theorem build_year (y : Nat) (h : y ≤ 9999) : buildYear (yearTree y) = .ok y := by
  have : y < u16Bound := by unfold u16Bound; omega
  simp [buildYear, yearTree, assertRule, Tree.rule, Tree.text, parseBounded, natOfDigits_natStr, this,
    bind, Except.bind]

/-- `year` needs a first character in `1..9` -/
theorem run_year_none (q : Bool) (inp : List Char)
    (h : ∀ c r, inp = c :: r → ¬ ('1' ≤ c ∧ c ≤ '9')) : run g_year q inp = none := by
  cases inp with
  | nil => simp [g_year, PExpr.rep, peg]
  | cons c r =>
    have hc := h c r rfl
    have h1 : '1' ≠ c := by
      intro e; subst e; exact hc (by decide)
    have h2 : ¬ ('2' ≤ c ∧ c ≤ '9') := by
      intro ⟨a, b⟩
      exact hc ⟨Char.le_trans (by decide) a, b⟩
    simp [g_year, PExpr.rep, peg, h1, h2]


/-! ### `year_range = { year ~ year_range_plus | year ~ ("-" ~ year ~ ("/" ~ positive_number)?)? }` -/

def pnTree (n : Nat) : T := .node .positive_number (Print.natStr n) []

@[simp] theorem pnTree_rule (n : Nat) : (pnTree n).rule = .positive_number := rfl

theorem build_pn (n : Nat) (h : n < u64Bound) : buildPositiveNumber (pnTree n) = .ok n :=
  build_positive_number n h

/-- the long printed form `lo-hi` / `lo-hi/step` -/
def yearLongStr (lo hi step : Nat) : List Char :=
  Print.natStr lo ++ '-' :: (Print.natStr hi ++ (if step ≠ 1 then '/' :: Print.natStr step else []))

def yearLongTree (lo hi step : Nat) : T :=
  .node .year_range (yearLongStr lo hi step)
    (yearTree lo :: yearTree hi :: (if step ≠ 1 then [pnTree step] else []))

theorem run_year_range_long (lo hi step : Nat) (hlo : 1900 ≤ lo ∧ lo ≤ 9999) (hhi : 1900 ≤ hi ∧ hi ≤ 9999)
    (hs : 1 ≤ step) (rest : List Char) (h1 : ∀ r, rest ≠ '/' :: r) (h2 : step ≠ 1 → NoDigit rest) :
    run g_year_range false (yearLongStr lo hi step ++ rest) =
      some ⟨[yearLongTree lo hi step], yearLongStr lo hi step, rest⟩ := by
  unfold yearLongTree yearLongStr
  by_cases hs1 : step = 1
  · subst hs1
    have hsl : run (.str ['/'] : G) false rest = none := by
      cases rest with
      | nil => simp [peg]
      | cons c r =>
        have : '/' ≠ c := by intro e; subst e; exact h1 r rfl
        simp [peg, this]
    simp only [ne_eq, not_true, if_false, List.append_nil, List.append_assoc, List.cons_append]
    simp [g_year_range, g_year_range_plus, peg, run_year false lo hlo, run_year false hi hhi, hsl]
  · have hpn := run_positive_number false step (by omega) rest (h2 hs1)
    simp only [ne_eq, hs1, not_false_eq_true, if_true, List.append_assoc, List.cons_append]
    simp [g_year_range, g_year_range_plus, peg, run_year false lo hlo, run_year false hi hhi, hpn, pnTree]

theorem build_year_range_long (lo hi step : Nat) (hlo : lo ≤ 9999) (hhi : hi ≤ 9999) (hs : step < 65536) :
    buildYearRange (yearLongTree lo hi step) = .ok ⟨lo, hi, step⟩ := by
  have hb : ¬ u16Bound ≤ step := by unfold u16Bound; omega
  have hb1 : ¬ u16Bound ≤ 1 := by unfold u16Bound; omega
  by_cases hs1 : step = 1
  · subst hs1
    simp [buildYearRange, yearLongTree, assertRule, build_year lo hlo,
      build_year hi hhi, hb1, bind, Except.bind]
  · have hpn := build_pn step (by unfold u64Bound; omega)
    simp [buildYearRange, yearLongTree, assertRule, build_year lo hlo,
      build_year hi hhi, hs1, hpn, hb, bind, Except.bind]

/-- the pair of a printed year range -/
def yearRangeTree (y : YearRange) : T :=
  if y.lo ≠ y.hi ∨ y.step ≠ 1 then yearLongTree y.lo y.hi y.step
  else .node .year_range (Print.natStr y.lo) [yearTree y.lo]

theorem yearRange_long (y : YearRange) (h : y.lo ≠ y.hi ∨ y.step ≠ 1) :
    Print.yearRange y = yearLongStr y.lo y.hi y.step := by
  simp [Print.yearRange, yearLongStr, h]

theorem yearRange_short (y : YearRange) (h : ¬ (y.lo ≠ y.hi ∨ y.step ≠ 1)) :
    Print.yearRange y = Print.natStr y.lo := by
  have h1 : y.step = 1 := by omega
  have h2 : y.lo = y.hi := by omega
  simp [Print.yearRange, h1, h2]

/-- what may follow ONE printed year range -/
def FeYear (y : YearRange) (rest : List Char) : Prop :=
  (∀ r, rest ≠ '+' :: r) ∧ (∀ r, rest ≠ '-' :: r) ∧ (∀ r, rest ≠ '/' :: r) ∧
    (y.step ≠ 1 → NoDigit rest)

theorem run_year_range (y : YearRange) (hy : okYear y = true) (rest : List Char) (hf : FeYear y rest) :
    run g_year_range false (Print.yearRange y ++ rest) = some ⟨[yearRangeTree y], Print.yearRange y, rest⟩ := by
  simp only [okYear, decide_eq_true_eq] at hy
  obtain ⟨hp, hm, hsl, hd⟩ := hf
  unfold yearRangeTree
  by_cases h : y.lo ≠ y.hi ∨ y.step ≠ 1
  · rw [yearRange_long y h, if_pos h]
    exact run_year_range_long y.lo y.hi y.step (by omega) (by omega) (by omega) rest hsl hd
  · rw [yearRange_short y h, if_neg h]
    have h1 : run (.str ['+'] : G) true rest = none := by
      cases rest with
      | nil => simp [peg]
      | cons c r =>
        have : '+' ≠ c := by intro e; subst e; exact hp r rfl
        simp [peg, this]
    have h2 : run (.str ['-'] : G) false rest = none := by
      cases rest with
      | nil => simp [peg]
      | cons c r =>
        have : '-' ≠ c := by intro e; subst e; exact hm r rfl
        simp [peg, this]
    simp [g_year_range, g_year_range_plus, peg, run_year false y.lo (by omega), h1, h2]

theorem build_year_range (y : YearRange) (hy : okYear y = true) :
    buildYearRange (yearRangeTree y) = .ok y := by
  simp only [okYear, decide_eq_true_eq] at hy
  unfold yearRangeTree
  by_cases h : y.lo ≠ y.hi ∨ y.step ≠ 1
  · rw [if_pos h]
    exact build_year_range_long y.lo y.hi y.step (by omega) (by omega) (by omega)
  · rw [if_neg h]
    have h1 : y.step = 1 := by omega
    have h2 : y.hi = y.lo := by omega
    have hb1 : ¬ u16Bound ≤ 1 := by unfold u16Bound; omega
    cases y with
    | mk lo hi step =>
      simp only at h1 h2 hy
      subst h1 h2
      simp [buildYearRange, assertRule, build_year hi (by omega), hb1, bind, Except.bind]

end OH.Proofs.Syn.Wide

namespace OH.Proofs.Syn
open OH.Model OH.Model.Peg OH.Model.Parser OH.Generated.Grammar OH.Proofs.Syn.Wide

/-! ### `year_selector = { year_range ~ ("," ~ year_range)* }` -/

/-- what may follow a printed year selector: not `+` (would be read as `year+`), not `-`, not `/`,
and no `,` followed by the first digit of a year -/
def FollowYear (rest : List Char) : Prop :=
  (∀ r, rest ≠ '+' :: r) ∧ (∀ r, rest ≠ '-' :: r) ∧ (∀ r, rest ≠ '/' :: r) ∧
    (∀ c r, rest = ',' :: c :: r → ¬ ('1' ≤ c ∧ c ≤ '9'))

/-- a digit may follow a year selector (a month-day selector that starts with a year does), except
when the last range ends with `/step` -/
def YearStepFollow (ys : List YearRange) (rest : List Char) : Prop :=
  ∀ y, ys.getLast? = some y → y.step ≠ 1 → NoDigit rest

theorem FeYear_comma (y : YearRange) (r : List Char) : FeYear y (',' :: r) := by
  refine ⟨fun _ h => (by cases h), fun _ h => (by cases h), fun _ h => (by cases h), ?_⟩
  intro _ c r' e
  cases e
  decide

theorem year_range_stop (rest : List Char) (hf : FollowYear rest) :
    run (.seq (.str [',']) g_year_range) false rest = none := by
  cases rest with
  | nil => simp [peg]
  | cons c r =>
    by_cases hc : c = ','
    · subst hc
      have hy : run g_year false r = none := by
        apply run_year_none
        intro c' r' e
        exact hf.2.2.2 c' r' (by rw [e])
      simp [g_year_range, peg, hy]
    · simp [peg, Ne.symm hc]

theorem parses_year_selector (ys : List YearRange) (hne : ys ≠ []) (hok : ∀ y ∈ ys, okYear y = true)
    (rest : List Char) (hf : FollowYear rest) (hd : YearStepFollow ys rest) :
    ParsesTo g_year_selector buildYearSelector (Print.selector Print.yearRange ys) rest ys := by
  have hrun := run_list g_year_range Print.yearRange yearRangeTree (fun y => okYear y = true) FeYear
    run_year_range FeYear_comma ys hne hok rest
    ⟨hf.1, hf.2.1, hf.2.2.1, hd _ (List.getLast?_eq_some_getLast hne)⟩
    (year_range_stop rest hf)
  refine ParsesTo.mk' .year_selector (ys.map yearRangeTree) ?_ ?_
  · simp only [g_year_selector, run_rule, Bool.or_self, hrun]
    simp
  · simp [buildYearSelector, assertRule, bind, Except.bind,
      mapM_map buildYearRange yearRangeTree ys (fun y hy => build_year_range y (hok y hy))]

/-- the long form `2020-2020` that `Print.daySelector` writes for a single plain year in front of a
month-day selector without year: the same value -/
theorem parses_year_selector_long (lo : Nat) (hlo : 1900 ≤ lo ∧ lo ≤ 9999) (rest : List Char)
    (hf : FollowYear rest) :
    ParsesTo g_year_selector buildYearSelector (Print.natStr lo ++ '-' :: Print.natStr lo) rest
      [⟨lo, lo, 1⟩] := by
  have h1 := run_year_range_long lo lo 1 hlo hlo (by omega) rest hf.2.2.1 (fun h => absurd rfl h)
  have h2 := run_star_none (year_range_stop rest hf)
  have es : yearLongStr lo lo 1 = Print.natStr lo ++ '-' :: Print.natStr lo := by simp [yearLongStr]
  rw [es] at h1
  refine ParsesTo.mk' .year_selector [yearLongTree lo lo 1] ?_ ?_
  · simp only [List.append_assoc, List.cons_append] at h1 ⊢
    simp only [g_year_selector, run_rule, run_seq, Bool.or_self, h1, h2]
    simp [R.append, R.nil]
  · simp [buildYearSelector, assertRule, bind, Except.bind, List.mapM_cons,
      build_year_range_long lo lo 1 (by omega) (by omega) (by omega), pure, Except.pure]

/-! ### the follow contexts of a year selector -/

theorem FollowYear_of_head (c : Char) (r : List Char)
    (hc : c ≠ '+' ∧ c ≠ '-' ∧ c ≠ '/' ∧ c ≠ ',') : FollowYear (c :: r) := by
  obtain ⟨h1, h2, h3, h4⟩ := hc
  refine ⟨?_, ?_, ?_, ?_⟩
  · intro r' e; cases e; exact h1 rfl
  · intro r' e; cases e; exact h2 rfl
  · intro r' e; cases e; exact h3 rfl
  · intro c' r' e; cases e; exact absurd rfl h4

theorem FollowYear_nil : FollowYear [] :=
  ⟨fun _ h => (by cases h), fun _ h => (by cases h), fun _ h => (by cases h), fun _ _ h => (by cases h)⟩

/-- ` week…` and every other context that starts with a space -/
theorem FollowYear_space (r : List Char) : FollowYear (' ' :: r) :=
  FollowYear_of_head ' ' r (by decide)

theorem FollowYear_of_FollowWide (rest : List Char) (h : FollowWide rest) : FollowYear rest := by
  rcases h with (rfl | ⟨r, rfl⟩ | ⟨c, r, rfl, _⟩) | ⟨c, r, rfl, _⟩
  · exact FollowYear_nil
  · refine ⟨fun _ h => (by cases h), fun _ h => (by cases h), fun _ h => (by cases h), ?_⟩
    intro c r' e; cases e; decide
  · exact FollowYear_space _
  · exact FollowYear_space _

theorem NoDigit_nil : NoDigit [] := fun _ _ h => by cases h

theorem NoDigit_space (r : List Char) : NoDigit (' ' :: r) := by
  intro c r' e; cases e; decide

theorem NoDigit_of_FollowWide (rest : List Char) (h : FollowWide rest) : NoDigit rest := by
  rcases h with (rfl | ⟨r, rfl⟩ | ⟨c, r, rfl, _⟩) | ⟨c, r, rfl, _⟩
  · exact NoDigit_nil
  · intro c r' e; cases e; decide
  · exact NoDigit_space _
  · exact NoDigit_space _

theorem YearStepFollow_of_NoDigit (ys : List YearRange) (rest : List Char) (h : NoDigit rest) :
    YearStepFollow ys rest := fun _ _ _ => h

end OH.Proofs.Syn
