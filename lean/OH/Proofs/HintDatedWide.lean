import OH.Proofs.HintDatedWindow
import OH.Proofs.EvalSpecDatedWide
import OH.Proofs.DatedFar
/-
Layer B — dated ranges with FIXED yearless bounds, day offsets within ±92 000 000 days: soundness of the hint,
on top of the refinement of OH/Proofs/EvalSpecDatedWide.lean (same argument as OH/Proofs/HintDatedWindow.lean:
the hint is at most three years away, so its thirteen-year windows are adequate for every day before it).
-/
namespace OH.Proofs.EvalSpec
open OH.Model OH.Model.Cal
open OH.Spec (shift dateInstance exactInstance specYear datedOk candidateYears yearsNear yearSpan isFixedDate datedDefined)

/-- **S3, wide**: two fixed yearless bounds (not a single day), day offsets within ±92 000 000 days: the hint is
sound on every day of the evaluation window. -/
theorem dated_yearless_hintOKW (s : DateSpec) (so : DateOffset) (e : DateSpec) (eo : DateOffset)
    (hs : BoundW s so) (he : BoundW e eo)
    (hns : ¬ (s = e ∧ isFixedDate s = true)) (d : Int) (hd1 : dateStart ≤ d) (hd2 : d < dateEnd) :
    HintOK (MonthdayRange.date s so e eo).filter (MonthdayRange.date s so e eo).hint d := by
  have hdw := window_days (d := d) (by omega) hd2
  have hss := hs.small
  have hes := he.small
  have eS := yearBeforeOffset_eqW d so hss hdw
  have eE := yearBeforeOffset_eqW d eo hes hdw
  have iS : InY (year (d - so.days)) (d - so.days) := inY_year _
  have iE : InY (year (d - eo.days)) (d - eo.days) := inY_year _
  have cS := fun k hk => noSat_near hss iS hdw k hk
  have cE := fun k hk => noSat_near hes iE hdw k hk
  have b1 : boundsOn s so true (yearsAround (yearBeforeOffset d so) 2 10)
      = .ok ((yearRun (year (d - so.days) - 2) 13).filterMap (proj s so true)) := by
    rw [eS, yearsAround_eq_run, boundsOn_eqW hs true _ (fun k hk => by
      rw [mem_yearRun] at hk; exact (cS k (by omega)).1)]
    rfl
  have b2 : boundsOn e eo false (yearsAround (yearBeforeOffset d eo) 2 10)
      = .ok ((yearRun (year (d - eo.days) - 2) 13).filterMap (proj e eo false)) := by
    rw [eE, yearsAround_eq_run, boundsOn_eqW he false _ (fun k hk => by
      rw [mem_yearRun] at hk; exact (cE k (by omega)).1)]
    rfl
  refine HintOK.of_some (hint_generic s so e eo d hs.yl hns _ _ b1 b2) (nextChange_gt _ d hd2) ?_
  intro d' a b c
  rw [dated_yearless_eqW s so e eo d' hs he hns (by omega) c,
    dated_yearless_eqW s so e eo d hs he hns (by omega) hd2]
  congr 1
  have stS := projT_stepNear hs true iS hdw
  have stE := projT_stepNear he false iE hdw
  have rS := pos_range s hs.wf
  have rE := pos_range e he.wf
  have gtS := lt_projT_of_yearW hs true iS hdw (year (d - so.days) + 2) (cS _ (by omega)).1 (by omega)
  have gtE := lt_projT_of_yearW he false iE hdw (year (d - eo.days) + 2) (cE _ (by omega)).1 (by omega)
  have nS2 := (cS (year (d - so.days) + 2) (by omega)).2
  have nE2 := (cE (year (d - eo.days) + 2) (by omega)).2
  have pS2 := projT_posW hs true (year (d - so.days) + 2) (cS _ (by omega)).1 nS2
  have pE2 := projT_posW he false (year (d - eo.days) + 2) (cE _ (by omega)).1 nE2
  generalize hys : year (d - so.days) = ys at *
  generalize hye : year (d - eo.days) = ye at *
  have fS := run_filterMap (proj s so true) (projT s so true) (ys - 2) 13
    (fun k a b => projW_some hs true k (cS k (by omega)).1)
  have fE := run_filterMap (proj e eo false) (projT e eo false) (ye - 2) 13
    (fun k a b => projW_some he false k (cE k (by omega)).1)
  have sortS := run_map_sorted (projT s so true) (ys - 6) (ys + 13) (ys - 2) 13 stS (by omega) (by omega)
  have sortE := run_map_sorted (projT e eo false) (ye - 6) (ye + 13) (ye - 2) 13 stE (by omega) (by omega)
  -- the hint is at most 1135 days away
  have hbound : d' ≤ d + 1134 := by
    rw [fS, fE, intervalsFromBounds, ensureIncreasing_of_sorted _ sortS, ensureIncreasing_of_sorted _ sortE] at b
    have := nextChange_le _ _ d hd2 sortS sortE (projT s so true (ys + 2))
      (List.mem_map.2 ⟨ys + 2, (mem_yearRun _ _ _).2 ⟨by omega, by omega⟩, rfl⟩) gtS
      (projT e eo false (ye + 2))
      (List.mem_map.2 ⟨ye + 2, (mem_yearRun _ _ _).2 ⟨by omega, by omega⟩, rfl⟩) (by omega)
      (by
        rw [maxDay_eq]
        simp only [shiftLo, shiftHi] at pE2
        omega)
    have := yearStart_add2_le ys
    have := yearStart_add2_le ye
    unfold InY at iS iE
    simp only [shiftLo, shiftHi] at pS2 pE2
    omega
  have uS : year (d' - so.days) ≤ ys + 4 := by
    apply year_le_of_le_yearStart
    have := yearStart_add4_ge (ys + 1)
    rw [show ys + 1 + 4 = ys + 4 + 1 by omega] at this
    unfold InY at iS
    omega
  have uE : year (d' - eo.days) ≤ ye + 4 := by
    apply year_le_of_le_yearStart
    have := yearStart_add4_ge (ye + 1)
    rw [show ye + 1 + 4 = ye + 4 + 1 by omega] at this
    unfold InY at iE
    omega
  have lS : ys ≤ year (d' - so.days) := by rw [← hys]; exact year_mono (by omega)
  have lE : ye ≤ year (d' - eo.days) := by rw [← hye]; exact year_mono (by omega)
  have hd'w : 693595 ≤ d' ∧ d' ≤ 3652059 := by rw [dateEnd_eq] at c; omega
  rw [← dated_window_eqW s so e eo d' hs he hns hd'w (ys - 2) 13 (ye - 2) 13 (by omega) (by omega)
      (by omega) (by omega) (by omega) (by omega),
    ← dated_window_eqW s so e eo d hs he hns hdw (ys - 2) 13 (ye - 2) 13 (by omega) (by omega)
      (by omega) (by omega) (by omega) (by omega)]
  apply intervals_sound _ d d' ?_ a b c
  intro r hr
  rw [intervalsFromBounds] at hr
  rcases intervalsGo_wf _ _ r hr with h | h
  · exact Or.inl h
  · exact Or.inr (Or.inl (by omega))

/-! ### S2, wide: the single-day path without a year -/

/-- an occurrence that contains a day of the window is one the specification looks at — any offsets -/
theorem sd_contains_specW (m dd : Nat) (so eo : DateOffset) (hso : so.wf = true) (heo : eo.wf = true)
    (x : Int) (hx : 693595 ≤ x ∧ x ≤ 3652059) (k f : Int) (hf : ofYmd? k m dd = some f)
    (h1 : shift so f ≤ x) (h2 : x ≤ shift eo f) :
    datedOk (.fixed none m dd) so (.fixed none m dd) eo x = true := by
  have hy : 1899 ≤ year x ∧ year x ≤ 9999 :=
    year_window (by rw [dateStart_eq]; omega) (by rw [dateEnd_eq]; omega)
  have hwdef : yearSpan so eo = min (3 + (so.days.natAbs + eo.days.natAbs) / 365) 272200 := rfl
  have hmin : minYear = -262143 := rfl
  have hmax : maxYear = 262142 := rfl
  obtain ⟨⟨r1, r2⟩, _, _, p1, p2⟩ := day_pos hf
  have fr := ofYmd?_inRange hf
  have l1 := shift_le_imp so hso fr hx.2 h1
  have l2 := le_shift_imp eo heo fr hx.1 h2
  have := year_dist (a := k) (b := year x) (p := f) (q := x) ⟨p1, p2⟩ (inY_year x)
    (so.days.natAbs + eo.days.natAbs + 6) (by omega) (by omega)
  rw [datedOk_single_iff]
  exact ⟨k, by omega, by omega, f, hf, h1, h2⟩

/-- the specification selects a day through an occurrence that is not older than the year before the year
of `x - end offset` — any offsets -/
theorem spec_sd_elimW (m dd : Nat) (so eo : DateOffset) (heo : eo.wf = true) (x : Int) (hx : 693595 ≤ x)
    (h : datedOk (.fixed none m dd) so (.fixed none m dd) eo x = true) :
    ∃ k f, year (x - eo.days) - 1 ≤ k ∧ ofYmd? k m dd = some f ∧ shift so f ≤ x ∧ x ≤ shift eo f := by
  have iE : InY (year (x - eo.days)) (x - eo.days) := inY_year _
  rw [datedOk_single_iff] at h
  obtain ⟨k, hk1, hk2, f, hf, hle, hge⟩ := h
  obtain ⟨_, _, _, p1, p2⟩ := day_pos hf
  have l2 := le_shift_imp eo heo (ofYmd?_inRange hf) hx hge
  refine ⟨k, f, ?_, hf, hle, hge⟩
  generalize year (x - eo.days) = c at *
  by_cases hc : k + 2 ≤ c
  · have := yearStart_le (a := k + 2) (b := c) hc
    have := yearStart_step (k + 1) (k + 2) (by omega)
    unfold InY at iE
    omega
  · omega

/-- **S2, wide**: a single fixed day without a year, end offset within ±92 000 000 days, ANY start offset: the
hint is sound on every day of the evaluation window. -/
theorem dated_single_hintOKW (m dd : Nat) (so eo : DateOffset)
    (hso : so.wf = true) (heo : eo.wf = true) (hes : -92000000 ≤ eo.days ∧ eo.days ≤ 92000000)
    (d : Int) (hd1 : dateStart ≤ d) (hd2 : d < dateEnd) :
    HintOK (MonthdayRange.date (.fixed none m dd) so (.fixed none m dd) eo).filter
      (MonthdayRange.date (.fixed none m dd) so (.fixed none m dd) eo).hint d := by
  have hdw := window_days (d := d) (by omega) hd2
  have hde := dateEnd_eq
  have eE := yearBeforeOffset_eqW d eo hes hdw
  have iE : InY (year (d - eo.days)) (d - eo.days) := inY_year _
  have cE := fun k hk => noSat_near hes iE hdw k hk
  have hso' : so.wday.wf = true := by simp only [DateOffset.wf, Bool.and_eq_true] at hso; exact hso.1
  have heo' : eo.wday.wf = true := by simp only [DateOffset.wf, Bool.and_eq_true] at heo; exact heo.1
  have hfind := singleDayFind_eq m dd so eo d hso' heo' (yearRun (year (d - eo.days) - 1) 12)
  have hsort := dayIv_sortedW m dd so eo hso (year (d - eo.days) - 1) 12
  have hspec := find_sorted_spec _ d hsort
  have hhintG : ∀ res, ((yearRun (year (d - eo.days) - 1) 12).filterMap (dayIv m dd so eo)).find?
        (fun r => decide (r.2 ≥ d)) = res →
      MonthdayRange.hint (.date (.fixed none m dd) so (.fixed none m dd) eo) d = .ok (some (sdNext d res)) := by
    intro res hres
    exact hint_single m dd so eo d res (by rw [eE, yearsAround_eq_run, ← hres]; exact hfind)
  have hF : ∀ x, dateStart ≤ x → x < dateEnd →
      (MonthdayRange.date (.fixed none m dd) so (.fixed none m dd) eo).filter x =
        .ok (datedOk (.fixed none m dd) so (.fixed none m dd) eo x) :=
    fun x a b => dated_single_eqW m dd so eo x hso heo hes (by omega) b
  have lE : ∀ x, d ≤ x → year (d - eo.days) ≤ year (x - eo.days) := fun x hx => year_mono (by omega)
  generalize hc : year (d - eo.days) = c at *
  -- membership in the list of shifted occurrences
  have hmem : ∀ r, r ∈ (yearRun (c - 1) 12).filterMap (dayIv m dd so eo) ↔
      ∃ k, (c - 1 ≤ k ∧ k < c - 1 + 12) ∧ ∃ f, ofYmd? k m dd = some f ∧ (shift so f, shift eo f) = r := by
    intro r
    simp only [List.mem_filterMap, mem_yearRun, dayIv, Option.map_eq_some_iff]
    constructor
    · rintro ⟨k, hk, f, hf, rfl⟩; exact ⟨k, by omega, f, hf, rfl⟩
    · rintro ⟨k, hk, f, hf, rfl⟩; exact ⟨k, by omega, f, hf, rfl⟩
  -- a later occurrence (year `c+11` or after) comes with one of the years `c+1 … c+8` that ends after `d`
  have hlate : ∀ k f, c + 11 ≤ k → ofYmd? k m dd = some f →
      ∃ k1 f1, (c - 1 ≤ k1 ∧ k1 < c - 1 + 12) ∧ ofYmd? k1 m dd = some f1 ∧ d < shift eo f1 ∧
        shift so f1 ≤ shift so f := by
    intro k f hk1 hf
    have rc1 := (cE (c + 1) (by omega)).1
    have rc8 := (cE (c + 8) (by omega)).1
    obtain ⟨k1, f1, a1, a2, hf1, hl⟩ := day_exists_late m dd k f hf (c + 1) ⟨rc1.1, by have := rc8.2; omega⟩
    obtain ⟨_, _, _, p1, p2⟩ := day_pos hf
    obtain ⟨_, _, _, q1, q2⟩ := day_pos hf1
    have fr := ofYmd?_inRange hf
    have fr1 := ofYmd?_inRange hf1
    have hff : f1 ≤ f := by
      have := yearStart_le (a := k1 + 1) (b := k) (by omega)
      omega
    have m1 := shift_mono so hso fr1.1 hff fr.2
    have n1 := (cE k1 (by omega)).2
    have st1 := yearStart_step k1 (k1 + 1) rfl
    have sb := shift_bounds eo f1 (by omega) (by rw [minDay_eq]; omega) (by rw [maxDay_eq]; omega)
    unfold InY at iE
    exact ⟨k1, f1, ⟨by omega, by omega⟩, hf1, by omega, m1⟩
  cases hres : ((yearRun (c - 1) 12).filterMap (dayIv m dd so eo)).find? (fun r => decide (r.2 ≥ d)) with
  | none =>
    have hhint := hhintG none hres
    rw [hres] at hspec
    simp only [sdNext] at hspec hhint
    -- no occurrence ends at or after `d`: nothing is selected from `d` on
    have hno : ∀ x, d ≤ x → x < dateEnd →
        datedOk (.fixed none m dd) so (.fixed none m dd) eo x = false := by
      intro x hx1 hx2
      rw [← Bool.not_eq_true]
      intro hsel
      obtain ⟨k, f, hkc, hf, hle, hge⟩ := spec_sd_elimW m dd so eo heo x (by omega) hsel
      have := lE x hx1
      by_cases hin : k < c - 1 + 12
      · have := hspec _ ((hmem _).2 ⟨k, ⟨by omega, hin⟩, f, hf, rfl⟩)
        simp only at this
        omega
      · obtain ⟨k1, f1, hk1, hf1, hgt, _⟩ := hlate k f (by omega) hf
        have := hspec _ ((hmem _).2 ⟨k1, hk1, f1, hf1, rfl⟩)
        simp only at this
        omega
    refine HintOK.of_some hhint hd2 ?_
    intro d' a b c'
    rw [hF d' (by omega) c', hF d hd1 hd2, hno d' a c', hno d (by omega) hd2]
  | some r0 =>
    have hhint := hhintG (some r0) hres
    rw [hres] at hspec
    simp only [sdNext] at hspec hhint
    obtain ⟨hr0, hr0d, hleast⟩ := hspec
    obtain ⟨k0, hk0, f0, hf0, rfl⟩ := (hmem r0).1 hr0
    simp only at hr0d hleast hhint
    by_cases hs0 : shift so f0 ≤ d
    · -- `d` is inside the occurrence: so is every day up to its end
      rw [if_pos hs0] at hhint
      have hsel : ∀ x, d ≤ x → x ≤ shift eo f0 → x < dateEnd →
          datedOk (.fixed none m dd) so (.fixed none m dd) eo x = true :=
        fun x h1 h2 h3 => sd_contains_specW m dd so eo hso heo x ⟨by omega, by omega⟩ k0 f0 hf0 (by omega) h2
      cases hsu : succ? (shift eo f0) with
      | none =>
        have hm := succ?_eq_none_iff.1 hsu
        rw [hsu] at hhint
        refine HintOK.of_some hhint (by simpa using hd2) ?_
        intro d' a b c'
        have := maxDay_eq
        rw [hF d' (by omega) c', hF d hd1 hd2, hsel d' a (by omega) c', hsel d (by omega) hr0d hd2]
      | some y =>
        have hm := succ?_eq_some_iff.1 hsu
        rw [hsu] at hhint
        simp only [Option.getD_some] at hhint
        refine HintOK.of_some hhint (by omega) ?_
        intro d' a b c'
        rw [hF d' (by omega) c', hF d hd1 hd2, hsel d' a (by omega) c', hsel d (by omega) hr0d hd2]
    · -- `d` is before the occurrence: nothing is selected before its start
      rw [if_neg hs0] at hhint
      have hno : ∀ x, d ≤ x → x < shift so f0 → x < dateEnd →
          datedOk (.fixed none m dd) so (.fixed none m dd) eo x = false := by
        intro x hx1 hx3 hx2
        rw [← Bool.not_eq_true]
        intro hsel
        obtain ⟨k, f, hkc, hf, hle, hge⟩ := spec_sd_elimW m dd so eo heo x (by omega) hsel
        have := lE x hx1
        by_cases hin : k < c - 1 + 12
        · have := hleast _ ((hmem _).2 ⟨k, ⟨by omega, hin⟩, f, hf, rfl⟩) (by simp only; omega)
          simp only at this
          omega
        · obtain ⟨k1, f1, hk1, hf1, hgt, hlt⟩ := hlate k f (by omega) hf
          have := hleast _ ((hmem _).2 ⟨k1, hk1, f1, hf1, rfl⟩) (by simp only; omega)
          simp only at this
          omega
      refine HintOK.of_some hhint (by omega) ?_
      intro d' a b c'
      rw [hF d' (by omega) c', hF d hd1 hd2, hno d' a b c', hno d (by omega) (by omega) hd2]

/-! ### a yearless start moved by 99 500 000 days or more: nothing ever starts (OH/Proofs/DatedFar.lean) -/

/-- the filter is false on the whole window and the hint points after the day -/
theorem date_hintOK_farStart (s : DateSpec) (so : DateOffset) (e : DateSpec) (eo : DateOffset)
    (hw : (MonthdayRange.date s so e eo).wf = true) (hsy : dateYear s = none) (hfar : 99500000 ≤ so.days)
    (d : Int) (hd2 : d < dateEnd) :
    HintOK (MonthdayRange.date s so e eo).filter (MonthdayRange.date s so e eo).hint d := by
  have hw' := hw
  simp only [MonthdayRange.wf, Bool.and_eq_true] at hw'
  obtain ⟨⟨⟨ws, wso⟩, _⟩, _⟩ := hw'
  apply MonthdayRange.date_hintOK_of_V s so e eo hw d
  · unfold datedHintV
    cases hsd : singleDayOf s e with
    | some md =>
      obtain ⟨fy, m, dd⟩ := md
      simp only []
      cases hr : singleDayV m dd so eo d (sdYears fy (yearBeforeOffset d eo) 10) with
      | none => exact hd2
      | some r =>
        obtain ⟨f, fr, rfl, hge⟩ := singleDayV_fst m dd so eo d _ r hr
        have := shiftC_far so hfar f fr.1
        simp only [sdNext]
        rw [if_neg (by omega)]; omega
    | none =>
      have hsi : singleIntervalV s so e eo = none := by simp [singleIntervalV, hsy]
      simp only [hsi]
      exact nextChange_gt _ d hd2
  · intro d' a _ c
    rw [datedFilterV_far s so e eo ws hsy hfar d' c, datedFilterV_far s so e eo ws hsy hfar d hd2]

end OH.Proofs.EvalSpec
