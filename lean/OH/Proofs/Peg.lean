import OH.Model.Peg
import OH.Proofs.PegAttr
/-
Engine lemmas about the PEG interpreter (any grammar):
 * `run_sound`      a successful match splits the input: `inp = eaten ++ rest`;
 * `run_quiet`      quiet mode matches exactly the same text, it only records no pairs;
 * `run_star_none`, `run_star_some`   unfolding of `e*` without fuel (the fuel `inp.length + 1` of the
                    model always suffices, because every iteration that continues consumes something).
-/
namespace OH.Model.Peg

variable {ρ : Type}

@[simp] theorem stripPrefix_nil (s : List Char) : stripPrefix [] s = some s := by
  cases s <;> rfl

theorem stripPrefix_append (s rest : List Char) : stripPrefix s (s ++ rest) = some rest := by
  induction s with
  | nil => simp
  | cons c cs ih => simp [stripPrefix, ih]

theorem stripPrefix_sound {s inp r : List Char} (h : stripPrefix s inp = some r) : inp = s ++ r := by
  induction s generalizing inp with
  | nil => simp at h; simp [h]
  | cons c cs ih =>
    cases inp with
    | nil => simp [stripPrefix] at h
    | cons d ds =>
      simp only [stripPrefix] at h
      split at h
      · next hcd => subst hcd; simp [ih h]
      · cases h

/-- a matcher is *sound* when a success splits its input -/
def Sound (f : List Char → Option (R ρ)) : Prop :=
  ∀ inp r, f inp = some r → inp = r.eaten ++ r.rest

theorem iterate_sound {f : List Char → Option (R ρ)} (hf : Sound f) (n : Nat) (inp : List Char) :
    inp = (iterate f n inp).eaten ++ (iterate f n inp).rest := by
  induction n generalizing inp with
  | zero => simp [iterate, R.nil]
  | succ n ih =>
    simp only [iterate]
    split
    · simp [R.nil]
    · next r1 h1 =>
      split
      · simp [R.nil]
      · have := hf _ _ h1
        have h2 := ih r1.rest
        simp only [R.append, List.append_assoc]
        rw [← h2]; exact this

theorem run_sound (e : PExpr ρ) : ∀ (q : Bool), Sound (run e q) := by
  induction e with
  | str s =>
    intro q inp r h
    simp only [run, Option.map_eq_some_iff] at h
    obtain ⟨x, hx, rfl⟩ := h
    exact stripPrefix_sound hx
  | range lo hi =>
    intro q inp r h
    cases inp with
    | nil => simp [run] at h
    | cons c cs =>
      simp only [run] at h
      split at h
      · cases h; rfl
      · cases h
  | any =>
    intro q inp r h
    cases inp with
    | nil => simp [run] at h
    | cons c cs => simp only [run] at h; cases h; rfl
  | soi => intro q inp r h; simp only [run] at h; cases h; simp [R.nil]
  | eoi =>
    intro q inp r h
    cases inp with
    | nil => simp only [run] at h; cases h; simp [R.nil]
    | cons c cs => simp [run] at h
  | seq a b iha ihb =>
    intro q inp r h
    simp only [run] at h
    split at h
    · cases h
    · next r1 h1 =>
      split at h
      · cases h
      · next r2 h2 =>
        cases h
        have e1 := iha q _ _ h1
        have e2 := ihb q _ _ h2
        simp only [R.append, List.append_assoc]
        rw [← e2]; exact e1
  | alt a b iha ihb =>
    intro q inp r h
    simp only [run] at h
    split at h
    · next x hx => cases h; exact iha q _ _ hx
    · exact ihb q _ _ h
  | opt a iha =>
    intro q inp r h
    simp only [run] at h
    split at h
    · next x hx => cases h; exact iha q _ _ hx
    · cases h; simp [R.nil]
  | star a iha =>
    intro q inp r h
    simp only [run] at h
    cases h
    exact iterate_sound (iha q) _ _
  | notp a _ =>
    intro q inp r h
    simp only [run] at h
    split at h
    · cases h
    · cases h; simp [R.nil]
  | andp a _ =>
    intro q inp r h
    simp only [run] at h
    split at h
    · cases h; simp [R.nil]
    · cases h
  | rule name atomic a iha =>
    intro q inp r h
    simp only [run] at h
    split at h
    · cases h
    · next r1 h1 =>
      have := iha _ _ _ h1
      split at h <;> (cases h; exact this)

/-! ### `e*` without fuel -/

/-- more fuel than characters never changes the result (each continuing round consumes) -/
theorem iterate_fuel {f : List Char → Option (R ρ)} (hf : Sound f) :
    ∀ (n m : Nat) (inp : List Char), inp.length < n → inp.length < m → iterate f n inp = iterate f m inp := by
  intro n
  induction n with
  | zero => intro m inp h; omega
  | succ n ih =>
    intro m inp hn hm
    cases m with
    | zero => omega
    | succ m =>
      simp only [iterate]
      split
      · rfl
      · next r1 h1 =>
        split
        · rfl
        · next hne =>
          have hs := hf _ _ h1
          have hlen : r1.rest.length < inp.length := by
            have : r1.eaten ≠ [] := by intro h; simp [h] at hne
            have : 0 < r1.eaten.length := List.length_pos_iff.mpr this
            rw [hs, List.length_append]; omega
          rw [ih m r1.rest (by omega) (by omega)]

theorem run_star_none {a : PExpr ρ} {q : Bool} {inp : List Char} (h : run a q inp = none) :
    run (.star a) q inp = some (R.nil inp) := by
  simp [run, iterate, h]

theorem run_star_empty {a : PExpr ρ} {q : Bool} {inp : List Char} {r1 : R ρ}
    (h : run a q inp = some r1) (he : r1.eaten = []) :
    run (.star a) q inp = some (R.nil inp) := by
  simp [run, iterate, h, he]

theorem run_star_some {a : PExpr ρ} {q : Bool} {inp : List Char} {r1 r2 : R ρ}
    (h : run a q inp = some r1) (hne : r1.eaten ≠ [])
    (h2 : run (.star a) q r1.rest = some r2) :
    run (.star a) q inp = some (r1.append r2) := by
  have hs := run_sound a q _ _ h
  have hlen : r1.rest.length < inp.length := by
    have : 0 < r1.eaten.length := List.length_pos_iff.mpr hne
    rw [hs, List.length_append]; omega
  simp only [run, Option.some.injEq] at h2 ⊢
  simp only [iterate, h]
  have : r1.eaten.isEmpty = false := by
    cases hh : r1.eaten with
    | nil => exact absurd hh hne
    | cons _ _ => rfl
  simp only [this, Bool.false_eq_true, if_false]
  rw [iterate_fuel (run_sound a q) inp.length (r1.rest.length + 1) r1.rest hlen (by omega), h2]

/-! ### quiet mode -/

def R.quiet (r : R ρ) : R ρ := ⟨[], r.eaten, r.rest⟩

@[simp] theorem R.quiet_eaten (r : R ρ) : r.quiet.eaten = r.eaten := rfl
@[simp] theorem R.quiet_rest (r : R ρ) : r.quiet.rest = r.rest := rfl
@[simp] theorem R.quiet_kids (r : R ρ) : r.quiet.kids = [] := rfl
@[simp] theorem R.quiet_nil (inp : List Char) : (R.nil inp : R ρ).quiet = R.nil inp := rfl
@[simp] theorem R.quiet_append (a b : R ρ) : (a.append b).quiet = a.quiet.append b.quiet := by
  simp [R.quiet, R.append]

theorem iterate_quiet {f g : List Char → Option (R ρ)} (hfg : ∀ inp, g inp = (f inp).map R.quiet) :
    ∀ (n : Nat) (inp : List Char), iterate g n inp = (iterate f n inp).quiet := by
  intro n
  induction n with
  | zero => intro inp; rfl
  | succ n ih =>
    intro inp
    simp only [iterate, hfg]
    cases hf : f inp with
    | none => rfl
    | some r1 =>
      simp only [Option.map_some, R.quiet_eaten, R.quiet_rest]
      by_cases hem : r1.eaten.isEmpty = true
      · simp [hem]
      · simp [hem, ih]

/-- quiet mode consumes exactly what the normal mode consumes; it records no pairs -/
theorem run_quiet (e : PExpr ρ) : ∀ (q : Bool) (inp : List Char), run e true inp = (run e q inp).map R.quiet := by
  induction e with
  | str s => intro q inp; simp only [run]; cases stripPrefix s inp <;> rfl
  | range lo hi =>
    intro q inp
    cases inp with
    | nil => rfl
    | cons c cs => simp only [run]; split <;> rfl
  | any => intro q inp; cases inp <;> rfl
  | soi => intro q inp; rfl
  | eoi => intro q inp; cases inp <;> rfl
  | seq a b iha ihb =>
    intro q inp
    simp only [run]
    rw [iha q inp]
    cases run a q inp with
    | none => rfl
    | some r1 =>
      simp only [Option.map_some, R.quiet_rest]
      rw [ihb q r1.rest]
      cases run b q r1.rest with
      | none => rfl
      | some r2 => simp
  | alt a b iha ihb =>
    intro q inp
    simp only [run]
    rw [iha q inp]
    cases run a q inp with
    | none => simpa using ihb q inp
    | some r1 => rfl
  | opt a iha =>
    intro q inp
    simp only [run]
    rw [iha q inp]
    cases run a q inp <;> rfl
  | star a iha =>
    intro q inp
    simp only [run, Option.map_some, Option.some.injEq]
    exact iterate_quiet (fun i => iha q i) _ _
  | notp a _ =>
    intro q inp
    simp only [run]
    cases run a true inp <;> rfl
  | andp a _ =>
    intro q inp
    simp only [run]
    cases run a true inp <;> rfl
  | rule name atomic a iha =>
    intro q inp
    simp only [run, Bool.true_or]
    rw [iha (q || atomic) inp]
    cases run a (q || atomic) inp with
    | none => rfl
    | some r => cases q <;> rfl

/-! ### unfolding equations (simp set `peg`; `e*` deliberately absent) -/

@[peg] theorem run_str (s : List Char) (q : Bool) (inp : List Char) :
    run (.str s : PExpr ρ) q inp = (stripPrefix s inp).map fun r => ⟨[], s, r⟩ := rfl
@[peg] theorem run_range_cons (lo hi : Char) (q : Bool) (c : Char) (r : List Char) :
    run (.range lo hi : PExpr ρ) q (c :: r) = if lo ≤ c ∧ c ≤ hi then some ⟨[], [c], r⟩ else none := rfl
@[peg] theorem run_range_nil (lo hi : Char) (q : Bool) : run (.range lo hi : PExpr ρ) q [] = none := rfl
@[peg] theorem run_any_cons (q : Bool) (c : Char) (r : List Char) :
    run (.any : PExpr ρ) q (c :: r) = some ⟨[], [c], r⟩ := rfl
@[peg] theorem run_any_nil (q : Bool) : run (.any : PExpr ρ) q [] = none := rfl
@[peg] theorem run_soi (q : Bool) (inp : List Char) : run (.soi : PExpr ρ) q inp = some (R.nil inp) := rfl
@[peg] theorem run_eoi_nil (q : Bool) : run (.eoi : PExpr ρ) q [] = some (R.nil []) := rfl
@[peg] theorem run_eoi_cons (q : Bool) (c : Char) (r : List Char) : run (.eoi : PExpr ρ) q (c :: r) = none := rfl
@[peg] theorem run_seq (a b : PExpr ρ) (q : Bool) (inp : List Char) :
    run (.seq a b) q inp =
      (match run a q inp with
       | none => none
       | some r1 =>
         match run b q r1.rest with
         | none => none
         | some r2 => some (r1.append r2)) := rfl
@[peg] theorem run_alt (a b : PExpr ρ) (q : Bool) (inp : List Char) :
    run (.alt a b) q inp = (match run a q inp with | some x => some x | none => run b q inp) := rfl
@[peg] theorem run_opt (a : PExpr ρ) (q : Bool) (inp : List Char) :
    run (.opt a) q inp = (match run a q inp with | some x => some x | none => some (R.nil inp)) := rfl
@[peg] theorem run_notp (a : PExpr ρ) (q : Bool) (inp : List Char) :
    run (.notp a) q inp = (match run a true inp with | some _ => none | none => some (R.nil inp)) := rfl
@[peg] theorem run_andp (a : PExpr ρ) (q : Bool) (inp : List Char) :
    run (.andp a) q inp = (match run a true inp with | some _ => some (R.nil inp) | none => none) := rfl
@[peg] theorem run_rule (name : ρ) (atomic : Bool) (a : PExpr ρ) (q : Bool) (inp : List Char) :
    run (.rule name atomic a) q inp =
      (match run a (q || atomic) inp with
       | none => none
       | some r =>
         if q then some ⟨[], r.eaten, r.rest⟩
         else some ⟨[Tree.node name r.eaten r.kids], r.eaten, r.rest⟩) := rfl
@[peg] theorem stripPrefix_cons_cons (c d : Char) (cs ds : List Char) :
    stripPrefix (c :: cs) (d :: ds) = if c = d then stripPrefix cs ds else none := rfl
@[peg] theorem stripPrefix_cons_nil (c : Char) (cs : List Char) : stripPrefix (c :: cs) [] = none := rfl
attribute [peg] stripPrefix_nil R.append R.nil

/-- a look-ahead can be decided in normal mode -/
theorem run_notp_eq (a : PExpr ρ) (q : Bool) (inp : List Char) :
    run (.notp a) q inp = (match run a false inp with | some _ => none | none => some (R.nil inp)) := by
  simp only [run]; rw [run_quiet a false inp]; cases run a false inp <;> rfl

/-- sequence is associative: same input consumed, same pairs in the same order (this is what lets the
grammar translator flatten redundant parentheses) -/
theorem run_seq_reassoc (a b c : PExpr ρ) (q : Bool) (inp : List Char) :
    run (.seq (.seq a b) c) q inp = run (.seq a (.seq b c)) q inp := by
  simp only [run_seq]
  cases run a q inp with
  | none => rfl
  | some r1 =>
    simp only []
    cases hb : run b q r1.rest with
    | none => rfl
    | some r2 =>
      simp only [R.append]
      cases run c q r2.rest with
      | none => rfl
      | some r3 => simp [R.append, List.append_assoc]

/-- ordered choice is associative -/
theorem run_alt_reassoc (a b c : PExpr ρ) (q : Bool) (inp : List Char) :
    run (.alt (.alt a b) c) q inp = run (.alt a (.alt b c)) q inp := by
  simp only [run_alt]
  cases run a q inp <;> simp

end OH.Model.Peg
