import OH.Proofs.SynNum
/-
Time selector, part 1: the times.  For every category the pair that pest produces on the printed
form is given as a function of the value (`hmTree`, `ehmTree`, `evTree`, `vtTree`, `timeTree`,
`extTree`), with two lemmas:
  `run_X   : run g_X false (Print.X x ++ rest) = some ⟨[treeX x], Print.X x, rest⟩`   (whatever follows)
  `build_X : buildX (treeX x) = .ok x`.
-/
namespace OH.Proofs.Syn
open OH.Model OH.Model.Peg OH.Model.Parser OH.Generated.Grammar

/-! ### `extended_hour`, `extended_hour_minutes` -/

theorem dc_le8 : ∀ d, d < 9 → '0' ≤ dc d ∧ dc d ≤ '8' := by decide

theorem run_extended_hour (q : Bool) (h : Nat) (hh : h ≤ 48) (rest : List Char) :
    run g_extended_hour q (Print.pad2 h ++ rest) =
      some (if q then ⟨[], Print.pad2 h, rest⟩
            else ⟨[.node .extended_hour (Print.pad2 h) []], Print.pad2 h, rest⟩) := by
  rw [pad2_lt100 h (by omega)]
  have h2 := dc_digit (h % 10) (by omega)
  by_cases h40 : h < 40
  · have h1 := dc_le3 (h / 10) (by omega)
    simp [g_extended_hour, run, h1, h2, R.append]
    cases q <;> simp
  · have e : h / 10 = 4 := by omega
    have h3 := dc_le8 (h % 10) (by omega)
    have : dc 4 = '4' := by decide
    simp [g_extended_hour, run, e, this, h3, R.append, stripPrefix]
    cases q <;> simp

/-- the pair for `HH:MM` as an `extended_hour_minutes` -/
def ehmTree (m : Nat) : T :=
  .node .extended_hour_minutes (Print.extTime m)
    [.node .extended_hour (Print.pad2 (m / 60)) [], .node .minute (Print.pad2 (m % 60)) []]

theorem run_extended_hour_minutes (m : Nat) (hm : m ≤ 2880) (rest : List Char) :
    run g_extended_hour_minutes false (Print.extTime m ++ rest) =
      some ⟨[ehmTree m], Print.extTime m, rest⟩ := by
  simp [g_extended_hour_minutes, ehmTree, peg, Print.extTime, run_extended_hour false (m / 60) (by omega),
    run_minute false (m % 60) (by omega)]

theorem build_extended_hour_minutes (m : Nat) (hm : m ≤ 2880) :
    buildExtendedHourMinutes (ehmTree m) = .ok m := by
  have a : m / 60 < 256 := by omega
  have b : m % 60 < 256 := by omega
  have c : ¬ ((48 < m / 60 ∨ 59 < m % 60) ∨ m / 60 = 48 ∧ 0 < m % 60) := by omega
  simp [buildExtendedHourMinutes, ehmTree, assertRule, Tree.rule, Tree.kids, Tree.text, parseBounded,
    natOfDigits_pad2 (m / 60) (by omega), natOfDigits_pad2 (m % 60) (by omega), u8Bound, buildExt,
    ExtendedTime.new, ExtendedTime.mins, a, b, c, bind, Except.bind]
  omega

/-! ### `hour_minutes` up to the literal `24:00` -/

/-- the pair for `HH:MM` as an `hour_minutes`: the literal `24:00` has no inner pair -/
def hmTree (m : Nat) : T :=
  .node .hour_minutes (Print.extTime m)
    (if m = 1440 then []
     else [.node .hour (Print.pad2 (m / 60)) [], .node .minute (Print.pad2 (m % 60)) []])

theorem extTime_1440 : Print.extTime 1440 = ['2', '4', ':', '0', '0'] := by decide

theorem run_hour_minutes (m : Nat) (hm : m ≤ 1440) (rest : List Char) :
    run g_hour_minutes false (Print.extTime m ++ rest) = some ⟨[hmTree m], Print.extTime m, rest⟩ := by
  by_cases h : m = 1440
  · subst h
    simp [hmTree, extTime_1440, g_hour_minutes, g_hour, g_minute, peg]
  · simp [g_hour_minutes, hmTree, h, peg, Print.extTime, run_hour false (m / 60) (by omega),
      run_minute false (m % 60) (by omega)]

theorem build_hour_minutes (m : Nat) (hm : m ≤ 1440) : buildHourMinutes (hmTree m) = .ok m := by
  by_cases h : m = 1440
  · subst h
    simp [buildHourMinutes, hmTree, assertRule, Tree.rule, Tree.kids, bind, Except.bind]
  · have a : m / 60 < 256 := by omega
    have b : m % 60 < 256 := by omega
    have c : ¬ ((48 < m / 60 ∨ 59 < m % 60) ∨ m / 60 = 48 ∧ 0 < m % 60) := by omega
    simp [buildHourMinutes, hmTree, h, assertRule, Tree.rule, Tree.kids, Tree.text, parseBounded,
      natOfDigits_pad2 (m / 60) (by omega), natOfDigits_pad2 (m % 60) (by omega), u8Bound, buildExt,
      ExtendedTime.new, ExtendedTime.mins, a, b, c, bind, Except.bind]
    omega

/-- the same pair read as a duration (the `/HH:MM` of a repetition) -/
theorem build_hour_minutes_as_duration (m : Nat) (hm : m ≤ 1440) :
    buildHourMinutesAsDuration (hmTree m) = .ok (m : Int) := by
  by_cases h : m = 1440
  · subst h
    simp [buildHourMinutesAsDuration, hmTree, assertRule, Tree.rule, Tree.kids, bind, Except.bind]
  · have a : m / 60 < i64Bound := by unfold i64Bound; omega
    have b : m % 60 < i64Bound := by unfold i64Bound; omega
    simp [buildHourMinutesAsDuration, hmTree, h, assertRule, Tree.rule, Tree.kids, Tree.text, parseBounded,
      natOfDigits_pad2 (m / 60) (by omega), natOfDigits_pad2 (m % 60) (by omega), a, b, bind, Except.bind]
    omega

/-! ### `event` -/

def evLeaf : TimeEvent → T
  | .dawn => .node .dawn (Print.eventStr .dawn) []
  | .sunrise => .node .sunrise (Print.eventStr .sunrise) []
  | .sunset => .node .sunset (Print.eventStr .sunset) []
  | .dusk => .node .dusk (Print.eventStr .dusk) []

def evTree (ev : TimeEvent) : T := .node .event (Print.eventStr ev) [evLeaf ev]

theorem run_event (ev : TimeEvent) (rest : List Char) :
    run g_event false (Print.eventStr ev ++ rest) = some ⟨[evTree ev], Print.eventStr ev, rest⟩ := by
  cases ev <;>
    simp [g_event, g_dawn, g_sunrise, g_sunset, g_dusk, evTree, evLeaf, Print.eventStr, Print.str, peg]

theorem build_event (ev : TimeEvent) : buildEvent (evTree ev) = .ok ev := by
  cases ev <;>
    simp [buildEvent, evTree, evLeaf, assertRule, Tree.rule, Tree.kids, bind, Except.bind]

/-- an event name starts with `d` or `s` -/
theorem eventStr_head (ev : TimeEvent) : ∃ c cs, Print.eventStr ev = c :: cs ∧ (c = 'd' ∨ c = 's') := by
  cases ev <;> simp [Print.eventStr, Print.str]

/-! ### `variable_time` -/

/-- offsets the parser can build: `hour_minutes` (at most `24:00`) with a sign -/
def okOffset (off : Int) : Bool := decide (-1440 ≤ off) && decide (off ≤ 1440)

def signTree (off : Int) : T :=
  if off < 0 then .node .plus_or_minus ['-'] [.node .minus ['-'] []]
  else .node .plus_or_minus ['+'] [.node .plus ['+'] []]

def vtTree (ev : TimeEvent) (off : Int) : T :=
  .node .variable_time (Print.time (.variable ev off))
    (if off = 0 then [evTree ev] else [evTree ev, signTree off, hmTree off.natAbs])

/-- the printed offset form, taken apart -/
theorem time_variable_eq (ev : TimeEvent) (off : Int) (h0 : off ≠ 0) :
    Print.time (.variable ev off) =
      '(' :: (Print.eventStr ev ++ (if off < 0 then '-' else '+') :: (Print.extTime off.natAbs ++ [')'])) := by
  by_cases hn : off < 0
  · simp [Print.time, hn, Print.extTime]
  · have hp : off > 0 := by omega
    simp [Print.time, hn, hp, Print.extTime]

theorem run_variable_time (ev : TimeEvent) (off : Int) (ho : okOffset off = true) (rest : List Char) :
    run g_variable_time false (Print.time (.variable ev off) ++ rest) =
      some ⟨[vtTree ev off], Print.time (.variable ev off), rest⟩ := by
  simp only [okOffset, Bool.and_eq_true, decide_eq_true_eq] at ho
  by_cases h0 : off = 0
  · subst h0
    obtain ⟨c, cs, e, hc⟩ := eventStr_head ev
    have hc' : '(' ≠ c := by rcases hc with rfl | rfl <;> decide
    have hev := run_event ev rest
    have : Print.time (.variable ev 0) = Print.eventStr ev := by simp [Print.time]
    rw [this]
    simp only [vtTree, this, if_true]
    rw [e] at hev ⊢
    simp only [List.cons_append] at hev ⊢
    simp [g_variable_time, peg, hc', hev]
  · have hhm := run_hour_minutes off.natAbs (by omega) (')' :: rest)
    simp only [vtTree, h0, if_false]
    rw [time_variable_eq ev off h0]
    by_cases hn : off < 0
    · simp [g_variable_time, g_plus_or_minus, g_plus, g_minus, signTree, hn, peg, run_event, hhm]
    · simp [g_variable_time, g_plus_or_minus, g_plus, g_minus, signTree, hn, peg, run_event, hhm]

theorem build_variable_time (ev : TimeEvent) (off : Int) (ho : okOffset off = true) :
    buildVariableTime (vtTree ev off) = .ok (.variable ev off) := by
  simp only [okOffset, Bool.and_eq_true, decide_eq_true_eq] at ho
  by_cases h0 : off = 0
  · subst h0
    simp [buildVariableTime, vtTree, assertRule, Tree.rule, Tree.kids, build_event, bind, Except.bind]
  · have hb := build_hour_minutes off.natAbs (by omega)
    have hlt : ¬ 32768 ≤ off.natAbs := by omega
    by_cases hn : off < 0
    · have e : -((off.natAbs : Nat) : Int) = off := by omega
      simp [buildVariableTime, vtTree, h0, signTree, hn, buildPlusOrMinus, assertRule, Tree.rule, Tree.kids,
        build_event, hb, hlt, e, bind, Except.bind]
    · have e : ((off.natAbs : Nat) : Int) = off := by omega
      simp [buildVariableTime, vtTree, h0, signTree, hn, buildPlusOrMinus, assertRule, Tree.rule, Tree.kids,
        build_event, hb, hlt, e, bind, Except.bind]

/-! ### `time` and `extended_time` -/

/-- a span start the parser can build: `hour_minutes` (up to the literal `24:00`) or a variable time -/
def okStart : Time → Bool
  | .fixed m => decide (m ≤ 1440)
  | .variable _ off => okOffset off

/-- a span end the parser can build: `extended_hour_minutes` (up to `48:00`) or a variable time -/
def okStop : Time → Bool
  | .fixed m => decide (m ≤ 2880)
  | .variable _ off => okOffset off

def timeTree : Time → T
  | .fixed m => .node .time (Print.time (.fixed m)) [hmTree m]
  | .variable ev off => .node .time (Print.time (.variable ev off)) [vtTree ev off]

def extTree : Time → T
  | .fixed m => .node .extended_time (Print.time (.fixed m)) [ehmTree m]
  | .variable ev off => .node .extended_time (Print.time (.variable ev off)) [vtTree ev off]

theorem timeTree_rule (t : Time) : (timeTree t).rule = .time := by cases t <;> rfl
theorem extTree_rule (t : Time) : (extTree t).rule = .extended_time := by cases t <;> rfl

/-- a printed variable time starts with `(`, `d` or `s` -/
theorem time_variable_head (ev : TimeEvent) (off : Int) :
    ∃ c cs, Print.time (.variable ev off) = c :: cs ∧ (c = '(' ∨ c = 'd' ∨ c = 's') := by
  by_cases h0 : off = 0
  · subst h0
    obtain ⟨c, cs, e, hc⟩ := eventStr_head ev
    exact ⟨c, cs, by simp [Print.time, e], Or.inr hc⟩
  · exact ⟨'(', _, time_variable_eq ev off h0, Or.inl rfl⟩

/-- a printed time (hours below 100) starts with a digit, `(`, `d` or `s` -/
theorem time_head (t : Time) (h : okStop t = true) :
    ∃ c cs, Print.time t = c :: cs ∧ TimeStart c := by
  cases t with
  | fixed m =>
    simp only [okStop, decide_eq_true_eq] at h
    refine ⟨dc (m / 60 / 10), dc (m / 60 % 10) :: ([':'] ++ Print.pad2 (m % 60)), ?_,
      Or.inl (dc_digit _ (by omega))⟩
    simp only [Print.time, Print.extTime, pad2_lt100 (m / 60) (by omega)]
    rfl
  | «variable» ev off =>
    obtain ⟨c, cs, e, hc⟩ := time_variable_head ev off
    exact ⟨c, cs, e, Or.inr hc⟩

theorem okStart_okStop (t : Time) (h : okStart t = true) : okStop t = true := by
  cases t with
  | fixed m => simp only [okStart, okStop, decide_eq_true_eq] at h ⊢; omega
  | «variable» ev off => exact h

/-- no rule that starts with a digit matches at the head of a printed variable time -/
theorem run_hour_minutes_variable (ev : TimeEvent) (off : Int) (rest : List Char) :
    run g_hour_minutes false (Print.time (.variable ev off) ++ rest) = none := by
  obtain ⟨c, cs, e, hc⟩ := time_variable_head ev off
  rw [e]
  rcases hc with rfl | rfl | rfl <;> simp [g_hour_minutes, g_hour, g_minute, peg]

theorem run_extended_hour_minutes_variable (ev : TimeEvent) (off : Int) (rest : List Char) :
    run g_extended_hour_minutes false (Print.time (.variable ev off) ++ rest) = none := by
  obtain ⟨c, cs, e, hc⟩ := time_variable_head ev off
  rw [e]
  rcases hc with rfl | rfl | rfl <;> simp [g_extended_hour_minutes, g_extended_hour, g_minute, peg]

theorem run_time (t : Time) (h : okStart t = true) (rest : List Char) :
    run g_time false (Print.time t ++ rest) = some ⟨[timeTree t], Print.time t, rest⟩ := by
  cases t with
  | fixed m =>
    simp only [okStart, decide_eq_true_eq] at h
    have := run_hour_minutes m h rest
    simp only [Print.time] at this ⊢
    simp [g_time, timeTree, peg, this, Print.time]
  | «variable» ev off =>
    simp [g_time, timeTree, peg, run_hour_minutes_variable, run_variable_time ev off h rest]

theorem build_time (t : Time) (h : okStart t = true) : buildTime (timeTree t) = .ok t := by
  cases t with
  | fixed m =>
    simp only [okStart, decide_eq_true_eq] at h
    simp [buildTime, timeTree, hmTree, assertRule, Tree.rule, Tree.kids, bind, Except.bind]
    have := build_hour_minutes m h
    simp only [hmTree] at this
    simp [this]
  | «variable» ev off =>
    simp [buildTime, timeTree, vtTree, assertRule, Tree.rule, Tree.kids, bind, Except.bind]
    have := build_variable_time ev off h
    simp only [vtTree] at this
    simp [this]

theorem run_extended_time (t : Time) (h : okStop t = true) (rest : List Char) :
    run g_extended_time false (Print.time t ++ rest) = some ⟨[extTree t], Print.time t, rest⟩ := by
  cases t with
  | fixed m =>
    simp only [okStop, decide_eq_true_eq] at h
    have := run_extended_hour_minutes m h rest
    simp only [Print.time] at this ⊢
    simp [g_extended_time, extTree, peg, this, Print.time]
  | «variable» ev off =>
    simp [g_extended_time, extTree, peg, run_extended_hour_minutes_variable,
      run_variable_time ev off h rest]

theorem build_extended_time (t : Time) (h : okStop t = true) : buildExtendedTime (extTree t) = .ok t := by
  cases t with
  | fixed m =>
    simp only [okStop, decide_eq_true_eq] at h
    simp [buildExtendedTime, extTree, ehmTree, assertRule, Tree.rule, Tree.kids, bind, Except.bind]
    have := build_extended_hour_minutes m h
    simp only [ehmTree] at this
    simp [this]
  | «variable» ev off =>
    simp [buildExtendedTime, extTree, vtTree, assertRule, Tree.rule, Tree.kids, bind, Except.bind]
    have := build_variable_time ev off h
    simp only [vtTree] at this
    simp [this]

end OH.Proofs.Syn
