import OH.Proofs.SynRule3
/-
Assembly, part 7: the pieces of `wide_range_selectors` on the printed wide part (`wideText`), from the
finished year / month-day / week selector lemmas:
 * the context after the wide part (`AfterWide`) gives every follow condition those lemmas need;
 * each optional part (`year_selector?`, `monthday_selector?`, `week_selector?`,
   `separator_for_readability?`) reads exactly its text, or nothing when nothing is printed;
 * `wideLoop` on the pairs found.
-/
namespace OH.Proofs.Syn
open OH.Model OH.Model.Peg OH.Model.Parser OH.Generated.Grammar OH.Proofs.Syn.Wide

/-! ### the context after the wide part -/

/-- what the selector lemmas need to know about the text `X` that follows the wide part -/
structure WideCtx (X : List Char) : Prop where
  fw : FollowWide X
  /-- a digit after the space starts a printed time `HH:MM` that goes on with `-` or `+` -/
  time : ∀ c r, X = ' ' :: c :: r → ('0' ≤ c ∧ c ≤ '9') →
    ∃ m x, m ≤ 1440 ∧ c :: r = Print.extTime m ++ x ∧ ∀ y, x ≠ ':' :: y
  /-- `M`, `F`, `S` after the space start a weekday or a holiday, not a month -/
  wday : ∀ c r, X = ' ' :: c :: r → (c = 'M' ∨ c = 'F' ∨ c = 'S') → NoDateStart (c :: r)
  noweek : run g_week_selector false X = none

theorem run_week_selector_none_space (c : Char) (r : List Char) (hc : c ≠ 'w') :
    run g_week_selector false (' ' :: c :: r) = none := by
  simp [g_week_selector, g_separator_for_readability, peg, Ne.symm hc]

/-- a printed span goes on with `-` or `+` after its start -/
theorem timeSpan_after_start (t : TimeSpan) :
    ∃ x, Print.timeSpan t = Print.time t.start ++ x ∧ ((∃ y, x = '-' :: y) ∨ (∃ y, x = '+' :: y)) := by
  unfold Print.timeSpan
  simp only [List.append_assoc]
  refine ⟨_, rfl, ?_⟩
  by_cases h : (!t.openEnd || t.stop ≠ .fixed 1440) = true
  · rw [if_pos h]
    exact .inl ⟨_, rfl⟩
  · have ho : t.openEnd = true := by
      simp only [Bool.or_eq_true, Bool.not_eq_true', decide_eq_true_eq, not_or] at h
      simpa using h.1
    rw [if_neg h, if_pos ho]
    exact .inr ⟨_, rfl⟩

theorem wdayStr_head (lo : Nat) (hlo : lo ≤ 6) :
    ∃ c c2, Print.wdayStr lo = [c, c2] ∧ WeekdayStart c ∧ ¬ ('0' ≤ c ∧ c ≤ '9') ∧ c ≠ 'w' := by
  rcases le6_cases hlo with h | h | h | h | h | h | h <;> subst h
  · exact ⟨'M', 'o', by decide, by simp [WeekdayStart], by decide, by decide⟩
  · exact ⟨'T', 'u', by decide, by simp [WeekdayStart], by decide, by decide⟩
  · exact ⟨'W', 'e', by decide, by simp [WeekdayStart], by decide, by decide⟩
  · exact ⟨'T', 'h', by decide, by simp [WeekdayStart], by decide, by decide⟩
  · exact ⟨'F', 'r', by decide, by simp [WeekdayStart], by decide, by decide⟩
  · exact ⟨'S', 'a', by decide, by simp [WeekdayStart], by decide, by decide⟩
  · exact ⟨'S', 'u', by decide, by simp [WeekdayStart], by decide, by decide⟩

/-- a printed time selector that starts with a digit starts with `HH:MM` (at most `24:00`), and `-` or
`+` comes next -/
theorem timeSel_digit (ts : List TimeSpan) (hts : okTimes ts = true) (R : List Char) (c : Char)
    (r : List Char) (e : timeSel ts ++ R = c :: r) (hd : '0' ≤ c ∧ c ≤ '9') :
    ∃ m x, m ≤ 1440 ∧ c :: r = Print.extTime m ++ x ∧ ∀ y, x ≠ ':' :: y := by
  obtain ⟨hne, hok⟩ := (okTimes_iff ts).mp hts
  cases ts with
  | nil => exact absurd rfl hne
  | cons t tl =>
    have h := hok t (by simp)
    simp only [okSpan, Bool.and_eq_true] at h
    obtain ⟨x, ex, hx⟩ := timeSpan_after_start t
    rw [timeSel, selector_cons, ex] at e
    cases hs : t.start with
    | fixed m =>
      have hm : m ≤ 1440 := by
        have := h.1.1; rw [hs] at this; simpa [okStart] using this
      refine ⟨m, x ++ (tailStr Print.timeSpan tl ++ R), hm, ?_, ?_⟩
      · rw [← e, hs]; simp [Print.time]
      · intro y ey
        rcases hx with ⟨z, rfl⟩ | ⟨z, rfl⟩ <;> simp at ey
    | «variable» ev off =>
      exfalso
      obtain ⟨c', cs', e', hc'⟩ := time_variable_head ev off
      rw [hs, e'] at e
      simp only [List.cons_append, List.cons.injEq] at e
      rw [← e.1] at hd
      rcases hc' with rfl | rfl | rfl <;> exact absurd hd (by decide)

theorem wideCtx_of_afterWide (sp rest : List Char) (h : AfterWide sp rest) : WideCtx (sp ++ rest) := by
  rcases h with ⟨rfl, rfl | ⟨r, rfl⟩⟩ | ⟨rfl, ⟨c, r, rfl, hc⟩ | ⟨ws, r, hws, rfl⟩ | ⟨ts, r, hts, rfl⟩⟩
  · exact ⟨.inl (.inl rfl), fun _ _ e _ => (by cases e), fun _ _ e _ => (by cases e),
      run_week_selector_none_start [] (by simp) (by simp) (by simp)⟩
  · exact ⟨.inl (.inr (.inl ⟨r, rfl⟩)), fun _ _ e _ => (by cases e), fun _ _ e _ => (by cases e),
      run_week_selector_none_start _ (by simp) (by simp) (by simp)⟩
  · refine ⟨.inl (.inr (.inr ⟨c, r, rfl, hc⟩)), ?_, ?_, ?_⟩
    · intro c' r' e hd
      cases e
      rcases hc with rfl | rfl | rfl | rfl | rfl | rfl <;> exact absurd hd (by decide)
    · intro c' r' e hm
      cases e
      rcases hc with rfl | rfl | rfl | rfl | rfl | rfl <;> simp at hm
    · apply run_week_selector_none_space
      rcases hc with rfl | rfl | rfl | rfl | rfl | rfl <;> decide
  · -- a printed weekday selector
    have key : ∀ c tl, wdSel ws = c :: tl → WeekdayStart c → ¬ ('0' ≤ c ∧ c ≤ '9') → c ≠ 'w' →
        NoDateStart (wdSel ws ++ r) → WideCtx ([' '] ++ (wdSel ws ++ r)) := by
      intro c tl e hc hnd hnw hns
      refine ⟨.inr ⟨c, tl ++ r, by rw [e]; rfl, .inr hc⟩, ?_, ?_, ?_⟩
      · intro c' r' e' hd
        rw [e] at e'
        cases e'
        exact absurd hd hnd
      · intro c' r' e' _
        have : c' :: r' = wdSel ws ++ r := by
          simp only [List.singleton_append, List.cons.injEq, true_and] at e'
          exact e'.symm
        rw [this]; exact hns
      · rw [e]
        exact run_week_selector_none_space c _ hnw
    rcases wdSel_head ws hws with ⟨lo, tl, hlo, e⟩ | ⟨c, tl, e, hc⟩
    · have hns : NoDateStart (wdSel ws ++ r) := by
        rw [e, List.append_assoc]; exact NoDateStart_wday lo _
      obtain ⟨c, c2, e2, h1, h2, h3⟩ := wdayStr_head lo hlo
      rw [e2] at e
      exact key c (c2 :: tl) e h1 h2 h3 hns
    · have hns : NoDateStart (wdSel ws ++ r) := by
        rw [e]; exact NoDateStart_holiday c _
      rcases hc with rfl | rfl <;>
        exact key _ _ e (by simp [WeekdayStart]) (by decide) (by decide) hns
  · -- a printed time selector
    obtain ⟨hne, hok⟩ := (okTimes_iff ts).mp hts
    obtain ⟨c, cs, e, hc⟩ := time_selector_head ts hne hok
    have e' : timeSel ts = c :: cs := e
    refine ⟨.inr ⟨c, cs ++ r, by rw [e']; rfl, .inl hc⟩, ?_, ?_, ?_⟩
    · intro c' r' e'' hd
      have : timeSel ts ++ r = c' :: r' := by
        simp only [List.singleton_append, List.cons.injEq, true_and] at e''
        exact e''
      exact timeSel_digit ts hts r c' r' this hd
    · intro c' r' e'' hm
      exfalso
      rw [e'] at e''
      cases e''
      rcases hc with ⟨h0, h9⟩ | rfl | rfl | rfl
      · rcases hm with rfl | rfl | rfl <;> exact absurd h9 (by decide)
      · simp at hm
      · simp at hm
      · simp at hm
    · rw [e']
      apply run_week_selector_none_space
      rcases hc with ⟨h0, h9⟩ | rfl | rfl | rfl
      · intro e; subst e; exact absurd h9 (by decide)
      · decide
      · decide
      · decide

/-- `separator_for_readability?` takes the space, when there is one -/
theorem run_opt_sep_after (sp rest : List Char) (h : AfterWide sp rest) :
    run (.opt g_separator_for_readability) false (sp ++ rest) = some ⟨[], sp, rest⟩ := by
  rcases h with ⟨rfl, rfl | ⟨r, rfl⟩⟩ | ⟨rfl, _⟩ <;>
    simp [g_separator_for_readability, peg]

/-- after the wide part: the end, `,` or a space -/
theorem followWide_head (X : List Char) (h : FollowWide X) :
    X = [] ∨ ∃ c r, X = c :: r ∧ (c = ',' ∨ c = ' ') := by
  rcases h with (rfl | ⟨r, rfl⟩ | ⟨c, r, rfl, _⟩) | ⟨c, r, rfl, _⟩
  · exact .inl rfl
  · exact .inr ⟨_, _, rfl, .inl rfl⟩
  · exact .inr ⟨_, _, rfl, .inr rfl⟩
  · exact .inr ⟨_, _, rfl, .inr rfl⟩

/-! ### optional parts -/

/-- the pairs of an optional part: none when the list is empty, one pair that builds the list
otherwise -/
def OptKid {α} (ks : List T) (n : PRule) (build : T → PM (List α)) (xs : List α) : Prop :=
  (xs = [] ∧ ks = []) ∨ ∃ t, ks = [t] ∧ t.rule = n ∧ build t = .ok xs

theorem opt_part {α} (n : PRule) (atm : Bool) (body : G) (build : T → PM (List α)) (text : List Char)
    (xs : List α) (Y : List Char)
    (h1 : xs ≠ [] → ParsesTo (.rule n atm body) build text Y xs)
    (h2 : xs = [] → text = [] ∧ run (.rule n atm body) false Y = none) :
    ∃ ks, run (.opt (.rule n atm body)) false (text ++ Y) = some ⟨ks, text, Y⟩ ∧ OptKid ks n build xs := by
  by_cases h : xs = []
  · obtain ⟨rfl, hnone⟩ := h2 h
    exact ⟨[], by simp [run_opt, hnone, R.nil], .inl ⟨h, rfl⟩⟩
  · obtain ⟨t, ht, hb⟩ := h1 h
    exact ⟨[t], by simp [run_opt, ht], .inr ⟨t, rfl, rule_of_run ht, hb⟩⟩

/-- the week part of the printed wide text -/
def weekPart (ys : List YearRange) (ms : List MonthdayRange) (ws : List WeekRange) : List Char :=
  if !ws.isEmpty then
    (if !ys.isEmpty || !ms.isEmpty then [' '] else []) ++ Print.str "week" ++ Print.selector Print.weekRange ws
  else []

theorem str_week : Print.str "week" = ['w', 'e', 'e', 'k'] := by decide

theorem wideText_parts (d : DaySelector) :
    wideText d = Print.selector Print.yearRange d.year ++ yearDash d.year d.monthday
      ++ Print.selector Print.monthdayRange d.monthday ++ weekPart d.year d.monthday d.week := rfl

theorem opt_week (ys : List YearRange) (ms : List MonthdayRange) (ws : List WeekRange)
    (hok : ∀ w ∈ ws, okWeek w = true) (X : List Char) (hctx : WideCtx X) :
    ∃ ks, run (.opt g_week_selector) false (weekPart ys ms ws ++ X) = some ⟨ks, weekPart ys ms ws, X⟩
      ∧ OptKid ks .week_selector buildWeekSelector ws := by
  have hfw := FollowWeek_of_FollowWide X hctx.fw
  apply opt_part
  · intro hne
    have hne' : ws.isEmpty = false := by cases ws <;> simp_all
    by_cases hl : (!ys.isEmpty || !ms.isEmpty) = true
    · have e : weekPart ys ms ws = ' ' :: 'w' :: 'e' :: 'e' :: 'k' :: Print.selector Print.weekRange ws := by
        simp [weekPart, hne', hl, str_week]
      rw [e]
      exact parses_week_selector ws hne hok X hfw
    · have e : weekPart ys ms ws = 'w' :: 'e' :: 'e' :: 'k' :: Print.selector Print.weekRange ws := by
        simp [weekPart, hne', hl, str_week]
      rw [e]
      exact parses_week_selector_start ws hne hok X hfw
  · intro h
    subst h
    exact ⟨by simp [weekPart], hctx.noweek⟩

/-- a month-day selector is printed: what follows it (the week part, or the context) -/
theorem followMonthday_ctx (ys : List YearRange) (ms : List MonthdayRange) (hms : ms ≠ [])
    (ws : List WeekRange) (X : List Char) (hctx : WideCtx X) : FollowMonthday (weekPart ys ms ws ++ X) := by
  cases ws with
  | nil =>
    simp only [weekPart, List.isEmpty_nil, Bool.not_true, Bool.false_eq_true, if_false, List.nil_append]
    exact FollowMonthday_of_FollowWide_time X hctx.fw hctx.time
  | cons w wl =>
    have : ms.isEmpty = false := by cases ms <;> simp_all
    simp only [weekPart, List.isEmpty_cons, Bool.not_false, if_true, this, Bool.or_true, str_week,
      List.cons_append, List.nil_append]
    exact FollowMonthday_week _

/-- the head of what follows the years when no month-day selector is printed: a space, `w`, `,` or the end -/
theorem week_ctx_head (ys : List YearRange) (ws : List WeekRange) (X : List Char) (hctx : WideCtx X) :
    weekPart ys [] ws ++ X = [] ∨ ∃ c r, weekPart ys [] ws ++ X = c :: r ∧ (c = ',' ∨ c = ' ' ∨ c = 'w') := by
  cases ws with
  | nil =>
    simp only [weekPart, List.isEmpty_nil, Bool.not_true, Bool.false_eq_true, if_false, List.nil_append]
    rcases followWide_head X hctx.fw with h | ⟨c, r, e, hc⟩
    · exact .inl h
    · exact .inr ⟨c, r, e, by rcases hc with h | h <;> simp [h]⟩
  | cons w wl =>
    by_cases hy : ys.isEmpty = true
    · simp only [weekPart, List.isEmpty_cons, List.isEmpty_nil, Bool.not_false, Bool.not_true, hy,
        Bool.or_self, Bool.false_eq_true, if_true, if_false, str_week, List.cons_append, List.nil_append]
      exact .inr ⟨_, _, rfl, by simp⟩
    · simp only [weekPart, List.isEmpty_cons, List.isEmpty_nil, Bool.not_false, Bool.not_true, hy,
        Bool.or_false, if_true, str_week, List.cons_append, List.nil_append]
      exact .inr ⟨_, _, rfl, by simp⟩

theorem run_monthday_selector_none_head (Y : List Char)
    (h : Y = [] ∨ ∃ c r, Y = c :: r ∧ (c = ',' ∨ c = ' ' ∨ c = 'w')) :
    run g_monthday_selector false Y = none := by
  have : run g_monthday_range false Y = none := by
    apply run_md_none_head
    intro c r e hc
    rcases h with rfl | ⟨c', r', rfl, h⟩
    · cases e
    · cases e
      rcases h with rfl | rfl | rfl <;>
        (rcases hc with h | h | h
         · exact absurd h (by decide)
         · rcases h with h | h | h | h | h | h | h | h <;> exact absurd h (by decide)
         · exact absurd h (by decide))
  simp [g_monthday_selector, peg, this]

theorem opt_monthday (ys : List YearRange) (ms : List MonthdayRange)
    (hok : ∀ m ∈ ms, okMonthday m = true) (ws : List WeekRange) (X : List Char) (hctx : WideCtx X) :
    ∃ ks, run (.opt g_monthday_selector) false
        (Print.selector Print.monthdayRange ms ++ (weekPart ys ms ws ++ X))
        = some ⟨ks, Print.selector Print.monthdayRange ms, weekPart ys ms ws ++ X⟩
      ∧ OptKid ks .monthday_selector buildMonthdaySelector ms := by
  apply opt_part
  · intro hne
    exact parses_monthday_selector ms hne hok _ (followMonthday_ctx ys ms hne ws X hctx)
  · intro h
    subst h
    exact ⟨rfl, run_monthday_selector_none_head _ (week_ctx_head ys ws X hctx)⟩

/-! ### `wideLoop` -/

theorem wideLoop_kids (ky km kw : List T) (ys : List YearRange) (ms : List MonthdayRange)
    (ws : List WeekRange) (hy : OptKid ky .year_selector buildYearSelector ys)
    (hm : OptKid km .monthday_selector buildMonthdaySelector ms)
    (hw : OptKid kw .week_selector buildWeekSelector ws) :
    wideLoop (ky ++ km ++ kw) {} = .ok ⟨ys, ms, ws, none⟩ := by
  rcases hy with ⟨rfl, rfl⟩ | ⟨ty, rfl, ry, by_⟩ <;> rcases hm with ⟨rfl, rfl⟩ | ⟨tm, rfl, rm, bm⟩ <;>
    rcases hw with ⟨rfl, rfl⟩ | ⟨tw, rfl, rw', bw⟩ <;>
    simp [wideLoop, bind, Except.bind, *]

end OH.Proofs.Syn
