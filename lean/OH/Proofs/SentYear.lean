import OH.Proofs.SynWideFail
import OH.Proofs.SentNum
/-
C05, wide-range selectors of SENTENCES, part 1: comma lists of sentences in general (`parses_list`:
the existential analogue of `Syn.Wide.run_list`, so that element lemmas in `ParsesTo` form compose),
and the year selector
  year_range = { year ~ year_range_plus | year ~ ("-" ~ year ~ ("/" ~ positive_number)?)? }
against `YearR.render`: `2020`, `2020+` (first alternative), `2020-2025`, `2020-2030/02` (a step with
leading zeros).  Helpers live in `OH.Proofs.Sent.Wide`, the statements for the assembly in
`OH.Proofs.Sent`.
-/
namespace OH.Proofs.Sent.Wide
open OH.Model OH.Model.Peg OH.Model.Parser OH.Generated.Grammar OH.Proofs.Syn OH.Proofs.Syn.Wide
open OH.Spec.Sent (Num YearR commaList dec)

/-! ### comma-separated lists -/

theorem commaList_eq {α} (f : α → List Char) (xs : List α) : commaList f xs = Print.selector f xs := by
  induction xs with
  | nil => rfl
  | cons x l ih =>
    cases l with
    | nil => rfl
    | cons y l => simp only [commaList, Print.selector, ih]

theorem commaList_cons2 {α} (f : α → List Char) (x y : α) (l : List α) :
    commaList f (x :: y :: l) = f x ++ ',' :: commaList f (y :: l) := by
  simp [commaList]

/-- the text of a non-empty list starts with the text of its first element -/
theorem commaList_head {α} (f : α → List Char) (x : α) (l : List α) :
    ∃ tail, commaList f (x :: l) = f x ++ tail ∧ (tail = [] ∧ l = [] ∨ ∃ t, tail = ',' :: t) := by
  cases l with
  | nil => exact ⟨[], by simp [commaList], Or.inl ⟨rfl, rfl⟩⟩
  | cons y l => exact ⟨_, commaList_cons2 f x y l, Or.inr ⟨_, rfl⟩⟩

/-- `g ~ ("," ~ g)*` reads a written non-empty list back, one pair per element, and the builder maps
the pairs to the denotations.  `Fe x rest`: what may follow the element `x` (any comma must be
accepted); the repetition must stop at `rest`. -/
theorem parses_list {α β} (g : G) (build : T → PM β) (f : α → List Char) (den : α → β)
    (ok : α → Prop) (Fe : α → List Char → Prop)
    (hel : ∀ x, ok x → ∀ rest, Fe x rest → ParsesTo g build (f x) rest (den x))
    (hmid : ∀ x r, Fe x (',' :: r)) :
    ∀ (xs : List α) (hne : xs ≠ []), (∀ x ∈ xs, ok x) → ∀ rest, Fe (xs.getLast hne) rest →
      run (.seq (.str [',']) g) false rest = none →
      ∃ ts, run (.seq g (.star (.seq (.str [',']) g))) false (commaList f xs ++ rest)
          = some ⟨ts, commaList f xs, rest⟩ ∧ ts.mapM build = .ok (xs.map den) := by
  intro xs
  induction xs with
  | nil => intro hne; exact absurd rfl hne
  | cons x l ih =>
    intro hne hok rest hF hstop
    cases l with
    | nil =>
      obtain ⟨t, h1, hb⟩ := hel x (hok x (by simp)) rest (by simpa using hF)
      have h2 := run_star_none hstop
      refine ⟨[t], ?_, ?_⟩
      · simp only [commaList, run_seq, h1, h2, R.nil, R.append, List.append_nil]
      · simp [List.mapM_cons, hb, bind, Except.bind, pure, Except.pure]
    | cons y l =>
      obtain ⟨ts, hrec, hbs⟩ :=
        ih (by simp) (fun z hz => hok z (by simp [hz])) rest (by simpa using hF) hstop
      have h2 := star_comma hrec
      obtain ⟨t, h1, hb⟩ :=
        hel x (hok x (by simp)) (',' :: (commaList f (y :: l) ++ rest)) (hmid x _)
      refine ⟨t :: ts, ?_, ?_⟩
      · rw [commaList_cons2, List.append_assoc, List.cons_append]
        simp only [run_seq, h1, h2, R.append, List.cons_append, List.nil_append]
      · simp only [List.mapM_cons, hb, hbs, bind, Except.bind, pure, Except.pure, List.map]

/-- a selector rule `X_selector = { X ~ ("," ~ X)* }` whose builder is `assert; kids.mapM buildX` -/
theorem parses_selector {β} (name : PRule) (g : G) (build : T → PM β) (buildSel : T → PM (List β))
    (hb : ∀ s kids, buildSel (.node name s kids) = kids.mapM build)
    (s rest : List Char) (xs : List β)
    (h : ∃ ts, run (.seq g (.star (.seq (.str [',']) g))) false (s ++ rest) = some ⟨ts, s, rest⟩ ∧
      ts.mapM build = .ok xs) :
    ParsesTo (.rule name false (.seq g (.star (.seq (.str [',']) g)))) buildSel s rest xs := by
  obtain ⟨ts, hrun, hbs⟩ := h
  refine ParsesTo.mk' name ts ?_ ?_
  · simp only [run_rule, Bool.or_self, hrun]
    simp
  · rw [hb, hbs]

/-! ### `year_range` -/

def numTree (s : Num) : T := .node .positive_number s.render []

@[simp] theorem numTree_rule (s : Num) : (numTree s).rule = .positive_number := rfl

def yrPlusTree : T := .node .year_range_plus ['+'] []

def yrTree : YearR → T
  | .single a => .node .year_range (YearR.render (.single a)) [yearTree a]
  | .plus a => .node .year_range (YearR.render (.plus a)) [yearTree a, yrPlusTree]
  | .range a b => .node .year_range (YearR.render (.range a b)) [yearTree a, yearTree b]
  | .step a b s => .node .year_range (YearR.render (.step a b s)) [yearTree a, yearTree b, numTree s]

/-- what may follow ONE written year range -/
def FeYr : YearR → List Char → Prop
  | .single _, rest => (∀ r, rest ≠ '+' :: r) ∧ (∀ r, rest ≠ '-' :: r)
  | .plus _, _ => True
  | .range _ _, rest => ∀ r, rest ≠ '/' :: r
  | .step _ _ _, rest => NoDigit rest

theorem FeYr_comma (y : YearR) (r : List Char) : FeYr y (',' :: r) := by
  cases y with
  | single a => exact ⟨fun _ h => (by cases h), fun _ h => (by cases h)⟩
  | plus a => trivial
  | range a b => exact fun _ h => (by cases h)
  | step a b s => intro c r' e; cases e; decide

theorem yearWf_iff (a : Nat) : OH.Spec.Sent.yearWf a = true ↔ 1900 ≤ a ∧ a ≤ 9999 := by
  simp [OH.Spec.Sent.yearWf]

theorem run_yr (y : YearR) (hy : y.wf = true) (rest : List Char) (hf : FeYr y rest) :
    run g_year_range false (y.render ++ rest) = some ⟨[yrTree y], y.render, rest⟩ := by
  cases y with
  | single a =>
    have ha := (yearWf_iff a).mp hy
    have h1 := str1_none true '+' rest hf.1
    have h2 := str1_none false '-' rest hf.2
    simp only [YearR.render, yrTree, dec_eq_natStr]
    simp [g_year_range, g_year_range_plus, peg, run_year false a ha, h1, h2]
  | plus a =>
    have ha := (yearWf_iff a).mp hy
    simp only [YearR.render, yrTree, dec_eq_natStr, yrPlusTree, List.append_assoc, List.cons_append,
      List.nil_append]
    simp [g_year_range, g_year_range_plus, peg, run_year false a ha]
  | range a b =>
    simp only [YearR.wf, Bool.and_eq_true, yearWf_iff] at hy
    have h2 := str1_none false '/' rest hf
    simp only [YearR.render, yrTree, dec_eq_natStr, List.append_assoc, List.cons_append,
      List.nil_append]
    simp [g_year_range, g_year_range_plus, peg, run_year false a hy.1, run_year false b hy.2, h2]
  | step a b s =>
    simp only [YearR.wf, Bool.and_eq_true, yearWf_iff, OH.Spec.Sent.Num.wf, decide_eq_true_eq] at hy
    have hpn := run_positive_number_num false s (by omega) rest hf
    simp only [YearR.render, yrTree, dec_eq_natStr, List.append_assoc, List.cons_append,
      List.nil_append]
    simp [g_year_range, g_year_range_plus, peg, run_year false a hy.1.1, run_year false b hy.1.2, hpn,
      numTree]

theorem build_yr (y : YearR) (hy : y.wf = true) : buildYearRange (yrTree y) = .ok y.denote := by
  have hb1 : ¬ u16Bound ≤ 1 := by unfold u16Bound; omega
  cases y with
  | single a =>
    have ha := (yearWf_iff a).mp hy
    simp [buildYearRange, yrTree, assertRule, build_year a ha.2, hb1, YearR.denote, bind, Except.bind]
  | plus a =>
    have ha := (yearWf_iff a).mp hy
    simp [buildYearRange, yrTree, yrPlusTree, assertRule, build_year a ha.2, hb1, YearR.denote, bind,
      Except.bind]
  | range a b =>
    simp only [YearR.wf, Bool.and_eq_true, yearWf_iff] at hy
    simp [buildYearRange, yrTree, assertRule, build_year a hy.1.2, build_year b hy.2.2, hb1,
      YearR.denote, bind, Except.bind]
  | step a b s =>
    simp only [YearR.wf, Bool.and_eq_true, yearWf_iff, OH.Spec.Sent.Num.wf, decide_eq_true_eq] at hy
    have hb : ¬ u16Bound ≤ s.val := by unfold u16Bound; omega
    have hpn := build_positive_number_num s (by unfold u64Bound; omega)
    simp [buildYearRange, yrTree, numTree, assertRule, build_year a hy.1.1.2, build_year b hy.1.2.2,
      hpn, hb, YearR.denote, bind, Except.bind]

theorem parses_yr (y : YearR) (hy : y.wf = true) (rest : List Char) (hf : FeYr y rest) :
    ParsesTo g_year_range buildYearRange y.render rest y.denote :=
  ⟨yrTree y, run_yr y hy rest hf, build_yr y hy⟩

/-- the text of a year range: a year, then nothing, `+…`, or `-…` -/
theorem yr_text (y : YearR) (hy : y.wf = true) :
    ∃ a tail, (1900 ≤ a ∧ a ≤ 9999) ∧ y.render = Print.natStr a ++ tail ∧
      (tail = [] ∧ y = .single a ∨ (∃ t, tail = '+' :: t) ∨ (∃ t, tail = '-' :: t)) := by
  cases y with
  | single a =>
    exact ⟨a, [], (yearWf_iff a).mp hy, by simp [YearR.render, dec_eq_natStr], Or.inl ⟨rfl, rfl⟩⟩
  | plus a =>
    exact ⟨a, ['+'], (yearWf_iff a).mp hy, by simp [YearR.render, dec_eq_natStr],
      Or.inr (Or.inl ⟨_, rfl⟩)⟩
  | range a b =>
    simp only [YearR.wf, Bool.and_eq_true, yearWf_iff] at hy
    exact ⟨a, _, hy.1, by simp only [YearR.render, dec_eq_natStr, List.append_assoc]; rfl,
      Or.inr (Or.inr ⟨_, rfl⟩)⟩
  | step a b s =>
    simp only [YearR.wf, Bool.and_eq_true, yearWf_iff] at hy
    exact ⟨a, _, hy.1.1, by simp only [YearR.render, dec_eq_natStr, List.append_assoc]; rfl,
      Or.inr (Or.inr ⟨_, rfl⟩)⟩

end OH.Proofs.Sent.Wide

namespace OH.Proofs.Sent
open OH.Model OH.Model.Peg OH.Model.Parser OH.Generated.Grammar OH.Proofs.Syn OH.Proofs.Syn.Wide
open OH.Proofs.Sent.Wide
open OH.Spec.Sent (Num YearR commaList)

/-! ### the year selector -/

/-- the analogue of `YearStepFollow`: after a last range that ends with `/step` no digit may follow -/
def YearStepFollowS (ys : List YearR) (rest : List Char) : Prop :=
  ∀ a b s, ys.getLast? = some (.step a b s) → NoDigit rest

theorem all_wf_mem {α} {p : α → Bool} {xs : List α} (h : xs.all p = true) : ∀ x ∈ xs, p x = true := by
  simpa [List.all_eq_true] using h

/-- the general form: only what the LAST range needs is asked of `rest` (`FeYr`: nothing after `2020+`),
and the repetition must stop -/
theorem parses_years' (ys : List YearR) (hne : ys ≠ []) (h : ys.all YearR.wf = true) (rest : List Char)
    (hlast : FeYr (ys.getLast hne) rest)
    (hstop : ∀ c r, rest = ',' :: c :: r → ¬ ('1' ≤ c ∧ c ≤ '9')) :
    ParsesTo g_year_selector buildYearSelector (commaList YearR.render ys) rest (ys.map YearR.denote) := by
  have hstop' : run (.seq (.str [',']) g_year_range) false rest = none := by
    cases rest with
    | nil => simp [peg]
    | cons c r =>
      by_cases hc : c = ','
      · subst hc
        have hy : run g_year false r = none := by
          apply run_year_none
          intro c' r' e
          exact hstop c' r' (by rw [e])
        simp [g_year_range, peg, hy]
      · simp [peg, Ne.symm hc]
  exact parses_selector .year_selector g_year_range buildYearRange buildYearSelector
    (fun s kids => by simp [buildYearSelector, assertRule, bind, Except.bind]) _ rest _
    (parses_list g_year_range buildYearRange YearR.render YearR.denote (fun y => y.wf = true) FeYr
      parses_yr FeYr_comma ys hne (all_wf_mem h) rest hlast hstop')

theorem FeYr_of_follow (ys : List YearR) (hne : ys ≠ []) (rest : List Char) (hf : FollowYear rest)
    (hd : YearStepFollowS ys rest) : FeYr (ys.getLast hne) rest := by
  have hl := List.getLast?_eq_some_getLast hne
  cases hy : ys.getLast hne with
  | single a => exact ⟨hf.1, hf.2.1⟩
  | plus a => trivial
  | range a b => exact hf.2.2.1
  | step a b s => rw [hy] at hl; exact hd a b s hl

/-- every well-formed year selector parses to its denotation -/
theorem parses_years (ys : List YearR) (hne : ys ≠ []) (h : ys.all YearR.wf = true) (rest : List Char)
    (hf : FollowYear rest) (hd : YearStepFollowS ys rest) :
    ParsesTo g_year_selector buildYearSelector (commaList YearR.render ys) rest (ys.map YearR.denote) :=
  parses_years' ys hne h rest (FeYr_of_follow ys hne rest hf hd) hf.2.2.2

theorem YearStepFollowS_of_NoDigit (ys : List YearR) (rest : List Char) (h : NoDigit rest) :
    YearStepFollowS ys rest := fun _ _ _ _ => h

/-! ### heads and failures -/

/-- a year selector is a year followed by nothing (a single plain year), `+`, `-` or `,` -/
theorem years_text (ys : List YearR) (hne : ys ≠ []) (h : ys.all YearR.wf = true) :
    ∃ a tail, (1900 ≤ a ∧ a ≤ 9999) ∧ commaList YearR.render ys = Print.natStr a ++ tail ∧
      (tail = [] ∧ ys = [.single a] ∨ (∃ t, tail = '+' :: t) ∨ (∃ t, tail = '-' :: t) ∨
        (∃ t, tail = ',' :: t)) := by
  cases ys with
  | nil => exact absurd rfl hne
  | cons y l =>
    obtain ⟨a, t1, ha, e1, ht1⟩ := yr_text y (all_wf_mem h y (by simp))
    obtain ⟨t2, e2, ht2⟩ := commaList_head YearR.render y l
    refine ⟨a, t1 ++ t2, ha, by rw [e2, e1, List.append_assoc], ?_⟩
    rcases ht1 with ⟨rfl, rfl⟩ | ⟨t, rfl⟩ | ⟨t, rfl⟩
    · rcases ht2 with ⟨rfl, rfl⟩ | ⟨t, rfl⟩
      · exact Or.inl ⟨rfl, rfl⟩
      · exact Or.inr (Or.inr (Or.inr ⟨t, rfl⟩))
    · exact Or.inr (Or.inl ⟨_, rfl⟩)
    · exact Or.inr (Or.inr (Or.inl ⟨_, rfl⟩))

/-- a year selector starts with a digit `1..9` -/
theorem years_head (ys : List YearR) (hne : ys ≠ []) (h : ys.all YearR.wf = true) :
    ∃ c r, commaList YearR.render ys = c :: r ∧ '1' ≤ c ∧ c ≤ '9' := by
  obtain ⟨a, tail, ha, e, _⟩ := years_text ys hne h
  obtain ⟨c, cs, ec, hc⟩ := natStr_year_head a ha
  exact ⟨c, cs ++ tail, by rw [e, ec]; rfl, hc⟩

/-- the selector is a single plain year (`2020`): the only case in which what follows matters for the
failure of `monthday_selector` -/
def SinglePlainYear : List YearR → Bool
  | [.single _] => true
  | _ => false

/-- `monthday_selector` (tried first by `wide_range_selectors`) fails on a year selector; when the
selector is a single plain year, what follows must not be readable as a date (`YearNotDate`) -/
theorem run_monthday_selector_none_yearsS (ys : List YearR) (hne : ys ≠ []) (h : ys.all YearR.wf = true)
    (rest : List Char) (hrest : SinglePlainYear ys = true → YearNotDate rest) :
    run g_monthday_selector false (commaList YearR.render ys ++ rest) = none := by
  obtain ⟨a, tail, ha, e, ht⟩ := years_text ys hne h
  rw [e, List.append_assoc]
  apply run_monthday_selector_none_year a ha
  rcases ht with ⟨rfl, rfl⟩ | ⟨t, rfl⟩ | ⟨t, rfl⟩ | ⟨t, rfl⟩
  · simpa using hrest rfl
  · exact YearNotDate_of_head '+' _ (by decide) (by simp [MonthLetter]) (by decide)
  · exact YearNotDate_of_head '-' _ (by decide) (by simp [MonthLetter]) (by decide)
  · exact YearNotDate_of_head ',' _ (by decide) (by simp [MonthLetter]) (by decide)

/-- `24/7` is not a prefix of a year selector -/
theorem run_always_open_none_yearsS (ys : List YearR) (hne : ys ≠ []) (h : ys.all YearR.wf = true)
    (rest : List Char) : run g_always_open false (commaList YearR.render ys ++ rest) = none := by
  obtain ⟨a, tail, ha, e, _⟩ := years_text ys hne h
  rw [e, List.append_assoc]
  exact run_always_open_none_year a (by omega) _

/-- `year_selector` needs a digit `1..9` -/
theorem run_year_selector_none (inp : List Char) (h : ∀ c r, inp = c :: r → ¬ ('1' ≤ c ∧ c ≤ '9')) :
    run g_year_selector false inp = none := by
  have hy := run_year_none false inp h
  simp [g_year_selector, g_year_range, peg, hy]

/-- contexts of a single plain year: `:` (with anything after it) -/
theorem YearNotDate_colon (r : List Char) : YearNotDate (':' :: r) :=
  YearNotDate_of_head ':' r (by decide) (by simp [MonthLetter]) (by decide)

/-- … `;`, `|`, `,`, `"` and every other head that is neither a space, a month letter nor `e` -/
theorem YearNotDate_semicolon (r : List Char) : YearNotDate (';' :: r) :=
  YearNotDate_of_head ';' r (by decide) (by simp [MonthLetter]) (by decide)

theorem YearNotDate_comma (r : List Char) : YearNotDate (',' :: r) :=
  YearNotDate_of_head ',' r (by decide) (by simp [MonthLetter]) (by decide)

theorem YearNotDate_bar (r : List Char) : YearNotDate ('|' :: r) :=
  YearNotDate_of_head '|' r (by decide) (by simp [MonthLetter]) (by decide)

/-- a space and a digit (a time), a lower-case letter other than `e` (an event, a kind word),
`(`, `"`, `;`, `|` -/
theorem YearNotDate_space_head (c : Char) (r : List Char) (h1 : ¬ MonthLetter c) (h2 : c ≠ 'e') :
    YearNotDate (' ' :: c :: r) :=
  YearNotDate_space _ (NoDateStart_of_head c r h1 h2)

end OH.Proofs.Sent
