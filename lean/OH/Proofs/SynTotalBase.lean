import Lean
import OH.Proofs.PegShape
import OH.Model.Parser
import OH.Model.ParserWF
/-
Totality and range of the parser model, foundation.

`Safe wf x` : the builder outcome `x` is not a panic, and when it is a value the value satisfies `wf`.
`Safe.bind`, `Safe.mapM` : the do-blocks and `Vec` collections of parser.rs.
`Good r build wf t` : `t` is a pair of rule `r` on which `build` is safe.
Digit lemmas: the value `str::parse` reads from the text of the lexical rules (`NumTok`).
Tactics (proof-producing only, the kernel checks the result): `conf_unfold`/`conf_unfoldk` unfold
`Conf` on a grammar constant, `conf_destruct [lemmas]` takes the resulting `∃/∧/∨` apart and applies
the per-rule lemmas `Conf g_X false k t → ∃ x, k = [x] ∧ …` of the sub-rules, `build_simp` reduces a
builder on a concrete pair list, `safe_bind` is one `Safe.bind` step closed by a hypothesis.

Method: for every grammar rule X (bottom-up) a lemma
  `conf_X : Conf g_X false k t → ∃ x, k = [x] ∧ Good .X buildX wfX x`
(SynTotalLex, SynTotalTime, SynTotalWeekday, SynTotalWide), assembled in SynTotal with
`Peg.run_conf` (whatever `run` returns conforms to the grammar expression).
-/
namespace OH.Proofs.SynTotal
open OH.Model OH.Model.Peg OH.Model.Parser OH.Generated.Grammar

/-- neither a panic nor an out-of-range value -/
def Safe {α} (wf : α → Prop) (x : PM α) : Prop :=
  (∀ site, x ≠ .error (.panic site)) ∧ ∀ v, x = .ok v → wf v

theorem Safe.ok {α} {wf : α → Prop} {v : α} (h : wf v) : Safe wf (.ok v : PM α) :=
  ⟨fun _ h => (by cases h), fun _ e => (by cases e; exact h)⟩

theorem Safe.pure {α} {wf : α → Prop} {v : α} (h : wf v) : Safe wf (Pure.pure v : PM α) := Safe.ok h

@[simp] theorem Safe.ok_iff {α} {wf : α → Prop} {v : α} : Safe wf (.ok v : PM α) ↔ wf v :=
  ⟨fun h => h.2 v rfl, Safe.ok⟩

@[simp] theorem Safe.error_iff {α} {wf : α → Prop} {e : PErr} :
    Safe wf (.error e : PM α) ↔ ∀ site, e ≠ .panic site := by
  constructor
  · intro h site he; exact h.1 site (by rw [he])
  · intro h; exact ⟨fun site he => h site (by cases he; rfl), fun _ e => (by cases e)⟩

theorem Safe.mono {α} {wf wf' : α → Prop} {x : PM α} (h : Safe wf x) (hw : ∀ v, wf v → wf' v) : Safe wf' x :=
  ⟨h.1, fun v e => hw v (h.2 v e)⟩

theorem Safe.bind {α β} {wa : α → Prop} {wb : β → Prop} {x : PM α} {f : α → PM β}
    (hx : Safe wa x) (hf : ∀ v, wa v → Safe wb (f v)) : Safe wb (x >>= f) := by
  cases x with
  | error e =>
    have := Safe.error_iff.mp hx
    exact Safe.error_iff.mpr this
  | ok v => exact hf v (Safe.ok_iff.mp hx)

theorem Safe.mapM {α} {wf : α → Prop} {f : T → PM α} :
    ∀ (l : List T), (∀ t ∈ l, Safe wf (f t)) →
      Safe (fun vs => vs.length = l.length ∧ ∀ v ∈ vs, wf v) (l.mapM f) := by
  intro l
  induction l with
  | nil => intro _; simp [List.mapM_nil, Safe, Pure.pure, Except.pure]
  | cons t ts ih =>
    intro h
    rw [List.mapM_cons]
    refine Safe.bind (h t (by simp)) (fun v hv => ?_)
    refine Safe.bind (ih (fun t' ht' => h t' (by simp [ht']))) (fun vs hvs => ?_)
    refine Safe.pure ⟨by simp [hvs.1], ?_⟩
    intro x hx
    rcases List.mem_cons.mp hx with rfl | hx
    · exact hv
    · exact hvs.2 x hx

/-- collecting a non-empty list of pairs gives a non-empty list of values -/
theorem Safe.mapM_ne {α} {wf : α → Prop} {f : T → PM α} (x : T) (xs : List T)
    (h : ∀ y ∈ x :: xs, Safe wf (f y)) :
    Safe (fun l => l ≠ [] ∧ ∀ v ∈ l, wf v) ((x :: xs).mapM f) := by
  refine (Safe.mapM (x :: xs) h).mono ?_
  intro vs hvs
  refine ⟨?_, hvs.2⟩
  intro e; subst e; simp at hvs

/-- `g ~ (sep ~ g)*`: a non-empty list of pairs of `g` -/
theorem conf_sep_list {g : G} {sep : List Char} {P : T → Prop}
    (hg : ∀ k t, Conf g false k t → ∃ x, k = [x] ∧ P x) {k : List T} {t : List Char}
    (h : Conf (.seq g (.star (.seq (.str sep) g))) false k t) :
    ∃ x xs, k = x :: xs ∧ ∀ y ∈ x :: xs, P y := by
  obtain ⟨k1, t1, k2, t2, h1, h2, rfl, -⟩ := h
  obtain ⟨x1, rfl, hx1⟩ := hg _ _ h1
  have hall : ∀ x ∈ k2, P x := by
    refine StarConf.forall_mem ?_ h2
    intro k t hkt x hx
    obtain ⟨k3, t3, k4, t4, ⟨rfl, -⟩, h4, rfl, -⟩ := hkt
    obtain ⟨x4, rfl, hx4⟩ := hg _ _ h4
    simp at hx; subst hx; exact hx4
  refine ⟨x1, k2, rfl, ?_⟩
  intro y hy
  rcases List.mem_cons.mp hy with rfl | hy
  · exact hx1
  · exact hall y hy

/-- a tree of rule `r` on which `build` is safe -/
@[reducible] def Good {α} (r : PRule) (build : T → PM α) (wf : α → Prop) (t : T) : Prop :=
  t.rule = r ∧ Safe wf (build t)

/-! ### `Except` do-blocks -/

theorem ok_bind {α β} (a : α) (f : α → PM β) : ((Except.ok a : PM α) >>= f) = f a := rfl
theorem error_bind {α β} (e : PErr) (f : α → PM β) : ((Except.error e : PM α) >>= f) = .error e := rfl
theorem panic_def {α} (site : String) : (Parser.panic site : PM α) = .error (.panic site) := rfl
theorem unexpected_def {α} (r : PRule) :
    (Parser.unexpected r : PM α) = .error (.panic s!"unexpected_token in {r.name}") := rfl

/-! ### digits -/

theorem char_le_iff (a b : Char) : a ≤ b ↔ a.toNat ≤ b.toNat := by
  rw [Char.le_def]; rfl

theorem digitVal_eq {c : Char} (h : 48 ≤ c.toNat ∧ c.toNat ≤ 57) : digitVal c = some (c.toNat - 48) := by
  have h0 : '0' ≤ c := by rw [char_le_iff]; exact h.1
  have h9 : c ≤ '9' := by rw [char_le_iff]; exact h.2
  simp [digitVal, h0, h9]

theorem natOfDigits_1 {a : Char} (ha : 48 ≤ a.toNat ∧ a.toNat ≤ 57) :
    natOfDigits [a] = some (a.toNat - 48) := by
  simp [natOfDigits, natOfDigitsAux, digitVal_eq ha]

theorem natOfDigits_2 {a b : Char} (ha : 48 ≤ a.toNat ∧ a.toNat ≤ 57) (hb : 48 ≤ b.toNat ∧ b.toNat ≤ 57) :
    natOfDigits [a, b] = some (10 * (a.toNat - 48) + (b.toNat - 48)) := by
  simp [natOfDigits, natOfDigitsAux, digitVal_eq ha, digitVal_eq hb]

theorem natOfDigits_4 {a b c d : Char} (ha : 48 ≤ a.toNat ∧ a.toNat ≤ 57) (hb : 48 ≤ b.toNat ∧ b.toNat ≤ 57)
    (hc : 48 ≤ c.toNat ∧ c.toNat ≤ 57) (hd : 48 ≤ d.toNat ∧ d.toNat ≤ 57) :
    natOfDigits [a, b, c, d] =
      some (10 * (10 * (10 * (a.toNat - 48) + (b.toNat - 48)) + (c.toNat - 48)) + (d.toNat - 48)) := by
  simp [natOfDigits, natOfDigitsAux, digitVal_eq ha, digitVal_eq hb, digitVal_eq hc, digitVal_eq hd]

/-- closes the arithmetic side goals on character codes -/
macro "dig" : tactic => `(tactic| first | omega | (simp only [Char.reduceToNat]; omega))

/-- a pair of the lexical rule `r` whose text `str::parse` reads as a number within `lo..hi` (so
`parse::<uN>().expect(..)` does not panic for any type that holds `hi`) -/
@[reducible] def NumTok (r : PRule) (lo hi : Nat) (x : T) : Prop :=
  x.rule = r ∧ ∃ n, lo ≤ n ∧ n ≤ hi ∧ ∀ site b, hi < b → parseBounded site b x.text = .ok n

theorem numTok_of {r : PRule} {txt : List Char} {kids : List T} {n lo hi : Nat}
    (h : natOfDigits txt = some n) (h1 : lo ≤ n) (h2 : n ≤ hi) : NumTok r lo hi (.node r txt kids) := by
  refine ⟨rfl, n, h1, h2, ?_⟩
  intro site b hb
  have : n < b := by omega
  simp [parseBounded, Tree.text, h, this]

/-! ### the destructuring tactic -/

open Lean Meta Elab Tactic in
/-- destruct every `∃`/`∧`/`∨`/`False` hypothesis, substitute variable equations, and apply the
given forward lemmas (`lemma : … → H → …` replaces a hypothesis `H`) until nothing changes
(`fuel` bounds the number of steps) -/
def destructGoal (lemmas : Array Name) : Nat → MVarId → MetaM (List MVarId)
  | 0, g => pure [g]
  | fuel + 1, g => g.withContext do
    let lctx ← getLCtx
    for d in lctx do
      if d.isImplementationDetail then continue
      let ty ← whnfR (← instantiateMVars d.type)
      if ty.isAppOf ``Exists || ty.isAppOf ``And || ty.isAppOf ``Or || ty.isAppOf ``False then
        let subgoals ← g.cases d.fvarId
        let gs ← subgoals.toList.mapM fun s => destructGoal lemmas fuel s.mvarId
        return gs.flatten
      if let some (_, lhs, rhs) := ty.eq? then
        if rhs.isFVar || lhs.isFVar then
          let r ← observing? (subst g d.fvarId)
          if let some g' := r then
            return ← destructGoal lemmas fuel g'
      for l in lemmas do
        let lem ← mkConstWithFreshMVarLevels l
        let (args, _, _) ← forallMetaTelescopeReducing (← inferType lem)
        if args.isEmpty then continue
        let last := args.back!
        let lastTy ← inferType last
        if ← withReducible (isDefEq lastTy ty) then
          last.mvarId!.assign d.toExpr
          let pf ← instantiateMVars (mkAppN lem args)
          let pfTy ← inferType pf
          let g1 ← g.assert (← mkFreshUserName `h) pfTy pf
          let (_, g2) ← g1.intro1
          let g3 ← g2.clear d.fvarId
          return ← destructGoal lemmas fuel g3
    return [g]

open Lean Meta Elab Tactic in
elab "conf_destruct" "[" ls:ident,* "]" : tactic => do
  let names ← ls.getElems.mapM fun i => realizeGlobalConstNoOverloadWithInfo i
  liftMetaTactic fun g => destructGoal names 100000 g

/-! ### optional punctuation: no pairs, text irrelevant (kept folded to avoid case splits) -/

/-- the text of an expression that produces no pairs (kept folded: never destructured) -/
def TextOf (e : G) (q : Bool) (t : List Char) : Prop := Conf e q [] t

theorem conf_textOnly {e : G} {q : Bool} (hk : ∀ k t, Conf e q k t → k = []) {k : List T} {t : List Char} :
    Conf e q k t ↔ k = [] ∧ TextOf e q t := by
  constructor
  · intro h
    have := hk k t h
    subst this
    exact ⟨rfl, h⟩
  · rintro ⟨rfl, h⟩; exact h

theorem conf_opt_str (s : List Char) {q : Bool} {k : List T} {t : List Char} :
    Conf (.opt (.str s) : G) q k t ↔ k = [] ∧ TextOf (.opt (.str s)) q t := by
  apply conf_textOnly
  intro k t h
  rcases h with h | h
  · exact h.1
  · exact h.1

theorem conf_opt_space {q : Bool} {k : List T} {t : List Char} :
    Conf (.opt g_space : G) q k t ↔ k = [] ∧ TextOf (.opt g_space) q t := conf_opt_str _

theorem conf_opt_sep {q : Bool} {k : List T} {t : List Char} :
    Conf (.opt g_separator_for_readability : G) q k t ↔ k = [] ∧ TextOf (.opt g_separator_for_readability) q t := by
  apply conf_textOnly
  intro k t h
  rcases h with h | h | h | h
  all_goals exact h.1

theorem conf_comma_or_space {q : Bool} {k : List T} {t : List Char} :
    Conf (.alt (.str [',']) g_space : G) q k t ↔ k = [] ∧ TextOf (.alt (.str [',']) g_space) q t := by
  apply conf_textOnly
  intro k t h
  rcases h with h | h
  all_goals exact h.1

/-- a repetition, kept folded (taken apart by `starOf_sep` or by induction) -/
def StarOf (a : G) (q : Bool) (k : List T) (t : List Char) : Prop := StarConf (Conf a q) k t

theorem conf_star {a : G} {q : Bool} {k : List T} {t : List Char} :
    Conf (.star a) q k t ↔ StarOf a q k t := Iff.rfl

/-- `(sep ~ g)*`: every pair is a pair of `g` -/
theorem starOf_sep {g : G} {sep : List Char} {Q : T → Prop}
    (hg : ∀ k t, Conf g false k t → ∃ x, k = [x] ∧ Q x) {k : List T} {t : List Char}
    (h : StarOf (.seq (.str sep) g) false k t) : ∀ x ∈ k, Q x := by
  refine StarConf.forall_mem ?_ h
  intro k t hkt x hx
  obtain ⟨k3, t3, k4, t4, ⟨rfl, -⟩, h4, rfl, -⟩ := hkt
  obtain ⟨x4, rfl, hx4⟩ := hg _ _ h4
  simp at hx; subst hx; exact hx4

/-- as `conf_unfold`, for the non-lexical rules: optional punctuation is not taken apart -/
macro "conf_unfoldk" "[" ts:Lean.Parser.Tactic.simpLemma,* "]" "at" h:ident : tactic =>
  `(tactic| simp only [↓conf_opt_str, ↓conf_opt_space, ↓conf_opt_sep, ↓conf_comma_or_space, ↓conf_star,
      Conf, Bool.false_eq_true, Bool.or_true, Bool.or_false,
      Bool.or_self, ↓reduceIte, List.append_nil, List.nil_append, List.cons_append, List.append_assoc,
      PExpr.rep, PExpr.plus, $ts,*] at $h:ident)

/-- unfold `Conf` on the given grammar constants in hypothesis `h`, normalising lists and modes -/
macro "conf_unfold" "[" ts:Lean.Parser.Tactic.simpLemma,* "]" "at" h:ident : tactic =>
  `(tactic| simp only [Conf, char_le_iff, Char.reduceToNat, Bool.false_eq_true, Bool.or_true, Bool.or_false,
      Bool.or_self, ↓reduceIte, List.append_nil, List.nil_append, List.cons_append, List.append_assoc,
      PExpr.rep, PExpr.plus, $ts,*] at $h:ident)

theorem rule_node {ρ} (r : ρ) (t : List Char) (k : List (Tree ρ)) : (Tree.node r t k).rule = r := rfl
theorem text_node {ρ} (r : ρ) (t : List Char) (k : List (Tree ρ)) : (Tree.node r t k).text = t := rfl
theorem kids_node {ρ} (r : ρ) (t : List Char) (k : List (Tree ρ)) : (Tree.node r t k).kids = k := rfl

/-- simp with the reduction rules of builder bodies on concrete pairs -/
syntax "build_simp" "[" (Lean.Parser.Tactic.simpStar <|> Lean.Parser.Tactic.simpErase <|> Lean.Parser.Tactic.simpLemma),* "]" : tactic
macro_rules
  | `(tactic| build_simp [$ts,*]) => `(tactic| simp [assertRule, rule_node, text_node, kids_node, ok_bind, error_bind, panic_def, unexpected_def,
      u8Bound, u16Bound, i64Bound, $ts,*])

/-- as `build_simp`, with `simp only` (keeps `mapM` and the loops folded) -/
syntax "build_simp_only" "[" (Lean.Parser.Tactic.simpStar <|> Lean.Parser.Tactic.simpErase <|> Lean.Parser.Tactic.simpLemma),* "]" : tactic
macro_rules
  | `(tactic| build_simp_only [$ts,*]) => `(tactic| simp only [assertRule, rule_node, text_node, kids_node, ok_bind,
      error_bind, panic_def, unexpected_def, ↓reduceIte, List.cons_append, List.nil_append, $ts,*])

/-- one `let x ← e` of a do-block: `e` is safe by a hypothesis -/
macro "safe_bind" : tactic =>
  `(tactic| ((first
      | refine Safe.bind (by assumption) ?_
      | refine Safe.bind (by apply_assumption; assumption) ?_); intro _ _))

end OH.Proofs.SynTotal
