import OH.Model.RustDated
import OH.Model.Eval
import OH.Proofs.RustInt
/-
Lemmas about the support library of the fourth extension of `translators/rs2lean.py` (`OH/Model/RustDated.lean`):
the candidate search `o.into_iter().chain((28..day).rev().filter_map(f)).next()` of `valid_ymd_before / _after`
against the hand-written `OH.Model.firstValidBelow`; `saturating_neg` against `OH.Model.satNeg`.
Used by `OH/Props/ArithC01Dated.lean`.
-/
namespace OH.Proofs.RustDated
set_option linter.unusedSimpArgs false
open OH.Model.RustInt
open OH.Model.Cal

/-- what the closure of `valid_ymd_before` (`succ = false`) / `valid_ymd_after` (`succ = true`) computes for a
candidate day: the date, or its successor; `None` when either does not exist -/
def cand (y : Int) (m : Nat) (succ : Bool) (day : Int) : R (Option Int) :=
  .ok (match ofYmd? y m day.toNat with
    | some r => if succ then succ? r else some r
    | none => none)

/-- `i64::saturating_neg` is the model's `satNeg` -/
theorem saturatingNeg_i64 (n : Int) : saturatingNeg .i64 n = OH.Model.satNeg n := by
  unfold saturatingNeg OH.Model.satNeg
  rfl

theorem firstValidBelow_small (y : Int) (m : Nat) (s : Bool) (k : Nat) (h : k < 28) :
    OH.Model.firstValidBelow y m s k = none := by
  cases k with
  | zero => rfl
  | succ k => simp only [OH.Model.firstValidBelow, h, if_true, ↓reduceIte]

/-- the reversed range `28..k+1` run through the candidate closure is `firstValidBelow .. k` -/
theorem revFind_firstValidBelow (y : Int) (m : Nat) (s : Bool) (k : Nat) :
    revFindMapM (cand y m s) 28 (k - 27) = .ok (OH.Model.firstValidBelow y m s k) := by
  induction k with
  | zero => rfl
  | succ k ih =>
    by_cases h : k + 1 < 28
    · have h0 : k + 1 - 27 = 0 := by omega
      rw [h0, firstValidBelow_small y m s (k + 1) h]; rfl
    · have h1 : k + 1 - 27 = (k - 27) + 1 := by omega
      have h2 : ((28 : Int) + ((k - 27 : Nat) : Int)).toNat = k + 1 := by omega
      rw [h1]
      simp only [revFindMapM, cand, h2, OH.Model.firstValidBelow, h, if_false, ↓reduceIte, bnd]
      cases hq : ofYmd? y m (k + 1) with
      | none => simp only [ih]
      | some r =>
        cases s with
        | false => simp only [Bool.false_eq_true, if_false, ↓reduceIte]
        | true =>
          simp only [if_true, ↓reduceIte]
          cases succ? r with
          | none => simp only [ih]
          | some r' => rfl

/-- `let x = e; x` -/
theorem bnd_pure {α : Type} (x : R α) : bnd x (fun t => .ok t) = x := by
  cases x <;> rfl

/-- the closure only matters through its values -/
theorem firstOr_congr {β : Type} (o : Option β) (f g : Int → R (Option β)) (lo hi : Int) (h : ∀ x, f x = g x) :
    firstOrRevFindMapM o f lo hi = firstOrRevFindMapM o g lo hi := by
  have : f = g := funext h
  rw [this]

/-- the whole chain, for a day number `d` (a `u32`): the exact date first, then the candidates below it -/
theorem chain_firstValid (y : Int) (m d : Nat) (s : Bool) :
    firstOrRevFindMapM (ofYmd? y m d) (cand y m s) 28 (d : Int)
      = .ok (match ofYmd? y m d with
          | some r => some r
          | none => OH.Model.firstValidBelow y m s (d - 1)) := by
  unfold firstOrRevFindMapM
  cases ofYmd? y m d with
  | some r => rfl
  | none =>
    have h : ((d : Int) - 28).toNat = (d - 1) - 27 := by omega
    simp only [h]
    exact revFind_firstValidBelow y m s (d - 1)

end OH.Proofs.RustDated
