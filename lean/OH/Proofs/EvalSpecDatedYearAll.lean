import OH.Proofs.EvalSpecDatedAll
import OH.Proofs.EvalSpecDatedYear
/-
C01 refinement, dated ranges from a start WITH a year to a FIXED yearless end (`2020 Jan 1 …-Feb 1 …`,
`2024 easter …-Dec 31 …`): start offset within ±92 000 000 days (the shifted start is not pinned), EVERY end offset.
The end is the first occurrence at or after the shifted start `S` among the years `y0-1 … y0+2` around the year of
`S - end offset` pinned into the calendar; by weak monotonicity (`far_ltD`/`far_gtD` around the pinned centre) it is
the first one over all the years of the calendar, and its year is one of the specification's candidate years.
-/
namespace OH.Proofs.EvalSpec
open OH.Model OH.Model.Cal
open OH.Spec (shift dateInstance exactInstance specYear datedOk candidateYears yearsNear yearSpan isFixedDate)

instance (k : Int) : Decidable (RY k) := by unfold RY; infer_instance

/-- "year `y` has an occurrence of the end at or after `S`" -/
def EndGe (e : DateSpec) (eo : DateOffset) (S : Int) (y : Int) : Prop := RY y ∧ S ≤ projT e eo false y

instance (e : DateSpec) (eo : DateOffset) (S y : Int) : Decidable (EndGe e eo S y) := by unfold EndGe; infer_instance

theorem firstEndFrom_eqA {e : DateSpec} {eo : DateOffset} (h : BoundA e eo) (start : Int) (ys : List Int) :
    firstEndFrom e eo start ys =
      .ok ((ys.find? (fun y => decide (EndGe e eo start y))).map (projT e eo false)) := by
  have howf : eo.wday.wf = true := by
    have := h.owf; simp only [DateOffset.wf, Bool.and_eq_true] at this; exact this.1
  induction ys with
  | nil => rfl
  | cons y ys ih =>
    unfold firstEndFrom
    simp only [List.find?_cons]
    by_cases hy : RY y
    · have hp := projA_some h false y hy
      rw [dateOnYear_eq_instance e y false h.wf hy.1 hy.2 (Or.inl h.yl)]
      simp only [ok_bind]
      obtain ⟨p, hp1, hp2⟩ := proj_eq_some hp
      simp only [hp1, apply_eq_shift eo howf p, ok_bind, pure_eq_ok, hp2]
      by_cases hge : projT e eo false y ≥ start
      · have : EndGe e eo start y := ⟨hy, hge⟩
        simp [hge, this]
      · have : ¬ EndGe e eo start y := fun c => hge c.2
        simp only [hge, if_false, this, decide_false]
        exact ih
    · have : ¬ EndGe e eo start y := fun c => hy c.1
      simp only [this, decide_false]
      have hfx := h.fx
      have hyl := h.yl
      cases e with
      | easter yr => simp [isFixedDate] at hfx
      | fixed yr m dd =>
        cases yr with
        | some n => simp [specYear] at hyl
        | none =>
          rw [dateOnYear_out m dd y false hy]
          simp only [ok_bind]
          exact ih

/-- the first of four years that satisfies `P`, if any -/
theorem find4 (P : Int → Prop) [DecidablePred P] (a : Int) :
    (∃ k, a ≤ k ∧ k ≤ a + 3 ∧ [a, a + 1, a + 2, a + 3].find? (fun y => decide (P y)) = some k ∧ P k ∧
        ∀ j, a ≤ j → j < k → ¬ P j) ∨
    ([a, a + 1, a + 2, a + 3].find? (fun y => decide (P y)) = none ∧ ∀ j, a ≤ j → j ≤ a + 3 → ¬ P j) := by
  simp only [List.find?_cons, List.find?_nil]
  by_cases h0 : P a
  · left; exact ⟨a, by omega, by omega, by simp [h0], h0, fun j h1 h2 => by omega⟩
  · by_cases h1 : P (a + 1)
    · left
      refine ⟨a + 1, by omega, by omega, by simp [h0, h1], h1, fun j c1 c2 => ?_⟩
      have : j = a := by omega
      subst this; exact h0
    · by_cases h2 : P (a + 2)
      · left
        refine ⟨a + 2, by omega, by omega, by simp [h0, h1, h2], h2, fun j c1 c2 => ?_⟩
        have : j = a ∨ j = a + 1 := by omega
        rcases this with rfl | rfl <;> assumption
      · by_cases h3 : P (a + 3)
        · left
          refine ⟨a + 3, by omega, by omega, by simp [h0, h1, h2, h3], h3, fun j c1 c2 => ?_⟩
          have : j = a ∨ j = a + 1 ∨ j = a + 2 := by omega
          rcases this with rfl | rfl | rfl <;> assumption
        · right
          refine ⟨by simp [h0, h1, h2, h3], fun j c1 c2 => ?_⟩
          have : j = a ∨ j = a + 1 ∨ j = a + 2 ∨ j = a + 3 := by omega
          rcases this with rfl | rfl | rfl | rfl <;> assumption

/-- `year_before_offset` of any representable day -/
theorem yearBeforeOffset_clamp' (d : Int) (o : DateOffset) (hw : o.wf = true) (hd : minDay ≤ d ∧ d ≤ maxDay) :
    yearBeforeOffset d o = year (clampDay (d - o.days)) := by
  unfold yearBeforeOffset
  have hmin := minDay_eq; have hmax := maxDay_eq
  rw [addDaysSat_clamp hd.1 hd.2]
  simp only [DateOffset.wf, i64Ok, Bool.and_eq_true, decide_eq_true_eq] at hw
  congr 1
  unfold satNeg clampDay
  split <;> omega

theorem le_shiftC_imp (o : DateOffset) (f D : Int) (hD : minDay + 7 ≤ D) (h : D ≤ o.shiftC f) :
    D ≤ f + o.days + 6 := by
  have := (o.shiftC_near f).2
  have := minDay_eq; have := maxDay_eq
  unfold clampDay at *
  omega

theorem shiftC_lt_imp (o : DateOffset) (f D : Int) (hD : D ≤ maxDay - 7) (h : o.shiftC f < D) :
    f + o.days - 6 < D := by
  have := (o.shiftC_near f).1
  have := minDay_eq; have := maxDay_eq
  unfold clampDay at *
  omega

/-- `far_lt` / `far_gt` around any day well inside the calendar -/
theorem far_ltD {ds : DateSpec} {o : DateOffset} (h : BoundA ds o) (after : Bool) (D : Int)
    (hD : minDay + 400 ≤ D ∧ D ≤ maxDay - 400) (k : Int) (hk : RY k) (hka : k + 2 ≤ year (clampDay (D - o.days))) :
    projT ds o after k < D := by
  obtain ⟨p, ip, ep⟩ := projT_eq h after k hk
  have ic : InY (year (clampDay (D - o.days))) (clampDay (D - o.days)) := inY_year _
  have hmin := minDay_eq; have hmax := maxDay_eq
  generalize year (clampDay (D - o.days)) = c at *
  have s1 := yearStart_le (a := k + 2) (b := c) hka
  have s2 := yearStart_step (k + 1) (k + 2) (by omega)
  unfold InY at ip ic
  rw [ep]
  by_cases hcl : D - o.days < minDay
  · exfalso
    have e : clampDay (D - o.days) = minDay := by unfold clampDay; omega
    rw [e] at ic
    have : ¬ (minYear < c) := fun hc => by
      have := yearStart_lt_iff.2 hc; rw [yearStart_minYear] at this; omega
    unfold RY at hk
    omega
  · have e : clampDay (D - o.days) ≤ D - o.days := by unfold clampDay; omega
    have := (o.shiftC_near p).2
    unfold clampDay at *
    omega

theorem far_gtD {ds : DateSpec} {o : DateOffset} (h : BoundA ds o) (after : Bool) (D : Int)
    (hD : minDay + 400 ≤ D ∧ D ≤ maxDay - 400) (k : Int) (hk : RY k) (hka : year (clampDay (D - o.days)) + 2 ≤ k) :
    D < projT ds o after k := by
  obtain ⟨p, ip, ep⟩ := projT_eq h after k hk
  have ic : InY (year (clampDay (D - o.days))) (clampDay (D - o.days)) := inY_year _
  have hmin := minDay_eq; have hmax := maxDay_eq
  generalize year (clampDay (D - o.days)) = c at *
  have s1 := yearStart_le (a := c + 2) (b := k) hka
  have s2 := yearStart_step (c + 1) (c + 2) (by omega)
  unfold InY at ip ic
  rw [ep]
  by_cases hcl : maxDay < D - o.days
  · exfalso
    have e : clampDay (D - o.days) = maxDay := by unfold clampDay; omega
    rw [e] at ic
    have : ¬ (c + 1 < maxYear + 1) := fun hc => by
      have := yearStart_lt_iff.2 hc; rw [yearStart_maxYear_succ] at this; omega
    unfold RY at hk
    omega
  · have e : D - o.days ≤ clampDay (D - o.days) := by unfold clampDay; omega
    have := (o.shiftC_near p).1
    unfold clampDay at *
    omega

/-- **A start with a year before a fixed yearless end**: start offset within ±92 000 000 days, EVERY end offset —
the model's filter is the specification's `datedOk` on every day before 10000-01-01. -/
theorem dated_year_yearless_eqA (s : DateSpec) (so : DateOffset) (e : DateSpec) (eo : DateOffset) (d : Int)
    (hws : s.wf = true) (hwso : so.wf = true) (hss : -92000000 ≤ so.days ∧ so.days ≤ 92000000)
    (he : BoundA e eo) (sy : Int) (hsy : specYear s = some sy) (h2 : d < dateEnd) :
    MonthdayRange.filter (.date s so e eo) d = .ok (datedOk s so e eo d) := by
  have hey := he.yl
  have hmind := minDay_eq
  have hmaxd := maxDay_eq
  have hmin : minYear = -262143 := rfl
  have hmax : maxYear = 262142 := rfl
  have hwdef : yearSpan so eo = min (3 + (so.days.natAbs + eo.days.natAbs) / 365) 272200 := rfl
  have hwso' : so.wday.wf = true := by simp only [DateOffset.wf, Bool.and_eq_true] at hwso; exact hwso.1
  obtain ⟨S, hS, hsy1, hsy2⟩ := proj_some_own_year s so true hws sy hsy
  obtain ⟨s0, hs0, hSe⟩ := proj_eq_some hS
  have hs0y : InY sy s0 :=
    dateInstance_year s sy true hws (by omega) (fun _ => by omega) (by omega) s0 hs0
  have hs0r : 693595 < s0 ∧ s0 ≤ 3652059 := by
    have a := yearStart_le (a := 1900) (b := sy) (by omega)
    have b := yearStart_le (a := sy + 1) (b := 10000) (by omega)
    rw [yearStart_1900] at a; rw [yearStart_10000] at b
    unfold InY at hs0y; omega
  have hsb := shift_bounds so s0 (by omega) (by omega) (by omega)
  rw [hSe] at hsb
  have hSr : minDay + 400 ≤ S ∧ S ≤ maxDay - 400 := by omega
  have ey0 := yearBeforeOffset_clamp' S eo he.owf ⟨by omega, by omega⟩
  have rC : RY (year (clampDay (S - eo.days))) := (inRange_iff_year _).1 (clampDay_inRange _)
  have FL := far_ltD he false S hSr
  have FG := far_gtD he false S hSr
  have wE := wmono_le _ _ _ (projT_wmonoA he false)
  have posE : ∀ k, RY k → ∃ f, InY k f ∧ projT e eo false k = eo.shiftC f := fun k hk => projT_eq he false k hk
  have pE := fun k (hk : RY k) => projA_some he false k hk
  have pN := fun k (hk : ¬ RY k) => projA_none he false k hk
  have a1 := dateOnYear_eq_instance s sy true hws (by omega) (by omega) (Or.inr hsy)
  have hns : ¬ (s = e ∧ isFixedDate s = true) := by
    rintro ⟨rfl, _⟩; rw [hsy] at hey; cases hey
  have hde := dateEnd_eq
  generalize hy0 : year (clampDay (S - eo.days)) = y0 at *
  generalize hwg : yearSpan so eo = w at *
  have hl : [y0 - 1, y0, y0 + 1, y0 + 2] = [y0 - 1, y0 - 1 + 1, y0 - 1 + 2, y0 - 1 + 3] := by
    have e1 : y0 - 1 + 1 = y0 := by omega
    have e2 : y0 - 1 + 2 = y0 + 1 := by omega
    have e3 : y0 - 1 + 3 = y0 + 2 := by omega
    rw [e1, e2, e3]
  -- the specification: one start, the ends of the candidate years that are years of the calendar
  have cnear : ∀ j, sy - w ≤ j → j ≤ sy + w → j ∈ candidateYears s e w d := by
    intro j a b
    rw [mem_candidateYears, hsy]; right; left; exact ⟨sy, rfl, a, b⟩
  have mS := mem_filterMap_proj_year s so true sy S hsy hS _ (by omega) (cnear sy (by omega) (by omega))
  have mS' : ∀ x, x ∈ specStarts s so e eo d ↔ x = S := by
    intro x; rw [specStarts_eq_filterMap, hwg]; exact mS x
  have mE : ∀ x, x ∈ specEnds s so e eo d ↔
      ∃ j, j ∈ candidateYears s e w d ∧ RY j ∧ x = projT e eo false j := by
    intro x
    rw [specEnds_eq_filterMap, hwg, List.mem_filterMap]
    constructor
    · rintro ⟨j, hj, hp⟩
      by_cases r : RY j
      · rw [pE j r] at hp; exact ⟨j, hj, r, (Option.some.inj hp).symm⟩
      · rw [pN j r] at hp; cases hp
    · rintro ⟨j, hj, r, rfl⟩; exact ⟨j, hj, pE j r⟩
  rcases find4 (EndGe e eo S) (y0 - 1) with ⟨k, hk1, hk2, hfind, hPk, hfirst⟩ | ⟨hfind, hnone⟩
  · -- the end is found on year `k`
    have fe : firstEndFrom e eo S [y0 - 1, y0, y0 + 1, y0 + 2] = .ok (some (projT e eo false k)) := by
      rw [hl, firstEndFrom_eqA he S, hfind]; rfl
    have si : singleInterval s so e eo = .ok (some (S, projT e eo false k)) := by
      unfold singleInterval
      simp only [dateYear_eq, hsy, hey, a1, hs0, apply_eq_shift so hwso' s0, hSe, ey0, ok_bind, pure_eq_ok, fe]
    rw [filter_of_interval s so e eo d hns _ si]
    congr 1
    rw [Bool.eq_iff_iff, datedOk_range_iff s so e eo d hns]
    simp only [Bool.and_eq_true, decide_eq_true_eq]
    simp only [mS', exists_eq_left, hey, ne_eq, not_true_eq_false, false_imp_iff, and_true]
    -- `k` is the first year of the whole calendar with an end at or after `S`
    have hall : ∀ j, RY j → j < k → projT e eo false j < S := by
      intro j rj hjk
      by_cases hj : j + 2 ≤ y0
      · exact FL j rj hj
      · have := hfirst j (by omega) hjk
        unfold EndGe at this
        by_cases c : S ≤ projT e eo false j
        · exact absurd ⟨rj, c⟩ this
        · omega
    -- and `k` is one of the candidate years
    have hknear : sy - w ≤ k ∧ k ≤ sy + w := by
      obtain ⟨rk, hSk⟩ := hPk
      obtain ⟨f, iF, eF⟩ := posE k rk
      have l := le_shiftC_imp eo f S (by omega) (by rw [← eF]; exact hSk)
      unfold RY at rk
      constructor
      · by_cases hc : k + ((so.days.natAbs + eo.days.natAbs) / 365 + 4 : Nat) ≤ sy
        · exfalso
          have x1 := (yearStart_add_le k ((so.days.natAbs + eo.days.natAbs) / 365 + 4)).1
          have x2 := yearStart_le (a := k + ((so.days.natAbs + eo.days.natAbs) / 365 + 4 : Nat)) (b := sy) hc
          have x3 := yearStart_step k (k + 1) rfl
          unfold InY at iF hs0y
          omega
        · omega
      · by_cases r1 : RY (k - 1)
        · have lt := hall (k - 1) r1 (by omega)
          obtain ⟨g, iG, eG⟩ := posE (k - 1) r1
          have u := shiftC_lt_imp eo g S (by omega) (by rw [← eG]; exact lt)
          by_cases hc : sy + 1 + ((so.days.natAbs + eo.days.natAbs) / 365 + 2 : Nat) ≤ k - 1
          · exfalso
            have x1 := (yearStart_add_le (sy + 1) ((so.days.natAbs + eo.days.natAbs) / 365 + 2)).1
            have x2 := yearStart_le (a := sy + 1 + ((so.days.natAbs + eo.days.natAbs) / 365 + 2 : Nat)) (b := k - 1) hc
            unfold InY at iG hs0y
            omega
          · omega
        · unfold RY at r1; omega
    constructor
    · rintro ⟨hle, hstop⟩
      refine ⟨hle, fun x hx => ?_⟩
      obtain ⟨j, hj, rj, rfl⟩ := (mE x).1 hx
      by_cases hjk : j < k
      · have := hall j rj hjk; omega
      · have := wE k j hPk.1.1 (by omega) rj.2; omega
    · rintro ⟨hle, hno⟩
      refine ⟨hle, ?_⟩
      by_cases hc : d ≤ projT e eo false k
      · exact hc
      · exfalso
        exact hno _ ((mE _).2 ⟨k, cnear k hknear.1 hknear.2, hPk.1, rfl⟩) ⟨hPk.2, by omega⟩
  · -- no end at or after `S` on the four years: there is none at all
    have fe : firstEndFrom e eo S [y0 - 1, y0, y0 + 1, y0 + 2] = .ok none := by
      rw [hl, firstEndFrom_eqA he S, hfind]; rfl
    have si : singleInterval s so e eo = .ok (some (S, dateEnd)) := by
      unfold singleInterval
      simp only [dateYear_eq, hsy, hey, a1, hs0, apply_eq_shift so hwso' s0, hSe, ey0, ok_bind, pure_eq_ok, fe]
    rw [filter_of_interval s so e eo d hns _ si]
    congr 1
    rw [Bool.eq_iff_iff, datedOk_range_iff s so e eo d hns]
    simp only [Bool.and_eq_true, decide_eq_true_eq]
    simp only [mS', exists_eq_left, hey, ne_eq, not_true_eq_false, false_imp_iff, and_true]
    have hallN : ∀ j, RY j → projT e eo false j < S := by
      intro j rj
      by_cases hj : j + 2 ≤ y0
      · exact FL j rj hj
      · by_cases hj2 : j ≤ y0 + 2
        · have := hnone j (by omega) (by omega)
          unfold EndGe at this
          by_cases c : S ≤ projT e eo false j
          · exact absurd ⟨rj, c⟩ this
          · omega
        · exfalso
          unfold RY at rj rC
          have r2 : RY (y0 + 2) := by unfold RY; omega
          have g := FG (y0 + 2) r2 (by omega)
          have := hnone (y0 + 2) (by omega) (by omega)
          unfold EndGe at this
          exact this ⟨r2, by omega⟩
    constructor
    · rintro ⟨hle, _⟩
      refine ⟨hle, fun x hx => ?_⟩
      obtain ⟨j, hj, rj, rfl⟩ := (mE x).1 hx
      have := hallN j rj; omega
    · rintro ⟨hle, _⟩
      exact ⟨hle, by omega⟩

end OH.Proofs.EvalSpec
