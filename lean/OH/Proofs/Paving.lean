import OH.Model.Normalize
/-
Laws of the paving of `normalize/paving.rs` (model: OH.Model.Normalize): a paving denotes a function
`get : P → Pt → V`, a selector a set of points `mem · s`; `set`, `is_val`, `pop_filter` are
characterised pointwise.  Proved once for `Cell` and once for `Dim T U` given the laws for `U`
(class `LawfulPaving`), so every `PavingND` inherits them by instance resolution.
-/
namespace OH.Proofs.Paving
open OH.Model OH.Model.Norm Std

set_option linter.unusedSectionVars false

/-! `Frame` is a linear order (what Rust's `Ord` promises; here proved) -/
instance : IsLinearOrder Frame where
  le_refl a := by cases a <;> simp [Frame.le_def, Frame.leB]
  le_trans a b c := by cases a <;> cases b <;> cases c <;> simp [Frame.le_def, Frame.leB] <;> omega
  le_antisymm a b := by cases a <;> cases b <;> simp [Frame.le_def, Frame.leB] <;> omega
  le_total a b := by cases a <;> cases b <;> simp [Frame.le_def, Frame.leB] <;> omega

instance : LawfulOrderLT Frame where
  lt_iff a b := by cases a <;> cases b <;> simp [Frame.le_def, Frame.lt_def, Frame.leB, Frame.ltB] <;> omega

section dimlemmas
variable {T U : Type}
variable [LT T] [LE T] [DecidableLT T] [DecidableLE T] [DecidableEq T] [IsLinearOrder T] [LawfulOrderLT T]

/-- representation invariant of `Dim`: cuts strictly increasing, one column between two consecutive
cuts (`cols.len() == cuts.len() - 1`, or both empty) -/
def Shape : List T → List U → Prop
  | [], [] => True
  | [_], [] => True
  | c0 :: c1 :: cs, _ :: us => c0 < c1 ∧ Shape (c1 :: cs) us
  | _, _ => False

theorem shape_nil_cols {c : T} {us : List U} (h : Shape [c] us) : us = [] := by
  cases us <;> simp_all [Shape]

/-- every later cut is above the first one -/
theorem shape_lb : ∀ {cs : List T} {us : List U} {c : T}, Shape (c :: cs) us → ∀ t ∈ cs, c < t := by
  intro cs
  induction cs with
  | nil => intro us c _ t ht; cases ht
  | cons c1 cs ih =>
    intro us c h t ht
    cases us with
    | nil => simp [Shape] at h
    | cons u us =>
      simp only [Shape] at h
      rcases List.mem_cons.mp ht with rfl | ht'
      · exact h.1
      · have := ih h.2 t ht'
        grind

theorem shape_le_last : ∀ {cs : List T} {us : List U} {l : T}, Shape cs us → cs.getLast? = some l →
    ∀ t ∈ cs, t ≤ l := by
  intro cs
  induction cs with
  | nil => intro us l _ h; cases h
  | cons c0 cs ih =>
    intro us l hs hl t ht
    cases cs with
    | nil =>
      simp only [List.getLast?_singleton, Option.some.injEq] at hl
      simp only [List.mem_singleton] at ht
      subst hl; subst ht
      grind
    | cons c1 rest =>
      cases us with
      | nil => simp [Shape] at hs
      | cons u us =>
        have hlb := shape_lb hs
        simp only [Shape] at hs
        have hl' : (c1 :: rest).getLast? = some l := by simpa [List.getLast?_cons_cons] using hl
        rcases List.mem_cons.mp ht with rfl | ht'
        · have := hlb l (List.mem_of_getLast? hl')
          grind
        · exact ih hs.2 hl' t ht'

theorem cutAt_head (dflt : U) (c : T) (cs : List T) (us : List U) (v : T)
    (hv : ¬ v < c) : ∃ t, (cutAt dflt (c :: cs) us v).1 = c :: t := by
  cases cs with
  | nil =>
    simp only [cutAt]
    split
    · contradiction
    · split <;> exact ⟨_, rfl⟩
  | cons c1 cs' =>
    cases us with
    | nil => exact ⟨_, rfl⟩
    | cons u us' =>
      simp only [cutAt]
      split
      · contradiction
      · split
        · exact ⟨_, rfl⟩
        · split <;> exact ⟨_, rfl⟩

theorem shape_cutAt (dflt : U) (cs : List T) (us : List U) (v : T) (h : Shape cs us) :
    Shape (cutAt dflt cs us v).1 (cutAt dflt cs us v).2 := by
  fun_induction cutAt dflt cs us v with
  | case1 us v => cases us <;> simp_all [Shape]
  | case2 c us v hlt => have := shape_nil_cols h; subst this; simp [Shape, hlt]
  | case3 us v _ => exact h
  | case4 c us v h1 h2 => have := shape_nil_cols h; subst this; simp only [List.nil_append, Shape, and_true]; grind
  | case5 c0 c1 cs x => exact h
  | case6 c0 c1 cs u us v hlt => exact ⟨hlt, h⟩
  | case7 c1 cs u us v _ => exact h
  | case8 c0 c1 cs u us v h1 h2 h3 =>
    simp only [Shape] at h ⊢
    exact ⟨by grind, h3, h.2⟩
  | case9 c0 c1 cs u us v h1 h2 h3 ih =>
    simp only [Shape] at h
    obtain ⟨t, ht⟩ := cutAt_head dflt c1 cs us v h3
    have ih' := ih h.2
    rw [ht] at ih'
    simp only [ht, Shape]
    exact ⟨h.1, ih'⟩

/-- below the first cut there is no column -/
theorem colAt_lt_head : ∀ {cs : List T} {us : List U} {c x : T}, Shape (c :: cs) us → x < c →
    colAt (c :: cs) us x = none := by
  intro cs
  induction cs with
  | nil => intro us c x _ _; cases us <;> simp [colAt]
  | cons c1 cs ih =>
    intro us c x hs hx
    cases us with
    | nil => simp [colAt]
    | cons u us =>
      simp only [Shape] at hs
      simp only [colAt]
      rw [if_neg (by grind)]
      exact ih hs.2 (by grind)

/-- a point that has a column is not below the first cut -/
theorem colAt_some_ge {cs : List T} {us : List U} {c x : T} {u : U} (hs : Shape (c :: cs) us)
    (h : colAt (c :: cs) us x = some u) : c ≤ x := by
  by_cases hx : x < c
  · rw [colAt_lt_head hs hx] at h; cases h
  · grind

/-- cutting never changes the column a point reads, up to the new default columns: stated on the
reading `rd` of a column (`rd dflt` is what a point outside every column reads) -/
theorem colAt_cutAt {α : Type} (rd : U → α) (dflt : U) :
    ∀ (cs : List T) (us : List U) (v : T), Shape cs us → ∀ x,
    ((colAt (cutAt dflt cs us v).1 (cutAt dflt cs us v).2 x).map rd).getD (rd dflt)
      = ((colAt cs us x).map rd).getD (rd dflt) := by
  intro cs us v
  fun_induction cutAt dflt cs us v with
  | case1 us v => intro _ x; simp [colAt]
  | case2 c us v h =>
    intro hs x
    have := shape_nil_cols hs; subst this
    simp only [List.nil_append, colAt]; split <;> simp
  | case3 us v _ => intro _ x; rfl
  | case4 c us v h1 h2 =>
    intro hs x
    have := shape_nil_cols hs; subst this
    simp only [List.nil_append, colAt]; split <;> simp
  | case5 c0 c1 cs x => intro _ _; rfl
  | case6 c0 c1 cs u us v h =>
    intro hs x
    conv => lhs; simp only [colAt]
    split
    · rename_i hx
      rw [colAt_lt_head hs (by grind)]
      rfl
    · rfl
  | case7 c1 cs u us v _ => intro _ x; rfl
  | case8 c0 c1 cs u us v h1 h2 h3 =>
    intro hs x
    simp only [colAt]
    by_cases hn : c0 ≤ x ∧ x < v
    · have : c0 ≤ x ∧ x < c1 := by grind
      simp [hn, this]
    · by_cases hn2 : v ≤ x ∧ x < c1
      · have : c0 ≤ x ∧ x < c1 := by grind
        simp [hn2, this]
      · have : ¬ (c0 ≤ x ∧ x < c1) := by grind
        simp [hn, hn2, this]
  | case9 c0 c1 cs u us v h1 h2 h3 ih =>
    intro hs x
    simp only [Shape] at hs
    obtain ⟨t, ht⟩ := cutAt_head dflt c1 cs us v h3
    have ih' := ih hs.2 x
    rw [ht] at ih' ⊢
    cases hr2 : (cutAt dflt (c1 :: cs) us v).2 with
    | nil =>
      rw [hr2] at ih'
      simp only [colAt]
      split
      · rfl
      · simpa [colAt] using ih'
    | cons w ws =>
      rw [hr2] at ih'
      simp only [colAt]
      split
      · rfl
      · exact ih'

theorem mem_cutAt (dflt : U) : ∀ (cs : List T) (us : List U) (v : T), Shape cs us → ∀ t,
    t ∈ (cutAt dflt cs us v).1 ↔ t = v ∨ t ∈ cs := by
  intro cs us v
  fun_induction cutAt dflt cs us v with
  | case1 us v => intro _ t; simp
  | case2 c us v h => intro _ t; simp
  | case3 us v _ => intro _ t; simp
  | case4 c us v h1 h2 => intro _ t; simp; grind
  | case5 c0 c1 cs x => intro hs; simp [Shape] at hs
  | case6 c0 c1 cs u us v h => intro _ t; simp
  | case7 c1 cs u us v _ => intro _ t; simp
  | case8 c0 c1 cs u us v h1 h2 h3 => intro _ t; simp; grind
  | case9 c0 c1 cs u us v h1 h2 h3 ih =>
    intro hs t
    simp only [Shape] at hs
    have := ih hs.2 t
    simp only [List.mem_cons] at this ⊢
    grind

theorem cols_cutAt (dflt : U) : ∀ (cs : List T) (us : List U) (v : T) (w : U),
    w ∈ (cutAt dflt cs us v).2 → w = dflt ∨ w ∈ us := by
  intro cs us v
  fun_induction cutAt dflt cs us v with
  | case9 c0 c1 cs u us v h1 h2 h3 ih =>
    intro w hw
    simp only [List.mem_cons] at hw ⊢
    rcases hw with rfl | hw
    · exact Or.inr (Or.inl rfl)
    · rcases ih w hw with h | h
      · exact Or.inl h
      · exact Or.inr (Or.inr h)
  | _ => intro w hw; simp at hw ⊢ <;> grind

theorem mem_cutAt_sub (dflt : U) : ∀ (cs : List T) (us : List U) (v : T) (t : T),
    t ∈ (cutAt dflt cs us v).1 → t = v ∨ t ∈ cs := by
  intro cs us v
  fun_induction cutAt dflt cs us v with
  | case9 c0 c1 cs u us v h1 h2 h3 ih =>
    intro t ht
    simp only [List.mem_cons] at ht ⊢
    rcases ht with rfl | ht
    · exact Or.inr (Or.inl rfl)
    · have := ih t ht
      simp only [List.mem_cons] at this
      grind
  | _ => intro t ht; simp at ht ⊢ <;> grind

theorem mem_lunion (a b : List T) (t : T) : t ∈ lunion a b ↔ t ∈ a ∨ t ∈ b := by
  simp only [lunion, List.mem_append, List.mem_filter, decide_eq_true_eq]
  grind

theorem colAt_mem : ∀ {cs : List T} {us : List U} {x : T} {u : U}, colAt cs us x = some u → u ∈ us := by
  intro cs us x
  fun_induction colAt cs us x with
  | case1 c0 c1 cs u us x h => intro w hw; cases hw; simp
  | case2 c0 c1 cs u us x h ih => intro w hw; exact List.mem_cons_of_mem _ (ih hw)
  | case3 t x x1 h => intro w hw; cases hw

/-- `a` is not strictly inside a column -/
def NoSplit (a : T) : List T → Prop
  | c0 :: c1 :: cs => ¬ (c0 < a ∧ a < c1) ∧ NoSplit a (c1 :: cs)
  | _ => True

theorem noSplit_of : ∀ {cs : List T} {us : List U} {a : T}, Shape cs us →
    (a ∈ cs ∨ ∀ t ∈ cs, a ≤ t) → NoSplit a cs := by
  intro cs
  induction cs with
  | nil => intro us a _ _; trivial
  | cons c0 cs ih =>
    intro us a hs ha
    cases cs with
    | nil => trivial
    | cons c1 rest =>
      cases us with
      | nil => simp [Shape] at hs
      | cons u us =>
        have hlb := shape_lb hs
        simp only [Shape] at hs
        simp only [NoSplit]
        rcases ha with ha | ha
        · rcases List.mem_cons.mp ha with rfl | ha'
          · refine ⟨by grind, ih hs.2 (Or.inr ?_)⟩
            intro t ht
            have := hlb t ht
            grind
          · refine ⟨?_, ih hs.2 (Or.inl ha')⟩
            rcases List.mem_cons.mp ha' with rfl | h3
            · grind
            · have := shape_lb hs.2 a h3
              grind
        · refine ⟨?_, ih hs.2 (Or.inr ?_)⟩
          · have := ha c0 (by simp)
            grind
          · intro t ht
            exact ha t (List.mem_cons_of_mem _ ht)

theorem colAt_ge_all : ∀ {cs : List T} {us : List U} {x : T}, (∀ t ∈ cs, t ≤ x) → colAt cs us x = none := by
  intro cs us x
  fun_induction colAt cs us x with
  | case1 c0 c1 cs u us x h =>
    intro hall
    have := hall c1 (by simp)
    grind
  | case2 c0 c1 cs u us x h ih =>
    intro hall
    exact ih (fun t ht => hall t (List.mem_cons_of_mem _ ht))
  | case3 t x x1 h => intro _; rfl

/-- between two cuts every point has a column -/
theorem colAt_isSome : ∀ {cs : List T} {us : List U} {x : T}, Shape cs us →
    (∃ lo ∈ cs, lo ≤ x) → (∃ hi ∈ cs, x < hi) → (colAt cs us x).isSome = true := by
  intro cs
  induction cs with
  | nil => intro us x _ ⟨lo, hlo, _⟩ _; cases hlo
  | cons c0 cs ih =>
    intro us x hs ⟨lo, hlo, hlox⟩ ⟨hi, hhi, hxhi⟩
    cases cs with
    | nil =>
      simp only [List.mem_singleton] at hlo hhi
      subst hlo; subst hhi
      grind
    | cons c1 rest =>
      cases us with
      | nil => simp [Shape] at hs
      | cons u us =>
        have hlb := shape_lb hs
        simp only [Shape] at hs
        simp only [colAt]
        split
        · rfl
        · rename_i hnot
          apply ih hs.2
          · rcases List.mem_cons.mp hlo with rfl | hlo'
            · exact ⟨c1, by simp, by grind⟩
            · exact ⟨lo, hlo', hlox⟩
          · rcases List.mem_cons.mp hhi with rfl | hhi'
            · have : ∀ t ∈ c1 :: rest, hi < t := hlb
              rcases List.mem_cons.mp hlo with rfl | hlo'
              · grind
              · have := hlb lo hlo'
                grind
            · exact ⟨hi, hhi', hxhi⟩

section withU
variable {V S Pt G : Type} [HasDflt V] [DecidableEq V] [Paving V S Pt G U]

theorem shape_setCols (lo hi : T) (t : S) (v : V) : ∀ (cs : List T) (us : List U),
    Shape cs us → Shape cs (setCols lo hi t v cs us) := by
  intro cs
  induction cs with
  | nil => intro us h; simpa [setCols] using h
  | cons c0 cs ih =>
    intro us h
    cases us with
    | nil => simpa [setCols] using h
    | cons u us =>
      cases cs with
      | nil => simp [Shape] at h
      | cons c1 rest =>
        simp only [Shape] at h
        simp only [setCols, Shape]
        exact ⟨h.1, ih us h.2⟩

theorem mem_setCols (lo hi : T) (t : S) (v : V) : ∀ (cs : List T) (us : List U) (w : U),
    w ∈ setCols lo hi t v cs us → w ∈ us ∨ ∃ u ∈ us, w = Paving.set u t v := by
  intro cs
  induction cs with
  | nil => intro us w hw; exact Or.inl (by simpa [setCols] using hw)
  | cons c0 cs ih =>
    intro us w hw
    cases us with
    | nil => simp [setCols] at hw
    | cons u us =>
      simp only [setCols, List.mem_cons] at hw
      rcases hw with rfl | hw
      · split
        · exact Or.inr ⟨u, by simp, rfl⟩
        · exact Or.inl (by simp)
      · rcases ih us w hw with h | ⟨u', hu', rfl⟩
        · exact Or.inl (List.mem_cons_of_mem _ h)
        · exact Or.inr ⟨u', List.mem_cons_of_mem _ hu', rfl⟩

/-- the columns whose start is in `[lo, hi)` are exactly those all of whose points are in `[lo, hi)`,
when neither bound splits a column -/
theorem colAt_setCols (lo hi : T) (t : S) (v : V) : ∀ (cs : List T) (us : List U) (x : T),
    Shape cs us → NoSplit lo cs → NoSplit hi cs →
    colAt cs (setCols lo hi t v cs us) x
      = (colAt cs us x).map (fun u => if lo ≤ x ∧ x < hi then Paving.set u t v else u) := by
  intro cs
  induction cs with
  | nil => intro us x _ _ _; simp [colAt]
  | cons c0 cs ih =>
    intro us x hs hlo hhi
    cases us with
    | nil => simp [setCols, colAt]
    | cons u us =>
      cases cs with
      | nil => simp [Shape] at hs
      | cons c1 rest =>
        simp only [Shape] at hs
        simp only [NoSplit] at hlo hhi
        simp only [setCols, colAt]
        split
        · rename_i hx
          simp only [Option.map_some, Option.some.injEq]
          have : (lo ≤ c0 ∧ c0 < hi) ↔ (lo ≤ x ∧ x < hi) := by grind
          by_cases h1 : lo ≤ c0 ∧ c0 < hi
          · rw [if_pos h1, if_pos (this.mp h1)]
          · rw [if_neg h1, if_neg (fun h => h1 (this.mpr h))]
        · exact ih us x hs.2 hlo.2 hhi.2

end withU

end dimlemmas

/-! ## the laws -/

/-- A lawful paving: the representation invariant `WF`, the pointwise reading of `set`, `is_val`
and `pop_filter`, and the grid facts behind the termination of `canonical_to_seq`
(`CutsIn g p`: every cut of `p` is on the grid `g`; `SelIn g s`: every range bound of `s` is). -/
class LawfulPaving (V S Pt G : outParam Type) (P : Type) [HasDflt V] [DecidableEq V]
    [Paving V S Pt G P] where
  WF : P → Prop
  CutsIn : G → P → Prop
  SelIn : G → S → Prop
  wf_empty : WF (Paving.empty : P)
  get_empty : ∀ x, Paving.get (Paving.empty : P) x = (HasDflt.dflt : V)
  wf_set : ∀ (p : P) s v, WF p → WF (Paving.set p s v)
  get_set : ∀ (p : P) s v x, WF p →
    Paving.get (Paving.set p s v) x = if Paving.mem (P := P) x s = true then v else Paving.get p x
  isVal_sound : ∀ (p : P) s v, WF p → Paving.isValG true p s v = true →
    ∀ x, Paving.mem (P := P) x s = true → Paving.get p x = v
  isVal_complete : ∀ fx (p : P) s v, WF p → (v = HasDflt.dflt ∨ ∃ x, Paving.mem (P := P) x s = true) →
    (∀ x, Paving.mem (P := P) x s = true → Paving.get p x = v) → Paving.isValG fx p s v = true
  isVal_nondflt : ∀ (p : P) s v, v ≠ HasDflt.dflt → Paving.isValG false p s v = Paving.isValG true p s v
  pop_some : ∀ fx (p : P) (f : V → Bool) v s p', WF p → f HasDflt.dflt = false →
    Paving.popFilterG fx p f = some ((v, s), p') →
      WF p' ∧ f v = true ∧ (∃ x, Paving.mem (P := P) x s = true) ∧
      (∀ x, Paving.mem (P := P) x s = true → Paving.get p x = v) ∧
      (∀ x, Paving.get p' x = if Paving.mem (P := P) x s = true then HasDflt.dflt else Paving.get p x)
  pop_none : ∀ fx (p : P) (f : V → Bool), WF p → f HasDflt.dflt = false →
    Paving.popFilterG fx p f = none → ∀ x, f (Paving.get p x) = false
  cutsIn_empty : ∀ g, CutsIn g (Paving.empty : P)
  cutsIn_cutsOf : ∀ (p : P), CutsIn (Paving.cutsOf p) p
  cutsIn_gjoin_left : ∀ a b (p : P), CutsIn a p → CutsIn (Paving.gjoin (P := P) a b) p
  cutsIn_gjoin_right : ∀ a b (p : P), CutsIn b p → CutsIn (Paving.gjoin (P := P) a b) p
  cutsIn_set : ∀ g (p : P) s v, CutsIn g p → SelIn g s → CutsIn g (Paving.set p s v)
  pop_grid : ∀ fx g (p : P) (f : V → Bool) v s p', WF p → CutsIn g p → f HasDflt.dflt = false →
    Paving.popFilterG fx p f = some ((v, s), p') →
      CutsIn g p' ∧ SelIn g s ∧ ∃ x ∈ Paving.gridPts (P := P) g, Paving.mem (P := P) x s = true

section cell
variable {V : Type} [HasDflt V] [DecidableEq V]

instance : LawfulPaving V Unit Unit Unit (Cell V) where
  WF _ := True
  CutsIn _ _ := True
  SelIn _ _ := True
  wf_empty := trivial
  get_empty _ := rfl
  wf_set _ _ _ _ := trivial
  get_set _ _ _ _ _ := by simp [Paving.get, Paving.set, Paving.mem]
  isVal_sound p s v _ h x _ := by simpa [Paving.isValG, Paving.get] using h
  isVal_complete fx p s v _ _ h := by
    have := h () (by simp [Paving.mem])
    simpa [Paving.isValG, Paving.get] using this
  isVal_nondflt _ _ _ _ := rfl
  pop_some fx p f v s p' _ hf h := by
    simp only [Paving.popFilterG] at h
    split at h
    · rename_i hfi
      simp only [Option.some.injEq, Prod.mk.injEq] at h
      obtain ⟨⟨rfl, _⟩, rfl⟩ := h
      exact ⟨trivial, hfi, ⟨(), rfl⟩, fun _ _ => rfl, fun _ => by simp [Paving.get, Paving.mem]⟩
    · cases h
  pop_none fx p f _ _ h x := by
    simp only [Paving.popFilterG] at h
    split at h
    · cases h
    · rename_i hfi
      simpa [Paving.get] using hfi
  cutsIn_empty _ := trivial
  cutsIn_cutsOf _ := trivial
  cutsIn_gjoin_left _ _ _ _ := trivial
  cutsIn_gjoin_right _ _ _ _ := trivial
  cutsIn_set _ _ _ _ _ _ := trivial
  pop_grid fx g p f v s p' _ _ _ h := ⟨trivial, trivial, (), by simp [Paving.gridPts], rfl⟩

end cell

section dim
variable {T U V S Pt G : Type}
variable [LT T] [LE T] [DecidableLT T] [DecidableLE T] [DecidableEq T] [IsLinearOrder T] [LawfulOrderLT T]
variable [HasDflt V] [DecidableEq V] [Paving V S Pt G U] [LawfulPaving V S Pt G U]

/-- representation invariant of a `Dim` -/
def DimWF (d : Dim T U) : Prop := Shape d.cuts d.cols ∧ ∀ u ∈ d.cols, LawfulPaving.WF u

/-- reading of a point through its column; a point outside every column reads the default -/
def colGet (cs : List T) (us : List U) (x : T × Pt) : V :=
  ((colAt cs us x.1).map (fun u => Paving.get u x.2)).getD (Paving.get (Paving.empty : U) x.2)

theorem dimGet_eq (d : Dim T U) (x : T × Pt) : Dim.get d x = colGet d.cuts d.cols x := by
  simp only [Dim.get, colGet]
  cases colAt d.cuts d.cols x.1 with
  | none => simp [LawfulPaving.get_empty]
  | some u => rfl

/-- cutting never changes `get` -/
theorem colGet_cutAt (cs : List T) (us : List U) (a : T) (h : Shape cs us) (x : T × Pt) :
    colGet (cutAt (Paving.empty : U) cs us a).1 (cutAt (Paving.empty : U) cs us a).2 x = colGet cs us x :=
  colAt_cutAt (fun u => Paving.get u x.2) (Paving.empty : U) cs us a h x.1

theorem get_cutAt (d : Dim T U) (a : T) (h : Shape d.cuts d.cols) (x : T × Pt) :
    Dim.get (⟨(cutAt (Paving.empty : U) d.cuts d.cols a).1, (cutAt (Paving.empty : U) d.cuts d.cols a).2⟩ : Dim T U) x
      = Dim.get d x := by
  rw [dimGet_eq, dimGet_eq]; exact colGet_cutAt d.cuts d.cols a h x

theorem wf_cutAt (cs : List T) (us : List U) (a : T) (h : ∀ u ∈ us, LawfulPaving.WF u) :
    ∀ u ∈ (cutAt (Paving.empty : U) cs us a).2, LawfulPaving.WF u := by
  intro u hu
  rcases cols_cutAt _ cs us a u hu with rfl | h'
  · exact LawfulPaving.wf_empty
  · exact h u h'

/-- the two `cut_at` of one iteration of `Dim::set` -/
def cut2 (cs : List T) (us : List U) (r : T × T) : List T × List U :=
  cutAt (Paving.empty : U) (cutAt (Paving.empty : U) cs us r.1).1 (cutAt (Paving.empty : U) cs us r.1).2 r.2

theorem setRange_eq (d : Dim T U) (r : T × T) (t : S) (v : V) :
    d.setRange r t v = ⟨(cut2 d.cuts d.cols r).1, setCols r.1 r.2 t v (cut2 d.cuts d.cols r).1 (cut2 d.cuts d.cols r).2⟩ := rfl

theorem shape_cut2 {cs : List T} {us : List U} (r : T × T) (h : Shape cs us) :
    Shape (cut2 cs us r).1 (cut2 cs us r).2 := shape_cutAt _ _ _ _ (shape_cutAt _ _ _ _ h)

theorem wf_cut2 (cs : List T) {us : List U} (r : T × T) (h : ∀ u ∈ us, LawfulPaving.WF u) :
    ∀ u ∈ (cut2 cs us r).2, LawfulPaving.WF u := wf_cutAt _ _ r.2 (wf_cutAt cs us r.1 h)

theorem mem_cut2 {cs : List T} {us : List U} (r : T × T) (h : Shape cs us) (a : T) :
    a ∈ (cut2 cs us r).1 ↔ a = r.2 ∨ a = r.1 ∨ a ∈ cs := by
  unfold cut2
  rw [mem_cutAt _ _ _ _ (shape_cutAt _ _ _ _ h), mem_cutAt _ _ _ _ h]

theorem colGet_cut2 {cs : List T} {us : List U} (r : T × T) (h : Shape cs us) (x : T × Pt) :
    colGet (cut2 cs us r).1 (cut2 cs us r).2 x = colGet cs us x := by
  unfold cut2
  rw [colGet_cutAt _ _ _ (shape_cutAt _ _ _ _ h), colGet_cutAt _ _ _ h]

theorem wf_setRange (d : Dim T U) (r : T × T) (t : S) (v : V) (h : DimWF d) : DimWF (d.setRange r t v) := by
  obtain ⟨hs, hw⟩ := h
  rw [setRange_eq]
  refine ⟨shape_setCols _ _ _ _ _ _ (shape_cut2 r hs), ?_⟩
  intro u hu
  have hw2 := wf_cut2 d.cuts r hw
  rcases mem_setCols _ _ _ _ _ _ u hu with h1 | ⟨u', hu', rfl⟩
  · exact hw2 u h1
  · exact LawfulPaving.wf_set _ _ _ (hw2 u' hu')

theorem get_setRange (d : Dim T U) (r : T × T) (t : S) (v : V) (x : T × Pt) (h : DimWF d) :
    Dim.get (d.setRange r t v) x
      = if (r.1 ≤ x.1 ∧ x.1 < r.2) ∧ Paving.mem (P := U) x.2 t = true then v else Dim.get d x := by
  obtain ⟨hs, hw⟩ := h
  have hsB := shape_cut2 r hs
  have hwB := wf_cut2 d.cuts r hw
  have hmem1 : r.1 ∈ (cut2 d.cuts d.cols r).1 := (mem_cut2 r hs _).mpr (Or.inr (Or.inl rfl))
  have hmem2 : r.2 ∈ (cut2 d.cuts d.cols r).1 := (mem_cut2 r hs _).mpr (Or.inl rfl)
  have hget : Dim.get d x = colGet (cut2 d.cuts d.cols r).1 (cut2 d.cuts d.cols r).2 x := by
    rw [dimGet_eq, colGet_cut2 r hs]
  rw [hget, dimGet_eq, setRange_eq]
  simp only [colGet]
  rw [colAt_setCols _ _ _ _ _ _ _ hsB (noSplit_of hsB (Or.inl hmem1)) (noSplit_of hsB (Or.inl hmem2))]
  by_cases hin : r.1 ≤ x.1 ∧ x.1 < r.2
  · have hsome := colAt_isSome (x := x.1) hsB ⟨r.1, hmem1, hin.1⟩ ⟨r.2, hmem2, hin.2⟩
    obtain ⟨u, hu⟩ := Option.isSome_iff_exists.mp hsome
    have hum := colAt_mem hu
    rw [hu]
    simp only [Option.map_some, Option.getD_some, if_pos hin]
    rw [LawfulPaving.get_set _ _ _ _ (hwB u hum)]
    simp only [hin, and_self, true_and]
  · simp only [if_neg hin]
    rw [if_neg (fun h => hin h.1)]
    congr 1
    cases colAt (cut2 d.cuts d.cols r).fst (cut2 d.cuts d.cols r).snd x.fst <;> rfl

theorem foldl_setRange (t : S) (v : V) : ∀ (rs : List (T × T)) (d : Dim T U), DimWF d →
    DimWF (rs.foldl (fun d r => d.setRange r t v) d) ∧
    ∀ x : T × Pt, Dim.get (rs.foldl (fun d r => d.setRange r t v) d) x
      = if (rs.any (fun r => decide (r.1 ≤ x.1) && decide (x.1 < r.2)) && Paving.mem (P := U) x.2 t) = true
        then v else Dim.get d x := by
  intro rs
  induction rs with
  | nil => intro d h; exact ⟨h, fun x => by simp⟩
  | cons r rs ih =>
    intro d h
    have h1 := wf_setRange d r t v h
    obtain ⟨hw, hg⟩ := ih (d.setRange r t v) h1
    refine ⟨hw, fun x => ?_⟩
    simp only [List.foldl_cons]
    rw [hg x, get_setRange d r t v x h]
    simp only [List.any_cons, Bool.and_eq_true, Bool.or_eq_true, decide_eq_true_eq]
    by_cases ha : (rs.any (fun r => decide (r.1 ≤ x.1) && decide (x.1 < r.2))) = true ∧ Paving.mem (P := U) x.2 t = true
    · rw [if_pos ha, if_pos ⟨Or.inr ha.1, ha.2⟩]
    · rw [if_neg ha]
      by_cases hb : (r.1 ≤ x.1 ∧ x.1 < r.2) ∧ Paving.mem (P := U) x.2 t = true
      · rw [if_pos hb, if_pos ⟨Or.inl hb.1, hb.2⟩]
      · rw [if_neg hb, if_neg]
        rintro ⟨h1 | h1, h2⟩
        · exact hb ⟨h1, h2⟩
        · exact ha ⟨h1, h2⟩

theorem wf_dimSet (d : Dim T U) (sel : PSel T S) (v : V) (h : DimWF d) : DimWF (Dim.set d sel v) :=
  (foldl_setRange sel.tail v sel.range d h).1

theorem get_dimSet (d : Dim T U) (sel : PSel T S) (v : V) (x : T × Pt) (h : DimWF d) :
    Dim.get (Dim.set d sel v) x = if PSel.mem (U := U) x sel = true then v else Dim.get d x :=
  (foldl_setRange sel.tail v sel.range d h).2 x

/-! ### `is_val` -/

theorem colsAllVal_iff (fx : Bool) (lo hi : T) (t : S) (v : V) (hlh : lo < hi) :
    ∀ (cs : List T) (us : List U), Shape cs us →
    (colsAllVal fx lo hi t v cs us = true ↔
      ∀ x u, lo ≤ x → x < hi → colAt cs us x = some u → Paving.isValG fx u t v = true) := by
  intro cs
  induction cs with
  | nil => intro us _; simp [colsAllVal, colAt]
  | cons c0 cs ih =>
    intro us hs
    cases cs with
    | nil => simp [colsAllVal, colAt]
    | cons c1 rest =>
      cases us with
      | nil => simp [Shape] at hs
      | cons u us =>
        simp only [Shape] at hs
        simp only [colsAllVal, Bool.and_eq_true]
        rw [ih us hs.2]
        constructor
        · rintro ⟨h1, h2⟩ x u' hlo hhi hcol
          simp only [colAt] at hcol
          split at hcol
          · rename_i hx
            cases hcol
            rw [if_pos (by grind)] at h1
            exact h1
          · exact h2 x u' hlo hhi hcol
        · intro h
          constructor
          · split
            · rename_i hov
              by_cases hc : lo ≤ c0
              · exact h c0 u hc hov.1 (by simp only [colAt]; rw [if_pos (by grind)])
              · exact h lo u (by grind) hlh (by simp only [colAt]; rw [if_pos (by grind)])
            · rfl
          · intro x u' hlo hhi hcol
            have hge := colAt_some_ge hs.2 hcol
            apply h x u' hlo hhi
            simp only [colAt]
            rw [if_neg (by grind)]
            exact hcol

theorem sticksOut_false {cs : List T} {r : T × T} (h : sticksOut cs r = false) :
    (∃ lo ∈ cs, lo ≤ r.1) ∧ (∃ hi ∈ cs, r.2 ≤ hi) := by
  unfold sticksOut at h
  split at h
  · rename_i f l hf hl
    simp only [Bool.or_eq_false_iff, decide_eq_false_iff_not] at h
    exact ⟨⟨f, List.mem_of_head? hf, by grind⟩, ⟨l, List.mem_of_getLast? hl, by grind⟩⟩
  · cases h

/-- a range that sticks out of the cuts (or a `Dim` without column) holds a point that reads the default -/
theorem sticksOut_point {cs : List T} {us : List U} {r : T × T} (hs : Shape cs us) (hr : r.1 < r.2)
    (h : (us.isEmpty || sticksOut cs r) = true) :
    ∃ x, r.1 ≤ x ∧ x < r.2 ∧ colAt cs us x = none := by
  rcases Bool.or_eq_true_iff.mp h with h | h
  · have : us = [] := List.isEmpty_iff.mp h
    subst this
    exact ⟨r.1, by grind, hr, by cases cs <;> simp [colAt] <;> (rename_i c cs; cases cs <;> simp [colAt])⟩
  · unfold sticksOut at h
    split at h
    · rename_i f l hf hl
      simp only [Bool.or_eq_true, decide_eq_true_eq] at h
      cases cs with
      | nil => cases hf
      | cons c cs =>
        simp only [List.head?_cons, Option.some.injEq] at hf
        subst hf
        rcases h with h | h
        · exact ⟨r.1, by grind, hr, colAt_lt_head hs h⟩
        · have hall : ∀ t ∈ c :: cs, t ≤ l := by
            exact shape_le_last hs hl
          by_cases hc : r.1 ≤ l
          · exact ⟨l, hc, h, colAt_ge_all hall⟩
          · exact ⟨r.1, by grind, hr, colAt_ge_all (fun t ht => by have := hall t ht; grind)⟩
    · exact ⟨r.1, by grind, hr, by
        rename_i hnone
        cases cs with
        | nil => simp [colAt]
        | cons c cs =>
          exfalso
          exact hnone c ((c :: cs).getLast (by simp)) rfl (List.getLast?_eq_some_getLast (by simp))⟩

theorem get_of_colAt_some {d : Dim T U} {x : T × Pt} {u : U} (h : colAt d.cuts d.cols x.1 = some u) :
    Dim.get d x = Paving.get u x.2 := by simp [Dim.get, h]

theorem get_of_colAt_none {d : Dim T U} {x : T × Pt} (h : colAt d.cuts d.cols x.1 = none) :
    Dim.get d x = (HasDflt.dflt : V) := by simp [Dim.get, h]

/-- membership of the first coordinate in a list of ranges -/
def inRanges (rs : List (T × T)) (a : T) : Bool := rs.any (fun r => decide (r.1 ≤ a) && decide (a < r.2))

theorem inRanges_cons (r : T × T) (rs : List (T × T)) (a : T) :
    inRanges (r :: rs) a = true ↔ (r.1 ≤ a ∧ a < r.2) ∨ inRanges rs a = true := by
  simp [inRanges]

theorem psel_mem_iff (x : T × Pt) (sel : PSel T S) :
    PSel.mem (U := U) x sel = true ↔ inRanges sel.range x.1 = true ∧ Paving.mem (P := U) x.2 sel.tail = true := by
  simp [PSel.mem, inRanges]

/-- one range of the repaired `is_val`, soundness: the columns it overlaps were all checked and the
part outside the cuts is covered by `v = default` -/
theorem range_sound (d : Dim T U) (hd : DimWF d) (t : S) (v : V) (r : T × T) (hr : r.1 < r.2)
    (hcols : colsAllVal true r.1 r.2 t v d.cuts d.cols = true)
    (hout : v = HasDflt.dflt ∨ ∀ a, r.1 ≤ a → a < r.2 → (colAt d.cuts d.cols a).isSome = true)
    (x : T × Pt) (hx : r.1 ≤ x.1 ∧ x.1 < r.2) (hy : Paving.mem (P := U) x.2 t = true) : Dim.get d x = v := by
  have hall := (colsAllVal_iff true r.1 r.2 t v hr d.cuts d.cols hd.1).mp hcols
  cases hc : colAt d.cuts d.cols x.1 with
  | some u =>
    rw [get_of_colAt_some hc]
    exact LawfulPaving.isVal_sound u t v (hd.2 u (colAt_mem hc)) (hall x.1 u hx.1 hx.2 hc) x.2 hy
  | none =>
    rw [get_of_colAt_none hc]
    rcases hout with h | h
    · exact h.symm
    · have := h x.1 hx.1 hx.2
      rw [hc] at this
      cases this

theorem isValRanges_sound (d : Dim T U) (hd : DimWF d) (t : S) (v : V) : ∀ rs : List (T × T),
    isValRanges true d t v rs = true →
    ∀ x : T × Pt, inRanges rs x.1 = true → Paving.mem (P := U) x.2 t = true → Dim.get d x = v := by
  intro rs
  induction rs with
  | nil => intro _ x hx; simp [inRanges] at hx
  | cons r rs ih =>
    intro h x hx hy
    rw [inRanges_cons] at hx
    unfold isValRanges at h
    split at h
    · rename_i hinv
      rcases hx with hx | hx
      · grind
      · exact ih h x hx hy
    · rename_i hinv
      have hr : r.1 < r.2 := by grind
      split at h
      · rename_i hst
        simp only [if_true] at h
        split at h
        · cases h
        · rename_i hv
          simp only [Bool.and_eq_true] at h
          rcases hx with hx | hx
          · exact range_sound d hd t v r hr h.1 (Or.inl (by simpa using hv)) x hx hy
          · exact ih h.2 x hx hy
      · rename_i hst
        simp only [Bool.and_eq_true] at h
        rcases hx with hx | hx
        · have hst' : sticksOut d.cuts r = false := by
            cases hs : sticksOut d.cuts r
            · rfl
            · simp [hs] at hst
          obtain ⟨⟨lo, hlo, hlo'⟩, ⟨hi, hhi, hhi'⟩⟩ := sticksOut_false hst'
          refine range_sound d hd t v r hr h.1 (Or.inr ?_) x hx hy
          intro a ha1 ha2
          exact colAt_isSome hd.1 ⟨lo, hlo, by grind⟩ ⟨hi, hhi, by grind⟩
        · exact ih h.2 x hx hy

theorem range_complete (fx : Bool) (d : Dim T U) (hd : DimWF d) (t : S) (v : V) (r : T × T) (hr : r.1 < r.2)
    (hyp : v = HasDflt.dflt ∨ ∃ y, Paving.mem (P := U) y t = true)
    (hspec : ∀ x : T × Pt, r.1 ≤ x.1 ∧ x.1 < r.2 → Paving.mem (P := U) x.2 t = true → Dim.get d x = v) :
    colsAllVal fx r.1 r.2 t v d.cuts d.cols = true := by
  rw [colsAllVal_iff fx r.1 r.2 t v hr d.cuts d.cols hd.1]
  intro a u ha1 ha2 hc
  apply LawfulPaving.isVal_complete fx u t v (hd.2 u (colAt_mem hc)) hyp
  intro y hy
  have := hspec (a, y) ⟨ha1, ha2⟩ hy
  rwa [get_of_colAt_some (x := (a, y)) hc] at this

theorem isValRanges_complete (fx : Bool) (d : Dim T U) (hd : DimWF d) (t : S) (v : V)
    (hyp : v = HasDflt.dflt ∨ ∃ y, Paving.mem (P := U) y t = true) : ∀ rs : List (T × T),
    (∀ x : T × Pt, inRanges rs x.1 = true → Paving.mem (P := U) x.2 t = true → Dim.get d x = v) →
    isValRanges fx d t v rs = true := by
  intro rs
  induction rs with
  | nil => intro _; rfl
  | cons r rs ih =>
    intro hspec
    have hrest := ih (fun x hx hy => hspec x ((inRanges_cons r rs x.1).mpr (Or.inr hx)) hy)
    have hthis : ∀ x : T × Pt, r.1 ≤ x.1 ∧ x.1 < r.2 → Paving.mem (P := U) x.2 t = true → Dim.get d x = v :=
      fun x hx hy => hspec x ((inRanges_cons r rs x.1).mpr (Or.inl hx)) hy
    unfold isValRanges
    split
    · exact hrest
    · rename_i hinv
      have hr : r.1 < r.2 := by grind
      have hcols := range_complete fx d hd t v r hr hyp hthis
      split
      · rename_i hst
        obtain ⟨a, ha1, ha2, hnone⟩ := sticksOut_point hd.1 hr hst
        have hv : v = HasDflt.dflt := by
          rcases hyp with h | ⟨y, hy⟩
          · exact h
          · have := hthis (a, y) ⟨ha1, ha2⟩ hy
            rw [get_of_colAt_none (x := (a, y)) hnone] at this
            exact this.symm
        cases fx
        · simp [hv]
        · simp only [if_true]
          rw [if_neg (by simp [hv]), hcols, hrest]
          rfl
      · simp [hcols, hrest]

theorem colsAllVal_nondflt (lo hi : T) (t : S) (v : V) (hv : v ≠ HasDflt.dflt) : ∀ (cs : List T) (us : List U),
    colsAllVal false lo hi t v cs us = colsAllVal true lo hi t v cs us := by
  intro cs
  induction cs with
  | nil => intro us; simp [colsAllVal]
  | cons c0 cs ih =>
    intro us
    cases cs with
    | nil => simp [colsAllVal]
    | cons c1 rest =>
      cases us with
      | nil => simp [colsAllVal]
      | cons u us =>
        simp only [colsAllVal]
        rw [ih us, LawfulPaving.isVal_nondflt u t v hv]

theorem isValRanges_nondflt (d : Dim T U) (t : S) (v : V) (hv : v ≠ HasDflt.dflt) : ∀ rs : List (T × T),
    isValRanges false d t v rs = isValRanges true d t v rs := by
  intro rs
  induction rs with
  | nil => rfl
  | cons r rs ih =>
    unfold isValRanges
    rw [ih, colsAllVal_nondflt _ _ _ _ hv]
    simp [hv]

/-! ### `pop_filter` -/

theorem inRanges_append (a b : List (T × T)) (x : T) :
    inRanges (a ++ b) x = true ↔ inRanges a x = true ∨ inRanges b x = true := by
  simp [inRanges]

theorem colAt_cons_lift {c c1 : T} {rest : List T} {u u' : U} {us : List U} {a : T}
    (hs : Shape (c1 :: rest) us) (_hc : c < c1) (h : colAt (c1 :: rest) us a = some u') :
    colAt (c :: c1 :: rest) (u :: us) a = some u' := by
  have := colAt_some_ge hs h
  simp only [colAt]
  rw [if_neg (by grind)]
  exact h

/-- every point of a collected run lies in the pending run `[s, c)` or in a later column that has the
value on the tail selector -/
theorem scanRuns_sound (fx : Bool) (t : S) (v : V) : ∀ (rest : List T) (us : List U) (c : T) (run : Option T),
    Shape (c :: rest) us → (∀ s, run = some s → s < c) →
    ∀ a, inRanges (scanRuns fx t v run (c :: rest) us) a = true →
      (∃ s, run = some s ∧ s ≤ a ∧ a < c) ∨
      (∃ u, colAt (c :: rest) us a = some u ∧ Paving.isValG fx u t v = true) := by
  intro rest
  induction rest with
  | nil =>
    intro us c run hs hrun a ha
    have := shape_nil_cols hs; subst this
    cases run with
    | none => simp [scanRuns, inRanges] at ha
    | some s =>
      simp only [scanRuns, inRanges, List.any_cons, List.any_nil, Bool.or_false, Bool.and_eq_true,
        decide_eq_true_eq] at ha
      exact Or.inl ⟨s, rfl, ha.1, ha.2⟩
  | cons c1 rest ih =>
    intro us c run hs hrun a ha
    cases us with
    | nil => simp [Shape] at hs
    | cons u us =>
      simp only [Shape] at hs
      simp only [scanRuns] at ha
      split at ha
      · rename_i hval
        have hpre : ∀ s, some (run.getD c) = some s → s < c1 := by
          intro s hs'
          cases run with
          | none => simp at hs'; subst hs'; exact hs.1
          | some s0 => simp at hs'; subst hs'; have := hrun s0 rfl; grind
        rcases ih us c1 (some (run.getD c)) hs.2 hpre a ha with ⟨s, hs', h1, h2⟩ | ⟨u', hu', hv'⟩
        · simp only [Option.some.injEq] at hs'
          by_cases hac : a < c
          · cases run with
            | none => simp at hs'; subst hs'; grind
            | some s0 => simp at hs'; subst hs'; exact Or.inl ⟨s0, rfl, h1, hac⟩
          · refine Or.inr ⟨u, ?_, hval⟩
            simp only [colAt]
            rw [if_pos (by grind)]
        · exact Or.inr ⟨u', colAt_cons_lift hs.2 hs.1 hu', hv'⟩
      · rw [inRanges_append] at ha
        rcases ha with ha | ha
        · cases run with
          | none => simp [inRanges] at ha
          | some s =>
            simp only [inRanges, List.any_cons, List.any_nil, Bool.or_false, Bool.and_eq_true,
              decide_eq_true_eq] at ha
            exact Or.inl ⟨s, rfl, ha.1, ha.2⟩
        · rcases ih us c1 none hs.2 (by simp) a ha with ⟨s, hs', _, _⟩ | ⟨u', hu', hv'⟩
          · cases hs'
          · exact Or.inr ⟨u', colAt_cons_lift hs.2 hs.1 hu', hv'⟩

/-- the pending run is always emitted -/
theorem scanRuns_cover (fx : Bool) (t : S) (v : V) : ∀ (rest : List T) (us : List U) (c s : T),
    Shape (c :: rest) us → ∀ a, s ≤ a → a < c →
    inRanges (scanRuns fx t v (some s) (c :: rest) us) a = true := by
  intro rest
  induction rest with
  | nil =>
    intro us c s hs a h1 h2
    have := shape_nil_cols hs; subst this
    simp [scanRuns, inRanges, h1, h2]
  | cons c1 rest ih =>
    intro us c s hs a h1 h2
    cases us with
    | nil => simp [Shape] at hs
    | cons u us =>
      simp only [Shape] at hs
      simp only [scanRuns]
      split
      · exact ih us c1 s hs.2 a h1 (by grind)
      · rw [inRanges_append]
        exact Or.inl (by simp [inRanges, h1, h2])

/-- the bounds of the collected runs are cuts (or the start of the pending run) -/
theorem scanRuns_bounds (fx : Bool) (t : S) (v : V) : ∀ (cs : List T) (us : List U) (run : Option T),
    ∀ r ∈ scanRuns fx t v run cs us, (run = some r.1 ∨ r.1 ∈ cs) ∧ r.2 ∈ cs := by
  intro cs
  induction cs with
  | nil => intro us run r hr; simp [scanRuns] at hr
  | cons c rest ih =>
    intro us run r hr
    cases us with
    | nil =>
      cases rest with
      | nil =>
        cases run with
        | none => simp [scanRuns] at hr
        | some s => simp [scanRuns] at hr; subst hr; simp
      | cons c1 rest => simp [scanRuns] at hr
    | cons u us =>
      simp only [scanRuns] at hr
      split at hr
      · have := ih us (some (run.getD c)) r hr
        cases run with
        | none =>
          simp only [Option.getD_none, Option.some.injEq] at this
          rcases this with ⟨h1 | h1, h2⟩
          · exact ⟨Or.inr (by simp [h1]), List.mem_cons_of_mem _ h2⟩
          · exact ⟨Or.inr (List.mem_cons_of_mem _ h1), List.mem_cons_of_mem _ h2⟩
        | some s =>
          simp only [Option.getD_some] at this
          rcases this with ⟨h1 | h1, h2⟩
          · exact ⟨Or.inl h1, List.mem_cons_of_mem _ h2⟩
          · exact ⟨Or.inr (List.mem_cons_of_mem _ h1), List.mem_cons_of_mem _ h2⟩
      · rcases List.mem_append.mp hr with hr | hr
        · cases run with
          | none => simp at hr
          | some s => simp at hr; subst hr; simp
        · have := ih us none r hr
          rcases this with ⟨h1 | h1, h2⟩
          · cases h1
          · exact ⟨Or.inr (List.mem_cons_of_mem _ h1), List.mem_cons_of_mem _ h2⟩

/-- what `popCols` returns, read through `colAt`: the popped column is the one spanning `[lo, hi)` -/
structure PopSpec (f : V → Bool) (cs : List T) (us us' : List U) (v : V) (t : S) (rg : List (T × T)) : Prop where
  shape : Shape cs us'
  wf : ∀ u ∈ us', LawfulPaving.WF u
  fv : f v = true
  inh : ∃ y, Paving.mem (P := U) y t = true
  bounds : ∀ r ∈ rg, r.1 ∈ cs ∧ r.2 ∈ cs
  val : ∀ a, inRanges rg a = true → ∃ u, colAt cs us a = some u ∧
    ∀ y, Paving.mem (P := U) y t = true → Paving.get u y = v
  col : ∃ lo hi, lo ∈ cs ∧ lo < hi ∧ (∀ a, lo ≤ a → a < hi → inRanges rg a = true) ∧
    (∀ a, lo ≤ a → a < hi → ∃ u u', colAt cs us a = some u ∧ colAt cs us' a = some u' ∧
      ∀ y, Paving.get u' y = if Paving.mem (P := U) y t = true then (HasDflt.dflt : V) else Paving.get u y) ∧
    (∀ a, ¬ (lo ≤ a ∧ a < hi) → colAt cs us' a = colAt cs us a)

theorem popCols_spec (fx : Bool) (f : V → Bool) (hf : f HasDflt.dflt = false) :
    ∀ (cs : List T) (us : List U) (v : V) (t : S) (rg : List (T × T)) (us' : List U),
    Shape cs us → (∀ u ∈ us, LawfulPaving.WF u) →
    popCols fx f cs us = some (v, t, rg, us') → PopSpec f cs us us' v t rg := by
  intro cs
  induction cs with
  | nil => intro us v t rg us' _ _ h; simp [popCols] at h
  | cons c rest ih =>
    intro us v t rg us' hs hw h
    cases us with
    | nil => simp [popCols] at h
    | cons u us =>
      cases rest with
      | nil => simp [Shape] at hs
      | cons c1 rest =>
        have hlb := shape_lb hs
        simp only [Shape] at hs
        simp only [popCols] at h
        split at h
        · -- the first column pops
          rename_i v0 t0 u0 hpop
          simp only [Option.some.injEq, Prod.mk.injEq] at h
          obtain ⟨rfl, rfl, rfl, rfl⟩ := h
          obtain ⟨hwu, hfv, hinh, hval, hget⟩ :=
            LawfulPaving.pop_some fx u f v0 t0 u0 (hw u (by simp)) hf hpop
          have hvd : v0 ≠ HasDflt.dflt := by intro h; rw [h, hf] at hfv; cases hfv
          refine ⟨⟨hs.1, hs.2⟩, ?_, hfv, hinh, ?_, ?_, ?_⟩
          · intro w hw'
            rcases List.mem_cons.mp hw' with rfl | h'
            · exact hwu
            · exact hw w (List.mem_cons_of_mem _ h')
          · intro r hr
            rcases scanRuns_bounds fx t0 v0 (c1 :: rest) us (some c) r hr with ⟨h1 | h1, h2⟩
            · simp only [Option.some.injEq] at h1
              exact ⟨by simp [h1], List.mem_cons_of_mem _ h2⟩
            · exact ⟨List.mem_cons_of_mem _ h1, List.mem_cons_of_mem _ h2⟩
          · intro a ha
            rcases scanRuns_sound fx t0 v0 rest us c1 (some c) hs.2 (by intro s hs'; cases hs'; exact hs.1) a ha with
              ⟨s, hs', h1, h2⟩ | ⟨u', hu', hv'⟩
            · cases hs'
              exact ⟨u, by simp only [colAt]; rw [if_pos ⟨h1, h2⟩], hval⟩
            · refine ⟨u', colAt_cons_lift hs.2 hs.1 hu', ?_⟩
              have hv'' : Paving.isValG true u' t0 v0 = true := by
                cases fx
                · rw [← LawfulPaving.isVal_nondflt u' t0 v0 hvd]; exact hv'
                · exact hv'
              exact LawfulPaving.isVal_sound u' t0 v0 (hw u' (List.mem_cons_of_mem _ (colAt_mem hu'))) hv''
          · refine ⟨c, c1, by simp, hs.1, ?_, ?_, ?_⟩
            · intro a h1 h2
              exact scanRuns_cover fx t0 v0 rest us c1 c hs.2 a h1 h2
            · intro a h1 h2
              exact ⟨u, u0, by simp only [colAt]; rw [if_pos ⟨h1, h2⟩],
                by simp only [colAt]; rw [if_pos ⟨h1, h2⟩], hget⟩
            · intro a ha
              simp only [colAt]
              rw [if_neg ha, if_neg ha]
        · -- the first column does not pop: recurse
          rename_i hpop
          split at h
          · rename_i v1 t1 rg1 us1 hrec
            simp only [Option.some.injEq, Prod.mk.injEq] at h
            obtain ⟨rfl, rfl, rfl, rfl⟩ := h
            have hrec' := ih us v1 t1 rg1 us1 hs.2 (fun w hw' => hw w (List.mem_cons_of_mem _ hw')) hrec
            obtain ⟨lo, hi, hlo, hlh, hcov, hcol, hoth⟩ := hrec'.col
            have hclo : c1 ≤ lo := by
              rcases List.mem_cons.mp hlo with rfl | h'
              · grind
              · have := shape_lb hs.2 lo h'; grind
            refine ⟨⟨hs.1, hrec'.shape⟩, ?_, hrec'.fv, hrec'.inh, ?_, ?_, ?_⟩
            · intro w hw'
              rcases List.mem_cons.mp hw' with rfl | h'
              · exact hw w (by simp)
              · exact hrec'.wf w h'
            · intro r hr
              have := hrec'.bounds r hr
              exact ⟨List.mem_cons_of_mem _ this.1, List.mem_cons_of_mem _ this.2⟩
            · intro a ha
              obtain ⟨u', hu', hv'⟩ := hrec'.val a ha
              exact ⟨u', colAt_cons_lift hs.2 hs.1 hu', hv'⟩
            · refine ⟨lo, hi, List.mem_cons_of_mem _ hlo, hlh, hcov, ?_, ?_⟩
              · intro a h1 h2
                obtain ⟨w, w', hw1, hw2, hw3⟩ := hcol a h1 h2
                exact ⟨w, w', colAt_cons_lift hs.2 hs.1 hw1, colAt_cons_lift hrec'.shape hs.1 hw2, hw3⟩
              · intro a ha
                simp only [colAt]
                split
                · rfl
                · exact hoth a ha
          · cases h

theorem popCols_none (fx : Bool) (f : V → Bool) : ∀ (cs : List T) (us : List U), Shape cs us →
    popCols fx f cs us = none → ∀ u ∈ us, Paving.popFilterG fx u f = none := by
  intro cs
  induction cs with
  | nil => intro us hs _ u hu; cases us <;> simp_all [Shape]
  | cons c rest ih =>
    intro us hs h u hu
    cases us with
    | nil => cases hu
    | cons u0 us =>
      cases rest with
      | nil => simp [Shape] at hs
      | cons c1 rest =>
        simp only [Shape] at hs
        simp only [popCols] at h
        split at h
        · cases h
        · rename_i hpop
          split at h
          · cases h
          · rename_i hrec
            rcases List.mem_cons.mp hu with rfl | hu'
            · exact hpop
            · exact ih us hs.2 hrec u hu' 

theorem dim_pop_some (fx : Bool) (d : Dim T U) (f : V → Bool) (v : V) (sel : PSel T S) (d' : Dim T U)
    (hd : DimWF d) (hf : f HasDflt.dflt = false) (h : Dim.popFilterG fx d f = some ((v, sel), d')) :
    DimWF d' ∧ f v = true ∧ (∃ x, PSel.mem (U := U) x sel = true) ∧
    (∀ x, PSel.mem (U := U) x sel = true → Dim.get d x = v) ∧
    (∀ x, Dim.get d' x = if PSel.mem (U := U) x sel = true then HasDflt.dflt else Dim.get d x) := by
  unfold Dim.popFilterG at h
  split at h
  · cases h
  · rename_i v0 t0 rg cols' hpc
    simp only [Option.some.injEq, Prod.mk.injEq] at h
    obtain ⟨⟨rfl, rfl⟩, rfl⟩ := h
    have sp := popCols_spec fx f hf d.cuts d.cols v0 t0 rg cols' hd.1 hd.2 hpc
    have hd1 : DimWF (⟨d.cuts, cols'⟩ : Dim T U) := ⟨sp.shape, sp.wf⟩
    obtain ⟨lo, hi, hlo, hlh, hcov, hcol, hoth⟩ := sp.col
    obtain ⟨y0, hy0⟩ := sp.inh
    refine ⟨wf_dimSet _ _ _ hd1, sp.fv, ⟨(lo, y0), ?_⟩, ?_, ?_⟩
    · rw [psel_mem_iff]
      exact ⟨hcov lo (by grind) hlh, hy0⟩
    · intro x hx
      rw [psel_mem_iff] at hx
      obtain ⟨u, hu, hv⟩ := sp.val x.1 hx.1
      rw [get_of_colAt_some hu]
      exact hv x.2 hx.2
    · intro x
      rw [get_dimSet _ _ _ _ hd1]
      split
      · rfl
      · rename_i hnm
        by_cases hin : lo ≤ x.1 ∧ x.1 < hi
        · obtain ⟨u, u', hu, hu', hg⟩ := hcol x.1 hin.1 hin.2
          rw [get_of_colAt_some (d := ⟨d.cuts, cols'⟩) hu', get_of_colAt_some hu, hg]
          rw [if_neg]
          intro hy
          exact hnm ((psel_mem_iff x _).mpr ⟨hcov x.1 hin.1 hin.2, hy⟩)
        · have := hoth x.1 hin
          simp only [Dim.get, this]

theorem dim_pop_none (fx : Bool) (d : Dim T U) (f : V → Bool) (hd : DimWF d) (hf : f HasDflt.dflt = false)
    (h : Dim.popFilterG fx d f = none) : ∀ x : T × Pt, f (Dim.get d x) = false := by
  unfold Dim.popFilterG at h
  split at h
  · rename_i hpc
    intro x
    cases hc : colAt d.cuts d.cols x.1 with
    | none => rw [get_of_colAt_none hc]; exact hf
    | some u =>
      rw [get_of_colAt_some hc]
      exact LawfulPaving.pop_none fx u f (hd.2 u (colAt_mem hc)) hf
        (popCols_none fx f d.cuts d.cols hd.1 hpc u (colAt_mem hc)) x.2
  · cases h

/-! ### the grid of all cuts -/

def DimCutsIn (g : List T × G) (d : Dim T U) : Prop :=
  (∀ c ∈ d.cuts, c ∈ g.1) ∧ ∀ u ∈ d.cols, LawfulPaving.CutsIn g.2 u

def PSelIn (g : List T × G) (sel : PSel T S) : Prop :=
  (∀ r ∈ sel.range, r.1 ∈ g.1 ∧ r.2 ∈ g.1) ∧ LawfulPaving.SelIn (P := U) g.2 sel.tail

theorem cutsIn_foldr : ∀ (cols : List U) (u : U), u ∈ cols →
    LawfulPaving.CutsIn (cols.foldr (fun u g => Paving.gjoin (P := U) (Paving.cutsOf u) g) (Paving.gempty (P := U))) u := by
  intro cols
  induction cols with
  | nil => intro u hu; cases hu
  | cons u0 rest ih =>
    intro u hu
    simp only [List.foldr_cons]
    rcases List.mem_cons.mp hu with rfl | hu'
    · exact LawfulPaving.cutsIn_gjoin_left _ _ _ (LawfulPaving.cutsIn_cutsOf u)
    · exact LawfulPaving.cutsIn_gjoin_right _ _ _ (ih u hu')

theorem dimCutsIn_cutsOf (d : Dim T U) : DimCutsIn (Dim.cutsOf d) d :=
  ⟨fun _ hc => hc, fun u hu => cutsIn_foldr d.cols u hu⟩

theorem dimCutsIn_setRange (g : List T × G) (d : Dim T U) (r : T × T) (t : S) (v : V)
    (hd : DimCutsIn g d) (hr : r.1 ∈ g.1 ∧ r.2 ∈ g.1) (ht : LawfulPaving.SelIn (P := U) g.2 t) :
    DimCutsIn g (d.setRange r t v) := by
  rw [setRange_eq]
  have hcols : ∀ u ∈ (cut2 d.cuts d.cols r).2, LawfulPaving.CutsIn g.2 u := by
    intro u hu
    unfold cut2 at hu
    rcases cols_cutAt _ _ _ _ u hu with rfl | h1
    · exact LawfulPaving.cutsIn_empty _
    · rcases cols_cutAt _ _ _ _ u h1 with rfl | h2
      · exact LawfulPaving.cutsIn_empty _
      · exact hd.2 u h2
  constructor
  · intro c hc
    unfold cut2 at hc
    rcases mem_cutAt_sub _ _ _ _ c hc with rfl | h1
    · exact hr.2
    · rcases mem_cutAt_sub _ _ _ _ c h1 with rfl | h2
      · exact hr.1
      · exact hd.1 c h2
  · intro u hu
    rcases mem_setCols _ _ _ _ _ _ u hu with h1 | ⟨u', hu', rfl⟩
    · exact hcols u h1
    · exact LawfulPaving.cutsIn_set _ _ _ _ (hcols u' hu') ht

theorem dimCutsIn_set (g : List T × G) (d : Dim T U) (sel : PSel T S) (v : V)
    (hd : DimCutsIn g d) (hs : PSelIn (U := U) g sel) : DimCutsIn g (Dim.set d sel v) := by
  obtain ⟨hr, ht⟩ := hs
  unfold Dim.set
  generalize sel.range = rs at hr
  induction rs generalizing d with
  | nil => exact hd
  | cons r rs ih =>
    simp only [List.foldl_cons]
    exact ih _ (dimCutsIn_setRange g d r sel.tail v hd (hr r (by simp)) ht)
      (fun r' hr' => hr r' (List.mem_cons_of_mem _ hr'))

theorem popCols_grid (fx : Bool) (f : V → Bool) (hf : f HasDflt.dflt = false) (g2 : G) : ∀ (cs : List T) (us : List U) (v : V) (t : S)
    (rg : List (T × T)) (us' : List U), (∀ u ∈ us, LawfulPaving.WF u) → (∀ u ∈ us, LawfulPaving.CutsIn g2 u) →
    popCols fx f cs us = some (v, t, rg, us') →
    (∀ u ∈ us', LawfulPaving.CutsIn g2 u) ∧ LawfulPaving.SelIn (P := U) g2 t ∧
    ∃ y ∈ Paving.gridPts (P := U) g2, Paving.mem (P := U) y t = true := by
  intro cs
  induction cs with
  | nil => intro us v t rg us' _ _ h; simp [popCols] at h
  | cons c rest ih =>
    intro us v t rg us' hw hc h
    cases us with
    | nil => simp [popCols] at h
    | cons u us =>
      simp only [popCols] at h
      split at h
      · rename_i v0 t0 u0 hpop
        simp only [Option.some.injEq, Prod.mk.injEq] at h
        obtain ⟨rfl, rfl, rfl, rfl⟩ := h
        obtain ⟨h1, h2, h3⟩ := LawfulPaving.pop_grid fx g2 u f v0 t0 u0 (hw u (by simp)) (hc u (by simp)) hf hpop
        refine ⟨?_, h2, h3⟩
        intro w hw'
        rcases List.mem_cons.mp hw' with rfl | h'
        · exact h1
        · exact hc w (List.mem_cons_of_mem _ h')
      · split at h
        · rename_i v1 t1 rg1 us1 hrec
          simp only [Option.some.injEq, Prod.mk.injEq] at h
          obtain ⟨rfl, rfl, rfl, rfl⟩ := h
          obtain ⟨h1, h2, h3⟩ := ih us v1 t1 rg1 us1 (fun w hw' => hw w (List.mem_cons_of_mem _ hw'))
            (fun w hw' => hc w (List.mem_cons_of_mem _ hw')) hrec
          refine ⟨?_, h2, h3⟩
          intro w hw'
          rcases List.mem_cons.mp hw' with rfl | h'
          · exact hc w (by simp)
          · exact h1 w h'
        · cases h

theorem dim_pop_grid (fx : Bool) (g : List T × G) (d : Dim T U) (f : V → Bool) (v : V) (sel : PSel T S)
    (d' : Dim T U) (hd : DimWF d) (hg : DimCutsIn g d) (hf : f HasDflt.dflt = false)
    (h : Dim.popFilterG fx d f = some ((v, sel), d')) :
    DimCutsIn g d' ∧ PSelIn (U := U) g sel ∧
    ∃ x ∈ (g.1.flatMap (fun t => (Paving.gridPts (P := U) g.2).map (fun y => (t, y)))),
      PSel.mem (U := U) x sel = true := by
  unfold Dim.popFilterG at h
  split at h
  · cases h
  · rename_i v0 t0 rg cols' hpc
    simp only [Option.some.injEq, Prod.mk.injEq] at h
    obtain ⟨⟨rfl, rfl⟩, rfl⟩ := h
    have sp := popCols_spec fx f hf d.cuts d.cols v0 t0 rg cols' hd.1 hd.2 hpc
    obtain ⟨hc', hsel, y, hy, hym⟩ := popCols_grid fx f hf g.2 d.cuts d.cols v0 t0 rg cols' hd.2 hg.2 hpc
    obtain ⟨lo, hi, hlo, hlh, hcov, _, _⟩ := sp.col
    have hselIn : PSelIn (U := U) g (⟨rg, t0⟩ : PSel T S) :=
      ⟨fun r hr => ⟨hg.1 _ (sp.bounds r hr).1, hg.1 _ (sp.bounds r hr).2⟩, hsel⟩
    refine ⟨dimCutsIn_set g _ _ _ ⟨hg.1, hc'⟩ hselIn, hselIn, (lo, y), ?_, ?_⟩
    · simp only [List.mem_flatMap, List.mem_map]
      exact ⟨lo, hg.1 lo hlo, y, hy, rfl⟩
    · rw [psel_mem_iff]
      exact ⟨hcov lo (by grind) hlh, hym⟩

/-- `impl Paving for Dim<T, U>` is lawful when `U` is: induction on the dimension -/
instance : LawfulPaving V (PSel T S) (T × Pt) (List T × G) (Dim T U) where
  WF := DimWF
  CutsIn := DimCutsIn
  SelIn := PSelIn (U := U)
  wf_empty := ⟨trivial, fun u hu => (by cases hu)⟩
  get_empty x := by simp [Paving.get, Paving.empty, Dim.get, colAt]
  wf_set p s v h := wf_dimSet p s v h
  get_set p s v x h := get_dimSet p s v x h
  isVal_sound p s v h hv x hx := by
    have hx' := (psel_mem_iff (U := U) x s).mp hx
    exact isValRanges_sound p h s.tail v s.range hv x hx'.1 hx'.2
  isVal_complete fx p s v h hyp hspec := by
    apply isValRanges_complete fx p h s.tail v _ s.range
    · intro x hx hy
      exact hspec x ((psel_mem_iff (U := U) x s).mpr ⟨hx, hy⟩)
    · rcases hyp with h1 | ⟨x, hx⟩
      · exact Or.inl h1
      · exact Or.inr ⟨x.2, ((psel_mem_iff (U := U) x s).mp hx).2⟩
  isVal_nondflt p s v hv := isValRanges_nondflt p s.tail v hv s.range
  pop_some fx p f v s p' h hf hp := dim_pop_some fx p f v s p' h hf hp
  pop_none fx p f h hf hp := dim_pop_none fx p f h hf hp
  cutsIn_empty g := by
    show DimCutsIn g ⟨[], []⟩
    exact ⟨fun c hc => (by cases hc), fun u hu => (by cases hu)⟩
  cutsIn_cutsOf p := dimCutsIn_cutsOf p
  cutsIn_gjoin_left a b p h :=
    ⟨fun c hc => (mem_lunion _ _ _).mpr (Or.inl (h.1 c hc)),
     fun u hu => LawfulPaving.cutsIn_gjoin_left _ _ _ (h.2 u hu)⟩
  cutsIn_gjoin_right a b p h :=
    ⟨fun c hc => (mem_lunion _ _ _).mpr (Or.inr (h.1 c hc)),
     fun u hu => LawfulPaving.cutsIn_gjoin_right _ _ _ (h.2 u hu)⟩
  cutsIn_set g p s v h hs := dimCutsIn_set g p s v h hs
  pop_grid fx g p f v s p' h hg hf hp := dim_pop_grid fx g p f v s p' h hg hf hp

end dim

/-! ## the laws, stated on the API (`isVal`, `isValBuggy`, `isValFixed`, `popFilter`) -/

section api
variable {V S Pt G P : Type} [HasDflt V] [DecidableEq V] [Paving V S Pt G P] [LawfulPaving V S Pt G P]

/-- pavings reachable through the trait's operations -/
inductive Reachable : P → Prop
  | empty : Reachable (Paving.empty : P)
  | set (p : P) (s : S) (v : V) : Reachable p → Reachable (Paving.set p s v)
  | pop (fx : Bool) (p p' : P) (f : V → Bool) (v : V) (s : S) : Reachable p → f HasDflt.dflt = false →
      Paving.popFilterG fx p f = some ((v, s), p') → Reachable p'

/-- the representation invariant holds for every reachable paving -/
theorem reachable_wf {p : P} (h : Reachable p) : LawfulPaving.WF p := by
  induction h with
  | empty => exact LawfulPaving.wf_empty
  | set p s v _ ih => exact LawfulPaving.wf_set p s v ih
  | pop fx p p' f v s _ hf hp ih => exact (LawfulPaving.pop_some fx p f v s p' ih hf hp).1

/-- `set` is the pointwise update -/
theorem get_set (p : P) (hp : LawfulPaving.WF p) (s : S) (v : V) (x : Pt) :
    Paving.get (Paving.set p s v) x = if Paving.mem (P := P) x s = true then v else Paving.get p x :=
  LawfulPaving.get_set p s v x hp

/-- the repaired `is_val` decides "every selected point has the value" -/
theorem isValFixed_iff (p : P) (hp : LawfulPaving.WF p) (s : S) (v : V)
    (hne : v = HasDflt.dflt ∨ ∃ x, Paving.mem (P := P) x s = true) :
    isValFixed p s v = true ↔ ∀ x, Paving.mem (P := P) x s = true → Paving.get p x = v :=
  ⟨LawfulPaving.isVal_sound p s v hp, LawfulPaving.isVal_complete true p s v hp hne⟩

/-- soundness of the repaired `is_val` needs no side condition -/
theorem isValFixed_sound (p : P) (hp : LawfulPaving.WF p) (s : S) (v : V) (h : isValFixed p s v = true) :
    ∀ x, Paving.mem (P := P) x s = true → Paving.get p x = v := LawfulPaving.isVal_sound p s v hp h

/-- the direction that holds for the code as written: it never answers `false` wrongly -/
theorem isValBuggy_complete (p : P) (hp : LawfulPaving.WF p) (s : S) (v : V)
    (hne : v = HasDflt.dflt ∨ ∃ x, Paving.mem (P := P) x s = true)
    (h : ∀ x, Paving.mem (P := P) x s = true → Paving.get p x = v) : isValBuggy p s v = true :=
  LawfulPaving.isVal_complete false p s v hp hne h

/-- for a value other than the default the early return is harmless: the code as written and the
repaired code coincide, so D13 can only bite through `is_val(.., &default)` — in `normalize` that is
`days_covered.is_val(&day_selector, &false)` -/
theorem isValBuggy_eq_fixed_of_ne (p : P) (s : S) (v : V) (hv : v ≠ HasDflt.dflt) :
    isValBuggy p s v = isValFixed p s v := LawfulPaving.isVal_nondflt p s v hv

theorem isValBuggy_iff_of_ne (p : P) (hp : LawfulPaving.WF p) (s : S) (v : V) (hv : v ≠ HasDflt.dflt)
    (hne : ∃ x, Paving.mem (P := P) x s = true) :
    isValBuggy p s v = true ↔ ∀ x, Paving.mem (P := P) x s = true → Paving.get p x = v := by
  rw [isValBuggy_eq_fixed_of_ne p s v hv]; exact isValFixed_iff p hp s v (Or.inr hne)

/-- `pop_filter`: the returned region is not empty, all its points had the returned value (which
passes the filter), exactly these points are reset to the default and no other point changes -/
theorem popFilterG_spec (fx : Bool) (p p' : P) (hp : LawfulPaving.WF p) (f : V → Bool) (hf : f HasDflt.dflt = false)
    (v : V) (s : S) (h : Paving.popFilterG fx p f = some ((v, s), p')) :
    LawfulPaving.WF p' ∧ f v = true ∧ (∃ x, Paving.mem (P := P) x s = true) ∧
    (∀ x, Paving.mem (P := P) x s = true → Paving.get p x = v) ∧
    (∀ x, Paving.get p' x = if Paving.mem (P := P) x s = true then HasDflt.dflt else Paving.get p x) :=
  LawfulPaving.pop_some fx p f v s p' hp hf h

/-- `pop_filter` answers `None` only when no point passes the filter -/
theorem popFilterG_none (fx : Bool) (p : P) (hp : LawfulPaving.WF p) (f : V → Bool) (hf : f HasDflt.dflt = false)
    (h : Paving.popFilterG fx p f = none) (x : Pt) : f (Paving.get p x) = false :=
  LawfulPaving.pop_none fx p f hp hf h x

/-- the measure behind the termination of `canonical_to_seq`: among any list of points that contains
every grid point that is not the default, a successful `pop_filter` strictly shrinks the sub-list of
the points that are still not the default -/
theorem pop_live_lt (fx : Bool) (g : G) (p p' : P) (hp : LawfulPaving.WF p) (hg : LawfulPaving.CutsIn g p)
    (f : V → Bool) (hf : f HasDflt.dflt = false) (v : V) (s : S)
    (h : Paving.popFilterG fx p f = some ((v, s), p'))
    (live : List Pt)
    (hlive : ∀ x ∈ Paving.gridPts (P := P) g, Paving.get p x ≠ (HasDflt.dflt : V) → x ∈ live) :
    (live.filter (fun x => decide (Paving.get p' x ≠ (HasDflt.dflt : V)))).length < live.length ∧
    (∀ x ∈ Paving.gridPts (P := P) g, Paving.get p' x ≠ (HasDflt.dflt : V) →
      x ∈ live.filter (fun x => decide (Paving.get p' x ≠ (HasDflt.dflt : V)))) := by
  obtain ⟨_, hfv, _, hval, hget⟩ := LawfulPaving.pop_some fx p f v s p' hp hf h
  obtain ⟨_, _, x0, hx0, hm0⟩ := LawfulPaving.pop_grid fx g p f v s p' hp hg hf h
  have hvd : v ≠ HasDflt.dflt := by intro h'; rw [h', hf] at hfv; cases hfv
  constructor
  · apply List.length_filter_lt_length_iff_exists.mpr
    refine ⟨x0, hlive x0 hx0 (by rw [hval x0 hm0]; exact hvd), ?_⟩
    simp [hget x0, hm0]
  · intro x hx hne
    rw [List.mem_filter]
    refine ⟨hlive x hx ?_, by simpa using hne⟩
    rw [hget x] at hne
    split at hne
    · exact absurd rfl hne
    · exact hne

end api

/-! ### D13: the law `is_val ⟺ ∀ x ∈ sel, get x = val` is false for the code as written -/

/-- `days_covered`-like 1-D paving where `[2, 3)` is `true` -/
def d13Paving : Paving1D Nat Bool := Paving.set (Paving.empty : Paving1D Nat Bool) ⟨[(2, 3)], ()⟩ true

/-- the selector `[0, 5)` sticks out of the cuts `{2, 3}` of `d13Paving` -/
def d13Sel : Sel1D Nat := ⟨[(0, 5)], ()⟩

/-- Refutation: the code as written answers "every point of `[0, 5)` is `false`" although the
point 2 is `true`; the repaired code answers correctly. -/
theorem d13_refutes_isVal :
    isValBuggy d13Paving d13Sel false = true ∧
    Paving.mem (P := Paving1D Nat Bool) ((2, ()) : Nat × Unit) d13Sel = true ∧
    Paving.get d13Paving ((2, ()) : Nat × Unit) = true ∧
    isValFixed d13Paving d13Sel false = false := by decide

/-- hence no `iff` law can hold for `isValBuggy` -/
theorem isValBuggy_not_sound :
    ¬ (∀ (p : Paving1D Nat Bool) (s : Sel1D Nat) (v : Bool), LawfulPaving.WF p →
        (isValBuggy p s v = true ↔ ∀ x, Paving.mem (P := Paving1D Nat Bool) x s = true → Paving.get p x = v)) := by
  intro h
  have hw : LawfulPaving.WF d13Paving := reachable_wf (Reachable.set _ _ _ Reachable.empty)
  have := (h d13Paving d13Sel false hw).mp d13_refutes_isVal.1 (2, ()) d13_refutes_isVal.2.1
  rw [d13_refutes_isVal.2.2.1] at this
  cases this

/-! ### why the number of non-default cells is not the termination measure -/

def nonDefaultCells (d : Paving2D Nat Nat Bool) : Nat :=
  (d.cols.map (fun c => (c.cols.filter (fun cell => cell.inner ≠ false)).length)).sum

/-- `10:00-12:00` every month, `08:00-10:00` in April (hours × months) -/
def splitPaving : Paving2D Nat Nat Bool :=
  Paving.set (Paving.set (Paving.empty : Paving2D Nat Nat Bool) ⟨[(10, 12)], ⟨[(1, 13)], ()⟩⟩ true)
    ⟨[(8, 10)], ⟨[(4, 5)], ()⟩⟩ true

/-- popping `08:00-12:00 × April` resets one cell of the first column and splits the single cell of the
second column in three, two of which stay non-default: 2 non-default cells before, 2 after.  The
grid-point measure of `pop_live_lt` does decrease. -/
theorem nonDefaultCells_not_decreasing :
    nonDefaultCells splitPaving = 2 ∧
    (Paving.popFilterG false splitPaving (fun v => v)).map (fun r => (r.1, nonDefaultCells r.2))
      = some ((true, ⟨[(8, 12)], ⟨[(4, 5)], ()⟩⟩), 2) := by decide

/-- the 5-D and 4-D instances of `normalize` come by instance resolution -/
example : LawfulPaving Val CanonicalSelector Point5 _ Canonical := inferInstance
example : LawfulPaving Bool DaySel4 Point4 _ DaysCovered := inferInstance

end OH.Proofs.Paving
