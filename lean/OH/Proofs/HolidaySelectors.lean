import OH.Model.HolidayDb
import OH.Proofs.CompactCalendar
import OH.Proofs.Calendar
import OH.Props.C15
/-
The evaluator's reading of an attached holiday calendar (C10, last clause): the day list
`calDays c` the evaluator model works on contains day `d` iff the calendar contains the civil date
of `d`; hence what the `PH` / `SH` selectors see.
-/
namespace OH.Proofs.HolidaySelectors
open OH.Model OH.Model.Cal OH.Model.HolidayDb OH.Model.CompactCalendar
open OH.Model.CompactCalendar.CompactCalendar OH.Proofs.CompactCalendar

/-- the civil date of a day number -/
def dateOfDay (d : Int) : Date := ⟨year d, month d, dayOfMonth d⟩

theorem mem_calDays (c : CompactCalendar) (hc : Inv c) (d : Int) (hd : inRange d = true) :
    d ∈ calDays c ↔ abs c (dateOfDay d) = true := by
  obtain ⟨l, hl, _, hm⟩ := OH.Props.C15.iter_sorted_exact_abs c hc
  unfold calDays
  rw [hl]
  simp only [List.mem_filterMap]
  constructor
  · rintro ⟨q, hq, ho⟩
    obtain ⟨e1, e2, e3⟩ := civil_of_ofYmd? ho
    have : dateOfDay d = q := by
      unfold dateOfDay; rw [e1, e2, e3]
    rw [this]
    exact (hm q).mp hq
  · intro h
    refine ⟨dateOfDay d, (hm _).mpr h, ?_⟩
    obtain ⟨y1, y2⟩ := (inRange_iff_year d).mp ((inRange_iff d).mp hd)
    exact ofYmd?_civil d y1 y2

theorem calContains_calDays (c : CompactCalendar) (hc : Inv c) (d : Int) (hd : inRange d = true) :
    calContains (calDays c) d = abs c (dateOfDay d) := by
  have h := mem_calDays c hc d hd
  unfold calContains
  cases ha : abs c (dateOfDay d) with
  | true => rw [ha] at h; simpa using h.mpr rfl
  | false =>
    rw [ha] at h
    have : d ∉ calDays c := fun hm => by simpa using h.mp hm
    simpa using this

/-- the dates of a day number are valid dates (for `contains`) -/
theorem dateOfDay_valid (d : Int) (hd : inRange d = true) : (dateOfDay d).valid = true := by
  obtain ⟨y1, y2⟩ := (inRange_iff_year d).mp ((inRange_iff d).mp hd)
  have hm := month_bounds d
  have hdm := dayOfMonth_bounds d
  have h := (ofYmd?_isSome_iff (y := year d) (m := month d) (dd := dayOfMonth d)).mp
    (by rw [ofYmd?_civil d y1 y2]; rfl)
  obtain ⟨_, _, _, _, _, h6⟩ := h
  unfold dateOfDay Date.valid validYmd
  simp only [decide_eq_true_eq]
  unfold minYear at y1
  unfold maxYear at y2
  refine ⟨y1, y2, hm.1, hm.2, hdm.1, ?_⟩
  -- the two `daysInMonth` tables (model of chrono here, model of compact-calendar there) agree
  have : OH.Model.CompactCalendar.daysInMonth (year d) (month d) = OH.Model.Cal.daysInMonth (year d) (month d) := by
    unfold OH.Model.CompactCalendar.daysInMonth OH.Model.Cal.daysInMonth
    have e : OH.Model.CompactCalendar.isLeap (year d) = OH.Model.Cal.isLeap (year d) := by
      rw [Bool.eq_iff_iff, OH.Model.Cal.isLeap_iff]
      simp [OH.Model.CompactCalendar.isLeap]
    rw [e]
    have := month_bounds d
    generalize month d = m at *
    have : m = 1 ∨ m = 2 ∨ m = 3 ∨ m = 4 ∨ m = 5 ∨ m = 6 ∨ m = 7 ∨ m = 8 ∨ m = 9 ∨ m = 10 ∨ m = 11 ∨ m = 12 := by omega
    rcases this with h | h | h | h | h | h | h | h | h | h | h | h <;> subst h <;> simp
  rw [this]; exact h6

/-- what a `PH` / `SH` selector (no offset) answers on day `d` in the context carrying the
calendars `h`: membership of the civil date of `d` in the calendar of that kind -/
theorem holiday_filter (h : CompactCalendar × CompactCalendar) (h1 : Inv h.1) (h2 : Inv h.2)
    (k : HolidayKind) (d : Int) (hd : inRange d = true) :
    WeekDayRange.filter (ctxOfHolidays h) (.holiday k 0) d =
      .ok (abs (match k with | .pub => h.1 | .school => h.2) (dateOfDay d)) := by
  have e : addDaysSat d (satNeg 0) = d := by
    unfold satNeg addDaysSat addDays?
    simp [hd]
  simp only [WeekDayRange.filter, pure, Except.pure, e]
  cases k with
  | pub => simp only [ctxOfHolidays]; rw [calContains_calDays h.1 h1 d hd]
  | school => simp only [ctxOfHolidays]; rw [calContains_calDays h.2 h2 d hd]

end OH.Proofs.HolidaySelectors
