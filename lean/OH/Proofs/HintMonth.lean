import OH.Proofs.HintYear
/-
Layer B — month ranges (`Jan-Mar`, `Nov-Feb`, `2024 Mar-May`, `2024 Nov-Feb`): the filter never
panics and `MonthdayRange.hint` is a sound hint for the `.month` constructor.
-/
namespace OH.Model
open OH.Model.Cal

theorem wc_iff (lo hi x : Nat) :
    wrappingContains lo hi x = true ↔ ((lo ≤ hi ∧ lo ≤ x ∧ x ≤ hi) ∨ (¬ lo ≤ hi ∧ (lo ≤ x ∨ x ≤ hi))) := by
  unfold wrappingContains
  by_cases h : lo ≤ hi
  · simp [h]
  · simp [h]

/-- (year, month) is monotone in the day -/
theorem ym_mono {d d' : Int} (h : d ≤ d') : year d < year d' ∨ (year d = year d' ∧ month d ≤ month d') := by
  by_cases e : d = d'
  · subst e; right; exact ⟨rfl, Nat.le_refl _⟩
  · have := (lt_iff_ymdLt d d').1 (by omega)
    unfold YmdLt at this; omega

theorem ofYmd?_first (y : Int) (m : Nat) (h1 : minYear ≤ y) (h2 : y ≤ maxYear) (m1 : 1 ≤ m) (m2 : m ≤ 12) :
    ofYmd? y m 1 = some (ymdRaw y m 1) :=
  ofYmd?_of_valid h1 h2 (validYmd_first y m1 m2)

theorem month_filter_none (lo hi : Nat) (d : Int) :
    (MonthdayRange.month lo hi none).filter d = .ok (wrappingContains lo hi (month d)) := by
  simp [MonthdayRange.filter]

theorem month_filter_some (lo hi yr : Nat) (d : Int) (h0 : 0 ≤ year d) (h1 : year d ≤ 65535) :
    (MonthdayRange.month lo hi (some yr)).filter d
      = .ok (decide ((yr : Int) = year d) && wrappingContains lo hi (month d)) := by
  simp only [MonthdayRange.filter, Option.getD_some]
  have e : (year d % 65536).toNat = (year d).toNat := by omega
  rw [e]
  congr 2
  rw [Bool.eq_iff_iff]
  simp only [beq_iff_eq, decide_eq_true_eq]
  omega

/-- the arithmetic heart of the month hint without year -/
theorem month_arith (lo hi m m' M : Nat) (Y y' Y' : Int)
    (l1 : 1 ≤ lo) (l2 : lo ≤ 12) (u1 : 1 ≤ hi) (u2 : hi ≤ 12) (a1 : 1 ≤ m) (a2 : m ≤ 12) (b1 : 1 ≤ m') (b2 : m' ≤ 12)
    (hne : hi % 12 + 1 ≠ lo)
    (hM : (wrappingContains lo hi m = true ∧ M = hi % 12 + 1) ∨ (wrappingContains lo hi m = false ∧ M = lo))
    (hY' : (m < M ∧ Y' = Y) ∨ (¬ m < M ∧ Y' = Y + 1))
    (mono : Y < y' ∨ (Y = y' ∧ m ≤ m')) (lt : y' < Y' ∨ (y' = Y' ∧ m' < M)) :
    wrappingContains lo hi m' = wrappingContains lo hi m := by
  rw [Bool.eq_iff_iff, wc_iff, wc_iff]
  rw [← Bool.not_eq_true, wc_iff] at hM
  by_cases hw : lo ≤ hi
  · by_cases h12 : hi = 12
    · subst h12; omega
    · have : hi % 12 = hi := Nat.mod_eq_of_lt (by omega)
      omega
  · have : hi % 12 = hi := Nat.mod_eq_of_lt (by omega)
    omega

theorem month_hintOK_none (lo hi : Nat) (hw : (MonthdayRange.month lo hi none).wf = true) (d : Int)
    (hd1 : dateStart ≤ d) (hd2 : d < dateEnd) :
    HintOK (MonthdayRange.month lo hi none).filter (MonthdayRange.month lo hi none).hint d := by
  simp only [MonthdayRange.wf, optYearOk, Bool.and_eq_true, decide_eq_true_eq] at hw
  obtain ⟨⟨⟨⟨l1, l2⟩, u1⟩, u2⟩, _⟩ := hw
  obtain ⟨y1, y2⟩ := year_window hd1 hd2
  have hmin : minYear = -262143 := rfl
  have hmax : maxYear = 262142 := rfl
  have hm := month_bounds d
  by_cases hfull : monthNext hi = lo
  · -- the range covers the whole year
    refine HintOK.of_some (x := dateEnd) ?_ hd2 ?_
    · simp [MonthdayRange.hint, hfull]
    · intro d' _ _ _
      rw [month_filter_none, month_filter_none]
      have hm' := month_bounds d'
      have a : ∀ x, 1 ≤ x → x ≤ 12 → wrappingContains lo hi x = true := by
        intro x x1 x2
        rw [wc_iff]
        unfold monthNext at hfull
        by_cases h12 : hi = 12
        · subst h12; omega
        · have : hi % 12 = hi := Nat.mod_eq_of_lt (by omega)
          omega
      rw [a _ hm.1 hm.2, a _ hm'.1 hm'.2]
  · -- target month
    have hMex : ∃ M, 1 ≤ M ∧ M ≤ 12 ∧
        ((wrappingContains lo hi (month d) = true ∧ M = hi % 12 + 1) ∨ (wrappingContains lo hi (month d) = false ∧ M = lo)) ∧
        (if wrappingContains lo hi (month d) then ofYmd? (year d) (monthNext hi) 1 else ofYmd? (year d) lo 1)
          = some (ymdRaw (year d) M 1) := by
      cases hc : wrappingContains lo hi (month d)
      · exact ⟨lo, l1, l2, Or.inr ⟨rfl, rfl⟩, by simp [ofYmd?_first (year d) lo (by omega) (by omega) l1 l2]⟩
      · have : hi % 12 < 12 := Nat.mod_lt _ (by omega)
        refine ⟨hi % 12 + 1, by omega, by omega, Or.inl ⟨rfl, rfl⟩, ?_⟩
        simp [monthNext, ofYmd?_first (year d) (hi % 12 + 1) (by omega) (by omega) (by omega) (by omega)]
    obtain ⟨M, M1, M2, hM, hnaive⟩ := hMex
    have vM := validYmd_first (year d) M1 M2
    have hlt := lt_ymdRaw_first_iff (year d) M1 M2 d
    -- the hint value
    have hYex : ∃ Y', ((month d < M ∧ Y' = year d) ∨ (¬ month d < M ∧ Y' = year d + 1)) ∧
        (MonthdayRange.month lo hi none).hint d = .ok (some (ymdRaw Y' M 1)) := by
      by_cases hc : month d < M
      · refine ⟨year d, Or.inl ⟨hc, rfl⟩, ?_⟩
        have : ymdRaw (year d) M 1 > d := by rw [gt_iff_lt, hlt]; right; exact ⟨rfl, hc⟩
        simp only [MonthdayRange.hint]
        rw [if_neg (by simpa using hfull), hnaive]
        simp only []
        rw [if_pos this]
      · refine ⟨year d + 1, Or.inr ⟨hc, rfl⟩, ?_⟩
        have : ¬ ymdRaw (year d) M 1 > d := by rw [gt_iff_lt, hlt]; omega
        simp only [MonthdayRange.hint]
        rw [if_neg (by simpa using hfull), hnaive]
        simp only []
        rw [if_neg this]
        have e : withYear? (ymdRaw (year d) M 1) (year (ymdRaw (year d) M 1) + 1) = some (ymdRaw (year d + 1) M 1) := by
          unfold withYear?
          rw [year_ymdRaw vM, month_ymdRaw vM, dayOfMonth_ymdRaw vM]
          exact ofYmd?_first _ _ (by omega) (by omega) M1 M2
        rw [e]
    obtain ⟨Y', hY', hhint⟩ := hYex
    have hlt' := fun d' => lt_ymdRaw_first_iff Y' M1 M2 d'
    refine HintOK.of_some hhint ?_ ?_
    · rw [hlt']; omega
    · intro d' h1 h2 _
      rw [month_filter_none, month_filter_none]
      have hm' := month_bounds d'
      rw [hlt'] at h2
      exact congrArg _ <| month_arith lo hi (month d) (month d') M (year d) (year d') Y' l1 l2 u1 u2 hm.1 hm.2 hm'.1 hm'.2
        (by simpa [monthNext] using hfull) hM hY' (ym_mono h1) h2

/-! ### month range with a year -/

/-- the day after the last day of month `m` of year `y` -/
def monthEndNext (y : Int) (m : Nat) : Int := if m < 12 then ymdRaw y (m + 1) 1 else ymdRaw (y + 1) 1 1

theorem lt_monthEndNext_iff (y : Int) {m : Nat} (h1 : 1 ≤ m) (h2 : m ≤ 12) (d : Int) :
    d < monthEndNext y m ↔ year d < y ∨ (year d = y ∧ month d ≤ m) := by
  unfold monthEndNext
  have := month_bounds d
  split
  · rw [lt_ymdRaw_first_iff y (by omega) (by omega)]; omega
  · rw [lt_ymdRaw_jan1_iff]; omega

theorem first_lt_monthEndNext (y : Int) {m m' : Nat} (h1 : 1 ≤ m) (h2 : m ≤ m') (h3 : m' ≤ 12) :
    ymdRaw y m 1 + 27 < monthEndNext y m' := by
  have v : ValidYmd y m 28 := ⟨h1, by omega, by omega, (daysInMonth_bounds y m).1⟩
  have e : ymdRaw y m 1 + 27 = ymdRaw y m 28 := by unfold ymdRaw; omega
  rw [e, lt_monthEndNext_iff y (by omega) h3, year_ymdRaw v, month_ymdRaw v]
  omega

/-- `last_day(month)` of the hint with a year -/
theorem month_lastDay (y : Int) (m : Nat) (h1 : minYear ≤ y) (h2 : y < maxYear) (m1 : 1 ≤ m) (m2 : m ≤ 12) :
    (if m < 12 then (ofYmd? y (m + 1) 1).bind pred? else ofYmd? y 12 31) = some (monthEndNext y m - 1) := by
  have hmin := minDay_eq
  unfold monthEndNext
  split
  · rw [ofYmd?_first y (m + 1) h1 (by omega) (by omega) (by omega)]
    have := ofYmd?_inRange (ofYmd?_first y (m + 1) h1 (by omega) (by omega) (by omega))
    have v := validYmd_first y (m := m + 1) (by omega) (by omega)
    have hy := year_ymdRaw v
    have hlo : minDay < ymdRaw y (m + 1) 1 := by
      have v1 := validYmd_first y (m := 1) (by omega) (by omega)
      have := ymdRaw_lt_of_ymdLt v1 v (by unfold YmdLt; omega)
      have : minDay ≤ ymdRaw y 1 1 := (ofYmd?_inRange (ofYmd?_first y 1 h1 (by omega) (by omega) (by omega))).1
      omega
    simp [pred?, hlo]
  · have v : ValidYmd y 12 31 := ⟨by omega, by omega, by omega, by simp⟩
    rw [ofYmd?_of_valid h1 (by omega) v, ← ymdRaw_dec31_succ]
    simp

theorem nextChange_one (a b d : Int) (hab : a < b) :
    nextChangeFromIntervals d (intervalsFromBounds [a] [b])
      = if b < d then dateEnd else if a ≤ d then (succ? b).getD dateEnd else a := by
  have h1 : ¬ (b < a) := by omega
  have h2 : (a == b) = false := by simp; omega
  have e : intervalsFromBounds [a] [b] = [(a, b)] := by
    simp only [intervalsFromBounds, ensureIncreasing, ensureIncAux]
    rw [intervalsGo_cons_cons a [] [b] b [] (dropWhile_lt_keep _ _ _ (by omega))]
    simp [h2, intervalsGo_nil]
  rw [e]
  unfold nextChangeFromIntervals
  by_cases hb : b < d
  · have : ¬ (b ≥ d) := by omega
    simp [List.find?, this, hb]
  · have : b ≥ d := by omega
    simp [List.find?, this, hb]

theorem nextChange_two (a1 b1 a2 b2 d : Int) (h1 : a1 < b1) (h2 : b1 < a2) (h3 : a2 < b2) :
    nextChangeFromIntervals d (intervalsFromBounds [a1, a2] [b1, b2])
      = if d ≤ b1 then (if a1 ≤ d then (succ? b1).getD dateEnd else a1)
        else if d ≤ b2 then (if a2 ≤ d then (succ? b2).getD dateEnd else a2) else dateEnd := by
  have e : intervalsFromBounds [a1, a2] [b1, b2] = [(a1, b1), (a2, b2)] := by
    have g1 : ¬ (a2 ≤ a1) := by omega
    have g2 : ¬ (b2 ≤ b1) := by omega
    simp only [intervalsFromBounds, ensureIncreasing, ensureIncAux, if_neg g1, if_neg g2]
    rw [intervalsGo_cons_cons a1 [a2] [b1, b2] b1 [b2] (dropWhile_lt_keep _ _ _ (by omega))]
    rw [if_neg (by simp; omega)]
    rw [intervalsGo_cons_cons a2 [] [b1, b2] b2 []
      (by rw [dropWhile_lt_drop _ _ _ (by omega)]; exact dropWhile_lt_keep _ _ _ (by omega))]
    rw [if_neg (by simp; omega)]
    simp [intervalsGo_nil]
  rw [e]
  unfold nextChangeFromIntervals
  by_cases c1 : d ≤ b1
  · have : b1 ≥ d := by omega
    simp [List.find?, this, c1]
  · have n1 : ¬ (b1 ≥ d) := by omega
    by_cases c2 : d ≤ b2
    · have : b2 ≥ d := by omega
      simp [List.find?, this, n1, c1, c2]
    · have n2 : ¬ (b2 ≥ d) := by omega
      simp [List.find?, n1, n2, c1, c2]

theorem month_hintOK_some (lo hi yr : Nat) (hw : (MonthdayRange.month lo hi (some yr)).wf = true) (d : Int)
    (hd1 : dateStart ≤ d) (hd2 : d < dateEnd) :
    HintOK (MonthdayRange.month lo hi (some yr)).filter (MonthdayRange.month lo hi (some yr)).hint d := by
  simp only [MonthdayRange.wf, optYearOk, yearOk, Bool.and_eq_true, decide_eq_true_eq] at hw
  obtain ⟨⟨⟨⟨l1, l2⟩, u1⟩, u2⟩, r1, r2⟩ := hw
  have hmin : minYear = -262143 := rfl
  have hmax : maxYear = 262142 := rfl
  have hmaxd := maxDay_eq
  have hde := Cal.dateEnd_eq
  -- the filter on the window, in terms of day intervals
  have hf : ∀ d', d ≤ d' → d' < dateEnd → (MonthdayRange.month lo hi (some yr)).filter d'
      = .ok (decide ((yr : Int) = year d') && wrappingContains lo hi (month d')) := by
    intro d' h1 h2
    have := year_window (by omega) h2
    exact month_filter_some lo hi yr d' (by omega) (by omega)
  have hfd := hf d (Int.le_refl _) hd2
  have F := fun m (m1 : 1 ≤ m) (m2 : m ≤ 12) => ofYmd?_first (yr : Int) m (by omega) (by omega) m1 m2
  have L := fun m (m1 : 1 ≤ m) (m2 : m ≤ 12) => month_lastDay (yr : Int) m (by omega) (by omega) m1 m2
  have hA := fun m (m1 : 1 ≤ m) (m2 : m ≤ 12) d' => lt_ymdRaw_first_iff (yr : Int) m1 m2 d'
  have hB := fun m (m1 : 1 ≤ m) (m2 : m ≤ 12) d' => lt_monthEndNext_iff (yr : Int) m1 m2 d'
  -- every bound is below dateEnd + 366, so `succ?` succeeds
  have hsucc : ∀ m, 1 ≤ m → m ≤ 12 → (succ? (monthEndNext (yr : Int) m - 1)).getD dateEnd = monthEndNext (yr : Int) m := by
    intro m m1 m2
    have : monthEndNext (yr : Int) m - 1 < maxDay := by
      have h := not_congr (hB m m1 m2 (dateEnd + 400))
      have : ¬ (year (dateEnd + 400) < (yr : Int) ∨ (year (dateEnd + 400) = (yr : Int) ∧ month (dateEnd + 400) ≤ m)) := by
        have : year dateEnd ≤ year (dateEnd + 400) := year_mono (by omega)
        rw [year_dateEnd] at this
        omega
      have := h.2 this
      omega
    simp [succ?, this]
  by_cases hwrap : lo ≤ hi
  · -- one interval [a, b]
    have hlt := first_lt_monthEndNext (yr : Int) l1 hwrap u2
    have hhint : (MonthdayRange.month lo hi (some yr)).hint d
        = .ok (some (if monthEndNext (yr : Int) hi - 1 < d then dateEnd else if ymdRaw (yr : Int) lo 1 ≤ d
            then monthEndNext (yr : Int) hi else ymdRaw (yr : Int) lo 1)) := by
      simp only [MonthdayRange.hint, if_pos hwrap, F lo l1 l2, L hi u1 u2]
      rw [nextChange_one _ _ _ (by omega), hsucc hi u1 u2]
    have hsem : ∀ d', (decide ((yr : Int) = year d') && wrappingContains lo hi (month d')) = true
        ↔ (ymdRaw (yr : Int) lo 1 ≤ d' ∧ d' < monthEndNext (yr : Int) hi) := by
      intro d'
      have := hA lo l1 l2 d'
      have := hB hi u1 u2 d'
      have := month_bounds d'
      rw [Bool.and_eq_true, decide_eq_true_eq, wc_iff]
      omega
    refine HintOK.of_some hhint ?_ ?_
    · split
      · exact hd2
      · split <;> omega
    · intro d' h1 h2 h3
      rw [hf d' h1 h3, hfd]
      congr 1
      rw [Bool.eq_iff_iff, hsem, hsem]
      split at h2
      · omega
      · split at h2 <;> omega
  · -- two intervals [Jan 1, b1] and [a2, Dec 31]
    have hlt1 := first_lt_monthEndNext (yr : Int) (m := 1) (m' := hi) (by omega) u1 u2
    have hlt2 := first_lt_monthEndNext (yr : Int) (m := lo) (m' := 12) l1 l2 (by omega)
    have hmid : monthEndNext (yr : Int) hi ≤ ymdRaw (yr : Int) lo 1 := by
      unfold monthEndNext
      rw [if_pos (by omega)]
      by_cases e : hi + 1 = lo
      · rw [e]; exact Int.le_refl _
      · have := ymdRaw_lt_of_ymdLt (validYmd_first (yr : Int) (m := hi + 1) (by omega) (by omega))
          (validYmd_first (yr : Int) l1 l2) (by unfold YmdLt; omega)
        omega
    have hhint : (MonthdayRange.month lo hi (some yr)).hint d
        = .ok (some (if d ≤ monthEndNext (yr : Int) hi - 1 then
              (if ymdRaw (yr : Int) 1 1 ≤ d then monthEndNext (yr : Int) hi else ymdRaw (yr : Int) 1 1)
            else if d ≤ monthEndNext (yr : Int) 12 - 1 then
              (if ymdRaw (yr : Int) lo 1 ≤ d then monthEndNext (yr : Int) 12 else ymdRaw (yr : Int) lo 1)
            else dateEnd)) := by
      simp only [MonthdayRange.hint, if_neg hwrap, F lo l1 l2, F 1 (by omega) (by omega), L hi u1 u2, L 12 (by omega) (by omega)]
      rw [nextChange_two _ _ _ _ _ (by omega) (by omega) (by omega), hsucc hi u1 u2, hsucc 12 (by omega) (by omega)]
    have hsem : ∀ d', (decide ((yr : Int) = year d') && wrappingContains lo hi (month d')) = true
        ↔ ((ymdRaw (yr : Int) 1 1 ≤ d' ∧ d' < monthEndNext (yr : Int) hi)
            ∨ (ymdRaw (yr : Int) lo 1 ≤ d' ∧ d' < monthEndNext (yr : Int) 12)) := by
      intro d'
      have := hA lo l1 l2 d'
      have := hA 1 (by omega) (by omega) d'
      have := hB hi u1 u2 d'
      have := hB 12 (by omega) (by omega) d'
      have := month_bounds d'
      rw [Bool.and_eq_true, decide_eq_true_eq, wc_iff]
      omega
    refine HintOK.of_some hhint ?_ ?_
    · split
      · split <;> omega
      · split
        · split <;> omega
        · exact hd2
    · intro d' h1 h2 h3
      rw [hf d' h1 h3, hfd]
      congr 1
      rw [Bool.eq_iff_iff, hsem, hsem]
      split at h2
      · split at h2 <;> omega
      · split at h2
        · split at h2 <;> omega
        · omega

theorem month_hintOK (lo hi : Nat) (yr : Option Nat) (hw : (MonthdayRange.month lo hi yr).wf = true) (d : Int)
    (hd1 : dateStart ≤ d) (hd2 : d < dateEnd) :
    HintOK (MonthdayRange.month lo hi yr).filter (MonthdayRange.month lo hi yr).hint d := by
  cases yr with
  | none => exact month_hintOK_none lo hi hw d hd1 hd2
  | some y => exact month_hintOK_some lo hi y hw d hd1 hd2

theorem month_filter_total (lo hi : Nat) (yr : Option Nat) (d : Int) :
    ∃ b, (MonthdayRange.month lo hi yr).filter d = .ok b := ⟨_, rfl⟩

end OH.Model
