import OH.Proofs.SynMonthday
import OH.Model.ParserWF
/-
Wide-range selectors, part 4: FAILURE lemmas for the assembly of
  wide_range_selectors = { comment ~ ":" | monthday_selector ~ week_selector? ~ sep?
                         | year_selector? ~ monthday_selector? ~ week_selector? ~ sep? }
The second alternative is tried first: `monthday_selector` must fail on every printed year selector
(in both printed forms) in its contexts.  Also: `always_open` (`24/7`) fails on a printed year.

INDEX of what the assembly uses (public names in `OH.Proofs.Syn`, helpers in `OH.Proofs.Syn.Wide`):
 round trips   parses_year_selector (extra hypothesis `YearStepFollow ys rest`), parses_year_selector_long,
               parses_week_selector, parses_week_selector_start, parses_monthday_selector
 predicates    okYear, okWeek, okMonthday (okDate, okDateOffset, okYearOpt), FollowYear, YearStepFollow,
               FollowWeek, FollowMonthday (= Wide.FeMd ∧ comma clause), YearNotDate, NoDateStart
 follow        FollowYear_nil/_space/_of_head/_of_FollowWide/_monthday, YearStepFollow_of_NoDigit,
               NoDigit_nil/_space/_of_FollowWide/_monthday, FollowWeek_of_FollowWide, FollowMonthday_week,
               FollowMonthday_of_FollowWide (+ day-number clause), FollowMonthday_of_FollowWide_time,
               daynum_fails_at_time
 failures      run_monthday_selector_none_years, run_monthday_selector_none_year_long,
               run_monthday_selector_none_year; contexts YearNotDate_nil/_space/_of_head/_week/_monthday/
               _of_FollowWide (+ second-letter clause: NoDateStart_wday, NoDateStart_holiday)
 heads         Wide.monthday_selector_head, Wide.week_selector_head, year_selector_text,
               run_always_open_none_years/_monthday/_head/_year
 ParserWF      okYear_of_wf, okWeek_of_wf, okMonthday_of_wf (needs noMinOffset)
-/
namespace OH.Proofs.Syn
open OH.Model OH.Model.Peg OH.Model.Parser OH.Generated.Grammar OH.Proofs.Syn.Wide

/-- neither a month name nor `easter` starts here -/
def NoDateStart (X : List Char) : Prop :=
  run g_month false X = none ∧ run g_variable_date false X = none

/-- what follows a printed PLAIN year (`2020`, not `2020-2021`, not `2020,…`) so that it is not read
as the year of a month-day range: no month name / `easter`, directly or after one space -/
def YearNotDate (rest : List Char) : Prop :=
  NoDateStart rest ∧ ∀ r, rest = ' ' :: r → NoDateStart r

theorem NoDateStart_nil : NoDateStart [] :=
  ⟨run_month_none_nil false, by simp [g_variable_date, peg]⟩

theorem NoDateStart_of_head (c : Char) (r : List Char) (h1 : ¬ MonthLetter c) (h2 : c ≠ 'e') :
    NoDateStart (c :: r) :=
  ⟨run_month_none_head false c r h1, by simp [g_variable_date, peg, Ne.symm h2]⟩

/-- a printed weekday (`Mo`…`Su`) is not a month name (`Mo`/`Mar`, `Fr`/`Feb`, `Sa`/`Sep`) -/
theorem NoDateStart_wday (w : Nat) (X : List Char) : NoDateStart (Print.wdayStr w ++ X) := by
  unfold Print.wdayStr
  constructor
  · split <;>
      simp [g_month, g_january, g_february, g_march, g_april, g_may, g_june, g_july, g_august,
        g_september, g_october, g_november, g_december, peg, Print.str]
  · split <;> simp [g_variable_date, peg, Print.str]

/-- `PH`, `SH` -/
theorem NoDateStart_holiday (c : Char) (X : List Char) : NoDateStart (c :: 'H' :: X) := by
  constructor
  · simp [g_month, g_january, g_february, g_march, g_april, g_may, g_june, g_july, g_august,
      g_september, g_october, g_november, g_december, peg]
  · simp [g_variable_date, peg]

theorem YearNotDate_nil : YearNotDate [] := ⟨NoDateStart_nil, fun _ h => by cases h⟩

/-- a context that starts with a space -/
theorem YearNotDate_space (r : List Char) (h : NoDateStart r) : YearNotDate (' ' :: r) :=
  ⟨NoDateStart_of_head ' ' r (by simp [MonthLetter]) (by decide), fun _ e => by cases e; exact h⟩

/-- a context that starts with neither a space, a month letter nor `e` (a digit: a month-day selector
that starts with a year; `,`; `-`) -/
theorem YearNotDate_of_head (c : Char) (r : List Char) (h0 : c ≠ ' ') (h1 : ¬ MonthLetter c)
    (h2 : c ≠ 'e') : YearNotDate (c :: r) :=
  ⟨NoDateStart_of_head c r h1 h2, fun _ e => by cases e; exact absurd rfl h0⟩

/-- ` week…` -/
theorem YearNotDate_week (r : List Char) : YearNotDate (' ' :: 'w' :: r) :=
  YearNotDate_space _ (NoDateStart_of_head 'w' r (by simp [MonthLetter]) (by decide))

/-- `FollowWide` is NOT enough after a plain year: it only knows the first letter of the weekday
selector, and `2020 Mo` differs from `2020 Mar` at the second.  Extra hypothesis: when a space and one
of `M`, `F`, `S` follow, no month name is there (`NoDateStart_wday`, `NoDateStart_holiday`). -/
theorem YearNotDate_of_FollowWide (rest : List Char) (h : FollowWide rest)
    (hw : ∀ c r, rest = ' ' :: c :: r → (c = 'M' ∨ c = 'F' ∨ c = 'S') → NoDateStart (c :: r)) :
    YearNotDate rest := by
  have key : ∀ c r, rest = ' ' :: c :: r → (¬ (c = 'M' ∨ c = 'F' ∨ c = 'S') → ¬ MonthLetter c ∧ c ≠ 'e') →
      YearNotDate rest := by
    intro c r e hc
    subst e
    apply YearNotDate_space
    by_cases hm : c = 'M' ∨ c = 'F' ∨ c = 'S'
    · exact hw c r rfl hm
    · exact NoDateStart_of_head c r (hc hm).1 (hc hm).2
  rcases h with (rfl | ⟨r, rfl⟩ | ⟨c, r, rfl, hc⟩) | ⟨c, r, rfl, hc⟩
  · exact YearNotDate_nil
  · exact YearNotDate_of_head ',' _ (by decide) (by simp [MonthLetter]) (by decide)
  · apply key c r rfl
    intro _
    rcases hc with h | h | h | h | h | h <;> subst h <;> simp [MonthLetter]
  · apply key c r rfl
    intro hn
    rcases hc with (h | h | h | h) | (h | h | h | h | h | h)
    · refine ⟨?_, ?_⟩
      · intro hm
        rcases hm with e | e | e | e | e | e | e | e <;> (subst e; exact absurd h (by decide))
      · intro e; subst e; exact absurd h (by decide)
    · subst h; simp [MonthLetter]
    · subst h; simp [MonthLetter]
    · subst h; simp [MonthLetter]
    · exact absurd (Or.inl h) hn
    · subst h; simp [MonthLetter]
    · subst h; simp [MonthLetter]
    · exact absurd (Or.inr (Or.inl h)) hn
    · exact absurd (Or.inr (Or.inr h)) hn
    · subst h; simp [MonthLetter]

/-! ### `monthday_selector` fails on a printed year -/

/-- the core: a year 1900..9999 followed by something that is not a date -/
theorem run_monthday_selector_none_year (lo : Nat) (hlo : 1900 ≤ lo ∧ lo ≤ 9999) (X : List Char)
    (hX : YearNotDate X) : run g_monthday_selector false (Print.natStr lo ++ X) = none := by
  obtain ⟨⟨hm, hv⟩, hsp⟩ := hX
  have hyr := run_year false lo hlo
  -- `(year ~ " "?)?` succeeds; what is left is `X` or `X` without its leading space
  have hpre : ∃ r1 : R PRule,
      run (.opt (.seq g_year (.opt (.str [' ']))) : G) false (Print.natStr lo ++ X) = some r1 ∧
      run g_month false r1.rest = none ∧ run g_variable_date false r1.rest = none := by
    cases X with
    | nil =>
      have hyr0 : run g_year false (Print.natStr lo) = some ⟨[yearTree lo], Print.natStr lo, []⟩ := by
        simpa using hyr []
      exact ⟨⟨[yearTree lo], Print.natStr lo, []⟩, by simp [peg, hyr0], hm, hv⟩
    | cons c r =>
      by_cases hc : c = ' '
      · subst hc
        obtain ⟨a, b⟩ := hsp r rfl
        exact ⟨⟨[yearTree lo], Print.natStr lo ++ [' '], r⟩, by simp [peg, hyr], a, b⟩
      · exact ⟨⟨[yearTree lo], Print.natStr lo, c :: r⟩, by simp [peg, hyr, Ne.symm hc], hm, hv⟩
  obtain ⟨r1, hp, hm1, hv1⟩ := hpre
  have hdf : run g_date_from false (Print.natStr lo ++ X) = none := by
    have ha1 : run (.seq (.opt (.seq g_year (.opt (.str [' ']))))
        (.seq g_month (.seq (.opt (.str [' '])) g_daynum)) : G) false (Print.natStr lo ++ X) = none :=
      seq_none_right hp (seq_none_left hm1)
    have ha2 : run (.seq (.opt (.seq g_year (.opt (.str [' '])))) g_variable_date : G) false
        (Print.natStr lo ++ X) = none := seq_none_right hp hv1
    simp only [g_date_from, run_rule, run_alt, Bool.or_self, ha1, ha2]
  have h1 : run mdAlt1 false (Print.natStr lo ++ X) = none := seq_none_left hdf
  have h2 : run mdAlt2 false (Print.natStr lo ++ X) = none := seq_none_left hdf
  have h3 : run mdAlt3 false (Print.natStr lo ++ X) = none := seq_none_left hdf
  have hoy : run (.opt g_year) false (Print.natStr lo ++ X) = some ⟨[yearTree lo], Print.natStr lo, X⟩ := by
    simp [peg, hyr]
  have h4 : run mdAlt4 false (Print.natStr lo ++ X) = none := seq_none_right hoy (seq_none_left hm)
  have hr : run g_monthday_range false (Print.natStr lo ++ X) = none := by
    simp only [g_monthday_range_eq, run_rule, run_alt, Bool.or_self, h1, h2, h3, h4]
  simp only [g_monthday_selector, run_rule, run_seq, Bool.or_self, hr]

/-- a printed year selector is a year followed by `-`, `,` or its context -/
theorem year_selector_text (ys : List YearRange) (hne : ys ≠ []) :
    ∃ y tail, ys.head? = some y ∧ Print.selector Print.yearRange ys = Print.natStr y.lo ++ tail ∧
      (tail = [] ∧ ys = [y] ∧ y.lo = y.hi ∧ y.step = 1 ∨ (∃ t, tail = '-' :: t) ∨ (∃ t, tail = ',' :: t)) := by
  cases ys with
  | nil => exact absurd rfl hne
  | cons y l =>
    refine ⟨y, ?_⟩
    by_cases h : y.lo ≠ y.hi ∨ y.step ≠ 1
    · cases l with
      | nil =>
        exact ⟨_, rfl, by simp only [Print.selector, yearRange_long y h, yearLongStr]; rfl,
          Or.inr (Or.inl ⟨_, rfl⟩)⟩
      | cons z l =>
        exact ⟨_, rfl, by
          simp only [selector_cons2, yearRange_long y h, yearLongStr, List.append_assoc, List.cons_append]
          rfl,
          Or.inr (Or.inl ⟨_, rfl⟩)⟩
    · cases l with
      | nil =>
        refine ⟨[], rfl, by simp only [Print.selector, yearRange_short y h, List.append_nil], Or.inl ?_⟩
        exact ⟨rfl, rfl, by omega, by omega⟩
      | cons z l =>
        exact ⟨_, rfl, by simp only [selector_cons2, yearRange_short y h]; rfl, Or.inr (Or.inr ⟨_, rfl⟩)⟩

/-- `monthday_selector` fails on a printed year selector.  The context matters only when the selector
is a single plain year (`2020`): then what follows must not be read as a date (`YearNotDate`); this is
why `Print.daySelector` writes `2020-2020Jan`. -/
theorem run_monthday_selector_none_years (ys : List YearRange) (hne : ys ≠ [])
    (hok : ∀ y ∈ ys, okYear y = true) (rest : List Char)
    (hrest : (∃ y, ys = [y] ∧ y.lo = y.hi ∧ y.step = 1) → YearNotDate rest) :
    run g_monthday_selector false (Print.selector Print.yearRange ys ++ rest) = none := by
  obtain ⟨y, tail, hy, e, ht⟩ := year_selector_text ys hne
  have hmem : y ∈ ys := by
    cases ys with
    | nil => cases hy
    | cons a l => simp only [List.head?_cons, Option.some.injEq] at hy; subst hy; simp
  have hoky := hok y hmem
  simp only [okYear, decide_eq_true_eq] at hoky
  rw [e, List.append_assoc]
  apply run_monthday_selector_none_year y.lo ⟨hoky.1, hoky.2.1⟩
  rcases ht with ⟨rfl, h1, h2, h3⟩ | ⟨t, rfl⟩ | ⟨t, rfl⟩
  · simpa using hrest ⟨y, h1, h2, h3⟩
  · exact YearNotDate_of_head '-' _ (by decide) (by simp [MonthLetter]) (by decide)
  · exact YearNotDate_of_head ',' _ (by decide) (by simp [MonthLetter]) (by decide)

/-- … and on the long form `2020-2020…` of a single plain year, whatever follows -/
theorem run_monthday_selector_none_year_long (lo : Nat) (hlo : 1900 ≤ lo ∧ lo ≤ 9999)
    (rest : List Char) :
    run g_monthday_selector false ((Print.natStr lo ++ '-' :: Print.natStr lo) ++ rest) = none := by
  rw [List.append_assoc]
  exact run_monthday_selector_none_year lo hlo _
    (YearNotDate_of_head '-' _ (by decide) (by simp [MonthLetter]) (by decide))

/-- the text of a month-day range that starts with a year -/
theorem monthdayRange_year_text (m : MonthdayRange) (hokm : okMonthday m = true)
    (hsy : Print.startsWithYear m = true) :
    ∃ y t, (1900 ≤ y ∧ y ≤ 9999) ∧ Print.monthdayRange m = Print.natStr y ++ t := by
  cases m with
  | month lo hi y =>
    cases y with
    | none => simp [Print.startsWithYear] at hsy
    | some y =>
      simp only [okMonthday, okYearOpt, Bool.and_eq_true, decide_eq_true_eq] at hokm
      exact ⟨y, _, hokm.2, by rw [monthdayRange_month]; rfl⟩
  | date s so e eo =>
    simp only [okMonthday, Bool.and_eq_true] at hokm
    have hs := hokm.1.1.1
    cases s with
    | fixed y mm d =>
      cases y with
      | none => simp [Print.startsWithYear] at hsy
      | some y =>
        simp only [okDate, okYearOpt, Bool.and_eq_true, decide_eq_true_eq] at hs
        exact ⟨y, _, hs.1, by simp only [Print.monthdayRange, Print.date, List.append_assoc]; rfl⟩
    | easter y =>
      cases y with
      | none => simp [Print.startsWithYear] at hsy
      | some y =>
        simp only [okDate, okYearOpt, decide_eq_true_eq] at hs
        exact ⟨y, _, hs, by simp only [Print.monthdayRange, Print.date, List.append_assoc]; rfl⟩

theorem monthday_selector_year_text (m : MonthdayRange) (l : List MonthdayRange)
    (hokm : okMonthday m = true) (hsy : Print.startsWithYear m = true) (rest : List Char) :
    ∃ y t, (1900 ≤ y ∧ y ≤ 9999) ∧
      Print.selector Print.monthdayRange (m :: l) ++ rest = Print.natStr y ++ t := by
  obtain ⟨y, t, hyr, et⟩ := monthdayRange_year_text m hokm hsy
  cases l with
  | nil => exact ⟨y, _, hyr, by simp only [Print.selector, et, List.append_assoc]; rfl⟩
  | cons z l => exact ⟨y, _, hyr, by simp only [selector_cons2, et, List.append_assoc]; rfl⟩

/-- a month-day selector that starts with a year may follow a plain year (`20202021Jan`) -/
theorem YearNotDate_monthday (ms : List MonthdayRange) (hne : ms ≠ [])
    (hok : ∀ m ∈ ms, okMonthday m = true)
    (hy : ∀ m, ms.head? = some m → Print.startsWithYear m = true) (rest : List Char) :
    YearNotDate (Print.selector Print.monthdayRange ms ++ rest) := by
  cases ms with
  | nil => exact absurd rfl hne
  | cons m l =>
    obtain ⟨y, t, hyr, et⟩ := monthday_selector_year_text m l (hok m (by simp)) (hy m rfl) rest
    obtain ⟨c, cs, ec, hc⟩ := natStr_year_head y hyr
    have hd : c ≠ ' ' ∧ ¬ MonthLetter c ∧ c ≠ 'e' := by
      refine ⟨?_, ?_, ?_⟩
      · intro e; subst e; exact absurd hc.1 (by decide)
      · intro hm
        rcases hm with e | e | e | e | e | e | e | e <;> (subst e; exact absurd hc.2 (by decide))
      · intro e; subst e; exact absurd hc.2 (by decide)
    rw [et, ec]
    exact YearNotDate_of_head c _ hd.1 hd.2.1 hd.2.2

/-! ### `always_open` (`24/7`) fails on a printed year -/

theorem dc_ne_slash : ∀ d, d < 10 → '/' ≠ dc d := by decide

theorem run_always_open_none_year (y : Nat) (hy : 1000 ≤ y ∧ y ≤ 9999) (X : List Char) :
    run g_always_open false (Print.natStr y ++ X) = none := by
  rw [natStr_4 y hy]
  have := dc_ne_slash (y / 10 % 10) (by omega)
  simp [g_always_open, peg, this]

theorem run_always_open_none_head (c : Char) (r : List Char) (h : c ≠ '2') :
    run g_always_open false (c :: r) = none := by
  simp [g_always_open, peg, Ne.symm h]

/-- `24/7` is not a prefix of a printed year selector -/
theorem run_always_open_none_years (ys : List YearRange) (hne : ys ≠ [])
    (hok : ∀ y ∈ ys, okYear y = true) (rest : List Char) :
    run g_always_open false (Print.selector Print.yearRange ys ++ rest) = none := by
  obtain ⟨y, tail, hy, e, _⟩ := year_selector_text ys hne
  have hmem : y ∈ ys := by
    cases ys with
    | nil => cases hy
    | cons a l => simp only [List.head?_cons, Option.some.injEq] at hy; subst hy; simp
  have hoky := hok y hmem
  simp only [okYear, decide_eq_true_eq] at hoky
  rw [e, List.append_assoc]
  exact run_always_open_none_year y.lo (by omega) _

/-- `24/7` is not a prefix of a printed month-day selector -/
theorem run_always_open_none_monthday (ms : List MonthdayRange) (hne : ms ≠ [])
    (hok : ∀ m ∈ ms, okMonthday m = true) (rest : List Char) :
    run g_always_open false (Print.selector Print.monthdayRange ms ++ rest) = none := by
  cases ms with
  | nil => exact absurd rfl hne
  | cons m l =>
    by_cases hsy : Print.startsWithYear m = true
    · obtain ⟨y, t, hyr, et⟩ := monthday_selector_year_text m l (hok m (by simp)) hsy rest
      rw [et]
      exact run_always_open_none_year y (by omega) _
    · obtain ⟨c, r, e, _, hc⟩ := monthday_selector_head (m :: l) (by simp) hok
      rw [e]
      apply run_always_open_none_head
      have := hc (fun m' h => by
        simp only [List.head?_cons, Option.some.injEq] at h; subst h; simpa using hsy)
      rcases this with h | h
      · rcases h with h | h | h | h | h | h | h | h <;> subst h <;> decide
      · subst h; decide

/-- the day-number clause of `FollowMonthday_of_FollowWide`, from the text of the time selector: when a
space and a digit follow, it is a printed time `HH:MM` (at most `24:00`) not followed by `:` -/
theorem FollowMonthday_of_FollowWide_time (rest : List Char) (h : FollowWide rest)
    (ht : ∀ c r, rest = ' ' :: c :: r → ('0' ≤ c ∧ c ≤ '9') →
      ∃ m x, m ≤ 1440 ∧ c :: r = Print.extTime m ++ x ∧ ∀ y, x ≠ ':' :: y) :
    FollowMonthday rest := by
  apply FollowMonthday_of_FollowWide rest h
  intro c r e hd
  obtain ⟨m, x, hm, et, hx⟩ := ht c r e hd
  rw [et]
  exact daynum_fails_at_time m hm x hx

/-! ### the `ok…` predicates against `ParserWF`

`ParserWF` (`DateOffset.wf`) lets the day count of a date offset be any `i64`, `i64::MIN` included;
the parser cannot build that one (`build_day_offset` converts the absolute value to `i64` before
negating) and it would not reparse (`Error::Overflow`), hence the extra clause. -/

theorem okYear_of_wf (y : YearRange) (h : y.wf = true) : okYear y = true := by
  simp only [YearRange.wf, yearOk, Bool.and_eq_true, decide_eq_true_eq] at h
  simp only [okYear, decide_eq_true_eq]
  omega

theorem okWeek_of_wf (w : WeekRange) (h : w.wf = true) : okWeek w = true := by
  simp only [WeekRange.wf, Bool.and_eq_true, decide_eq_true_eq] at h
  simp only [okWeek, decide_eq_true_eq]
  omega

theorem okYearOpt_of_wf (y : Option Nat) (h : optYearOk y = true) : okYearOpt y = true := by
  cases y with
  | none => rfl
  | some y =>
    simp only [optYearOk, yearOk, Bool.and_eq_true, decide_eq_true_eq] at h
    simp only [okYearOpt, decide_eq_true_eq]
    omega

theorem okDate_of_wf (d : DateSpec) (h : d.wf = true) : okDate d = true := by
  cases d with
  | fixed y m dd =>
    simp only [DateSpec.wf, Bool.and_eq_true, decide_eq_true_eq] at h
    simp only [okDate, Bool.and_eq_true, decide_eq_true_eq]
    exact ⟨okYearOpt_of_wf y h.1.1.1.1, by omega⟩
  | easter y => exact okYearOpt_of_wf y h

/-- the smallest `i64`, which `ParserWF` allows and the parser never builds -/
def minI64 : Int := -9223372036854775808

theorem okDateOffset_of_wf (o : DateOffset) (h : o.wf = true) (hmin : o.days ≠ minI64) :
    okDateOffset o = true := by
  simp only [DateOffset.wf, i64Ok, Bool.and_eq_true, decide_eq_true_eq] at h
  simp only [okDateOffset, Bool.and_eq_true, decide_eq_true_eq]
  refine ⟨?_, ?_⟩
  · cases hw : o.wday with
    | none => rfl
    | next w => have := h.1; rw [hw] at this; simpa [WdayOffset.wf, okWdayOffset] using this
    | prev w => have := h.1; rw [hw] at this; simpa [WdayOffset.wf, okWdayOffset] using this
  · unfold i64Bound; unfold minI64 at hmin; omega

/-- the offsets of a month-day range are not `i64::MIN` days -/
def noMinOffset : MonthdayRange → Bool
  | .month _ _ _ => true
  | .date _ so _ eo => decide (so.days ≠ minI64) && decide (eo.days ≠ minI64)

theorem okMonthday_of_wf (m : MonthdayRange) (h : m.wf = true) (hmin : noMinOffset m = true) :
    okMonthday m = true := by
  cases m with
  | month lo hi y =>
    simp only [MonthdayRange.wf, Bool.and_eq_true, decide_eq_true_eq] at h
    simp only [okMonthday, Bool.and_eq_true, decide_eq_true_eq]
    exact ⟨by omega, okYearOpt_of_wf y h.2⟩
  | date s so e eo =>
    simp only [MonthdayRange.wf, Bool.and_eq_true] at h
    simp only [noMinOffset, Bool.and_eq_true, decide_eq_true_eq] at hmin
    simp only [okMonthday, Bool.and_eq_true]
    exact ⟨⟨⟨okDate_of_wf s h.1.1.1, okDateOffset_of_wf so h.1.1.2 hmin.1⟩, okDate_of_wf e h.1.2⟩,
      okDateOffset_of_wf eo h.2 hmin.2⟩

end OH.Proofs.Syn
