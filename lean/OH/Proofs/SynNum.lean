import OH.Proofs.SynBase
/-
Decimal numbers: what `{}` prints (`Print.natStr`, `Print.intStr`) is read back by `natOfDigits`
(Rust's `str::parse`), consists of digits only, starts with a non-zero digit for a positive number,
and is matched as a whole by the grammar rule `positive_number` when no digit follows.
-/
namespace OH.Proofs.Syn
open OH.Model OH.Model.Peg OH.Model.Parser OH.Generated.Grammar

theorem aux_fuel : ∀ (f1 f2 m : Nat) (acc : List Char), m < f1 → m < f2 →
    Print.natDigitsAux f1 m acc = Print.natDigitsAux f2 m acc := by
  intro f1
  induction f1 with
  | zero => intro f2 m acc h; omega
  | succ f1 ih =>
    intro f2 m acc h1 h2
    cases f2 with
    | zero => omega
    | succ f2 =>
      simp only [Print.natDigitsAux]
      split
      · rfl
      · exact ih f2 (m / 10) _ (by omega) (by omega)

theorem aux_acc : ∀ (f m : Nat) (acc : List Char), m < f →
    Print.natDigitsAux f m acc = Print.natDigitsAux f m [] ++ acc := by
  intro f
  induction f with
  | zero => intro m acc h; omega
  | succ f ih =>
    intro m acc h
    simp only [Print.natDigitsAux]
    split
    · rfl
    · rw [ih (m / 10) (_ :: acc) (by omega), ih (m / 10) [_] (by omega)]
      simp

theorem natStr_lt10 (n : Nat) (h : n < 10) : Print.natStr n = [dc n] := by
  simp [Print.natStr, Print.natDigitsAux, h]

theorem natStr_ge10 (n : Nat) (h : 10 ≤ n) : Print.natStr n = Print.natStr (n / 10) ++ [dc (n % 10)] := by
  have h' : ¬ n < 10 := by omega
  have e : Print.natStr n = Print.natDigitsAux n (n / 10) [dc (n % 10)] := by
    simp [Print.natStr, Print.natDigitsAux, h']
  rw [e, aux_acc n (n / 10) _ (by omega), aux_fuel n (n / 10 + 1) (n / 10) [] (by omega) (by omega)]
  rfl

/-- induction principle on the decimal representation -/
theorem nat_dec_induction {P : Nat → Prop} (base : ∀ n, n < 10 → P n)
    (step : ∀ n, 10 ≤ n → P (n / 10) → P n) : ∀ n, P n := by
  intro n
  induction n using Nat.strongRecOn with
  | _ n ih =>
    by_cases h : n < 10
    · exact base n h
    · exact step n (by omega) (ih (n / 10) (by omega))

theorem natStr_ne_nil (n : Nat) : Print.natStr n ≠ [] := by
  by_cases h : n < 10
  · simp [natStr_lt10 n h]
  · simp [natStr_ge10 n (by omega)]

theorem natStr_digits : ∀ n, ∀ c ∈ Print.natStr n, '0' ≤ c ∧ c ≤ '9' := by
  apply nat_dec_induction
  · intro n h c hc
    simp [natStr_lt10 n h] at hc; subst hc; exact dc_digit n h
  · intro n h ih c hc
    rw [natStr_ge10 n h] at hc
    simp only [List.mem_append, List.mem_singleton] at hc
    rcases hc with hc | hc
    · exact ih c hc
    · subst hc; exact dc_digit _ (by omega)

/-- the first digit of a positive number is not `0` -/
theorem natStr_head : ∀ n, 0 < n → ∃ c cs, Print.natStr n = c :: cs ∧ '1' ≤ c ∧ c ≤ '9' := by
  have dc19 : ∀ d, d < 10 → 0 < d → '1' ≤ dc d ∧ dc d ≤ '9' := by decide
  apply nat_dec_induction
  · intro n h hp
    exact ⟨dc n, [], natStr_lt10 n h, dc19 n h hp⟩
  · intro n h ih _
    obtain ⟨c, cs, e, hc⟩ := ih (by omega)
    exact ⟨c, cs ++ [dc (n % 10)], by rw [natStr_ge10 n h, e]; rfl, hc⟩

theorem natOfDigitsAux_append (a b : List Char) (acc : Nat) :
    natOfDigitsAux (a ++ b) acc = (natOfDigitsAux a acc).bind (natOfDigitsAux b) := by
  induction a generalizing acc with
  | nil => simp [natOfDigitsAux]
  | cons c cs ih =>
    simp only [List.cons_append, natOfDigitsAux]
    cases digitVal c with
    | none => rfl
    | some d => exact ih _

theorem natOfDigitsAux_natStr : ∀ n, natOfDigitsAux (Print.natStr n) 0 = some n := by
  apply nat_dec_induction
  · intro n h
    simp [natStr_lt10 n h, natOfDigitsAux, dc_val n h]
  · intro n h ih
    rw [natStr_ge10 n h, natOfDigitsAux_append, ih]
    simp only [Option.bind_some, natOfDigitsAux, dc_val (n % 10) (by omega)]
    congr 1; omega

/-- `str::parse` reads back what `{}` printed -/
theorem natOfDigits_natStr (n : Nat) : natOfDigits (Print.natStr n) = some n := by
  have := natOfDigitsAux_natStr n
  unfold natOfDigits
  split
  · next h => exact absurd h (natStr_ne_nil n)
  · exact this

/-- a year 1000..9999 is printed as its four digits -/
theorem natStr_4 (y : Nat) (h : 1000 ≤ y ∧ y ≤ 9999) :
    Print.natStr y = [dc (y / 1000), dc (y / 100 % 10), dc (y / 10 % 10), dc (y % 10)] := by
  rw [natStr_ge10 y (by omega), natStr_ge10 (y / 10) (by omega), natStr_ge10 (y / 10 / 10) (by omega),
    natStr_lt10 (y / 10 / 10 / 10) (by omega)]
  have e1 : y / 10 / 10 / 10 = y / 1000 := by omega
  have e2 : y / 10 / 10 % 10 = y / 100 % 10 := by omega
  simp [e1, e2]

/-! ### `positive_number = @{ "0"* ~ ASCII_NONZERO_DIGIT ~ ASCII_DIGIT* }` -/

/-- `ASCII_DIGIT*` consumes a run of digits up to a non-digit -/
theorem run_digits_star (q : Bool) (ds rest : List Char) (hd : ∀ c ∈ ds, '0' ≤ c ∧ c ≤ '9')
    (hr : ∀ c r, rest = c :: r → ¬ ('0' ≤ c ∧ c ≤ '9')) :
    run (.star (.range '0' '9') : G) q (ds ++ rest) = some ⟨[], ds, rest⟩ := by
  induction ds with
  | nil =>
    have : run (.range '0' '9' : G) q rest = none := by
      cases rest with
      | nil => rfl
      | cons c r => simp [run, hr c r rfl]
    simpa [R.nil] using run_star_none this
  | cons d ds ih =>
    have hd0 := hd d (by simp)
    have h1 : run (.range '0' '9' : G) q (d :: ds ++ rest) = some ⟨[], [d], ds ++ rest⟩ := by
      simp [run, hd0]
    have := run_star_some h1 (by simp) (ih (fun c hc => hd c (by simp [hc])))
    simpa [R.append] using this

/-- what follows a printed number must not be a digit -/
def NoDigit (rest : List Char) : Prop := ∀ c r, rest = c :: r → ¬ ('0' ≤ c ∧ c ≤ '9')

theorem run_positive_number (q : Bool) (n : Nat) (hn : 0 < n) (rest : List Char) (hr : NoDigit rest) :
    run g_positive_number q (Print.natStr n ++ rest) =
      some (if q then ⟨[], Print.natStr n, rest⟩
            else ⟨[.node .positive_number (Print.natStr n) []], Print.natStr n, rest⟩) := by
  obtain ⟨c, cs, e, hc1, hc9⟩ := natStr_head n hn
  have hds : ∀ x ∈ cs, '0' ≤ x ∧ x ≤ '9' := fun x hx => natStr_digits n x (by rw [e]; simp [hx])
  have hc0 : c ≠ '0' := by
    intro h; subst h; exact absurd hc1 (by decide)
  -- `"0"*` stops at once: the first digit is not `0`
  have hz : run (.star (.str ['0']) : G) true (c :: cs ++ rest) = some (R.nil (c :: cs ++ rest)) := by
    apply run_star_none
    simp [run, stripPrefix, Ne.symm hc0]
  have hstar := run_digits_star true cs rest hds hr
  rw [e]
  simp only [List.cons_append] at hz ⊢
  simp only [g_positive_number, peg, Bool.or_true, hz, hc1, hc9, and_self, if_true, hstar,
    List.nil_append, List.append_nil, List.singleton_append]
  cases q <;> simp

theorem build_positive_number (n : Nat) (h : n < u64Bound) :
    buildPositiveNumber (.node .positive_number (Print.natStr n) []) = .ok n := by
  simp [buildPositiveNumber, assertRule, Tree.rule, Tree.text, natOfDigits_natStr, h, bind, Except.bind]

/-! ### `day_offset = { space ~ plus_or_minus ~ positive_number ~ space ~ "day" ~ "s"? }` -/

/-- the printed day offset, taken apart: sign character and absolute value -/
theorem daysOffset_eq (off : Int) (h0 : off ≠ 0) :
    Print.daysOffset off =
      [' ', if off > 0 then '+' else '-'] ++ Print.natStr off.natAbs ++ [' ', 'd', 'a', 'y']
        ++ (if off.natAbs > 1 then ['s'] else []) := by
  by_cases hp : off > 0
  · have : ¬ off < 0 := by omega
    have e : off.toNat = off.natAbs := by omega
    simp [Print.daysOffset, h0, hp, Print.intStr, this, e, Print.str]
  · have hn : off < 0 := by omega
    simp [Print.daysOffset, h0, hp, Print.intStr, hn, Print.str]

theorem parses_day_offset (off : Int) (h0 : off ≠ 0) (hb : off.natAbs < i64Bound) (rest : List Char)
    (hr : ∀ r, rest ≠ 's' :: r) :
    ParsesTo g_day_offset buildDayOffset (Print.daysOffset off) rest off := by
  have hn : 0 < off.natAbs := by omega
  have hnd : NoDigit ([' ', 'd', 'a', 'y'] ++ (if off.natAbs > 1 then ['s'] else []) ++ rest) := by
    intro c r h; simp at h; rw [← h.1]; decide
  have hnum := run_positive_number false off.natAbs hn _ hnd
  have hs : run (.opt (.str ['s']) : G) false ((if off.natAbs > 1 then ['s'] else []) ++ rest)
      = some ⟨[], (if off.natAbs > 1 then ['s'] else []), rest⟩ := by
    by_cases h1 : off.natAbs > 1
    · simp [h1, peg]
    · cases rest with
      | nil => simp [h1, peg]
      | cons c r =>
        have : c ≠ 's' := by intro h; subst h; exact hr r rfl
        simp [h1, peg, Ne.symm this]
  rw [daysOffset_eq off h0]
  have hbp := build_positive_number off.natAbs (by unfold u64Bound; unfold i64Bound at hb; omega)
  have hnb : ¬ i64Bound ≤ off.natAbs := by omega
  by_cases hp : off > 0
  · refine ParsesTo.mk' .day_offset [.node .plus_or_minus ['+'] [.node .plus ['+'] []],
      .node .positive_number (Print.natStr off.natAbs) []] ?_ ?_
    · simp only [hp, if_true, List.cons_append, List.nil_append, List.append_assoc] at hnum ⊢
      simp [g_day_offset, g_space, g_plus_or_minus, g_plus, g_minus, peg, hnum, hs]
    · have e : ((off.natAbs : Nat) : Int) = off := by omega
      simp [buildDayOffset, buildPlusOrMinus, assertRule, Tree.rule, Tree.kids, hbp, hnb, e, bind, Except.bind]
  · refine ParsesTo.mk' .day_offset [.node .plus_or_minus ['-'] [.node .minus ['-'] []],
      .node .positive_number (Print.natStr off.natAbs) []] ?_ ?_
    · simp only [hp, if_false, List.cons_append, List.nil_append, List.append_assoc] at hnum ⊢
      simp [g_day_offset, g_space, g_plus_or_minus, g_plus, g_minus, peg, hnum, hs]
    · have e : -((off.natAbs : Nat) : Int) = off := by omega
      simp [buildDayOffset, buildPlusOrMinus, assertRule, Tree.rule, Tree.kids, hbp, hnb, e, bind, Except.bind]

end OH.Proofs.Syn
