import OH.Model.Schedule
import OH.Spec.Schedule
/-
Helper lemmas for C14 (Schedule algebra).  Core tactics only.
-/
namespace OH.Proofs.Schedule
open OH.Model OH.Model.Schedule OH.Spec.Schedule

/-! ### `stateAt`, `WF`: generalities -/

theorem stateAt_append (a b : Schedule) (m : Nat) :
    stateAt (a ++ b) m = (stateAt a m).or (stateAt b m) := by
  induction a with
  | nil => simp [stateAt]
  | cons t ts ih => simp only [List.cons_append, stateAt]; split <;> simp_all

theorem stateAt_eq_none (l : Schedule) (m : Nat) :
    stateAt l m = none ↔ ∀ t ∈ l, ¬ (t.s ≤ m ∧ m < t.e) := by
  induction l with
  | nil => simp [stateAt]
  | cons t ts ih => simp only [stateAt]; split <;> grind

theorem stateAt_eq_some (l : Schedule) (m : Nat) (k : Kind) (h : stateAt l m = some k) :
    ∃ t ∈ l, t.s ≤ m ∧ m < t.e ∧ t.kind = k := by
  induction l with
  | nil => simp [stateAt] at h
  | cons t ts ih =>
    simp only [stateAt] at h
    split at h
    · exact ⟨t, by simp, by simp_all⟩
    · obtain ⟨u, hu, h'⟩ := ih h; exact ⟨u, by simp [hu], h'⟩

/-- in a `WF` schedule the covering range is unique, so `stateAt` is the kind of ANY covering range -/
theorem stateAt_of_mem (l : Schedule) (hl : WF l) (t : TimeRange) (ht : t ∈ l) (m : Nat)
    (hm : t.s ≤ m ∧ m < t.e) : stateAt l m = some t.kind := by
  induction l with
  | nil => simp at ht
  | cons u us ih =>
    simp only [WF] at hl
    simp only [stateAt]
    rcases List.mem_cons.mp ht with rfl | h
    · simp [hm]
    · have := hl.2.1 t h
      have : ¬ (u.s ≤ m ∧ m < u.e) := by omega
      simp only [this, if_false]
      exact ih hl.2.2 h

theorem wf_append (a b : Schedule) :
    WF (a ++ b) ↔ WF a ∧ WF b ∧ ∀ x ∈ a, ∀ y ∈ b, x.e ≤ y.s := by
  induction a with
  | nil => simp [WF]
  | cons t ts ih =>
    simp only [List.cons_append, WF, ih, List.mem_append, List.mem_cons]
    constructor
    · rintro ⟨h1, h2, h3, h4, h5⟩
      refine ⟨⟨h1, fun u hu => h2 u (Or.inl hu), h3⟩, h4, ?_⟩
      rintro x (rfl | hx) y hy
      · exact h2 y (Or.inr hy)
      · exact h5 x hx y hy
    · rintro ⟨⟨h1, h2, h3⟩, h4, h5⟩
      refine ⟨h1, ?_, h3, h4, fun x hx y hy => h5 x (Or.inr hx) y hy⟩
      rintro u (hu | hu)
      · exact h2 u hu
      · exact h5 t (Or.inl rfl) u hu

theorem wf_nonempty (l : Schedule) (hl : WF l) : ∀ t ∈ l, t.s < t.e := by
  induction l with
  | nil => simp
  | cons t ts ih => simp only [WF] at hl; simp only [List.mem_cons]; rintro u (rfl | hu); exact hl.1; exact ih hl.2.2 u hu

/-! ### `insert`: the two filter passes -/

theorem stateAt_before (insS insE : Nat) (h : insS < insE) (l : Schedule) (m : Nat) :
    stateAt (before insS insE l) m = if m < insS then stateAt l m else none := by
  fun_induction before insS insE l <;> grind [stateAt]

theorem stateAt_after (insS insE : Nat) (h : insS < insE) (l : Schedule) (m : Nat) :
    stateAt (after insS insE l) m = if insE ≤ m then stateAt l m else none := by
  fun_induction after insS insE l <;> grind [stateAt]

theorem mem_before (insS insE : Nat) (l : Schedule) (u : TimeRange) (hu : u ∈ before insS insE l) :
    ∃ t ∈ l, u.s = t.s ∧ u.e = min t.e insS ∧ u.s < u.e ∧ u.kind = t.kind ∧ u.comments = t.comments := by
  fun_induction before insS insE l <;> grind

theorem mem_after (insS insE : Nat) (l : Schedule) (u : TimeRange) (hu : u ∈ after insS insE l) :
    ∃ t ∈ l, u.e = t.e ∧ u.s = max t.s insE ∧ u.s < u.e ∧ u.kind = t.kind ∧ u.comments = t.comments := by
  fun_induction after insS insE l <;> grind

theorem wf_before (insS insE : Nat) (l : Schedule) (hl : WF l) : WF (before insS insE l) := by
  fun_induction before insS insE l <;> grind [WF, mem_before]

theorem wf_after (insS insE : Nat) (l : Schedule) (hl : WF l) : WF (after insS insE l) := by
  fun_induction after insS insE l <;> grind [WF, mem_after]

/-- the schedule before the two coalescing loops -/
theorem wf_insertRaw (l : Schedule) (hl : WF l) (ins : TimeRange) (h : ins.s < ins.e) :
    WF (before ins.s ins.e l ++ ins :: after ins.s ins.e l) := by
  rw [wf_append]
  refine ⟨wf_before _ _ l hl, ?_, ?_⟩
  · simp only [WF]
    refine ⟨h, ?_, wf_after _ _ l hl⟩
    intro u hu; have := mem_after _ _ l u hu; grind
  · intro x hx y hy
    have := mem_before _ _ l x hx
    rcases List.mem_cons.mp hy with rfl | hy
    · grind
    · have := mem_after _ _ l y hy; grind

theorem stateAt_insertRaw (l : Schedule) (ins : TimeRange) (h : ins.s < ins.e) (m : Nat) :
    stateAt (before ins.s ins.e l ++ ins :: after ins.s ins.e l) m
      = if ins.s ≤ m ∧ m < ins.e then some ins.kind else stateAt l m := by
  simp only [stateAt_append, stateAt_before _ _ h, stateAt, stateAt_after _ _ h]
  grind

/-! ### `insert`: the two coalescing loops -/

theorem coalesce_step_before (A X : Schedule) (t ins : TimeRange) (c : List String)
    (h : WF (A ++ t :: ins :: X)) (he : t.e = ins.s) (hk : t.kind = ins.kind) :
    WF (A ++ { ins with s := t.s, comments := c } :: X) ∧
    ∀ m, stateAt (A ++ { ins with s := t.s, comments := c } :: X) m = stateAt (A ++ t :: ins :: X) m := by
  simp only [wf_append, WF, stateAt_append, stateAt, List.mem_cons] at *
  grind

theorem coalesce_step_after (A X : Schedule) (t ins : TimeRange) (c : List String)
    (h : WF (A ++ ins :: t :: X)) (he : ins.e = t.s) (hk : t.kind = ins.kind) :
    WF (A ++ { ins with e := t.e, comments := c } :: X) ∧
    ∀ m, stateAt (A ++ { ins with e := t.e, comments := c } :: X) m = stateAt (A ++ ins :: t :: X) m := by
  simp only [wf_append, WF, stateAt_append, stateAt, List.mem_cons] at *
  grind

theorem coalesceBeforeRev_spec (ins : TimeRange) (rb X : Schedule)
    (h : WF (rb.reverse ++ ins :: X)) :
    WF ((coalesceBeforeRev ins rb).1.reverse ++ (coalesceBeforeRev ins rb).2 :: X) ∧
    (∀ m, stateAt ((coalesceBeforeRev ins rb).1.reverse ++ (coalesceBeforeRev ins rb).2 :: X) m
        = stateAt (rb.reverse ++ ins :: X) m) ∧
    (coalesceBeforeRev ins rb).2.kind = ins.kind ∧ (coalesceBeforeRev ins rb).2.e = ins.e ∧
    (∀ hd ∈ (coalesceBeforeRev ins rb).1.head?,
        ¬ (hd.e = (coalesceBeforeRev ins rb).2.s ∧ hd.kind = (coalesceBeforeRev ins rb).2.kind)) := by
  fun_induction coalesceBeforeRev ins rb with
  | case1 ins => simp_all
  | case2 ins t ts hc ih =>
    simp only [List.reverse_cons, List.append_assoc, List.singleton_append] at h
    obtain ⟨h1, h2⟩ := coalesce_step_before ts.reverse X t ins (cunion t.comments ins.comments) h hc.1 hc.2
    obtain ⟨i1, i2, i3, i4, i5⟩ := ih h1
    refine ⟨i1, ?_, i3, i4, i5⟩
    intro m
    rw [i2, h2]
    simp only [List.reverse_cons, List.append_assoc, List.singleton_append]
  | case3 ins t ts hc => simp_all

theorem coalesceAfter_spec (ins : TimeRange) (A aft : Schedule)
    (h : WF (A ++ ins :: aft)) :
    WF (A ++ (coalesceAfter ins aft).2 :: (coalesceAfter ins aft).1) ∧
    (∀ m, stateAt (A ++ (coalesceAfter ins aft).2 :: (coalesceAfter ins aft).1) m
        = stateAt (A ++ ins :: aft) m) ∧
    (coalesceAfter ins aft).2.kind = ins.kind ∧ (coalesceAfter ins aft).2.s = ins.s ∧
    (∀ hd ∈ (coalesceAfter ins aft).1.head?,
        ¬ ((coalesceAfter ins aft).2.e = hd.s ∧ hd.kind = (coalesceAfter ins aft).2.kind)) := by
  fun_induction coalesceAfter ins aft with
  | case1 ins => simp_all
  | case2 ins t ts hc ih =>
    obtain ⟨h1, h2⟩ := coalesce_step_after A ts t ins (cunion t.comments ins.comments) h hc.1 hc.2
    obtain ⟨i1, i2, i3, i4, i5⟩ := ih h1
    refine ⟨i1, ?_, i3, i4, i5⟩
    intro m
    rw [i2, h2]
  | case3 ins t ts hc => simp_all

/-- everything the two loops guarantee about `insert` -/
theorem insert_spec (l : Schedule) (hl : WF l) (ins : TimeRange) (h : ins.s < ins.e) :
    WF (insert l ins) ∧
    (∀ m, stateAt (insert l ins) m = if ins.s ≤ m ∧ m < ins.e then some ins.kind else stateAt l m) ∧
    (insStage2 l ins).2.kind = ins.kind ∧
    (∀ hd ∈ (insStage1 l ins).1.head?,
        ¬ (hd.e = (insStage2 l ins).2.s ∧ hd.kind = (insStage2 l ins).2.kind)) ∧
    (∀ hd ∈ (insStage2 l ins).1.head?,
        ¬ ((insStage2 l ins).2.e = hd.s ∧ hd.kind = (insStage2 l ins).2.kind)) := by
  have h0 : WF ((before ins.s ins.e l).reverse.reverse ++ insAbsorbed l ins :: after ins.s ins.e l) := by
    rw [List.reverse_reverse]
    exact wf_insertRaw l hl (insAbsorbed l ins) h
  obtain ⟨a1, a2, a3, a4, a5⟩ := coalesceBeforeRev_spec (insAbsorbed l ins) (before ins.s ins.e l).reverse _ h0
  obtain ⟨b1, b2, b3, b4, b5⟩ := coalesceAfter_spec (insStage1 l ins).2 (insStage1 l ins).1.reverse
    (after ins.s ins.e l) a1
  refine ⟨b1, ?_, ?_, ?_, b5⟩
  · intro m
    show stateAt ((insStage1 l ins).1.reverse ++ (insStage2 l ins).2 :: (insStage2 l ins).1) m = _
    unfold insStage2
    rw [b2]
    unfold insStage1
    rw [a2, List.reverse_reverse]
    exact stateAt_insertRaw l (insAbsorbed l ins) h m
  · unfold insStage2; rw [b3]; unfold insStage1; rw [a3]; rfl
  · intro hd hhd
    have := a5 hd hhd
    unfold insStage2; rw [b3, b4]; exact this

/-! ### `insert` keeps the schedule coalesced -/

theorem coalesceBeforeRev_mem (ins : TimeRange) (rb : Schedule) :
    ∀ x ∈ (coalesceBeforeRev ins rb).1, x ∈ rb := by
  fun_induction coalesceBeforeRev ins rb <;> grind

theorem coalesceAfter_mem (ins : TimeRange) (aft : Schedule) :
    ∀ x ∈ (coalesceAfter ins aft).1, x ∈ aft := by
  fun_induction coalesceAfter ins aft <;> grind

theorem wf_pairwise (l : Schedule) (hl : WF l) :
    ∀ t ∈ l, ∀ u ∈ l, t.e = u.s → t.s < t.e ∧ u.s < u.e := by
  intro t ht u hu _
  exact ⟨wf_nonempty l hl t ht, wf_nonempty l hl u hu⟩

theorem coalesced_glue (A B : Schedule) (i : TimeRange) (hw : WF (A.reverse ++ i :: B))
    (hA : ∀ t ∈ A, ∀ u ∈ A, t.e = u.s → t.kind ≠ u.kind)
    (hB : ∀ t ∈ B, ∀ u ∈ B, t.e = u.s → t.kind ≠ u.kind)
    (hhA : ∀ hd ∈ A.head?, ¬ (hd.e = i.s ∧ hd.kind = i.kind))
    (hhB : ∀ hd ∈ B.head?, ¬ (i.e = hd.s ∧ hd.kind = i.kind)) :
    Coalesced (A.reverse ++ i :: B) := by
  have hne := wf_nonempty _ hw
  rcases A with _ | ⟨a, A'⟩ <;> rcases B with _ | ⟨b, B'⟩ <;>
    simp only [wf_append, WF, List.reverse_cons, List.mem_append, List.mem_cons, List.mem_reverse,
      List.head?_cons, List.head?_nil, Option.mem_def, List.reverse_nil, List.nil_append,
      List.not_mem_nil] at * <;>
    intro t ht u hu he <;> grind

theorem before_coalesced (insS insE : Nat) (l : Schedule) (hc : Coalesced l) :
    ∀ t ∈ before insS insE l, ∀ u ∈ before insS insE l, t.e = u.s → t.kind ≠ u.kind := by
  intro t ht u hu he
  obtain ⟨t0, ht0, h1⟩ := mem_before _ _ l t ht
  obtain ⟨u0, hu0, h2⟩ := mem_before _ _ l u hu
  have := hc t0 ht0 u0 hu0
  grind

theorem after_coalesced (insS insE : Nat) (l : Schedule) (hc : Coalesced l) :
    ∀ t ∈ after insS insE l, ∀ u ∈ after insS insE l, t.e = u.s → t.kind ≠ u.kind := by
  intro t ht u hu he
  obtain ⟨t0, ht0, h1⟩ := mem_after _ _ l t ht
  obtain ⟨u0, hu0, h2⟩ := mem_after _ _ l u hu
  have := hc t0 ht0 u0 hu0
  grind

theorem insert_coalesced (l : Schedule) (hl : WF l) (hc : Coalesced l) (ins : TimeRange)
    (h : ins.s < ins.e) : Coalesced (insert l ins) := by
  obtain ⟨w, _, _, e1, e2⟩ := insert_spec l hl ins h
  refine coalesced_glue (insStage1 l ins).1 (insStage2 l ins).1 (insStage2 l ins).2 w ?_ ?_ e1 e2
  · intro t ht u hu
    have ht' := coalesceBeforeRev_mem _ _ t ht
    have hu' := coalesceBeforeRev_mem _ _ u hu
    rw [List.mem_reverse] at ht' hu'
    exact before_coalesced _ _ l hc t ht' u hu'
  · intro t ht u hu
    exact after_coalesced _ _ l hc t (coalesceAfter_mem _ _ t ht) u (coalesceAfter_mem _ _ u hu)

/-! ### bounds through the state -/

theorem stateAt_none_of_within (lim : Nat) (l : Schedule) (h : Within lim l) (m : Nat) (hm : lim ≤ m) :
    stateAt l m = none := by
  rw [stateAt_eq_none]; intro t ht; have := h t ht; omega

theorem within_of_stateAt (lim : Nat) (l : Schedule) (hl : WF l)
    (h : ∀ m, lim ≤ m → stateAt l m = none) : Within lim l := by
  intro t ht
  have hne := wf_nonempty l hl t ht
  by_cases hc : t.e ≤ lim
  · exact hc
  · have := (stateAt_eq_none l (t.e - 1)).mp (h (t.e - 1) (by omega)) t ht
    omega

theorem insert_within (lim : Nat) (l : Schedule) (hl : WF l) (hw : Within lim l) (ins : TimeRange)
    (h : ins.s < ins.e) (he : ins.e ≤ lim) : Within lim (insert l ins) := by
  obtain ⟨w, st, _⟩ := insert_spec l hl ins h
  apply within_of_stateAt lim _ w
  intro m hm
  rw [st, stateAt_none_of_within lim l hw m hm]
  have : ¬ (ins.s ≤ m ∧ m < ins.e) := by omega
  simp [this]

/-! ### `addition` -/

theorem additionRev_spec (r : List TimeRange) (a : Schedule) (ha : WF a) (hr : ∀ t ∈ r, t.s < t.e) :
    WF (additionRev a r) ∧
    ∀ m, stateAt (additionRev a r) m = (stateAt r.reverse m).or (stateAt a m) := by
  induction r generalizing a with
  | nil => simp [additionRev, stateAt, ha]
  | cons t ts ih =>
    have ht := hr t (by simp)
    obtain ⟨w, st, _⟩ := insert_spec a ha t ht
    obtain ⟨i1, i2⟩ := ih (insert a t) w (fun u hu => hr u (by simp [hu]))
    refine ⟨i1, ?_⟩
    intro m
    show stateAt (additionRev (insert a t) ts) m = _
    rw [i2, st, List.reverse_cons, stateAt_append]
    simp only [stateAt]
    cases stateAt ts.reverse m <;> simp <;> split <;> simp

theorem additionRev_coalesced (r : List TimeRange) (a : Schedule) (ha : WF a) (hc : Coalesced a)
    (hr : ∀ t ∈ r, t.s < t.e) : Coalesced (additionRev a r) := by
  induction r generalizing a with
  | nil => simpa [additionRev]
  | cons t ts ih =>
    have ht := hr t (by simp)
    exact ih (insert a t) (insert_spec a ha t ht).1 (insert_coalesced a ha hc t ht)
      (fun u hu => hr u (by simp [hu]))

theorem additionRev_within (lim : Nat) (r : List TimeRange) (a : Schedule) (ha : WF a)
    (hw : Within lim a) (hr : ∀ t ∈ r, t.s < t.e) (hr' : ∀ t ∈ r, t.e ≤ lim) :
    Within lim (additionRev a r) := by
  induction r generalizing a with
  | nil => simpa [additionRev]
  | cons t ts ih =>
    have ht := hr t (by simp)
    exact ih (insert a t) (insert_spec a ha t ht).1 (insert_within lim a ha hw t ht (hr' t (by simp)))
      (fun u hu => hr u (by simp [hu])) (fun u hu => hr' u (by simp [hu]))

/-! ### `from_ranges` -/

/-- starts are non-decreasing -/
def SortedS : List TimeRange → Prop
  | [] => True
  | t :: ts => (∀ u ∈ ts, t.s ≤ u.s) ∧ SortedS ts

/-- non-empty, increasing, STRICTLY separated (what `from_ranges` produces) -/
def SWF : Schedule → Prop
  | [] => True
  | t :: ts => t.s < t.e ∧ (∀ u ∈ ts, t.e < u.s) ∧ SWF ts

theorem swf_wf (l : Schedule) (h : SWF l) : WF l := by
  induction l with
  | nil => trivial
  | cons t ts ih =>
    simp only [SWF, WF] at *
    exact ⟨h.1, fun u hu => Nat.le_of_lt (h.2.1 u hu), ih h.2.2⟩

theorem swf_coalesced (l : Schedule) (h : SWF l) : Coalesced l := by
  induction l with
  | nil => intro t ht; simp at ht
  | cons t ts ih =>
    simp only [SWF] at h
    have hne := wf_nonempty _ (swf_wf _ h.2.2)
    intro a ha b hb he
    simp only [List.mem_cons] at ha hb
    rcases ha with rfl | ha <;> rcases hb with rfl | hb
    · omega
    · have := h.2.1 b hb; omega
    · have := h.2.1 a ha; have := hne a ha; omega
    · exact ih h.2.2 a ha b hb he

theorem mem_sortInsert (x u : TimeRange) (l : List TimeRange) :
    u ∈ sortInsert x l ↔ u = x ∨ u ∈ l := by
  fun_induction sortInsert x l <;> grind

theorem mem_sortByStart (u : TimeRange) (l : List TimeRange) : u ∈ sortByStart l ↔ u ∈ l := by
  fun_induction sortByStart l <;> grind [mem_sortInsert]

theorem sorted_sortInsert (x : TimeRange) (l : List TimeRange) (h : SortedS l) :
    SortedS (sortInsert x l) := by
  fun_induction sortInsert x l <;> grind [SortedS, mem_sortInsert]

theorem sorted_sortByStart (l : List TimeRange) : SortedS (sortByStart l) := by
  fun_induction sortByStart l <;> grind [SortedS, sorted_sortInsert]

theorem mem_mkRanges (rs : List (Nat × Nat)) (k : Kind) (c : List String) (t : TimeRange) :
    t ∈ mkRanges rs k c ↔ ∃ r ∈ rs, r.1 < r.2 ∧ t = ⟨r.1, r.2, k, c⟩ := by
  simp only [mkRanges, List.mem_map, List.mem_filter, decide_eq_true_eq]
  constructor
  · rintro ⟨r, ⟨h1, h2⟩, rfl⟩; exact ⟨r, h1, h2, rfl⟩
  · rintro ⟨r, h1, h2, rfl⟩; exact ⟨r, ⟨h1, h2⟩, rfl⟩

theorem mergeBuggyLoop_mem (cur : TimeRange) (rest : List TimeRange) :
    ∀ x ∈ mergeBuggyLoop cur rest, (∃ y ∈ cur :: rest, x.s = y.s) ∧ (∃ y ∈ cur :: rest, x.e = y.e) ∧
      (∃ y ∈ cur :: rest, x.kind = y.kind) := by
  fun_induction mergeBuggyLoop cur rest <;> grind

theorem mergeFixedLoop_mem (cur : TimeRange) (rest : List TimeRange) :
    ∀ x ∈ mergeFixedLoop cur rest, (∃ y ∈ cur :: rest, x.s = y.s) ∧ (∃ y ∈ cur :: rest, x.e = y.e) ∧
      (∃ y ∈ cur :: rest, x.kind = y.kind) := by
  fun_induction mergeFixedLoop cur rest <;> grind

theorem mergeBuggy_mem (l : List TimeRange) :
    ∀ x ∈ mergeBuggy l, (∃ y ∈ l, x.s = y.s) ∧ (∃ y ∈ l, x.e = y.e) ∧ (∃ y ∈ l, x.kind = y.kind) := by
  cases l with
  | nil => simp [mergeBuggy]
  | cons t ts => exact mergeBuggyLoop_mem t ts

theorem mergeFixed_mem (l : List TimeRange) :
    ∀ x ∈ mergeFixed l, (∃ y ∈ l, x.s = y.s) ∧ (∃ y ∈ l, x.e = y.e) ∧ (∃ y ∈ l, x.kind = y.kind) := by
  cases l with
  | nil => simp [mergeFixed]
  | cons t ts => exact mergeFixedLoop_mem t ts

theorem mergeBuggyLoop_swf (cur : TimeRange) (rest : List TimeRange) (hs : SortedS (cur :: rest))
    (hne : ∀ t ∈ cur :: rest, t.s < t.e) : SWF (mergeBuggyLoop cur rest) := by
  fun_induction mergeBuggyLoop cur rest <;> grind [SWF, SortedS, mergeBuggyLoop_mem]

theorem mergeFixedLoop_swf (cur : TimeRange) (rest : List TimeRange) (hs : SortedS (cur :: rest))
    (hne : ∀ t ∈ cur :: rest, t.s < t.e) : SWF (mergeFixedLoop cur rest) := by
  fun_induction mergeFixedLoop cur rest <;> grind [SWF, SortedS, mergeFixedLoop_mem]

theorem mergeBuggy_swf (l : List TimeRange) (hs : SortedS l) (hne : ∀ t ∈ l, t.s < t.e) :
    SWF (mergeBuggy l) := by
  cases l with
  | nil => trivial
  | cons t ts => exact mergeBuggyLoop_swf t ts hs hne

theorem mergeFixed_swf (l : List TimeRange) (hs : SortedS l) (hne : ∀ t ∈ l, t.s < t.e) :
    SWF (mergeFixed l) := by
  cases l with
  | nil => trivial
  | cons t ts => exact mergeFixedLoop_swf t ts hs hne

/-- minute `m` is covered by some range of the list -/
def CoveredBy (l : List TimeRange) (m : Nat) : Prop := ∃ t ∈ l, t.s ≤ m ∧ m < t.e

instance (l : List TimeRange) (m : Nat) : Decidable (CoveredBy l m) :=
  inferInstanceAs (Decidable (∃ t ∈ l, t.s ≤ m ∧ m < t.e))

theorem coveredBy_nil (m : Nat) : CoveredBy [] m ↔ False := by simp [CoveredBy]

theorem coveredBy_cons (t : TimeRange) (ts : List TimeRange) (m : Nat) :
    CoveredBy (t :: ts) m ↔ (t.s ≤ m ∧ m < t.e) ∨ CoveredBy ts m := by
  simp [CoveredBy]

theorem mergeFixedLoop_covers (cur : TimeRange) (rest : List TimeRange) (hs : SortedS (cur :: rest))
    (m : Nat) : CoveredBy (mergeFixedLoop cur rest) m ↔ CoveredBy (cur :: rest) m := by
  fun_induction mergeFixedLoop cur rest <;> simp only [coveredBy_cons, SortedS, List.mem_cons] at * <;> grind

theorem mergeFixed_covers (l : List TimeRange) (hs : SortedS l) (m : Nat) :
    CoveredBy (mergeFixed l) m ↔ CoveredBy l m := by
  cases l with
  | nil => rfl
  | cons t ts => exact mergeFixedLoop_covers t ts hs m

theorem mergeBuggyLoop_sound (cur : TimeRange) (rest : List TimeRange) (hs : SortedS (cur :: rest))
    (m : Nat) : CoveredBy (mergeBuggyLoop cur rest) m → CoveredBy (cur :: rest) m := by
  fun_induction mergeBuggyLoop cur rest <;> simp only [coveredBy_cons, SortedS, List.mem_cons] at * <;> grind

/-- the code as written never invents coverage -/
theorem mergeBuggy_sound (l : List TimeRange) (hs : SortedS l) (m : Nat) :
    CoveredBy (mergeBuggy l) m → CoveredBy l m := by
  cases l with
  | nil => exact id
  | cons t ts => exact mergeBuggyLoop_sound t ts hs m

/-- the `(start, end)` pair of a range -/
def shape (t : TimeRange) : Nat × Nat := (t.s, t.e)

theorem mergeBuggyLoop_eq_fixed (cur : TimeRange) (rest : List TimeRange)
    (h : mergeOKLoop (shape cur) (rest.map shape) = true) :
    mergeBuggyLoop cur rest = mergeFixedLoop cur rest := by
  fun_induction mergeBuggyLoop cur rest with
  | case1 cur => simp [mergeFixedLoop]
  | case2 cur u rest hc ih =>
    simp only [List.map_cons, shape] at h ih
    unfold mergeOKLoop at h
    simp only [hc, if_true, Bool.and_eq_true, decide_eq_true_eq] at h
    unfold mergeFixedLoop
    simp only [hc, if_true]
    rw [Nat.max_eq_right h.1]
    exact ih h.2
  | case3 cur u rest hc ih =>
    simp only [List.map_cons, shape] at h ih
    unfold mergeOKLoop at h
    simp only [hc, if_false] at h
    unfold mergeFixedLoop
    simp only [hc, if_false]
    rw [ih h]

theorem mergeBuggy_eq_fixed (l : List TimeRange) (h : mergeOK (l.map shape) = true) :
    mergeBuggy l = mergeFixed l := by
  cases l with
  | nil => rfl
  | cons t ts => exact mergeBuggyLoop_eq_fixed t ts h

theorem shape_sortInsert (x : TimeRange) (l : List TimeRange) :
    (sortInsert x l).map shape = sortPairInsert (shape x) (l.map shape) := by
  fun_induction sortInsert x l <;> simp_all [sortPairInsert, shape] <;> omega

theorem shape_sortByStart (l : List TimeRange) :
    (sortByStart l).map shape = sortPairs (l.map shape) := by
  fun_induction sortByStart l <;> simp_all [sortPairs, shape_sortInsert]

theorem shape_mkRanges (rs : List (Nat × Nat)) (k : Kind) (c : List String) :
    (mkRanges rs k c).map shape = rs.filter (fun r => r.1 < r.2) := by
  simp [mkRanges, shape, Function.comp_def]

theorem mergeOK_of_fromRangesOK (rs : List (Nat × Nat)) (k : Kind) (c : List String)
    (h : FromRangesOK rs) : mergeOK ((sortByStart (mkRanges rs k c)).map shape) = true := by
  rw [shape_sortByStart, shape_mkRanges]; exact h

theorem mergeBuggy_kind (k : Kind) (l : List TimeRange) (h : ∀ t ∈ l, t.kind = k) :
    ∀ x ∈ mergeBuggy l, x.kind = k := by
  intro x hx; obtain ⟨_, _, y, hy, e⟩ := mergeBuggy_mem l x hx; rw [e]; exact h y hy

theorem mergeFixed_kind (k : Kind) (l : List TimeRange) (h : ∀ t ∈ l, t.kind = k) :
    ∀ x ∈ mergeFixed l, x.kind = k := by
  intro x hx; obtain ⟨_, _, y, hy, e⟩ := mergeFixed_mem l x hx; rw [e]; exact h y hy

theorem mergeBuggyLoop_comments (c : List String) (hc : cunion c c = c) (cur : TimeRange)
    (rest : List TimeRange) (h : ∀ t ∈ cur :: rest, t.comments = c) :
    ∀ x ∈ mergeBuggyLoop cur rest, x.comments = c := by
  fun_induction mergeBuggyLoop cur rest <;> grind

theorem mergeFixedLoop_comments (c : List String) (hc : cunion c c = c) (cur : TimeRange)
    (rest : List TimeRange) (h : ∀ t ∈ cur :: rest, t.comments = c) :
    ∀ x ∈ mergeFixedLoop cur rest, x.comments = c := by
  fun_induction mergeFixedLoop cur rest <;> grind

theorem mergeBuggy_comments (c : List String) (hc : cunion c c = c) (l : List TimeRange)
    (h : ∀ t ∈ l, t.comments = c) : ∀ x ∈ mergeBuggy l, x.comments = c := by
  cases l with
  | nil => simp [mergeBuggy]
  | cons t ts => exact mergeBuggyLoop_comments c hc t ts h

theorem mergeFixed_comments (c : List String) (hc : cunion c c = c) (l : List TimeRange)
    (h : ∀ t ∈ l, t.comments = c) : ∀ x ∈ mergeFixed l, x.comments = c := by
  cases l with
  | nil => simp [mergeFixed]
  | cons t ts => exact mergeFixedLoop_comments c hc t ts h

/-- state of a list whose ranges all have kind `k` -/
theorem stateAt_uniform (k : Kind) (l : Schedule) (h : ∀ t ∈ l, t.kind = k) (m : Nat) :
    stateAt l m = if CoveredBy l m then some k else none := by
  induction l with
  | nil => simp [stateAt, coveredBy_nil]
  | cons t ts ih =>
    simp only [stateAt, coveredBy_cons]
    have := ih (fun u hu => h u (by simp [hu]))
    have := h t (by simp)
    grind

theorem coveredBy_sorted_mkRanges (rs : List (Nat × Nat)) (k : Kind) (c : List String) (m : Nat) :
    CoveredBy (sortByStart (mkRanges rs k c)) m ↔ InRanges rs m := by
  unfold CoveredBy InRanges
  constructor
  · rintro ⟨t, ht, h⟩
    rw [mem_sortByStart, mem_mkRanges] at ht
    obtain ⟨r, hr, _, rfl⟩ := ht
    exact ⟨r, hr, h⟩
  · rintro ⟨r, hr, h⟩
    exact ⟨⟨r.1, r.2, k, c⟩, by rw [mem_sortByStart, mem_mkRanges]; exact ⟨r, hr, by omega, rfl⟩, h⟩

/-! ### plain pairs: `NoNesting → FromRangesOK`, and `ranges_union` -/

def SortedP : List (Nat × Nat) → Prop
  | [] => True
  | t :: ts => (∀ u ∈ ts, t.1 ≤ u.1) ∧ SortedP ts

/-- ends are non-decreasing -/
def MonoE : List (Nat × Nat) → Prop
  | [] => True
  | t :: ts => (∀ u ∈ ts, t.2 ≤ u.2) ∧ MonoE ts

theorem mem_sortPairInsert (x u : Nat × Nat) (l : List (Nat × Nat)) :
    u ∈ sortPairInsert x l ↔ u = x ∨ u ∈ l := by
  fun_induction sortPairInsert x l <;> grind

theorem mem_sortPairs (u : Nat × Nat) (l : List (Nat × Nat)) : u ∈ sortPairs l ↔ u ∈ l := by
  fun_induction sortPairs l <;> grind [mem_sortPairInsert]

theorem sortedP_sortPairInsert (x : Nat × Nat) (l : List (Nat × Nat)) (h : SortedP l) :
    SortedP (sortPairInsert x l) := by
  fun_induction sortPairInsert x l <;> grind [SortedP, mem_sortPairInsert]

theorem sortedP_sortPairs (l : List (Nat × Nat)) : SortedP (sortPairs l) := by
  fun_induction sortPairs l <;> grind [SortedP, sortedP_sortPairInsert]

theorem monoE_of_sorted (l : List (Nat × Nat)) (hs : SortedP l)
    (hn : ∀ a ∈ l, ∀ b ∈ l, a.1 ≤ b.1 → a.2 ≤ b.2) : MonoE l := by
  induction l with
  | nil => trivial
  | cons t ts ih =>
    simp only [SortedP, MonoE] at *
    refine ⟨fun u hu => hn t (by simp) u (by simp [hu]) (hs.1 u hu), ih hs.2 ?_⟩
    intro a ha b hb; exact hn a (by simp [ha]) b (by simp [hb])

theorem mergeOKLoop_of_mono (cur : Nat × Nat) (rest : List (Nat × Nat)) (hs : SortedP (cur :: rest))
    (hm : MonoE (cur :: rest)) : mergeOKLoop cur rest = true := by
  fun_induction mergeOKLoop cur rest <;> grind [SortedP, MonoE]

theorem mergeOK_of_mono (l : List (Nat × Nat)) (hs : SortedP l) (hm : MonoE l) : mergeOK l = true := by
  cases l with
  | nil => rfl
  | cons t ts => exact mergeOKLoop_of_mono t ts hs hm

theorem fromRangesOK_of_noNesting (rs : List (Nat × Nat)) (h : NoNesting rs) : FromRangesOK rs := by
  unfold FromRangesOK
  apply mergeOK_of_mono _ (sortedP_sortPairs _)
  apply monoE_of_sorted _ (sortedP_sortPairs _)
  intro a ha b hb hab
  rw [mem_sortPairs, List.mem_filter, decide_eq_true_eq] at ha hb
  exact h a ha.1 b hb.1 ha.2 hb.2 hab

/-- minute `m` is covered by some pair of the list -/
def PCov (l : List (Nat × Nat)) (m : Nat) : Prop := ∃ r ∈ l, r.1 ≤ m ∧ m < r.2

theorem pcov_cons (t : Nat × Nat) (ts : List (Nat × Nat)) (m : Nat) :
    PCov (t :: ts) m ↔ (t.1 ≤ m ∧ m < t.2) ∨ PCov ts m := by
  simp [PCov]

theorem rangesUnionLoop_covers (cur : Nat × Nat) (rest : List (Nat × Nat))
    (hs : SortedP (cur :: rest)) (m : Nat) :
    PCov (rangesUnionLoop cur rest) m ↔ PCov (cur :: rest) m := by
  fun_induction rangesUnionLoop cur rest <;>
    simp only [pcov_cons, SortedP, List.mem_cons] at * <;> grind [PCov]

/-- non-empty, increasing, strictly separated pairs -/
def PWF : List (Nat × Nat) → Prop
  | [] => True
  | t :: ts => t.1 < t.2 ∧ (∀ u ∈ ts, t.2 < u.1) ∧ PWF ts

theorem rangesUnionLoop_mem (cur : Nat × Nat) (rest : List (Nat × Nat)) :
    ∀ x ∈ rangesUnionLoop cur rest, ∃ y ∈ cur :: rest, x.1 = y.1 := by
  fun_induction rangesUnionLoop cur rest <;> grind

theorem rangesUnionLoop_pwf (cur : Nat × Nat) (rest : List (Nat × Nat))
    (hs : SortedP (cur :: rest)) (hne : ∀ r ∈ cur :: rest, r.1 < r.2) :
    PWF (rangesUnionLoop cur rest) := by
  fun_induction rangesUnionLoop cur rest <;> grind [PWF, SortedP, rangesUnionLoop_mem]

end OH.Proofs.Schedule
