import OH.Generated.Arith
import OH.Proofs.ArithSched
import OH.Proofs.ArithIterNext
/-
Helper definitions and lemmas of `OH/Props/ArithC02IterNew.lean` (rs2lean, seventh increment, tag `iter`, third part): the
values of the named parameters of the generated `TimeDomainIterator::new` and the `while` loop that skips the ranges which
do not contain the start time (a structural walk over the list: fuel `length + 1` suffices).  The translator generates the
continuation of the falling-through `if` in both branches, hence two copies of the loop (`loop1`, `loop2`).
-/
namespace OH.Proofs.ArithIterNew
open OH.Model OH.Model.RustInt OH.Generated.Arith OH.Generated.Arith.Localize
open OH.Proofs.ArithSched OH.Proofs.ArithIter OH.Proofs.ArithIterNext

/-- `<ExtendedTime as From<NaiveTime>>::from` on nanosecond / minute counts: hour and minute, seconds dropped -/
def intoExtendedTime (ns : Int) : Nat := (ns / nsPerMin).toNat

/-- `opening_hours.schedule_at(d).into_iter().peekable()` as the model computes it (`env.sched d`) -/
def dayScheduleOf (env : Env) (d : Int) : R (List GTR) :=
  match env.sched d with
  | .ok l => .ok (l.map ofM)
  | .error p => .error (panicNext p)

/-- an outcome of the model's `itNew` as an outcome of the generated `new` -/
def liftNew (env : Env) (stop : Int) : M ItState → R GState
  | .ok st => .ok ⟨env, st.date, st.sched.map ofM, stop⟩
  | .error p => .error (panicNext p)

/-- the loop condition on generated ranges -/
def skipG (tm : Nat) (tr : GTR) : Bool := !(decide (tr.range.start ≤ tm) && decide (tm < tr.range.«end»))

theorem loop1_spec (tm : Nat) (l : List GTR) : ∀ (fuel : Nat), l.length + 1 ≤ fuel →
    TimeDomainIterator.new.loop1 (OH := Env) fuel tm l = .ok (.next (l.dropWhile (skipG tm))) := by
  induction l with
  | nil =>
    intro fuel h
    cases fuel with
    | zero => omega
    | succ n => unfold TimeDomainIterator.new.loop1; rfl
  | cons a t ih =>
    intro fuel h
    cases fuel with
    | zero => omega
    | succ n =>
      unfold TimeDomainIterator.new.loop1
      simp only [List.head?_cons, Option.map_some, Option.getD_some, List.tail_cons, List.dropWhile_cons]
      have hn : t.length + 1 ≤ n := by simp only [List.length_cons] at h; omega
      cases hc : skipG tm a
      · have hc' : (!(decide (a.range.start ≤ tm) && decide (tm < a.range.«end»))) = false := hc
        simp [hc']
      · have hc' : (!(decide (a.range.start ≤ tm) && decide (tm < a.range.«end»))) = true := hc
        simp [hc', ih n hn]

theorem loop2_spec (tm : Nat) (l : List GTR) : ∀ (fuel : Nat), l.length + 1 ≤ fuel →
    TimeDomainIterator.new.loop2 (OH := Env) fuel tm l = .ok (.next (l.dropWhile (skipG tm))) := by
  induction l with
  | nil =>
    intro fuel h
    cases fuel with
    | zero => omega
    | succ n => unfold TimeDomainIterator.new.loop2; rfl
  | cons a t ih =>
    intro fuel h
    cases fuel with
    | zero => omega
    | succ n =>
      unfold TimeDomainIterator.new.loop2
      simp only [List.head?_cons, Option.map_some, Option.getD_some, List.tail_cons, List.dropWhile_cons]
      have hn : t.length + 1 ≤ n := by simp only [List.length_cons] at h; omega
      cases hc : skipG tm a
      · have hc' : (!(decide (a.range.start ≤ tm) && decide (tm < a.range.«end»))) = false := hc
        simp [hc']
      · have hc' : (!(decide (a.range.start ≤ tm) && decide (tm < a.range.«end»))) = true := hc
        simp [hc', ih n hn]

theorem dropWhile_ofM (tm : Nat) (l : List OH.Model.TimeRange) :
    (l.map ofM).dropWhile (skipG tm) = (l.dropWhile (fun tr => !(tr.s ≤ tm && tm < tr.e))).map ofM := by
  induction l with
  | nil => rfl
  | cons a t ih =>
    simp only [List.map_cons, List.dropWhile_cons]
    have e : skipG tm (ofM a) = !(decide (a.s ≤ tm) && decide (tm < a.e)) := rfl
    rw [e]
    cases hc : (!(decide (a.s ≤ tm) && decide (tm < a.e)))
    · simp
    · simp [ih]

end OH.Proofs.ArithIterNew
