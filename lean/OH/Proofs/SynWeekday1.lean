import OH.Proofs.SynNum
/-
Weekday selector, part 1: comma-separated lists in general (`Print.selector` against
`g ~ ("," ~ g)*`), the rule `wday`, and the nth entries between brackets: the printed numbers,
replayed by `nthLoop`/`setNth` from all-false, rebuild the two arrays.
-/
namespace OH.Proofs.Syn
open OH.Model OH.Model.Peg OH.Model.Parser OH.Generated.Grammar

/-! ### comma-separated lists -/

/-- `,x₁,x₂…`: what `Print.selector` writes after its first element -/
def tailStr {α} (f : α → List Char) (xs : List α) : List Char := xs.flatMap fun y => ',' :: f y

@[simp] theorem tailStr_nil {α} (f : α → List Char) : tailStr f [] = [] := rfl

theorem tailStr_cons {α} (f : α → List Char) (x : α) (xs : List α) :
    tailStr f (x :: xs) = ',' :: f x ++ tailStr f xs := by
  simp [tailStr]

theorem tailStr_append {α} (f : α → List Char) (xs ys : List α) :
    tailStr f (xs ++ ys) = tailStr f xs ++ tailStr f ys := by
  simp [tailStr]

theorem selector_cons {α} (f : α → List Char) (x : α) (xs : List α) :
    Print.selector f (x :: xs) = f x ++ tailStr f xs := by
  induction xs generalizing x with
  | nil => simp [Print.selector]
  | cons y ys ih => simp [Print.selector, tailStr_cons, ih y]

theorem selector_congr {α} (f g : α → List Char) (xs : List α) (h : ∀ x ∈ xs, f x = g x) :
    Print.selector f xs = Print.selector g xs := by
  have ht : ∀ ys : List α, (∀ y ∈ ys, f y = g y) → tailStr f ys = tailStr g ys := by
    intro ys
    induction ys with
    | nil => intro _; rfl
    | cons y ys ih =>
      intro hy
      rw [tailStr_cons, tailStr_cons, hy y (by simp), ih (fun z hz => hy z (by simp [hz]))]
  cases xs with
  | nil => rfl
  | cons x xs =>
    rw [selector_cons, selector_cons, h x (by simp), ht xs (fun y hy => h y (by simp [hy]))]

theorem selector_map {α β} (f : β → List Char) (g : α → β) (xs : List α) :
    Print.selector f (xs.map g) = Print.selector (fun x => f (g x)) xs := by
  cases xs with
  | nil => rfl
  | cons x xs => simp [selector_cons, tailStr, List.flatMap_map]

/-- element-wise relation between two lists (core has no `Forall₂`) -/
inductive All₂ {α β} (R : α → β → Prop) : List α → List β → Prop
  | nil : All₂ R [] []
  | cons {a b as bs} : R a b → All₂ R as bs → All₂ R (a :: as) (b :: bs)

/-- `("," ~ g)*` reads `,x₁,x₂…` back, one pair per element; `Rel` relates each element to its pair.
`Fi` is the follow condition of one element (it must accept a comma), `hstop` says that the
repetition stops at `rest`. -/
theorem run_comma_star {α} (g : G) (f : α → List Char) (Rel : α → T → Prop) (ok : α → Prop)
    (Fi : List Char → Prop)
    (hitem : ∀ x rest, ok x → Fi rest →
      ∃ t, run g false (f x ++ rest) = some ⟨[t], f x, rest⟩ ∧ Rel x t)
    (hcomma : ∀ r, Fi (',' :: r))
    (xs : List α) (hxs : ∀ x ∈ xs, ok x) (rest : List Char) (hFi : Fi rest)
    (hstop : run (.seq (.str [',']) g) false rest = none) :
    ∃ ts, run (.star (.seq (.str [',']) g)) false (tailStr f xs ++ rest)
        = some ⟨ts, tailStr f xs, rest⟩ ∧ All₂ Rel xs ts := by
  induction xs with
  | nil => exact ⟨[], by simpa [R.nil] using run_star_none hstop, .nil⟩
  | cons x xs ih =>
    obtain ⟨ts, hts, hrel⟩ := ih (fun y hy => hxs y (by simp [hy]))
    have hFi' : Fi (tailStr f xs ++ rest) := by
      cases xs with
      | nil => simpa using hFi
      | cons y ys => rw [tailStr_cons]; exact hcomma _
    obtain ⟨t, ht, hr⟩ := hitem x _ (hxs x (by simp)) hFi'
    have h1 : run (.seq (.str [',']) g) false (tailStr f (x :: xs) ++ rest)
        = some ⟨[t], ',' :: f x, tailStr f xs ++ rest⟩ := by
      simp [tailStr_cons, peg, ht]
    have := run_star_some h1 (by simp) hts
    exact ⟨t :: ts, by simpa [R.append, tailStr_cons] using this, .cons hr hrel⟩

/-- `g ~ ("," ~ g)*` on a printed non-empty list -/
theorem run_comma_list {α} (g : G) (f : α → List Char) (Rel : α → T → Prop) (ok : α → Prop)
    (Fi : List Char → Prop)
    (hitem : ∀ x rest, ok x → Fi rest →
      ∃ t, run g false (f x ++ rest) = some ⟨[t], f x, rest⟩ ∧ Rel x t)
    (hcomma : ∀ r, Fi (',' :: r))
    (x : α) (xs : List α) (hxs : ∀ y ∈ x :: xs, ok y) (rest : List Char) (hFi : Fi rest)
    (hstop : run (.seq (.str [',']) g) false rest = none) :
    ∃ ts, run (.seq g (.star (.seq (.str [',']) g))) false (Print.selector f (x :: xs) ++ rest)
        = some ⟨ts, Print.selector f (x :: xs), rest⟩ ∧ All₂ Rel (x :: xs) ts := by
  obtain ⟨ts, hts, hrel⟩ := run_comma_star g f Rel ok Fi hitem hcomma xs
    (fun y hy => hxs y (by simp [hy])) rest hFi hstop
  have hFi' : Fi (tailStr f xs ++ rest) := by
    cases xs with
    | nil => simpa using hFi
    | cons y ys => rw [tailStr_cons]; exact hcomma _
  obtain ⟨t, ht, hr⟩ := hitem x _ (hxs x (by simp)) hFi'
  refine ⟨t :: ts, ?_, .cons hr hrel⟩
  rw [selector_cons, List.append_assoc]
  simp [peg, ht, hts]

theorem mapM_of_forall₂ {α} (build : T → PM α) {xs : List α} {ts : List T}
    (h : All₂ (fun x t => build t = .ok x) xs ts) : ts.mapM build = .ok xs := by
  induction h with
  | nil => rfl
  | cons h _ ih => simp [List.mapM_cons, h, ih, bind, Except.bind, pure, Except.pure]

theorem map_of_forall₂ {α} (tr : α → T) {xs : List α} {ts : List T}
    (h : All₂ (fun x t => t = tr x) xs ts) : ts = xs.map tr := by
  induction h with
  | nil => rfl
  | cons h _ ih => simp [h, ih]

/-! ### `wday` -/

def wdayRule : Nat → PRule
  | 0 => .monday | 1 => .tuesday | 2 => .wednesday | 3 => .thursday
  | 4 => .friday | 5 => .saturday | _ => .sunday

def wdayTree (d : Nat) : T := .node .wday (Print.wdayStr d) [.node (wdayRule d) (Print.wdayStr d) []]

theorem le6_cases {d : Nat} (h : d ≤ 6) : d = 0 ∨ d = 1 ∨ d = 2 ∨ d = 3 ∨ d = 4 ∨ d = 5 ∨ d = 6 := by
  omega

theorem run_wday (d : Nat) (hd : d ≤ 6) (rest : List Char) :
    run g_wday false (Print.wdayStr d ++ rest) = some ⟨[wdayTree d], Print.wdayStr d, rest⟩ := by
  rcases le6_cases hd with h | h | h | h | h | h | h <;> subst h <;>
    simp [g_wday, g_sunday, g_monday, g_tuesday, g_wednesday, g_thursday, g_friday, g_saturday, peg,
      Print.wdayStr, Print.str, wdayTree, wdayRule]

theorem build_wday (d : Nat) (hd : d ≤ 6) : buildWday (wdayTree d) = .ok d := by
  rcases le6_cases hd with h | h | h | h | h | h | h <;> subst h <;>
    simp [buildWday, wdayTree, wdayRule, assertRule, Tree.rule, Tree.kids, bind, Except.bind]

/-- a character that starts neither a weekday nor a holiday -/
def NoWdStart (c : Char) : Prop :=
  c ≠ 'S' ∧ c ≠ 'M' ∧ c ≠ 'T' ∧ c ≠ 'W' ∧ c ≠ 'F' ∧ c ≠ 'P'

instance (c : Char) : Decidable (NoWdStart c) := by unfold NoWdStart; infer_instance

/-- input on which neither `wday` nor `holiday` can start -/
def NoWd (inp : List Char) : Prop := inp = [] ∨ ∃ c r, inp = c :: r ∧ NoWdStart c

theorem run_wday_none (q : Bool) (inp : List Char) (h : NoWd inp) : run g_wday q inp = none := by
  rcases h with rfl | ⟨c, r, rfl, h1, h2, h3, h4, h5, h6⟩
  · simp [g_wday, g_sunday, g_monday, g_tuesday, g_wednesday, g_thursday, g_friday, g_saturday, peg]
  · simp [g_wday, g_sunday, g_monday, g_tuesday, g_wednesday, g_thursday, g_friday, g_saturday, peg,
      Ne.symm h1, Ne.symm h2, Ne.symm h3, Ne.symm h4, Ne.symm h5]

/-- `wday` does not match a printed holiday -/
theorem run_wday_holiday (q : Bool) (c : Char) (r : List Char) (hc : c = 'P' ∨ c = 'S') :
    run g_wday q (c :: 'H' :: r) = none := by
  rcases hc with rfl | rfl <;>
    simp [g_wday, g_sunday, g_monday, g_tuesday, g_wednesday, g_thursday, g_friday, g_saturday, peg]

/-! ### nth entries: strings -/

/-- the entries printed between brackets: `(false, k)` is written `k`, `(true, k)` is written `-k` -/
def nthEntries (ns ne : List Bool) : List (Bool × Nat) :=
  ((List.range ns.length).filter (fun i => ns.getD i false)).map (fun i => (false, i + 1))
    ++ ((List.range ne.length).filter (fun i => ne.getD i false)).map (fun i => (true, i + 1))

def entryInt : Bool × Nat → Int
  | (false, k) => (k : Int)
  | (true, k) => -(k : Int)

def entryStr : Bool × Nat → List Char
  | (false, k) => [dc k]
  | (true, k) => ['-', dc k]

def entryTree : Bool × Nat → T
  | (false, k) => .node .nth_entry [dc k] [.node .nth [dc k] []]
  | (true, k) => .node .nth_entry ['-', dc k] [.node .nth_minus ['-'] [], .node .nth [dc k] []]

def EntryOk (e : Bool × Nat) : Prop := 1 ≤ e.2 ∧ e.2 ≤ 5

theorem nthNumbers_eq (ns ne : List Bool) :
    Print.nthNumbers ns ne = (nthEntries ns ne).map entryInt := by
  have h : (fun i : Nat => -((i : Nat) : Int) - 1) = fun i => entryInt (true, i + 1) := by
    funext i; simp [entryInt]; omega
  simp [Print.nthNumbers, nthEntries, List.map_map, Function.comp_def, h, entryInt]

theorem nthEntries_ok (ns ne : List Bool) (hs : ns.length = 5) (he : ne.length = 5) :
    ∀ e ∈ nthEntries ns ne, EntryOk e := by
  intro e h
  simp only [nthEntries, List.mem_append, List.mem_map, List.mem_filter, List.mem_range, hs, he] at h
  rcases h with ⟨i, ⟨hi, _⟩, rfl⟩ | ⟨i, ⟨hi, _⟩, rfl⟩ <;> (simp [EntryOk]; omega)

theorem intStr_entry (e : Bool × Nat) (h : EntryOk e) : Print.intStr (entryInt e) = entryStr e := by
  obtain ⟨b, k⟩ := e
  simp only [EntryOk] at h
  cases b
  · have : ¬ ((k : Int) < 0) := by omega
    simp [entryInt, entryStr, Print.intStr, this, natStr_lt10 k (by omega)]
  · have hk : k ≠ 0 := by omega
    simp [entryInt, entryStr, Print.intStr, hk, natStr_lt10 k (by omega)]

/-- the bracket contents as printed, in terms of entries -/
theorem selector_nthNumbers (ns ne : List Bool) (hs : ns.length = 5) (he : ne.length = 5) :
    Print.selector Print.intStr (Print.nthNumbers ns ne)
      = Print.selector entryStr (nthEntries ns ne) := by
  rw [nthNumbers_eq, selector_map]
  exact selector_congr _ _ _ fun e h => intStr_entry e (nthEntries_ok ns ne hs he e h)

theorem dc_15 : ∀ k, k < 6 → 1 ≤ k → ('1' ≤ dc k ∧ dc k ≤ '5') ∧ '-' ≠ dc k := by decide

theorem run_nth_entry (e : Bool × Nat) (h : EntryOk e) (rest : List Char)
    (hr : ∀ r, rest ≠ '-' :: r) :
    run g_nth_entry false (entryStr e ++ rest) = some ⟨[entryTree e], entryStr e, rest⟩ := by
  obtain ⟨b, k⟩ := e
  simp only [EntryOk] at h
  obtain ⟨h15, hm⟩ := dc_15 k (by omega) h.1
  cases b
  · cases rest with
    | nil => simp [g_nth_entry, g_nth, g_nth_minus, peg, entryStr, entryTree, h15, hm]
    | cons c r =>
      have : '-' ≠ c := by intro hc; subst hc; exact hr r rfl
      simp [g_nth_entry, g_nth, g_nth_minus, peg, entryStr, entryTree, h15, hm, this]
  · simp [g_nth_entry, g_nth, g_nth_minus, peg, entryStr, entryTree, h15]

/-- `nth_entry ~ ("," ~ nth_entry)*` up to the closing bracket -/
theorem run_nth_list (es : List (Bool × Nat)) (hne : es ≠ []) (hv : ∀ e ∈ es, EntryOk e)
    (r : List Char) :
    run (.seq g_nth_entry (.star (.seq (.str [',']) g_nth_entry))) false
        (Print.selector entryStr es ++ ']' :: r)
      = some ⟨es.map entryTree, Print.selector entryStr es, ']' :: r⟩ := by
  cases es with
  | nil => exact absurd rfl hne
  | cons x xs =>
    obtain ⟨ts, hts, hrel⟩ := run_comma_list g_nth_entry entryStr (fun e t => t = entryTree e) EntryOk
      (fun rest => ∀ r, rest ≠ '-' :: r)
      (fun e rest he hr => ⟨_, run_nth_entry e he rest hr, rfl⟩)
      (fun r r' => by simp) x xs hv (']' :: r) (fun r' => by simp)
      (by simp [peg])
    rw [hts, map_of_forall₂ entryTree hrel]

/-! ### nth entries: replaying them rebuilds the arrays -/

/-- `setNth arr k k` -/
def setOne (arr : List Bool) (k : Nat) : List Bool :=
  (List.range 5).map fun i => arr.getD i false || (k ≤ i + 1 && i + 1 ≤ k)

def replay : List (Bool × Nat) → List Bool → List Bool → List Bool × List Bool
  | [], s, e => (s, e)
  | (false, k) :: es, s, e => replay es (setOne s k) e
  | (true, k) :: es, s, e => replay es s (setOne e k)

theorem setNth_one (arr : List Bool) (k : Nat) (h : 1 ≤ k ∧ k ≤ 5) :
    setNth arr k k = .ok (setOne arr k) := by
  have h0 : k ≠ 0 := by omega
  have h5 : ¬ k > 5 := by omega
  simp [setNth, setOne, h0, h5]

theorem natOfDigits_dc : ∀ k, k < 10 → natOfDigits [dc k] = some k := by decide

theorem build_nth_entry (e : Bool × Nat) (h : EntryOk e) :
    buildNthEntry (entryTree e) = .ok (if e.1 then .neg else .pos, e.2, e.2) := by
  obtain ⟨b, k⟩ := e
  simp only [EntryOk] at h
  have hk : k < 256 := by omega
  cases b <;>
    simp [buildNthEntry, buildNth, entryTree, assertRule, Tree.rule, Tree.kids, Tree.text, parseBounded,
      natOfDigits_dc k (by omega), u8Bound, hk, bind, Except.bind]

theorem entryTree_rule (e : Bool × Nat) : (entryTree e).rule = .nth_entry := by
  obtain ⟨b, k⟩ := e
  cases b <;> rfl

theorem nthLoop_entries (es : List (Bool × Nat)) (hv : ∀ e ∈ es, EntryOk e) (tail : List T)
    (ht : ∀ t ∈ tail.head?, t.rule ≠ .nth_entry) (s e : List Bool) :
    nthLoop (es.map entryTree ++ tail) s e = .ok ((replay es s e).1, (replay es s e).2, tail) := by
  induction es generalizing s e with
  | nil =>
    cases tail with
    | nil => simp [nthLoop, replay]
    | cons t ts =>
      have : t.rule ≠ .nth_entry := ht t (by simp)
      simp [nthLoop, replay, this]
  | cons x xs ih =>
    have hx := hv x (by simp)
    have ih' := ih (fun y hy => hv y (by simp [hy]))
    obtain ⟨b, k⟩ := x
    cases b
    · simp [nthLoop, entryTree_rule, build_nth_entry _ hx, setNth_one _ k hx, ih', replay, bind,
        Except.bind]
    · simp [nthLoop, entryTree_rule, build_nth_entry _ hx, setNth_one _ k hx, ih', replay, bind,
        Except.bind]

/-- a list of five Booleans, explicitly -/
theorem len5 {l : List Bool} (h : l.length = 5) : ∃ a b c d e, l = [a, b, c, d, e] := by
  match l, h with
  | [a, b, c, d, e], _ => exact ⟨a, b, c, d, e, rfl⟩

/-- THE ARRAY STEP (finite: 2^10 pairs of arrays): replaying the printed entries from all-false
rebuilds both arrays; there is no entry exactly when no position is set -/
theorem replay_nthEntries_bits : ∀ a b c d e a' b' c' d' e' : Bool,
    replay (nthEntries [a, b, c, d, e] [a', b', c', d', e']) allFalse5 allFalse5
        = ([a, b, c, d, e], [a', b', c', d', e'])
      ∧ ((nthEntries [a, b, c, d, e] [a', b', c', d', e']).isEmpty
          = (![a, b, c, d, e].contains true && ![a', b', c', d', e'].contains true)) := by
  decide

theorem replay_nthEntries (ns ne : List Bool) (hs : ns.length = 5) (he : ne.length = 5) :
    replay (nthEntries ns ne) allFalse5 allFalse5 = (ns, ne)
      ∧ ((nthEntries ns ne).isEmpty = (!ns.contains true && !ne.contains true)) := by
  obtain ⟨a, b, c, d, e, rfl⟩ := len5 hs
  obtain ⟨a', b', c', d', e', rfl⟩ := len5 he
  exact replay_nthEntries_bits a b c d e a' b' c' d' e'

/-- five Booleans without a `false` -/
theorem allTrue_of_no_false (l : List Bool) (h : l.length = 5) (hf : l.contains false = false) :
    l = allTrue5 := by
  obtain ⟨a, b, c, d, e, rfl⟩ := len5 h
  revert a b c d e
  decide

end OH.Proofs.Syn
