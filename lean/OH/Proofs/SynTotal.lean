import OH.Proofs.SynTotalTime
import OH.Proofs.SynTotalWide
/-
Totality and range of the parser model (C04 parser part, C05 rejection clause):

  parse_never_panics : Parser.parseChars inp ≠ .error (.panic site)
  parse_ok_wf        : Parser.parseChars inp = .ok e → ParserWF e = true

for EVERY input.  Assembly of the per-rule lemmas (`SynTotalLex`, `SynTotalTime`, `SynTotalWeekday`,
`SynTotalWide`) through `small_range_selectors`, `selector_sequence`, `rules_modifier`,
`rule_sequence`, `opening_hours` and the entry rule.
-/
namespace OH.Proofs.SynTotal
open OH.Model OH.Model.Peg OH.Model.Parser OH.Generated.Grammar

theorem conf_small_range_selectors {k t} (h : Conf g_small_range_selectors false k t) :
    ∃ x, k = [x] ∧ Good .small_range_selectors buildSmallRangeSelectors
      (fun r => (∀ w ∈ r.1, w.wf = true) ∧ (∀ s ∈ r.2, s.wf = true)) x := by
  conf_unfoldk [g_small_range_selectors, g_space] at h
  conf_destruct [conf_weekday_selector, conf_time_selector]
  all_goals refine ⟨_, rfl, rfl, ?_⟩
  all_goals build_simp [buildSmallRangeSelectors, smallLoop, *]
  all_goals repeat safe_bind
  all_goals simp_all

/-- a day selector, a non-empty time selector, a comment -/
def SelSeq.wf (r : DaySelector × List TimeSpan × Option String) : Prop :=
  r.1.wf = true ∧ r.2.1 ≠ [] ∧ ∀ s ∈ r.2.1, s.wf = true

theorem fullDay_wf : TimeSpan.fullDay.wf = true := by decide

theorem timeSelectorNew_wf {l : List TimeSpan} (h : ∀ s ∈ l, s.wf = true) :
    timeSelectorNew l ≠ [] ∧ ∀ s ∈ timeSelectorNew l, s.wf = true := by
  unfold timeSelectorNew
  cases l with
  | nil => simp [fullDay_wf]
  | cons a l => simpa using h

theorem conf_selector_sequence {k t} (h : Conf g_selector_sequence false k t) :
    ∃ x, k = [x] ∧ Good .selector_sequence buildSelectorSequence SelSeq.wf x := by
  conf_unfoldk [g_selector_sequence, g_always_open] at h
  conf_destruct [conf_wide_range_selectors, conf_small_range_selectors]
  all_goals refine ⟨_, rfl, rfl, ?_⟩
  all_goals build_simp [buildSelectorSequence, *]
  all_goals repeat safe_bind
  · simp [SelSeq.wf, DaySelector.wf, fullDay_wf]
  · rename_i w hw
    have := timeSelectorNew_wf (l := []) (by simp)
    simp only [Wide.wf] at hw
    simp [SelSeq.wf, DaySelector.wf, List.all_eq_true, *]
    exact ⟨⟨⟨hw.1, hw.2.1⟩, hw.2.2⟩, this.2⟩
  · rename_i w hw r hr
    have := timeSelectorNew_wf hr.2
    simp only [Wide.wf] at hw
    simp [SelSeq.wf, DaySelector.wf, List.all_eq_true, *]
    exact ⟨⟨⟨⟨hw.1, hw.2.1⟩, hw.2.2⟩, hr.1⟩, this.2⟩

theorem conf_rules_modifier {k t} (h : Conf g_rules_modifier false k t) :
    ∃ x, k = [x] ∧ Good .rules_modifier buildRulesModifier (fun _ => True) x := by
  conf_unfoldk [g_rules_modifier] at h
  conf_destruct [conf_comment, conf_rules_modifier_enum]
  all_goals refine ⟨_, rfl, rfl, ?_⟩
  all_goals build_simp [buildRulesModifier, *]
  all_goals repeat safe_bind
  all_goals simp

theorem conf_rule_sequence {k t} (h : Conf g_rule_sequence false k t) :
    ∃ x, k = [x] ∧ x.rule = .rule_sequence ∧
      ∀ op, Safe (fun r => r.wf = true ∧ r.op = op) (buildRuleSequence x op) := by
  conf_unfoldk [g_rule_sequence] at h
  conf_destruct [conf_selector_sequence, conf_rules_modifier]
  all_goals refine ⟨_, rfl, rfl, ?_⟩
  all_goals intro op
  all_goals build_simp [buildRuleSequence, *]
  all_goals repeat safe_bind
  all_goals simp only [SelSeq.wf] at *
  all_goals simp [Rule.wf, List.all_eq_true, *]
  all_goals exact (by assumption : _ ∧ _ ∧ _).2.2

abbrev SepGood := Good .any_rule_separator buildAnyRuleSeparator (fun _ => True)
def RuleSeqGood (x : T) : Prop :=
  x.rule = .rule_sequence ∧ ∀ op, Safe (fun r => r.wf = true ∧ r.op = op) (buildRuleSequence x op)

/-- the `while let Some(pair) = pairs.next()` loop on `(any_rule_separator ~ rule_sequence)*` -/
theorem loop_safe {k : List T} {t : List Char}
    (h : StarOf (.seq g_any_rule_separator g_rule_sequence) false k t) :
    Safe (fun l => ∀ r ∈ l, r.wf = true) (buildOpeningHoursLoop k) := by
  induction h with
  | nil => simp [buildOpeningHoursLoop]
  | cons h1 _ ih =>
    obtain ⟨k1, t1, k2, t2, hs, hr, rfl, -⟩ := h1
    obtain ⟨s, rfl, hsg⟩ := conf_any_rule_separator hs
    obtain ⟨q, rfl, hq⟩ := conf_rule_sequence hr
    simp only [List.cons_append, List.nil_append, buildOpeningHoursLoop, hsg.1]
    refine Safe.bind hsg.2 (fun op _ => ?_)
    refine Safe.bind (hq.2 op) (fun r hr => ?_)
    refine Safe.bind ih (fun rs hrs => ?_)
    simp only [Safe.ok_iff]
    intro x hx
    rcases List.mem_cons.mp hx with rfl | hx
    · exact hr.1
    · exact hrs x hx

theorem conf_opening_hours {k t} (h : Conf g_opening_hours false k t) :
    ∃ x, k = [x] ∧ Good .opening_hours buildOpeningHours (fun e => ParserWF e = true) x := by
  conf_unfoldk [g_opening_hours] at h
  conf_destruct [conf_rule_sequence]
  refine ⟨_, rfl, rfl, ?_⟩
  have hl := loop_safe ‹StarOf _ _ _ _›
  have hq1 : Tree.rule _ = PRule.rule_sequence := ‹_›
  have hq2 : ∀ op, Safe _ (buildRuleSequence _ op) := ‹_›
  build_simp_only [buildOpeningHours]
  rw [buildOpeningHoursLoop.eq_def]
  simp only [hq1]
  refine Safe.bind (hq2 .normal) (fun r hr => ?_)
  refine Safe.bind hl (fun rs hrs => ?_)
  simp only [Safe.ok_iff, ParserWF]
  simp [List.all_eq_true, hr.1, hr.2]
  exact hrs


/-- `input_opening_hours = _{ SOI ~ &ANY ~ opening_hours ~ EOI }`: the first pair is a conforming
`opening_hours` pair -/
theorem conf_entry {ks : List T} {t : List Char} (h : Conf entry false ks t) :
    ∃ x rest, ks = x :: rest ∧ Good .opening_hours buildOpeningHours (fun e => ParserWF e = true) x := by
  conf_unfoldk [entry, g_input_opening_hours] at h
  conf_destruct [conf_opening_hours]
  exact ⟨_, _, rfl, ‹_›, ‹_›⟩

/-- whatever the input, the outcome of the parser model is safe -/
theorem parseChars_safe (inp : List Char) : Safe (fun e => ParserWF e = true) (parseChars inp) := by
  unfold parseChars
  cases hp : parseWith entry inp with
  | none => simp
  | some ks =>
    obtain ⟨t, hc⟩ := parseWith_conf hp
    obtain ⟨x, rest, rfl, hx⟩ := conf_entry hc
    exact hx.2

/-- C04 (parser part): no input makes the parser panic -/
theorem parse_never_panics (inp : List Char) (site : String) :
    Parser.parseChars inp ≠ .error (.panic site) :=
  (parseChars_safe inp).1 site

/-- C05 (rejection clause): every accepted expression is within the ranges of `ParserWF` -/
theorem parse_ok_wf (inp : List Char) (e : Expr) (h : Parser.parseChars inp = .ok e) : ParserWF e = true :=
  (parseChars_safe inp).2 e h

/-- the same two facts for `parse : String → PM Expr` -/
theorem parse_string_never_panics (s : String) (site : String) : Parser.parse s ≠ .error (.panic site) :=
  parse_never_panics s.toList site

theorem parse_string_ok_wf (s : String) (e : Expr) (h : Parser.parse s = .ok e) : ParserWF e = true :=
  parse_ok_wf s.toList e h

end OH.Proofs.SynTotal
