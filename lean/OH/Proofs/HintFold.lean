import OH.Proofs.HintRules
/-
Layer B, part 3 (c)/(d) — the rule fold.

* `ruleSchedOf_immutable`: a rule whose time selector is made of `00:00-24:00` spans contributes a
  whole-day range of its kind on the days it matches, and nothing (or an empty schedule continued
  from yesterday: no spill) on the others.
* `fold_quiet`: on a day where every rule is in that situation or contributes nothing, `schedule_at`
  is uniform and its kind depends only on which rules match (`absFold`).
* `fold_const`: when `is_constant` holds, every day of the supported window is uniform of the kind of
  the last rule (part (d)).
-/
namespace OH.Model
open OH.Model.Cal OH.Spec.Schedule OH.Props.C14 OH.Proofs.Schedule

/-! ### whole-day rules -/

theorem spanOf_fullDay (ctx : Ctx) (d : Int) : spanOf ctx d TimeSpan.fullDay = (0, 1440) := rfl

theorem immutable_mem {ts : List TimeSpan} (h : isImmutableFullDay ts = true) : ∀ t ∈ ts, t = TimeSpan.fullDay := by
  intro t ht
  simp only [isImmutableFullDay, List.all_eq_true, beq_iff_eq] at h
  exact h t ht

theorem rangesUnion_nil : rangesUnion [] = [] := rfl

theorem fromRanges_nil (k : Kind) (c : List String) : Schedule.fromRanges [] k c = [] := rfl

/-- the part continued from yesterday is empty -/
theorem immutable_spill (ctx : Ctx) (ts : List TimeSpan) (h : isImmutableFullDay ts = true) (d : Int) :
    rangesUnion (((ts.map (spanOf ctx d)).filterMap (fun r => rangeIntersection r (1440, 2880))).map
      (fun r => (r.1 - 1440, r.2 - 1440))) = [] := by
  have : (ts.map (spanOf ctx d)).filterMap (fun r => rangeIntersection r (1440, 2880)) = [] := by
    rw [List.filterMap_eq_nil_iff]
    intro r hr
    rw [List.mem_map] at hr
    obtain ⟨t, ht, rfl⟩ := hr
    rw [immutable_mem h t ht, spanOf_fullDay]
    rfl
  rw [this]; rfl

/-- the part of today covers every minute -/
theorem immutable_today (ctx : Ctx) (ts : List TimeSpan) (h : isImmutableFullDay ts = true) (hne : ts ≠ []) (d : Int)
    (k : Kind) (c : List String) :
    UniK (Schedule.fromRanges (rangesUnion ((ts.map (spanOf ctx d)).filterMap (fun r => rangeIntersection r (0, 1440)))) k c)
      (some k) := by
  intro m hm
  rw [fromRanges_covers]
  unfold fromSpec
  rw [if_pos]
  unfold InRanges
  rw [rangesUnion_covers]
  obtain ⟨t, ht⟩ := List.exists_mem_of_ne_nil ts hne
  refine ⟨(0, 1440), ?_, by simp, hm⟩
  rw [List.mem_filterMap]
  refine ⟨(0, 1440), ?_, rfl⟩
  rw [List.mem_map]
  exact ⟨t, ht, by rw [immutable_mem h t ht, spanOf_fullDay]⟩

theorem addition_nil (a : Schedule) : Schedule.addition a [] = a := rfl

theorem ruleSchedOf_immutable (ctx : Ctx) (r : Rule) (d : Int) (t y : Bool) (h : isImmutableFullDay r.time = true)
    (hne : r.time ≠ []) :
    UniK ((ruleSchedOf ctx r d t y).getD []) (if t then some r.kind else none) := by
  unfold ruleSchedOf
  simp only [immutable_spill ctx r.time h (d - 1), fromRanges_nil, addition_nil]
  have := immutable_today ctx r.time h hne d r.kind r.comments
  cases t <;> cases y <;> simp only [Option.getD_some, Option.getD_none, if_true, Bool.false_eq_true, if_false]
  · exact uniK_nil
  · exact uniK_nil
  · exact this
  · exact this

theorem rule_time_ne {r : Rule} (hw : r.wf = true) : r.time ≠ [] := by
  simp only [Rule.wf, Bool.and_eq_true, Bool.not_eq_true', List.isEmpty_eq_false_iff] at hw
  exact hw.1.2

theorem is0024_immutable {ts : List TimeSpan} (h : is0024 ts = true) : isImmutableFullDay ts = true ∧ ts ≠ [] := by
  simp only [is0024, beq_iff_eq] at h
  subst h
  exact ⟨rfl, by simp⟩

/-! ### folding -/

theorem foldM'_append {σ α} (f : σ → α → M σ) (s : σ) (a b : List α) :
    foldM' f s (a ++ b) = (foldM' f s a >>= fun s' => foldM' f s' b) := by
  induction a generalizing s with
  | nil => rfl
  | cons x xs ih =>
    simp only [List.cons_append, foldM']
    cases f s x with
    | error e => rfl
    | ok s' => simp only [M.bind_ok]; exact ih s'

/-- the fold of `absStep` -/
def absFold (cm : Rule → Bool) (e : Expr) (pk : Option Kind) : Option Kind :=
  e.foldl (fun pk r => absStep r pk (cm r)) pk

/-- what a "quiet" rule is on day `D`: its filter value is `cm r`, and it contributes a uniform day
of its kind if it matches, a uniformly empty one otherwise -/
def QuietRule (ctx : Ctx) (D : Int) (cm : Rule → Bool) (r : Rule) : Prop :=
  ∃ ce, r.day.filter ctx D = .ok (cm r) ∧ ruleScheduleAt ctx r D = .ok ce ∧ GoodO ce
    ∧ UniK (ce.getD []) (if cm r then some r.kind else none)

theorem fold_quiet (ctx : Ctx) (D : Int) (cm : Rule → Bool) (e : Expr) (hq : ∀ r ∈ e, QuietRule ctx D cm r)
    (st : Bool × Option Schedule) (hs : GoodO st.2) (pk : Option Kind) (hu : UniK (st.2.getD []) pk) :
    ∃ st', foldM' (scheduleStep ctx D) st e = .ok st' ∧ GoodO st'.2 ∧ UniK (st'.2.getD []) (absFold cm e pk) := by
  induction e generalizing st pk with
  | nil => exact ⟨st, rfl, hs, hu⟩
  | cons r rs ih =>
    obtain ⟨ce, h1, h2, h3, h4⟩ := hq r (by simp)
    obtain ⟨m, hm⟩ := scheduleStep_eq ctx D r st.1 st.2 (cm r) ce h1 h2
    have hg := stepEval_good r st.2 (cm r) ce hs h3
    have hu' := stepEval_uni r st.2 ce (cm r) pk hs h3 hu h4
    obtain ⟨st', a, b, c⟩ := ih (fun x hx => hq x (by simp [hx])) (m, _) hg _ hu'
    refine ⟨st', ?_, b, c⟩
    simp only [foldM']
    rw [show st = (st.1, st.2) from rfl, hm]
    exact a

/-- a quiet day: `schedule_at` is uniform, of a kind that depends only on the rules' matches -/
theorem scheduleAt_quiet (ctx : Ctx) (e : Expr) (D : Int) (hD1 : dateStart ≤ D) (hD2 : D < dateEnd)
    (cm : Rule → Bool) (hq : ∀ r ∈ e, QuietRule ctx D cm r) :
    ∃ s, scheduleAt ctx e D = .ok s ∧ GoodS s ∧ DayKind s ((absFold cm e none).getD .closed) := by
  obtain ⟨st', a, b, c⟩ := fold_quiet ctx D cm e hq (false, none) (by intro s hs; cases hs) none uniK_nil
  unfold scheduleAt
  simp only [hD1, hD2, and_self, decide_true, Bool.not_true, Bool.false_eq_true, if_false, a, M.bind_ok]
  exact ⟨_, rfl, goodO_getD b, c.dayKind⟩

/-! ### part (d): `is_constant` -/

/-- what the rules after the tail are: whole-day rules of kind `k` with total filters -/
def SuffixRule (ctx : Ctx) (D : Int) (k : Kind) (r : Rule) : Prop :=
  is0024 r.time = true ∧ r.kind = k ∧ (∃ t, r.day.filter ctx D = .ok t) ∧ (∃ y, r.day.filter ctx (D - 1) = .ok y)

theorem fold_suffix (ctx : Ctx) (D : Int) (hD : minDay < D) (k : Kind) (suf : Expr) (hs : ∀ r ∈ suf, SuffixRule ctx D k r)
    (st : Bool × Option Schedule) (hg : GoodO st.2) (hk : DayKind (st.2.getD []) k) :
    ∃ st', foldM' (scheduleStep ctx D) st suf = .ok st' ∧ GoodO st'.2 ∧ DayKind (st'.2.getD []) k := by
  induction suf generalizing st with
  | nil => exact ⟨st, rfl, hg, hk⟩
  | cons r rs ih =>
    obtain ⟨h0, hkind, ⟨t, ht⟩, ⟨y, hy⟩⟩ := hs r (by simp)
    obtain ⟨him, hne⟩ := is0024_immutable h0
    have he := ruleScheduleAt_eq ctx r D hD t y ht hy
    obtain ⟨m, hm⟩ := scheduleStep_eq ctx D r st.1 st.2 t _ ht he
    have hce := ruleSchedOf_good ctx r D t y
    have hg' := stepEval_good r st.2 t _ hg hce
    have hu := ruleSchedOf_immutable ctx r D t y him hne
    rw [hkind] at hu
    have hk' := stepEval_dayKind_keep r st.2 _ t k hkind hg hce hk hu
    obtain ⟨st', a, b, c⟩ := ih (fun x hx => hs x (by simp [hx])) (m, _) hg' hk'
    refine ⟨st', ?_, b, c⟩
    simp only [foldM']
    rw [show st = (st.1, st.2) from rfl, hm]
    exact a

/-- the shape of an expression for which `is_constant` holds -/
theorem isConstant_shape (e : Expr) (h : isConstant e = true) :
    e = [] ∨ ∃ k, (∃ pre tail suf, e = pre ++ tail :: suf ∧ tail.kind = k ∧ tail.isConstant = true ∧ tail.op ≠ .fallback
        ∧ ∀ r ∈ suf, is0024 r.time = true ∧ r.kind = k)
      ∨ (k = .closed ∧ ∀ r ∈ e, is0024 r.time = true ∧ r.kind = k) := by
  unfold isConstant at h
  cases hl : e.getLast? with
  | none => left; exact List.getLast?_eq_none_iff.1 hl
  | some last =>
    right
    refine ⟨last.kind, ?_⟩
    rw [hl] at h
    simp only [] at h
    cases hf : e.reverse.find? (fun rs => rs.day.isEmpty || !is0024 rs.time || rs.kind != last.kind) with
    | none =>
      right
      rw [hf] at h
      simp only [beq_iff_eq] at h
      refine ⟨h, ?_⟩
      intro r hr
      rw [List.find?_eq_none] at hf
      have := hf r (List.mem_reverse.2 hr)
      simp only [Bool.or_eq_true, Bool.not_eq_true', bne_iff_ne, ne_eq, not_or, Bool.not_eq_false,
        Decidable.not_not] at this
      exact ⟨this.1.2, this.2⟩
    | some tail =>
      left
      rw [hf] at h
      simp only [Bool.and_eq_true, beq_iff_eq, bne_iff_ne, ne_eq] at h
      obtain ⟨⟨h1, h2⟩, h3⟩ := h
      rw [List.find?_eq_some_iff_append] at hf
      obtain ⟨_, as, bs, hrev, has⟩ := hf
      refine ⟨bs.reverse, tail, as.reverse, ?_, h1, h2, h3, ?_⟩
      · have := congrArg List.reverse hrev
        simpa using this
      · intro r hr
        have := has r (List.mem_reverse.1 hr)
        simp only [Bool.not_eq_true', Bool.or_eq_false_iff, Bool.not_eq_false', bne_eq_false_iff_eq] at this
        exact ⟨this.1.2, this.2⟩

/-- PART (d): when `is_constant` holds, every day of the supported window is a single-kind day, the
same kind for all days -/
theorem scheduleAt_const (ctx : Ctx) (e : Expr) (hw : ParserWF e = true) (hdt : ExprDatedOK e) (hc : isConstant e = true) :
    ∃ k, ∀ D, dateStart ≤ D → D < dateEnd → ∃ s, scheduleAt ctx e D = .ok s ∧ GoodS s ∧ DayKind s k := by
  have hmin := minDay_eq
  have hds := Cal.dateStart_eq
  have hrules := parserWF_rules hw
  have hsufOK : ∀ (k : Kind) (suf : Expr), (∀ r ∈ suf, r ∈ e) → (∀ r ∈ suf, is0024 r.time = true ∧ r.kind = k) →
      ∀ D, ∀ r ∈ suf, SuffixRule ctx D k r := by
    intro k suf hsub hs D r hr
    exact ⟨(hs r hr).1, (hs r hr).2, r.filter_total ctx (hrules r (hsub r hr)) (hdt r (hsub r hr)) D,
      r.filter_total ctx (hrules r (hsub r hr)) (hdt r (hsub r hr)) (D - 1)⟩
  rcases isConstant_shape e hc with rfl | ⟨k, ⟨pre, tail, suf, rfl, hk, htc, hop, hsuf⟩ | ⟨hk, hall⟩⟩
  · simp [ParserWF] at hw
  · refine ⟨k, fun D hD1 hD2 => ?_⟩
    have hD : minDay < D := by omega
    -- the rules before the tail: some well-formed state
    obtain ⟨st1, a1, g1⟩ := foldM'_sched ctx D hD pre (fun r hr => hrules r (by simp [hr]))
      (fun r hr => hdt r (by simp [hr])) (false, none) (by intro s hs; cases hs)
    -- the tail
    simp only [Rule.isConstant, Bool.and_eq_true] at htc
    obtain ⟨him, hne⟩ := is0024_immutable htc.2
    have ht := tail.day.filter_empty ctx htc.1 D
    have hy := tail.day.filter_empty ctx htc.1 (D - 1)
    have he := ruleScheduleAt_eq ctx tail D hD true true ht hy
    obtain ⟨m, hm⟩ := scheduleStep_eq ctx D tail st1.1 st1.2 true _ ht he
    have hce := ruleSchedOf_good ctx tail D true true
    have g2 := stepEval_good tail st1.2 true _ g1 hce
    have hu := ruleSchedOf_immutable ctx tail D true true him hne
    simp only [if_true, hk] at hu
    have k2 := stepEval_dayKind_force tail st1.2 _ k hop g1 hce hu
    -- the rules after the tail
    obtain ⟨st3, a3, g3, k3⟩ := fold_suffix ctx D hD k suf
      (hsufOK k suf (fun r hr => by simp [hr]) hsuf D)
      (m, stepEval tail st1.2 true (ruleSchedOf ctx tail D true true)) g2 k2
    unfold scheduleAt
    simp only [hD1, hD2, and_self, decide_true, Bool.not_true, Bool.false_eq_true, if_false]
    rw [foldM'_append, a1]
    simp only [M.bind_ok, foldM']
    rw [show st1 = (st1.1, st1.2) from rfl, hm]
    simp only [M.bind_ok]
    rw [a3]
    exact ⟨_, rfl, goodO_getD g3, k3⟩
  · refine ⟨k, fun D hD1 hD2 => ?_⟩
    have hD : minDay < D := by omega
    obtain ⟨st3, a3, g3, k3⟩ := fold_suffix ctx D hD k e (hsufOK k e (fun r hr => hr) hall D) (false, none)
      (by intro s hs; cases hs) (by intro m _; rw [hk]; rfl)
    unfold scheduleAt
    simp only [hD1, hD2, and_self, decide_true, Bool.not_true, Bool.false_eq_true, if_false, a3, M.bind_ok]
    exact ⟨_, rfl, goodO_getD g3, k3⟩

end OH.Model
